//go:build verif

package main

import (
	"fmt"
	"strings"

	"github.com/pentops/j5/internal/verifh/vh"
)

// ---------------------------------------------------------------------------------------------
// Structural mutations. They work on the lines of a file whose statements each sit on their own
// line (true of everything generators (a)-(c) print): a line is a block header (`kw tags… {` or
// without body), an assignment, a description line, a comment or a closing brace. Every mutation
// keeps the text inside the BCL grammar (braces stay balanced, statements stay whole), so the walk
// is reached and the difference is one of schema, not of syntax.

type lineKind int

const (
	lkOther lineKind = iota
	lkHeaderOpen
	lkHeader
	lkAssign
	lkDesc
	lkClose
)

func classifyLine(l string) lineKind {
	t := strings.TrimSpace(l)
	switch {
	case t == "":
		return lkOther
	case t == "}":
		return lkClose
	case strings.HasPrefix(t, "|"):
		return lkDesc
	case strings.HasPrefix(t, "//") || strings.HasPrefix(t, "/*"):
		return lkOther
	}
	// strip strings so that = and { inside them do not count
	var b strings.Builder
	in := false
	for i := 0; i < len(t); i++ {
		c := t[i]
		if c == '\\' && in {
			i++
			continue
		}
		if c == '"' {
			in = !in
			continue
		}
		if !in {
			b.WriteByte(c)
		}
	}
	s := b.String()
	if i := strings.Index(s, "|"); i >= 0 {
		s = s[:i]
	}
	if strings.Contains(s, "=") {
		return lkAssign
	}
	if strings.HasSuffix(strings.TrimSpace(s), "{") {
		return lkHeaderOpen
	}
	return lkHeader
}

func indentOf(l string) string {
	return l[:len(l)-len(strings.TrimLeft(l, " \t"))]
}

var wrongKeywords = []string{"objekt", "fields", "Field", "option", "field", "object", "oneof", "enum", "entity", "service", "topic", "method",
	"message", "key", "data", "status", "event", "command", "summary", "query", "request", "response", "reply", "import", "package",
	"properties", "schemas", "elements", "options", "items", "itemSchema", "ref", "rules", "listRules", "ext", "schema", "def", "string",
	"required", "name", "description", "type", "x", "true", "é"}

var typeWordsAll = []string{"string", "bool", "bytes", "date", "decimal", "timestamp", "any", "integer", "float", "key", "object", "oneof",
	"enum", "array", "map", "strin", "Object", "int32", "ref", "schema"}

var qualifierChains = []string{":string", ":INT32", ":INT64", ":UINT32", ":UINT64", ":FLOAT32", ":FLOAT64", ":FORMAT_INT32", ":INT128",
	":id62", ":uuid", ":informal", ":custom", ":Foo", ":foo.v1.Foo", ":object:Foo", ":array:string", ":string:string", ":key:id62", ":key:uuid:x",
	":object", ":integer:INT32", ":float:FLOAT64", ":map:string", ":array:array:object:Foo", ":enum:Kind", ":oneof:Choice", ":\"quoted\"",
	":!string", ":?Foo", ":a.b.c.D", ":any", ":bool:x", ":alias", ":1x"}

// statements that can be dropped into any body
func (g *gen) looseStatement(ind string) []string {
	h := g.h
	w := func() string { return vh.Pick(h, g.vocab) }
	switch c := h.Rng.IntN(34); {
	case c < 2:
		return []string{ind + "required {", ind + "}"}
	case c < 4:
		return []string{ind + "required.x = true"}
	case c < 5:
		return []string{ind + vh.Pick(h, []string{"name", "description", "optional", "format", "prefix", "number"}) + " {", ind + "}"}
	case c < 6:
		return []string{ind + vh.Pick(h, []string{"name", "description", "required", "httpPath", "number"}) + "." + w() + " = " + g.literal()}
	case c < 9:
		return []string{ind + w() + " = " + g.literal()}
	case c < 11:
		return []string{ind + w() + "." + w() + " = " + g.literal()}
	case c < 12:
		return []string{ind + w() + " += " + g.literal()}
	case c < 14:
		return []string{ind + "| a description line", ind + "| and another"}
	case c < 15:
		return []string{ind + "unknownAttribute = 1"}
	case c < 17:
		return []string{ind + vh.Pick(h, []string{"required", "optional", "explicitlyOptional", "flatten", "primary", "shardKey", "eventsInGet"}) + " = " + g.literal()}
	case c < 19:
		return []string{ind + vh.Pick(h, []string{"name", "description", "prefix", "basePath", "httpPath", "httpMethod", "tenant", "foreign", "entityName", "baseUrlPath", "format"}) + " = " + g.literal()}
	case c < 21:
		return []string{ind + vh.Pick(h, []string{"ref", "entity.entity", "foreign", "def", "schema", "items", "object", "package", "auth", "options"}) + " = " + g.literal()}
	case c < 23:
		return []string{ind + vh.Pick(h, []string{"rules.minimum", "rules.maximum", "rules.minLength", "rules.pattern", "rules.in", "rules.const", "rules.minItems",
			"rules.multipleOf", "number", "anyMember", "defaultStatusFilter", "protoField", "types", "rules.notIn"}) + vh.Pick(h, []string{" = ", " = ", " += "}) + g.literal()}
	case c < 25:
		kw := w()
		if h.Chance(1, 2) {
			kw = vh.Pick(h, g.kws)
		}
		return []string{ind + kw + g.randTags() + " {", ind + "}"}
	case c < 26:
		kw := vh.Pick(h, g.kws)
		return []string{ind + kw + g.randTags() + " | trailing description"}
	case c < 27:
		return []string{ind + vh.Pick(h, g.kws) + g.randTags()}
	case c < 28:
		return []string{ind + "field extra" + vh.Pick(h, []string{"", " !", " ?"}) + " " + vh.Pick(h, typeWordsAll) + vh.Pick(h, append([]string{"", "", ""}, qualifierChains...))}
	case c < 29:
		return []string{ind + "option extra " + vh.Pick(h, typeWordsAll)}
	case c < 30:
		return []string{ind + "ref = foo.v1.Bar"}
	case c < 32: // the second member of a proto oneof (ObjectField.schema, EntityKey.type, KeyFormat, Field.type, RootElement …)
		return []string{ind + vh.Pick(h, []string{"ref.schema = \"Other\"", "object.name = \"Other\"", "oneof.name = \"Other\"", "enum.name = \"Other\"",
			"foreign = \"a.v1.B\"", "primary = true", "entity.primaryKey = true", "entity.foreignKey.entity = \"x\"", "schema.bool.rules.const = true",
			"schema.string.format = \"x\"", "type.publish.messages.name = \"X\"", "type.upsert.entityName = \"x\""})}
	default:
		k := vh.Pick(h, []string{"format.uuid", "format.id62", "format.informal", "format.custom", "schema.object", "schema.string", "items.bool", "itemSchema.key",
			"type.reqres", "auth.none", "auth.cookie", "auth.custom", "elements.entity", "schemas.oneof", "object", "enum", "oneof"})
		return []string{ind + k + " {", ind + "}"}
	}
}

func (g *gen) randTags() string {
	h := g.h
	s := ""
	for k := h.Rng.IntN(4); k > 0; k-- {
		s += " " + vh.Pick(h, []string{"", "", "", "!", "?"}) + vh.Pick(h, []string{"Foo", "bar", "string", "object", "a.b", "\"str\"", "x1", "publish", "true", "integer"})
	}
	if h.Chance(1, 3) {
		s += " " + vh.Pick(h, qualifierChains)[1:]
		s = strings.TrimRight(s, " ")
	}
	if h.Chance(1, 3) {
		s += vh.Pick(h, qualifierChains)
	}
	return s
}

func (g *gen) literal() string {
	h := g.h
	switch c := h.Rng.IntN(28); {
	case c < 4:
		return vh.Pick(h, []string{"true", "false"})
	case c < 8:
		return vh.Pick(h, []string{`"str"`, `""`, `"a.b.C"`, `"GET"`, `"HTTP_METHOD_POST"`, `"FORMAT_INT32"`, `"INT32"`, `"é\"x"`, `"2020-01-01"`, `"1.5"`, `"true"`, `"STATE"`, `"UNSPECIFIED"`, `"ENTITY_PART_DATA"`, `"nope"`})
	case c < 13:
		return vh.Pick(h, []string{"0", "1", "42", "007", "2147483647", "2147483648", "4294967295", "4294967296", "9223372036854775807",
			"9223372036854775808", "18446744073709551615", "18446744073709551616", "99999999999999999999999", "٣"})
	case c < 17:
		return vh.Pick(h, []string{"1.5", "0.0", "3.", "0.1", "1.0000000000000002", "16777217.0", "340282350000000000000000000000000000000.0",
			"340282356779733661637539395458142568448.0", "179769313486231580000000000000000000000000000000000000000000000000000000000000000000000000000000000000000000000000000000000000000000000000000000000000000000000000000000000000000000000000000000000000000000000000000000000000000000000000000000000000000000000000000000000000000000000000000000000.0",
			"0.000000000000000000000000000000000000000000001", "123456789.123456789", "00.50", "4.9406564584124654"})
	case c < 20:
		return vh.Pick(h, []string{"foo", "foo.v1.Bar", "Bar", "a.b.c.d.E", "GET", "INT32", "STATE", "KEYS", "FLOAT64", "x"})
	case c < 24:
		n := h.Rng.IntN(4)
		var es []string
		for k := 0; k < n; k++ {
			es = append(es, vh.Pick(h, []string{`"a"`, `"b"`, "1", "true", "foo", "foo.Bar", "2.5", `["n"]`, "A", "B"}))
		}
		return "[" + strings.Join(es, ", ") + "]"
	case c < 25:
		return vh.Pick(h, []string{"/regex/", "/a.b/"})
	case c < 26:
		return "| description as value"
	case c < 27:
		return "// comment as value"
	default:
		return "/* block */"
	}
}

// mutate applies n structural mutations.
func (g *gen) mutate(src string, n int) string {
	lines := strings.Split(strings.TrimRight(src, "\n"), "\n")
	for k := 0; k < n; k++ {
		lines = g.mutateOnce(lines)
	}
	return strings.Join(lines, "\n") + "\n"
}

func (g *gen) pickLine(lines []string, kinds ...lineKind) int {
	var idx []int
	for i, l := range lines {
		lk := classifyLine(l)
		for _, k := range kinds {
			if lk == k {
				idx = append(idx, i)
			}
		}
	}
	if len(idx) == 0 {
		return -1
	}
	return vh.Pick(g.h, idx)
}

func insertAt(lines []string, at int, ins ...string) []string {
	out := make([]string, 0, len(lines)+len(ins))
	out = append(out, lines[:at]...)
	out = append(out, ins...)
	return append(out, lines[at:]...)
}

// blockEnd: index of the line closing the block opened on line i (lkHeaderOpen), or -1.
func blockEnd(lines []string, i int) int {
	depth := 0
	for j := i; j < len(lines); j++ {
		switch classifyLine(lines[j]) {
		case lkHeaderOpen:
			depth++
		case lkClose:
			depth--
			if depth == 0 {
				return j
			}
		}
	}
	return -1
}

func (g *gen) mutateOnce(lines []string) []string {
	h := g.h
	for try := 0; try < 6; try++ {
		switch c := h.Rng.IntN(23); c {
		case 0, 1: // wrong / unknown / other block keyword
			i := g.pickLine(lines, lkHeaderOpen, lkHeader)
			if i < 0 {
				continue
			}
			ind := indentOf(lines[i])
			f := strings.Fields(strings.TrimSpace(lines[i]))
			f[0] = vh.Pick(h, wrongKeywords)
			if h.Chance(1, 4) {
				f[0] = vh.Pick(h, g.vocab)
			}
			lines[i] = ind + strings.Join(f, " ")
			h.Count("mut.keyword")
			return lines
		case 2, 3, 4, 5: // a statement dropped into a body (or at the top level)
			i := g.pickLine(lines, lkHeaderOpen)
			at, ind := 0, ""
			if i >= 0 && !h.Chance(1, 8) {
				ind = indentOf(lines[i]) + "\t"
				at = i + 1
				if e := blockEnd(lines, i); e > i && h.Chance(1, 2) {
					at = e // last statement of the body
				}
			} else {
				at = h.Rng.IntN(len(lines) + 1)
				if at < len(lines) && indentOf(lines[at]) != "" {
					at = len(lines)
				}
			}
			h.Count("mut.insert")
			return insertAt(lines, at, g.looseStatement(ind)...)
		case 6: // duplicate a statement (duplicate singleton child, value already set)
			i := g.pickLine(lines, lkAssign, lkHeader, lkDesc)
			if i < 0 {
				continue
			}
			h.Count("mut.dup-line")
			return insertAt(lines, i+1, lines[i])
		case 7: // duplicate a whole block
			i := g.pickLine(lines, lkHeaderOpen)
			if i < 0 {
				continue
			}
			e := blockEnd(lines, i)
			if e < 0 {
				continue
			}
			h.Count("mut.dup-block")
			cp := append([]string{}, lines[i:e+1]...)
			return insertAt(lines, e+1, cp...)
		case 8: // drop a tag
			i := g.pickLine(lines, lkHeaderOpen, lkHeader)
			if i < 0 {
				continue
			}
			ind := indentOf(lines[i])
			f := strings.Fields(strings.TrimSpace(lines[i]))
			open := f[len(f)-1] == "{"
			if open {
				f = f[:len(f)-1]
			}
			if len(f) < 2 {
				continue
			}
			k := 1 + h.Rng.IntN(len(f)-1)
			f = append(f[:k:k], f[k+1:]...)
			if open {
				f = append(f, "{")
			}
			lines[i] = ind + strings.Join(f, " ")
			h.Count("mut.drop-tag")
			return lines
		case 9: // extra tag
			i := g.pickLine(lines, lkHeaderOpen, lkHeader)
			if i < 0 {
				continue
			}
			ind := indentOf(lines[i])
			f := strings.Fields(strings.TrimSpace(lines[i]))
			k := 1 + h.Rng.IntN(len(f))
			if f[len(f)-1] == "{" && k == len(f) {
				k--
			}
			if k < 1 {
				k = 1
			}
			tag := vh.Pick(h, []string{"Extra", "extra.tag", "\"quoted\"", "string", "object", "true", "x"})
			f = append(f[:k:k], append([]string{tag}, f[k:]...)...)
			lines[i] = ind + strings.Join(f, " ")
			h.Count("mut.extra-tag")
			return lines
		case 10, 11: // ! / ? marks where (not) supported
			i := g.pickLine(lines, lkHeaderOpen, lkHeader)
			if i < 0 {
				continue
			}
			ind := indentOf(lines[i])
			f := strings.Fields(strings.TrimSpace(lines[i]))
			n := len(f)
			if f[n-1] == "{" {
				n--
			}
			if n < 2 {
				continue
			}
			k := 1 + h.Rng.IntN(n-1)
			if f[k] == "!" || f[k] == "?" || f[k] == "|" {
				continue
			}
			mark := vh.Pick(h, []string{"!", "?", "! ", "? "})
			if strings.Contains(f[k], ":") && h.Chance(1, 2) {
				p := strings.LastIndex(f[k], ":")
				f[k] = f[k][:p+1] + strings.TrimSpace(mark) + f[k][p+1:]
			} else {
				f[k] = mark + f[k]
			}
			lines[i] = ind + strings.Join(f, " ")
			h.Count("mut.mark")
			return lines
		case 12, 13: // qualifier chains
			i := g.pickLine(lines, lkHeaderOpen, lkHeader)
			if i < 0 {
				continue
			}
			ind := indentOf(lines[i])
			t := strings.TrimSpace(lines[i])
			desc := ""
			if p := strings.Index(t, " |"); p >= 0 {
				t, desc = t[:p], t[p:]
			}
			open := strings.HasSuffix(t, "{")
			t = strings.TrimSpace(strings.TrimSuffix(t, "{"))
			f := strings.Fields(t)
			last := f[len(f)-1]
			switch h.Rng.IntN(3) {
			case 0: // replace the chain
				if p := strings.Index(last, ":"); p > 0 {
					last = last[:p]
				}
				last += vh.Pick(h, qualifierChains)
			case 1: // extend
				last += vh.Pick(h, qualifierChains)
			default: // cut
				if p := strings.LastIndex(last, ":"); p > 0 {
					last = last[:p]
				} else {
					last += vh.Pick(h, qualifierChains)
				}
			}
			f[len(f)-1] = last
			t = strings.Join(f, " ")
			if open {
				t += " {"
			}
			lines[i] = ind + t + desc
			h.Count("mut.qualifier")
			return lines
		case 14: // missing body: `kw … {` + body + `}` becomes `kw …`
			i := g.pickLine(lines, lkHeaderOpen)
			if i < 0 {
				continue
			}
			e := blockEnd(lines, i)
			if e < 0 {
				continue
			}
			hdr := strings.TrimRight(strings.TrimSuffix(strings.TrimRight(lines[i], " \t"), "{"), " \t")
			if h.Chance(1, 3) {
				hdr += " | described instead"
			}
			out := append(append([]string{}, lines[:i]...), hdr)
			if h.Chance(1, 2) {
				// the body moves to the enclosing block
				out = append(out, lines[i+1:e]...)
			}
			h.Count("mut.drop-body")
			return append(out, lines[e+1:]...)
		case 15: // a body where there was none
			i := g.pickLine(lines, lkHeader)
			if i < 0 {
				continue
			}
			ind := indentOf(lines[i])
			t := strings.TrimRight(lines[i], " \t")
			if p := strings.Index(t, " |"); p >= 0 {
				t = t[:p]
			}
			body := g.looseStatement(ind + "\t")
			h.Count("mut.add-body")
			lines[i] = t + " {"
			return insertAt(lines, i+1, append(body, ind+"}")...)
		case 16, 17: // another literal
			i := g.pickLine(lines, lkAssign)
			if i < 0 {
				continue
			}
			p := strings.Index(lines[i], "=")
			lines[i] = lines[i][:p+1] + " " + g.literal()
			h.Count("mut.literal")
			return lines
		case 18: // = <-> +=
			i := g.pickLine(lines, lkAssign)
			if i < 0 {
				continue
			}
			p := strings.Index(lines[i], "=")
			if p > 0 && lines[i][p-1] == '+' {
				lines[i] = lines[i][:p-1] + lines[i][p:]
			} else {
				lines[i] = lines[i][:p] + "+" + lines[i][p:]
			}
			h.Count("mut.append-op")
			return lines
		case 19: // the key of an assignment: dotted through something, or another word
			i := g.pickLine(lines, lkAssign)
			if i < 0 {
				continue
			}
			ind := indentOf(lines[i])
			t := strings.TrimSpace(lines[i])
			p := strings.IndexAny(t, " =+")
			key, rest := t[:p], t[p:]
			switch h.Rng.IntN(4) {
			case 0:
				key += "." + vh.Pick(h, g.vocab)
			case 1:
				key = vh.Pick(h, g.vocab) + "." + key
			case 2:
				key = vh.Pick(h, g.vocab)
			default:
				if q := strings.LastIndex(key, "."); q > 0 {
					key = key[:q]
				} else {
					key = vh.Pick(h, g.kws)
				}
			}
			lines[i] = ind + key + rest
			h.Count("mut.key")
			return lines
		case 20: // deep nesting: wrap a block
			i := g.pickLine(lines, lkHeaderOpen)
			if i < 0 {
				continue
			}
			e := blockEnd(lines, i)
			if e < 0 {
				continue
			}
			ind := indentOf(lines[i])
			depth := 1 + h.Rng.IntN(3)
			if h.Chance(1, 10) {
				depth = 20 + h.Rng.IntN(40)
			}
			var pre, post []string
			for d := 0; d < depth; d++ {
				pre = append(pre, ind+vh.Pick(h, []string{"object W" + fmt.Sprint(d) + " {", "field w" + fmt.Sprint(d) + " object {", "schemas {", "object {", "def {", "properties {"}))
				post = append(post, ind+"}")
			}
			out := append(append([]string{}, lines[:i]...), pre...)
			out = append(out, lines[i:e+1]...)
			out = append(out, post...)
			h.Count("mut.nest")
			return append(out, lines[e+1:]...)
		case 21: // move a statement somewhere else
			i := g.pickLine(lines, lkAssign, lkHeader, lkDesc)
			if i < 0 || len(lines) < 2 {
				continue
			}
			l := lines[i]
			rest := append(append([]string{}, lines[:i]...), lines[i+1:]...)
			h.Count("mut.move")
			return insertAt(rest, h.Rng.IntN(len(rest)+1), l)
		default: // delete a statement
			i := g.pickLine(lines, lkAssign, lkHeader, lkDesc)
			if i < 0 {
				continue
			}
			h.Count("mut.delete")
			return append(append([]string{}, lines[:i]...), lines[i+1:]...)
		}
	}
	h.Count("mut.none")
	return lines
}

// ------------------------------------------------------------------ vocabulary files

// vocabFile: statements assembled from the walker's own vocabulary, nested a few levels; no
// intention of being valid, every name is one the walker knows somewhere.
func (g *gen) vocabFile() string {
	h := g.h
	var b strings.Builder
	if h.Chance(2, 3) {
		b.WriteString("package foo.v1\n")
	}
	budget := 2 + h.Rng.IntN(10)
	g.vocabBody(&b, "", 0, &budget)
	return b.String()
}

func (g *gen) vocabBody(b *strings.Builder, ind string, depth int, budget *int) {
	h := g.h
	top := []string{"object", "oneof", "enum", "entity", "service", "topic", "import", "elements", "package", "imports", "path", "sourceLocations"}
	inner := []string{"field", "option", "key", "data", "status", "event", "command", "summary", "query", "method", "request", "response", "message", "reply",
		"object", "enum", "oneof", "properties", "schemas", "schema", "def", "ref", "rules", "listRules", "items", "itemSchema", "options", "auth", "info", "format", "entity", "ext"}
	for *budget > 0 {
		*budget--
		if depth > 0 && h.Chance(1, 4) {
			return
		}
		var kw string
		switch c := h.Rng.IntN(10); {
		case c < 4 && depth == 0:
			kw = vh.Pick(h, top)
		case c < 7:
			kw = vh.Pick(h, inner)
		default:
			kw = vh.Pick(h, g.vocab)
		}
		if h.Chance(1, 6) {
			kw += "." + vh.Pick(h, g.vocab)
		}
		switch c := h.Rng.IntN(10); {
		case c < 4:
			b.WriteString(ind + kw + vh.Pick(h, []string{" = ", " = ", " = ", " += "}) + g.literal() + "\n")
		case c < 5:
			b.WriteString(ind + "| " + vh.Pick(h, []string{"text", "more text", ""}) + "\n")
		default:
			hdr := ind + kw
			switch h.Rng.IntN(6) {
			case 0:
			case 1, 2:
				hdr += " " + vh.Pick(h, []string{"Foo", "bar", "fooId", "A", "x.y"})
			case 3, 4:
				hdr += " " + vh.Pick(h, []string{"Foo", "bar", "fooId"}) + " " + vh.Pick(h, []string{"", "! ", "? "}) + vh.Pick(h, typeWordsAll)
				if h.Chance(1, 2) {
					hdr += vh.Pick(h, qualifierChains)
				}
			default:
				hdr += g.randTags()
			}
			switch h.Rng.IntN(5) {
			case 0:
				b.WriteString(hdr + "\n")
			case 1:
				b.WriteString(hdr + " | header description\n")
			default:
				b.WriteString(hdr + " {\n")
				if depth < 5 {
					g.vocabBody(b, ind+"\t", depth+1, budget)
				}
				b.WriteString(ind + "}\n")
			}
		}
	}
}
