//go:build verif

package main

import (
	"strings"

	"github.com/pentops/j5/internal/verifh/vh"
)

// Hand-written top-level elements, one or two constructs each. Most are valid j5s; a few are
// wrong on purpose (marked). They are the raw material of the structural mutations.
var seeds = []string{
	// ---- objects and every field type
	`object Foo {
	| Foo is a thing
	| in two lines

	field fooId key:id62 {
		required = true
	}

	field name string
}`,
	`object Scalars {
	field a ! string
	field b ? integer:INT32
	field c float:FLOAT64 {
		rules.minimum = 1.5
		rules.maximum = 10
		rules.exclusiveMaximum = true
	}
	field c32 float:FLOAT32 {
		rules.multipleOf = 0.1
	}
	field d bool {
		rules.const = true
	}
	field e bytes
	field f date
	field g decimal
	field h timestamp
	field i any
	field j key
	field k key:uuid
	field l integer:UINT64 {
		rules.minimum = 0
		rules.maximum = 18446744073709551615
	}
	field m integer:INT64 {
		rules.minimum = 1
		rules.maximum = 9223372036854775807
		rules.multipleOf = 3
	}
	field n integer:UINT32
}`,
	`object Strings {
	field s string {
		rules.pattern = "^a+$"
		rules.minLength = 1
		rules.maxLength = 10
		format = "email"
	}
	field k key:custom {
		format.custom.pattern = "^[a-z]+$"
	}
	field i key:informal
	field d date {
		rules.minimum = "2020-01-01"
		rules.exclusiveMinimum = true
	}
	field c decimal {
		rules.maximum = "10.5"
	}
	field b bytes {
		rules.minLength = 1
	}
}`,
	`object Refs {
	field a object:Bar
	field b object:bar.v1.Bar
	field c oneof:Choice
	field d enum:Kind
	field e object {
		ref = foo.v1.Bar
	}
	field f object {
		ref.package = "foo.v1"
		ref.schema = "Bar.Inner"
	}
	field g enum:Kind {
		rules.in = ["A", "B"]
		rules.notIn = ["C"]
		listRules.filtering.filterable = true
		listRules.filtering.defaultFilters = ["A"]
	}
}`,
	`object Inline {
	field a object {
		field x string
		field y object {
			field z bool
		}
	}
	field b oneof {
		option p string
		option q object:Bar
	}
	field c enum {
		option A
		option B | with description
	}
	field d object {
		object.name = "Custom"
		flatten = true
		field x string
	}
	field e enum {
		enum.prefix = "E_"
		enum.name = "EE"
		option ONE
	}
}`,
	`object Collections {
	field xs array:string
	field ys array:object:Bar
	field zs array:enum:Kind
	field ws array:object {
		field w integer:INT32
	}
	field vs array {
		field barId key:id62
	}
	field m map:string
	field n map:key:id62
	field o map:object:Bar
	field p array:string {
		rules.minItems = 1
		rules.maxItems = 5
		rules.uniqueItems = true
		items.string.rules.minLength = 2
	}
	field q map:integer:INT32 {
		rules.minPairs = 1
		itemSchema.integer.rules.minimum = 0
	}
	field r array:array:string
}`,
	`object Outer {
	field inner object:Inner

	object Inner {
		field x string

		object Deeper {
			field y bool
		}
	}
}`,
	`object WithEntity {
	field fooId key:id62 {
		entity.primaryKey = true
	}
	field barId key:uuid {
		foreign = "bar.v1.Bar"
		entity.tenantKey = "tenant"
	}
	field state object:FooState {
		entity.entity.package = "foo.v1"
		entity.entity.entity = "foo"
		entity.entityPart = "STATE"
	}
	anyMember = ["foo.v1.Any"]
	entity.entity = "Foo"
	entity.part = "ENTITY_PART_KEYS"
}`,
	`object Explicit {
	field a string {
		optional = true
	}
	field b string {
		explicitlyOptional = true
		description = "b field"
	}
	field c string | described on the header
	properties {
		name = "viaProperty"
		schema.string.format = "uuid"
	}
}`,
	// ---- oneof, enum
	`oneof Choice {
	| one of them
	option a string
	option b object:Bar
	option c object {
		field x bool
	}
}`,
	`enum Kind {
	| kinds
	prefix = "KIND_"
	option A
	option B | the B
	option C {
		number = 5
		description = "see"
		info.colour = "red"
		info.size = "1"
	}
	info {
		name = "colour"
		label = "Colour"
		description = "x"
	}
}`,
	// ---- entity
	`entity Foo {
	| Foo is lorem ipsum

	baseUrlPath = "/foo"

	key fooId key:id62 {
		primary = true
	}

	key accountId key:id62 {
		primary = false
		tenant = "account"
		shardKey = true
	}

	key otherId ! key:uuid {
		foreign = "bar.v1.Bar"
	}

	data name string
	data weight ? float:FLOAT32

	status ACTIVE
	status INACTIVE | not active

	event Create {
		field name string
	}

	event Archive {
	}

	summary {
		name = "FooSummary"
		field name string
	}

	command {
		name = "FooCmd"
		basePath = "/c"
		method Create {
			httpMethod = "POST"
			httpPath = "/create"
			request {
				field name string
			}
			response {
				field foo object:FooState
			}
		}
	}

	query {
		eventsInGet = true
		defaultStatusFilter = ["ACTIVE"]
		listRequest.sortTiebreaker = ["fooId"]
	}

	object Nested {
		field x string
	}

	enum NestedKind {
		option A
	}

	oneof NestedChoice {
		option a string
	}
}`,
	// ---- service, topics
	`service Foo {
	| the service
	basePath = "/foo"

	method GetFoo {
		| gets
		httpMethod = "GET"
		httpPath = "/:fooId"
		auth.none {
		}
		options.stateQuery.get = true

		request {
			field fooId key:id62
		}

		response {
			field foo object:Foo
		}
	}

	method Raw {
		httpMethod = "HTTP_METHOD_PUT"
		httpPath = "/raw"
		request {
		}
		auth.jwtBearer {
		}
	}

	options.stateQuery.entity = "foo"
}`,
	`topic Pub publish {
	message PostFoo {
		| sends foo
		field fooId key:id62
	}
	message Other {
	}
}`,
	`topic Rr reqres {
	request {
		field a string
	}
	reply Done {
		field b bool
	}
}`,
	`topic Up upsert {
	entityName = "foo"
	message {
		field a string
	}
}`,
	`topic Ev event {
	entityName = "foo"
	message FooEvent {
		field a string
	}
}`,
	// ---- raw property paths instead of aliases (what the aliases stand for)
	`elements {
	object {
		name = "Raw"
		description = "by path"
		properties {
			name = "x"
			required = true
			schema.string {
			}
		}
		schemas {
			enum {
				name = "E"
				options {
					name = "A"
					number = 1
				}
			}
		}
	}
}`,
	`elements.object.name = "Dotted"
elements.enum.prefix = "P_"`,
	`path = "other/path.j5s"
package.name = "zed.v9"
imports {
	path = "a.v1"
	alias = "b"
}`,
	`sourceLocations.startLine = 5
sourceLocations {
	endColumn = 2
	children.foo.startLine = 1
	children {
		bar.endLine = 7
		bar.children.baz.startColumn = 3
	}
}`,
	// ---- regression shapes: scalar used as a container (wrong on purpose)
	`object Foo {
	field a string {
		required {
		}
	}
}`,
	`object Foo {
	field a string {
		required.x = true
	}
}`,
	`object Foo {
	name {
	}
}`,
	`object Foo {
	field a object {
		name.x.y = 1
	}
}`,
}

var headers = []string{
	"package foo.v1\n\n", "package foo.v1\n\n", "package foo.v1\n\n", "", "package foo.bar.v1\n", "package \"quoted.v1\"\n",
	"package foo.v1\n\nimport bar.v1\nimport baz.qux.v1:qux\nimport \"bar/v1/bar.proto\"\n\n",
	"import bar.v1\n", "package foo.v1 | described\n", "package foo.v1 {\n}\n", "package foo.v1\npackage foo.v2\n",
	"package {\n\tname = \"foo.v1\"\n}\n", "package\n",
}

func (g *gen) seedFile(n int) string {
	h := g.h
	var b strings.Builder
	b.WriteString(vh.Pick(h, headers))
	for k := 0; k < n; k++ {
		b.WriteString(vh.Pick(h, seeds))
		b.WriteString("\n")
		if h.Chance(1, 2) {
			b.WriteString("\n")
		}
	}
	return b.String()
}
