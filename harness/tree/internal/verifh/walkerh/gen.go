//go:build verif

package main

import (
	"fmt"
	"os"
	"path/filepath"
	"sort"
	"strings"

	"github.com/pentops/j5/internal/bcl/verifwalker"
	"github.com/pentops/j5/internal/verifh/j5sgen"
	"github.com/pentops/j5/internal/verifh/vh"
)

// ---------------------------------------------------------------------------------------------
// Generator of `walk HEX(filename) HEX(source)` ops. Every random choice comes from h.Rng.
//
//   (a) gen.j5sgen*   files printed by the compile cluster's generator (every surface style)
//   (b) gen.repo*     the .j5s files of /repo, whole and as windows
//   (c) gen.seed*     small hand-written files, one construct each
//   each of them plain or with 1-3 structural mutations that stay inside the BCL grammar
//   (mut.* counters), plus gen.vocab (files assembled from the walker's own vocabulary: every
//   property and alias name of the schema closure) and a small share of token-level noise.

type gen struct {
	h     *vh.H
	repo  []string
	vocab []string // property names + alias names of the closure of SourceFile
	kws   []string // alias names of the spec (block keywords)
}

func newGen(h *vh.H) *gen {
	g := &gen{h: h}
	g.loadRepo()
	g.vocab, g.kws = verifwalker.Vocabulary()
	return g
}

func (g *gen) loadRepo() {
	root := os.Getenv("VERIF_REPO")
	if root == "" {
		root = "/repo"
	}
	var files []string
	filepath.WalkDir(root, func(p string, d os.DirEntry, err error) error {
		if err != nil {
			return nil
		}
		if d.IsDir() {
			n := d.Name()
			if n == ".git" || n == "node_modules" {
				return filepath.SkipDir
			}
			return nil
		}
		if strings.HasSuffix(p, ".j5s") {
			files = append(files, p)
		}
		return nil
	})
	sort.Strings(files)
	for _, f := range files {
		if b, err := os.ReadFile(f); err == nil && len(b) > 0 {
			g.repo = append(g.repo, string(b))
		}
	}
	if len(g.repo) == 0 {
		g.repo = []string{"package foo.v1\n\nobject Foo {\n\t| desc\n\tfield bar string {\n\t\trequired = true\n\t}\n}\n"}
	}
}

var fileNames = []string{"foo/v1/a.j5s", "foo/v1/a.j5s", "foo/v1/a.j5s", "a.j5s", "foo/bar/v1/x.j5s", "/abs/v1/f.j5s", "", "dir/", "a//b/c.j5s", "é/v1/ü.j5s", "./x/y.j5s", "\xff\xfe/v1/a.j5s", "a.b/c.d/e.j5s", "foo/v1/"}

func (g *gen) op(name, src string) string {
	return "walk " + vh.Hex([]byte(name)) + " " + vh.Hex([]byte(src))
}

func (g *gen) next(i int) string {
	h := g.h
	name := vh.Pick(h, fileNames)
	var src string
	if h.Rng.IntN(2500) == 0 {
		h.Count("gen.stress")
		return g.op("foo/v1/a.j5s", g.stress())
	}
	c := h.Rng.IntN(100)
	switch {
	case c < 14:
		h.Count("gen.j5sgen")
		name, src = g.j5sFile()
	case c < 30:
		h.Count("gen.j5sgen+mut")
		name, src = g.j5sFile()
		src = g.mutate(src, 1+h.Rng.IntN(3))
	case c < 34:
		h.Count("gen.repo")
		src = g.repoWindow()
	case c < 42:
		h.Count("gen.repo+mut")
		src = g.mutate(g.repoWindow(), 1+h.Rng.IntN(3))
	case c < 50:
		h.Count("gen.seed")
		src = g.seedFile(1 + h.Rng.IntN(3))
	case c < 78:
		h.Count("gen.seed+mut")
		src = g.mutate(g.seedFile(1+h.Rng.IntN(2)), 1+h.Rng.IntN(3))
	case c < 92:
		h.Count("gen.vocab")
		src = g.vocabFile()
	case c < 94:
		h.Count("gen.trivial")
		src = vh.Pick(h, []string{"", "\n", "// only a comment\n", "/* block */", "// a\n// b\n\n", " \t\n", "package foo.v1\n", "| description\n", "}", "{", "x"})
	default:
		h.Count("gen.noise")
		switch h.Rng.IntN(3) {
		case 0:
			_, src = g.j5sFile()
		case 1:
			src = g.seedFile(1 + h.Rng.IntN(2))
		default:
			src = g.repoWindow()
		}
		src = g.noise(src)
	}
	return g.op(name, src)
}

// ------------------------------------------------------------------ (a) compile cluster generator

func (g *gen) j5sFile() (string, string) {
	h := g.h
	cfg := j5sgen.DefaultConfig()
	cfg.MaxPkgs = 1
	cfg.MaxFiles = 1 + h.Rng.IntN(2)
	cfg.MaxElems = 1 + h.Rng.IntN(4)
	cfg.MaxProps = 1 + h.Rng.IntN(6)
	cfg.ProtoFiles = false
	cfg.Rules = h.Chance(1, 2)
	cfg.OddEntNames = h.Chance(1, 8)
	b := j5sgen.New(h.Rng, cfg).Bundle()
	pkg := b.Pkgs[h.Rng.IntN(len(b.Pkgs))]
	var files []*j5sgen.File
	for _, f := range pkg.Files {
		if !f.Proto {
			files = append(files, f)
		}
	}
	if len(files) == 0 {
		return "foo/v1/a.j5s", "package foo.v1\n"
	}
	f := vh.Pick(h, files)
	var style uint64
	if !h.Chance(1, 5) {
		style = 1 + h.Rng.Uint64N(1<<40)
	}
	return f.Path, j5sgen.PrintFile(f, pkg.Name, style)
}

// ------------------------------------------------------------------ (b) repo files

func (g *gen) repoWindow() string {
	h := g.h
	s := vh.Pick(h, g.repo)
	if h.Chance(1, 3) {
		return s
	}
	lines := strings.Split(s, "\n")
	// windows that start at a top-level or first-level line and end where the braces balance
	var starts []int
	for i, l := range lines {
		t := strings.TrimSpace(l)
		if t != "" && t != "}" && !strings.HasPrefix(t, "|") && !strings.HasPrefix(t, "//") {
			starts = append(starts, i)
		}
	}
	if len(starts) == 0 {
		return s
	}
	st := vh.Pick(h, starts)
	depth := 0
	end := st
	for end < len(lines) {
		depth += strings.Count(lines[end], "{") - strings.Count(lines[end], "}")
		end++
		if depth <= 0 && (h.Chance(1, 2) || end == len(lines)) {
			break
		}
	}
	w := lines[st:end]
	for ; depth > 0; depth-- {
		w = append(w, "}")
	}
	return strings.Join(w, "\n") + "\n"
}

// ------------------------------------------------------------------ stress: depth, length, width

func (g *gen) stress() string {
	h := g.h
	size := 100 + h.Rng.IntN(300)
	if h.Tier == "thorough" {
		size = 500 + h.Rng.IntN(2500)
	}
	var b strings.Builder
	switch h.Rng.IntN(5) {
	case 0: // nested declarations
		for i := 0; i < size; i++ {
			fmt.Fprintf(&b, "object A%d {\n", i)
		}
		b.WriteString(strings.Repeat("}\n", size))
	case 1: // nested inline objects
		b.WriteString("object A {\n")
		for i := 0; i < size; i++ {
			fmt.Fprintf(&b, "field f%d object {\n", i)
		}
		b.WriteString(strings.Repeat("}\n", size+1))
	case 2: // one long dotted path
		b.WriteString("object A {\nfield f object {\n")
		b.WriteString(strings.Repeat("object.properties.schema.object.", size/4))
		b.WriteString("ref = a.B\n}\n}\n")
	case 3: // many statements in one body
		b.WriteString("enum E {\n")
		for i := 0; i < size*4; i++ {
			fmt.Fprintf(&b, "option A%d\n", i)
		}
		b.WriteString("}\n")
	default: // a long array value and a long qualifier chain
		b.WriteString("object A {\nanyMember = [")
		for i := 0; i < size*4; i++ {
			if i > 0 {
				b.WriteString(", ")
			}
			fmt.Fprintf(&b, "\"m%d\"", i)
		}
		b.WriteString("]\nfield f array" + strings.Repeat(":array", size/10) + ":string\n}\n")
	}
	return b.String()
}

// ------------------------------------------------------------------ token-level noise

func (g *gen) noise(s string) string {
	h := g.h
	rs := []rune(s)
	for k := 1 + h.Rng.IntN(3); k > 0 && len(rs) > 0; k-- {
		p := h.Rng.IntN(len(rs))
		switch h.Rng.IntN(4) {
		case 0:
			rs = append(rs[:p:p], rs[p+1:]...)
		case 1:
			ins := vh.Pick(h, []rune{'"', '\\', '/', '|', '{', '}', '\n', '\t', ' ', 'é', '=', '[', ']', ',', '.', ':', '!', '?', '+', '*', '1', 'x', '#'})
			rs = append(rs[:p:p], append([]rune{ins}, rs[p:]...)...)
		case 2:
			q := h.Rng.IntN(len(rs))
			rs[p], rs[q] = rs[q], rs[p]
		default:
			rs[p] = vh.Pick(h, []rune{' ', '\n', '.', ':', '=', '{', '}', '!', '?', 'a', '0', '"'})
		}
	}
	return string(rs)
}

