//go:build verif

package main

import (
	"strings"

	"github.com/pentops/j5/internal/verifh/j5sgen"
	"github.com/pentops/j5/internal/verifh/vh"
)

// ---------------------------------------------------------------------------------------------
// The fragment test of the Lean side (`supported` in lean/J5V/Walker/Print.lean), written again in Go:
// both sides must give the same verdict on every op, and on the Go side a supported file that the
// real parser does not accept is the oracle failure `print-rejected`. Keep the two in step.

func isAsciiLetter(b byte) bool { return (b >= 'A' && b <= 'Z') || (b >= 'a' && b <= 'z') }
func isAsciiDigit(b byte) bool  { return b >= '0' && b <= '9' }

func isIdent(s string) bool {
	if s == "" || !isAsciiLetter(s[0]) {
		return false
	}
	for i := 1; i < len(s); i++ {
		if !isAsciiLetter(s[i]) && !isAsciiDigit(s[i]) && s[i] != '_' {
			return false
		}
	}
	return true
}

func isDotted(s string) bool {
	for _, p := range strings.Split(s, ".") {
		if !isIdent(p) {
			return false
		}
	}
	return true
}

func okString(s string) bool {
	for i := 0; i < len(s); i++ {
		if s[i] >= 128 || s[i] == '\n' {
			return false
		}
	}
	return true
}

func allOK(xs []string, f func(string) bool) bool {
	for _, x := range xs {
		if !f(x) {
			return false
		}
	}
	return true
}

func supRules(kind string, rules []j5sgen.Rule) bool {
	seen := map[string]bool{}
	for _, r := range rules {
		if !isIdent(r.Name) || seen[r.Name] {
			return false
		}
		seen[r.Name] = true
		target := ""
		for _, s := range rulesOf[kind] {
			if s.name == r.Name {
				target = s.kind
			}
		}
		switch target {
		case "u64", "f64":
			if r.Lit.Kind != "i" {
				return false
			}
		case "i64":
			if r.Lit.Kind != "i" || r.Lit.N >= 1<<63 {
				return false
			}
		case "b":
			if r.Lit.Kind != "b" {
				return false
			}
		case "s":
			if r.Lit.Kind != "s" || !okString(r.Lit.S) {
				return false
			}
		case "strs":
			if r.Lit.Kind != "strs" || len(r.Lit.Strs) == 0 || !allOK(r.Lit.Strs, okString) {
				return false
			}
		default:
			return false
		}
	}
	return true
}

func supRef(t *j5sgen.TRef) bool {
	if strings.Contains(t.Schema, ".") {
		return okString(t.Schema) && okString(t.Pkg)
	}
	return isIdent(t.Schema) && (t.Pkg == "" || isDotted(t.Pkg))
}

func supField(f *j5sgen.Field) bool {
	if f.Kind == j5sgen.FAny {
		return true // `any` carries no rules on the wire
	}
	if !supRules(f.Kind, f.Rules) {
		return false
	}
	switch f.Kind {
	case j5sgen.FKey:
		if f.Fmt == "custom" && !okString(f.Pattern) {
			return false
		}
		if ek := f.EntKey; ek != nil {
			if ek.Kind == "foreign" && (!okString(ek.FPkg) || !okString(ek.FEntity) || strings.Contains(ek.FEntity, ".")) {
				return false
			}
			if ek.Tenant != nil && !okString(*ek.Tenant) {
				return false
			}
		}
	case j5sgen.FObject, j5sgen.FOneof, j5sgen.FEnum:
		if f.Kind == j5sgen.FEnum && f.HasList && !allOK(f.ListFilters, okString) {
			return false
		}
		t := f.Ref
		switch t.Kind {
		case j5sgen.RRef:
			return supRef(t)
		case j5sgen.RInlObj, j5sgen.RInlOneof:
			return okString(t.Name) && supProps(t.Props)
		case j5sgen.RInlEnum:
			return okString(t.Name) && okString(t.Prefix) && allOK(t.Opts, isIdent)
		}
	case j5sgen.FArray, j5sgen.FMap:
		if f.Items.Kind == j5sgen.FArray || f.Items.Kind == j5sgen.FMap {
			return false
		}
		return supField(f.Items)
	}
	return true
}

func supProp(p *j5sgen.Prop) bool { return isIdent(p.Name) && supField(p.Field) }

func supProps(ps []*j5sgen.Prop) bool {
	for _, p := range ps {
		if !supProp(p) {
			return false
		}
	}
	return true
}

func supEnum(e *j5sgen.Enum) bool {
	return isIdent(e.Name) && okString(e.Prefix) && allOK(e.Opts, isIdent)
}

// supNested: inObject = written inside an `object` / `event` block, where only `object` may be nested.
func supNested(es []*j5sgen.Elem, inObject bool) bool {
	for _, e := range es {
		switch e.Kind {
		case j5sgen.KObject:
			if !supObject(e.Object) {
				return false
			}
		case j5sgen.KOneof:
			if inObject || !supObject(e.Object) {
				return false
			}
		case j5sgen.KEnum:
			if inObject || !supEnum(e.Enum) {
				return false
			}
		default:
			return false
		}
	}
	return true
}

func supObject(o *j5sgen.Object) bool {
	if !isIdent(o.Name) || !supProps(o.Props) {
		return false
	}
	if o.Oneof {
		return len(o.Nested) == 0
	}
	return supNested(o.Nested, true)
}

func supService(s *j5sgen.Service, named bool) bool {
	if named {
		if !isIdent(s.Name) {
			return false
		}
	} else if !okString(s.Name) {
		return false
	}
	if s.BasePath != nil && !okString(*s.BasePath) {
		return false
	}
	for _, m := range s.Methods {
		switch m.Verb {
		case "get", "post", "put", "patch", "delete":
		default:
			return false
		}
		if !isIdent(m.Name) || !okString(m.Path) || !supProps(m.Req) || (m.HasRes && !supProps(m.Res)) {
			return false
		}
	}
	return true
}

func supMsgs(ms []*j5sgen.TMsg) bool {
	for _, m := range ms {
		if (m.Name != nil && !isIdent(*m.Name)) || !supProps(m.Props) {
			return false
		}
	}
	return true
}

func supElem(e *j5sgen.Elem) bool {
	switch e.Kind {
	case j5sgen.KObject, j5sgen.KOneof:
		return supObject(e.Object)
	case j5sgen.KEnum:
		return supEnum(e.Enum)
	case j5sgen.KService:
		return supService(e.Service, true)
	case j5sgen.KTopic:
		t := e.Topic
		if !isIdent(t.Name) {
			return false
		}
		switch t.Kind {
		case "publish":
			return supMsgs(t.Msgs)
		case "upsert":
			return len(t.Msgs) == 1 && supMsgs(t.Msgs)
		case "reqres":
			return supMsgs(t.Reqs) && supMsgs(t.Reps)
		}
		return false
	case j5sgen.KEntity:
		en := e.Entity
		if !isIdent(en.Name) || !okString(en.BaseURL) || !supProps(en.Data) || !allOK(en.Statuses, isIdent) {
			return false
		}
		for _, k := range en.Keys {
			if !supProp(k.Prop) {
				return false
			}
		}
		for _, ev := range en.Events {
			if ev.Oneof || !supObject(ev) {
				return false
			}
		}
		for _, c := range en.Commands {
			if !supService(c, false) {
				return false
			}
		}
		for _, s := range en.Summaries {
			if !okString(s.Name) || !supProps(s.Props) {
				return false
			}
		}
		if en.Query != nil && !allOK(en.Query.Filters, okString) {
			return false
		}
		return supNested(en.Nested, false)
	}
	return false
}

// supportedFile: DeclPkg is the package name the printer writes.
func supportedFile(f *j5sgen.File) bool {
	if f.Proto || !isDotted(f.DeclPkg) {
		return false
	}
	for _, im := range f.Imports {
		if strings.Contains(im.Path, "/") {
			if !okString(im.Path) {
				return false
			}
		} else if !isDotted(im.Path) || (im.Alias != "" && !isIdent(im.Alias)) {
			return false
		}
	}
	for _, e := range f.Elems {
		if !supElem(e) {
			return false
		}
	}
	return true
}

// ---------------------------------------------------------------------------------------------
// near misses: a supported file with ONE change that leaves the fragment

var badNames = []string{"", "1x", "a-b", "a.b", "_a", "é", "a b", "x!"}
var badStrings = []string{"line\nbreak", "é", "\xff"}

type propSite struct{ p *j5sgen.Prop }

func collectProps(ps []*j5sgen.Prop, out *[]*j5sgen.Prop) {
	for _, p := range ps {
		*out = append(*out, p)
		collectField(p.Field, out)
	}
}

func collectField(f *j5sgen.Field, out *[]*j5sgen.Prop) {
	if f.Ref != nil {
		collectProps(f.Ref.Props, out)
	}
	if f.Items != nil {
		collectField(f.Items, out)
	}
}

func collectObject(o *j5sgen.Object, out *[]*j5sgen.Prop, objs *[]*j5sgen.Object) {
	*objs = append(*objs, o)
	collectProps(o.Props, out)
	for _, n := range o.Nested {
		if n.Object != nil {
			collectObject(n.Object, out, objs)
		}
	}
}

func collectService(s *j5sgen.Service, out *[]*j5sgen.Prop) {
	for _, m := range s.Methods {
		collectProps(m.Req, out)
		collectProps(m.Res, out)
	}
}

// leaf: the innermost field of a property (through array / map)
func leaf(f *j5sgen.Field) *j5sgen.Field {
	for f.Items != nil {
		f = f.Items
	}
	return f
}

// breakFile applies one fragment-leaving change to f (a fresh, unshared AST); "" = none applicable.
func (g *pgen) breakFile(f *j5sgen.File) string {
	h := g.h
	var props []*j5sgen.Prop
	var objs []*j5sgen.Object
	var svcs []*j5sgen.Service
	for _, e := range f.Elems {
		switch e.Kind {
		case j5sgen.KObject, j5sgen.KOneof:
			collectObject(e.Object, &props, &objs)
		case j5sgen.KService:
			svcs = append(svcs, e.Service)
			collectService(e.Service, &props)
		case j5sgen.KTopic:
			for _, ms := range [][]*j5sgen.TMsg{e.Topic.Msgs, e.Topic.Reqs, e.Topic.Reps} {
				for _, m := range ms {
					collectProps(m.Props, &props)
				}
			}
		case j5sgen.KEntity:
			en := e.Entity
			for _, k := range en.Keys {
				collectProps([]*j5sgen.Prop{k.Prop}, &props)
			}
			collectProps(en.Data, &props)
			for _, ev := range en.Events {
				collectObject(ev, &props, &objs)
			}
			for _, c := range en.Commands {
				collectService(c, &props)
			}
			for _, s := range en.Summaries {
				collectProps(s.Props, &props)
			}
		}
	}
	for try := 0; try < 40; try++ {
		switch h.Rng.IntN(16) {
		case 0:
			f.DeclPkg = vh.Pick(h, []string{"foo..v1", "1foo.v1", "foo.v1.", "a-b.v1", "é.v1"})
			return "decl"
		case 1:
			f.Imports = append(f.Imports, j5sgen.Import{Path: vh.Pick(h, []string{"a-b", "foo..v1", "1x", "é.v1"})})
			return "import-path"
		case 2:
			f.Imports = append(f.Imports, j5sgen.Import{Path: "other.v1", Alias: vh.Pick(h, []string{"1", "a.b", "a-b"})})
			return "import-alias"
		case 3:
			if len(props) > 0 {
				vh.Pick(h, props).Name = vh.Pick(h, badNames)
				return "prop-name"
			}
		case 4:
			if len(objs) > 0 {
				vh.Pick(h, objs).Name = vh.Pick(h, badNames)
				return "type-name"
			}
		case 5, 6, 7, 8:
			if len(props) == 0 {
				continue
			}
			fl := leaf(vh.Pick(h, props).Field)
			specs := rulesOf[fl.Kind]
			switch h.Rng.IntN(7) {
			case 0: // negative literal
				if fl.Kind == j5sgen.FAny {
					continue
				}
				fl.Rules = append(fl.Rules, j5sgen.Rule{Name: "minimum", Lit: j5sgen.Lit{Kind: "neg", N: 1 + uint64(h.Rng.IntN(9))}})
				return "rule-neg"
			case 1: // a rule the type does not have
				if fl.Kind == j5sgen.FAny {
					continue
				}
				fl.Rules = append(fl.Rules, j5sgen.Rule{Name: vh.Pick(h, []string{"nope", "minLengthh", "rules", "a.b", "1"}), Lit: j5sgen.Lit{Kind: "i", N: 1}})
				return "rule-unknown"
			case 2: // wrong literal kind
				if len(specs) == 0 {
					continue
				}
				s := vh.Pick(h, specs)
				var l j5sgen.Lit
				switch s.kind {
				case "b":
					l = j5sgen.Lit{Kind: "i", N: 1}
				case "s", "strs":
					l = j5sgen.Lit{Kind: "b", B: true}
				default:
					l = j5sgen.Lit{Kind: "s", S: "1"}
				}
				fl.Rules = []j5sgen.Rule{{Name: s.name, Lit: l}}
				return "rule-literal-kind"
			case 3: // the same rule twice
				if len(fl.Rules) == 0 {
					continue
				}
				fl.Rules = append(fl.Rules, fl.Rules[0])
				return "rule-twice"
			case 4: // out of range for int64
				if fl.Kind != j5sgen.FInteger {
					continue
				}
				fl.Rules = []j5sgen.Rule{{Name: "maximum", Lit: j5sgen.Lit{Kind: "i", N: 9223372036854775808 + uint64(h.Rng.IntN(5))}}}
				return "rule-range"
			case 5: // empty list
				if fl.Kind != j5sgen.FEnum {
					continue
				}
				fl.Rules = []j5sgen.Rule{{Name: "in", Lit: j5sgen.Lit{Kind: "strs"}}}
				return "rule-empty-list"
			default: // a string the lexer does not give back
				for _, s := range specs {
					if s.kind == "s" {
						fl.Rules = []j5sgen.Rule{{Name: s.name, Lit: j5sgen.Lit{Kind: "s", S: vh.Pick(h, badStrings)}}}
						return "rule-string"
					}
				}
			}
		case 9:
			if len(props) == 0 {
				continue
			}
			fl := leaf(vh.Pick(h, props).Field)
			if fl.Ref != nil && fl.Ref.Kind == j5sgen.RRef {
				switch h.Rng.IntN(3) {
				case 0:
					fl.Ref.Schema = vh.Pick(h, []string{"1x", "a-b", "", "é"})
				case 1:
					fl.Ref.Pkg, fl.Ref.Schema = vh.Pick(h, []string{"a..b", "1a", "a-b"}), "Foo"
				default:
					fl.Ref.Schema = "A." + vh.Pick(h, badStrings)
				}
				return "ref"
			}
		case 10:
			if len(props) == 0 {
				continue
			}
			fl := leaf(vh.Pick(h, props).Field)
			if fl.Kind == j5sgen.FKey {
				fl.EntKey = &j5sgen.EntKey{Kind: "foreign", FPkg: "other.v1", FEntity: vh.Pick(h, []string{"a.b", "x\ny"})}
				return "foreign-entity"
			}
		case 11:
			// nested schemas the parser has no block for
			var cands []*j5sgen.Object
			for _, o := range objs {
				cands = append(cands, o)
			}
			if len(cands) == 0 {
				continue
			}
			o := vh.Pick(h, cands)
			switch h.Rng.IntN(3) {
			case 0:
				o.Nested = append(o.Nested, &j5sgen.Elem{Kind: j5sgen.KEnum, Enum: &j5sgen.Enum{Name: "Inner", Opts: []string{"A"}}})
			case 1:
				o.Nested = append(o.Nested, &j5sgen.Elem{Kind: j5sgen.KOneof, Object: &j5sgen.Object{Oneof: true, Name: "Inner"}})
			default:
				if !o.Oneof {
					continue
				}
				o.Nested = append(o.Nested, &j5sgen.Elem{Kind: j5sgen.KObject, Object: &j5sgen.Object{Name: "Inner"}})
			}
			return "nested"
		case 12:
			if len(svcs) > 0 {
				vh.Pick(h, svcs).Name = vh.Pick(h, badNames)
				return "service-name"
			}
		case 13:
			for _, e := range f.Elems {
				if e.Kind == j5sgen.KEnum {
					e.Enum.Opts = append(e.Enum.Opts, vh.Pick(h, badNames))
					return "enum-option"
				}
				if e.Kind == j5sgen.KEntity {
					e.Entity.Statuses = append(e.Entity.Statuses, vh.Pick(h, badNames))
					return "status"
				}
			}
		case 14:
			for _, e := range f.Elems {
				if e.Kind == j5sgen.KTopic {
					e.Topic.Name = vh.Pick(h, badNames)
					return "topic-name"
				}
				if e.Kind == j5sgen.KEntity {
					e.Entity.BaseURL = vh.Pick(h, badStrings)
					return "entity-url"
				}
			}
		default:
			if len(props) == 0 {
				continue
			}
			fl := leaf(vh.Pick(h, props).Field)
			if fl.Ref != nil && fl.Ref.Kind != j5sgen.RRef {
				fl.Ref.Name = vh.Pick(h, badStrings)
				return "inline-name"
			}
		}
	}
	return ""
}
