//go:build verif

// walkerh: correspondence stream + property oracles for the step
// j5s source text -> sourcedef_j5pb.SourceFile (BCL parser, schema walker, j5parse).
// Stream walker.parse, property C07. Protocol: /verif/harness/PROTOCOL-walker.md.
package main

import (
	"fmt"
	"os"
	"strconv"
	"strings"
	"sync/atomic"
	"time"

	"github.com/pentops/j5/internal/bcl/verifbcl"
	"github.com/pentops/j5/internal/bcl/verifwalker"
	"github.com/pentops/j5/internal/verifh/vh"
)

type impl struct {
	g  *gen
	pg *pgen // stream walker.print (WALKER_STREAM=print), print.go
	r  *verifwalker.Runner
}

var (
	busySince atomic.Int64
	busyOp    atomic.Value
)

func main() {
	// the Lean driver parses the text with the BCL model, which takes the Unicode classifier from
	// the table file of PROTOCOL-bcl.md §1: make sure it is there and current.
	if err := verifbcl.EnsureUnicodeTable(verifbcl.UnicodeTablePath()); err != nil {
		fmt.Fprintln(os.Stderr, "cannot write the unicode table:", err)
		os.Exit(2)
	}
	r, err := verifwalker.NewRunner()
	if err != nil {
		fmt.Fprintln(os.Stderr, "cannot build the parsers:", err)
		os.Exit(2)
	}
	if s, err := strconv.Atoi(os.Getenv("WALKER_FRESH_EVERY")); err == nil && s >= 0 {
		r.FreshEvery = s
	}
	limit := 120 * time.Second
	if s, err := strconv.Atoi(os.Getenv("WALKER_OP_TIMEOUT_S")); err == nil && s > 0 {
		limit = time.Duration(s) * time.Second
	}
	go func() {
		for {
			time.Sleep(500 * time.Millisecond)
			if t := busySince.Load(); t != 0 && time.Since(time.Unix(0, t)) > limit {
				op, _ := busyOp.Load().(string)
				if len(op) > 400 {
					op = op[:400] + "…"
				}
				fmt.Fprintf(os.Stderr, "TIMEOUT: op did not terminate within %s: %s\n", limit, op)
				os.Exit(3)
			}
		}
	}()
	vh.Main(streamName(), &impl{r: r})
}

func (im *impl) Gen(h *vh.H, i int) string {
	if h.Stream == "walker.print" {
		if im.pg == nil {
			im.pg = &pgen{h: h}
		}
		return im.pg.next(i)
	}
	if im.g == nil {
		im.g = newGen(h)
	}
	return im.g.next(i)
}

func (im *impl) Exec(h *vh.H, op string) string {
	busyOp.Store(op)
	busySince.Store(time.Now().UnixNano())
	defer busySince.Store(0)

	if strings.HasPrefix(op, "print ") {
		return im.execPrint(h, op)
	}
	f := strings.Split(op, " ")
	if len(f) != 3 || f[0] != "walk" {
		return "bad-op"
	}
	name, ok1 := vh.UnHex(f[1])
	src, ok2 := vh.UnHex(f[2])
	if !ok1 || !ok2 {
		return "bad-op"
	}
	r := im.r.Walk(string(name), string(src))
	for _, k := range r.Stats {
		h.Count(k)
	}
	for _, fl := range r.Fails {
		h.Fail(fl.Sig, op, fl.Detail)
	}
	if r.Nontrivial {
		h.Nontrivial(op)
	}
	if os.Getenv("WALKER_TRACE") != "" {
		fmt.Fprintf(os.Stderr, "---- %s\n%s\n=> %s\n   %s\n", name, src, r.Line, r.Debug)
		for _, fl := range r.Fails {
			fmt.Fprintf(os.Stderr, "   FAIL %s: %s\n", fl.Sig, fl.Detail)
		}
	}
	return r.Line
}
