//go:build verif

package main

// Hand-written descriptor sets that run as the first ops of every shard: the witnesses of the
// recorded findings (open ones keep printing KNOWN-FINDING, repaired ones must stay quiet) and a
// few shapes the random generator reaches only rarely.

import (
	"buf.build/gen/go/bufbuild/protovalidate/protocolbuffers/go/buf/validate"
	"github.com/pentops/j5/gen/j5/ext/v1/ext_j5pb"
	"github.com/pentops/j5/gen/j5/list/v1/list_j5pb"
	"google.golang.org/protobuf/proto"
	"google.golang.org/protobuf/types/descriptorpb"
)

type fopt func(*descriptorpb.FieldDescriptorProto)

func wField(name string, num int32, k K, opts ...fopt) *descriptorpb.FieldDescriptorProto {
	f := &descriptorpb.FieldDescriptorProto{
		Name: proto.String(name), Number: proto.Int32(num), Type: k.Enum(),
		Label:    descriptorpb.FieldDescriptorProto_LABEL_OPTIONAL.Enum(),
		JsonName: proto.String(protocJSONName(name)),
	}
	for _, o := range opts {
		o(f)
	}
	return f
}

func wType(full string) fopt {
	return func(f *descriptorpb.FieldDescriptorProto) { f.TypeName = proto.String("." + full) }
}
func wRepeated() fopt {
	return func(f *descriptorpb.FieldDescriptorProto) {
		f.Label = descriptorpb.FieldDescriptorProto_LABEL_REPEATED.Enum()
	}
}
func wJSON(n string) fopt {
	return func(f *descriptorpb.FieldDescriptorProto) { f.JsonName = proto.String(n) }
}
func wExt(x any) fopt {
	return func(f *descriptorpb.FieldDescriptorProto) {
		if f.Options == nil {
			f.Options = &descriptorpb.FieldOptions{}
		}
		switch v := x.(type) {
		case *validate.FieldConstraints:
			proto.SetExtension(f.Options, validate.E_Field, v)
		case *list_j5pb.FieldConstraint:
			proto.SetExtension(f.Options, list_j5pb.E_Field, v)
		case *ext_j5pb.FieldOptions:
			proto.SetExtension(f.Options, ext_j5pb.E_Field, v)
		}
	}
}

func flattenOpt() fopt {
	return wExt(&ext_j5pb.FieldOptions{Type: &ext_j5pb.FieldOptions_Object{Object: &ext_j5pb.ObjectField{Flatten: true}}})
}

func wMsg(name string, fields ...*descriptorpb.FieldDescriptorProto) *descriptorpb.DescriptorProto {
	return &descriptorpb.DescriptorProto{Name: proto.String(name), Field: fields}
}

func wEnum(name string, vals ...string) *descriptorpb.EnumDescriptorProto {
	e := &descriptorpb.EnumDescriptorProto{Name: proto.String(name)}
	for i, v := range vals {
		e.Value = append(e.Value, &descriptorpb.EnumValueDescriptorProto{Name: proto.String(v), Number: proto.Int32(int32(i))})
	}
	return e
}

func wFile(deps []string, enums []*descriptorpb.EnumDescriptorProto, msgs ...*descriptorpb.DescriptorProto) *descriptorpb.FileDescriptorSet {
	return &descriptorpb.FileDescriptorSet{File: []*descriptorpb.FileDescriptorProto{{
		Name: proto.String("wt/v1/w.proto"), Package: proto.String("wt.v1"), Syntax: proto.String("proto3"),
		Dependency: deps, MessageType: msgs, EnumType: enums,
	}}}
}

const (
	depValidate = "buf/validate/validate.proto"
	depJ5       = "j5/ext/v1/annotations.proto"
	depList     = "j5/list/v1/annotations.proto"
)

func reflectWitnesses() []*descriptorpb.FileDescriptorSet {
	var out []*descriptorpb.FileDescriptorSet
	// 0: schema-name collision message Foo_E / enum Foo.E (open: name-collision:*)
	foo := wMsg("Foo", wField("x", 1, kEnum, wType("wt.v1.Foo.E"),
		wExt(&validate.FieldConstraints{Type: &validate.FieldConstraints_Enum{Enum: &validate.EnumRules{In: []int32{1}}}})))
	foo.EnumType = []*descriptorpb.EnumDescriptorProto{wEnum("E", "E_UNSPECIFIED", "E_A")}
	out = append(out, wFile([]string{depValidate}, nil, wMsg("Foo_E"), foo))
	// 1: self-flatten (fixed 595283b)
	out = append(out, wFile([]string{depJ5}, nil,
		wMsg("M", wField("child", 1, kMessage, wType("wt.v1.M"), flattenOpt()), wField("name", 2, kString))))
	// 2: mutual flatten
	out = append(out, wFile([]string{depJ5}, nil,
		wMsg("A", wField("b", 1, kMessage, wType("wt.v1.B"), flattenOpt()), wField("x", 2, kString)),
		wMsg("B", wField("a", 1, kMessage, wType("wt.v1.A"), flattenOpt()), wField("y", 2, kInt32))))
	// 3: duplicate json names (fixed c679d0c)
	out = append(out, wFile(nil, nil,
		wMsg("M", wField("a", 1, kString, wJSON("Custom")), wField("b", 2, kString, wJSON("Custom")))))
	// 4: unsupported kind: schema error, NewRoot / query decoder must answer with an error (fixed 37cbe90)
	out = append(out, wFile(nil, nil, wMsg("M", wField("f", 1, kFixed32))))
	// 5: google.protobuf.Struct single and repeated (open: struct-as-map:*)
	out = append(out, wFile([]string{"google/protobuf/struct.proto"}, nil,
		wMsg("M", wField("s", 1, kMessage, wType("google.protobuf.Struct")),
			wField("r", 2, kMessage, wType("google.protobuf.Struct"), wRepeated()))))
	// 6: google.protobuf.Duration (open: duration-as-string:panic:decode)
	out = append(out, wFile([]string{"google/protobuf/duration.proto"}, nil,
		wMsg("M", wField("d", 1, kMessage, wType("google.protobuf.Duration")))))
	// 7: repeated Any (open: any-in-collection:codec-error:encode)
	out = append(out, wFile([]string{"j5/types/any/v1/any.proto"}, nil,
		wMsg("M", wField("a", 1, kMessage, wType("j5.types.any.v1.Any"), wRepeated()))))
	// 8: flatten name clash (open: duplicate-client-property-name)
	out = append(out, wFile([]string{depJ5}, nil,
		wMsg("A", wField("x", 1, kString), wField("b", 2, kMessage, wType("wt.v1.B"), flattenOpt())),
		wMsg("B", wField("x", 1, kString))))
	// 9: bool const (fixed 2b9baca) and fixed64 (fixed 1c09ecf)
	out = append(out, wFile([]string{depValidate}, nil,
		wMsg("M", wField("b", 1, kBool, wExt(&validate.FieldConstraints{Type: &validate.FieldConstraints_Bool{Bool: &validate.BoolRules{Const: proto.Bool(true)}}}))),
		wMsg("N", wField("f", 1, kFixed64), wField("g", 2, kSfixed64))))
	// 10: enums: no *_UNSPECIFIED, and no_default with a single value
	nd := wEnum("OnlyZero", "ONLY_ZERO_UNSPECIFIED")
	nd.Options = &descriptorpb.EnumOptions{}
	proto.SetExtension(nd.Options, ext_j5pb.E_Enum, &ext_j5pb.EnumOptions{NoDefault: true})
	out = append(out, wFile([]string{depJ5}, []*descriptorpb.EnumDescriptorProto{wEnum("Bad", "BAD_ZERO", "BAD_ONE"), nd},
		wMsg("M", wField("e", 1, kEnum, wType("wt.v1.Bad"))),
		wMsg("N", wField("e", 1, kEnum, wType("wt.v1.OnlyZero")), wField("l", 2, kEnum, wType("wt.v1.OnlyZero"), wRepeated()))))
	// 11: mutual recursion without flatten, three messages in a ring
	out = append(out, wFile(nil, nil,
		wMsg("A", wField("b", 1, kMessage, wType("wt.v1.B"))),
		wMsg("B", wField("c", 1, kMessage, wType("wt.v1.C")), wField("bs", 2, kMessage, wType("wt.v1.B"), wRepeated())),
		wMsg("C", wField("a", 1, kMessage, wType("wt.v1.A")))))
	// 12: an exposed oneof whose property name (lowerCamel of the oneof name) is the JSON name of a
	// sibling field: two properties of one name in the object — a schema error (seeded change C18-m3
	// replaced the property-level check by one over the descriptor's fields)
	expo := wMsg("Account", wField("email", 1, kString), wField("phone", 2, kString), wField("contactInfo", 3, kString))
	expo.OneofDecl = []*descriptorpb.OneofDescriptorProto{{Name: proto.String("contact_info"), Options: &descriptorpb.OneofOptions{}}}
	proto.SetExtension(expo.OneofDecl[0].Options, ext_j5pb.E_Oneof, &ext_j5pb.OneofOptions{Expose: true})
	expo.Field[0].OneofIndex = proto.Int32(0)
	expo.Field[1].OneofIndex = proto.Int32(0)
	out = append(out, wFile([]string{depJ5}, nil, expo))
	// 13: validate `ignore` with a repeated rule that has no items, on a list and on a single field
	// (getProtoFieldExtensions unwraps the repeated rule into a nil item rule; seeded change C18-m1
	// dropped the nil default after the unwrap)
	ign := func(min uint64) fopt {
		return wExt(&validate.FieldConstraints{Ignore: validate.Ignore_IGNORE_IF_UNPOPULATED.Enum(),
			Type: &validate.FieldConstraints_Repeated{Repeated: &validate.RepeatedRules{MinItems: proto.Uint64(min)}}})
	}
	out = append(out, wFile([]string{depValidate}, nil,
		wMsg("M", wField("tags", 1, kString, wRepeated(), ign(1)), wField("tag", 2, kString, ign(0)))))
	// 14: flatten nested four deep, two leaves (of different kinds) in the innermost message, and a
	// sibling after each flattened field (seeded change C18-m4 built the nested paths with append on
	// a shared backing array: from the third level on every leaf got the last leaf's number)
	out = append(out, wFile([]string{depJ5}, nil,
		wMsg("L0", wField("l1", 1, kMessage, wType("wt.v1.L1"), flattenOpt()), wField("a0", 2, kString)),
		wMsg("L1", wField("l2", 1, kMessage, wType("wt.v1.L2"), flattenOpt()), wField("a1", 2, kInt32)),
		wMsg("L2", wField("l3", 3, kMessage, wType("wt.v1.L3"), flattenOpt()), wField("a2", 4, kBool)),
		wMsg("L3", wField("l4", 2, kMessage, wType("wt.v1.L4"), flattenOpt()), wField("a3", 5, kString)),
		wMsg("L4", wField("x", 1, kString), wField("y", 2, kInt64), wField("z", 3, kBool))))
	return out
}

// loopWitness: a descriptor set and (optionally) the root packages which are the image's direct
// packages; the others are reached through references only.
type loopWitness struct {
	fds    *descriptorpb.FileDescriptorSet
	direct string
}

func loopWitnesses() []loopWitness {
	var out []loopWitness
	add := func(fds *descriptorpb.FileDescriptorSet) { out = append(out, loopWitness{fds: fds}) }
	// 0: enum option info + info fields (fixed 622a251)
	e := wEnum("Colour", "COLOUR_UNSPECIFIED", "COLOUR_RED")
	for _, v := range e.Value {
		v.Options = &descriptorpb.EnumValueOptions{}
		proto.SetExtension(v.Options, ext_j5pb.E_EnumValue, &ext_j5pb.EnumValueOptions{Info: map[string]string{"hex": "ff0000"}})
	}
	e.Options = &descriptorpb.EnumOptions{}
	proto.SetExtension(e.Options, ext_j5pb.E_Enum, &ext_j5pb.EnumOptions{InfoFields: []*ext_j5pb.EnumInfoField{{Name: "hex", Label: "Hex", Description: "rgb"}}})
	add(wFile([]string{depJ5}, []*descriptorpb.EnumDescriptorProto{e},
		wMsg("M", wField("c", 1, kEnum, wType("wt.v1.Colour")))))
	// 1: list rules on any, enum and (through a oneof wrapper) oneof fields (fixed 729e9c2)
	filt := &list_j5pb.FilteringConstraint{Filterable: true}
	wrapper := wMsg("W", wField("m", 1, kMessage, wType("wt.v1.M")))
	wrapper.OneofDecl = []*descriptorpb.OneofDescriptorProto{{Name: proto.String("type")}}
	wrapper.Field[0].OneofIndex = proto.Int32(0)
	add(wFile([]string{depList, "j5/types/any/v1/any.proto"}, []*descriptorpb.EnumDescriptorProto{wEnum("Kind", "KIND_UNSPECIFIED", "KIND_A")},
		wMsg("M",
			wField("a", 1, kMessage, wType("j5.types.any.v1.Any"), wExt(&list_j5pb.FieldConstraint{Type: &list_j5pb.FieldConstraint_Any{Any: &list_j5pb.AnyRules{Filtering: filt}}})),
			wField("k", 2, kEnum, wType("wt.v1.Kind"), wExt(&list_j5pb.FieldConstraint{Type: &list_j5pb.FieldConstraint_Enum{Enum: &list_j5pb.EnumRules{Filtering: filt}}})),
			wField("w", 3, kMessage, wType("wt.v1.W"), wExt(&list_j5pb.FieldConstraint{Type: &list_j5pb.FieldConstraint_Oneof{Oneof: &list_j5pb.OneofRules{Filtering: filt}}}))),
		wrapper))
	// 2: a reference from the only direct package (demo.v1) into a SUB-package of a package which is
	// included indirectly (shared.v1.topic), whose message uses an enum referenced only from that
	// field (seeded change C15-m2 skipped the sub-packages of indirect packages on import)
	payload := wMsg("Payload", wField("id", 1, kString), wField("kind", 2, kEnum, wType("shared.v1.topic.Payload.Kind")))
	payload.EnumType = []*descriptorpb.EnumDescriptorProto{wEnum("Kind", "KIND_UNSPECIFIED", "KIND_SMALL")}
	out = append(out, loopWitness{direct: "demo.v1", fds: &descriptorpb.FileDescriptorSet{File: []*descriptorpb.FileDescriptorProto{
		{Name: proto.String("shared/v1/topic/payload.proto"), Package: proto.String("shared.v1.topic"), Syntax: proto.String("proto3"),
			MessageType: []*descriptorpb.DescriptorProto{payload}},
		{Name: proto.String("demo/v1/demo.proto"), Package: proto.String("demo.v1"), Syntax: proto.String("proto3"),
			Dependency:  []string{"shared/v1/topic/payload.proto"},
			MessageType: []*descriptorpb.DescriptorProto{wMsg("Envelope", wField("payload", 1, kMessage, wType("shared.v1.topic.Payload")))}},
	}}})
	// 3: enum option info under a key the enum's info_fields do not declare, and option info on an
	// enum without info_fields (seeded change C15-m5 copied only the declared keys on import)
	shade := wEnum("Shade", "SHADE_UNSPECIFIED", "SHADE_DARK")
	for _, v := range shade.Value {
		v.Options = &descriptorpb.EnumValueOptions{}
		proto.SetExtension(v.Options, ext_j5pb.E_EnumValue, &ext_j5pb.EnumValueOptions{Info: map[string]string{"hex": "101010", "pantone": "19-4005"}})
	}
	shade.Options = &descriptorpb.EnumOptions{}
	proto.SetExtension(shade.Options, ext_j5pb.E_Enum, &ext_j5pb.EnumOptions{InfoFields: []*ext_j5pb.EnumInfoField{{Name: "hex", Label: "Hex"}}})
	bare := wEnum("Bare", "BARE_UNSPECIFIED", "BARE_ONE")
	bare.Value[1].Options = &descriptorpb.EnumValueOptions{}
	proto.SetExtension(bare.Value[1].Options, ext_j5pb.E_EnumValue, &ext_j5pb.EnumValueOptions{Info: map[string]string{"note": "n"}})
	add(wFile([]string{depJ5}, []*descriptorpb.EnumDescriptorProto{shade, bare},
		wMsg("M", wField("s", 1, kEnum, wType("wt.v1.Shade")), wField("b", 2, kEnum, wType("wt.v1.Bare")))))
	return out
}
