//go:build verif

package main

// Source (c) of C15's quantifier: descriptor sets obtained from valid j5s packages. A generated j5s
// bundle (internal/verifh/j5sgen, shared with the compile cluster, read-only) is compiled by the
// real compiler (internal/verifh/j5sreal -> protobuild.PackageSet.CompilePackage); the compiled
// files — everything but the dependencies this binary has registered — become an ordinary
// `fds:HEX[@direct]` source, so the op stays self-contained and replays without the compiler.

import (
	"github.com/pentops/j5/internal/verifh/j5sgen"
	"github.com/pentops/j5/internal/verifh/j5sreal"
	"github.com/pentops/j5/internal/verifh/vh"
	"google.golang.org/protobuf/reflect/protodesc"
	"google.golang.org/protobuf/reflect/protoreflect"
	"google.golang.org/protobuf/reflect/protoregistry"
	"google.golang.org/protobuf/types/descriptorpb"
)

// genCompiledSet returns the compiled files of a generated bundle and its packages in bundle order
// (a package refers to earlier packages only); ok = false when the bundle does not compile.
func genCompiledSet(h *vh.H) (*descriptorpb.FileDescriptorSet, []string, bool) {
	cfg := j5sgen.DefaultConfig()
	cfg.Rules = h.Chance(1, 2)
	cfg.MaxElems = 4
	g := j5sgen.New(h.Rng, cfg)
	b := g.Bundle()
	style := uint64(0)
	if h.Chance(1, 2) {
		style = 1 + h.Rng.Uint64N(1<<30)
	}
	mb := j5sreal.FromAST(b, style)
	ps, err := j5sreal.NewPackageSet(mb)
	if err != nil {
		h.Count("loop.gen.compiled.packageset-err")
		return nil, nil, false
	}
	seen := map[string]bool{}
	out := &descriptorpb.FileDescriptorSet{}
	var walk func(fd protoreflect.FileDescriptor)
	walk = func(fd protoreflect.FileDescriptor) {
		if seen[fd.Path()] {
			return
		}
		seen[fd.Path()] = true
		if _, err := protoregistry.GlobalFiles.FindFileByPath(fd.Path()); err == nil {
			return // a dependency the binary knows (j5 ext / list / types / state …, validate, google)
		}
		imps := fd.Imports()
		for i := 0; i < imps.Len(); i++ {
			walk(imps.Get(i).FileDescriptor)
		}
		out.File = append(out.File, protodesc.ToFileDescriptorProto(fd))
	}
	var pkgs []string
	for _, p := range b.Pkgs {
		res := j5sreal.CompileOn(ps, p.Name)
		if res.Class != "ok" {
			h.Count("loop.gen.compiled.compile-" + res.Class)
			return nil, nil, false
		}
		for _, f := range res.Files {
			walk(f)
		}
		pkgs = append(pkgs, p.Name)
	}
	if len(out.File) == 0 {
		return nil, nil, false
	}
	return out, pkgs, true
}
