//go:build verif

package main

// Descriptor generator: builds proto3 FileDescriptorProtos programmatically (NOT through the j5s
// compiler). Two modes:
//   valid       — the J5-supported subset with annotations consistent with the field they sit on
//                 (schema.loop, C15), still covering every field kind J5 accepts, every rule family,
//                 list rules, enum option info, psm markers, any-membership, cross-package refs,
//                 recursion, nested types, enums referenced only from fields.
//   adversarial — additionally every scalar kind J5 does not support, enums without *_UNSPECIFIED,
//                 annotations of the wrong family / wrong type case, odd oneof shapes, name
//                 collisions through '_', google types J5 does not know (schema.reflect, C18).
// Every random choice comes from h.Rng.

import (
	"github.com/iancoleman/strcase"
	"fmt"
	"strings"

	"buf.build/gen/go/bufbuild/protovalidate/protocolbuffers/go/buf/validate"
	"github.com/pentops/j5/gen/j5/ext/v1/ext_j5pb"
	"github.com/pentops/j5/gen/j5/list/v1/list_j5pb"
	"github.com/pentops/j5/gen/j5/schema/v1/schema_j5pb"
	"github.com/pentops/j5/internal/verifh/vh"
	"google.golang.org/protobuf/proto"
	"google.golang.org/protobuf/types/descriptorpb"
	"google.golang.org/protobuf/types/known/durationpb"
	"google.golang.org/protobuf/types/known/timestamppb"
)

type K = descriptorpb.FieldDescriptorProto_Type

const (
	kDouble   = descriptorpb.FieldDescriptorProto_TYPE_DOUBLE
	kFloat    = descriptorpb.FieldDescriptorProto_TYPE_FLOAT
	kInt64    = descriptorpb.FieldDescriptorProto_TYPE_INT64
	kUint64   = descriptorpb.FieldDescriptorProto_TYPE_UINT64
	kInt32    = descriptorpb.FieldDescriptorProto_TYPE_INT32
	kFixed64  = descriptorpb.FieldDescriptorProto_TYPE_FIXED64
	kFixed32  = descriptorpb.FieldDescriptorProto_TYPE_FIXED32
	kBool     = descriptorpb.FieldDescriptorProto_TYPE_BOOL
	kString   = descriptorpb.FieldDescriptorProto_TYPE_STRING
	kMessage  = descriptorpb.FieldDescriptorProto_TYPE_MESSAGE
	kBytes    = descriptorpb.FieldDescriptorProto_TYPE_BYTES
	kUint32   = descriptorpb.FieldDescriptorProto_TYPE_UINT32
	kEnum     = descriptorpb.FieldDescriptorProto_TYPE_ENUM
	kSfixed32 = descriptorpb.FieldDescriptorProto_TYPE_SFIXED32
	kSfixed64 = descriptorpb.FieldDescriptorProto_TYPE_SFIXED64
	kSint32   = descriptorpb.FieldDescriptorProto_TYPE_SINT32
	kSint64   = descriptorpb.FieldDescriptorProto_TYPE_SINT64
)

var supportedScalars = []K{kString, kBool, kInt32, kSint32, kUint32, kInt64, kSint64, kUint64, kFloat, kDouble, kBytes}
var allScalars = []K{kString, kBool, kInt32, kSint32, kUint32, kInt64, kSint64, kUint64, kFloat, kDouble, kBytes,
	kFixed32, kFixed64, kSfixed32, kSfixed64}

// well-known / library message types (full name, file to import)
type wkt struct{ name, file string }

var supportedWKT = []wkt{
	{"google.protobuf.Timestamp", "google/protobuf/timestamp.proto"},
	{"j5.types.date.v1.Date", "j5/types/date/v1/date.proto"},
	{"j5.types.decimal.v1.Decimal", "j5/types/decimal/v1/decimal.proto"},
	{"j5.types.any.v1.Any", "j5/types/any/v1/any.proto"},
	{"google.protobuf.Any", "google/protobuf/any.proto"},
}

// unsupported google types (schema error "unsupported google type"); Duration and Struct were
// reflected as string / map-of-any until the fixes recorded in known_findings.d/schema.json
var oddWKT = []wkt{
	{"google.protobuf.Duration", "google/protobuf/duration.proto"},
	{"google.protobuf.Struct", "google/protobuf/struct.proto"},
	{"google.protobuf.Empty", "google/protobuf/empty.proto"},
	{"google.protobuf.StringValue", "google/protobuf/wrappers.proto"},
	{"google.protobuf.FieldMask", "google/protobuf/field_mask.proto"},
	{"google.protobuf.Value", "google/protobuf/struct.proto"},
}

type gMsg struct {
	full   string // full proto name
	file   int
	dp     *descriptorpb.DescriptorProto
	wrap   bool // intended oneof wrapper
	nested []*gMsg
}

type gEnum struct {
	full   string
	file   int
	dp     *descriptorpb.EnumDescriptorProto
	parent *gMsg
}

type gen struct {
	h     *vh.H
	adv   bool
	files []*descriptorpb.FileDescriptorProto
	msgs  []*gMsg // all messages incl. nested (targets for refs)
	enums []*gEnum
	nameN int
}

var fieldWords = []string{"name", "value", "count", "kind", "state", "status", "note", "weight", "items", "tags",
	"owner", "parent", "child", "data", "flag", "code", "label", "score", "ref", "when", "amount", "blob", "keys",
	"foo_id", "bar_baz", "x", "created_at", "type"}

func (g *gen) chance(n, d int) bool { return g.h.Rng.IntN(d) < n }
func (g *gen) pick(xs []string) string { return xs[g.h.Rng.IntN(len(xs))] }

func (g *gen) freshName(prefix string) string {
	g.nameN++
	return fmt.Sprintf("%s%d", prefix, g.nameN)
}

// genFileSet generates 1..3 files.
func genFileSet(h *vh.H, adv bool) *descriptorpb.FileDescriptorSet {
	g := &gen{h: h, adv: adv}
	pkgs := []string{"vt.alpha.v1"}
	// a file may refer to earlier files only; the last two layouts let vt.beta.v1 refer into a
	// sub-package of vt.alpha.v1
	switch h.Rng.IntN(6) {
	case 0:
	case 1:
		pkgs = append(pkgs, "vt.beta.v1")
	case 2:
		pkgs = append(pkgs, "vt.alpha.v1.service")
	case 3:
		pkgs = append(pkgs, "vt.beta.v1", "vt.alpha.v1.service")
	case 4:
		pkgs = append(pkgs, "vt.alpha.v1.topic", "vt.beta.v1")
	case 5:
		pkgs = []string{"vt.alpha.v1.topic", "vt.beta.v1"}
	}
	if adv && g.chance(1, 10) {
		pkgs[0] = "nover.alpha"
	}
	for i, p := range pkgs {
		f := &descriptorpb.FileDescriptorProto{
			Name:    proto.String(fmt.Sprintf("%s/f%d.proto", strings.ReplaceAll(p, ".", "/"), i)),
			Package: proto.String(p),
			Syntax:  proto.String("proto3"),
		}
		g.files = append(g.files, f)
	}
	// first pass: declare message and enum shells so that fields can refer to anything (incl. forward,
	// self and mutual references; a later file may only be referenced from ... any file: imports are
	// added on demand, but kept acyclic by only importing lower-numbered files from higher ones).
	for fi := range g.files {
		nm := 1 + h.Rng.IntN(4)
		for k := 0; k < nm; k++ {
			g.declMsg(fi, nil, 0)
		}
		ne := h.Rng.IntN(3)
		for k := 0; k < ne; k++ {
			g.declEnum(fi, nil)
		}
	}
	if adv && g.chance(1, 20) && len(g.msgs) > 0 {
		// name collision through '_': top-level Foo_Bar vs nested Foo.Bar
		for _, m := range g.msgs {
			if len(m.nested) > 0 {
				n := m.nested[0]
				short := m.dp.GetName() + "_" + n.dp.GetName()
				dp := &descriptorpb.DescriptorProto{Name: proto.String(short)}
				f := g.files[m.file]
				f.MessageType = append(f.MessageType, dp)
				g.msgs = append(g.msgs, &gMsg{full: f.GetPackage() + "." + short, file: m.file, dp: dp})
				break
			}
		}
	}
	if adv && g.chance(1, 25) {
		// name collision between a top-level message Foo_E and a nested enum Foo.E
		for _, e := range g.enums {
			if e.parent != nil && !strings.Contains(strings.TrimPrefix(e.parent.full, g.files[e.file].GetPackage()+"."), ".") {
				short := e.parent.dp.GetName() + "_" + e.dp.GetName()
				dp := &descriptorpb.DescriptorProto{Name: proto.String(short)}
				f := g.files[e.file]
				if g.chance(1, 2) {
					f.MessageType = append([]*descriptorpb.DescriptorProto{dp}, f.MessageType...)
				} else {
					f.MessageType = append(f.MessageType, dp)
				}
				g.msgs = append(g.msgs, &gMsg{full: f.GetPackage() + "." + short, file: e.file, dp: dp})
				break
			}
		}
	}
	// second pass: fields
	for _, m := range g.msgs {
		g.fillMsg(m)
	}
	if g.chance(1, 5) {
		g.flattenChain()
	}
	for _, f := range g.files {
		g.addComments(f)
	}
	return &descriptorpb.FileDescriptorSet{File: g.files}
}

// flattenChain appends to the first file a chain of 3..5 messages, each flattening the next
// ((j5.ext.v1.field).object / .message flatten), with siblings before and after the flattened field
// and two or three leaves of different kinds in the innermost message; all JSON names distinct, so
// the head's client properties are the leaves and siblings of every level with paths of growing
// length.
func (g *gen) flattenChain() {
	depth := 3 + g.h.Rng.IntN(3)
	f0 := g.files[0]
	g.addImport(0, depJ5)
	base := g.freshName("Chain")
	kinds := []K{kString, kInt32, kBool, kInt64, kDouble, kBytes}
	name := func(l int) string { return fmt.Sprintf("%sL%d", base, l) }
	for l := 0; l <= depth; l++ {
		dp := &descriptorpb.DescriptorProto{Name: proto.String(name(l))}
		num := int32(1)
		add := func(f *descriptorpb.FieldDescriptorProto) {
			f.JsonName = proto.String(protocJSONName(f.GetName()))
			dp.Field = append(dp.Field, f)
			num += int32(1 + g.h.Rng.IntN(2))
		}
		scalar := func(tag string) {
			add(&descriptorpb.FieldDescriptorProto{Name: proto.String(fmt.Sprintf("%s_l%d_%d", tag, l, num)), Number: proto.Int32(num),
				Type: kinds[g.h.Rng.IntN(len(kinds))].Enum(), Label: descriptorpb.FieldDescriptorProto_LABEL_OPTIONAL.Enum()})
		}
		if l == depth {
			for i := 0; i < 2+g.h.Rng.IntN(2); i++ {
				scalar("leaf")
			}
		} else {
			if g.chance(1, 2) {
				scalar("pre")
			}
			fo := &ext_j5pb.FieldOptions{Type: &ext_j5pb.FieldOptions_Object{Object: &ext_j5pb.ObjectField{Flatten: true}}}
			if g.chance(1, 3) {
				fo = &ext_j5pb.FieldOptions{Type: &ext_j5pb.FieldOptions_Message{Message: &ext_j5pb.MessageFieldOptions{Flatten: true}}}
			}
			ff := &descriptorpb.FieldDescriptorProto{Name: proto.String(fmt.Sprintf("next_l%d", l)), Number: proto.Int32(num),
				Type: kMessage.Enum(), Label: descriptorpb.FieldDescriptorProto_LABEL_OPTIONAL.Enum(),
				TypeName: proto.String("." + f0.GetPackage() + "." + name(l+1)), Options: &descriptorpb.FieldOptions{}}
			proto.SetExtension(ff.Options, ext_j5pb.E_Field, fo)
			add(ff)
			if g.chance(2, 3) {
				scalar("post")
			}
		}
		f0.MessageType = append(f0.MessageType, dp)
	}
	g.h.Count("gen.flatten-chain")
}

func (g *gen) declMsg(fi int, parent *gMsg, depth int) *gMsg {
	suffix := ""
	if g.chance(1, 6) {
		suffix = g.pick([]string{"Keys", "State", "Event", "Data"})
	}
	name := g.freshName("M") + suffix
	dp := &descriptorpb.DescriptorProto{Name: proto.String(name)}
	m := &gMsg{file: fi, dp: dp}
	if parent == nil {
		g.files[fi].MessageType = append(g.files[fi].MessageType, dp)
		m.full = g.files[fi].GetPackage() + "." + name
	} else {
		parent.dp.NestedType = append(parent.dp.NestedType, dp)
		parent.nested = append(parent.nested, m)
		m.full = parent.full + "." + name
	}
	g.msgs = append(g.msgs, m)
	if depth < 2 && g.chance(1, 4) {
		g.declMsg(fi, m, depth+1)
	}
	if g.chance(1, 5) {
		g.declEnum(fi, m)
	}
	return m
}

func (g *gen) declEnum(fi int, parent *gMsg) *gEnum {
	name := g.freshName("E")
	prefix := strings.ToUpper(name) + "_"
	dp := &descriptorpb.EnumDescriptorProto{Name: proto.String(name)}
	first := prefix + "UNSPECIFIED"
	if g.adv && g.chance(1, 12) {
		first = g.pick([]string{prefix + "UNKNOWN", "UNSPECIFIED", prefix + "UNSPECIFIED_X", "ZERO"})
	}
	nv := 1 + g.h.Rng.IntN(4)
	var infoKeys []string
	if g.chance(1, 3) {
		infoKeys = []string{"colour", "rank"}[:1+g.h.Rng.IntN(2)]
	}
	prefixy, usedNames := g.prefixyMode(), map[string]bool{} // enumnames.go (seeded C15-m7)
	for i := 0; i < nv; i++ {
		vn := first
		if i > 0 {
			vn = fmt.Sprintf("%sV%d", prefix, i)
			if g.adv && g.chance(1, 8) {
				vn = fmt.Sprintf("OTHER%d_V%d", g.nameN, i) // not carrying the prefix
			} else if prefixy {
				vn = g.prefixyValueName(prefix, i, usedNames)
			}
		}
		num := int32(i)
		if i > 0 && g.chance(1, 5) {
			num = int32(i * 10)
		}
		v := &descriptorpb.EnumValueDescriptorProto{Name: proto.String(vn), Number: proto.Int32(num)}
		if len(infoKeys) > 0 && g.chance(3, 4) {
			info := map[string]string{}
			for _, k := range infoKeys {
				info[k] = g.pick([]string{"red", "blue", "", "1", "x y"})
			}
			if g.chance(1, 3) {
				// a key the enum's info_fields do not declare: nothing checks keys against the
				// declaration, the entry is part of the schema and of its export
				info["pantone"] = g.pick([]string{"17-1463", "x"})
			}
			v.Options = &descriptorpb.EnumValueOptions{}
			proto.SetExtension(v.Options, ext_j5pb.E_EnumValue, &ext_j5pb.EnumValueOptions{Info: info})
		} else if len(infoKeys) == 0 && g.chance(1, 8) {
			// option info on an enum without info_fields
			v.Options = &descriptorpb.EnumValueOptions{}
			proto.SetExtension(v.Options, ext_j5pb.E_EnumValue, &ext_j5pb.EnumValueOptions{Info: map[string]string{"note": "n"}})
		} else if g.chance(1, 10) {
			v.Options = &descriptorpb.EnumValueOptions{}
			proto.SetExtension(v.Options, ext_j5pb.E_EnumValue, &ext_j5pb.EnumValueOptions{Description: "d"})
		}
		dp.Value = append(dp.Value, v)
	}
	if len(infoKeys) > 0 || g.chance(1, 6) {
		eo := &ext_j5pb.EnumOptions{}
		for _, k := range infoKeys {
			eo.InfoFields = append(eo.InfoFields, &ext_j5pb.EnumInfoField{Name: k, Label: strings.ToUpper(k), Description: "about " + k})
		}
		if g.chance(1, 4) {
			eo.NoDefault = true
		}
		dp.Options = &descriptorpb.EnumOptions{}
		proto.SetExtension(dp.Options, ext_j5pb.E_Enum, eo)
	}
	e := &gEnum{file: fi, dp: dp, parent: parent}
	if parent == nil {
		g.files[fi].EnumType = append(g.files[fi].EnumType, dp)
		e.full = g.files[fi].GetPackage() + "." + name
	} else {
		parent.dp.EnumType = append(parent.dp.EnumType, dp)
		e.full = parent.full + "." + name
	}
	g.enums = append(g.enums, e)
	return e
}

func (g *gen) addImport(fi int, path string) {
	f := g.files[fi]
	if f.GetName() == path {
		return
	}
	for _, d := range f.Dependency {
		if d == path {
			return
		}
	}
	f.Dependency = append(f.Dependency, path)
}

// canRef: file `from` may reference a type declared in file `to` (keeps the import graph acyclic).
func canRef(from, to int) bool { return to <= from }

func (g *gen) fillMsg(m *gMsg) {
	h := g.h
	dp := m.dp
	shape := h.Rng.IntN(12)
	nextNum := int32(1)
	used := map[string]bool{}
	fname := func() string {
		for {
			n := g.pick(fieldWords)
			if g.chance(1, 3) {
				n = fmt.Sprintf("%s_%d", n, h.Rng.IntN(5))
			}
			if !used[n] {
				used[n] = true
				return n
			}
		}
	}
	num := func() int32 {
		n := nextNum
		nextNum += int32(1 + h.Rng.IntN(3))
		return n
	}

	// message-level options
	mo := &ext_j5pb.MessageOptions{}
	setMo := false

	switch {
	case shape == 0:
		// implicit oneof wrapper: exactly one real oneof called "type", all fields messages in it
		m.wrap = true
		dp.OneofDecl = append(dp.OneofDecl, &descriptorpb.OneofDescriptorProto{Name: proto.String("type")})
		used["type"] = true
		nf := 1 + h.Rng.IntN(3)
		for i := 0; i < nf; i++ {
			f := g.msgField(m, fname(), num())
			if f == nil {
				continue
			}
			f.OneofIndex = proto.Int32(0)
			dp.Field = append(dp.Field, f)
		}
		if len(dp.Field) == 0 {
			dp.OneofDecl = nil
			m.wrap = false
		}
		if g.adv && g.chance(1, 4) && len(dp.Field) > 0 {
			// spoil the shape: a scalar in the oneof, or a field outside it
			f := g.scalarField(fname(), num(), g.pickScalar())
			if g.chance(1, 2) {
				f.OneofIndex = proto.Int32(0)
			}
			dp.Field = append(dp.Field, f)
			m.wrap = false
		}
	case shape == 1:
		// explicit oneof wrapper through the message option (new or deprecated form)
		m.wrap = true
		setMo = true
		if g.chance(1, 3) {
			mo.IsOneofWrapper = true
		} else {
			mo.Type = &ext_j5pb.MessageOptions_Oneof{Oneof: &ext_j5pb.OneofMessageOptions{}}
		}
		won := g.pick([]string{"type", "kind", "opt"})
		used[won] = true
		dp.OneofDecl = append(dp.OneofDecl, &descriptorpb.OneofDescriptorProto{Name: proto.String(won)})
		nf := 1 + h.Rng.IntN(3)
		for i := 0; i < nf; i++ {
			var f *descriptorpb.FieldDescriptorProto
			if g.chance(2, 3) {
				f = g.msgField(m, fname(), num())
			}
			if f == nil {
				f = g.scalarField(fname(), num(), g.pickScalar())
			}
			f.OneofIndex = proto.Int32(0)
			dp.Field = append(dp.Field, f)
		}
	default:
		// plain object
		nf := h.Rng.IntN(7)
		if g.adv && g.chance(1, 12) {
			nf = 0
		}
		var oneofIdx int32 = -1
		exposeLeft := 0
		for i := 0; i < nf; i++ {
			var f *descriptorpb.FieldDescriptorProto
			switch c := h.Rng.IntN(20); {
			case c < 7:
				f = g.scalarField(fname(), num(), g.pickScalar())
			case c < 10:
				f = g.msgField(m, fname(), num())
			case c < 12:
				f = g.enumField(m, fname(), num())
			case c < 14:
				f = g.wktField(m, fname(), num())
			case c < 16:
				f = g.repeatedField(m, fname(), num())
			case c < 18:
				f = g.mapField(m, fname(), num())
			default:
				f = g.scalarField(fname(), num(), g.pickScalar())
				// proto3 optional: synthetic oneof, must come after real oneofs → added at the end
				f.Proto3Optional = proto.Bool(true)
			}
			if f == nil {
				f = g.scalarField(fname(), num(), kString)
			}
			// real oneof membership
			if f.GetLabel() == descriptorpb.FieldDescriptorProto_LABEL_REPEATED || f.GetProto3Optional() {
				exposeLeft = 0 // members of a oneof must be declared consecutively
			} else {
				if exposeLeft > 0 {
					f.OneofIndex = proto.Int32(oneofIdx)
					exposeLeft--
				} else if g.chance(1, 7) {
					oneofIdx = int32(len(dp.OneofDecl))
					od := &descriptorpb.OneofDescriptorProto{Name: proto.String(g.freshName("choice_"))}
					if g.adv && g.chance(1, 6) && len(dp.OneofDecl) == 0 && !used["type"] {
						od.Name = proto.String("type")
						used["type"] = true
					}
					switch h.Rng.IntN(4) {
					case 0, 1:
						od.Options = &descriptorpb.OneofOptions{}
						proto.SetExtension(od.Options, ext_j5pb.E_Oneof, &ext_j5pb.OneofOptions{Expose: true})
					case 2:
						od.Options = &descriptorpb.OneofOptions{}
						proto.SetExtension(od.Options, ext_j5pb.E_Oneof, &ext_j5pb.OneofOptions{Expose: false})
					}
					if g.chance(1, 5) {
						if od.Options == nil {
							od.Options = &descriptorpb.OneofOptions{}
						}
						proto.SetExtension(od.Options, list_j5pb.E_Oneof, &list_j5pb.OneofRules{Filtering: &list_j5pb.FilteringConstraint{Filterable: true}})
					}
					dp.OneofDecl = append(dp.OneofDecl, od)
					f.OneofIndex = proto.Int32(oneofIdx)
					exposeLeft = h.Rng.IntN(3)
				}
			}
			dp.Field = append(dp.Field, f)
		}
		// a field whose JSON name is the property name of an exposed oneof of the same message
		// (`oneof contact_info` next to `contactInfo`): two properties of one name, a schema error
		if g.adv && g.chance(1, 3) {
			for _, od := range dp.OneofDecl {
				eo, _ := proto.GetExtension(od.GetOptions(), ext_j5pb.E_Oneof).(*ext_j5pb.OneofOptions)
				if eo == nil || !eo.Expose {
					continue
				}
				f := g.scalarField(fname(), num(), kString)
				if g.chance(1, 2) {
					f.Name = proto.String(strcase.ToLowerCamel(od.GetName()) + "X")
				}
				f.JsonName = proto.String(strcase.ToLowerCamel(od.GetName()))
				dp.Field = append(dp.Field, f)
				g.h.Count("gen.exposed-oneof-name-clash")
				break
			}
		}
		// synthetic oneofs for proto3 optional
		for _, f := range dp.Field {
			if f.GetProto3Optional() {
				f.OneofIndex = proto.Int32(int32(len(dp.OneofDecl)))
				dp.OneofDecl = append(dp.OneofDecl, &descriptorpb.OneofDescriptorProto{Name: proto.String("_" + f.GetName())})
			}
		}
		if g.chance(1, 6) {
			setMo = true
			om := &ext_j5pb.ObjectMessageOptions{}
			if g.chance(2, 3) {
				om.AnyMember = []string{"vt_any"}
				if g.chance(1, 2) {
					om.AnyMember = append(om.AnyMember, "other.any")
				}
			}
			mo.Type = &ext_j5pb.MessageOptions_Object{Object: om}
		}
	}
	if g.adv && g.chance(1, 15) {
		setMo = true
		mo.IsOneofWrapper = !mo.IsOneofWrapper
	}
	if g.chance(1, 12) {
		setMo = true
		mo.Description = "from option"
	}
	if setMo {
		if dp.Options == nil {
			dp.Options = &descriptorpb.MessageOptions{}
		}
		proto.SetExtension(dp.Options, ext_j5pb.E_Message, mo)
	}
	// psm marker
	name := dp.GetName()
	hasSuffix := strings.HasSuffix(name, "Keys") || strings.HasSuffix(name, "State") || strings.HasSuffix(name, "Event") || strings.HasSuffix(name, "Data")
	if (hasSuffix && g.chance(3, 4)) || g.chance(1, 20) {
		po := &ext_j5pb.PSMOptions{EntityName: g.pick([]string{"Foo", "Bar", "foo"})}
		if !hasSuffix && (!g.adv || g.chance(2, 3)) {
			po.EntityPart = schema_j5pb.EntityPart(1 + h.Rng.IntN(6)).Enum()
		} else if g.chance(1, 4) {
			po.EntityPart = schema_j5pb.EntityPart(h.Rng.IntN(7)).Enum()
		}
		if dp.Options == nil {
			dp.Options = &descriptorpb.MessageOptions{}
		}
		proto.SetExtension(dp.Options, ext_j5pb.E_Psm, po)
	}
}

func (g *gen) pickScalar() K {
	if g.adv && g.chance(1, 10) {
		return allScalars[g.h.Rng.IntN(len(allScalars))]
	}
	return supportedScalars[g.h.Rng.IntN(len(supportedScalars))]
}

func (g *gen) jsonName(f *descriptorpb.FieldDescriptorProto) {
	// protoc always fills json_name; protodesc derives it when absent. Mostly set it explicitly.
	if g.chance(4, 5) {
		f.JsonName = proto.String(protocJSONName(f.GetName()))
	} else if g.adv && g.chance(1, 3) {
		f.JsonName = proto.String(g.pick([]string{"Custom", "x-y", f.GetName()}))
	}
}

func protocJSONName(s string) string {
	var b []byte
	up := false
	for i := 0; i < len(s); i++ {
		c := s[i]
		if c == '_' {
			up = true
			continue
		}
		if up && c >= 'a' && c <= 'z' {
			c -= 32
		}
		up = false
		b = append(b, c)
	}
	return string(b)
}

func (g *gen) scalarField(name string, num int32, k K) *descriptorpb.FieldDescriptorProto {
	f := &descriptorpb.FieldDescriptorProto{
		Name: proto.String(name), Number: proto.Int32(num), Type: k.Enum(),
		Label: descriptorpb.FieldDescriptorProto_LABEL_OPTIONAL.Enum(),
	}
	g.jsonName(f)
	g.annotate(f, annTarget{kind: k})
	return f
}

func (g *gen) pickMsg(from *gMsg) *gMsg {
	var c []*gMsg
	for _, m := range g.msgs {
		if canRef(from.file, m.file) {
			c = append(c, m)
		}
	}
	if len(c) == 0 {
		return nil
	}
	if g.chance(1, 5) {
		return from // self recursion
	}
	return c[g.h.Rng.IntN(len(c))]
}

func (g *gen) pickEnum(from *gMsg) *gEnum {
	var c []*gEnum
	for _, e := range g.enums {
		if canRef(from.file, e.file) {
			c = append(c, e)
		}
	}
	if len(c) == 0 {
		return nil
	}
	return c[g.h.Rng.IntN(len(c))]
}

func (g *gen) msgField(from *gMsg, name string, num int32) *descriptorpb.FieldDescriptorProto {
	t := g.pickMsg(from)
	if t == nil {
		return nil
	}
	if t.file != from.file {
		g.addImport(from.file, g.files[t.file].GetName())
	}
	f := &descriptorpb.FieldDescriptorProto{
		Name: proto.String(name), Number: proto.Int32(num), Type: kMessage.Enum(),
		Label:    descriptorpb.FieldDescriptorProto_LABEL_OPTIONAL.Enum(),
		TypeName: proto.String("." + t.full),
	}
	g.jsonName(f)
	g.annotate(f, annTarget{kind: kMessage, msg: t})
	return f
}

func (g *gen) enumField(from *gMsg, name string, num int32) *descriptorpb.FieldDescriptorProto {
	t := g.pickEnum(from)
	if t == nil {
		return nil
	}
	if t.file != from.file {
		g.addImport(from.file, g.files[t.file].GetName())
	}
	f := &descriptorpb.FieldDescriptorProto{
		Name: proto.String(name), Number: proto.Int32(num), Type: kEnum.Enum(),
		Label:    descriptorpb.FieldDescriptorProto_LABEL_OPTIONAL.Enum(),
		TypeName: proto.String("." + t.full),
	}
	g.jsonName(f)
	g.annotate(f, annTarget{kind: kEnum, enum: t})
	return f
}

func (g *gen) wktField(from *gMsg, name string, num int32) *descriptorpb.FieldDescriptorProto {
	w := supportedWKT[g.h.Rng.IntN(len(supportedWKT))]
	if g.adv && g.chance(1, 8) {
		w = oddWKT[g.h.Rng.IntN(len(oddWKT))]
	}
	g.addImport(from.file, w.file)
	f := &descriptorpb.FieldDescriptorProto{
		Name: proto.String(name), Number: proto.Int32(num), Type: kMessage.Enum(),
		Label:    descriptorpb.FieldDescriptorProto_LABEL_OPTIONAL.Enum(),
		TypeName: proto.String("." + w.name),
	}
	g.jsonName(f)
	g.annotate(f, annTarget{kind: kMessage, wkt: w.name})
	return f
}

func (g *gen) anyValueField(from *gMsg, name string, num int32) *descriptorpb.FieldDescriptorProto {
	var f *descriptorpb.FieldDescriptorProto
	switch c := g.h.Rng.IntN(10); {
	case c < 4:
		f = g.scalarField(name, num, g.pickScalar())
	case c < 6:
		f = g.msgField(from, name, num)
	case c < 8:
		f = g.enumField(from, name, num)
	default:
		f = g.wktField(from, name, num)
	}
	if f == nil {
		f = g.scalarField(name, num, kString)
	}
	return f
}

func (g *gen) repeatedField(from *gMsg, name string, num int32) *descriptorpb.FieldDescriptorProto {
	f := g.anyValueField(from, name, num)
	item := f.Options
	f.Options = nil
	f.Label = descriptorpb.FieldDescriptorProto_LABEL_REPEATED.Enum()
	// annotations of a repeated field: validate.repeated{min,max,unique,items}, j5 array ext; the item
	// annotations generated above move into repeated.items (validate) or stay on the field (list, j5).
	var itemValidate *validate.FieldConstraints
	if item != nil {
		if v, ok := proto.GetExtension(item, validate.E_Field).(*validate.FieldConstraints); ok && v != nil {
			itemValidate = v
			proto.ClearExtension(item, validate.E_Field)
		}
		f.Options = item
	}
	if g.chance(1, 2) || itemValidate != nil {
		rr := &validate.RepeatedRules{}
		if g.chance(1, 2) {
			rr.MinItems = proto.Uint64(uint64(g.h.Rng.IntN(3)))
		}
		if g.chance(1, 2) {
			rr.MaxItems = proto.Uint64(uint64(3 + g.h.Rng.IntN(5)))
		}
		if g.chance(1, 3) {
			rr.Unique = proto.Bool(g.chance(1, 2))
		}
		if itemValidate != nil {
			// item level `required` is meaningless; keep only the type rules
			itemValidate.Required = nil
			rr.Items = itemValidate
		}
		fc := &validate.FieldConstraints{Type: &validate.FieldConstraints_Repeated{Repeated: rr}}
		if g.chance(1, 6) {
			fc.Required = proto.Bool(true)
		}
		if g.adv && g.chance(1, 6) {
			fc.Ignore = validate.Ignore(g.h.Rng.IntN(4)).Enum()
		}
		if f.Options == nil {
			f.Options = &descriptorpb.FieldOptions{}
		}
		proto.SetExtension(f.Options, validate.E_Field, fc)
	}
	if g.chance(1, 4) {
		if f.Options == nil {
			f.Options = &descriptorpb.FieldOptions{}
		}
		cur, _ := proto.GetExtension(f.Options, ext_j5pb.E_Field).(*ext_j5pb.FieldOptions)
		if cur == nil || g.adv {
			af := &ext_j5pb.ArrayField{}
			if g.chance(2, 3) {
				af.SingleForm = proto.String("item")
			}
			proto.SetExtension(f.Options, ext_j5pb.E_Field, &ext_j5pb.FieldOptions{Type: &ext_j5pb.FieldOptions_Array{Array: af}})
		}
	}
	return f
}

func (g *gen) mapField(from *gMsg, name string, num int32) *descriptorpb.FieldDescriptorProto {
	val := g.anyValueField(from, "value", 2)
	itemOpts := val.Options
	val.Options = nil
	val.JsonName = proto.String("value")
	keyKind := kString
	if g.adv && g.chance(1, 12) {
		keyKind = []K{kInt32, kInt64, kBool, kUint32}[g.h.Rng.IntN(4)]
	}
	entryName := protocJSONName("_"+name) + "Entry"
	entry := &descriptorpb.DescriptorProto{
		Name: proto.String(entryName),
		Field: []*descriptorpb.FieldDescriptorProto{
			{Name: proto.String("key"), Number: proto.Int32(1), Type: keyKind.Enum(), Label: descriptorpb.FieldDescriptorProto_LABEL_OPTIONAL.Enum(), JsonName: proto.String("key")},
			val,
		},
		Options: &descriptorpb.MessageOptions{MapEntry: proto.Bool(true)},
	}
	from.dp.NestedType = append(from.dp.NestedType, entry)
	f := &descriptorpb.FieldDescriptorProto{
		Name: proto.String(name), Number: proto.Int32(num), Type: kMessage.Enum(),
		Label:    descriptorpb.FieldDescriptorProto_LABEL_REPEATED.Enum(),
		TypeName: proto.String("." + from.full + "." + entryName),
	}
	g.jsonName(f)
	var itemValidate *validate.FieldConstraints
	if itemOpts != nil {
		if v, ok := proto.GetExtension(itemOpts, validate.E_Field).(*validate.FieldConstraints); ok && v != nil {
			itemValidate = v
			proto.ClearExtension(itemOpts, validate.E_Field)
		}
		f.Options = itemOpts
	}
	if g.chance(1, 2) || itemValidate != nil {
		mr := &validate.MapRules{}
		if g.chance(1, 2) {
			mr.MinPairs = proto.Uint64(uint64(g.h.Rng.IntN(3)))
		}
		if g.chance(1, 2) {
			mr.MaxPairs = proto.Uint64(uint64(3 + g.h.Rng.IntN(5)))
		}
		if itemValidate != nil {
			itemValidate.Required = nil
			mr.Values = itemValidate
		}
		if g.chance(1, 4) {
			mr.Keys = &validate.FieldConstraints{Type: &validate.FieldConstraints_String_{String_: &validate.StringRules{MinLen: proto.Uint64(1)}}}
		}
		if f.Options == nil {
			f.Options = &descriptorpb.FieldOptions{}
		}
		proto.SetExtension(f.Options, validate.E_Field, &validate.FieldConstraints{Type: &validate.FieldConstraints_Map{Map: mr}})
	}
	if g.chance(1, 4) {
		if f.Options == nil {
			f.Options = &descriptorpb.FieldOptions{}
		}
		cur, _ := proto.GetExtension(f.Options, ext_j5pb.E_Field).(*ext_j5pb.FieldOptions)
		if cur == nil || g.adv {
			mf := &ext_j5pb.MapField{}
			if g.chance(2, 3) {
				mf.SingleForm = proto.String("pair")
			}
			proto.SetExtension(f.Options, ext_j5pb.E_Field, &ext_j5pb.FieldOptions{Type: &ext_j5pb.FieldOptions_Map{Map: mf}})
		}
	}
	return f
}

// ---------------------------------------------------------------- annotations

type annTarget struct {
	kind K
	msg  *gMsg
	enum *gEnum
	wkt  string
}

func (g *gen) annotate(f *descriptorpb.FieldDescriptorProto, t annTarget) {
	h := g.h
	var v *validate.FieldConstraints
	var l *list_j5pb.FieldConstraint
	var j *ext_j5pb.FieldOptions
	var key *ext_j5pb.PSMKeyFieldOptions

	if g.chance(3, 5) {
		v = g.validateFor(t, false)
	}
	if g.chance(2, 5) {
		l = g.listFor(t, false)
	}
	if g.chance(1, 3) {
		j = g.j5For(t, false)
	}
	if t.kind == kString && g.chance(1, 6) {
		key = &ext_j5pb.PSMKeyFieldOptions{}
		switch h.Rng.IntN(3) {
		case 0:
			key.PrimaryKey = true
		case 1:
			key.ForeignKey = &schema_j5pb.EntityRef{Package: "vt.alpha.v1", Entity: "foo"}
		}
		if g.chance(1, 4) {
			key.TenantType = proto.String("org")
		}
	}
	if !g.adv && t.kind == kString {
		format := ""
		if v != nil {
			if sr := v.GetString(); sr != nil {
				switch sr.WellKnown.(type) {
				case *validate.StringRules_Uuid:
					format = "uuid"
				case nil:
				default:
					format = "other"
				}
				switch sr.GetPattern() {
				case `^\d{4}-\d{2}-\d{2}$`, `^\d(.?\d)?$`:
					format = "other"
				case "^[0-9A-Za-z]{22}$":
					format = "id62"
				}
			}
		}
		if sr := l.GetString_(); sr != nil {
			switch w := sr.WellKnown.(type) {
			case *list_j5pb.StringRules_OpenText:
				if format != "" || key != nil {
					l = nil
				}
			case *list_j5pb.StringRules_ForeignKey:
				switch w.ForeignKey.Type.(type) {
				case *list_j5pb.ForeignKeyRules_UniqueString:
					if format != "" {
						l = nil
					}
				case *list_j5pb.ForeignKeyRules_Uuid:
					if format != "" && format != "uuid" {
						l = nil
					}
				case *list_j5pb.ForeignKeyRules_Id62:
					if format != "" && format != "id62" {
						l = nil
					}
				}
			}
		}
	}
	if g.adv {
		// inconsistent: a rule family of another kind / any type case
		if g.chance(1, 12) {
			v = g.validateFor(g.randomTarget(), true)
		}
		if g.chance(1, 14) {
			l = g.listFor(g.randomTarget(), true)
		}
		if g.chance(1, 14) {
			j = g.j5For(g.randomTarget(), true)
		}
		if t.kind != kString && g.chance(1, 15) {
			key = &ext_j5pb.PSMKeyFieldOptions{PrimaryKey: true}
		}
	}
	if g.chance(1, 8) {
		if v == nil {
			v = &validate.FieldConstraints{}
		}
		v.Required = proto.Bool(g.chance(4, 5))
	}
	if g.adv && v != nil && g.chance(1, 8) {
		v.Ignore = validate.Ignore(h.Rng.IntN(4)).Enum()
	}
	if v == nil && l == nil && j == nil && key == nil {
		return
	}
	f.Options = &descriptorpb.FieldOptions{}
	if v != nil {
		proto.SetExtension(f.Options, validate.E_Field, v)
	}
	if l != nil {
		proto.SetExtension(f.Options, list_j5pb.E_Field, l)
	}
	if j != nil {
		proto.SetExtension(f.Options, ext_j5pb.E_Field, j)
	}
	if key != nil {
		proto.SetExtension(f.Options, ext_j5pb.E_Key, key)
	}
}

func (g *gen) randomTarget() annTarget {
	switch g.h.Rng.IntN(4) {
	case 0:
		return annTarget{kind: kMessage, wkt: supportedWKT[g.h.Rng.IntN(len(supportedWKT))].name}
	case 1:
		return annTarget{kind: kEnum}
	case 2:
		return annTarget{kind: kMessage}
	}
	return annTarget{kind: allScalars[g.h.Rng.IntN(len(allScalars))]}
}

func (g *gen) validateFor(t annTarget, wild bool) *validate.FieldConstraints {
	h := g.h
	r := h.Rng
	fc := &validate.FieldConstraints{}
	// in valid mode avoid the rule shapes the reader rejects (const/in/not_in on numbers); the
	// adversarial mode includes them.
	odd := g.adv && g.chance(1, 8)
	switch t.kind {
	case kString:
		sr := &validate.StringRules{}
		if g.chance(1, 3) {
			sr.MinLen = proto.Uint64(uint64(r.IntN(4)))
		}
		if g.chance(1, 3) {
			sr.MaxLen = proto.Uint64(uint64(4 + r.IntN(40)))
		}
		switch r.IntN(12) {
		case 0:
			sr.Pattern = proto.String(`^\d{4}-\d{2}-\d{2}$`)
		case 1:
			sr.Pattern = proto.String(`^\d(.?\d)?$`)
		case 2:
			sr.Pattern = proto.String("^[0-9A-Za-z]{22}$")
		case 3:
			sr.Pattern = proto.String("^[a-z]+$")
		case 4:
			sr.WellKnown = &validate.StringRules_Uuid{Uuid: g.chance(4, 5)}
		case 5:
			sr.WellKnown = &validate.StringRules_Email{Email: true}
		case 6:
			sr.WellKnown = &validate.StringRules_Hostname{Hostname: true}
		case 7:
			sr.WellKnown = &validate.StringRules_Ipv4{Ipv4: true}
		case 8:
			sr.WellKnown = &validate.StringRules_Ipv6{Ipv6: true}
		case 9:
			sr.WellKnown = &validate.StringRules_Uri{Uri: true}
		}
		if odd {
			switch r.IntN(4) {
			case 0:
				sr.WellKnown = &validate.StringRules_Address{Address: true}
			case 1:
				sr.WellKnown = &validate.StringRules_Ip{Ip: true}
			case 2:
				sr.Const = proto.String("k")
			case 3:
				sr.In = []string{"a", "b"}
			}
		}
		fc.Type = &validate.FieldConstraints_String_{String_: sr}
	case kBool:
		br := &validate.BoolRules{}
		if odd || (wild && g.chance(1, 2)) {
			br.Const = proto.Bool(g.chance(1, 2))
		}
		fc.Type = &validate.FieldConstraints_Bool{Bool: br}
	case kInt32:
		x := &validate.Int32Rules{}
		switch r.IntN(3) {
		case 0:
			x.LessThan = &validate.Int32Rules_Lt{Lt: int32(r.IntN(100))}
		case 1:
			x.LessThan = &validate.Int32Rules_Lte{Lte: int32(r.IntN(100))}
		}
		switch r.IntN(3) {
		case 0:
			x.GreaterThan = &validate.Int32Rules_Gt{Gt: int32(r.IntN(100)) - 50}
		case 1:
			x.GreaterThan = &validate.Int32Rules_Gte{Gte: int32(r.IntN(100)) - 50}
		}
		if odd {
			switch r.IntN(3) {
			case 0:
				x.Const = proto.Int32(3)
			case 1:
				x.In = []int32{1, 2}
			case 2:
				x.NotIn = []int32{0}
			}
		}
		fc.Type = &validate.FieldConstraints_Int32{Int32: x}
	case kSint32:
		// the reader looks at validate.int32 for sint32 fields; protovalidate wants sint32 rules
		if g.chance(1, 2) {
			x := &validate.Int32Rules{}
			if g.chance(1, 2) {
				x.LessThan = &validate.Int32Rules_Lt{Lt: 9}
			}
			fc.Type = &validate.FieldConstraints_Int32{Int32: x}
		} else {
			x := &validate.SInt32Rules{}
			if g.chance(1, 2) {
				x.GreaterThan = &validate.SInt32Rules_Gte{Gte: 1}
			}
			fc.Type = &validate.FieldConstraints_Sint32{Sint32: x}
		}
	case kUint32:
		x := &validate.UInt32Rules{}
		switch r.IntN(3) {
		case 0:
			x.LessThan = &validate.UInt32Rules_Lt{Lt: uint32(r.IntN(100))}
		case 1:
			x.LessThan = &validate.UInt32Rules_Lte{Lte: uint32(r.IntN(100))}
		}
		switch r.IntN(3) {
		case 0:
			x.GreaterThan = &validate.UInt32Rules_Gt{Gt: uint32(r.IntN(100))}
		case 1:
			x.GreaterThan = &validate.UInt32Rules_Gte{Gte: uint32(r.IntN(100))}
		}
		if odd {
			x.Const = proto.Uint32(3)
		}
		fc.Type = &validate.FieldConstraints_Uint32{Uint32: x}
	case kInt64:
		x := &validate.Int64Rules{}
		switch r.IntN(3) {
		case 0:
			x.LessThan = &validate.Int64Rules_Lt{Lt: int64(r.IntN(100))}
		case 1:
			x.LessThan = &validate.Int64Rules_Lte{Lte: int64(r.IntN(100))}
		}
		switch r.IntN(3) {
		case 0:
			x.GreaterThan = &validate.Int64Rules_Gt{Gt: int64(r.IntN(100)) - 50}
		case 1:
			x.GreaterThan = &validate.Int64Rules_Gte{Gte: int64(r.IntN(100)) - 50}
		}
		if odd {
			x.In = []int64{4}
		}
		fc.Type = &validate.FieldConstraints_Int64{Int64: x}
	case kSint64:
		if g.chance(1, 2) {
			fc.Type = &validate.FieldConstraints_Int64{Int64: &validate.Int64Rules{LessThan: &validate.Int64Rules_Lte{Lte: 5}}}
		} else {
			fc.Type = &validate.FieldConstraints_Sint64{Sint64: &validate.SInt64Rules{}}
		}
	case kUint64:
		x := &validate.UInt64Rules{}
		switch r.IntN(3) {
		case 0:
			x.LessThan = &validate.UInt64Rules_Lt{Lt: uint64(r.IntN(100))}
		case 1:
			x.LessThan = &validate.UInt64Rules_Lte{Lte: uint64(r.IntN(100))}
		}
		switch r.IntN(3) {
		case 0:
			x.GreaterThan = &validate.UInt64Rules_Gt{Gt: uint64(r.IntN(100))}
		case 1:
			x.GreaterThan = &validate.UInt64Rules_Gte{Gte: uint64(r.IntN(100))}
		}
		if odd {
			x.NotIn = []uint64{0}
		}
		fc.Type = &validate.FieldConstraints_Uint64{Uint64: x}
	case kFloat:
		x := &validate.FloatRules{}
		switch r.IntN(3) {
		case 0:
			x.LessThan = &validate.FloatRules_Lt{Lt: 1.5}
		case 1:
			x.LessThan = &validate.FloatRules_Lte{Lte: 2.5}
		}
		switch r.IntN(3) {
		case 0:
			x.GreaterThan = &validate.FloatRules_Gt{Gt: -1}
		case 1:
			x.GreaterThan = &validate.FloatRules_Gte{Gte: 0}
		}
		if odd {
			x.Const = proto.Float32(1)
		}
		fc.Type = &validate.FieldConstraints_Float{Float: x}
	case kDouble:
		x := &validate.DoubleRules{}
		switch r.IntN(3) {
		case 0:
			x.LessThan = &validate.DoubleRules_Lt{Lt: 1.5}
		case 1:
			x.LessThan = &validate.DoubleRules_Lte{Lte: 2.5}
		}
		switch r.IntN(3) {
		case 0:
			x.GreaterThan = &validate.DoubleRules_Gt{Gt: -1}
		case 1:
			x.GreaterThan = &validate.DoubleRules_Gte{Gte: 0}
		}
		if odd {
			x.In = []float64{1}
		}
		fc.Type = &validate.FieldConstraints_Double{Double: x}
	case kBytes:
		fc.Type = &validate.FieldConstraints_Bytes{Bytes: &validate.BytesRules{MinLen: proto.Uint64(1)}}
	case kFixed32:
		fc.Type = &validate.FieldConstraints_Fixed32{Fixed32: &validate.Fixed32Rules{}}
	case kFixed64:
		if g.chance(1, 2) {
			fc.Type = &validate.FieldConstraints_Fixed64{Fixed64: &validate.Fixed64Rules{}}
		} else {
			fc.Type = &validate.FieldConstraints_Double{Double: &validate.DoubleRules{LessThan: &validate.DoubleRules_Lt{Lt: 3}}}
		}
	case kSfixed32:
		fc.Type = &validate.FieldConstraints_Sfixed32{Sfixed32: &validate.SFixed32Rules{}}
	case kSfixed64:
		fc.Type = &validate.FieldConstraints_Sfixed64{Sfixed64: &validate.SFixed64Rules{}}
	case kEnum:
		er := &validate.EnumRules{}
		if g.chance(1, 2) {
			er.DefinedOnly = proto.Bool(true)
		}
		nums := []int32{0}
		if t.enum != nil {
			nums = nil
			for _, v := range t.enum.dp.Value {
				nums = append(nums, v.GetNumber())
			}
		}
		switch r.IntN(4) {
		case 0:
			if n := nums[r.IntN(len(nums))]; n != 0 || g.adv {
				er.In = []int32{n}
			}
			if len(nums) > 1 {
				er.In = append(er.In, nums[1])
			}
		case 1:
			er.NotIn = []int32{0}
			if g.chance(1, 2) {
				er.NotIn = append(er.NotIn, nums[r.IntN(len(nums))])
			}
		}
		if odd {
			switch r.IntN(3) {
			case 0:
				er.In = append(er.In, 77)
			case 1:
				er.NotIn = append(er.NotIn, 99)
			case 2:
				er.Const = proto.Int32(1)
			}
		}
		fc.Type = &validate.FieldConstraints_Enum{Enum: er}
	case kMessage:
		switch t.wkt {
		case "google.protobuf.Timestamp":
			tr := &validate.TimestampRules{}
			switch r.IntN(3) {
			case 0:
				tr.LessThan = &validate.TimestampRules_Lt{Lt: &timestamppb.Timestamp{Seconds: 2000000000}}
			case 1:
				tr.LessThan = &validate.TimestampRules_Lte{Lte: &timestamppb.Timestamp{Seconds: 2000000000, Nanos: 5}}
			}
			switch r.IntN(3) {
			case 0:
				tr.GreaterThan = &validate.TimestampRules_Gt{Gt: &timestamppb.Timestamp{Seconds: 1000}}
			case 1:
				tr.GreaterThan = &validate.TimestampRules_Gte{Gte: &timestamppb.Timestamp{Seconds: 1000}}
			}
			if odd {
				switch r.IntN(4) {
				case 0:
					tr.Const = &timestamppb.Timestamp{Seconds: 5}
				case 1:
					tr.Within = &durationpb.Duration{Seconds: 60}
				case 2:
					tr.LessThan = &validate.TimestampRules_LtNow{LtNow: true}
				case 3:
					tr.GreaterThan = &validate.TimestampRules_GtNow{GtNow: true}
				}
			}
			fc.Type = &validate.FieldConstraints_Timestamp{Timestamp: tr}
		case "google.protobuf.Duration":
			fc.Type = &validate.FieldConstraints_Duration{Duration: &validate.DurationRules{}}
		case "google.protobuf.Any":
			fc.Type = &validate.FieldConstraints_Any{Any: &validate.AnyRules{In: []string{"type.googleapis.com/x.Y"}}}
		default:
			// messages have no type rules; `required` only
			fc.Required = proto.Bool(true)
		}
	}
	return fc
}

func filtering(g *gen) *list_j5pb.FilteringConstraint {
	f := &list_j5pb.FilteringConstraint{Filterable: g.chance(3, 4)}
	if g.chance(1, 3) {
		f.DefaultFilters = []string{"a"}
	}
	return f
}

func sorting(g *gen) *list_j5pb.SortingConstraint {
	return &list_j5pb.SortingConstraint{Sortable: g.chance(3, 4), DefaultSort: g.chance(1, 4)}
}

func (g *gen) listFor(t annTarget, wild bool) *list_j5pb.FieldConstraint {
	ir := func() *list_j5pb.IntegerRules {
		return &list_j5pb.IntegerRules{Filtering: filtering(g), Sorting: sorting(g)}
	}
	fr := func() *list_j5pb.FloatRules { return &list_j5pb.FloatRules{Filtering: filtering(g), Sorting: sorting(g)} }
	lc := &list_j5pb.FieldConstraint{}
	switch t.kind {
	case kString:
		sr := &list_j5pb.StringRules{}
		kr := func() *list_j5pb.KeyRules { return &list_j5pb.KeyRules{Filtering: filtering(g)} }
		switch g.h.Rng.IntN(6) {
		case 0:
			sr.WellKnown = &list_j5pb.StringRules_OpenText{OpenText: &list_j5pb.OpenTextRules{Searching: &list_j5pb.SearchingConstraint{Searchable: true, FieldIdentifier: "tsv_x"}}}
		case 1:
			sr.WellKnown = &list_j5pb.StringRules_Date{Date: &list_j5pb.DateRules{Filtering: filtering(g)}}
		case 2:
			sr.WellKnown = &list_j5pb.StringRules_ForeignKey{ForeignKey: &list_j5pb.ForeignKeyRules{Type: &list_j5pb.ForeignKeyRules_UniqueString{UniqueString: kr()}}}
		case 3:
			sr.WellKnown = &list_j5pb.StringRules_ForeignKey{ForeignKey: &list_j5pb.ForeignKeyRules{Type: &list_j5pb.ForeignKeyRules_Uuid{Uuid: kr()}}}
		case 4:
			sr.WellKnown = &list_j5pb.StringRules_ForeignKey{ForeignKey: &list_j5pb.ForeignKeyRules{Type: &list_j5pb.ForeignKeyRules_Id62{Id62: kr()}}}
		case 5:
			if g.adv {
				sr.WellKnown = &list_j5pb.StringRules_ForeignKey{ForeignKey: &list_j5pb.ForeignKeyRules{}}
			}
		}
		lc.Type = &list_j5pb.FieldConstraint_String_{String_: sr}
	case kBool:
		lc.Type = &list_j5pb.FieldConstraint_Bool{Bool: &list_j5pb.BoolRules{Filtering: filtering(g)}}
	case kInt32:
		lc.Type = &list_j5pb.FieldConstraint_Int32{Int32: ir()}
	case kSint32:
		if g.chance(1, 2) {
			lc.Type = &list_j5pb.FieldConstraint_Sint32{Sint32: ir()}
		} else {
			lc.Type = &list_j5pb.FieldConstraint_Int32{Int32: ir()}
		}
	case kUint32:
		lc.Type = &list_j5pb.FieldConstraint_Uint32{Uint32: ir()}
	case kInt64:
		lc.Type = &list_j5pb.FieldConstraint_Int64{Int64: ir()}
	case kSint64:
		if g.chance(1, 2) {
			lc.Type = &list_j5pb.FieldConstraint_Sint64{Sint64: ir()}
		} else {
			lc.Type = &list_j5pb.FieldConstraint_Int64{Int64: ir()}
		}
	case kUint64:
		if g.chance(1, 2) {
			lc.Type = &list_j5pb.FieldConstraint_Uint64{Uint64: ir()}
		} else {
			lc.Type = &list_j5pb.FieldConstraint_Int64{Int64: ir()}
		}
	case kFloat:
		lc.Type = &list_j5pb.FieldConstraint_Float{Float: fr()}
	case kDouble:
		lc.Type = &list_j5pb.FieldConstraint_Double{Double: fr()}
	case kFixed32:
		lc.Type = &list_j5pb.FieldConstraint_Fixed32{Fixed32: ir()}
	case kFixed64:
		lc.Type = &list_j5pb.FieldConstraint_Fixed64{Fixed64: ir()}
	case kSfixed32:
		lc.Type = &list_j5pb.FieldConstraint_Sfixed32{Sfixed32: ir()}
	case kSfixed64:
		lc.Type = &list_j5pb.FieldConstraint_Sfixed64{Sfixed64: ir()}
	case kEnum:
		lc.Type = &list_j5pb.FieldConstraint_Enum{Enum: &list_j5pb.EnumRules{Filtering: filtering(g)}}
	case kMessage:
		switch t.wkt {
		case "google.protobuf.Timestamp":
			lc.Type = &list_j5pb.FieldConstraint_Timestamp{Timestamp: &list_j5pb.TimestampRules{Filtering: filtering(g), Sorting: sorting(g)}}
		case "j5.types.date.v1.Date":
			lc.Type = &list_j5pb.FieldConstraint_Date{Date: &list_j5pb.DateRules{Filtering: filtering(g)}}
		case "j5.types.decimal.v1.Decimal":
			lc.Type = &list_j5pb.FieldConstraint_Decimal{Decimal: &list_j5pb.DecimalRules{Filtering: filtering(g), Sorting: sorting(g)}}
		case "j5.types.any.v1.Any", "google.protobuf.Any":
			lc.Type = &list_j5pb.FieldConstraint_Any{Any: &list_j5pb.AnyRules{Filtering: filtering(g)}}
		default:
			if wild || (t.msg != nil && t.msg.wrap) {
				lc.Type = &list_j5pb.FieldConstraint_Oneof{Oneof: &list_j5pb.OneofRules{Filtering: filtering(g)}}
			} else {
				return nil
			}
		}
	default:
		return nil
	}
	return lc
}

func (g *gen) j5For(t annTarget, wild bool) *ext_j5pb.FieldOptions {
	r := g.h.Rng
	fo := &ext_j5pb.FieldOptions{}
	if g.chance(1, 6) {
		fo.Description = "described by option"
	}
	rulesS := func() (min, max *string, emin, emax *bool) {
		if g.chance(1, 2) {
			min = proto.String("2020-01-01")
		}
		if g.chance(1, 2) {
			max = proto.String("2030-12-31")
		}
		if g.chance(1, 3) {
			emin = proto.Bool(true)
		}
		if g.chance(1, 3) {
			emax = proto.Bool(false)
		}
		return
	}
	switch t.kind {
	case kString:
		switch r.IntN(5) {
		case 0:
			fo.Type = &ext_j5pb.FieldOptions_String_{String_: &ext_j5pb.StringField{}}
		case 1:
			fo.Type = &ext_j5pb.FieldOptions_Key{Key: &ext_j5pb.KeyField{}}
		case 2:
			fo.Type = &ext_j5pb.FieldOptions_Key{Key: &ext_j5pb.KeyField{Type: &ext_j5pb.KeyField_Pattern{Pattern: "^[a-z]{3}$"}}}
		case 3:
			fo.Type = &ext_j5pb.FieldOptions_Key{Key: &ext_j5pb.KeyField{Type: &ext_j5pb.KeyField_Format_{Format: ext_j5pb.KeyField_FORMAT_UUID}}}
		case 4:
			fmtv := ext_j5pb.KeyField_FORMAT_ID62
			if g.adv && g.chance(1, 2) {
				fmtv = ext_j5pb.KeyField_Format(r.IntN(5))
			}
			fo.Type = &ext_j5pb.FieldOptions_Key{Key: &ext_j5pb.KeyField{Type: &ext_j5pb.KeyField_Format_{Format: fmtv}}}
		}
	case kBool:
		fo.Type = &ext_j5pb.FieldOptions_Bool{Bool: &ext_j5pb.BoolField{}}
	case kInt32, kSint32, kUint32, kInt64, kSint64, kUint64, kFixed32, kFixed64, kSfixed32, kSfixed64:
		ifo := &ext_j5pb.IntegerField{}
		if g.chance(1, 2) {
			ifo.Rules = &ext_j5pb.IntegerField_Rules{Minimum: proto.Int64(1)}
		}
		fo.Type = &ext_j5pb.FieldOptions_Integer{Integer: ifo}
	case kFloat, kDouble:
		fo.Type = &ext_j5pb.FieldOptions_Float{Float: &ext_j5pb.FloatField{}}
	case kBytes:
		fo.Type = &ext_j5pb.FieldOptions_Bytes{Bytes: &ext_j5pb.BytesField{}}
	case kEnum:
		fo.Type = &ext_j5pb.FieldOptions_Enum{Enum: &ext_j5pb.EnumField{}}
	case kMessage:
		switch t.wkt {
		case "google.protobuf.Timestamp":
			fo.Type = &ext_j5pb.FieldOptions_Timestamp{Timestamp: &ext_j5pb.TimestampField{}}
		case "j5.types.date.v1.Date":
			df := &ext_j5pb.DateField{}
			if g.chance(3, 4) {
				mi, ma, ei, ea := rulesS()
				df.Rules = &ext_j5pb.DateField_Rules{Minimum: mi, Maximum: ma, ExclusiveMinimum: ei, ExclusiveMaximum: ea}
			}
			fo.Type = &ext_j5pb.FieldOptions_Date{Date: df}
		case "j5.types.decimal.v1.Decimal":
			// the reader takes decimal rules from the *date* option (ext.j5.GetDate()); offer both
			if g.chance(1, 2) {
				mi, ma, ei, ea := rulesS()
				fo.Type = &ext_j5pb.FieldOptions_Decimal{Decimal: &ext_j5pb.DecimalField{Rules: &ext_j5pb.DecimalField_Rules{Minimum: mi, Maximum: ma, ExclusiveMinimum: ei, ExclusiveMaximum: ea}}}
			} else {
				mi, ma, ei, ea := rulesS()
				fo.Type = &ext_j5pb.FieldOptions_Date{Date: &ext_j5pb.DateField{Rules: &ext_j5pb.DateField_Rules{Minimum: mi, Maximum: ma, ExclusiveMinimum: ei, ExclusiveMaximum: ea}}}
			}
		case "j5.types.any.v1.Any", "google.protobuf.Any":
			af := &ext_j5pb.AnyField{OnlyDefined: g.chance(1, 2)}
			if g.chance(2, 3) {
				af.Types = []string{"vt.alpha.v1.M1"}
				if g.chance(1, 2) {
					af.Types = append(af.Types, "j5.types.date.v1.Date")
				}
			}
			fo.Type = &ext_j5pb.FieldOptions_Any{Any: af}
		case "":
			if t.msg != nil && t.msg.wrap && !wild {
				fo.Type = &ext_j5pb.FieldOptions_Oneof{Oneof: &ext_j5pb.OneofField{}}
			} else if g.chance(1, 2) {
				fo.Type = &ext_j5pb.FieldOptions_Object{Object: &ext_j5pb.ObjectField{Flatten: g.chance(1, 2)}}
			} else {
				fo.Type = &ext_j5pb.FieldOptions_Message{Message: &ext_j5pb.MessageFieldOptions{Flatten: g.chance(1, 2)}}
			}
		default:
			return nil
		}
	}
	return fo
}

// addComments attaches leading/trailing comments to messages, fields, enums and enum values through
// SourceCodeInfo (the reader turns them into descriptions).
func (g *gen) addComments(f *descriptorpb.FileDescriptorProto) {
	if !g.chance(2, 3) {
		return
	}
	sci := &descriptorpb.SourceCodeInfo{}
	comment := func(path []int32, what string) {
		if !g.chance(1, 2) {
			return
		}
		loc := &descriptorpb.SourceCodeInfo_Location{Path: append([]int32{}, path...), Span: []int32{0, 0, 1}}
		switch g.h.Rng.IntN(5) {
		case 0:
			loc.LeadingComments = proto.String(" about " + what + "\n")
		case 1:
			loc.LeadingComments = proto.String(" line one\n line two \n\n # hidden\n")
		case 2:
			loc.TrailingComments = proto.String(" trailing " + what)
		case 3:
			loc.LeadingComments = proto.String(" lead")
			loc.TrailingComments = proto.String(" trail")
		case 4:
			loc.LeadingComments = proto.String("#only hidden")
		}
		sci.Location = append(sci.Location, loc)
	}
	var walkMsg func(path []int32, m *descriptorpb.DescriptorProto)
	walkMsg = func(path []int32, m *descriptorpb.DescriptorProto) {
		comment(path, m.GetName())
		for i, fd := range m.Field {
			comment(append(path, 2, int32(i)), fd.GetName())
		}
		for i, n := range m.NestedType {
			walkMsg(append(append([]int32{}, path...), 3, int32(i)), n)
		}
		for i, e := range m.EnumType {
			p := append(append([]int32{}, path...), 4, int32(i))
			comment(p, e.GetName())
			for j, v := range e.Value {
				comment(append(p, 2, int32(j)), v.GetName())
			}
		}
		for i, o := range m.OneofDecl {
			comment(append(append([]int32{}, path...), 8, int32(i)), o.GetName())
		}
	}
	for i, m := range f.MessageType {
		walkMsg([]int32{4, int32(i)}, m)
	}
	for i, e := range f.EnumType {
		p := []int32{5, int32(i)}
		comment(p, e.GetName())
		for j, v := range e.Value {
			comment(append(p, 2, int32(j)), v.GetName())
		}
	}
	f.SourceCodeInfo = sci
}
