//go:build verif

package main

// Enum value names whose SHORT name (the value name minus the prefix derived from *_UNSPECIFIED)
// itself begins with, equals, or repeats that prefix (round 4, seeded change C15-m7).
//
// Every reader / exporter / importer of an enum handles "the prefix" of option names somewhere
// (buildEnum trims it once, the export keeps the short names and the prefix side by side, the
// importer copies the short names, OptionByName trims its argument). A name in which the prefix
// occurs again after the first trim is the input on which "trim once" and "trim again" differ:
// `enum Status { STATUS_UNSPECIFIED; STATUS_STATUS_PAGE_ONLY }` has the option `STATUS_PAGE_ONLY`,
// and a second trim makes it `PAGE_ONLY`. With canonical PREFIX_V<i> names no such difference is
// observable, so 1 enum in 5 is generated in "prefixy" mode, where every non-zero value draws its
// name from the shapes below. Names stay unique within the enum (index suffix) and across enums
// (the prefix is the upper-cased fresh enum name).

import (
	"fmt"
	"strings"

	"github.com/pentops/j5/lib/j5schema"
)

// prefixyMode decides per enum whether its values use the shapes of prefixyValueName.
func (g *gen) prefixyMode() bool { return g.chance(1, 5) }

// prefixyValueName returns the full proto value name of the i-th (i > 0) value of an enum whose
// values carry `prefix` (e.g. "E3_"). used holds the names already taken in this enum.
func (g *gen) prefixyValueName(prefix string, i int, used map[string]bool) string {
	bare := strings.TrimSuffix(prefix, "_")
	var vn string
	switch g.h.Rng.IntN(8) {
	case 0, 1: // short name starts with the prefix:            E3_E3_V1   -> short E3_V1
		vn = fmt.Sprintf("%s%sV%d", prefix, prefix, i)
	case 2: // short name contains the prefix twice:             E3_E3_E3_V1 -> short E3_E3_V1
		vn = fmt.Sprintf("%s%s%sV%d", prefix, prefix, prefix, i)
	case 3: // short name equals the prefix without underscore:  E3_E3      -> short E3
		vn = prefix + bare
	case 4: // short name equals the prefix itself:              E3_E3_     -> short E3_
		vn = prefix + prefix
	case 5: // short name starts with the bare prefix, no '_':   E3_E3V1    -> short E3V1
		vn = fmt.Sprintf("%s%sV%d", prefix, bare, i)
	case 6: // prefix inside, not at the start of the short name: E3_X_E3_V1 -> short X_E3_V1
		vn = fmt.Sprintf("%sX_%sV%d", prefix, prefix, i)
	default: // canonical sibling in the same enum
		vn = fmt.Sprintf("%sV%d", prefix, i)
	}
	if used[vn] {
		vn = fmt.Sprintf("%s%sW%d", prefix, prefix, i)
	}
	used[vn] = true
	return vn
}

// countEnumNameShapes records how many reflected enums carry an option whose short name starts
// with the enum's own prefix (the class a second trim would rename).
func countEnumNameShapes(count func(string), t *j5schema.EnumSchema) {
	if t.NamePrefix == "" {
		return
	}
	for _, o := range t.Options {
		if strings.HasPrefix(o.Name(), t.NamePrefix) {
			count("feat.enum.option-short-name-starts-with-prefix")
			return
		}
	}
}
