//go:build verif

package main

// The env def of one root as the codec harness computes it (PROTOCOL-codec.md §3; mirrors
// internal/verifh/codech/schema.go: envBuilder.prop / field / presOf / scalarKindName, which live in
// a package main and cannot be imported), in a compact rendering without spaces:
//
//	ROOT  := obj[PROP;…] | oneof[PROP;…] | -
//	PROP  := hexName/PATH/PRES/FIELD/GROUP        PATH := ~ | n.n.…   GROUP := ~ | index of the real proto oneof
//	FIELD := string|key|…|enum:NAME|object:NAME|oneof:NAME|any:j5|any:pb|array(FIELD)|map(FIELD)
//
// It is compared with the Lean side's `Bridge.entryRoot` (J5V/Schema/EnvModel.lean), i.e. with the
// env the C18 → codec theorems are about.

import (
	"fmt"
	"strings"

	"github.com/pentops/j5/internal/verifh/vh"
	"github.com/pentops/j5/lib/j5schema"
	"google.golang.org/protobuf/reflect/protoreflect"
)

func envRoot(root j5schema.RootSchema, md protoreflect.MessageDescriptor) string {
	var props []*j5schema.ObjectProperty
	kind := ""
	switch s := root.(type) {
	case *j5schema.ObjectSchema:
		kind, props = "obj", s.ClientProperties()
	case *j5schema.OneofSchema:
		kind, props = "oneof", s.ClientProperties()
	default:
		return "-"
	}
	var parts []string
	for _, p := range props {
		parts = append(parts, envProp(p, md))
	}
	return kind + "[" + strings.Join(parts, ";") + "]"
}

func envPres(fd protoreflect.FieldDescriptor) string {
	switch {
	case fd.IsMap():
		return "map"
	case fd.IsList():
		return "list"
	case fd.Kind() == protoreflect.MessageKind || fd.Kind() == protoreflect.GroupKind:
		return "msg"
	case fd.HasPresence():
		return "opt"
	}
	return "imp"
}

func envProp(p *j5schema.ObjectProperty, md protoreflect.MessageDescriptor) string {
	path := "~"
	walk := md
	var final protoreflect.FieldDescriptor
	broken := false
	var ns []string
	for i, n := range p.ProtoField {
		ns = append(ns, fmt.Sprint(int32(n)))
		if broken {
			continue
		}
		fd := walk.Fields().ByNumber(n)
		if fd == nil {
			broken = true
			continue
		}
		final = fd
		if i < len(p.ProtoField)-1 {
			if fd.Message() == nil {
				broken = true
				continue
			}
			walk = fd.Message()
		}
	}
	if len(ns) > 0 {
		path = strings.Join(ns, ".")
	}
	pres := "none"
	if final != nil && !broken {
		pres = envPres(final)
	}
	var itemMsg protoreflect.MessageDescriptor
	if final != nil {
		if final.IsMap() {
			itemMsg = final.MapValue().Message()
		} else {
			itemMsg = final.Message()
		}
	} else {
		itemMsg = md
	}
	group := "~"
	if final != nil && !broken {
		if oo := final.ContainingOneof(); oo != nil && !oo.IsSynthetic() {
			group = fmt.Sprint(oo.Index())
		}
	}
	return vh.Hex([]byte(p.JSONName)) + "/" + path + "/" + pres + "/" + envField(p.Schema, itemMsg) + "/" + group
}

func envField(f j5schema.FieldSchema, itemMsg protoreflect.MessageDescriptor) string {
	switch s := f.(type) {
	case *j5schema.ArrayField:
		return "array(" + envField(s.Schema, itemMsg) + ")"
	case *j5schema.MapField:
		return "map(" + envField(s.Schema, itemMsg) + ")"
	case *j5schema.ObjectField:
		return "object:" + s.Ref.FullName()
	case *j5schema.OneofField:
		return "oneof:" + s.Ref.FullName()
	case *j5schema.EnumField:
		return "enum:" + s.Ref.FullName()
	case *j5schema.AnyField:
		if itemMsg != nil && itemMsg.FullName() == "google.protobuf.Any" {
			return "any:pb"
		}
		return "any:j5"
	case *j5schema.ScalarSchema:
		tag, fm := scalarTag(s.Proto)
		switch tag {
		case "integer":
			return map[int]string{1: "int32", 2: "int64", 3: "uint32", 4: "uint64"}[int(fm)]
		case "float":
			return map[int]string{1: "float32", 2: "float64"}[int(fm)]
		}
		return tag
	}
	return "unknown"
}
