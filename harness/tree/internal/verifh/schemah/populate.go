//go:build verif

package main

import (
	"google.golang.org/protobuf/proto"
	"google.golang.org/protobuf/reflect/protoreflect"
	"google.golang.org/protobuf/types/dynamicpb"

	"github.com/pentops/j5/j5types/date_j5t"
	"github.com/pentops/j5/lib/j5codec"
	"github.com/pentops/j5/lib/j5schema"
)

// populateField sets a plain, valid, non-default value in field fd of m. Nested messages are
// populated down to `depth`. Returns false when nothing could be set.
func populateField(m protoreflect.Message, fd protoreflect.FieldDescriptor, depth int) bool {
	switch {
	case fd.IsMap():
		mp := m.Mutable(fd).Map()
		v, ok := singleValue(fd.MapValue(), depth, func() protoreflect.Value { return mp.NewValue() })
		if !ok {
			return false
		}
		var k protoreflect.MapKey
		switch fd.MapKey().Kind() {
		case protoreflect.StringKind:
			k = protoreflect.ValueOfString("k1").MapKey()
		case protoreflect.BoolKind:
			k = protoreflect.ValueOfBool(true).MapKey()
		case protoreflect.Int32Kind, protoreflect.Sint32Kind, protoreflect.Sfixed32Kind:
			k = protoreflect.ValueOfInt32(3).MapKey()
		case protoreflect.Int64Kind, protoreflect.Sint64Kind, protoreflect.Sfixed64Kind:
			k = protoreflect.ValueOfInt64(3).MapKey()
		case protoreflect.Uint32Kind, protoreflect.Fixed32Kind:
			k = protoreflect.ValueOfUint32(3).MapKey()
		default:
			k = protoreflect.ValueOfUint64(3).MapKey()
		}
		mp.Set(k, v)
		return true
	case fd.IsList():
		l := m.Mutable(fd).List()
		for i := 0; i < 2; i++ {
			v, ok := singleValue(fd, depth, func() protoreflect.Value { return l.NewElement() })
			if !ok {
				return i > 0
			}
			l.Append(v)
		}
		return true
	default:
		v, ok := singleValue(fd, depth, func() protoreflect.Value { return m.NewField(fd) })
		if !ok {
			return false
		}
		m.Set(fd, v)
		return true
	}
}

func singleValue(fd protoreflect.FieldDescriptor, depth int, newMsg func() protoreflect.Value) (protoreflect.Value, bool) {
	switch fd.Kind() {
	case protoreflect.BoolKind:
		return protoreflect.ValueOfBool(true), true
	case protoreflect.Int32Kind, protoreflect.Sint32Kind, protoreflect.Sfixed32Kind:
		return protoreflect.ValueOfInt32(-7), true
	case protoreflect.Int64Kind, protoreflect.Sint64Kind, protoreflect.Sfixed64Kind:
		return protoreflect.ValueOfInt64(1234567890123), true
	case protoreflect.Uint32Kind, protoreflect.Fixed32Kind:
		return protoreflect.ValueOfUint32(7), true
	case protoreflect.Uint64Kind, protoreflect.Fixed64Kind:
		return protoreflect.ValueOfUint64(77), true
	case protoreflect.FloatKind:
		return protoreflect.ValueOfFloat32(1.5), true
	case protoreflect.DoubleKind:
		return protoreflect.ValueOfFloat64(2.25), true
	case protoreflect.StringKind:
		return protoreflect.ValueOfString("abc"), true
	case protoreflect.BytesKind:
		return protoreflect.ValueOfBytes([]byte{1, 2, 3}), true
	case protoreflect.EnumKind:
		// a defined, non-zero value (zero is "unset", and not even an option under no_default)
		vs := fd.Enum().Values()
		for i := 1; i < vs.Len(); i++ {
			if vs.Get(i).Number() != 0 {
				return protoreflect.ValueOfEnum(vs.Get(i).Number()), true
			}
		}
		return protoreflect.Value{}, false
	case protoreflect.MessageKind:
		v := newMsg()
		sub := v.Message()
		md := sub.Descriptor()
		set := func(name string, val protoreflect.Value) {
			if f := md.Fields().ByName(protoreflect.Name(name)); f != nil {
				sub.Set(f, val)
			}
		}
		switch md.FullName() {
		case "google.protobuf.Timestamp":
			set("seconds", protoreflect.ValueOfInt64(1700000000))
			set("nanos", protoreflect.ValueOfInt32(5000))
		case "google.protobuf.Duration":
			set("seconds", protoreflect.ValueOfInt64(90))
		case "j5.types.date.v1.Date":
			set("year", protoreflect.ValueOfInt32(2021))
			set("month", protoreflect.ValueOfInt32(3))
			set("day", protoreflect.ValueOfInt32(4))
		case "j5.types.decimal.v1.Decimal":
			set("value", protoreflect.ValueOfString("12.50"))
		case "j5.types.any.v1.Any":
			set("type_name", protoreflect.ValueOfString("j5.types.date.v1.Date"))
			set("j5_json", protoreflect.ValueOfBytes(dateJSON()))
		case "google.protobuf.Any":
			b, _ := proto.Marshal(&date_j5t.Date{Year: 2021, Month: 3, Day: 4})
			set("type_url", protoreflect.ValueOfString("type.googleapis.com/j5.types.date.v1.Date"))
			set("value", protoreflect.ValueOfBytes(b))
		case "google.protobuf.StringValue":
			set("value", protoreflect.ValueOfString("w"))
		case "google.protobuf.FieldMask":
			// leave empty
		case "google.protobuf.Empty":
		case "google.protobuf.Struct", "google.protobuf.Value":
			// leave empty: presence alone is the populated case
		default:
			if depth <= 0 {
				// a present, empty sub-message
				return v, true
			}
			fs := md.Fields()
			seenOneof := map[string]bool{}
			wrapper := j5schema.IsOneofWrapper(md)
			for i := 0; i < fs.Len(); i++ {
				f := fs.Get(i)
				if o := f.ContainingOneof(); o != nil && !o.IsSynthetic() {
					if seenOneof[string(o.Name())] {
						continue
					}
					seenOneof[string(o.Name())] = true
				}
				if populateField(sub, f, depth-1) && wrapper {
					break // a J5 oneof wrapper holds exactly one value
				}
			}
		}
		return v, true
	}
	return protoreflect.Value{}, false
}

var dateJSONCache []byte

// dateJSON: the codec's own rendering of a j5 Date message (the payload of a populated j5 Any).
func dateJSON() []byte {
	if dateJSONCache == nil {
		b, err := j5codec.NewCodec().ProtoToJSON((&date_j5t.Date{Year: 2021, Month: 3, Day: 4}).ProtoReflect())
		if err != nil {
			b = []byte(`{}`)
		}
		dateJSONCache = b
	}
	return dateJSONCache
}

var _ = dynamicpb.NewMessage
