//go:build verif

package main

// Canonical dumps used on the line protocol (see /verif/harness/PROTOCOL-schema.md).
//
//   str   := "-" | hex(bytes)
//   pay   := "~" (nil) | "-" (present, empty) | hex(deterministic wire bytes)
//   bool  := "0" | "1"
//   lists := "[" item* "]", records := "(" tag item* ")"
//
// Schema side ("S": the j5schema Go structs) and descriptor side ("D": schema_j5pb messages) have
// separate grammars; both are reproduced by the Lean printers in J5V/Schema/Wire.lean.

import (
	"sort"
	"strconv"
	"strings"

	"github.com/pentops/j5/gen/j5/schema/v1/schema_j5pb"
	"github.com/pentops/j5/gen/j5/source/v1/source_j5pb"
	"github.com/pentops/j5/internal/verifh/vh"
	"github.com/pentops/j5/lib/j5schema"
	"google.golang.org/protobuf/proto"
	"google.golang.org/protobuf/reflect/protoreflect"
)

type dumper struct{ b strings.Builder }

func (d *dumper) tok(s string) {
	if d.b.Len() > 0 {
		d.b.WriteByte(' ')
	}
	d.b.WriteString(s)
}
func (d *dumper) str(s string) { d.tok(vh.Hex([]byte(s))) }
func (d *dumper) boolean(b bool) {
	if b {
		d.tok("1")
	} else {
		d.tok("0")
	}
}
func (d *dumper) int(i int64) { d.tok(strconv.FormatInt(i, 10)) }
func (d *dumper) strs(xs []string) {
	d.tok("[")
	for _, x := range xs {
		d.str(x)
	}
	d.tok("]")
}

// pay dumps an optional sub-message opaquely. A typed nil pointer is nil.
func (d *dumper) pay(m proto.Message) {
	if m == nil || !m.ProtoReflect().IsValid() {
		d.tok("~")
		return
	}
	b, err := proto.MarshalOptions{Deterministic: true}.Marshal(m)
	if err != nil {
		d.tok("!marshal")
		return
	}
	d.tok(vh.Hex(b))
}

// ---------------------------------------------------------------- S side

// scalarTag names the oneof arm of a scalar schema_j5pb.Field; "other" for anything that is not a
// scalar arm (never produced by the reader or the importer).
func scalarTag(f *schema_j5pb.Field) (string, int32) {
	if f == nil {
		return "nil", 0
	}
	switch t := f.Type.(type) {
	case *schema_j5pb.Field_String_:
		return "string", 0
	case *schema_j5pb.Field_Integer:
		return "integer", int32(t.Integer.GetFormat())
	case *schema_j5pb.Field_Float:
		return "float", int32(t.Float.GetFormat())
	case *schema_j5pb.Field_Bool:
		return "bool", 0
	case *schema_j5pb.Field_Bytes:
		return "bytes", 0
	case *schema_j5pb.Field_Decimal:
		return "decimal", 0
	case *schema_j5pb.Field_Date:
		return "date", 0
	case *schema_j5pb.Field_Timestamp:
		return "timestamp", 0
	case *schema_j5pb.Field_Key:
		return "key", 0
	case nil:
		return "unset", 0
	}
	return "other", 0
}

func (d *dumper) sRef(ss schemaIndex, r *j5schema.RefSchema) {
	if r == nil {
		d.tok("noref")
		return
	}
	d.tok("(")
	pkg := ""
	if r.Package != nil {
		pkg = r.Package.Name
	}
	d.str(pkg)
	d.str(r.Schema)
	// registered: the pointer is the entry of the set under (package, schema) — shared, linkable
	d.boolean(ss.registered(r))
	d.tok(")")
}

func (d *dumper) sField(ss schemaIndex, f j5schema.FieldSchema) {
	switch t := f.(type) {
	case nil:
		d.tok("nil")
	case *j5schema.ScalarSchema:
		tag, fm := scalarTag(t.Proto)
		d.tok("(")
		d.tok("scalar")
		d.tok(tag)
		d.int(int64(fm))
		d.int(int64(t.Kind))
		d.str(string(t.WellKnownTypeName))
		d.pay(t.Proto)
		d.tok(")")
	case *j5schema.AnyField:
		d.tok("(")
		d.tok("any")
		d.boolean(t.OnlyDefined)
		xs := make([]string, len(t.Types))
		for i, x := range t.Types {
			xs[i] = string(x)
		}
		d.strs(xs)
		d.pay(t.ListRules)
		d.tok(")")
	case *j5schema.EnumField:
		d.tok("(")
		d.tok("enum")
		d.sRef(ss, t.Ref)
		d.pay(t.Rules)
		d.pay(t.ListRules)
		d.pay(t.Ext)
		d.tok(")")
	case *j5schema.ObjectField:
		d.tok("(")
		d.tok("object")
		d.sRef(ss, t.Ref)
		d.boolean(t.Flatten)
		d.pay(t.Rules)
		d.pay(t.Ext)
		d.tok(")")
	case *j5schema.OneofField:
		d.tok("(")
		d.tok("oneof")
		d.sRef(ss, t.Ref)
		d.pay(t.Rules)
		d.pay(t.ListRules)
		d.pay(t.Ext)
		d.tok(")")
	case *j5schema.MapField:
		d.tok("(")
		d.tok("map")
		d.sField(ss, t.Schema)
		d.pay(t.Rules)
		d.pay(t.Ext)
		d.tok(")")
	case *j5schema.ArrayField:
		d.tok("(")
		d.tok("array")
		d.sField(ss, t.Schema)
		d.pay(t.Rules)
		d.pay(t.Ext)
		d.tok(")")
	default:
		d.tok("!field")
	}
}

func (d *dumper) sProps(ss schemaIndex, ps []*j5schema.ObjectProperty) {
	d.tok("[")
	for _, p := range ps {
		if p == nil {
			d.tok("nilprop")
			continue
		}
		d.tok("(")
		d.str(p.JSONName)
		d.boolean(p.Required)
		d.boolean(p.ExplicitlyOptional)
		d.boolean(p.ReadOnly)
		d.boolean(p.WriteOnly)
		d.str(p.Description)
		d.tok("[")
		for _, n := range p.ProtoField {
			d.int(int64(n))
		}
		d.tok("]")
		d.sField(ss, p.Schema)
		d.tok(")")
	}
	d.tok("]")
}

func (d *dumper) sRoot(ss schemaIndex, r j5schema.RootSchema) {
	switch t := r.(type) {
	case *j5schema.ObjectSchema:
		if t == nil {
			d.tok("nil")
			return
		}
		d.tok("(")
		d.tok("obj")
		d.str(t.PackageName())
		d.str(t.Name())
		d.str(t.Description())
		d.pay(t.Entity)
		d.strs(t.AnyMember)
		d.sProps(ss, t.Properties)
		d.tok(")")
	case *j5schema.OneofSchema:
		if t == nil {
			d.tok("nil")
			return
		}
		d.tok("(")
		d.tok("oneof")
		d.str(t.PackageName())
		d.str(t.Name())
		d.str(t.Description())
		d.sProps(ss, t.Properties)
		d.tok(")")
	case *j5schema.EnumSchema:
		if t == nil {
			d.tok("nil")
			return
		}
		d.tok("(")
		d.tok("enum")
		d.str(t.PackageName())
		d.str(t.Name())
		d.str(t.Description())
		d.str(t.NamePrefix)
		d.tok("[")
		for _, o := range t.Options {
			d.tok("(")
			d.str(o.Name())
			d.int(int64(o.Number()))
			d.str(o.Description())
			d.kv(o.Info)
			d.tok(")")
		}
		d.tok("]")
		d.tok("[")
		for _, f := range t.InfoFields {
			d.tok("(")
			d.str(f.GetName())
			d.str(f.GetLabel())
			d.str(f.GetDescription())
			d.tok(")")
		}
		d.tok("]")
		d.tok(")")
	case nil:
		d.tok("nil")
	default:
		d.tok("!root")
	}
}

func (d *dumper) kv(m map[string]string) {
	ks := make([]string, 0, len(m))
	for k := range m {
		ks = append(ks, k)
	}
	sort.Strings(ks)
	d.tok("[")
	for _, k := range ks {
		d.str(k)
		d.str(m[k])
	}
	d.tok("]")
}

// schemaIndex answers "is this *RefSchema the registered entry of the set".
type schemaIndex map[*j5schema.RefSchema]bool

func (s schemaIndex) registered(r *j5schema.RefSchema) bool { return s[r] }

func indexSet(ss *j5schema.SchemaSet) schemaIndex {
	idx := schemaIndex{}
	for _, p := range ss.Packages {
		for _, r := range p.Schemas {
			idx[r] = true
		}
	}
	return idx
}

// dumpSet: the whole schema set, packages and entries sorted by name.
func dumpSet(ss *j5schema.SchemaSet) string {
	d := &dumper{}
	idx := indexSet(ss)
	pn := make([]string, 0, len(ss.Packages))
	for n := range ss.Packages {
		pn = append(pn, n)
	}
	sort.Strings(pn)
	d.tok("[")
	for _, n := range pn {
		p := ss.Packages[n]
		if len(p.Schemas) == 0 {
			continue // a package without schemas carries nothing
		}
		d.tok("(")
		d.str(p.Name)
		sn := make([]string, 0, len(p.Schemas))
		for k := range p.Schemas {
			sn = append(sn, k)
		}
		sort.Strings(sn)
		d.tok("[")
		for _, k := range sn {
			r := p.Schemas[k]
			d.tok("(")
			d.str(k)
			if r == nil || r.To == nil {
				d.tok("nil")
			} else {
				d.sRoot(idx, r.To)
			}
			d.tok(")")
		}
		d.tok("]")
		d.tok(")")
	}
	d.tok("]")
	return d.b.String()
}

// ---------------------------------------------------------------- D side

func (d *dumper) dRef(r *schema_j5pb.Ref) {
	if r == nil {
		d.tok("noref")
		return
	}
	d.tok("(")
	d.str(r.Package)
	d.str(r.Schema)
	d.tok(")")
}

func (d *dumper) dField(f *schema_j5pb.Field) {
	if f == nil {
		d.tok("nil")
		return
	}
	switch t := f.Type.(type) {
	case nil:
		d.tok("unset")
	case *schema_j5pb.Field_Any:
		d.tok("(")
		d.tok("any")
		d.boolean(t.Any.GetOnlyDefined())
		d.strs(t.Any.GetTypes())
		d.pay(t.Any.GetListRules())
		d.tok(")")
	case *schema_j5pb.Field_Oneof:
		d.tok("(")
		d.tok("oneof")
		switch s := t.Oneof.GetSchema().(type) {
		case *schema_j5pb.OneofField_Ref:
			d.tok("ref")
			d.dRef(s.Ref)
		case *schema_j5pb.OneofField_Oneof:
			d.tok("inline")
			d.dOneof(s.Oneof)
		default:
			d.tok("noschema")
		}
		d.pay(t.Oneof.GetRules())
		d.pay(t.Oneof.GetListRules())
		d.pay(t.Oneof.GetExt())
		d.tok(")")
	case *schema_j5pb.Field_Object:
		d.tok("(")
		d.tok("object")
		switch s := t.Object.GetSchema().(type) {
		case *schema_j5pb.ObjectField_Ref:
			d.tok("ref")
			d.dRef(s.Ref)
		case *schema_j5pb.ObjectField_Object:
			d.tok("inline")
			d.dObject(s.Object)
		default:
			d.tok("noschema")
		}
		d.boolean(t.Object.GetFlatten())
		d.pay(t.Object.GetRules())
		d.pay(t.Object.GetExt())
		d.pay(t.Object.GetEntity())
		d.tok(")")
	case *schema_j5pb.Field_Enum:
		d.tok("(")
		d.tok("enum")
		switch s := t.Enum.GetSchema().(type) {
		case *schema_j5pb.EnumField_Ref:
			d.tok("ref")
			d.dRef(s.Ref)
		case *schema_j5pb.EnumField_Enum:
			d.tok("inline")
			d.dEnum(s.Enum)
		default:
			d.tok("noschema")
		}
		d.pay(t.Enum.GetRules())
		d.pay(t.Enum.GetListRules())
		d.pay(t.Enum.GetExt())
		d.tok(")")
	case *schema_j5pb.Field_Array:
		d.tok("(")
		d.tok("array")
		d.dField(t.Array.GetItems())
		d.pay(t.Array.GetRules())
		d.pay(t.Array.GetExt())
		d.tok(")")
	case *schema_j5pb.Field_Map:
		d.tok("(")
		d.tok("map")
		d.dField(t.Map.GetItemSchema())
		d.dField(t.Map.GetKeySchema())
		d.pay(t.Map.GetRules())
		d.pay(t.Map.GetExt())
		d.tok(")")
	default:
		tag, fm := scalarTag(f)
		d.tok("(")
		d.tok("scalar")
		d.tok(tag)
		d.int(int64(fm))
		d.pay(f)
		d.tok(")")
	}
}

func (d *dumper) dProps(ps []*schema_j5pb.ObjectProperty) {
	d.tok("[")
	for _, p := range ps {
		d.tok("(")
		d.str(p.GetName())
		d.boolean(p.GetRequired())
		d.boolean(p.GetExplicitlyOptional())
		d.str(p.GetDescription())
		d.tok("[")
		for _, n := range p.GetProtoField() {
			d.int(int64(n))
		}
		d.tok("]")
		d.dField(p.GetSchema())
		d.tok(")")
	}
	d.tok("]")
}

func (d *dumper) dObject(o *schema_j5pb.Object) {
	d.tok("(")
	d.tok("obj")
	d.str(o.GetName())
	d.str(o.GetDescription())
	d.pay(o.GetEntity())
	d.strs(o.GetAnyMember())
	d.dProps(o.GetProperties())
	d.tok(")")
}

func (d *dumper) dOneof(o *schema_j5pb.Oneof) {
	d.tok("(")
	d.tok("oneof")
	d.str(o.GetName())
	d.str(o.GetDescription())
	d.dProps(o.GetProperties())
	d.tok(")")
}

func (d *dumper) dEnum(e *schema_j5pb.Enum) {
	d.tok("(")
	d.tok("enum")
	d.str(e.GetName())
	d.str(e.GetDescription())
	d.str(e.GetPrefix())
	d.tok("[")
	for _, o := range e.GetOptions() {
		d.tok("(")
		d.str(o.GetName())
		d.int(int64(o.GetNumber()))
		d.str(o.GetDescription())
		d.kv(o.GetInfo())
		d.tok(")")
	}
	d.tok("]")
	d.tok("[")
	for _, f := range e.GetInfo() {
		d.tok("(")
		d.str(f.GetName())
		d.str(f.GetLabel())
		d.str(f.GetDescription())
		d.tok(")")
	}
	d.tok("]")
	d.tok(")")
}

func (d *dumper) dRoot(r *schema_j5pb.RootSchema) {
	switch t := r.GetType().(type) {
	case *schema_j5pb.RootSchema_Object:
		d.dObject(t.Object)
	case *schema_j5pb.RootSchema_Oneof:
		d.dOneof(t.Oneof)
	case *schema_j5pb.RootSchema_Enum:
		d.dEnum(t.Enum)
	default:
		d.tok("unset")
	}
}

// flatPackages: full package name (sub-packages as "<pkg>.<sub>") -> schema name -> root, in the
// order PackageSetFromSourceAPI visits them is irrelevant for the result, so sort.
func flatPackages(pkgs []*source_j5pb.Package) map[string]map[string]*schema_j5pb.RootSchema {
	out := map[string]map[string]*schema_j5pb.RootSchema{}
	for _, p := range pkgs {
		if len(p.Schemas) > 0 || out[p.Name] == nil {
			if out[p.Name] == nil {
				out[p.Name] = map[string]*schema_j5pb.RootSchema{}
			}
			for k, v := range p.Schemas {
				out[p.Name][k] = v
			}
		}
		for _, s := range p.SubPackages {
			n := p.Name + "." + s.Name
			if out[n] == nil {
				out[n] = map[string]*schema_j5pb.RootSchema{}
			}
			for k, v := range s.Schemas {
				out[n][k] = v
			}
		}
	}
	return out
}

func dumpAPI(pkgs map[string]map[string]*schema_j5pb.RootSchema) string {
	d := &dumper{}
	pn := make([]string, 0, len(pkgs))
	for n := range pkgs {
		pn = append(pn, n)
	}
	sort.Strings(pn)
	d.tok("[")
	for _, n := range pn {
		d.tok("(")
		d.str(n)
		sn := make([]string, 0, len(pkgs[n]))
		for k := range pkgs[n] {
			sn = append(sn, k)
		}
		sort.Strings(sn)
		d.tok("[")
		for _, k := range sn {
			d.tok("(")
			d.str(k)
			d.dRoot(pkgs[n][k])
			d.tok(")")
		}
		d.tok("]")
		d.tok(")")
	}
	d.tok("]")
	return d.b.String()
}

// exportSet: ToJ5Root of every linked entry of a schema set, as flat packages.
func exportSet(ss *j5schema.SchemaSet) map[string]map[string]*schema_j5pb.RootSchema {
	out := map[string]map[string]*schema_j5pb.RootSchema{}
	for n, p := range ss.Packages {
		out[n] = map[string]*schema_j5pb.RootSchema{}
		for k, r := range p.Schemas {
			if r != nil && r.To != nil {
				out[n][k] = r.To.ToJ5Root()
			}
		}
	}
	return out
}

// firstDiff returns a narrow description of the first difference between two messages of the same
// type: "<MessageName>.<field>" of the innermost differing field ("" when equal).
func firstDiff(a, b protoreflect.Message) string {
	if !a.IsValid() || !b.IsValid() {
		if a.IsValid() != b.IsValid() {
			return string(a.Descriptor().Name()) + ".<presence>"
		}
		return ""
	}
	fds := a.Descriptor().Fields()
	for i := 0; i < fds.Len(); i++ {
		fd := fds.Get(i)
		ha, hb := a.Has(fd), b.Has(fd)
		here := string(a.Descriptor().Name()) + "." + string(fd.Name())
		if par, ok := a.Descriptor().Parent().(protoreflect.MessageDescriptor); ok {
			here = string(par.Name()) + "." + here
		}
		if ha != hb {
			return here
		}
		if !ha {
			continue
		}
		va, vb := a.Get(fd), b.Get(fd)
		switch {
		case fd.IsList():
			la, lb := va.List(), vb.List()
			if la.Len() != lb.Len() {
				return here
			}
			for k := 0; k < la.Len(); k++ {
				if fd.Message() != nil {
					if d := firstDiff(la.Get(k).Message(), lb.Get(k).Message()); d != "" {
						return d
					}
				} else if !la.Get(k).Equal(lb.Get(k)) {
					return here
				}
			}
		case fd.IsMap():
			if !va.Equal(vb) {
				return here
			}
		case fd.Message() != nil:
			if d := firstDiff(va.Message(), vb.Message()); d != "" {
				return d
			}
		default:
			if !va.Equal(vb) {
				return here
			}
		}
	}
	return ""
}
