//go:build verif

// schemah: correspondence + property oracles for the schema cluster.
//
//	stream schema.loop    (C15)  SCHEMAH_STREAM=loop     ops "loop …"
//	stream schema.reflect (C18)  SCHEMAH_STREAM=reflect  ops "reflect …"
//
// The line protocol is documented in /verif/harness/PROTOCOL-schema.md.
package main

import (
	"fmt"
	"os"
	"runtime"
	"strings"

	"github.com/pentops/j5/internal/verifh/vh"
	"google.golang.org/protobuf/proto"
	"google.golang.org/protobuf/reflect/protodesc"
	"google.golang.org/protobuf/reflect/protoreflect"
	"google.golang.org/protobuf/reflect/protoregistry"
	"google.golang.org/protobuf/types/descriptorpb"

	// the repository's own compiled protos (registered in protoregistry.GlobalFiles)
	_ "buf.build/gen/go/bufbuild/protovalidate/protocolbuffers/go/buf/validate"
	_ "github.com/pentops/j5/gen/j5/auth/v1/auth_j5pb"
	_ "github.com/pentops/j5/gen/j5/client/v1/client_j5pb"
	_ "github.com/pentops/j5/gen/j5/ext/v1/ext_j5pb"
	_ "github.com/pentops/j5/gen/j5/list/v1/list_j5pb"
	_ "github.com/pentops/j5/gen/j5/messaging/v1/messaging_j5pb"
	_ "github.com/pentops/j5/gen/j5/schema/v1/schema_j5pb"
	_ "github.com/pentops/j5/gen/j5/source/v1/source_j5pb"
	_ "github.com/pentops/j5/gen/j5/state/v1/psm_j5pb"
	_ "github.com/pentops/j5/gen/test/foo/v1/foo_testpb"
	_ "github.com/pentops/j5/gen/test/foo/v1/foo_testspb"
	_ "github.com/pentops/j5/gen/test/schema/v1/schema_testpb"
	_ "github.com/pentops/j5/j5types/any_j5t"
	_ "github.com/pentops/j5/j5types/date_j5t"
	_ "github.com/pentops/j5/j5types/decimal_j5t"
	_ "google.golang.org/protobuf/types/known/anypb"
	_ "google.golang.org/protobuf/types/known/durationpb"
	_ "google.golang.org/protobuf/types/known/emptypb"
	_ "google.golang.org/protobuf/types/known/fieldmaskpb"
	_ "google.golang.org/protobuf/types/known/structpb"
	_ "google.golang.org/protobuf/types/known/timestamppb"
	_ "google.golang.org/protobuf/types/known/wrapperspb"
)

type impl struct{ stream string }

func main() {
	s := os.Getenv("SCHEMAH_STREAM")
	if s == "" {
		s = "loop"
	}
	vh.Main("schema."+s, impl{stream: s})
}

func (im impl) Gen(h *vh.H, i int) string {
	switch im.stream {
	case "reflect":
		return genReflectOp(h, i)
	default:
		return genLoopOp(h, i)
	}
}

func (impl) Exec(h *vh.H, op string) string {
	f := strings.SplitN(op, " ", 2)
	switch f[0] {
	case "loop":
		return execLoop(h, op)
	case "reflect":
		return execReflect(h, op)
	case "import":
		return execImport(h, op)
	}
	return "bad-op"
}

// ---------------------------------------------------------------- shared helpers

func debugf(format string, args ...any) {
	if os.Getenv("SCHEMAH_DEBUG") != "" {
		fmt.Fprintf(os.Stderr, format+"\n", args...)
	}
}

// guard runs f and converts a panic into (site, true): site is the innermost frame of /repo's own
// code (function name, no line number — line numbers are too fragile for a signature).
func guard(f func()) (site string, panicked bool, msg string) {
	defer func() {
		if r := recover(); r != nil {
			panicked = true
			msg = fmt.Sprint(r)
			site = panicSite()
		}
	}()
	f()
	return
}

func panicSite() string {
	pcs := make([]uintptr, 64)
	n := runtime.Callers(3, pcs)
	frames := runtime.CallersFrames(pcs[:n])
	for {
		fr, more := frames.Next()
		fn := fr.Function
		if strings.HasPrefix(fn, "github.com/pentops/j5/") && !strings.Contains(fn, "/internal/verifh/") {
			fn = strings.TrimPrefix(fn, "github.com/pentops/j5/")
			// strip closure suffixes
			if k := strings.Index(fn, ".func"); k > 0 {
				fn = fn[:k]
			}
			return fn
		}
		if !more {
			break
		}
	}
	return "outside-repo"
}

// linkFiles links the generated files against the compiled-in dependencies (trusted: protodesc).
// Returns the registry of all files and the generated file descriptors in order.
func linkFiles(fds *descriptorpb.FileDescriptorSet) (*protoregistry.Files, []protoreflect.FileDescriptor, *descriptorpb.FileDescriptorSet, error) {
	all := &descriptorpb.FileDescriptorSet{}
	seen := map[string]bool{}
	own := map[string]bool{}
	for _, f := range fds.File {
		own[f.GetName()] = true
	}
	var addDep func(path string) error
	addDep = func(path string) error {
		if seen[path] || own[path] {
			return nil
		}
		seen[path] = true
		fd, err := protoregistry.GlobalFiles.FindFileByPath(path)
		if err != nil {
			return fmt.Errorf("dependency %s: %w", path, err)
		}
		imps := fd.Imports()
		for i := 0; i < imps.Len(); i++ {
			if err := addDep(imps.Get(i).Path()); err != nil {
				return err
			}
		}
		all.File = append(all.File, protodesc.ToFileDescriptorProto(fd))
		return nil
	}
	for _, f := range fds.File {
		for _, d := range f.Dependency {
			if err := addDep(d); err != nil {
				return nil, nil, nil, err
			}
		}
	}
	all.File = append(all.File, fds.File...)
	files, err := protodesc.NewFiles(all)
	if err != nil {
		return nil, nil, nil, err
	}
	var gen []protoreflect.FileDescriptor
	for _, f := range fds.File {
		fd, err := files.FindFileByPath(f.GetName())
		if err != nil {
			return nil, nil, nil, err
		}
		gen = append(gen, fd)
	}
	return files, gen, all, nil
}

// wireRoundTrip re-reads the descriptor set from its wire form, so that option messages are what a
// parser would produce (never typed-nil oneof members or Go-only states).
func wireRoundTrip(fds *descriptorpb.FileDescriptorSet) (*descriptorpb.FileDescriptorSet, []byte, error) {
	b, err := proto.MarshalOptions{Deterministic: true}.Marshal(fds)
	if err != nil {
		return nil, nil, err
	}
	out := &descriptorpb.FileDescriptorSet{}
	if err := proto.Unmarshal(b, out); err != nil {
		return nil, nil, err
	}
	return out, b, nil
}

func decodeFDS(hexs string) (*descriptorpb.FileDescriptorSet, bool) {
	b, ok := vh.UnHex(hexs)
	if !ok {
		return nil, false
	}
	out := &descriptorpb.FileDescriptorSet{}
	if err := proto.Unmarshal(b, out); err != nil {
		return nil, false
	}
	return out, true
}
