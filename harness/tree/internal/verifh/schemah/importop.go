//go:build verif

package main

// Op family `import` (stream schema.loop): PackageSetFromSourceAPI on source APIs that are NOT
// export images — one mutation of an exported API (inline schemas, unset types, absent items,
// unknown formats, dangling references, deleted schemas). Property C15 quantifies over export
// images only, so there is no oracle here: the op validates the arms of the import model that the
// `loop` op never reaches (correspondence only, including the `.panic` arms).
//
//	op:     import <HEX of source_j5pb.API> <API dump>
//	result: stale-op | panic | err | ok <SSET> | <API>

import (
	"sort"
	"strings"

	"github.com/pentops/j5/gen/j5/schema/v1/schema_j5pb"
	"github.com/pentops/j5/gen/j5/source/v1/source_j5pb"
	"github.com/pentops/j5/internal/verifh/vh"
	"github.com/pentops/j5/lib/j5schema"
	"google.golang.org/protobuf/proto"
)

type apiSites struct {
	fields []*schema_j5pb.Field
	props  []*schema_j5pb.ObjectProperty
	roots  []*schema_j5pb.RootSchema
}

func collectSites(pkgs []*source_j5pb.Package) *apiSites {
	s := &apiSites{}
	var walkField func(f *schema_j5pb.Field)
	var walkProps func(ps []*schema_j5pb.ObjectProperty)
	walkField = func(f *schema_j5pb.Field) {
		if f == nil {
			return
		}
		s.fields = append(s.fields, f)
		switch t := f.Type.(type) {
		case *schema_j5pb.Field_Array:
			walkField(t.Array.GetItems())
		case *schema_j5pb.Field_Map:
			walkField(t.Map.GetItemSchema())
		}
	}
	walkProps = func(ps []*schema_j5pb.ObjectProperty) {
		for _, p := range ps {
			s.props = append(s.props, p)
			walkField(p.Schema)
		}
	}
	for _, p := range pkgs {
		keys := make([]string, 0, len(p.Schemas))
		for k := range p.Schemas {
			keys = append(keys, k)
		}
		sort.Strings(keys)
		for _, k := range keys {
			r := p.Schemas[k]
			s.roots = append(s.roots, r)
			switch t := r.Type.(type) {
			case *schema_j5pb.RootSchema_Object:
				walkProps(t.Object.Properties)
			case *schema_j5pb.RootSchema_Oneof:
				walkProps(t.Oneof.Properties)
			}
		}
	}
	return s
}

func findRoot(pkgs []*source_j5pb.Package, ref *schema_j5pb.Ref) *schema_j5pb.RootSchema {
	for _, p := range pkgs {
		if p.Name == ref.GetPackage() {
			return p.Schemas[ref.GetSchema()]
		}
	}
	return nil
}

// mutateAPI applies one mutation; returns its name ("none" when no site applies).
func mutateAPI(h *vh.H, pkgs []*source_j5pb.Package) string {
	s := collectSites(pkgs)
	pickField := func(pred func(*schema_j5pb.Field) bool) *schema_j5pb.Field {
		var c []*schema_j5pb.Field
		for _, f := range s.fields {
			if pred(f) {
				c = append(c, f)
			}
		}
		if len(c) == 0 {
			return nil
		}
		return c[h.Rng.IntN(len(c))]
	}
	switch h.Rng.IntN(14) {
	case 0: // inline object
		f := pickField(func(f *schema_j5pb.Field) bool { return f.GetObject().GetRef() != nil })
		if f == nil {
			return "none"
		}
		if r := findRoot(pkgs, f.GetObject().GetRef()); r.GetObject() != nil {
			f.GetObject().Schema = &schema_j5pb.ObjectField_Object{Object: proto.Clone(r.GetObject()).(*schema_j5pb.Object)}
			return "inline-object"
		}
	case 1: // inline oneof
		f := pickField(func(f *schema_j5pb.Field) bool { return f.GetOneof().GetRef() != nil })
		if f == nil {
			return "none"
		}
		if r := findRoot(pkgs, f.GetOneof().GetRef()); r.GetOneof() != nil {
			f.GetOneof().Schema = &schema_j5pb.OneofField_Oneof{Oneof: proto.Clone(r.GetOneof()).(*schema_j5pb.Oneof)}
			return "inline-oneof"
		}
	case 2: // inline enum
		f := pickField(func(f *schema_j5pb.Field) bool { return f.GetEnum().GetRef() != nil })
		if f == nil {
			return "none"
		}
		if r := findRoot(pkgs, f.GetEnum().GetRef()); r.GetEnum() != nil {
			f.GetEnum().Schema = &schema_j5pb.EnumField_Enum{Enum: proto.Clone(r.GetEnum()).(*schema_j5pb.Enum)}
			return "inline-enum"
		}
	case 3: // unset field type
		if f := pickField(func(*schema_j5pb.Field) bool { return true }); f != nil {
			f.Type = nil
			return "unset-field"
		}
	case 4: // unset root type
		if len(s.roots) > 0 {
			s.roots[h.Rng.IntN(len(s.roots))].Type = nil
			return "unset-root"
		}
	case 5: // absent array items / map item schema
		f := pickField(func(f *schema_j5pb.Field) bool { return f.GetArray() != nil || f.GetMap() != nil })
		if f != nil {
			if a := f.GetArray(); a != nil {
				a.Items = nil
			} else {
				f.GetMap().ItemSchema = nil
			}
			return "nil-items"
		}
	case 6: // absent property schema
		if len(s.props) > 0 {
			s.props[h.Rng.IntN(len(s.props))].Schema = nil
			return "nil-prop-schema"
		}
	case 7: // unknown integer / float format
		f := pickField(func(f *schema_j5pb.Field) bool { return f.GetInteger() != nil || f.GetFloat() != nil })
		if f != nil {
			if i := f.GetInteger(); i != nil {
				i.Format = schema_j5pb.IntegerField_Format([]int32{0, 7}[h.Rng.IntN(2)])
			} else {
				f.GetFloat().Format = schema_j5pb.FloatField_Format([]int32{0, 5}[h.Rng.IntN(2)])
			}
			return "bad-format"
		}
	case 8: // dangling reference
		f := pickField(func(f *schema_j5pb.Field) bool {
			return f.GetObject().GetRef() != nil || f.GetOneof().GetRef() != nil || f.GetEnum().GetRef() != nil
		})
		if f != nil {
			var r *schema_j5pb.Ref
			switch {
			case f.GetObject().GetRef() != nil:
				r = f.GetObject().GetRef()
			case f.GetOneof().GetRef() != nil:
				r = f.GetOneof().GetRef()
			default:
				r = f.GetEnum().GetRef()
			}
			if h.Chance(1, 2) {
				r.Schema += "X"
			} else {
				r.Package = "nowhere.v1"
			}
			return "dangling-ref"
		}
	case 9: // delete a schema
		for _, p := range pkgs {
			for k := range sortedSchemas(p) {
				_ = k
			}
		}
		var all [][2]string
		for _, p := range pkgs {
			for _, k := range sortedSchemas(p) {
				all = append(all, [2]string{p.Name, k})
			}
		}
		if len(all) > 0 {
			x := all[h.Rng.IntN(len(all))]
			for _, p := range pkgs {
				if p.Name == x[0] {
					delete(p.Schemas, x[1])
				}
			}
			return "delete-schema"
		}
	case 10: // field schema oneof not set
		f := pickField(func(f *schema_j5pb.Field) bool {
			return f.GetObject() != nil || f.GetOneof() != nil || f.GetEnum() != nil
		})
		if f != nil {
			switch {
			case f.GetObject() != nil:
				f.GetObject().Schema = nil
			case f.GetOneof() != nil:
				f.GetOneof().Schema = nil
			default:
				f.GetEnum().Schema = nil
			}
			return "noschema"
		}
	case 11: // key differs from the schema's own name
		for _, r := range s.roots {
			if o := r.GetObject(); o != nil && h.Chance(1, 2) {
				o.Name += "Renamed"
				return "rename"
			}
		}
	case 12: // entity join on an object field (read by nobody)
		f := pickField(func(f *schema_j5pb.Field) bool { return f.GetObject() != nil })
		if f != nil {
			f.GetObject().Entity = &schema_j5pb.ObjectField_EntityJoin{Entity: &schema_j5pb.EntityRef{Package: "p", Entity: "e"}}
			return "entity-join"
		}
	}
	return "none"
}

func sortedSchemas(p *source_j5pb.Package) []string {
	ks := make([]string, 0, len(p.Schemas))
	for k := range p.Schemas {
		ks = append(ks, k)
	}
	sort.Strings(ks)
	return ks
}

func genImportOp(h *vh.H) string {
	fds := genFileSet(h, false)
	_, b, err := wireRoundTrip(fds)
	if err != nil {
		return ""
	}
	ls, err := loadSrc("fds:" + vh.Hex(b))
	if err != nil {
		return ""
	}
	ss, err, _, panicked := reflectSet(ls)
	if err != nil || panicked || ss == nil {
		return ""
	}
	var pkgs []*source_j5pb.Package
	for n, m := range exportSet(ss) {
		if len(m) > 0 {
			pkgs = append(pkgs, &source_j5pb.Package{Name: n, Schemas: m})
		}
	}
	sort.Slice(pkgs, func(i, j int) bool { return pkgs[i].Name < pkgs[j].Name })
	// through the wire first: the mutation then works on plain messages
	raw, err := proto.MarshalOptions{Deterministic: true}.Marshal(&source_j5pb.API{Packages: pkgs})
	if err != nil {
		return ""
	}
	api := &source_j5pb.API{}
	if err := proto.Unmarshal(raw, api); err != nil {
		return ""
	}
	h.Count("import.mut." + mutateAPI(h, api.Packages))
	raw, err = proto.MarshalOptions{Deterministic: true}.Marshal(api)
	if err != nil {
		return ""
	}
	return "import " + vh.Hex(raw) + " " + dumpAPI(dropEmpty(flatPackages(api.Packages)))
}

func execImport(h *vh.H, op string) string {
	f := strings.SplitN(op, " ", 3)
	if len(f) < 3 {
		return "bad-op"
	}
	raw, ok := vh.UnHex(f[1])
	if !ok {
		return "bad-op"
	}
	api := &source_j5pb.API{}
	if err := proto.Unmarshal(raw, api); err != nil {
		return "bad-op"
	}
	if dumpAPI(dropEmpty(flatPackages(api.Packages))) != f[2] {
		return "stale-op"
	}
	var ss *j5schema.SchemaSet
	var err error
	_, panicked, _ := guard(func() { ss, err = j5schema.PackageSetFromSourceAPI(api.Packages) })
	switch {
	case panicked:
		h.Count("import.panic")
		return "panic"
	case err != nil:
		h.Count("import.err")
		return "err"
	}
	h.Count("import.ok")
	return "ok " + dumpSet(ss) + " | " + dumpAPI(dropEmpty(exportSet(ss)))
}
