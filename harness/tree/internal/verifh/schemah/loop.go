//go:build verif

package main

// Stream schema.loop (property C15).
//
//	op:     loop <mem|wire> <fds:HEX | repo:pkg[,pkg…]> <S1 dump tokens…>
//	result: nolink | reflect-err | stale-op
//	        | ok <E1 dump> | import-err
//	        | ok <E1 dump> | <S2 dump> | <same | diff <E2 dump>>
//
// E1 = export of the schemas reflected from the descriptor set (through structure.APIFromImage),
// S2 = j5schema.PackageSetFromSourceAPI(E1), E2 = export of S2.
// ORACLE (the property as stated): the import succeeds, every reference of S2 is resolved (to a
// schema of the kind the field wants), and E2 equals E1 under proto.Equal; a difference is reported
// with the path of the first field that was dropped or changed, e.g. lost:Enum.Option.info.

import (
	"fmt"
	"sort"
	"strings"

	"github.com/pentops/j5/gen/j5/schema/v1/schema_j5pb"
	"github.com/pentops/j5/gen/j5/source/v1/source_j5pb"
	"github.com/pentops/j5/internal/structure"
	"github.com/pentops/j5/internal/verifh/vh"
	"github.com/pentops/j5/lib/j5schema"
	"google.golang.org/protobuf/proto"
	"google.golang.org/protobuf/reflect/protodesc"
	"google.golang.org/protobuf/reflect/protoreflect"
	"google.golang.org/protobuf/reflect/protoregistry"
	"google.golang.org/protobuf/types/descriptorpb"
)

var repoSources = []string{
	"test.foo.v1", "test.schema.v1", "test.foo.v1,test.schema.v1",
	"j5.schema.v1", "j5.client.v1", "j5.source.v1", "j5.list.v1", "j5.auth.v1",
	"j5.messaging.v1", "j5.state.v1", "j5.ext.v1", "j5.types.date.v1", "j5.types.any.v1",
	"j5.client.v1,j5.schema.v1,j5.auth.v1,j5.list.v1",
}

type loopSrc struct {
	files    *protoregistry.Files
	image    *source_j5pb.SourceImage
	prefixes []string
}

func (s *loopSrc) selector(f protoreflect.FileDescriptor) bool {
	name := string(f.Package())
	for _, p := range s.prefixes {
		if strings.HasPrefix(name, p) {
			return true
		}
	}
	return false
}

func loadSrc(src string) (*loopSrc, error) {
	switch {
	case strings.HasPrefix(src, "repo:"):
		pk := strings.Split(strings.TrimPrefix(src, "repo:"), ",")
		out := &loopSrc{prefixes: pk, image: &source_j5pb.SourceImage{}}
		seen := map[string]bool{}
		var add func(fd protoreflect.FileDescriptor)
		add = func(fd protoreflect.FileDescriptor) {
			if seen[fd.Path()] {
				return
			}
			seen[fd.Path()] = true
			imps := fd.Imports()
			for i := 0; i < imps.Len(); i++ {
				add(imps.Get(i).FileDescriptor)
			}
			out.image.File = append(out.image.File, protodesc.ToFileDescriptorProto(fd))
		}
		protoregistry.GlobalFiles.RangeFiles(func(fd protoreflect.FileDescriptor) bool {
			for _, p := range pk {
				if strings.HasPrefix(string(fd.Package()), p) {
					add(fd)
				}
			}
			return true
		})
		for _, p := range pk {
			out.image.Packages = append(out.image.Packages, &source_j5pb.PackageInfo{Name: p, Label: p})
		}
		files, err := protodesc.NewFiles(&descriptorpb.FileDescriptorSet{File: out.image.File})
		if err != nil {
			return nil, err
		}
		out.files = files
		return out, nil
	case strings.HasPrefix(src, "fds:"):
		// fds:HEX[@pkg,pkg…]: the optional list restricts the image's (direct) packages; the other
		// generated packages are reached through references only (APIFromImage marks them indirect)
		hexPart, directList, restricted := strings.Cut(strings.TrimPrefix(src, "fds:"), "@")
		direct := map[string]bool{}
		if restricted {
			for _, d := range strings.Split(directList, ",") {
				direct[d] = true
			}
		}
		fds, ok := decodeFDS(hexPart)
		if !ok {
			return nil, fmt.Errorf("bad fds")
		}
		files, gen, all, err := linkFiles(fds)
		if err != nil {
			return nil, err
		}
		out := &loopSrc{files: files, image: &source_j5pb.SourceImage{File: all.File}}
		seenP := map[string]bool{}
		for _, g := range gen {
			p := string(g.Package())
			if root, _, err := structure.SplitPackageParts(p); err == nil {
				p = root
			}
			if restricted && !direct[p] {
				continue
			}
			if !seenP[p] {
				seenP[p] = true
				out.prefixes = append(out.prefixes, p)
				out.image.Packages = append(out.image.Packages, &source_j5pb.PackageInfo{Name: p, Label: p})
			}
		}
		return out, nil
	}
	return nil, fmt.Errorf("bad source")
}

func reflectSet(s *loopSrc) (ss *j5schema.SchemaSet, err error, site string, panicked bool) {
	site, panicked, _ = guard(func() {
		ss, err = j5schema.SchemaSetFromFiles(s.files, s.selector)
	})
	return
}

func genLoopOp(h *vh.H, i int) string {
	if i%4 == 3 {
		// model validation outside the export image (no oracle): see importop.go
		if op := genImportOp(h); op != "" {
			return op
		}
	}
	mode := "mem"
	if h.Chance(1, 3) {
		mode = "wire"
	}
	var src string
	if w := loopWitnesses(); i < len(w) {
		_, b, err := wireRoundTrip(w[i].fds)
		if err != nil {
			return ""
		}
		src = "fds:" + vh.Hex(b)
		if w[i].direct != "" {
			src += "@" + w[i].direct
		}
	} else if i%12 == 0 {
		src = "repo:" + repoSources[(i/12)%len(repoSources)]
	} else if fds, pkgs, ok := compiledFor(h, i); ok {
		// source (c): a generated j5s bundle compiled by the real compiler
		_, b, err := wireRoundTrip(fds)
		if err != nil {
			return ""
		}
		src = "fds:" + vh.Hex(b)
		h.Count("loop.gen.compiled")
		if len(pkgs) > 1 && h.Chance(1, 3) {
			// only the last package is direct: the others (with their .service / .topic
			// sub-packages) are exported as indirect packages, as far as they are referenced
			src += "@" + pkgs[len(pkgs)-1]
			h.Count("loop.gen.indirect-packages")
		} else {
			src += "@" + strings.Join(pkgs, ",")
		}
	} else {
		fds := genFileSet(h, false)
		_, b, err := wireRoundTrip(fds)
		if err != nil {
			return ""
		}
		src = "fds:" + vh.Hex(b)
		// every third multi-package set: only the root package of the last file is a direct package
		// of the image (files refer to earlier files only), so everything else — sub-packages
		// included — is exported as part of an indirect package, as far as it is referenced
		roots := rootPackages(fds)
		if len(roots) > 1 && h.Chance(1, 3) {
			src += "@" + roots[len(roots)-1]
			h.Count("loop.gen.indirect-packages")
		}
	}
	s1 := "nolink"
	if ls, err := loadSrc(src); err == nil {
		ss, err, _, panicked := reflectSet(ls)
		if err != nil || panicked || ss == nil {
			s1 = "reflect-err"
		} else {
			s1 = dumpSet(ss)
		}
	}
	return "loop " + mode + " " + src + " " + s1
}

// compiledFor: every fifth op (i%5 == 1) takes its descriptor set from the real j5s compiler.
func compiledFor(h *vh.H, i int) (*descriptorpb.FileDescriptorSet, []string, bool) {
	if i%5 != 1 {
		return nil, nil, false
	}
	return genCompiledSet(h)
}

// rootPackages: the root packages (x.v1 of x.v1.sub) of the generated files, in file order.
func rootPackages(fds *descriptorpb.FileDescriptorSet) []string {
	var out []string
	seen := map[string]bool{}
	for _, f := range fds.File {
		p := f.GetPackage()
		if root, _, err := structure.SplitPackageParts(p); err == nil {
			p = root
		}
		if !seen[p] {
			seen[p] = true
			out = append(out, p)
		}
	}
	return out
}

type flatEntry struct {
	pkg, key string
	root     *schema_j5pb.RootSchema
}

func flatList(m map[string]map[string]*schema_j5pb.RootSchema) []flatEntry {
	var out []flatEntry
	for p, ss := range m {
		for k, r := range ss {
			out = append(out, flatEntry{p, k, r})
		}
	}
	sort.Slice(out, func(i, j int) bool {
		if out[i].pkg != out[j].pkg {
			return out[i].pkg < out[j].pkg
		}
		return out[i].key < out[j].key
	})
	return out
}

func execLoop(h *vh.H, op string) string {
	f := strings.SplitN(op, " ", 4)
	if len(f) < 4 {
		return "bad-op"
	}
	mode, src, s1op := f[1], f[2], f[3]
	ls, err := loadSrc(src)
	if err != nil {
		h.Count("loop.nolink")
		debugf("nolink: %v", err)
		return "nolink"
	}
	ss1, err, site, panicked := reflectSet(ls)
	if panicked {
		// a reflection panic is property C18's business; here the op simply has no schema set
		h.Count("loop.reflect-panic:" + site)
		return "reflect-err"
	}
	if err != nil {
		h.Count("loop.reflect-err")
		debugf("reflect-err: %v", err)
		return "reflect-err"
	}
	s1 := dumpSet(ss1)
	if s1 != s1op {
		h.Count("loop.stale-op")
		return "stale-op"
	}
	if strings.HasPrefix(src, "repo:") {
		h.Count("loop.src.repo")
	} else {
		h.Count("loop.src.generated")
	}
	countFeatures(h, ss1)

	// export: through APIFromImage where the package names allow it
	direct := exportSet(ss1)
	var pkgs []*source_j5pb.Package
	api, apiErr := structure.APIFromImage(ls.image)
	if apiErr == nil {
		h.Count("loop.export.APIFromImage")
		pkgs = api.Packages
		if a, b := dumpAPI(dropEmpty(flatPackages(pkgs))), dumpAPI(dropEmpty(direct)); a != b {
			h.Fail("apifromimage-differs", op, "APIFromImage schemas differ from ToJ5Root of SchemaSetFromFiles")
		}
	} else {
		h.Count("loop.export.direct")
		for n, ss := range direct {
			pkgs = append(pkgs, &source_j5pb.Package{Name: n, Schemas: ss})
		}
		sort.Slice(pkgs, func(i, j int) bool { return pkgs[i].Name < pkgs[j].Name })
	}
	if mode == "wire" {
		b, err := proto.MarshalOptions{Deterministic: true}.Marshal(&source_j5pb.API{Packages: pkgs})
		if err != nil {
			return "bad-op"
		}
		back := &source_j5pb.API{}
		if err := proto.Unmarshal(b, back); err != nil {
			return "bad-op"
		}
		pkgs = back.Packages
	}
	e1 := flatPackages(pkgs)
	e1dump := dumpAPI(dropEmpty(e1))
	h.Nontrivial(e1dump)

	// import
	var ss2 *j5schema.SchemaSet
	var impErr error
	site, panicked, msg := guard(func() { ss2, impErr = j5schema.PackageSetFromSourceAPI(pkgs) })
	if panicked {
		h.Fail("import-panic:"+site, op, msg)
		return "panic"
	}
	if impErr != nil {
		h.Fail("import-error", op, impErr.Error())
		return "ok " + e1dump + " | import-err"
	}
	// every reference resolved, and to the kind the field wants
	if bad := unlinked(ss2); bad != "" {
		h.Fail("unlinked-ref", op, bad)
	}
	s2dump := dumpSet(ss2)

	// export again and compare
	e2 := exportSet(ss2)
	l1, l2 := flatList(e1), flatList(e2)
	same := len(l1) == len(l2)
	i, j := 0, 0
	for i < len(l1) || j < len(l2) {
		switch {
		case j >= len(l2) || (i < len(l1) && (l1[i].pkg < l2[j].pkg || (l1[i].pkg == l2[j].pkg && l1[i].key < l2[j].key))):
			h.Fail("lost-schema", op, l1[i].pkg+"."+l1[i].key)
			same = false
			i++
		case i >= len(l1) || l2[j].pkg < l1[i].pkg || (l1[i].pkg == l2[j].pkg && l2[j].key < l1[i].key):
			h.Fail("extra-schema", op, l2[j].pkg+"."+l2[j].key)
			same = false
			j++
		default:
			// compare the serialisable form: both sides as a reader of the wire bytes sees them
			// (ToJ5Field builds `&Field_String_{}` with a nil inner message for map keys, which
			// proto.Equal distinguishes from the empty message it serialises to)
			r1, r2 := viaWire(l1[i].root), viaWire(l2[j].root)
			if !proto.Equal(r1, r2) {
				same = false
				d := firstDiff(r1.ProtoReflect(), r2.ProtoReflect())
				if d == "" {
					d = "?"
				}
				h.Fail("lost:"+d, op, fmt.Sprintf("%s.%s: first: %v second: %v", l1[i].pkg, l1[i].key, compact(l1[i].root), compact(l2[j].root)))
			}
			i++
			j++
		}
	}
	e2dump := dumpAPI(dropEmpty(e2))
	dumpSame := e2dump == dumpAPI(dropEmpty(e1))
	if dumpSame != same {
		h.Fail("dump-vs-protoequal", op, fmt.Sprintf("dump equality %v, proto.Equal %v", dumpSame, same))
	}
	if dumpSame {
		h.Count("loop.fixpoint")
		return "ok " + e1dump + " | " + s2dump + " | same"
	}
	h.Count("loop.not-fixpoint")
	return "ok " + e1dump + " | " + s2dump + " | diff " + e2dump
}

func viaWire(r *schema_j5pb.RootSchema) *schema_j5pb.RootSchema {
	b, err := proto.MarshalOptions{Deterministic: true}.Marshal(r)
	if err != nil {
		return r
	}
	out := &schema_j5pb.RootSchema{}
	if err := proto.Unmarshal(b, out); err != nil {
		return r
	}
	return out
}

func compact(m proto.Message) string {
	s := fmt.Sprint(m)
	if len(s) > 600 {
		s = s[:600] + "…"
	}
	return s
}

func dropEmpty(m map[string]map[string]*schema_j5pb.RootSchema) map[string]map[string]*schema_j5pb.RootSchema {
	out := map[string]map[string]*schema_j5pb.RootSchema{}
	for k, v := range m {
		if len(v) > 0 {
			out[k] = v
		}
	}
	return out
}

// unlinked walks every field of every schema of the set and reports the first reference without a
// target, or whose target is not of the kind the field needs.
func unlinked(ss *j5schema.SchemaSet) string {
	var walkField func(where string, f j5schema.FieldSchema) string
	walkField = func(where string, f j5schema.FieldSchema) string {
		switch t := f.(type) {
		case *j5schema.ObjectField:
			if t.Ref == nil || t.Ref.To == nil {
				return where + ": object ref unresolved"
			}
			if _, ok := t.Ref.To.(*j5schema.ObjectSchema); !ok {
				return where + fmt.Sprintf(": object ref resolves to %T", t.Ref.To)
			}
		case *j5schema.OneofField:
			if t.Ref == nil || t.Ref.To == nil {
				return where + ": oneof ref unresolved"
			}
			if _, ok := t.Ref.To.(*j5schema.OneofSchema); !ok {
				return where + fmt.Sprintf(": oneof ref resolves to %T", t.Ref.To)
			}
		case *j5schema.EnumField:
			if t.Ref == nil || t.Ref.To == nil {
				return where + ": enum ref unresolved"
			}
			if _, ok := t.Ref.To.(*j5schema.EnumSchema); !ok {
				return where + fmt.Sprintf(": enum ref resolves to %T", t.Ref.To)
			}
		case *j5schema.ArrayField:
			return walkField(where+"[]", t.Schema)
		case *j5schema.MapField:
			return walkField(where+"{}", t.Schema)
		}
		return ""
	}
	for pn, p := range ss.Packages {
		for k, r := range p.Schemas {
			if r.To == nil {
				return pn + "." + k + ": entry unresolved"
			}
			var props []*j5schema.ObjectProperty
			switch t := r.To.(type) {
			case *j5schema.ObjectSchema:
				props = t.Properties
			case *j5schema.OneofSchema:
				props = t.Properties
			}
			for _, prop := range props {
				if s := walkField(pn+"."+k+"."+prop.JSONName, prop.Schema); s != "" {
					return s
				}
			}
		}
	}
	return ""
}

// countFeatures records which schema features this set pushes through the loop.
func countFeatures(h *vh.H, ss *j5schema.SchemaSet) {
	if len(ss.Packages) > 1 {
		h.Count("loop.feat.multi-package")
	}
	var walkField func(owner string, f j5schema.FieldSchema)
	walkField = func(owner string, f j5schema.FieldSchema) {
		switch t := f.(type) {
		case *j5schema.ScalarSchema:
			tag, _ := scalarTag(t.Proto)
			h.Count("loop.feat.scalar." + tag)
		case *j5schema.AnyField:
			h.Count("loop.feat.any")
			if t.ListRules != nil {
				h.Count("loop.feat.any.list-rules")
			}
		case *j5schema.EnumField:
			h.Count("loop.feat.enum-field")
			if t.Rules != nil {
				h.Count("loop.feat.enum-field.rules")
			}
			if t.ListRules != nil {
				h.Count("loop.feat.enum-field.list-rules")
			}
		case *j5schema.ObjectField:
			h.Count("loop.feat.object-field")
			if t.Flatten {
				h.Count("loop.feat.object-field.flatten")
			}
			if t.Ref != nil && t.Ref.FullName() == owner {
				h.Count("loop.feat.self-recursion")
			}
			if t.Ref != nil && !strings.HasPrefix(owner, t.Ref.Package.Name+".") {
				h.Count("loop.feat.cross-package-ref")
			}
		case *j5schema.OneofField:
			h.Count("loop.feat.oneof-field")
		case *j5schema.ArrayField:
			h.Count("loop.feat.array")
			if t.Rules != nil {
				h.Count("loop.feat.array.rules")
			}
			if t.Ext != nil {
				h.Count("loop.feat.array.ext")
			}
			walkField(owner, t.Schema)
		case *j5schema.MapField:
			h.Count("loop.feat.map")
			if t.Rules != nil {
				h.Count("loop.feat.map.rules")
			}
			walkField(owner, t.Schema)
		}
	}
	for _, p := range ss.Packages {
		for k, r := range p.Schemas {
			switch t := r.To.(type) {
			case *j5schema.ObjectSchema:
				h.Count("loop.feat.object")
				if t.Entity != nil {
					h.Count("loop.feat.entity")
				}
				if len(t.AnyMember) > 0 {
					h.Count("loop.feat.any-member")
				}
				if strings.Contains(k, "_") {
					h.Count("loop.feat.nested-name")
				}
				for _, prop := range t.Properties {
					walkField(t.FullName(), prop.Schema)
				}
			case *j5schema.OneofSchema:
				h.Count("loop.feat.oneof")
				for _, prop := range t.Properties {
					walkField(t.FullName(), prop.Schema)
				}
			case *j5schema.EnumSchema:
				h.Count("loop.feat.enum")
				countEnumNameShapes(func(k string) { h.Count("loop." + k) }, t)
				if len(t.InfoFields) > 0 {
					h.Count("loop.feat.enum.info-fields")
				}
				for _, o := range t.Options {
					if len(o.Info) > 0 {
						h.Count("loop.feat.enum.option-info")
						break
					}
				}
			}
		}
	}
}
