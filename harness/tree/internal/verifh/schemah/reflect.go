//go:build verif

package main

// Stream schema.reflect (property C18).
//
//	op:     reflect <HEX of FileDescriptorSet (generated files only)> <descriptor summary tokens…>
//	result: nolink
//	        | linked=1 set=<ok SHAPE | err | panic> cache=[ <splitName>:<Schema class>:<NewRoot class>:cp=<client props> … ]
//
// ORACLE (the property as stated): SchemaSetFromFiles / SchemaCache.Schema / Reflector.NewRoot
// return a value or an error — never panic, hang or overflow the stack; on success every
// property's proto path resolves in the message it describes to a field of the matching kind,
// JSON names are unique per object, and the codec encodes and decodes an empty and a populated
// message of the type.

import (
	"fmt"
	"net/url"
	"os"
	"runtime/debug"
	"sort"
	"strings"
	"time"

	"github.com/pentops/j5/gen/j5/schema/v1/schema_j5pb"
	"github.com/pentops/j5/internal/verifh/vh"
	"github.com/pentops/j5/lib/j5codec"
	"github.com/pentops/j5/lib/j5reflect"
	"github.com/pentops/j5/lib/j5schema"
	"google.golang.org/protobuf/encoding/prototext"
	"google.golang.org/protobuf/reflect/protoreflect"
	"google.golang.org/protobuf/reflect/protoregistry"
	"google.golang.org/protobuf/types/descriptorpb"
	"google.golang.org/protobuf/types/dynamicpb"
)

const opTimeout = 20 * time.Second

// claimError: the text of RefSchema.claim's error (lib/j5schema/root_schema.go).
const claimError = "is used by both"

// curCollide: the set of the op being executed has two descriptors with one schema name (ops run
// one at a time).
var curCollide bool

func init() {
	// infinite recursion must die quickly (the engine attributes the crash to the op: "flush")
	debug.SetMaxStack(256 << 20)
}

func genReflectOp(h *vh.H, i int) string {
	adv := i%5 != 0 // every fifth set is a fully valid one
	var fds *descriptorpb.FileDescriptorSet
	if w := reflectWitnesses(); i < len(w) {
		fds = w[i] // the recorded witnesses run first in every shard
	} else {
		fds = genFileSet(h, adv)
	}
	rt, b, err := wireRoundTrip(fds)
	if err != nil {
		return ""
	}
	sum := "nolink"
	if files, gen, _, err := linkFiles(rt); err == nil {
		sum = summarise(files, gen)
	}
	return "reflect " + vh.Hex(b) + " " + sum
}

func execReflect(h *vh.H, op string) string {
	f := strings.SplitN(op, " ", 3)
	if len(f) < 2 {
		return "bad-op"
	}
	fds, ok := decodeFDS(f[1])
	if !ok {
		return "bad-op"
	}
	if os.Getenv("SCHEMAH_PRINT") != "" {
		fmt.Fprintln(os.Stderr, prototext.Format(fds))
	}
	ch := make(chan string, 1)
	go func() {
		defer func() {
			if r := recover(); r != nil {
				fail(h, "panic:harness:"+panicSite(), op, fmt.Sprint(r))
				ch <- "panic"
			}
		}()
		ch <- reflectOnce(h, op, fds)
	}()
	select {
	case res := <-ch:
		return res
	case <-time.After(opTimeout):
		fail(h, "hang", op, "no result after "+opTimeout.String())
		return "hang"
	}
}

// fail records an oracle failure; the symptoms of the one recorded root cause that is still open
// (a list / map of Any reflects, lib/j5reflect has no array / map of Any) share one signature.
// google.protobuf.Struct and google.protobuf.Duration used to be folded here too; they are schema
// errors since 98dc738 / d5cc948, so any reappearance is reported under its own signature.
func fail(h *vh.H, sig, op, detail string) {
	switch {
	case strings.HasPrefix(sig, "codec-error:encode:list-") && strings.HasSuffix(sig, ".Any"),
		strings.HasPrefix(sig, "codec-error:encode:map-") && strings.HasSuffix(sig, ".Any"):
		sig, detail = "any-in-collection:codec-error:encode", "["+sig+"] "+detail
	}
	h.Fail(sig, op, detail)
}

// splitName mirrors j5schema.splitDescriptorName (package, names joined by "_").
func splitName(d protoreflect.Descriptor) (string, string) {
	var path []string
	cur := d
	for {
		path = append([]string{string(cur.Name())}, path...)
		if pf, ok := cur.Parent().(protoreflect.FileDescriptor); ok {
			return string(pf.Package()), strings.Join(path, "_")
		}
		cur = cur.Parent()
	}
}

func allMessages(files []protoreflect.FileDescriptor) []protoreflect.MessageDescriptor {
	var out []protoreflect.MessageDescriptor
	var walk func(ms protoreflect.MessageDescriptors)
	walk = func(ms protoreflect.MessageDescriptors) {
		for i := 0; i < ms.Len(); i++ {
			m := ms.Get(i)
			if m.IsMapEntry() {
				continue
			}
			out = append(out, m)
			walk(m.Messages())
		}
	}
	for _, f := range files {
		walk(f.Messages())
	}
	return out
}

func allEnums(files []protoreflect.FileDescriptor) []protoreflect.EnumDescriptor {
	var out []protoreflect.EnumDescriptor
	var walk func(ms protoreflect.MessageDescriptors)
	addEnums := func(es protoreflect.EnumDescriptors) {
		for i := 0; i < es.Len(); i++ {
			out = append(out, es.Get(i))
		}
	}
	walk = func(ms protoreflect.MessageDescriptors) {
		for i := 0; i < ms.Len(); i++ {
			m := ms.Get(i)
			addEnums(m.Enums())
			walk(m.Messages())
		}
	}
	for _, f := range files {
		addEnums(f.Enums())
		walk(f.Messages())
	}
	return out
}

// nameIndex: "pkg.Split_Name" -> descriptors carrying that schema name (more than one = collision).
type nameIndex map[string][]protoreflect.Descriptor

func buildIndex(files []protoreflect.FileDescriptor) (nameIndex, bool) {
	idx := nameIndex{}
	collide := false
	add := func(d protoreflect.Descriptor) {
		p, n := splitName(d)
		k := p + "." + n
		if len(idx[k]) > 0 {
			collide = true
		}
		idx[k] = append(idx[k], d)
	}
	for _, m := range allMessages(files) {
		add(m)
		for i := 0; i < m.Oneofs().Len(); i++ {
			if o := m.Oneofs().Get(i); !o.IsSynthetic() {
				add(o)
			}
		}
	}
	for _, e := range allEnums(files) {
		add(e)
	}
	return idx, collide
}

func reflectOnce(h *vh.H, op string, fds *descriptorpb.FileDescriptorSet) string {
	files, gen, _, err := linkFiles(fds)
	if err != nil {
		h.Count("reflect.nolink")
		debugf("nolink: %v", err)
		return "nolink"
	}
	own := map[string]bool{}
	for _, g := range gen {
		own[g.Path()] = true
	}
	include := func(fd protoreflect.FileDescriptor) bool { return own[fd.Path()] }
	idx, collide := buildIndex(gen)
	curCollide = collide
	if collide {
		// two descriptors map to one J5 schema name (Foo_Bar vs Foo.Bar): an error since af1da62
		h.Count("reflect.name-collision")
	}

	// ---- 1. SchemaSetFromFiles
	var ss *j5schema.SchemaSet
	var serr error
	site, panicked, msg := guard(func() { ss, serr = j5schema.SchemaSetFromFiles(files, include) })
	var setRes string
	switch {
	case panicked:
		fail(h, "panic:SchemaSetFromFiles:"+site, op, msg)
		setRes = "panic"
	case serr != nil:
		debugf("set err: %v", serr)
		h.Count("reflect.set.err")
		setRes = "err"
	default:
		h.Count("reflect.set.ok")
		h.Nontrivial(op)
		setRes = "ok " + shapeSet(ss)
		checkSet(h, op, "set", ss.Packages, idx)
	}

	// ---- 2. SchemaCache + Reflector + codec, per message
	msgs := allMessages(gen)
	cache := j5schema.NewSchemaCache()
	refl := j5reflect.NewWithCache(cache)
	codec := j5codec.NewCodec(j5codec.WithProtoToAny())
	var cres, classes []string
	var dupClient []bool
	for _, md := range msgs {
		_, sn := splitName(md)
		var root j5schema.RootSchema
		var cerr error
		site, panicked, msg := guard(func() { root, cerr = cache.Schema(md) })
		class := "ok"
		switch {
		case panicked:
			fail(h, "panic:SchemaCache.Schema:"+site, op, string(md.FullName())+": "+msg)
			class = "panic"
		case cerr != nil:
			class = "err"
		case root == nil || isNilRoot(root):
			fail(h, "schema-nil-without-error", op, string(md.FullName()))
			class = "nil"
		}
		h.Count("reflect.cache." + class)
		if class == "ok" {
			checkRoot(h, op, "cache", root, idx, map[string]bool{})
		}

		// Reflector.NewRoot
		var rr j5reflect.Root
		var rerr error
		site, panicked, msg = guard(func() { rr, rerr = refl.NewRoot(dynamicpb.NewMessage(md)) })
		rootClass := "ok"
		switch {
		case panicked:
			rootClass = "panic"
			fail(h, "panic:NewRoot:"+site, op, string(md.FullName())+": "+msg)
		case rr == nil && rerr == nil:
			rootClass = "nil"
			fail(h, "newroot-nil-nil", op, string(md.FullName())+": NewRoot returned (nil, nil)")
		case rerr != nil:
			rootClass = "err"
			if class == "ok" {
				fail(h, "newroot-error-after-schema-ok", op, string(md.FullName())+": "+rerr.Error())
			}
		}
		classes = append(classes, class)
		dup := false
		cpDump := "-" // client properties (objects only): name:path, in order
		if class == "ok" {
			if obj, ok := root.(*j5schema.ObjectSchema); ok {
				var cp []*j5schema.ObjectProperty
				if _, panicked, _ := guard(func() { cp = obj.ClientProperties() }); panicked {
					cpDump = "!"
				} else {
					cpDump = dumpClientProps(cp)
					checkClientProps(h, op, obj, cp, md, idx)
					names := map[string]bool{}
					for _, p := range cp {
						if names[p.JSONName] {
							dup = true
							fail(h, "duplicate-client-property-name", op, obj.FullName()+"."+p.JSONName+" (through a flattened field)")
							break
						}
						names[p.JSONName] = true
					}
				}
			}
		}
		dupClient = append(dupClient, dup)
		envDump := "-"
		if class == "ok" {
			if _, panicked, _ := guard(func() { envDump = envRoot(root, md) }); panicked {
				envDump = "!"
			}
		}
		cres = append(cres, vh.Hex([]byte(sn))+":"+class+":"+rootClass+":cp="+cpDump+":env="+envDump)
	}
	// codec: empty + one field at a time for every message; the all-fields case only when nothing
	// failed before (it would repeat a per-field finding under a broader signature)
	failed := false
	for i, md := range msgs {
		if classes[i] == "ok" && dupClient[i] {
			// names are not unique among the client properties (a flattened field brings a name
			// the parent already has): reported above; the codec cannot be meaningful here
			h.Count("reflect.codec.skipped-flatten-name-clash")
			failed = true
			continue
		}
		if !checkCodec(h, op, codec, md, classes[i]) {
			failed = true
		}
	}
	if !failed {
		for i, md := range msgs {
			if classes[i] == "ok" {
				checkCodecAll(h, op, codec, md)
			}
		}
	}
	// linked=1: the set passed protodesc; the Lean side evaluates the theorems' hypothesis `linked`
	// on the summary and must agree
	return "linked=1 set=" + setRes + " cache=[ " + strings.Join(cres, " ") + " ]"
}

// dumpClientProps: `hexName/1.2.3,…` (`~` for an empty path, `-` for an empty list); compared
// with the model's `clientProps`.
func dumpClientProps(cp []*j5schema.ObjectProperty) string {
	if len(cp) == 0 {
		return "-"
	}
	var parts []string
	for _, p := range cp {
		path := "~"
		if len(p.ProtoField) > 0 {
			var ns []string
			for _, n := range p.ProtoField {
				ns = append(ns, fmt.Sprint(int32(n)))
			}
			path = strings.Join(ns, ".")
		}
		parts = append(parts, vh.Hex([]byte(p.JSONName))+"/"+path)
	}
	return strings.Join(parts, ",")
}

// checkClientProps: every client property of an object — after flattening, however deep — leads
// from the object's own message, through singular message fields, to a field its schema describes
// (or, for the wrapper of an exposed oneof of a flattened message, to that message field), and two
// client properties never lead to the same field.
func checkClientProps(h *vh.H, op string, obj *j5schema.ObjectSchema, cp []*j5schema.ObjectProperty, md protoreflect.MessageDescriptor, idx nameIndex) {
	if ds := idx[obj.FullName()]; len(ds) != 1 {
		return // colliding names: nothing to resolve against
	}
	seenPath := map[string]string{}
	for _, p := range cp {
		where := obj.FullName() + "." + p.JSONName + " (client)"
		if len(p.ProtoField) == 0 {
			continue // exposed oneof of the object itself: checked by checkRoot
		}
		walk := md
		var fd protoreflect.FieldDescriptor
		okPath := true
		for i, n := range p.ProtoField {
			fd = walk.Fields().ByNumber(n)
			if fd == nil {
				fail(h, "client-path-unresolved", op, fmt.Sprintf("%s: field %d not in %s", where, n, walk.FullName()))
				okPath = false
				break
			}
			if i < len(p.ProtoField)-1 {
				if fd.Kind() != protoreflect.MessageKind || fd.IsList() || fd.IsMap() {
					fail(h, "client-path-through-non-message", op, where)
					okPath = false
					break
				}
				walk = fd.Message()
			}
		}
		if !okPath {
			continue
		}
		if _, isOneof := p.Schema.(*j5schema.OneofField); isOneof && fd.Kind() == protoreflect.MessageKind && !fd.IsList() && !fd.IsMap() && !j5schema.IsOneofWrapper(fd.Message()) {
			// the wrapper of an exposed oneof of a flattened message: the path ends at the
			// flattened message field (several exposed oneofs of one message share it)
			continue
		}
		key := fmt.Sprint(p.ProtoField)
		if other, ok := seenPath[key]; ok {
			fail(h, "client-path-shared", op, fmt.Sprintf("%s and %s both have proto path %s", where, other, key))
			continue
		}
		seenPath[key] = p.JSONName
		checkField(h, op, "client", where, p.Schema, fd, true, idx, map[string]bool{})
	}
}

func isNilRoot(r j5schema.RootSchema) bool {
	switch t := r.(type) {
	case *j5schema.ObjectSchema:
		return t == nil
	case *j5schema.OneofSchema:
		return t == nil
	case *j5schema.EnumSchema:
		return t == nil
	}
	return false
}

// ---------------------------------------------------------------- consistency oracle

func checkSet(h *vh.H, op, via string, pkgs map[string]*j5schema.Package, idx nameIndex) {
	seen := map[string]bool{}
	for _, p := range pkgs {
		for k, r := range p.Schemas {
			if r.To == nil || isNilRoot(r.To) {
				fail(h, "set-entry-unlinked", op, p.Name+"."+k)
				continue
			}
			checkRoot(h, op, via, r.To, idx, seen)
		}
	}
}

// checkRoot checks one root schema (and, through refs, what it reaches) against the descriptors.
func checkRoot(h *vh.H, op, via string, root j5schema.RootSchema, idx nameIndex, seen map[string]bool) {
	if root == nil || isNilRoot(root) {
		return
	}
	full := root.FullName()
	if seen[full] {
		return
	}
	seen[full] = true
	var props []*j5schema.ObjectProperty
	switch t := root.(type) {
	case *j5schema.ObjectSchema:
		props = t.Properties
	case *j5schema.OneofSchema:
		props = t.Properties
	default:
		return
	}
	ds := idx[full]
	if len(ds) != 1 {
		return // external message (dependency file) or colliding names: nothing to resolve against
	}
	var md protoreflect.MessageDescriptor
	switch d := ds[0].(type) {
	case protoreflect.MessageDescriptor:
		md = d
	case protoreflect.OneofDescriptor:
		md = d.Parent().(protoreflect.MessageDescriptor) // exposed oneof: paths are relative to the parent
	default:
		fail(h, "schema-kind-mismatch:root", op, fmt.Sprintf("%s: %T is described by %T", full, root, ds[0]))
		return
	}
	names := map[string]bool{}
	for _, p := range props {
		if names[p.JSONName] {
			fail(h, "duplicate-property-name", op, full+"."+p.JSONName)
		}
		names[p.JSONName] = true
		where := full + "." + p.JSONName
		if len(p.ProtoField) == 0 {
			of, ok := p.Schema.(*j5schema.OneofField)
			if !ok {
				fail(h, "path-empty", op, where)
				continue
			}
			if of.Ref == nil || of.Ref.To == nil {
				fail(h, "ref-unlinked", op, where)
				continue
			}
			checkRoot(h, op, via, of.Ref.To, idx, seen)
			continue
		}
		walk := md
		var fd protoreflect.FieldDescriptor
		okPath := true
		for i, n := range p.ProtoField {
			fd = walk.Fields().ByNumber(n)
			if fd == nil {
				fail(h, "path-unresolved", op, fmt.Sprintf("%s: field %d not in %s", where, n, walk.FullName()))
				okPath = false
				break
			}
			if i < len(p.ProtoField)-1 {
				if fd.Kind() != protoreflect.MessageKind || fd.IsList() || fd.IsMap() {
					fail(h, "path-through-non-message", op, where)
					okPath = false
					break
				}
				walk = fd.Message()
			}
		}
		if !okPath {
			continue
		}
		checkField(h, op, via, where, p.Schema, fd, true, idx, seen)
	}
}

func fieldClass(fd protoreflect.FieldDescriptor) string {
	k := fd.Kind().String()
	if fd.Kind() == protoreflect.MessageKind {
		n := string(fd.Message().FullName())
		if strings.HasPrefix(n, "google.protobuf.") || strings.HasPrefix(n, "j5.types.") {
			k = n
		} else {
			k = "message"
		}
	}
	return k
}

// checkField: does the schema describe this proto field? top = the field itself (cardinality
// counts), otherwise the element of a list / value of a map.
func checkField(h *vh.H, op, via, where string, fs j5schema.FieldSchema, fd protoreflect.FieldDescriptor, top bool, idx nameIndex, seen map[string]bool) {
	mismatch := func(what string) {
		fail(h, "kind-mismatch:"+what, op, fmt.Sprintf("%s (%s): schema %T vs proto %s", where, via, fs, fieldClass(fd)))
	}
	if top {
		switch t := fs.(type) {
		case *j5schema.ArrayField:
			if !fd.IsList() {
				mismatch("array-for-" + fieldClass(fd))
				return
			}
			checkField(h, op, via, where+"[]", t.Schema, fd, false, idx, seen)
			return
		case *j5schema.MapField:
			if !fd.IsMap() {
				mismatch("map-for-" + fieldClass(fd))
				return
			}
			checkField(h, op, via, where+"{}", t.Schema, fd.MapValue(), false, idx, seen)
			return
		}
		if fd.IsList() || fd.IsMap() {
			mismatch("single-for-repeated")
			return
		}
	}
	refOK := func(r *j5schema.RefSchema, want protoreflect.Descriptor) bool {
		if r == nil || r.To == nil || isNilRoot(r.To) {
			fail(h, "ref-unlinked", op, where)
			return false
		}
		p, n := splitName(want)
		if r.Package.Name != p || r.Schema != n {
			fail(h, "ref-wrong-target", op, fmt.Sprintf("%s: ref %s.%s for %s", where, r.Package.Name, r.Schema, want.FullName()))
			return false
		}
		return true
	}
	switch t := fs.(type) {
	case *j5schema.ObjectField:
		if fd.Kind() != protoreflect.MessageKind {
			mismatch("object-for-" + fieldClass(fd))
			return
		}
		if refOK(t.Ref, fd.Message()) {
			if _, ok := t.Ref.To.(*j5schema.ObjectSchema); !ok {
				fail(h, "ref-kind-mismatch:object", op, fmt.Sprintf("%s: object field links to %T", where, t.Ref.To))
				return
			}
			checkRoot(h, op, via, t.Ref.To, idx, seen)
		}
	case *j5schema.OneofField:
		if fd.Kind() != protoreflect.MessageKind {
			mismatch("oneof-for-" + fieldClass(fd))
			return
		}
		if refOK(t.Ref, fd.Message()) {
			if _, ok := t.Ref.To.(*j5schema.OneofSchema); !ok {
				fail(h, "ref-kind-mismatch:oneof", op, fmt.Sprintf("%s: oneof field links to %T", where, t.Ref.To))
				return
			}
			checkRoot(h, op, via, t.Ref.To, idx, seen)
		}
	case *j5schema.EnumField:
		if fd.Kind() != protoreflect.EnumKind {
			mismatch("enum-for-" + fieldClass(fd))
			return
		}
		if refOK(t.Ref, fd.Enum()) {
			if _, ok := t.Ref.To.(*j5schema.EnumSchema); !ok {
				fail(h, "ref-kind-mismatch:enum", op, fmt.Sprintf("%s: enum field links to %T", where, t.Ref.To))
			}
		}
	case *j5schema.AnyField:
		if c := fieldClass(fd); c != "google.protobuf.Any" && c != "j5.types.any.v1.Any" {
			mismatch("any-for-" + c)
		}
	case *j5schema.MapField:
		mismatch("map-for-" + fieldClass(fd)) // a map as list item / map value
	case *j5schema.ArrayField:
		mismatch("array-for-" + fieldClass(fd))
	case *j5schema.ScalarSchema:
		want := scalarWants(t.Proto)
		got := fieldClass(fd)
		if !want[got] {
			tag, fm := scalarTag(t.Proto)
			mismatch(fmt.Sprintf("%s%d-for-%s", tag, fm, got))
		}
	case nil:
		fail(h, "property-without-schema", op, where)
	}
}

// scalarWants: the proto field classes a J5 scalar type can describe (what the codec can read and
// write through protoreflect without a type mismatch).
func scalarWants(f *schema_j5pb.Field) map[string]bool {
	switch t := f.GetType().(type) {
	case *schema_j5pb.Field_String_:
		return map[string]bool{"string": true}
	case *schema_j5pb.Field_Key:
		return map[string]bool{"string": true}
	case *schema_j5pb.Field_Bool:
		return map[string]bool{"bool": true}
	case *schema_j5pb.Field_Bytes:
		return map[string]bool{"bytes": true}
	case *schema_j5pb.Field_Integer:
		switch t.Integer.GetFormat() {
		case schema_j5pb.IntegerField_FORMAT_INT32:
			return map[string]bool{"int32": true, "sint32": true, "sfixed32": true}
		case schema_j5pb.IntegerField_FORMAT_INT64:
			return map[string]bool{"int64": true, "sint64": true, "sfixed64": true}
		case schema_j5pb.IntegerField_FORMAT_UINT32:
			return map[string]bool{"uint32": true, "fixed32": true}
		case schema_j5pb.IntegerField_FORMAT_UINT64:
			return map[string]bool{"uint64": true, "fixed64": true}
		}
	case *schema_j5pb.Field_Float:
		switch t.Float.GetFormat() {
		case schema_j5pb.FloatField_FORMAT_FLOAT32:
			return map[string]bool{"float": true}
		case schema_j5pb.FloatField_FORMAT_FLOAT64:
			return map[string]bool{"double": true}
		}
	case *schema_j5pb.Field_Timestamp:
		return map[string]bool{"google.protobuf.Timestamp": true}
	case *schema_j5pb.Field_Date:
		return map[string]bool{"j5.types.date.v1.Date": true}
	case *schema_j5pb.Field_Decimal:
		return map[string]bool{"j5.types.decimal.v1.Decimal": true}
	}
	return map[string]bool{}
}

// ---------------------------------------------------------------- codec oracle

// codecRun runs one codec call under recover; a panic is always a finding, an error only when the
// type was reflected successfully (class ok).
func codecRun(h *vh.H, op, name, class, what string, f func() error) bool {
	var err error
	site, panicked, msg := guard(func() { err = f() })
	if panicked {
		fail(h, "panic:codec:"+what+":"+site, op, name+": "+msg)
		return false
	}
	if err != nil {
		if curCollide && strings.Contains(err.Error(), claimError) {
			// two descriptors of the set map to one schema name (an error since af1da62). Which
			// message fails depends on which descriptor a cache saw first; the codec reflects on
			// its own cache, whose history differs from the one `class` was taken from, so here
			// reflection did not succeed and the property says nothing about the codec.
			h.Count("reflect.codec.name-collision-in-codec-cache")
			return false
		}
		if class == "ok" {
			fail(h, "codec-error:"+what, op, name+": "+err.Error())
		}
		return false
	}
	return true
}

func decodeCheck(codec *j5codec.Codec, md protoreflect.MessageDescriptor, js []byte) error {
	if err := codec.JSONToProto(js, dynamicpb.NewMessage(md)); err != nil {
		return fmt.Errorf("%w; json %s", err, js)
	}
	return nil
}

// checkCodec: empty message, query decoder, then one populated field at a time (narrow
// signatures; a message-typed field is present but empty — its type has its own iteration).
// Returns false when anything failed.
func checkCodec(h *vh.H, op string, codec *j5codec.Codec, md protoreflect.MessageDescriptor, class string) bool {
	name := string(md.FullName())
	good := true
	var js []byte
	if codecRun(h, op, name, class, "encode-empty", func() (err error) { js, err = codec.ProtoToJSON(dynamicpb.NewMessage(md)); return }) {
		h.Count("reflect.codec.empty-ok")
		if !codecRun(h, op, name, class, "decode-empty", func() error { return decodeCheck(codec, md, js) }) {
			good = false
		}
	} else if class == "ok" {
		good = false
	}
	// the query decoder on an unknown key must answer with an error, never a nil dereference
	site, panicked, msg := guard(func() {
		_ = codec.QueryToProto(url.Values{"zzUnknown": []string{"1"}}, dynamicpb.NewMessage(md))
	})
	if panicked {
		fail(h, "panic:codec:query:"+site, op, name+": "+msg)
		good = false
	}
	if class != "ok" {
		return good
	}
	fields := md.Fields()
	for i := 0; i < fields.Len(); i++ {
		fd := fields.Get(i)
		m := dynamicpb.NewMessage(md)
		if !populateField(m, fd, 0) {
			continue
		}
		card := "single"
		switch {
		case fd.IsMap():
			card = "map"
			fd = fd.MapValue()
		case fd.IsList():
			card = "list"
		case fd.ContainingOneof() != nil && !fd.ContainingOneof().IsSynthetic():
			card = "oneof"
		}
		cls := card + "-" + fieldClass(fd)
		var js []byte
		if codecRun(h, op, name, class, "encode:"+cls, func() (err error) { js, err = codec.ProtoToJSON(m); return }) {
			h.Count("reflect.codec.field-ok")
			if !codecRun(h, op, name, class, "decode:"+cls, func() error { return decodeCheck(codec, md, js) }) {
				good = false
			}
		} else {
			good = false
		}
	}
	return good
}

// knownBadField: a field whose own per-field run already carries the recorded finding (a list /
// map of Any).
func knownBadField(fd protoreflect.FieldDescriptor) bool {
	el := fd
	if fd.IsMap() {
		el = fd.MapValue()
	}
	switch fieldClass(el) {
	case "google.protobuf.Any", "j5.types.any.v1.Any":
		return fd.IsList() || fd.IsMap()
	}
	return false
}

// reachesKnownBad: the message populated `depth` levels deep contains such a field.
func reachesKnownBad(md protoreflect.MessageDescriptor, depth int) bool {
	fs := md.Fields()
	for i := 0; i < fs.Len(); i++ {
		fd := fs.Get(i)
		if knownBadField(fd) {
			return true
		}
		el := fd
		if fd.IsMap() {
			el = fd.MapValue()
		}
		if depth > 0 && fieldClass(el) == "message" && reachesKnownBad(el.Message(), depth-1) {
			return true
		}
	}
	return false
}

// checkCodecAll: every field populated (nested messages one level deep).
func checkCodecAll(h *vh.H, op string, codec *j5codec.Codec, md protoreflect.MessageDescriptor) {
	if reachesKnownBad(md, 2) {
		// the combined case would only repeat the recorded per-field finding under a broad signature
		// (nested, the error surfaces; at the top level an exposed oneof swallows it in IsSet)
		h.Count("reflect.codec.all-skipped-known-class")
		return
	}
	name := string(md.FullName())
	fields := md.Fields()
	wrapper := j5schema.IsOneofWrapper(md)
	full := dynamicpb.NewMessage(md)
	for i := 0; i < fields.Len(); i++ {
		if populateField(full, fields.Get(i), 1) && wrapper {
			break // a oneof wrapper holds exactly one value
		}
	}
	var js []byte
	if codecRun(h, op, name, "ok", "encode:all", func() (err error) { js, err = codec.ProtoToJSON(full); return }) {
		h.Count("reflect.codec.all-ok")
		codecRun(h, op, name, "ok", "decode:all", func() error { return decodeCheck(codec, md, js) })
	}
}

var _ = protoregistry.GlobalFiles
var _ = sort.Strings
