//go:build verif

package main

// shapeSet: the structural part of a reflected schema set (what the Lean Reader model predicts):
// root kinds, names, entity marker, any-membership, enum options, and per property the JSON name,
// required / optional flags, proto path and field shape — without rule payloads and descriptions.
//
// summarise: the abstract descriptor set handed to the Reader model: exactly the facts the control
// flow of lib/j5schema/schema_from_proto.go depends on.
// Both grammars are in /verif/harness/PROTOCOL-schema.md.

import (
	"sort"
	"strings"

	"buf.build/gen/go/bufbuild/protovalidate/protocolbuffers/go/buf/validate"
	"github.com/iancoleman/strcase"
	"github.com/pentops/j5/gen/j5/ext/v1/ext_j5pb"
	"github.com/pentops/j5/gen/j5/list/v1/list_j5pb"
	"github.com/pentops/j5/lib/id62"
	"github.com/pentops/j5/lib/j5schema"
	"google.golang.org/protobuf/proto"
	"google.golang.org/protobuf/reflect/protoreflect"
	"google.golang.org/protobuf/reflect/protoregistry"
)

func (d *dumper) shRef(r *j5schema.RefSchema) {
	if r == nil {
		d.tok("noref")
		return
	}
	d.tok("(")
	pkg := ""
	if r.Package != nil {
		pkg = r.Package.Name
	}
	d.str(pkg)
	d.str(r.Schema)
	d.tok(")")
}

func (d *dumper) shField(f j5schema.FieldSchema) {
	switch t := f.(type) {
	case nil:
		d.tok("nil")
	case *j5schema.ScalarSchema:
		tag, fm := scalarTag(t.Proto)
		d.tok("(")
		d.tok("scalar")
		d.tok(tag)
		d.int(int64(fm))
		d.int(int64(t.Kind))
		d.str(string(t.WellKnownTypeName))
		d.tok(")")
	case *j5schema.AnyField:
		d.tok("(")
		d.tok("any")
		d.tok(")")
	case *j5schema.EnumField:
		d.tok("(")
		d.tok("enum")
		d.shRef(t.Ref)
		d.tok(")")
	case *j5schema.ObjectField:
		d.tok("(")
		d.tok("object")
		d.shRef(t.Ref)
		d.boolean(t.Flatten)
		d.tok(")")
	case *j5schema.OneofField:
		d.tok("(")
		d.tok("oneof")
		d.shRef(t.Ref)
		d.tok(")")
	case *j5schema.MapField:
		d.tok("(")
		d.tok("map")
		d.shField(t.Schema)
		d.tok(")")
	case *j5schema.ArrayField:
		d.tok("(")
		d.tok("array")
		d.shField(t.Schema)
		d.tok(")")
	default:
		d.tok("!field")
	}
}

func (d *dumper) shProps(ps []*j5schema.ObjectProperty) {
	d.tok("[")
	for _, p := range ps {
		d.tok("(")
		d.str(p.JSONName)
		d.boolean(p.Required)
		d.boolean(p.ExplicitlyOptional)
		d.tok("[")
		for _, n := range p.ProtoField {
			d.int(int64(n))
		}
		d.tok("]")
		d.shField(p.Schema)
		d.tok(")")
	}
	d.tok("]")
}

func (d *dumper) shRoot(r j5schema.RootSchema) {
	if r == nil || isNilRoot(r) {
		d.tok("nil")
		return
	}
	switch t := r.(type) {
	case *j5schema.ObjectSchema:
		d.tok("(")
		d.tok("obj")
		d.str(t.PackageName())
		d.str(t.Name())
		if t.Entity == nil {
			d.tok("~")
		} else {
			d.tok("(")
			d.str(t.Entity.Entity)
			d.int(int64(t.Entity.Part))
			d.tok(")")
		}
		d.strs(t.AnyMember)
		d.shProps(t.Properties)
		d.tok(")")
	case *j5schema.OneofSchema:
		d.tok("(")
		d.tok("oneof")
		d.str(t.PackageName())
		d.str(t.Name())
		d.shProps(t.Properties)
		d.tok(")")
	case *j5schema.EnumSchema:
		d.tok("(")
		d.tok("enum")
		d.str(t.PackageName())
		d.str(t.Name())
		d.str(t.NamePrefix)
		d.tok("[")
		for _, o := range t.Options {
			d.tok("(")
			d.str(o.Name())
			d.int(int64(o.Number()))
			d.tok(")")
		}
		d.tok("]")
		d.tok(")")
	}
}

func shapeSet(ss *j5schema.SchemaSet) string {
	d := &dumper{}
	pn := make([]string, 0, len(ss.Packages))
	for n := range ss.Packages {
		pn = append(pn, n)
	}
	sort.Strings(pn)
	d.tok("[")
	for _, n := range pn {
		p := ss.Packages[n]
		if len(p.Schemas) == 0 {
			continue
		}
		d.tok("(")
		d.str(p.Name)
		sn := make([]string, 0, len(p.Schemas))
		for k := range p.Schemas {
			sn = append(sn, k)
		}
		sort.Strings(sn)
		d.tok("[")
		for _, k := range sn {
			d.tok("(")
			d.str(k)
			d.shRoot(p.Schemas[k].To)
			d.tok(")")
		}
		d.tok("]")
		d.tok(")")
	}
	d.tok("]")
	return d.b.String()
}

// ---------------------------------------------------------------- descriptor summary

func kindTok(k protoreflect.Kind) string { return k.String() }

func (d *dumper) sumValidate(v *validate.FieldConstraints) {
	if v == nil {
		d.tok("~")
		return
	}
	d.tok("(")
	if v.Required == nil {
		d.tok("~")
	} else {
		d.boolean(*v.Required)
	}
	if v.Ignore == nil {
		d.tok("~")
	} else {
		d.int(int64(*v.Ignore))
	}
	flags := func(name string, c, in, notIn bool) {
		d.tok("(")
		d.tok(name)
		d.boolean(c)
		d.boolean(in)
		d.boolean(notIn)
		d.tok(")")
	}
	switch t := v.Type.(type) {
	case nil:
		d.tok("none")
	case *validate.FieldConstraints_String_:
		d.tok("(")
		d.tok("string")
		wk, wb := "none", false
		switch w := t.String_.WellKnown.(type) {
		case nil:
		case *validate.StringRules_Uuid:
			wk, wb = "uuid", w.Uuid
		case *validate.StringRules_Email:
			wk, wb = "email", w.Email
		case *validate.StringRules_Hostname:
			wk, wb = "hostname", w.Hostname
		case *validate.StringRules_Ipv4:
			wk, wb = "ipv4", w.Ipv4
		case *validate.StringRules_Ipv6:
			wk, wb = "ipv6", w.Ipv6
		case *validate.StringRules_Uri:
			wk, wb = "uri", w.Uri
		default:
			wk = "other"
		}
		d.tok(wk)
		d.boolean(wb)
		pat := "none"
		if t.String_.Pattern != nil {
			switch *t.String_.Pattern {
			case `^\d{4}-\d{2}-\d{2}$`:
				pat = "date"
			case `^\d(.?\d)?$`:
				pat = "number"
			case id62.PatternString:
				pat = "id62"
			default:
				pat = "other"
			}
		}
		d.tok(pat)
		d.tok(")")
	case *validate.FieldConstraints_Bool:
		d.tok("(")
		d.tok("bool")
		d.boolean(t.Bool.Const != nil)
		d.tok(")")
	case *validate.FieldConstraints_Float:
		flags("float", t.Float.Const != nil, t.Float.In != nil, t.Float.NotIn != nil)
	case *validate.FieldConstraints_Double:
		flags("double", t.Double.Const != nil, t.Double.In != nil, t.Double.NotIn != nil)
	case *validate.FieldConstraints_Int32:
		flags("int32", t.Int32.Const != nil, t.Int32.In != nil, t.Int32.NotIn != nil)
	case *validate.FieldConstraints_Int64:
		flags("int64", t.Int64.Const != nil, t.Int64.In != nil, t.Int64.NotIn != nil)
	case *validate.FieldConstraints_Uint32:
		flags("uint32", t.Uint32.Const != nil, t.Uint32.In != nil, t.Uint32.NotIn != nil)
	case *validate.FieldConstraints_Uint64:
		flags("uint64", t.Uint64.Const != nil, t.Uint64.In != nil, t.Uint64.NotIn != nil)
	case *validate.FieldConstraints_Sint32:
		flags("sint32", t.Sint32.Const != nil, t.Sint32.In != nil, t.Sint32.NotIn != nil)
	case *validate.FieldConstraints_Sint64:
		flags("sint64", t.Sint64.Const != nil, t.Sint64.In != nil, t.Sint64.NotIn != nil)
	case *validate.FieldConstraints_Fixed32:
		flags("fixed32", t.Fixed32.Const != nil, t.Fixed32.In != nil, t.Fixed32.NotIn != nil)
	case *validate.FieldConstraints_Fixed64:
		flags("fixed64", t.Fixed64.Const != nil, t.Fixed64.In != nil, t.Fixed64.NotIn != nil)
	case *validate.FieldConstraints_Sfixed32:
		flags("sfixed32", t.Sfixed32.Const != nil, t.Sfixed32.In != nil, t.Sfixed32.NotIn != nil)
	case *validate.FieldConstraints_Sfixed64:
		flags("sfixed64", t.Sfixed64.Const != nil, t.Sfixed64.In != nil, t.Sfixed64.NotIn != nil)
	case *validate.FieldConstraints_Bytes:
		d.tok("(")
		d.tok("bytes")
		d.tok(")")
	case *validate.FieldConstraints_Enum:
		d.tok("(")
		d.tok("enum")
		d.tok("[")
		for _, n := range t.Enum.In {
			d.int(int64(n))
		}
		d.tok("]")
		d.tok("[")
		for _, n := range t.Enum.NotIn {
			d.int(int64(n))
		}
		d.tok("]")
		d.tok(")")
	case *validate.FieldConstraints_Repeated:
		d.tok("(")
		d.tok("repeated")
		d.int(int64(t.Repeated.GetMinItems()))
		d.sumValidate(t.Repeated.GetItems())
		d.tok(")")
	case *validate.FieldConstraints_Map:
		d.tok("(")
		d.tok("map")
		d.sumValidate(t.Map.GetValues())
		d.tok(")")
	case *validate.FieldConstraints_Timestamp:
		d.tok("(")
		d.tok("timestamp")
		d.boolean(t.Timestamp.Const != nil)
		d.boolean(t.Timestamp.Within != nil)
		d.tok(")")
	case *validate.FieldConstraints_Duration:
		d.tok("(")
		d.tok("duration")
		d.tok(")")
	case *validate.FieldConstraints_Any:
		d.tok("(")
		d.tok("any")
		d.tok(")")
	default:
		d.tok("(")
		d.tok("other")
		d.tok(")")
	}
	d.tok(")")
}

func (d *dumper) sumList(l *list_j5pb.FieldConstraint) {
	if l == nil {
		d.tok("~")
		return
	}
	c, sw, fk := "none", "none", "none"
	switch t := l.Type.(type) {
	case nil:
	case *list_j5pb.FieldConstraint_Double:
		c = "double"
	case *list_j5pb.FieldConstraint_Fixed32:
		c = "fixed32"
	case *list_j5pb.FieldConstraint_Fixed64:
		c = "fixed64"
	case *list_j5pb.FieldConstraint_Float:
		c = "float"
	case *list_j5pb.FieldConstraint_Int32:
		c = "int32"
	case *list_j5pb.FieldConstraint_Int64:
		c = "int64"
	case *list_j5pb.FieldConstraint_Sfixed32:
		c = "sfixed32"
	case *list_j5pb.FieldConstraint_Sfixed64:
		c = "sfixed64"
	case *list_j5pb.FieldConstraint_Sint32:
		c = "sint32"
	case *list_j5pb.FieldConstraint_Sint64:
		c = "sint64"
	case *list_j5pb.FieldConstraint_Uint32:
		c = "uint32"
	case *list_j5pb.FieldConstraint_Uint64:
		c = "uint64"
	case *list_j5pb.FieldConstraint_Bool:
		c = "bool"
	case *list_j5pb.FieldConstraint_String_:
		c = "string"
		switch w := t.String_.GetWellKnown().(type) {
		case *list_j5pb.StringRules_OpenText:
			sw = "open_text"
		case *list_j5pb.StringRules_Date:
			sw = "date"
		case *list_j5pb.StringRules_ForeignKey:
			sw = "foreign_key"
			switch w.ForeignKey.GetType().(type) {
			case *list_j5pb.ForeignKeyRules_UniqueString:
				fk = "unique_string"
			case *list_j5pb.ForeignKeyRules_Uuid:
				fk = "uuid"
			case *list_j5pb.ForeignKeyRules_Id62:
				fk = "id62"
			}
		}
	case *list_j5pb.FieldConstraint_Enum:
		c = "enum"
	case *list_j5pb.FieldConstraint_Oneof:
		c = "oneof"
	case *list_j5pb.FieldConstraint_Timestamp:
		c = "timestamp"
	case *list_j5pb.FieldConstraint_Date:
		c = "date"
	case *list_j5pb.FieldConstraint_Decimal:
		c = "decimal"
	case *list_j5pb.FieldConstraint_Any:
		c = "any"
	default:
		c = "other"
	}
	d.tok("(")
	d.tok(c)
	d.tok(sw)
	d.tok(fk)
	d.tok(")")
}

func (d *dumper) sumJ5(j *ext_j5pb.FieldOptions) {
	if j == nil {
		d.tok("~")
		return
	}
	c, flatten, kt, kf := "none", false, "none", int64(0)
	switch t := j.Type.(type) {
	case nil:
	case *ext_j5pb.FieldOptions_Message:
		c, flatten = "message", t.Message.GetFlatten()
	case *ext_j5pb.FieldOptions_Any:
		c = "any"
	case *ext_j5pb.FieldOptions_Object:
		c, flatten = "object", t.Object.GetFlatten()
	case *ext_j5pb.FieldOptions_Enum:
		c = "enum"
	case *ext_j5pb.FieldOptions_Oneof:
		c = "oneof"
	case *ext_j5pb.FieldOptions_Map:
		c = "map"
	case *ext_j5pb.FieldOptions_Array:
		c = "array"
	case *ext_j5pb.FieldOptions_String_:
		c = "string"
	case *ext_j5pb.FieldOptions_Integer:
		c = "integer"
	case *ext_j5pb.FieldOptions_Float:
		c = "float"
	case *ext_j5pb.FieldOptions_Bool:
		c = "bool"
	case *ext_j5pb.FieldOptions_Bytes:
		c = "bytes"
	case *ext_j5pb.FieldOptions_Decimal:
		c = "decimal"
	case *ext_j5pb.FieldOptions_Date:
		c = "date"
	case *ext_j5pb.FieldOptions_Timestamp:
		c = "timestamp"
	case *ext_j5pb.FieldOptions_Key:
		c = "key"
		switch k := t.Key.GetType().(type) {
		case *ext_j5pb.KeyField_Format_:
			kt, kf = "format", int64(k.Format)
		case *ext_j5pb.KeyField_Pattern:
			kt = "pattern"
		}
	default:
		c = "other"
	}
	d.tok("(")
	d.tok(c)
	d.boolean(flatten)
	d.tok(kt)
	d.int(kf)
	d.tok(")")
}

func (d *dumper) sumKey(k *ext_j5pb.PSMKeyFieldOptions) {
	if k == nil {
		d.tok("~")
		return
	}
	d.tok("(")
	d.boolean(k.PrimaryKey)
	d.boolean(k.ForeignKey != nil)
	d.tok(")")
}

func (d *dumper) sumPSM(p *ext_j5pb.PSMOptions) {
	if p == nil {
		d.tok("~")
		return
	}
	d.tok("(")
	d.str(p.EntityName)
	if p.EntityPart == nil {
		d.tok("~")
	} else {
		d.int(int64(*p.EntityPart))
	}
	d.tok(")")
}

func (d *dumper) sumTarget(fd protoreflect.FieldDescriptor) {
	switch {
	case fd.Message() != nil && (fd.Kind() == protoreflect.MessageKind || fd.Kind() == protoreflect.GroupKind):
		p, n := splitName(fd.Message())
		d.tok("(")
		d.tok("m")
		d.str(string(fd.Message().FullName()))
		d.str(p)
		d.str(n)
		d.tok(")")
	case fd.Enum() != nil && fd.Kind() == protoreflect.EnumKind:
		p, n := splitName(fd.Enum())
		d.tok("(")
		d.tok("e")
		d.str(string(fd.Enum().FullName()))
		d.str(p)
		d.str(n)
		d.tok(")")
	default:
		d.tok("-")
	}
}

func (d *dumper) sumField(m protoreflect.MessageDescriptor, fd protoreflect.FieldDescriptor) {
	d.tok("(")
	d.str(string(fd.Name()))
	d.str(fd.JSONName())
	d.int(int64(fd.Number()))
	d.tok(kindTok(fd.Kind()))
	switch {
	case fd.IsMap():
		d.tok("map")
	case fd.IsList():
		d.tok("list")
	default:
		d.tok("single")
	}
	oi := -1
	if o := fd.ContainingOneof(); o != nil {
		oi = o.Index()
	}
	d.int(int64(oi))
	d.sumTarget(fd)
	d.boolean(fd.HasOptionalKeyword())
	opts := fd.Options()
	v, _ := proto.GetExtension(opts, validate.E_Field).(*validate.FieldConstraints)
	l, _ := proto.GetExtension(opts, list_j5pb.E_Field).(*list_j5pb.FieldConstraint)
	j, _ := proto.GetExtension(opts, ext_j5pb.E_Field).(*ext_j5pb.FieldOptions)
	k, _ := proto.GetExtension(opts, ext_j5pb.E_Key).(*ext_j5pb.PSMKeyFieldOptions)
	d.sumValidate(v)
	d.sumList(l)
	d.sumJ5(j)
	d.sumKey(k)
	if fd.IsMap() {
		d.tok(kindTok(fd.MapKey().Kind()))
		mv := fd.MapValue()
		d.tok("(")
		d.tok(kindTok(mv.Kind()))
		d.sumTarget(mv)
		mk, _ := proto.GetExtension(mv.Options(), ext_j5pb.E_Key).(*ext_j5pb.PSMKeyFieldOptions)
		d.sumKey(mk)
		d.tok(")")
	}
	d.tok(")")
}

func (d *dumper) sumEnum(e protoreflect.EnumDescriptor) {
	_, sn := splitName(e)
	d.tok("(")
	d.str(string(e.FullName()))
	d.str(string(e.Name()))
	d.str(sn)
	eo, _ := proto.GetExtension(e.Options(), ext_j5pb.E_Enum).(*ext_j5pb.EnumOptions)
	d.boolean(eo != nil && eo.NoDefault)
	d.tok("[")
	for i := 0; i < e.Values().Len(); i++ {
		v := e.Values().Get(i)
		d.tok("(")
		d.str(string(v.Name()))
		d.int(int64(v.Number()))
		d.tok(")")
	}
	d.tok("]")
	d.tok(")")
}

func (d *dumper) sumMsg(m protoreflect.MessageDescriptor) {
	_, sn := splitName(m)
	d.tok("(")
	d.str(string(m.FullName()))
	d.str(string(m.Name()))
	d.str(sn)
	mo, _ := proto.GetExtension(m.Options(), ext_j5pb.E_Message).(*ext_j5pb.MessageOptions)
	if mo == nil {
		d.tok("~")
	} else {
		d.tok("(")
		d.boolean(mo.IsOneofWrapper)
		switch t := mo.Type.(type) {
		case *ext_j5pb.MessageOptions_Object:
			d.tok("object")
			d.strs(t.Object.GetAnyMember())
		case *ext_j5pb.MessageOptions_Oneof:
			d.tok("oneof")
			d.strs(nil)
		default:
			d.tok("none")
			d.strs(nil)
		}
		d.tok(")")
	}
	psm, _ := proto.GetExtension(m.Options(), ext_j5pb.E_Psm).(*ext_j5pb.PSMOptions)
	d.sumPSM(psm)
	// legacy: psm option of the message of a field called "keys"
	var legacy *ext_j5pb.PSMOptions
	legacyKind := "nofield"
	if kf := m.Fields().ByName("keys"); kf != nil {
		legacyKind = "nomsg"
		if km := kf.Message(); km != nil {
			legacyKind = "msg"
			legacy, _ = proto.GetExtension(km.Options(), ext_j5pb.E_Psm).(*ext_j5pb.PSMOptions)
		}
	}
	d.tok(legacyKind)
	d.sumPSM(legacy)
	d.tok("[")
	for i := 0; i < m.Oneofs().Len(); i++ {
		o := m.Oneofs().Get(i)
		_, osn := splitName(o)
		d.tok("(")
		d.str(string(o.Name()))
		d.str(osn)
		d.str(strcase.ToLowerCamel(string(o.Name()))) // jsonFieldName: iancoleman/strcase is trusted here
		d.boolean(o.IsSynthetic())
		oe, _ := proto.GetExtension(o.Options(), ext_j5pb.E_Oneof).(*ext_j5pb.OneofOptions)
		switch {
		case oe == nil:
			d.tok("none")
		case oe.Expose:
			d.tok("expose")
		default:
			d.tok("hide")
		}
		d.tok(")")
	}
	d.tok("]")
	d.tok("[")
	for i := 0; i < m.Fields().Len(); i++ {
		d.sumField(m, m.Fields().Get(i))
	}
	d.tok("]")
	d.tok("[")
	for i := 0; i < m.Messages().Len(); i++ {
		if n := m.Messages().Get(i); !n.IsMapEntry() {
			d.sumMsg(n)
		}
	}
	d.tok("]")
	d.tok("[")
	for i := 0; i < m.Enums().Len(); i++ {
		d.sumEnum(m.Enums().Get(i))
	}
	d.tok("]")
	d.tok(")")
}

func summarise(files *protoregistry.Files, gen []protoreflect.FileDescriptor) string {
	d := &dumper{}
	d.tok("[")
	for _, f := range gen {
		d.tok("(")
		d.str(string(f.Package()))
		d.tok("[")
		for i := 0; i < f.Messages().Len(); i++ {
			d.sumMsg(f.Messages().Get(i))
		}
		d.tok("]")
		d.tok("[")
		for i := 0; i < f.Enums().Len(); i++ {
			d.sumEnum(f.Enums().Get(i))
		}
		d.tok("]")
		d.tok(")")
	}
	d.tok("]")
	return d.b.String()
}

var _ = strings.Join
