//go:build verif

package main

import (
	"fmt"
	"math/rand/v2"
	"reflect"
	"sort"
	"strconv"
	"strings"

	"github.com/pentops/j5/gen/j5/ext/v1/ext_j5pb"
	"github.com/pentops/j5/lib/j5schema"
	"google.golang.org/protobuf/proto"
	"google.golang.org/protobuf/reflect/protodesc"
	"google.golang.org/protobuf/reflect/protoreflect"
	"google.golang.org/protobuf/reflect/protoregistry"
	"google.golang.org/protobuf/types/descriptorpb"
	_ "google.golang.org/protobuf/types/known/fieldmaskpb"
	_ "google.golang.org/protobuf/types/known/structpb"
	_ "google.golang.org/protobuf/types/known/timestamppb"
)

// The abstract descriptor graph shared with the Lean model (J5V.Conc.Cache): node = schema
// (object message 'o', oneof-wrapper message 'n', enum 'e'), name = index in the list.
// A field is scalar 's', bad 'x' (the build of the owning message fails there) or a reference
// 'r' to another node; Wrap is the string of array/map wrappers ("", "a", "m", "am").
type Field struct {
	Num  int
	Wrap string
	Base byte
	Ref  int
}

type Node struct {
	Kind   byte
	Ok     bool // enum: first value ends in UNSPECIFIED
	Fields []Field
}

type Graph []Node

func nodeString(n Node) string { return Graph{n}.String() }

func (g Graph) String() string {
	var b strings.Builder
	for i, n := range g {
		if i > 0 {
			b.WriteByte(';')
		}
		b.WriteByte(n.Kind)
		if n.Ok {
			b.WriteByte('1')
		} else {
			b.WriteByte('0')
		}
		b.WriteByte(':')
		for k, f := range n.Fields {
			if k > 0 {
				b.WriteByte(',')
			}
			w := f.Wrap
			if w == "" {
				w = "-"
			}
			fmt.Fprintf(&b, "%d.%s.%c", f.Num, w, f.Base)
			if f.Base == 'r' {
				b.WriteString(strconv.Itoa(f.Ref))
			}
		}
	}
	return b.String()
}

func parseGraph(s string) (Graph, bool) {
	var g Graph
	for _, ns := range strings.Split(s, ";") {
		head, body, ok := strings.Cut(ns, ":")
		if !ok || len(head) != 2 || !strings.ContainsRune("one", rune(head[0])) || (head[1] != '0' && head[1] != '1') {
			return nil, false
		}
		n := Node{Kind: head[0], Ok: head[1] == '1'}
		if body != "" {
			for _, fs := range strings.Split(body, ",") {
				p := strings.Split(fs, ".")
				if len(p) != 3 || p[2] == "" {
					return nil, false
				}
				num, err := strconv.Atoi(p[0])
				if err != nil || num < 0 {
					return nil, false
				}
				f := Field{Num: num, Base: p[2][0]}
				if p[1] != "-" {
					f.Wrap = p[1]
				}
				for _, c := range f.Wrap {
					if c != 'a' && c != 'm' && c != 'f' {
						return nil, false
					}
				}
				switch f.Base {
				case 's', 'x':
					if len(p[2]) != 1 {
						return nil, false
					}
				case 'r':
					r, err := strconv.Atoi(p[2][1:])
					if err != nil || r < 0 {
						return nil, false
					}
					f.Ref = r
				default:
					return nil, false
				}
				n.Fields = append(n.Fields, f)
			}
		}
		g = append(g, n)
	}
	return g, true
}

// ------------------------------------------------------------------ generator

// genGraph draws a descriptor graph: disjoint components, shared sub-schemas (several parents of
// one node), self and mutual recursion, enums, a few failing leaves.
func genGraph(rng *rand.Rand) (Graph, int) {
	chance := func(num, den int) bool { return rng.IntN(den) < num }
	n := 1 + rng.IntN(9)
	g := make(Graph, n)
	style := rng.IntN(5) // 0 dag-shared, 1 cyclic, 2 disjoint halves, 3/4 anything
	for i := range g {
		switch {
		case i > 0 && chance(1, 5):
			g[i] = Node{Kind: 'e', Ok: !chance(1, 12)}
		case chance(1, 6):
			g[i] = Node{Kind: 'n', Ok: true}
		default:
			g[i] = Node{Kind: 'o', Ok: true}
		}
	}
	g[0].Kind = 'o'
	bad := chance(1, 4)
	for i := range g {
		if g[i].Kind == 'e' {
			continue
		}
		nf := rng.IntN(5)
		if g[i].Kind == 'n' {
			nf = 1 + rng.IntN(3)
		}
		for k := 0; k < nf; k++ {
			f := Field{Num: k + 1, Base: 's'}
			pickRef := func() (int, bool) {
				for try := 0; try < 8; try++ {
					var t int
					switch style {
					case 0: // forward edges only, bias to the last nodes (shared leaves)
						if i+1 >= n {
							return 0, false
						}
						t = i + 1 + rng.IntN(n-i-1)
						if chance(1, 2) {
							t = n - 1 - rng.IntN(min(2, n-i-1))
						}
					case 1: // ring + back edges
						t = (i + 1) % n
						if chance(1, 3) {
							t = rng.IntN(i + 1)
						}
					case 2: // two disjoint halves
						half := (n + 1) / 2
						if i < half {
							t = rng.IntN(half)
						} else {
							t = half + rng.IntN(n-half)
						}
					default:
						t = rng.IntN(n)
					}
					if g[i].Kind == 'n' && g[t].Kind == 'e' {
						continue
					}
					return t, true
				}
				return 0, false
			}
			r := rng.IntN(10)
			switch {
			case bad && chance(1, 10):
				f.Base = 'x'
			case r < 6 || g[i].Kind == 'n':
				if t, ok := pickRef(); ok {
					f.Base, f.Ref = 'r', t
				}
			}
			if g[i].Kind == 'o' {
				switch rng.IntN(6) {
				case 0:
					f.Wrap = "a"
				case 1:
					f.Wrap = "m"
				}
			}
			g[i].Fields = append(g[i].Fields, f)
		}
	}
	return g, style
}

// genFlattenGraph draws object messages with flattened message fields (wrapper 'f', at most one
// per node so that no JSON name can appear twice): two messages that flatten each other, rings
// of flattens, a flattened child shared by several parents, chains; plus plain references.
func genFlattenGraph(rng *rand.Rand) Graph {
	n := 2 + rng.IntN(4)
	g := make(Graph, n)
	shape := rng.IntN(4) // 0 mutual pair (+ others), 1 ring, 2 shared child, 3 random
	for i := range g {
		g[i] = Node{Kind: 'o', Ok: true}
		for k := 0; k < 1+rng.IntN(2); k++ {
			g[i].Fields = append(g[i].Fields, Field{Num: k + 1, Base: 's'})
		}
		target := -1
		switch shape {
		case 0:
			if i < 2 {
				target = 1 - i
			} else if rng.IntN(2) == 0 {
				target = rng.IntN(2)
			}
		case 1:
			target = (i + 1) % n
		case 2:
			if i != n-1 {
				target = n - 1
			} else if rng.IntN(3) == 0 {
				target = rng.IntN(n - 1)
			}
		default:
			if rng.IntN(3) > 0 {
				target = rng.IntN(n)
			}
		}
		if target >= 0 && target != i {
			g[i].Fields = append(g[i].Fields, Field{Num: len(g[i].Fields) + 1, Wrap: "f", Base: 'r', Ref: target})
		}
		if rng.IntN(3) == 0 { // a plain (nested, array or map) reference as well
			w := []string{"", "a", "m"}[rng.IntN(3)]
			g[i].Fields = append(g[i].Fields, Field{Num: len(g[i].Fields) + 1, Wrap: w, Base: 'r', Ref: rng.IntN(n)})
		}
	}
	return g
}

// clientShape is what the codecs see of a schema: the client property list (flattened fields
// expanded) of the root and, below it, of every object it reaches, with JSON names and proto paths.
func clientShape(root j5schema.RootSchema) (out string) {
	defer func() {
		if r := recover(); r != nil {
			out = fmt.Sprintf("panic:%v", r)
		}
	}()
	seen := map[string]bool{}
	var obj func(r j5schema.RootSchema) string
	var field func(f j5schema.FieldSchema) string
	props := func(ps []*j5schema.ObjectProperty) string {
		parts := make([]string, 0, len(ps))
		for _, p := range ps {
			parts = append(parts, fmt.Sprintf("%s%v:%s", p.JSONName, p.ProtoField, field(p.Schema)))
		}
		return strings.Join(parts, ",")
	}
	field = func(f j5schema.FieldSchema) string {
		switch t := f.(type) {
		case *j5schema.ArrayField:
			return "a" + field(t.Schema)
		case *j5schema.MapField:
			return "m" + field(t.Schema)
		case *j5schema.ObjectField:
			if t.Ref == nil || isNilSchema(t.Ref.To) {
				return "!"
			}
			return obj(t.Ref.To)
		case *j5schema.OneofField:
			if t.Ref == nil || isNilSchema(t.Ref.To) {
				return "!"
			}
			return obj(t.Ref.To)
		case *j5schema.EnumField:
			return "e"
		}
		return "s"
	}
	obj = func(r j5schema.RootSchema) string {
		if seen[r.FullName()] {
			return "@" + r.FullName()
		}
		seen[r.FullName()] = true
		defer func() { seen[r.FullName()] = false }()
		switch t := r.(type) {
		case *j5schema.ObjectSchema:
			return "{" + props(t.ClientProperties()) + "}"
		case *j5schema.OneofSchema:
			return "<" + props(t.ClientProperties()) + ">"
		}
		return "?"
	}
	return obj(root)
}

// ------------------------------------------------------------------ graph -> real descriptors

var scalarTypes = []descriptorpb.FieldDescriptorProto_Type{
	descriptorpb.FieldDescriptorProto_TYPE_STRING, descriptorpb.FieldDescriptorProto_TYPE_INT64,
	descriptorpb.FieldDescriptorProto_TYPE_BOOL, descriptorpb.FieldDescriptorProto_TYPE_BYTES,
	descriptorpb.FieldDescriptorProto_TYPE_DOUBLE, descriptorpb.FieldDescriptorProto_TYPE_MESSAGE, // = Timestamp
}

// buildDescriptors turns the abstract graph into linked protobuf descriptors (package g.v1;
// nodes without references live in package gl.v1 when `split` so that refs cross packages).
func buildDescriptors(g Graph, split bool) ([]protoreflect.Descriptor, map[string]int, error) {
	leaf := make([]bool, len(g))
	for i, n := range g {
		leaf[i] = split && i%2 == 1
		for _, f := range n.Fields {
			if f.Base == 'r' {
				leaf[i] = false
			}
		}
	}
	pkgOf := func(i int) string {
		if leaf[i] {
			return "gl.v1"
		}
		return "g.v1"
	}
	nameOf := func(i int) string {
		if g[i].Kind == 'e' {
			return "E" + strconv.Itoa(i)
		}
		return "N" + strconv.Itoa(i)
	}
	files := map[string]*descriptorpb.FileDescriptorProto{
		"g.v1": {Name: proto.String("g/v1/g.proto"), Package: proto.String("g.v1"), Syntax: proto.String("proto3"),
			Dependency: []string{"google/protobuf/timestamp.proto", "google/protobuf/field_mask.proto", "gl/v1/gl.proto"}},
		"gl.v1": {Name: proto.String("gl/v1/gl.proto"), Package: proto.String("gl.v1"), Syntax: proto.String("proto3"),
			Dependency: []string{"google/protobuf/timestamp.proto", "google/protobuf/field_mask.proto"}},
	}
	index := map[string]int{}
	for i, n := range g {
		fdp := files[pkgOf(i)]
		index[pkgOf(i)+"."+nameOf(i)] = i
		if n.Kind == 'e' {
			zero := "E" + strconv.Itoa(i) + "_UNSPECIFIED"
			if !n.Ok {
				zero = "E" + strconv.Itoa(i) + "_ZERO"
			}
			fdp.EnumType = append(fdp.EnumType, &descriptorpb.EnumDescriptorProto{
				Name: proto.String(nameOf(i)),
				Value: []*descriptorpb.EnumValueDescriptorProto{
					{Name: proto.String(zero), Number: proto.Int32(0)},
					{Name: proto.String("E" + strconv.Itoa(i) + "_A"), Number: proto.Int32(1)},
				},
			})
			continue
		}
		m := &descriptorpb.DescriptorProto{Name: proto.String(nameOf(i))}
		if n.Kind == 'n' {
			m.OneofDecl = []*descriptorpb.OneofDescriptorProto{{Name: proto.String("type")}}
		}
		seen := map[int]bool{}
		for _, f := range n.Fields {
			if f.Num <= 0 || seen[f.Num] || len(f.Wrap) > 1 {
				return nil, nil, fmt.Errorf("graph not expressible: field number / wrapper")
			}
			seen[f.Num] = true
			// unique over the whole graph: a flattened child's properties appear among its parent's
			fname := "n" + strconv.Itoa(i) + "f" + strconv.Itoa(f.Num)
			fd := &descriptorpb.FieldDescriptorProto{Name: proto.String(fname), Number: proto.Int32(int32(f.Num)),
				JsonName: proto.String(fname), Label: descriptorpb.FieldDescriptorProto_LABEL_OPTIONAL.Enum()}
			badKey := false
			switch f.Base {
			case 's':
				t := scalarTypes[(i+f.Num)%len(scalarTypes)]
				if n.Kind == 'n' {
					t = descriptorpb.FieldDescriptorProto_TYPE_MESSAGE
				}
				fd.Type = t.Enum()
				if t == descriptorpb.FieldDescriptorProto_TYPE_MESSAGE {
					fd.TypeName = proto.String(".google.protobuf.Timestamp")
				}
			case 'x':
				if f.Wrap == "m" && f.Num%2 == 0 {
					badKey = true // map<int32,string>: "map keys must be strings for J5"
					fd.Type = descriptorpb.FieldDescriptorProto_TYPE_STRING.Enum()
				} else {
					fd.Type = descriptorpb.FieldDescriptorProto_TYPE_MESSAGE.Enum()
					fd.TypeName = proto.String(".google.protobuf.FieldMask")
				}
			case 'r':
				if f.Ref >= len(g) {
					return nil, nil, fmt.Errorf("graph not expressible: dangling ref")
				}
				if g[f.Ref].Kind == 'e' {
					fd.Type = descriptorpb.FieldDescriptorProto_TYPE_ENUM.Enum()
				} else {
					fd.Type = descriptorpb.FieldDescriptorProto_TYPE_MESSAGE.Enum()
				}
				fd.TypeName = proto.String("." + pkgOf(f.Ref) + "." + nameOf(f.Ref))
			}
			if n.Kind == 'n' {
				if f.Wrap != "" || fd.GetType() != descriptorpb.FieldDescriptorProto_TYPE_MESSAGE {
					return nil, nil, fmt.Errorf("graph not expressible: oneof wrapper member")
				}
				fd.OneofIndex = proto.Int32(0)
			}
			switch f.Wrap {
			case "f": // (j5.ext.v1.field).message.flatten = true
				if f.Base != 'r' || g[f.Ref].Kind != 'o' || n.Kind != 'o' {
					return nil, nil, fmt.Errorf("graph not expressible: flatten of a non-object")
				}
				opts := &descriptorpb.FieldOptions{}
				proto.SetExtension(opts, ext_j5pb.E_Field, &ext_j5pb.FieldOptions{
					Type: &ext_j5pb.FieldOptions_Message{Message: &ext_j5pb.MessageFieldOptions{Flatten: true}}})
				fd.Options = opts
			case "a":
				fd.Label = descriptorpb.FieldDescriptorProto_LABEL_REPEATED.Enum()
			case "m":
				entry := "N" + strconv.Itoa(i) + "f" + strconv.Itoa(f.Num) + "Entry" // CamelCase(field name) + "Entry"
				key := &descriptorpb.FieldDescriptorProto{Name: proto.String("key"), Number: proto.Int32(1), JsonName: proto.String("key"),
					Label: descriptorpb.FieldDescriptorProto_LABEL_OPTIONAL.Enum(), Type: descriptorpb.FieldDescriptorProto_TYPE_STRING.Enum()}
				if badKey {
					key.Type = descriptorpb.FieldDescriptorProto_TYPE_INT32.Enum()
				}
				val := &descriptorpb.FieldDescriptorProto{Name: proto.String("value"), Number: proto.Int32(2), JsonName: proto.String("value"),
					Label: descriptorpb.FieldDescriptorProto_LABEL_OPTIONAL.Enum(), Type: fd.Type, TypeName: fd.TypeName}
				m.NestedType = append(m.NestedType, &descriptorpb.DescriptorProto{Name: proto.String(entry),
					Field: []*descriptorpb.FieldDescriptorProto{key, val}, Options: &descriptorpb.MessageOptions{MapEntry: proto.Bool(true)}})
				fd.Label = descriptorpb.FieldDescriptorProto_LABEL_REPEATED.Enum()
				fd.Type = descriptorpb.FieldDescriptorProto_TYPE_MESSAGE.Enum()
				fd.TypeName = proto.String("." + pkgOf(i) + "." + nameOf(i) + "." + entry)
			}
			m.Field = append(m.Field, fd)
		}
		if n.Kind == 'n' && len(m.Field) == 0 {
			return nil, nil, fmt.Errorf("graph not expressible: empty oneof wrapper")
		}
		fdp.MessageType = append(fdp.MessageType, m)
	}
	reg := &protoregistry.Files{}
	for _, p := range []string{"google/protobuf/timestamp.proto", "google/protobuf/field_mask.proto"} {
		fd, err := protoregistry.GlobalFiles.FindFileByPath(p)
		if err != nil {
			return nil, nil, err
		}
		if err := reg.RegisterFile(fd); err != nil {
			return nil, nil, err
		}
	}
	built := map[string]protoreflect.FileDescriptor{}
	for _, k := range []string{"gl.v1", "g.v1"} {
		fd, err := protodesc.NewFile(files[k], reg)
		if err != nil {
			return nil, nil, err
		}
		if err := reg.RegisterFile(fd); err != nil {
			return nil, nil, err
		}
		built[k] = fd
	}
	out := make([]protoreflect.Descriptor, len(g))
	for i, n := range g {
		fd := built[pkgOf(i)]
		if n.Kind == 'e' {
			out[i] = fd.Enums().ByName(protoreflect.Name(nameOf(i)))
		} else {
			out[i] = fd.Messages().ByName(protoreflect.Name(nameOf(i)))
		}
		if out[i] == nil {
			return nil, nil, fmt.Errorf("descriptor %d missing", i)
		}
	}
	return out, index, nil
}

// ------------------------------------------------------------------ real descriptors -> graph

var wktScalar = map[string]bool{
	"google.protobuf.Timestamp": true, "google.protobuf.Duration": true, "j5.types.date.v1.Date": true,
	"j5.types.decimal.v1.Decimal": true, "j5.types.any.v1.Any": true, "google.protobuf.Any": true,
}

func schemaKey(d protoreflect.Descriptor) string {
	var path []string
	cur := d
	for {
		path = append([]string{string(cur.Name())}, path...)
		if pf, ok := cur.Parent().(protoreflect.FileDescriptor); ok {
			return string(pf.Package()) + "." + strings.Join(path, "_")
		}
		cur = cur.Parent()
	}
}

type translator struct {
	g     Graph
	names []string // full descriptor name; exposed oneof of message M: "M#oneof"
	index map[string]int
	descs []protoreflect.Descriptor
	todo  []int
}

func (t *translator) id(d protoreflect.Descriptor, name string) int {
	if i, ok := t.index[name]; ok {
		return i
	}
	i := len(t.g)
	t.index[name] = i
	t.g = append(t.g, Node{})
	t.names = append(t.names, name)
	t.descs = append(t.descs, d)
	t.todo = append(t.todo, i)
	return i
}

func (t *translator) classify(fd protoreflect.FieldDescriptor, elem bool) Field {
	f := Field{Num: int(fd.Number()), Base: 's'}
	if !elem && fd.IsList() {
		in := t.classify(fd, true)
		in.Wrap = "a" + in.Wrap
		return in
	}
	if !elem && fd.IsMap() {
		if fd.MapKey().Kind() != protoreflect.StringKind {
			f.Base = 'x'
			return f
		}
		in := t.classify(fd.MapValue(), true)
		in.Num = int(fd.Number())
		if in.Base != 'x' {
			in.Wrap = "m" + in.Wrap
		}
		return in
	}
	switch fd.Kind() {
	case protoreflect.MessageKind:
		full := string(fd.Message().FullName())
		switch {
		case full == "google.protobuf.Struct":
			f.Wrap = "m"
		case wktScalar[full]:
		case strings.HasPrefix(full, "google.protobuf."):
			f.Base = 'x'
		default:
			f.Base, f.Ref = 'r', t.id(fd.Message(), full)
		}
	case protoreflect.EnumKind:
		f.Base, f.Ref = 'r', t.id(fd.Enum(), string(fd.Enum().FullName()))
	case protoreflect.GroupKind:
		f.Base = 'x'
	}
	return f
}

// translate computes the abstract graph of the closure of the given message descriptors. An
// exposed oneof becomes a node of its own (kind 'n') referenced from a pseudo field 0 placed
// where its first member stands (see PROTOCOL-conc.md for why this is unobservable).
func translate(roots []protoreflect.MessageDescriptor) *translator {
	t := &translator{index: map[string]int{}}
	for _, r := range roots {
		t.id(r, string(r.FullName()))
	}
	for len(t.todo) > 0 {
		i := t.todo[0]
		t.todo = t.todo[1:]
		switch d := t.descs[i].(type) {
		case protoreflect.EnumDescriptor:
			t.g[i] = Node{Kind: 'e', Ok: strings.HasSuffix(string(d.Values().Get(0).Name()), "UNSPECIFIED")}
		case protoreflect.OneofDescriptor:
			n := Node{Kind: 'n', Ok: true}
			for k := 0; k < d.Fields().Len(); k++ {
				n.Fields = append(n.Fields, t.classify(d.Fields().Get(k), false))
			}
			t.g[i] = n
		case protoreflect.MessageDescriptor:
			n := Node{Kind: 'o', Ok: true}
			if j5schema.IsOneofWrapper(d) {
				n.Kind = 'n'
			}
			exposed := map[string]int{}
			for k := 0; k < d.Oneofs().Len(); k++ {
				o := d.Oneofs().Get(k)
				if o.IsSynthetic() {
					continue
				}
				ext, _ := proto.GetExtension(o.Options(), ext_j5pb.E_Oneof).(*ext_j5pb.OneofOptions)
				if ext != nil && ext.Expose {
					exposed[string(o.Name())] = -1
				}
			}
			for k := 0; k < d.Fields().Len(); k++ {
				fd := d.Fields().Get(k)
				if o := fd.ContainingOneof(); o != nil && !o.IsSynthetic() {
					if at, ok := exposed[string(o.Name())]; ok {
						if at == -1 {
							oi := t.id(o, string(d.FullName())+"#"+string(o.Name()))
							exposed[string(o.Name())] = oi
							n.Fields = append(n.Fields, Field{Num: 0, Base: 'r', Ref: oi})
						}
						// the member is processed by the parent's loop: references it introduces are
						// registered there; the node of the oneof lists them again
						continue
					}
				}
				n.Fields = append(n.Fields, t.classify(fd, false))
			}
			t.g[i] = n
		}
	}
	return t
}

func (t *translator) keyIndex() map[string]int {
	m := map[string]int{}
	for i, d := range t.descs {
		m[schemaKey(d)] = i
	}
	return m
}

// ------------------------------------------------------------------ canonical dump of a schema

func isNilSchema(r j5schema.RootSchema) bool {
	if r == nil {
		return true
	}
	v := reflect.ValueOf(r)
	return v.Kind() == reflect.Ptr && v.IsNil()
}

type dumper struct {
	index map[string]int
	seen  map[int]string
	err   string
}

func (d *dumper) ref(r *j5schema.RefSchema, kind string) string {
	if r == nil {
		d.err = "nil-ref"
		return "?"
	}
	i, ok := d.index[r.FullName()]
	if !ok {
		d.err = "unknown-ref:" + r.FullName()
		return "?"
	}
	if isNilSchema(r.To) {
		return "!" + strconv.Itoa(i)
	}
	d.root(i, r.To)
	return kind + strconv.Itoa(i)
}

func (d *dumper) shape(f j5schema.FieldSchema) string {
	switch t := f.(type) {
	case *j5schema.ArrayField:
		return "a" + d.shape(t.Schema)
	case *j5schema.MapField:
		return "m" + d.shape(t.Schema)
	case *j5schema.ObjectField:
		return d.ref(t.Ref, "o")
	case *j5schema.OneofField:
		return d.ref(t.Ref, "n")
	case *j5schema.EnumField:
		return d.ref(t.Ref, "e")
	default:
		return "s"
	}
}

func (d *dumper) props(ps []*j5schema.ObjectProperty) string {
	parts := make([]string, 0, len(ps))
	for _, p := range ps {
		num := 0
		if len(p.ProtoField) > 0 {
			num = int(p.ProtoField[0])
		}
		parts = append(parts, strconv.Itoa(num)+":"+d.shape(p.Schema))
	}
	return strings.Join(parts, ",")
}

func (d *dumper) root(i int, r j5schema.RootSchema) {
	if _, ok := d.seen[i]; ok {
		return
	}
	d.seen[i] = ""
	switch t := r.(type) {
	case *j5schema.ObjectSchema:
		d.seen[i] = "o(" + d.props(t.Properties) + ")"
	case *j5schema.OneofSchema:
		d.seen[i] = "n(" + d.props(t.Properties) + ")"
	case *j5schema.EnumSchema:
		d.seen[i] = "e()"
	default:
		d.err = fmt.Sprintf("unexpected-root:%T", r)
	}
}

// dumpSchema prints every schema reachable from the root: "<i>=<kind>(<num>:<shape>,…);…" sorted
// by node index; an unlinked reference prints as "!<i>".
func dumpSchema(index map[string]int, root j5schema.RootSchema) (string, string) {
	d := &dumper{index: index, seen: map[int]string{}}
	if isNilSchema(root) {
		return "", "nil-schema"
	}
	i, ok := index[root.FullName()]
	if !ok {
		return "", "unknown-root:" + root.FullName()
	}
	d.root(i, root)
	ids := make([]int, 0, len(d.seen))
	for k := range d.seen {
		ids = append(ids, k)
	}
	sort.Ints(ids)
	parts := make([]string, 0, len(ids))
	for _, k := range ids {
		parts = append(parts, strconv.Itoa(k)+"="+d.seen[k])
	}
	return strconv.Itoa(i) + " " + strings.Join(parts, ";"), d.err
}
