//go:build verif

// conch: harness for property C10 (shared codecs and schema caches are safe for concurrent use).
//
//	(default)            stream conc.seq  — SchemaCache run sequentially against the Lean cache model
//	CONCH_MODE=race      stream conc.race — SEARCH: each op starts a child process built with -race
//	                     that hammers one shared codec from N goroutines; the parent parses the
//	                     race detector's report, crashes, deadlocks and differing results
//	conch child …        the child of conc.race
package main

import (
	"os"

	"github.com/pentops/j5/internal/verifh/vh"
)

func main() {
	if len(os.Args) > 1 && os.Args[1] == "child" {
		childMain(os.Args[2:])
		return
	}
	if os.Getenv("CONCH_MODE") == "race" {
		vh.Main("conc.race", &raceImpl{})
		return
	}
	vh.Main("conc.seq", seqImpl{})
}
