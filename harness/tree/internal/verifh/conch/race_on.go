//go:build verif && race

package main

const raceEnabled = true
