//go:build verif

package main

import (
	"fmt"
	"os"
	"runtime/pprof"
	"strconv"
	"strings"
	"time"

	"github.com/pentops/j5/gen/j5/client/v1/client_j5pb"
	"github.com/pentops/j5/gen/j5/schema/v1/schema_j5pb"
	"github.com/pentops/j5/gen/j5/source/v1/source_j5pb"
	"github.com/pentops/j5/gen/test/foo/v1/foo_testpb"
	"github.com/pentops/j5/gen/test/foo/v1/foo_testspb"
	"github.com/pentops/j5/gen/test/schema/v1/schema_testpb"
	"github.com/pentops/j5/internal/verifh/vh"
	"github.com/pentops/j5/lib/j5schema"
	"google.golang.org/protobuf/proto"
	"google.golang.org/protobuf/reflect/protoreflect"
	"google.golang.org/protobuf/reflect/protoregistry"
)

// Stream conc.seq: the SchemaCache algorithm, run sequentially, against the Lean cache model.
//
//	seq  <graph> <reqs>            generated descriptor graph, built with protodesc
//	real <names> <graph> <reqs>    closure of compiled-in message types; <graph> is its translation
//
// result: one item per request ("ok <root> <dump>" | "err"), then the registered keys.
type seqImpl struct{}

var realRoots = []proto.Message{
	&schema_testpb.FullSchema{}, &schema_testpb.WrappedOneof{}, &schema_testpb.ImplicitOneof{}, &schema_testpb.NestedExposed{},
	&schema_testpb.Bar{}, &schema_testpb.Baz{}, &schema_testpb.FlattenedMessage{},
	&foo_testpb.FooState{}, &foo_testpb.FooEvent{}, &foo_testpb.FooKeys{}, &foo_testpb.Bar{},
	&foo_testspb.GetFooRequest{}, &foo_testspb.GetFooResponse{}, &foo_testspb.ListFoosRequest{}, &foo_testspb.ListFoosResponse{},
	&foo_testspb.ListFooEventsResponse{}, &foo_testspb.PostFooRequest{},
	&schema_j5pb.RootSchema{}, &schema_j5pb.Field{}, &schema_j5pb.Object{}, &schema_j5pb.ObjectProperty{}, &schema_j5pb.Oneof{},
	&schema_j5pb.Enum{}, &schema_j5pb.ArrayField{}, &schema_j5pb.MapField{}, &schema_j5pb.Ref{},
	&client_j5pb.API{}, &client_j5pb.Package{}, &client_j5pb.Method{}, &source_j5pb.API{}, &source_j5pb.Package{},
}

func (seqImpl) Gen(h *vh.H, i int) string {
	if i%16 == 5 {
		h.Count("op.clash")
		return genClash(h)
	}
	if i%8 == 1 {
		// flattened message fields: the client property lists are part of the fresh-cache oracle
		h.Count("op.flatten")
		g := genFlattenGraph(h.Rng)
		var reqs []string
		for j := 0; j < 2+h.Rng.IntN(5); j++ {
			reqs = append(reqs, strconv.Itoa(h.Rng.IntN(len(g))))
		}
		return "seq " + g.String() + " " + strings.Join(reqs, ",")
	}
	if i%4 == 3 {
		// compiled-in types: a random subset of roots in random order, with repeats
		k := 1 + h.Rng.IntN(4)
		var roots []protoreflect.MessageDescriptor
		for j := 0; j < k; j++ {
			roots = append(roots, vh.Pick(h, realRoots).ProtoReflect().Descriptor())
		}
		t := translate(roots)
		var reqs []string
		for j := 0; j < 1+h.Rng.IntN(6); j++ {
			// mostly the roots, sometimes any message of the closure
			r := h.Rng.IntN(len(t.g))
			if h.Chance(2, 3) {
				r = t.index[string(vh.Pick(h, roots).FullName())]
			}
			if _, ok := t.descs[r].(protoreflect.MessageDescriptor); ok {
				reqs = append(reqs, strconv.Itoa(r))
			}
		}
		if len(reqs) == 0 {
			reqs = []string{"0"}
		}
		return "real " + strings.Join(t.names, ",") + " " + t.g.String() + " " + strings.Join(reqs, ",")
	}
	g, style := genGraph(h.Rng)
	h.Count("graph.style." + strconv.Itoa(style))
	var reqs []string
	for j := 0; j < 1+h.Rng.IntN(8); j++ {
		r := h.Rng.IntN(len(g))
		if g[r].Kind != 'e' {
			reqs = append(reqs, strconv.Itoa(r))
		}
	}
	if len(reqs) == 0 {
		reqs = []string{"0"}
	}
	return "seq " + g.String() + " " + strings.Join(reqs, ",")
}

func resolveReal(names []string) ([]protoreflect.Descriptor, bool) {
	out := make([]protoreflect.Descriptor, len(names))
	for i, n := range names {
		msg, oneof, isOneof := strings.Cut(n, "#")
		d, err := protoregistry.GlobalFiles.FindDescriptorByName(protoreflect.FullName(msg))
		if err != nil {
			return nil, false
		}
		if isOneof {
			md, ok := d.(protoreflect.MessageDescriptor)
			if !ok || md.Oneofs().ByName(protoreflect.Name(oneof)) == nil {
				return nil, false
			}
			d = md.Oneofs().ByName(protoreflect.Name(oneof))
		}
		out[i] = d
	}
	return out, true
}

// Exec runs the op under a watchdog: a nested acquisition of the cache's mutex blocks the calling
// goroutine for ever (the runtime's own deadlock detector does not fire while other goroutines
// exist). The process then exits; with -flush the engine attributes the op without a result.
func (s seqImpl) Exec(h *vh.H, op string) string {
	done := make(chan string, 1)
	go func() { done <- h.Guard(op, func() string { return s.exec(h, op) }) }()
	for ext := 0; ; ext++ {
		select {
		case res := <-done:
			return res
		case <-time.After(120 * time.Second):
			// stuck = nobody can run. On an overloaded machine (load average > 200 seen) an op can sit out
			// the watchdog while its goroutine is running or runnable (seen: inside dumpSchema): slow, not
			// stuck; it gets up to six more periods (same rule as the child of conc.race, `runnableOthers`)
			if ext < 6 && runnableOthers() > 0 {
				h.Count("seq.slow-extension")
				continue
			}
			fmt.Fprintf(os.Stderr, "DEADLOCK: op did not return within %d s: %s\n", 120*(ext+1), op)
			_ = pprof.Lookup("goroutine").WriteTo(os.Stderr, 1)
			os.Exit(3)
			return "deadlock"
		}
	}
}

func (seqImpl) exec(h *vh.H, op string) string {
	parts := strings.Split(op, " ")
	var g Graph
	var descs []protoreflect.Descriptor
	var index map[string]int
	var reqStr string
	switch {
	case len(parts) == 3 && parts[0] == "clash":
		return execClash(h, op, parts[1], parts[2])
	case len(parts) == 3 && parts[0] == "seq":
		var ok bool
		if g, ok = parseGraph(parts[1]); !ok {
			return "bad-op"
		}
		var err error
		descs, index, err = buildDescriptors(g, len(g)%2 == 0)
		if err != nil {
			if os.Getenv("CONCH_DEBUG") != "" {
				fmt.Fprintln(os.Stderr, "buildDescriptors:", err)
			}
			return "bad-op"
		}
		reqStr = parts[2]
	case len(parts) == 4 && parts[0] == "real":
		var ok bool
		if g, ok = parseGraph(parts[2]); !ok {
			return "bad-op"
		}
		names := strings.Split(parts[1], ",")
		if len(names) != len(g) {
			return "bad-op"
		}
		if descs, ok = resolveReal(names); !ok {
			return "stale-op"
		}
		// the graph in the op must be the translation of today's descriptors
		var roots []protoreflect.MessageDescriptor
		for _, d := range descs {
			if md, ok := d.(protoreflect.MessageDescriptor); ok {
				roots = append(roots, md)
			}
		}
		t := translate(roots)
		index = map[string]int{}
		for i, n := range names {
			j, ok := t.index[n]
			if !ok || nodeString(t.g[j]) != nodeString(remap(t, names, g[i])) {
				return "stale-op"
			}
			index[schemaKey(descs[i])] = i
		}
		reqStr = parts[3]
	default:
		return "bad-op"
	}
	var reqs []int
	for _, r := range strings.Split(reqStr, ",") {
		n, err := strconv.Atoi(r)
		if err != nil || n < 0 || n >= len(g) {
			return "bad-op"
		}
		if _, ok := descs[n].(protoreflect.MessageDescriptor); !ok {
			return "bad-op"
		}
		reqs = append(reqs, n)
	}

	cyclic, shared, failing := graphTraits(g)
	if strings.Contains(parts[1], ".f.") {
		h.Count("graph.has-flatten")
	}
	if cyclic {
		h.Count("graph.cyclic")
	}
	if shared {
		h.Count("graph.shared-subschema")
	}
	if failing {
		h.Count("graph.has-failing-node")
	}
	h.Count("reqs." + strconv.Itoa(min(len(reqs), 8)))

	// the answer (compared with the model) and what the codecs see of it: the client property lists
	// with flattened fields expanded (compared with a fresh cache only)
	ask := func(sc *j5schema.SchemaCache, n int) (string, string) {
		root, err := sc.Schema(descs[n].(protoreflect.MessageDescriptor))
		if err != nil {
			return "err", ""
		}
		dump, derr := dumpSchema(index, root)
		if derr != "" {
			h.Fail("cache-bad-schema:"+strings.SplitN(derr, ":", 2)[0], op, fmt.Sprintf("request %d: %s", n, derr))
			return "ok ?" + derr, ""
		}
		return "ok " + dump, clientShape(root)
	}

	cache := j5schema.NewSchemaCache()
	var out []string
	warm := false
	for k, n := range reqs {
		res, shape := ask(cache, n)
		alone, shapeAlone := ask(j5schema.NewSchemaCache(), n)
		if res == alone && shape != shapeAlone {
			h.Fail("cache-history:client-properties-differ", op, fmt.Sprintf("request #%d (node %d): client properties on the warm cache: %s; alone: %s", k, n, shape, shapeAlone))
		}
		if res != alone {
			// the property: a call returns what it returns when run alone, whatever was cached before
			sig := "cache-history:dump-differs"
			switch {
			case alone == "err":
				sig = "cache-history:ok-after-failed-build"
			case res == "err":
				sig = "cache-history:err-on-warm-cache"
			case strings.Contains(res, "!"):
				sig = "cache-history:unlinked-ref-in-result"
			}
			h.Fail(sig, op, fmt.Sprintf("request #%d (node %d) on the warm cache: %s; alone: %s", k, n, res, alone))
		}
		if strings.Contains(res, "!") {
			h.Fail("unlinked-ref-observed", op, fmt.Sprintf("request #%d (node %d): %s", k, n, res))
		}
		if k > 0 {
			warm = true
		}
		h.Count("result." + res[:2])
		out = append(out, res)
	}
	keys, linked := cache.VerifCacheKeys()
	ks := make([]string, len(g))
	for i, k := range keys {
		j, ok := index[k]
		if !ok {
			h.Fail("cache-unknown-key", op, k)
			continue
		}
		if linked[i] {
			ks[j] = "+"
		} else {
			ks[j] = "-"
			h.Fail("placeholder-left-in-cache", op, "after the requests "+reqStr+" the cache holds an unlinked ref for node "+strconv.Itoa(j))
		}
	}
	var kl []string
	for j, s := range ks {
		if s != "" {
			kl = append(kl, strconv.Itoa(j)+s)
		}
	}
	if warm && (cyclic || shared || failing) {
		h.Nontrivial(op)
	}
	return strings.Join(out, " | ") + " | keys " + strings.Join(kl, " ")
}

// remap rewrites the references of a node of the op's graph (indices of the op) into the indices
// of a fresh translation, so that the two can be compared.
func remap(t *translator, names []string, n Node) Node {
	out := Node{Kind: n.Kind, Ok: n.Ok}
	for _, f := range n.Fields {
		if f.Base == 'r' && f.Ref < len(names) {
			f.Ref = t.index[names[f.Ref]]
		}
		out.Fields = append(out.Fields, f)
	}
	return out
}

func graphTraits(g Graph) (cyclic, shared, failing bool) {
	indeg := make([]int, len(g))
	for _, n := range g {
		seen := map[int]bool{}
		for _, f := range n.Fields {
			if f.Base == 'x' {
				failing = true
			}
			if f.Base == 'r' && f.Ref < len(g) && !seen[f.Ref] {
				seen[f.Ref] = true
				indeg[f.Ref]++
			}
		}
		if n.Kind == 'e' && !n.Ok {
			failing = true
		}
	}
	for _, d := range indeg {
		if d > 1 {
			shared = true
		}
	}
	state := make([]int, len(g))
	var visit func(i int)
	visit = func(i int) {
		state[i] = 1
		for _, f := range g[i].Fields {
			if f.Base != 'r' || f.Ref >= len(g) {
				continue
			}
			switch state[f.Ref] {
			case 0:
				visit(f.Ref)
			case 1:
				cyclic = true
			}
		}
		state[i] = 2
	}
	for i := range g {
		if state[i] == 0 {
			visit(i)
		}
	}
	return
}
