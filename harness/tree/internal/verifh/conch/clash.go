//go:build verif

package main

import (
	"fmt"
	"strconv"
	"strings"

	"github.com/pentops/j5/internal/verifh/vh"
	"github.com/pentops/j5/lib/j5schema"
	"google.golang.org/protobuf/proto"
	"google.golang.org/protobuf/reflect/protodesc"
	"google.golang.org/protobuf/reflect/protoreflect"
	"google.golang.org/protobuf/reflect/protoregistry"
	"google.golang.org/protobuf/types/descriptorpb"
)

// The schema-name collision family (splitDescriptorName joins nested names with '_'):
//
//	variant m                                   variant e
//	0 message Foo { message Bar{…} Bar b=1; }   0 message Foo { enum E{…} E x=1; }
//	1 Foo.Bar  (schema name Foo_Bar)            1 (the nested enum: not requestable)
//	2 message Foo_Bar { string t=1; }           2 message Foo_E { string t=1; }
//	3 message Holder { Foo_Bar fb=1; … }        3 message Holder { Foo_E fe=1; … }
//	4 message Other { string o=1; }             4, 5 as in m
//	5 message Other2 { Other x=1; }
//
// Requests 0 and 1 need the colliding name for the nested descriptor, 2 and 3 for the top-level
// one; whoever comes first owns it, the other side is a schema error from then on.
func buildClash(variant string) ([]protoreflect.MessageDescriptor, error) {
	str := func(name string, num int32) *descriptorpb.FieldDescriptorProto {
		return &descriptorpb.FieldDescriptorProto{Name: proto.String(name), Number: proto.Int32(num), JsonName: proto.String(name),
			Label: descriptorpb.FieldDescriptorProto_LABEL_OPTIONAL.Enum(), Type: descriptorpb.FieldDescriptorProto_TYPE_STRING.Enum()}
	}
	msg := func(name string, num int32, typ string) *descriptorpb.FieldDescriptorProto {
		return &descriptorpb.FieldDescriptorProto{Name: proto.String(name), Number: proto.Int32(num), JsonName: proto.String(name),
			Label: descriptorpb.FieldDescriptorProto_LABEL_OPTIONAL.Enum(), Type: descriptorpb.FieldDescriptorProto_TYPE_MESSAGE.Enum(), TypeName: proto.String(typ)}
	}
	foo := &descriptorpb.DescriptorProto{Name: proto.String("Foo")}
	top := "Foo_Bar"
	switch variant {
	case "m":
		foo.NestedType = []*descriptorpb.DescriptorProto{{Name: proto.String("Bar"), Field: []*descriptorpb.FieldDescriptorProto{str("s", 1)}}}
		foo.Field = []*descriptorpb.FieldDescriptorProto{msg("b", 1, ".c.v1.Foo.Bar")}
	case "e":
		top = "Foo_E"
		foo.EnumType = []*descriptorpb.EnumDescriptorProto{{Name: proto.String("E"), Value: []*descriptorpb.EnumValueDescriptorProto{
			{Name: proto.String("E_UNSPECIFIED"), Number: proto.Int32(0)}, {Name: proto.String("E_A"), Number: proto.Int32(1)}}}}
		foo.Field = []*descriptorpb.FieldDescriptorProto{{Name: proto.String("x"), Number: proto.Int32(1), JsonName: proto.String("x"),
			Label: descriptorpb.FieldDescriptorProto_LABEL_OPTIONAL.Enum(), Type: descriptorpb.FieldDescriptorProto_TYPE_ENUM.Enum(), TypeName: proto.String(".c.v1.Foo.E")}}
	default:
		return nil, fmt.Errorf("variant")
	}
	file := &descriptorpb.FileDescriptorProto{Name: proto.String("c/v1/c.proto"), Package: proto.String("c.v1"), Syntax: proto.String("proto3"),
		MessageType: []*descriptorpb.DescriptorProto{
			foo,
			{Name: proto.String(top), Field: []*descriptorpb.FieldDescriptorProto{str("t", 1)}},
			{Name: proto.String("Holder"), Field: []*descriptorpb.FieldDescriptorProto{msg("held", 1, ".c.v1."+top), str("h", 2)}},
			{Name: proto.String("Other"), Field: []*descriptorpb.FieldDescriptorProto{str("o", 1)}},
			{Name: proto.String("Other2"), Field: []*descriptorpb.FieldDescriptorProto{msg("x", 1, ".c.v1.Other")}},
		}}
	fd, err := protodesc.NewFile(file, &protoregistry.Files{})
	if err != nil {
		return nil, err
	}
	ms := fd.Messages()
	out := []protoreflect.MessageDescriptor{ms.ByName("Foo"), nil, ms.ByName(protoreflect.Name(top)), ms.ByName("Holder"), ms.ByName("Other"), ms.ByName("Other2")}
	if variant == "m" {
		out[1] = ms.ByName("Foo").Messages().ByName("Bar")
	}
	return out, nil
}

// cache keys of the family: model index of "c.v1.<schema name>"
func clashKeyIndex(variant string) map[string]int {
	k := "c.v1.Foo_Bar"
	if variant == "e" {
		k = "c.v1.Foo_E"
	}
	return map[string]int{"c.v1.Foo": 0, k: 1, "c.v1.Holder": 2, "c.v1.Other": 3, "c.v1.Other2": 4}
}

func genClash(h *vh.H) string {
	variant := "m"
	if h.Chance(1, 3) {
		variant = "e"
	}
	pool := []int{0, 1, 2, 3, 4, 5}
	if variant == "e" {
		pool = []int{0, 2, 3, 4, 5}
	}
	var reqs []string
	if h.Chance(1, 2) {
		// the interesting order: one side warm, the other side's clash error, then something new
		a, b := []int{0, 1}, []int{2, 3}
		if variant == "e" {
			a = []int{0}
		}
		if h.Chance(1, 2) {
			a, b = b, a
		}
		reqs = append(reqs, strconv.Itoa(vh.Pick(h, a)), strconv.Itoa(vh.Pick(h, b)))
	}
	for k := 0; k < 1+h.Rng.IntN(4); k++ {
		reqs = append(reqs, strconv.Itoa(vh.Pick(h, pool)))
	}
	return "clash " + variant + " " + strings.Join(reqs, ",")
}

func execClash(h *vh.H, op string, variant, reqStr string) string {
	descs, err := buildClash(variant)
	if err != nil {
		return "bad-op"
	}
	var reqs []int
	for _, r := range strings.Split(reqStr, ",") {
		n, err := strconv.Atoi(r)
		if err != nil || n < 0 || n >= len(descs) || descs[n] == nil {
			return "bad-op"
		}
		reqs = append(reqs, n)
	}
	ask := func(sc *j5schema.SchemaCache, n int) (string, string) {
		root, err := sc.Schema(descs[n])
		if err != nil {
			return "err", err.Error()
		}
		if isNilSchema(root) {
			return "ok ?nil", ""
		}
		return "ok", ""
	}
	cache := j5schema.NewSchemaCache()
	var out []string
	sides := [2]bool{}
	for k, n := range reqs {
		res, text := ask(cache, n)
		alone, _ := ask(j5schema.NewSchemaCache(), n)
		if res != alone {
			sig := "cache-history:clash-family"
			if res == "err" && strings.Contains(text, "is used by both") {
				// the recorded finding: which of two descriptors with one schema name works on a shared
				// cache depends on which was used first
				sig = "cache-history:schema-name-clash"
			}
			h.Fail(sig, op, fmt.Sprintf("request #%d (node %d) on the warm cache: %s (%s); alone: %s", k, n, res, text, alone))
		}
		if n <= 1 {
			sides[0] = true
		} else if n <= 3 {
			sides[1] = true
		}
		h.Count("clash.result." + res[:2])
		out = append(out, res)
	}
	keys, linked := cache.VerifCacheKeys()
	idx := clashKeyIndex(variant)
	ks := make([]string, 5)
	for i, k := range keys {
		j, ok := idx[k]
		if !ok {
			h.Fail("cache-unknown-key", op, k)
			continue
		}
		ks[j] = "+"
		if !linked[i] {
			ks[j] = "-"
			h.Fail("placeholder-left-in-cache", op, "unlinked ref for "+k)
		}
	}
	var kl []string
	for j, s := range ks {
		if s != "" {
			kl = append(kl, strconv.Itoa(j)+s)
		}
	}
	if sides[0] && sides[1] {
		h.Count("clash.both-sides")
		h.Nontrivial(op)
	}
	return strings.Join(out, " | ") + " | keys " + strings.Join(kl, " ")
}

// buildBigEnum: package e.v1 with `enum Currency { CURRENCY_UNSPECIFIED = 0; CURRENCY_C1 … }` (nOpts
// values) and three messages using it as a scalar, in an array and through nested messages.
func buildBigEnum(nOpts int) ([]protoreflect.MessageDescriptor, error) {
	en := &descriptorpb.EnumDescriptorProto{Name: proto.String("Currency"), Value: []*descriptorpb.EnumValueDescriptorProto{
		{Name: proto.String("CURRENCY_UNSPECIFIED"), Number: proto.Int32(0)}}}
	for i := 1; i < nOpts; i++ {
		en.Value = append(en.Value, &descriptorpb.EnumValueDescriptorProto{Name: proto.String("CURRENCY_C" + strconv.Itoa(i)), Number: proto.Int32(int32(i))})
	}
	fld := func(name string, num int32, typ descriptorpb.FieldDescriptorProto_Type, typeName string, repeated bool) *descriptorpb.FieldDescriptorProto {
		f := &descriptorpb.FieldDescriptorProto{Name: proto.String(name), Number: proto.Int32(num), JsonName: proto.String(name),
			Label: descriptorpb.FieldDescriptorProto_LABEL_OPTIONAL.Enum(), Type: typ.Enum()}
		if typeName != "" {
			f.TypeName = proto.String(typeName)
		}
		if repeated {
			f.Label = descriptorpb.FieldDescriptorProto_LABEL_REPEATED.Enum()
		}
		return f
	}
	const E, M, S = descriptorpb.FieldDescriptorProto_TYPE_ENUM, descriptorpb.FieldDescriptorProto_TYPE_MESSAGE, descriptorpb.FieldDescriptorProto_TYPE_STRING
	file := &descriptorpb.FileDescriptorProto{Name: proto.String("e/v1/e.proto"), Package: proto.String("e.v1"), Syntax: proto.String("proto3"),
		EnumType: []*descriptorpb.EnumDescriptorProto{en},
		MessageType: []*descriptorpb.DescriptorProto{
			{Name: proto.String("Price"), Field: []*descriptorpb.FieldDescriptorProto{
				fld("currency", 1, E, ".e.v1.Currency", false), fld("accepted", 2, E, ".e.v1.Currency", true), fld("note", 3, S, "", false)}},
			{Name: proto.String("Wallet"), Field: []*descriptorpb.FieldDescriptorProto{
				fld("prices", 1, M, ".e.v1.Price", true), fld("main", 2, E, ".e.v1.Currency", false)}},
			{Name: proto.String("Ledger"), Field: []*descriptorpb.FieldDescriptorProto{
				fld("wallet", 1, M, ".e.v1.Wallet", false), fld("settle", 2, E, ".e.v1.Currency", false), fld("others", 3, E, ".e.v1.Currency", true)}},
		}}
	fd, err := protodesc.NewFile(file, &protoregistry.Files{})
	if err != nil {
		return nil, err
	}
	ms := fd.Messages()
	return []protoreflect.MessageDescriptor{ms.ByName("Price"), ms.ByName("Wallet"), ms.ByName("Ledger")}, nil
}
