//go:build verif

package main

import (
	"bytes"
	"context"
	"crypto/sha256"
	"encoding/hex"
	"encoding/json"
	"fmt"
	"math/rand/v2"
	"net/url"
	"os"
	"os/exec"
	"path/filepath"
	"regexp"
	"runtime/pprof"
	"sort"
	"strconv"
	"strings"
	"sync"
	"sync/atomic"
	"time"

	"github.com/pentops/j5/gen/j5/schema/v1/schema_j5pb"
	"github.com/pentops/j5/gen/test/foo/v1/foo_testpb"
	"github.com/pentops/j5/gen/test/foo/v1/foo_testspb"
	"github.com/pentops/j5/gen/test/schema/v1/schema_testpb"
	"github.com/pentops/j5/internal/verifh/vh"
	"github.com/pentops/j5/lib/j5codec"
	"github.com/pentops/j5/lib/j5schema"
	"google.golang.org/protobuf/proto"
	"google.golang.org/protobuf/reflect/protoreflect"
	"google.golang.org/protobuf/types/dynamicpb"
)

// ------------------------------------------------------------------ parent (stream conc.race)

var typeSets = []string{"shared", "recursive", "disjoint", "generated", "mixed", "failing", "mutual", "flatten", "clash", "bigenum"}

type raceImpl struct {
	child      string
	childNote  string
	deadlocked bool
}

func (r *raceImpl) Gen(h *vh.H, i int) string {
	n := []int{8, 8, 16, 32, 64}[h.Rng.IntN(5)]
	mode := "fresh"
	if h.Chance(1, 3) {
		mode = "global"
	}
	rounds := 6
	if h.Tier == "thorough" {
		rounds = 12
	}
	return fmt.Sprintf("race %d %d %s %s %d", h.Rng.Uint64()>>1, n, typeSets[i%len(typeSets)], mode, rounds)
}

// childBinary: the process that runs the goroutines must be built with -race. When this process
// is (engine: stream option race=True) it re-executes itself; otherwise (e.g. ./check --replay,
// which builds the plain harness) it builds the -race variant from the tree under check.
func (r *raceImpl) childBinary(h *vh.H) string {
	if r.child != "" {
		return r.child
	}
	self, err := os.Executable()
	if err != nil {
		self = os.Args[0]
	}
	r.child = self
	if raceEnabled {
		return r.child
	}
	repo, ov := os.Getenv("CONCH_REPO"), os.Getenv("CONCH_OVERLAY")
	r.childNote = "race detector NOT enabled in the child (plain build)"
	if repo != "" && ov != "" {
		out := filepath.Join(h.OutDir, "conch-race-child")
		cmd := exec.Command("go", "build", "-race", "-tags", "verif", "-overlay", ov, "-o", out, "./internal/verifh/conch")
		cmd.Dir = repo
		if b, err := cmd.CombinedOutput(); err == nil {
			r.child = out
			r.childNote = ""
		} else {
			r.childNote += "; go build -race failed: " + string(b)
		}
	}
	return r.child
}

var frameRe = regexp.MustCompile(`^\s+github\.com/pentops/j5/([^\s(]+(?:\([^)]*\))?[^\s(]*)\(`)

func shortFunc(line string) string {
	m := frameRe.FindStringSubmatch(line)
	if m == nil {
		return ""
	}
	f := m[1] // lib/j5schema.(*SchemaCache).referencePackage
	if i := strings.LastIndex(f, "/"); i >= 0 {
		f = f[i+1:]
	}
	if i := strings.Index(f, "."); i >= 0 {
		f = f[i+1:]
	}
	f = strings.NewReplacer("(*", "", ")", "", "(", "").Replace(f)
	return f
}

// raceSignatures extracts, per "WARNING: DATA RACE" block, the first pentops/j5 function (outside
// this harness) of the two conflicting accesses.
func raceSignatures(stderr string) (sigs []string, report map[string]string) {
	blocks := strings.Split(stderr, "==================")
	seen := map[string]bool{}
	report = map[string]string{}
	for _, b := range blocks {
		if !strings.Contains(b, "WARNING: DATA RACE") {
			continue
		}
		// name the mutation: the first pentops/j5 function (outside this harness) on the stack of
		// the write access (of the two, when both are writes, the alphabetically first)
		var writes, reads []string
		inAccess, isWrite, got := false, false, false
		for _, line := range strings.Split(b, "\n") {
			t := strings.TrimSpace(line)
			switch {
			case strings.HasPrefix(t, "Write at") || strings.HasPrefix(t, "Previous write at"):
				inAccess, isWrite, got = true, true, false
			case strings.HasPrefix(t, "Read at") || strings.HasPrefix(t, "Previous read at"):
				inAccess, isWrite, got = true, false, false
			case strings.HasPrefix(t, "Goroutine "):
				inAccess = false
			case inAccess && !got:
				if f := shortFunc(line); f != "" && !strings.HasPrefix(f, "main.") && !strings.Contains(line, "/verifh/") {
					if isWrite {
						writes = append(writes, f)
					} else {
						reads = append(reads, f)
					}
					got = true
				}
			}
		}
		sort.Strings(writes)
		sort.Strings(reads)
		sig := "race:unattributed"
		if len(writes) > 0 {
			sig = "race:" + writes[0]
		} else if len(reads) > 0 {
			sig = "race:" + reads[0]
		}
		if !seen[sig] {
			seen[sig] = true
			sigs = append(sigs, sig)
			report[sig] = b // the report this signature was read from
		}
	}
	return
}

func (r *raceImpl) Exec(h *vh.H, op string) string {
	p := strings.Split(op, " ")
	if len(p) != 6 || p[0] != "race" {
		return "bad-op"
	}
	if r.deadlocked {
		// every further child would sit out its watchdog too; the finding is already recorded
		h.Count("skipped-after-deadlock")
		return "skipped-after-deadlock"
	}
	bin := r.childBinary(h)
	ctx, cancel := context.WithTimeout(context.Background(), 3*time.Hour)
	defer cancel()
	cmd := exec.CommandContext(ctx, bin, append([]string{"child"}, p[1:]...)...)
	cmd.Env = append(os.Environ(), "GORACE=halt_on_error=0 atexit_sleep_ms=0", "GOMAXPROCS=16")
	var stdout, stderr bytes.Buffer
	cmd.Stdout, cmd.Stderr = &stdout, &stderr
	err := cmd.Run()
	note := r.childNote
	fails := 0
	fail := func(sig, detail string) {
		fails++
		if note != "" {
			detail = "[" + note + "] " + detail
		}
		h.Fail(sig, op, detail)
	}
	se := stderr.String()
	sigs, reports := raceSignatures(se)
	// without the lock every function of a build races; report the cache's own mutation sites
	// first and at most three sites per child
	sort.SliceStable(sigs, func(a, b int) bool {
		return strings.Contains(sigs[a], "SchemaCache.") && !strings.Contains(sigs[b], "SchemaCache.")
	})
	if len(sigs) > 3 {
		h.CountN("race-sites-not-listed", len(sigs)-3)
		sigs = sigs[:3]
	}
	for _, s := range sigs {
		fail(s, "race detector report:\n"+tail(reports[s], 6000))
	}
	if i := strings.Index(se, "fatal error: concurrent map"); i >= 0 {
		fail("fatal:concurrent-map-access", tail(se[i:], 1500))
	}
	calls := 0
	for _, line := range strings.Split(stdout.String(), "\n") {
		switch {
		case strings.HasPrefix(line, "DIFF "):
			f := strings.SplitN(line, " ", 3)
			if len(f) == 3 {
				fail(f[1], f[2])
			}
		case strings.HasPrefix(line, "DEADLOCK"):
			r.deadlocked = true
			fail("deadlock", tail(stdout.String(), 1800))
		case strings.HasPrefix(line, "SLOW "):
			h.Count("children.slow-extension")
		case strings.HasPrefix(line, "STATS "):
			var e, q, st int
			if n, _ := fmt.Sscanf(line, "STATS %d %d %d", &e, &q, &st); n == 3 {
				h.CountN("calls.schema-error-alone-and-concurrent", e)
				h.CountN("calls.QueryToProto", q)
				h.CountN("rounds.stampede-on-one-type", st)
			}
		case strings.HasPrefix(line, "DONE "):
			calls, _ = strconv.Atoi(strings.TrimPrefix(line, "DONE "))
		}
	}
	if ctx.Err() != nil {
		r.deadlocked = true
		fail("deadlock", "child did not finish within 3 h")
	} else if err != nil && fails == 0 {
		fail("child-crash", err.Error()+"\n"+tail(se, 1500))
	}
	h.CountN("calls", calls)
	h.Count("children." + p[3] + "." + p[4])
	h.Count("set." + p[3])
	h.Count("goroutines." + p[2])
	if calls > 0 {
		h.Nontrivial(op)
	}
	if fails > 0 {
		return "fail"
	}
	return "ok"
}

func tail(s string, n int) string {
	if len(s) > n {
		return s[:n] + "…"
	}
	return s
}

// ------------------------------------------------------------------ child

type target struct {
	name  string
	desc  protoreflect.MessageDescriptor
	newFn func() protoreflect.Message
	msg   proto.Message // populated input for ProtoToJSON
	json  []byte        // input for JSONToProto
	query url.Values    // input for QueryToProto
	index map[string]int
	clash bool // member of the schema-name collision family
}

type call struct {
	t    int
	kind byte // 'e' ProtoToJSON, 'd' JSONToProto, 'q' QueryToProto, 's' SchemaCache.Schema
}

func compiled(ms ...proto.Message) []*target {
	var out []*target
	for _, m := range ms {
		m := m
		out = append(out, &target{name: string(m.ProtoReflect().Descriptor().FullName()), desc: m.ProtoReflect().Descriptor(),
			newFn: func() protoreflect.Message { return m.ProtoReflect().New() }})
	}
	return out
}

// graphTargets builds the graph into dynamicpb message types.
func graphTargets(g Graph, prefix string) []*target {
	descs, index, err := buildDescriptors(g, false)
	if err != nil {
		return nil
	}
	var out []*target
	for i, d := range descs {
		md, ok := d.(protoreflect.MessageDescriptor)
		if !ok {
			continue
		}
		out = append(out, &target{name: prefix + strconv.Itoa(i) + ":" + string(md.FullName()), desc: md,
			newFn: func() protoreflect.Message { return dynamicpb.NewMessage(md) }, index: index})
	}
	return out
}

// generated draws descriptor graphs (dynamicpb messages) until `want` accepts one.
func generated(rng *rand.Rand, want func(g Graph, style int) bool) []*target {
	for try := 0; try < 400; try++ {
		g, style := genGraph(rng)
		if want != nil && !want(g, style) {
			continue
		}
		descs, index, err := buildDescriptors(g, true)
		if err != nil {
			continue
		}
		var out []*target
		for i, d := range descs {
			md, ok := d.(protoreflect.MessageDescriptor)
			if !ok {
				continue
			}
			out = append(out, &target{name: "g" + strconv.Itoa(i) + ":" + string(md.FullName()), desc: md,
				newFn: func() protoreflect.Message { return dynamicpb.NewMessage(md) }, index: index})
		}
		if len(out) >= 2 {
			return out
		}
	}
	return nil
}

func pickTargets(set string, rng *rand.Rand) []*target {
	shared := compiled(&schema_testpb.FullSchema{}, &schema_testpb.WrappedOneof{}, &schema_testpb.ImplicitOneof{},
		&schema_testpb.NestedExposed{}, &schema_testpb.Bar{}, &schema_testpb.Baz{}, &schema_testpb.FlattenedMessage{})
	recursive := compiled(&schema_j5pb.RootSchema{}, &schema_j5pb.Field{}, &schema_j5pb.Object{}, &schema_j5pb.ObjectProperty{},
		&schema_j5pb.Oneof{}, &schema_j5pb.ArrayField{}, &schema_testpb.NestedExposed{})
	disjoint := compiled(&schema_testpb.Baz{}, &foo_testpb.FooKeys{}, &foo_testspb.GetFooRequest{}, &schema_j5pb.Ref{}, &schema_testpb.FlattenedMessage{})
	switch set {
	case "shared":
		return shared
	case "recursive":
		return recursive
	case "disjoint":
		return disjoint
	case "generated":
		return generated(rng, nil)
	case "failing":
		// a failing member (schema error: unsupported google type, non-string map key, enum without
		// *_UNSPECIFIED) that other, good, types share sub-schemas with: the roll-back of the failed
		// build runs while other goroutines look the shared types up; plus good compiled-in types
		return append(generated(rng, hasFailingWithSharing), shared[:3]...)
	case "flatten":
		// messages that flatten each other, rings of flattens, a flattened child shared by several
		// parents: the JSON shape of each must not depend on which was used first on the shared codec
		g := genFlattenGraph(rng)
		ts := graphTargets(g, "f")
		return append(ts, compiled(&schema_testpb.FlattenedMessage{})...)
	case "clash":
		// two descriptors with one schema name (Bar nested in Foo / top-level Foo_Bar) and further
		// types that are used for the first time after the clash error
		variant := []string{"m", "e"}[rng.IntN(2)]
		descs, err := buildClash(variant)
		if err != nil {
			return nil
		}
		var out []*target
		for i, md := range descs {
			if md == nil {
				continue
			}
			md := md
			out = append(out, &target{name: "c" + strconv.Itoa(i) + ":" + string(md.FullName()), desc: md,
				newFn: func() protoreflect.Message { return dynamicpb.NewMessage(md) }, clash: true})
		}
		return append(out, generated(rng, nil)...)
	case "bigenum":
		// an enum with far more options than any compiled-in one, used as a scalar, in arrays and in nested
		// messages; the decode inputs of this set write the values with the enum's prefix (CURRENCY_C17), the
		// spelling that goes past j5reflect's short-name scan to EnumSchema.OptionByName: lookups in a shared
		// schema object on the very first use of the type (seeded change C10-m8: a lazily built name index)
		descs, err := buildBigEnum(24 + rng.IntN(40))
		if err != nil {
			return nil
		}
		var out []*target
		for i, md := range descs {
			md := md
			out = append(out, &target{name: "b" + strconv.Itoa(i) + ":" + string(md.FullName()), desc: md,
				newFn: func() protoreflect.Message { return dynamicpb.NewMessage(md) }})
		}
		return out
	case "mutual":
		// rings with back edges: self and mutual recursion, first use from every goroutine at once
		return append(generated(rng, func(g Graph, style int) bool { return style == 1 && len(g) >= 3 }), recursive[:3]...)
	default:
		all := append(append(shared, recursive[:6]...), compiled(&foo_testpb.FooState{}, &foo_testpb.FooEvent{}, &foo_testspb.ListFoosRequest{})...)
		return append(all, generated(rng, nil)...)
	}
}

// hasFailingWithSharing: some message fails to build (a bad field or a reference to a failing
// enum) and at least two nodes hold references.
func hasFailingWithSharing(g Graph, _ int) bool {
	failing, refs := false, 0
	for _, n := range g {
		if !n.Ok {
			failing = true
		}
		hasRef := false
		for _, f := range n.Fields {
			if f.Base == 'x' {
				failing = true
			}
			if f.Base == 'r' {
				hasRef = true
			}
		}
		if hasRef {
			refs++
		}
	}
	return failing && refs >= 2 && len(g) >= 3
}

func populate(rng *rand.Rand, m protoreflect.Message, depth int) {
	fields := m.Descriptor().Fields()
	for i := 0; i < fields.Len(); i++ {
		fd := fields.Get(i)
		if rng.IntN(10) < 3 {
			continue
		}
		scalar := func(fd protoreflect.FieldDescriptor) (protoreflect.Value, bool) {
			switch fd.Kind() {
			case protoreflect.StringKind:
				return protoreflect.ValueOfString("s" + strconv.Itoa(rng.IntN(100))), true
			case protoreflect.BoolKind:
				return protoreflect.ValueOfBool(true), true
			case protoreflect.Int32Kind, protoreflect.Sint32Kind, protoreflect.Sfixed32Kind:
				return protoreflect.ValueOfInt32(int32(rng.IntN(1000))), true
			case protoreflect.Int64Kind, protoreflect.Sint64Kind, protoreflect.Sfixed64Kind:
				return protoreflect.ValueOfInt64(int64(rng.IntN(1000))), true
			case protoreflect.Uint32Kind, protoreflect.Fixed32Kind:
				return protoreflect.ValueOfUint32(uint32(rng.IntN(1000))), true
			case protoreflect.Uint64Kind, protoreflect.Fixed64Kind:
				return protoreflect.ValueOfUint64(uint64(rng.IntN(1000))), true
			case protoreflect.FloatKind:
				return protoreflect.ValueOfFloat32(float32(rng.IntN(100)) / 4), true
			case protoreflect.DoubleKind:
				return protoreflect.ValueOfFloat64(float64(rng.IntN(100)) / 4), true
			case protoreflect.BytesKind:
				return protoreflect.ValueOfBytes([]byte{byte(rng.IntN(256)), 1}), true
			case protoreflect.EnumKind:
				vs := fd.Enum().Values()
				return protoreflect.ValueOfEnum(vs.Get(rng.IntN(vs.Len())).Number()), true
			}
			return protoreflect.Value{}, false
		}
		isAny := func(fd protoreflect.FieldDescriptor) bool {
			if fd.Kind() != protoreflect.MessageKind {
				return false
			}
			n := fd.Message().FullName()
			return n == "google.protobuf.Any" || n == "j5.types.any.v1.Any" || strings.HasPrefix(string(n), "google.protobuf.Struct") ||
				n == "google.protobuf.Value" || n == "google.protobuf.ListValue"
		}
		switch {
		case fd.IsMap():
			if fd.MapKey().Kind() != protoreflect.StringKind || isAny(fd.MapValue()) {
				continue
			}
			mp := m.Mutable(fd).Map()
			for k := 0; k < 1+rng.IntN(2); k++ {
				key := protoreflect.ValueOfString("k" + strconv.Itoa(k)).MapKey()
				if fd.MapValue().Kind() == protoreflect.MessageKind {
					if depth > 0 {
						v := mp.NewValue()
						populate(rng, v.Message(), depth-1)
						mp.Set(key, v)
					}
				} else if v, ok := scalar(fd.MapValue()); ok {
					mp.Set(key, v)
				}
			}
		case fd.IsList():
			if isAny(fd) {
				continue
			}
			l := m.Mutable(fd).List()
			for k := 0; k < 1+rng.IntN(2); k++ {
				if fd.Kind() == protoreflect.MessageKind {
					if depth > 0 {
						v := l.NewElement()
						populate(rng, v.Message(), depth-1)
						l.Append(v)
					}
				} else if v, ok := scalar(fd); ok {
					l.Append(v)
				}
			}
		case fd.Kind() == protoreflect.MessageKind:
			if isAny(fd) || depth == 0 {
				continue
			}
			populate(rng, m.Mutable(fd).Message(), depth-1)
		default:
			if v, ok := scalar(fd); ok {
				m.Set(fd, v)
			}
		}
	}
}

func queryFor(rng *rand.Rand, md protoreflect.MessageDescriptor) url.Values {
	q := url.Values{}
	for i := 0; i < md.Fields().Len() && len(q) < 3; i++ {
		fd := md.Fields().Get(i)
		if fd.IsList() || fd.IsMap() || fd.ContainingOneof() != nil {
			continue
		}
		switch fd.Kind() {
		case protoreflect.StringKind:
			q.Set(fd.JSONName(), "v"+strconv.Itoa(rng.IntN(10)))
		case protoreflect.Int32Kind, protoreflect.Int64Kind:
			q.Set(fd.JSONName(), strconv.Itoa(rng.IntN(100)))
		}
	}
	if len(q) == 0 {
		q.Set("noSuchField", "1")
	}
	return q
}

// prefixedEnumNames rewrites the short enum value names of the bigenum set ("C17") in a JSON input
// to the prefixed spelling ("CURRENCY_C17"), which the decoder accepts as well.
var shortCurrency = regexp.MustCompile(`"(C[0-9]+)"`)

func prefixedEnumNames(b []byte) []byte {
	return shortCurrency.ReplaceAll(b, []byte(`"CURRENCY_$1"`))
}

// enumQuery adds the enum fields of the message to a query, values in the prefixed spelling.
func enumQuery(rng *rand.Rand, md protoreflect.MessageDescriptor, q url.Values) {
	q.Del("noSuchField")
	for i := 0; i < md.Fields().Len(); i++ {
		fd := md.Fields().Get(i)
		if fd.Kind() != protoreflect.EnumKind || fd.IsList() || fd.IsMap() {
			continue
		}
		vs := fd.Enum().Values()
		q.Set(fd.JSONName(), string(vs.Get(1+rng.IntN(vs.Len()-1)).Name()))
	}
	if len(q) == 0 {
		q.Set("noSuchField", "1")
	}
}

func digest(m proto.Message) string {
	b, err := proto.MarshalOptions{Deterministic: true}.Marshal(m)
	if err != nil {
		return "marshal-err"
	}
	s := sha256.Sum256(b)
	return strconv.Itoa(len(b)) + ":" + hex.EncodeToString(s[:8])
}

func errClass(err error) string {
	s := err.Error()
	switch {
	case strings.Contains(s, "unlinked ref"):
		return "err:unlinked-ref"
	case strings.Contains(s, "unsupported root schema type <nil>"):
		return "err:nil-root"
	case strings.Contains(s, "is used by both"):
		return "err:name-clash"
	}
	return "err"
}

func doCall(cc *j5codec.Codec, sc *j5schema.SchemaCache, ts []*target, c call) (res string) {
	defer func() {
		if r := recover(); r != nil {
			res = "panic"
		}
	}()
	t := ts[c.t]
	switch c.kind {
	case 'e':
		b, err := cc.ProtoToJSON(t.msg.ProtoReflect())
		if err != nil {
			return errClass(err)
		}
		return "ok " + canonJSON(b)
	case 'd':
		m := t.newFn()
		if err := cc.JSONToProto(t.json, m); err != nil {
			return errClass(err)
		}
		return "ok " + digest(m.Interface())
	case 'q':
		m := t.newFn()
		if err := cc.QueryToProto(t.query, m); err != nil {
			return errClass(err)
		}
		return "ok " + digest(m.Interface())
	default:
		root, err := sc.Schema(t.desc)
		if err != nil {
			return errClass(err)
		}
		if t.index == nil {
			if isNilSchema(root) {
				return "ok nil-schema"
			}
			return "ok " + root.FullName() + unlinkedMark(root)
		}
		d, derr := dumpSchema(t.index, root)
		return "ok " + d + derr
	}
}

// unlinkedMark walks a compiled-in schema and reports a reference whose To is still nil.
func unlinkedMark(root j5schema.RootSchema) string {
	seen := map[string]bool{}
	bad := ""
	var walkRoot func(r j5schema.RootSchema)
	var walkField func(f j5schema.FieldSchema)
	walkRef := func(r *j5schema.RefSchema) {
		if r == nil {
			return
		}
		if isNilSchema(r.To) {
			bad = " !" + r.FullName()
			return
		}
		walkRoot(r.To)
	}
	walkField = func(f j5schema.FieldSchema) {
		switch t := f.(type) {
		case *j5schema.ArrayField:
			walkField(t.Schema)
		case *j5schema.MapField:
			walkField(t.Schema)
		case *j5schema.ObjectField:
			walkRef(t.Ref)
		case *j5schema.OneofField:
			walkRef(t.Ref)
		case *j5schema.EnumField:
			walkRef(t.Ref)
		}
	}
	walkRoot = func(r j5schema.RootSchema) {
		if seen[r.FullName()] {
			return
		}
		seen[r.FullName()] = true
		switch t := r.(type) {
		case *j5schema.ObjectSchema:
			for _, p := range t.Properties {
				walkField(p.Schema)
			}
		case *j5schema.OneofSchema:
			for _, p := range t.Properties {
				walkField(p.Schema)
			}
		}
	}
	walkRoot(root)
	return bad
}

// Deadlock watchdog: a round normally takes well under a second, but under -race with 64
// goroutines on a machine that other jobs load to 15x its cores it has been seen to take minutes.
// So the verdict is about progress, not time: DEADLOCK when no call at all has completed for
// `watchdog` while goroutines are still running.
const watchdog = 120 * time.Second

var progress, curRound, curPhase atomic.Int64

// runnableOthers counts the goroutines other than the caller that are not blocked on a lock, a
// channel, a wait group, a condition, a select, I/O, a sleep or a system call (states of the debug=2
// goroutine dump): running, runnable, assisting the GC …
func runnableOthers() int {
	var buf bytes.Buffer
	_ = pprof.Lookup("goroutine").WriteTo(&buf, 2)
	n, first := 0, true
	for _, line := range strings.Split(buf.String(), "\n") {
		if !strings.HasPrefix(line, "goroutine ") {
			continue
		}
		i, j := strings.Index(line, "["), strings.LastIndex(line, "]")
		if i < 0 || j < i {
			continue
		}
		if first { // the caller itself, listed first, "running"
			first = false
			continue
		}
		state := line[i+1 : j]
		blocked := false
		for _, b := range []string{"semacquire", "sync.Mutex.Lock", "sync.RWMutex", "sync.WaitGroup.Wait", "sync.Cond.Wait", "chan receive", "chan send", "select", "IO wait", "sleep", "syscall"} {
			if strings.HasPrefix(state, b) {
				blocked = true
			}
		}
		if !blocked {
			n++
		}
	}
	return n
}

func childMain(args []string) {
	if len(args) != 5 {
		fmt.Println("DIFF bad-op usage")
		os.Exit(2)
	}
	seed, _ := strconv.ParseUint(args[0], 10, 64)
	n, _ := strconv.Atoi(args[1])
	set, mode := args[2], args[3]
	rounds, _ := strconv.Atoi(args[4])
	if n < 2 || n > 256 || rounds < 1 {
		fmt.Println("DIFF bad-op parameters")
		os.Exit(2)
	}
	rng := rand.New(rand.NewPCG(seed, 0xc0c10))
	total, errCalls, queryCalls, stampedes := 0, 0, 0, 0
	// the watchdog covers the whole child: preparing the inputs, the concurrent rounds and the
	// calls alone all go through codecs
	go func() {
		last, lastAt := progress.Load(), time.Now()
		extensions := 0
		for {
			time.Sleep(2 * time.Second)
			if now := progress.Load(); now != last {
				last, lastAt = now, time.Now()
			} else if time.Since(lastAt) > watchdog {
				// a deadlock means nobody can run. On an overloaded machine (load average > 150 with the -race
				// slow-down) a single call can sit out the watchdog while its goroutine is running or
				// runnable: that is slow, not stuck (seen: "calls alone" phase, main goroutine inside a
				// build). Up to six such extensions (14 minutes without a completed call), then it is reported.
				if extensions < 6 && runnableOthers() > 0 {
					extensions++
					lastAt = time.Now()
					fmt.Printf("SLOW round %d set %s: no call completed for %s but a goroutine is running / runnable (extension %d)\n", curRound.Load(), set, watchdog, extensions)
					continue
				}
				fmt.Printf("DEADLOCK round %d set %s (%s): no call completed for %s, goroutines still running\n", curRound.Load(), set, []string{"preparing inputs", "concurrent calls", "calls alone"}[curPhase.Load()], watchdog)
				_ = pprof.Lookup("goroutine").WriteTo(os.Stdout, 1)
				os.Exit(3)
			}
		}
	}()
	for round := 0; round < rounds; round++ {
		ts := pickTargets(set, rng)
		if len(ts) == 0 {
			continue
		}
		// inputs: built with a codec of their own (one per type), never the one under test
		curRound.Store(int64(round))
		curPhase.Store(0)
		for _, t := range ts {
			m := t.newFn()
			populate(rng, m, 2)
			t.msg = m.Interface()
			progress.Add(1)
			if b, err := j5codec.NewCodec().ProtoToJSON(m); err == nil {
				t.json = b
			} else {
				t.json = []byte("{}")
			}
			t.query = queryFor(rng, t.desc)
			if set == "bigenum" {
				t.json = prefixedEnumNames(t.json)
				enumQuery(rng, t.desc, t.query)
			}
		}
		cc := j5codec.NewCodec()
		if mode == "global" && round == 0 {
			cc = j5codec.Global // first use of the package-level codec in this process
		}
		sc := j5schema.NewSchemaCache()
		plans := make([][]call, n)
		for g := range plans {
			for ti := range ts {
				for _, k := range []byte("edqs") {
					if rng.IntN(4) > 0 {
						plans[g] = append(plans[g], call{ti, k})
					}
				}
			}
			rng.Shuffle(len(plans[g]), func(a, b int) { plans[g][a], plans[g][b] = plans[g][b], plans[g][a] })
		}
		if rng.IntN(2) == 0 {
			// stampede: every goroutine's first call is on the same type (its very first use), by a
			// different entry point per goroutine
			t0 := rng.IntN(len(ts))
			stampedes++
			for g := range plans {
				plans[g] = append([]call{{t0, "edqs"[g%4]}}, plans[g]...)
			}
		}
		results := make([][]string, n)
		start := make(chan struct{})
		var wg sync.WaitGroup
		for g := 0; g < n; g++ {
			wg.Add(1)
			go func(g int) {
				defer wg.Done()
				out := make([]string, len(plans[g]))
				<-start
				for i, c := range plans[g] {
					out[i] = doCall(cc, sc, ts, c)
					progress.Add(1)
				}
				results[g] = out
			}(g)
		}
		curPhase.Store(1)
		close(start)
		wg.Wait()
		curPhase.Store(2)
		// what each call returns when run alone: a fresh codec / cache per call
		expect := map[call]string{}
		reported := map[string]bool{}
		for g := range plans {
			for i, c := range plans[g] {
				total++
				want, ok := expect[c]
				if !ok {
					want = doCall(j5codec.NewCodec(), j5schema.NewSchemaCache(), ts, c)
					expect[c] = want
					progress.Add(1)
				}
				got := results[g][i]
				if strings.HasPrefix(want, "err") {
					errCalls++
				}
				if c.kind == 'q' {
					queryCalls++
				}
				if got == want {
					continue
				}
				sig := "result-differs:" + map[byte]string{'e': "ProtoToJSON", 'd': "JSONToProto", 'q': "QueryToProto", 's': "Schema"}[c.kind]
				switch {
				case ts[c.t].clash && (got == "err:name-clash" || want == "err:name-clash"):
					// the recorded finding: which of two descriptors with one schema name works on a
					// shared codec depends on which was used first
					sig = "cache-history:schema-name-clash"
				case strings.Contains(got, "err:unlinked-ref") || strings.Contains(got, "err:nil-root") || (c.kind == 's' && strings.Contains(got, "!")):
					sig = "unlinked-ref-observed"
				case got == "panic":
					sig = "panic-under-concurrency:" + sig[len("result-differs:"):]
				}
				if !reported[sig] {
					reported[sig] = true
					fmt.Printf("DIFF %s round %d goroutine %d/%d type %s: concurrent=%q alone=%q\n", sig, round, g, n, ts[c.t].name, clip(got), clip(want))
				}
			}
		}
	}
	fmt.Printf("STATS %d %d %d\n", errCalls, queryCalls, stampedes)
	fmt.Printf("DONE %d\n", total)
}

// canonJSON re-marshals a document with sorted object keys: the encoder walks protobuf maps in
// Go's random map order, which is not what this property is about (C14 is).
func canonJSON(b []byte) string {
	var v any
	dec := json.NewDecoder(bytes.NewReader(b))
	dec.UseNumber()
	if err := dec.Decode(&v); err != nil {
		return "raw:" + string(b)
	}
	out, err := json.Marshal(v)
	if err != nil {
		return "raw:" + string(b)
	}
	return string(out)
}

func clip(s string) string {
	if len(s) > 160 {
		return s[:160] + "…"
	}
	return s
}
