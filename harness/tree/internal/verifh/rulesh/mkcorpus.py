import sys
def hx(s):
    b=s.encode()
    return b.hex() if b else '-'
ID62='^[0-9A-Za-z]{22}$'
KEYS=["name","kind","req","opt","desc","arr","ar","amin","amax","auniq","asf","r","fmt","min","max","emin","emax","dmin","dmax","minl","maxl","pat","sfmt","const","kf","pk","fk","tk","eopts","eodesc","edesc","epre","in","nin","flat","lr","optpres"]
def spec(name,kind,**kw):
    d={k:'~' for k in KEYS}
    d.update(name=hx(name),kind=kind,req='0',opt='0',arr='0',ar='0',r='0',flat='0',optpres='1')
    for k,v in kw.items():
        d[k]=v
    return ' '.join(f'{k}={d[k]}' for k in KEYS)
def lr(f=0,df=(),s=0,ds=0,q=0,qi=''):
    return f"f{f}/df{'+'.join(hx(x) for x in df)}/s{s}/ds{ds}/q{q}/qi{hx(qi)}"
schema=[
 ('schema-diff:str:sfmt:dropped', spec('fa','str',sfmt=hx('email'))),
 ('schema-diff:array:str:sfmt:dropped', spec('fa','str',arr='1',sfmt=hx('email'))),
 ('schema-diff:array:str:kind:str->key[id62-pattern]', spec('fa','str',arr='1',r='1',pat=hx(ID62))),
 ('schema-diff:array:key:kind:key->str[kf=]', spec('fa','key',arr='1')),
 ('schema-diff:array:key:kind:key->str[kf=inf]', spec('fa','key',arr='1',kf='inf')),
 ('schema-diff:array:key:kind:key->str[kf=cus]', spec('fa','key',arr='1',kf='cus',pat=hx('^abc$'))),
 ('reader-error:array:str[id62-pattern,lr,rules]', spec('fa','str',arr='1',r='1',pat=hx(ID62),lr=lr(q=1))),
 ('schema-diff:array:key:kf:cus->inf[kf=cus]', spec('fa','key',arr='1',kf='cus',pat=hx('^abc$'),lr=lr(f=1))),
 ('schema-diff:array:date:rules:dropped', spec('fa','date',arr='1',r='1',dmin=hx('2020-01-02'))),
 ('schema-diff:array:dec:rules:dropped', spec('fa','dec',arr='1',r='1',dmin=hx('0.5'))),
 ('reader-error:array:key[kf=cus,id62-pattern,lr]', spec('fa','key',arr='1',kf='cus',pat=hx(ID62),lr=lr(f=1))),
]
schema+=[
 ('regression a76cc98: arrays / maps of any are reflected', spec('fa','any',arr='1')),
 ('regression a76cc98', spec('fa','any',arr='m')),
 ('schema-diff:map:key:kind:key->str[kf=]', spec('fa','key',arr='m')),
 ('schema-diff:map:key:kind:key->str[kf=inf]', spec('fa','key',arr='m',kf='inf')),
 ('schema-diff:map:key:kind:key->str[kf=cus]', spec('fa','key',arr='m',kf='cus',pat=hx('^abc$'))),
 ('schema-diff:map:str:kind:str->key[id62-pattern]', spec('fa','str',arr='m',r='1',pat=hx(ID62))),
 ('schema-diff:map:str:sfmt:dropped', spec('fa','str',arr='m',sfmt=hx('email'))),
 ('schema-diff:map:date:rules:dropped', spec('fa','date',arr='m',r='1',dmin=hx('2020-01-02'))),
 ('schema-diff:map:dec:rules:dropped', spec('fa','dec',arr='m',r='1',dmin=hx('0.5'))),
 ('schema-diff:map:value-list-rules:dropped', spec('fa','bool',arr='m',lr=lr(f=1))),
]
# witnesses of FIXED findings: must pass the oracle now; a regression shows up on every run
schema+=[
 ('fixed b1eebc1 schema-diff:str:kind:str->key[id62-pattern]', spec('fa','str',r='1',pat=hx(ID62))),
 ('fixed b1eebc1 reader-error:key[kf=cus,id62-pattern,lr]', spec('fa','key',kf='cus',pat=hx(ID62),lr=lr(f=1))),
 ('fixed b1eebc1 reader-error:str[id62-pattern,lr,rules]', spec('fa','str',r='1',pat=hx(ID62),lr=lr(q=1))),
 ('fixed b1eebc1 (by reading) date pattern on a string', spec('fa','str',r='1',pat=hx('^\\d{4}-\\d{2}-\\d{2}$'))),
 ('fixed b6c593a enum default filters must be options', spec('fa','enum',eopts=hx('ALPHA')+','+hx('BETA'),lr=lr(f=1,df=('ALPHA','E_FA_BETA')))),
 ('fixed b6c593a (inadmissible neighbour)', spec('fa','enum',eopts=hx('ALPHA')+','+hx('BETA'),lr=lr(f=1,df=('alpha',)))),
 ('fixed c0f36ba optional', spec('fa','str',opt='1',r='1',minl='1')),
 ('fixed d9448b1 map rules / value rules / singleForm', spec('fa','str',arr='m',ar='1',amin='1',amax='3',asf=hx('thing'),r='1',minl='2')),
 ('fixed ff3022c required map', spec('fa','str',arr='m',req='1')),
]
rules=[
 ('array-unique-on-message-items', spec('fa','obj',arr='1',ar='1',auniq='1')+' | ~ [] [P] [P,P]'),
 ('fixed c0f36ba optional-field-without-presence', spec('fa','str',opt='1',r='1',minl='1')+' | ~ - 61'),
 ('fixed b6c593a enum default filter', spec('fa','enum',eopts=hx('ALPHA'),lr=lr(f=1,df=('nope',)))+' | ~ 0 1 2'),
 ('regression (seeded C12-m8): rule-less enum field, not required, beside a required sibling of the same enum', spec('fa','enum',eopts=hx('ALPHA')+','+hx('BETA'))+' | ~ -1 0 1 2 3'),
 ('regression (seeded C12-m8): rule-less enum field, required, beside a non-required sibling of the same enum', spec('fa','enum',req='1',eopts=hx('ALPHA')+','+hx('BETA'))+' | ~ -1 0 1 2 3'),
 ('regression (seeded C12-m8): array of a rule-less enum beside a required sibling', spec('fa','enum',arr='1',eopts=hx('ALPHA'))+' | ~ [] [0] [1] [1,0]'),
 ('fixed d9448b1 map value rules', spec('fa','str',arr='m',ar='1',amin='1',amax='2',r='1',minl='2')+' | ~ [] [61] [6162] [6162,616263] [6162,616263,61626364] [6162,61]'),
]
def root(kind='obj',desc='~',ent='~',part='~',anym='~',barent='~'):
    return f"root={kind} desc={desc} ent={ent} part={part} anym={anym} barent={barent}"
# (signature, root segment, specs)
roots=[
 ('schema-diff:root:entity:invented[keys-field]', root(barent=hx('Widget')), [spec('keys','obj')]),
 ('regression: entity object with any-membership', root(desc=hx('the foo'),ent=hx('Thing'),part='2',anym=hx('alpha')+','+hx('second')), [spec('fa','str',req='1'), spec('fb','bool',arr='m',ar='1',amin='1')]),
 ('regression: entity without part, field keys of an entity object', root(ent=hx('Thing'),barent=hx('Widget')), [spec('keys','obj')]),
 ('regression (seeded C04-m3): non-canonical names on array / map / single / enum properties', root(), [spec('htmlURLs','str',arr='1'), spec('labelsByID','str',arr='m'), spec('x2y','int',fmt='i32'), spec('URL','enum',eopts=hx('ALPHA'))]),
 ('regression (seeded C04-m6): explicit UNSPECIFIED with a description, descriptions on some options, enum description', root(), [spec('fa','enum',eopts=hx('UNSPECIFIED')+','+hx('ALPHA')+','+hx('BETA'),eodesc=hx('zero desc')+',-,'+hx('bee'),edesc=hx('the enum')), spec('fb','enum',eopts=hx('ALPHA')+','+hx('E_FB_BETA'),eodesc=hx('ay')+','+hx('line one\nline two'))]),
 ('regression (seeded C04-m7): 12 properties with descriptions — order through the printed .proto text', root(desc=hx('wide')), [spec(n,'str',desc=hx('d '+n)) for n in ['fa','fb','fooBar','count','itemId','labels','status','kind','q','x2y','aB','a1']]),
 ('regression (seeded C04-m7): oneof root with 11 options', root(kind='oneof'), [spec(n,'int',fmt='i32') for n in ['fa','fb','fooBar','count','itemId','labels','status','kind','q','x2y','aB']]),
 ('regression (seeded C04-m7): enum with 12 described options', root(), [spec('fa','enum',eopts=','.join(hx(o) for o in ['ALPHA','BETA','GAMMA','DELTA','EPSILON','ZETA','ETA','THETA','IOTA','KAPPA','LAMBDA','MU']),eodesc=','.join(hx('d'+str(i)) for i in range(12)))]),
 ('schema-diff:array:obj:flat:1->0 + schema-diff:map:obj:flat:1->0 (round-4 audit)', root(), [spec('fa','obj',arr='1',flat='1'), spec('fb','obj',arr='m',flat='1')]),
 ('schema-diff:array:opt:1->0 + schema-diff:map:opt:1->0 (round-4 audit)', root(), [spec('fa','str',arr='1',opt='1'), spec('fb','str',arr='m',opt='1')]),
 ('regression: oneof root', root(kind='oneof',desc=hx('a oneof')), [spec('fa','obj',desc=hx('an option')), spec('fb','int',fmt='i32',r='1',min='3'), spec('fc','enum',eopts=hx('ALPHA'))]),
]
which=sys.argv[1]
if which=='schema':
    for sig,s in schema: print('schema ~ ;; '+s)
    for sig,r,specs in roots: print('schema '+r+' ;; '+' ;; '.join(specs))
else:
    for sig,s in rules: print('rules '+s)
