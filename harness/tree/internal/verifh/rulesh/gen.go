//go:build verif

package main

import (
	"math"
	"strconv"
	"strings"

	"github.com/pentops/j5/internal/verifh/vh"
)

func p64(v int64) *int64    { return &v }
func pu64(v uint64) *uint64 { return &v }
func pb(v bool) *bool       { return &v }
func ps(v string) *string   { return &v }

// property names: canonical lowerCamel ones and names that do NOT survive snake_case -> lowerCamel
// (acronyms, digits, capital runs at the start / middle / end, single letters). The declared name
// travels in json_name, the proto name is its snake_case; all snake_case forms are distinct.
var fieldNames = []string{"fa", "fb", "fooBar", "count", "itemId", "labels", "status", "kind", "alphaBetaGamma", "q",
	"htmlURLs", "labelsByID", "x2y", "fooID", "aB", "URL", "aBC", "fooBarBAZ", "a1", "iD", "HTTPServer", "dataV2"}

var descs = []string{"a field", "Two words, punctuated.", "line one\nline two", "ünïcode ✓", "with \"quotes\" and \\ backslash"}

// patterns of the small class; each with strings that match / do not match
type patCase struct {
	pat     string
	match   []string
	nomatch []string
}

var patCases = []patCase{
	{`^[a-z]{2,4}$`, []string{"ab", "abcd", "xyz"}, []string{"a", "abcde", "aB", "", "ab1"}},
	{`^[0-9A-Za-z]{22}$`, []string{"0123456789abcdefghijAB"}, []string{"0123456789abcdefghijA", "0123456789abcdefghijABC", "0123456789abcdefghij-B"}},
	{`^abc$`, []string{"abc"}, []string{"abcd", "xabc", "", "ab"}},
	{`abc`, []string{"abc", "xxabcxx", "abcabc"}, []string{"ab", "acb", ""}},
	{`^[A-Z]+$`, []string{"A", "ABCDEFG"}, []string{"", "AbC", "A B"}},
	{`^[a-c0-2]*$`, []string{"", "abc012", "a"}, []string{"d", "abc3"}},
	{`[0-9]{3}`, []string{"123", "ab1234", "x999"}, []string{"12", "1a2b3c", ""}},
	{`^x`, []string{"x", "xyz"}, []string{"", "yx"}},
	{`é$`, []string{"é", "café"}, []string{"e", "éa"}},
	{`^[a-z]$`, []string{"q"}, []string{"", "qq", "Q"}},
}

// enumFilterName: a default filter for an enum field. Mostly a declared option (or UNSPECIFIED) in
// one of the spellings the compiler accepts (short name, or with the enum prefix); rarely
// (1 in 10) something that is no option: wrong case, unknown name, a prefix of another enum
// (inadmissible declaration: compile error, oracle skipped).
func enumFilterName(h *vh.H, s *Spec) string {
	names := []string{"UNSPECIFIED"}
	for _, o := range s.EOpts {
		names = append(names, s.enumShort(o))
	}
	n := vh.Pick(h, names)
	switch {
	case h.Chance(1, 10):
		return vh.Pick(h, []string{strings.ToLower(n), "a", "b1", "second", "OTHER_" + n, n + "_X"})
	case h.Chance(1, 3):
		return s.enumPrefix() + n
	}
	return n
}

func genListRules(h *vh.H, s *Spec) *ListRules {
	kind := s.Kind
	if !h.Chance(1, 4) {
		return nil
	}
	l := &ListRules{}
	filt := func() {
		l.Filterable = h.Chance(3, 4)
		if h.Chance(1, 3) {
			if kind == "enum" {
				l.DefaultFilters = []string{enumFilterName(h, s)}
				if h.Chance(1, 3) {
					l.DefaultFilters = append(l.DefaultFilters, enumFilterName(h, s))
				}
				return
			}
			l.DefaultFilters = []string{vh.Pick(h, []string{"a", "b1", "VALUE"})}
			if h.Chance(1, 3) {
				l.DefaultFilters = append(l.DefaultFilters, "second")
			}
		}
	}
	sorting := func() {
		l.Sortable = h.Chance(3, 4)
		l.DefaultSort = h.Chance(1, 3)
	}
	switch kind {
	case "int", "f32", "f64", "ts", "dec":
		if h.Chance(1, 2) {
			filt()
		}
		if h.Chance(1, 2) {
			sorting()
		}
	case "bool", "key", "enum", "date", "any", "oneof":
		filt()
	case "str":
		l.Searchable = h.Chance(3, 4)
		if h.Chance(1, 3) {
			l.FieldIdent = "ident"
		}
	default:
		return nil
	}
	return l
}

func smallU(h *vh.H) uint64 {
	switch h.Rng.IntN(10) {
	case 0:
		return 0
	case 1:
		return uint64(10 + h.Rng.IntN(30))
	}
	return uint64(h.Rng.IntN(7))
}

func genBound(h *vh.H, fmtName string) int64 {
	// j5s text has no negative literals; bounds are 64-bit
	if h.Chance(1, 8) {
		big := []int64{math.MaxInt32 + 1, math.MaxUint32, math.MaxUint32 + 1, 3000000000, 1 << 40, math.MaxInt64, math.MaxInt64 - 1}
		return vh.Pick(h, big)
	}
	switch h.Rng.IntN(12) {
	case 0:
		return 0
	case 1:
		return math.MaxInt32
	case 2:
		return math.MaxInt32 - 1
	case 3:
		return 1
	}
	if h.Chance(1, 6) {
		return int64(h.Rng.IntN(math.MaxInt32))
	}
	return int64(h.Rng.IntN(20))
}

// genSpec draws one field declaration. wide=true (schema stream) also sets the annotations
// that carry no validation meaning (descriptions, list rules, flatten, entity keys).
func genSpec(h *vh.H, name string, wide bool) *Spec {
	s := &Spec{Name: name}
	kinds := []string{"str", "str", "int", "int", "int", "bool", "bytes", "key", "key", "enum", "enum", "obj", "oneof", "ts", "f32", "f64", "date", "dec", "any"}
	s.Kind = vh.Pick(h, kinds)
	switch h.Rng.IntN(6) {
	case 0, 1:
		s.Req = true
	case 2:
		s.Opt = true
	}
	s.Arr = h.Chance(1, 4)
	if s.Arr {
		// `?` on a repeated field: accepted by the compiler, not carried by the descriptor (open finding
		// schema-diff:array:opt:1->0, round-4 audit) — kept in 1 of 3 optional picks of the schema stream
		if !(wide && s.Opt && h.Chance(1, 3)) {
			s.Opt = false
		}
		if h.Chance(2, 3) {
			s.AR = true
			if h.Chance(1, 2) {
				s.AMin = pu64(smallU(h) % 4)
			}
			if h.Chance(1, 2) {
				s.AMax = pu64(smallU(h)%5 + 1)
			}
			if h.Chance(1, 3) {
				s.AUniq = pb(h.Chance(2, 3))
			}
			if s.AMin != nil && s.AMax != nil && *s.AMin > *s.AMax && !h.Chance(1, 10) {
				s.AMin, s.AMax = s.AMax, s.AMin
			}
		}
		if wide && h.Chance(1, 5) {
			s.ASF = ps(vh.Pick(h, []string{"item", "thing"}))
		}
	}
	if !s.Arr && h.Chance(1, 7) {
		// map:<kind>: string keys, values of the kind; rules.minPairs / maxPairs, ext.singleForm
		s.Map = true
		if !(wide && s.Opt && h.Chance(1, 3)) {
			s.Opt = false // as for arrays (open finding schema-diff:map:opt:1->0)
		}
		if h.Chance(2, 3) {
			s.AR = true
			if h.Chance(1, 2) {
				s.AMin = pu64(smallU(h) % 4)
			}
			if h.Chance(1, 2) {
				s.AMax = pu64(smallU(h)%5 + 1)
			}
			if s.AMin != nil && s.AMax != nil && *s.AMin > *s.AMax && !h.Chance(1, 10) {
				s.AMin, s.AMax = s.AMax, s.AMin
			}
		}
		if wide && h.Chance(1, 5) {
			s.ASF = ps(vh.Pick(h, []string{"pair", "entry"}))
		}
	}
	if isMsgKind(s.Kind) || s.Kind == "oneof" {
		if !s.Arr && s.Opt {
			s.Opt = false // message fields always have presence; `?` adds nothing
		}
	}
	withRules := h.Chance(3, 4)
	switch s.Kind {
	case "str":
		if withRules {
			s.R = true
			if h.Chance(1, 2) {
				s.MinL = pu64(smallU(h))
			}
			if h.Chance(1, 2) {
				s.MaxL = pu64(smallU(h))
			}
			if s.MinL != nil && s.MaxL != nil && *s.MinL > *s.MaxL && !h.Chance(1, 10) {
				s.MinL, s.MaxL = s.MaxL, s.MinL
			}
			if h.Chance(1, 3) {
				s.Pat = ps(vh.Pick(h, patCases).pat)
			}
		}
	case "bytes":
		if withRules {
			s.R = true
			if h.Chance(1, 2) {
				s.MinL = pu64(smallU(h))
			}
			if h.Chance(1, 2) {
				s.MaxL = pu64(smallU(h))
			}
			if s.MinL != nil && s.MaxL != nil && *s.MinL > *s.MaxL && !h.Chance(1, 10) {
				s.MinL, s.MaxL = s.MaxL, s.MinL
			}
		}
	case "int":
		s.Fmt = vh.Pick(h, []string{"i32", "i64", "u32", "u64"})
		if withRules {
			s.R = true
			if h.Chance(2, 3) {
				s.Min = p64(genBound(h, s.Fmt))
			}
			if h.Chance(2, 3) {
				s.Max = p64(genBound(h, s.Fmt))
			}
			if s.Min != nil && s.Max != nil && *s.Min > *s.Max && !h.Chance(1, 10) {
				s.Min, s.Max = s.Max, s.Min
			}
			if s.Min != nil && h.Chance(1, 2) {
				s.EMin = pb(h.Chance(1, 2))
			}
			if s.Max != nil && h.Chance(1, 2) {
				s.EMax = pb(h.Chance(1, 2))
			}
			// rarely: an exclusive flag without its bound (compiler: error when false, ignored when true)
			if s.Min == nil && h.Chance(1, 12) {
				s.EMin = pb(h.Chance(1, 2))
			}
			if s.Max == nil && h.Chance(1, 12) {
				s.EMax = pb(h.Chance(1, 2))
			}
		}
	case "bool":
		if withRules {
			s.R = true
			if h.Chance(3, 4) {
				s.Const = pb(h.Chance(1, 2))
			}
		}
	case "key":
		s.KF = vh.Pick(h, []string{"", "inf", "cus", "uuid", "id62", "id62"})
		if s.KF == "cus" {
			s.Pat = ps(vh.Pick(h, patCases).pat)
		}
		if wide && !s.Arr && !s.Map {
			switch h.Rng.IntN(6) {
			case 0:
				s.PK = pb(true)
			case 1:
				s.PK = pb(false)
			case 2:
				s.FK = ps(vh.Pick(h, []string{"foo.v1.thing", "other.pkg.v2.widget"}))
			}
			if h.Chance(1, 5) {
				s.TK = ps(vh.Pick(h, []string{"tenant", "org"}))
			}
			if s.PK != nil && *s.PK && s.Opt {
				s.Opt = false
			}
		} else if !s.Arr && !s.Map && h.Chance(1, 8) {
			s.PK = pb(true)
			s.Opt = false
		}
	case "enum":
		n := 1 + h.Rng.IntN(4)
		names := []string{"ALPHA", "BETA", "GAMMA", "DELTA", "EPSILON", "ZETA", "ETA", "THETA", "IOTA", "KAPPA", "LAMBDA", "MU", "NU", "XI"}
		wideEnum := wide && h.Chance(1, 12)
		if wideEnum {
			// 11..13 options, every one described below (value index >= 10: see genSchemaOp)
			n = 11 + h.Rng.IntN(3)
		}
		s.EOpts = append([]string{}, names[:n]...)
		if h.Chance(1, 4) {
			// enum values live in the package scope: keep declared prefixes distinct per field
			s.EPre = ps(vh.Pick(h, []string{"XX_", "MY_PREFIX_"}) + strings.ToUpper(name) + "_")
		}
		if h.Chance(1, 5) {
			// explicit unspecified first option
			s.EOpts = append([]string{"UNSPECIFIED"}, s.EOpts...)
		}
		if h.Chance(1, 5) {
			// an option declared with its prefix
			s.EOpts[len(s.EOpts)-1] = s.enumPrefix() + s.EOpts[len(s.EOpts)-1]
		}
		if wide {
			// descriptions: of the enum, and of none / some / all options — including the zero option
			// when it is declared explicitly
			if h.Chance(1, 4) {
				s.EDesc = ps(vh.Pick(h, descs))
			}
			if h.Chance(1, 2) || wideEnum {
				s.EODesc = make([]string, len(s.EOpts))
				all := h.Chance(1, 3) || wideEnum
				for i := range s.EODesc {
					if all || h.Chance(1, 2) {
						s.EODesc[i] = vh.Pick(h, descs)
					}
				}
			}
		}
		if withRules {
			s.R = true
			pick := func() []string {
				var out []string
				for _, o := range names[:n] {
					if h.Chance(1, 2) {
						if h.Chance(1, 4) {
							out = append(out, s.enumPrefix()+o)
						} else {
							out = append(out, o)
						}
					}
				}
				return out
			}
			if h.Chance(1, 2) {
				s.In = pick()
			}
			if h.Chance(1, 2) {
				s.NIn = pick()
				if h.Chance(1, 4) {
					s.NIn = append(s.NIn, "UNSPECIFIED")
				}
			}
		}
	case "obj":
		s.R = withRules && h.Chance(1, 3)
		if wide && !s.Arr && !s.Map {
			s.Flat = h.Chance(1, 4)
		} else if wide {
			// items.object.flatten / itemSchema.object.flatten: lost like the other item annotations
			// (open finding schema-diff:array:obj:flat:1->0 / map, round-4 audit)
			s.Flat = h.Chance(1, 6)
		}
	case "oneof", "ts":
		s.R = withRules && h.Chance(1, 3)
	case "date", "dec":
		if wide && withRules && h.Chance(1, 2) {
			s.R = true
			lo, hi := "2020-01-02", "2030-12-31"
			if s.Kind == "dec" {
				lo, hi = "0.5", "100"
			}
			if h.Chance(2, 3) {
				s.DMin = ps(lo)
			}
			if h.Chance(2, 3) {
				s.DMax = ps(hi)
			}
			if h.Chance(1, 2) {
				s.EMin = pb(h.Chance(1, 2))
			}
			if h.Chance(1, 2) {
				s.EMax = pb(h.Chance(1, 2))
			}
		}
	}
	if wide {
		if h.Chance(1, 3) {
			s.Desc = ps(vh.Pick(h, descs))
		}
		if (!s.Arr && !s.Map) || h.Chance(1, 6) {
			s.LR = genListRules(h, s)
		}
		if s.Kind == "str" && h.Chance(1, 12) {
			s.SFmt = ps(vh.Pick(h, []string{"email", "uri", "uuid"}))
		}
	} else if s.Kind == "enum" && h.Chance(1, 3) {
		// the rules stream carries list rules only where the compiler inspects them: the default
		// filters of an enum field must name options of the enum (else: compile error)
		s.LR = genListRules(h, s)
	}
	return s
}

// ---------------------------------------------------------------- candidate values around the boundaries

func strOfLen(h *vh.H, n uint64) string {
	alpha := []string{"a", "b", "Z", "0", "é", "😀", "-"}
	var sb strings.Builder
	for i := uint64(0); i < n; i++ {
		if h.Chance(1, 5) {
			sb.WriteString(vh.Pick(h, alpha))
		} else {
			sb.WriteString(vh.Pick(h, alpha[:4]))
		}
	}
	return sb.String()
}

func around(n uint64) []uint64 {
	out := []uint64{n, n + 1}
	if n > 0 {
		out = append(out, n-1)
	}
	return out
}

const id62Good = "0123456789abcdefghijAB"
const uuidGood = "123e4567-e89b-12d3-a456-426614174000"

func genItemVals(h *vh.H, s *Spec) []string {
	var out []string
	add := func(v string) { out = append(out, v) }
	switch s.Kind {
	case "str":
		lens := []uint64{0, 1}
		if s.MinL != nil {
			lens = append(lens, around(*s.MinL)...)
		}
		if s.MaxL != nil {
			lens = append(lens, around(*s.MaxL)...)
		}
		lens = append(lens, uint64(h.Rng.IntN(8)))
		for _, n := range lens {
			if n > 60 {
				n = 60
			}
			add(vh.Hex([]byte(strOfLen(h, n))))
		}
		if s.Pat != nil {
			for _, pc := range patCases {
				if pc.pat == *s.Pat {
					for _, m := range pc.match {
						add(vh.Hex([]byte(m)))
					}
					for _, m := range pc.nomatch {
						add(vh.Hex([]byte(m)))
					}
				}
			}
		}
	case "bytes":
		lens := []uint64{0, 1}
		if s.MinL != nil {
			lens = append(lens, around(*s.MinL)...)
		}
		if s.MaxL != nil {
			lens = append(lens, around(*s.MaxL)...)
		}
		for _, n := range lens {
			if n > 60 {
				n = 60
			}
			b := make([]byte, n)
			for i := range b {
				b[i] = byte(h.Rng.IntN(256))
			}
			add(vh.Hex(b))
		}
	case "bool":
		add("0")
		add("1")
	case "int":
		var lo, hi int64
		var uhi uint64
		switch s.Fmt {
		case "i32":
			lo, hi = math.MinInt32, math.MaxInt32
		case "i64":
			lo, hi = math.MinInt64, math.MaxInt64
		case "u32":
			lo, hi = 0, math.MaxUint32
		case "u64":
			lo, hi, uhi = 0, math.MaxInt64, math.MaxUint64
		}
		cands := []int64{0, 1, lo, hi, -1}
		for _, b := range []*int64{s.Min, s.Max} {
			if b != nil {
				cands = append(cands, *b)
				if *b > math.MinInt64 {
					cands = append(cands, *b-1)
				}
				if *b < math.MaxInt64 {
					cands = append(cands, *b+1)
				}
			}
		}
		cands = append(cands, int64(h.Rng.IntN(40)))
		seen := map[int64]bool{}
		for _, c := range cands {
			if c < lo || c > hi || seen[c] {
				continue
			}
			seen[c] = true
			add(strconv.FormatInt(c, 10))
		}
		if uhi != 0 {
			add(strconv.FormatUint(uhi, 10))
		}
	case "enum":
		n := len(s.enumNumbers())
		for i := -1; i <= n+1; i++ {
			add(strconv.Itoa(i))
		}
		add("100")
	case "key":
		add("-")
		add(vh.Hex([]byte(id62Good)))
		add(vh.Hex([]byte(id62Good[:21])))
		add(vh.Hex([]byte(id62Good + "C")))
		add(vh.Hex([]byte(id62Good[:21] + "-")))
		add(vh.Hex([]byte(id62Good[:21] + "é")))
		add(vh.Hex([]byte(uuidGood)))
		add(vh.Hex([]byte(strings.ToUpper(uuidGood))))
		add(vh.Hex([]byte(strings.ReplaceAll(uuidGood, "-", ""))))
		add(vh.Hex([]byte(uuidGood[:35])))
		add(vh.Hex([]byte(uuidGood[:35] + "g")))
		add(vh.Hex([]byte("{" + uuidGood + "}")))
		add(vh.Hex([]byte("hello")))
		if s.Pat != nil {
			for _, pc := range patCases {
				if pc.pat == *s.Pat {
					for _, m := range append(append([]string{}, pc.match...), pc.nomatch...) {
						add(vh.Hex([]byte(m)))
					}
				}
			}
		}
	case "f32", "f64":
		add("0")
		add("1")
	default:
		add("P")
	}
	return out
}

func genVals(h *vh.H, s *Spec) []string {
	items := genItemVals(h, s)
	if !s.Arr && !s.Map {
		out := append([]string{"~"}, items...)
		return out
	}
	// arrays: sizes around the count bounds, a duplicate, every candidate item once in a singleton,
	// and mixtures
	var out []string
	out = append(out, "~", "[]")
	valid := []string{}
	for _, it := range items {
		if ok, _, unk := j5Item(s, it); ok && !unk {
			valid = append(valid, it)
		}
	}
	if len(valid) == 0 {
		valid = items[:1]
	}
	mk := func(n int, distinct bool) string {
		var l []string
		for i := 0; i < n; i++ {
			if distinct && i < len(valid) {
				l = append(l, valid[i])
			} else {
				l = append(l, vh.Pick(h, valid))
			}
		}
		return "[" + strings.Join(l, ",") + "]"
	}
	sizes := []uint64{1, 2, 3}
	if s.AMin != nil {
		sizes = append(sizes, around(*s.AMin)...)
	}
	if s.AMax != nil {
		sizes = append(sizes, around(*s.AMax)...)
	}
	for _, n := range sizes {
		if n > 8 {
			n = 8
		}
		out = append(out, mk(int(n), true))
		if n >= 2 && h.Chance(1, 2) {
			out = append(out, mk(int(n), false))
		}
	}
	out = append(out, "["+valid[0]+","+valid[0]+"]")
	for _, it := range items {
		out = append(out, "["+it+"]")
	}
	if len(items) > 1 {
		out = append(out, "["+valid[0]+","+items[len(items)-1]+"]")
	}
	return out
}

// ---------------------------------------------------------------- ops

func genRulesOp(h *vh.H, i int) string {
	s := genSpec(h, vh.Pick(h, fieldNames), false)
	vals := genVals(h, s)
	if len(vals) > 40 {
		vals = vals[:40]
	}
	return "rules " + s.Encode() + " | " + strings.Join(vals, " ")
}

func genSchemaOp(h *vh.H, i int) string {
	n := 1 + h.Rng.IntN(4)
	if h.Chance(1, 12) {
		// wide roots: 11..14 properties. Source locations are numbered per element, and the printed
		// .proto text orders a message's elements by them: an index >= 10 is where a textual instead of
		// a numeric ordering of location paths shows (seeded C04-m7) — order through the text path
		n = 11 + h.Rng.IntN(4)
	}
	used := map[string]bool{}
	var segs []string
	root := &Root{Kind: "obj"}
	if h.Chance(1, 3) {
		root.Desc = ps(vh.Pick(h, descs))
	}
	switch {
	case h.Chance(1, 6):
		// `oneof Foo { option … }`: the options are the fields under test
		root.Kind = "oneof"
	default:
		if h.Chance(1, 6) {
			// entity annotation of the object (what the `entity` sugar writes on Keys / State / Event / Data objects)
			root.Ent = ps(vh.Pick(h, []string{"Thing", "FooBar"}))
			if h.Chance(4, 5) {
				p := h.Rng.IntN(6)
				root.Part = &p
			}
		}
		if h.Chance(1, 8) {
			root.AnyM = []string{vh.Pick(h, []string{"alpha", "foo.v1.things"})}
			if h.Chance(1, 3) {
				root.AnyM = append(root.AnyM, "second")
			}
		}
		if h.Chance(1, 10) {
			root.BarEnt = ps("Widget")
		}
	}
	segs = append(segs, root.Encode())
	for k := 0; k < n; k++ {
		// without replacement: names (and their snake_case proto names) stay distinct
		name := vh.Pick(h, fieldNames)
		for used[name] {
			name = vh.Pick(h, fieldNames)
		}
		used[name] = true
		s := genSpec(h, name, true)
		if root.Kind == "oneof" {
			// an option of a oneof: no `!` / `?`, not a primary key (would force required), and neither
			// array nor map (proto has no repeated oneof members: the compiler's output does not re-parse)
			s.Req, s.Opt = false, false
			if s.PK != nil && *s.PK {
				s.PK = nil
			}
			if s.Arr || s.Map {
				s.Arr, s.Map, s.AR, s.AMin, s.AMax, s.AUniq, s.ASF = false, false, false, nil, nil, nil, nil
			}
		} else if root.BarEnt != nil && s.Kind == "obj" && !s.Map && !used["keys"] && h.Chance(1, 2) {
			// the reader's legacy PSM lookup goes through a field called `keys`
			s.Name = "keys"
			used["keys"] = true
		}
		segs = append(segs, s.Encode())
	}
	return "schema " + strings.Join(segs, " ;; ")
}
