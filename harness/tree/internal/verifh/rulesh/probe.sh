#!/bin/bash
# probe.sh <file.j5s> [repo] — development aid: compiles a j5s file with `object Foo` through the real
# compiler and prints constraints, reflected flats, text-path comparison and the printed proto.
export GOFLAGS=-mod=mod GOPROXY=off
REPO=${2:-/repo}
W=/tmp/rules-scratch; mkdir -p $W
cd /verif && OV=$(python3 -c "
import sys,os; sys.path.insert(0,'/verif'); os.environ['VERIF_REPO']='$REPO'
from vlib import engine
print(engine.write_overlay())" | tail -1)
(cd $REPO && go build -tags verif -overlay $OV -o $W/rulesh ./internal/verifh/rulesh) || exit 1
echo "probe $(xxd -p $1 | tr -d '\n')" > $W/probe.ops
rm -rf $W/out; mkdir -p $W/out
$W/rulesh -ops $W/probe.ops -out $W/out >/dev/null 2>&1
sed 's/\\n/\n/g' $W/out/go.out
