//go:build verif

package main

import (
	"context"
	"fmt"
	"io"
	stdlog "log"
	"log/slog"
	"sort"
	"strconv"
	"strings"

	"buf.build/gen/go/bufbuild/protovalidate/protocolbuffers/go/buf/validate"
	"github.com/bufbuild/protocompile"
	"github.com/bufbuild/protocompile/linker"
	"github.com/pentops/j5/internal/j5s/protobuild"
	"github.com/pentops/j5/internal/j5s/protoprint"
	"github.com/pentops/j5/internal/verifh/vh"
	"github.com/pentops/log.go/log"
	"google.golang.org/protobuf/proto"
	"google.golang.org/protobuf/reflect/protodesc"
	"google.golang.org/protobuf/reflect/protoreflect"
	"google.golang.org/protobuf/reflect/protoregistry"
	"google.golang.org/protobuf/types/descriptorpb"
)

func init() {
	// the compiler logs walker errors through the std logger / pentops logger; keep the harness quiet
	stdlog.SetOutput(io.Discard)
	log.DefaultLogger = silentLogger{}
}

type silentLogger struct{}

func (silentLogger) Debug(context.Context, string)                      {}
func (silentLogger) Info(context.Context, string)                       {}
func (silentLogger) Warn(context.Context, string)                       {}
func (silentLogger) Error(context.Context, string)                      {}
func (silentLogger) AddCollector(log.ContextCollector)                  {}
func (silentLogger) SetLevel(slog.Level)                               {}
func (silentLogger) ErrorContext(context.Context, string, ...any)       {}

type memFiles struct{ m map[string][]byte }

func (f *memFiles) ListPackages() []string { return []string{"foo.v1"} }
func (f *memFiles) ListSourceFiles(ctx context.Context, prefix string) ([]string, error) {
	var out []string
	for k := range f.m {
		if strings.HasPrefix(k, prefix) {
			out = append(out, k)
		}
	}
	sort.Strings(out)
	return out, nil
}
func (f *memFiles) GetLocalFile(ctx context.Context, fn string) ([]byte, error) {
	if b, ok := f.m[fn]; ok {
		return b, nil
	}
	return nil, fmt.Errorf("file not found: %s", fn)
}

type noDeps struct{}

func (noDeps) ListDependencyFiles(root string) []string { return nil }
func (noDeps) GetDependencyFile(fn string) (*descriptorpb.FileDescriptorProto, error) {
	return nil, fmt.Errorf("no dependency %s", fn)
}

// compileJ5s runs the real compiler on one j5s file `foo/v1/a.j5s` and returns the linked file.
func compileJ5s(text string) (linker.File, error) {
	ps, err := protobuild.NewPackageSet(noDeps{}, &memFiles{m: map[string][]byte{"foo/v1/a.j5s": []byte(text)}})
	if err != nil {
		return nil, err
	}
	out, err := ps.CompilePackage(context.Background(), "foo.v1")
	if err != nil {
		return nil, err
	}
	for _, f := range out {
		if f.Path() == "foo/v1/a.j5s.proto" {
			return f, nil
		}
	}
	return nil, fmt.Errorf("compiled file missing")
}

// reparse prints the compiled file with the repo's printer and parses the text again with
// protocompile (imports resolved from the global registry, where buf/validate and the j5
// annotation files are linked in).
func reparse(f protoreflect.FileDescriptor) (protoreflect.FileDescriptor, string, error) {
	txt, err := protoprint.PrintFile(context.Background(), f, "")
	if err != nil {
		return nil, "", fmt.Errorf("print: %w", err)
	}
	path := f.Path()
	comp := protocompile.Compiler{
		Resolver: protocompile.CompositeResolver{
			&protocompile.SourceResolver{Accessor: protocompile.SourceAccessorFromMap(map[string]string{path: txt})},
			protocompile.ResolverFunc(func(p string) (protocompile.SearchResult, error) {
				fd, err := protoregistry.GlobalFiles.FindFileByPath(p)
				if err != nil {
					return protocompile.SearchResult{}, err
				}
				return protocompile.SearchResult{Desc: fd}, nil
			}),
		},
		SourceInfoMode: protocompile.SourceInfoStandard,
	}
	files, err := comp.Compile(context.Background(), path)
	if err != nil {
		return nil, txt, fmt.Errorf("reparse: %w", err)
	}
	// protocompile keeps custom options as dynamic messages; lib/j5schema (like every consumer of
	// generated code) expects the generated extension types, so round-trip through the wire form
	// with the global type registry, as loading a descriptor set from disk would.
	fdp := protodesc.ToFileDescriptorProto(files[0])
	b, err := proto.Marshal(fdp)
	if err != nil {
		return nil, txt, fmt.Errorf("reparse marshal: %w", err)
	}
	fresh := &descriptorpb.FileDescriptorProto{}
	if err := (proto.UnmarshalOptions{Resolver: protoregistry.GlobalTypes}).Unmarshal(b, fresh); err != nil {
		return nil, txt, fmt.Errorf("reparse unmarshal: %w", err)
	}
	fd, err := protodesc.NewFile(fresh, protoregistry.GlobalFiles)
	if err != nil {
		return nil, txt, fmt.Errorf("reparse link: %w", err)
	}
	return fd, txt, nil
}

// ---------------------------------------------------------------- canonical dump of (buf.validate.field)

func fieldConstraints(fd protoreflect.FieldDescriptor) *validate.FieldConstraints {
	opts, ok := fd.Options().(*descriptorpb.FieldOptions)
	if !ok || opts == nil {
		return nil
	}
	if !proto.HasExtension(opts, validate.E_Field) {
		// options decoded by protocompile may hold the extension as unknown/dynamic: re-marshal
		b, err := proto.Marshal(opts)
		if err != nil {
			return nil
		}
		fresh := &descriptorpb.FieldOptions{}
		if err := proto.Unmarshal(b, fresh); err != nil {
			return nil
		}
		if !proto.HasExtension(fresh, validate.E_Field) {
			return nil
		}
		opts = fresh
	}
	fc, _ := proto.GetExtension(opts, validate.E_Field).(*validate.FieldConstraints)
	return fc
}

func dumpOptU(p *uint64) string {
	if p == nil {
		return "~"
	}
	return strconv.FormatUint(*p, 10)
}

// dumpFC: canonical text of the subset of FieldConstraints the compiler emits; anything outside
// the subset is made visible as `other(...)` so that it can never compare equal to the model.
func dumpFC(fc *validate.FieldConstraints) string {
	if fc == nil {
		return "none"
	}
	var sb strings.Builder
	sb.WriteString("fc(req=")
	if fc.Required == nil {
		sb.WriteString("~")
	} else {
		sb.WriteString(b01(*fc.Required))
	}
	sb.WriteString(",")
	sb.WriteString(dumpType(fc))
	if fc.Ignore != nil || len(fc.Cel) > 0 {
		sb.WriteString(",other(ignore/cel)")
	}
	sb.WriteString(")")
	return sb.String()
}

func dumpType(fc *validate.FieldConstraints) string {
	switch t := fc.Type.(type) {
	case nil:
		return "t=none"
	case *validate.FieldConstraints_String_:
		r := t.String_
		s := fmt.Sprintf("t=str(min=%s,max=%s,pat=%s,uuid=%s)", dumpOptU(r.MinLen), dumpOptU(r.MaxLen), optS(r.Pattern), wkStr(r))
		if extraSet(r.ProtoReflect(), "min_len", "max_len", "pattern", "uuid") {
			s += "+other"
		}
		return s
	case *validate.FieldConstraints_Bytes:
		r := t.Bytes
		s := fmt.Sprintf("t=bytes(min=%s,max=%s)", dumpOptU(r.MinLen), dumpOptU(r.MaxLen))
		if extraSet(r.ProtoReflect(), "min_len", "max_len") {
			s += "+other"
		}
		return s
	case *validate.FieldConstraints_Bool:
		r := t.Bool
		c := "~"
		if r.Const != nil {
			c = b01(*r.Const)
		}
		return "t=bool(const=" + c + ")"
	case *validate.FieldConstraints_Int32:
		r := t.Int32
		ub, lb := "~", "~"
		switch b := r.LessThan.(type) {
		case *validate.Int32Rules_Lt:
			ub = "lt:" + strconv.FormatInt(int64(b.Lt), 10)
		case *validate.Int32Rules_Lte:
			ub = "lte:" + strconv.FormatInt(int64(b.Lte), 10)
		}
		switch b := r.GreaterThan.(type) {
		case *validate.Int32Rules_Gt:
			lb = "gt:" + strconv.FormatInt(int64(b.Gt), 10)
		case *validate.Int32Rules_Gte:
			lb = "gte:" + strconv.FormatInt(int64(b.Gte), 10)
		}
		return intDump("i32", ub, lb, r.ProtoReflect())
	case *validate.FieldConstraints_Int64:
		r := t.Int64
		ub, lb := "~", "~"
		switch b := r.LessThan.(type) {
		case *validate.Int64Rules_Lt:
			ub = "lt:" + strconv.FormatInt(b.Lt, 10)
		case *validate.Int64Rules_Lte:
			ub = "lte:" + strconv.FormatInt(b.Lte, 10)
		}
		switch b := r.GreaterThan.(type) {
		case *validate.Int64Rules_Gt:
			lb = "gt:" + strconv.FormatInt(b.Gt, 10)
		case *validate.Int64Rules_Gte:
			lb = "gte:" + strconv.FormatInt(b.Gte, 10)
		}
		return intDump("i64", ub, lb, r.ProtoReflect())
	case *validate.FieldConstraints_Uint32:
		r := t.Uint32
		ub, lb := "~", "~"
		switch b := r.LessThan.(type) {
		case *validate.UInt32Rules_Lt:
			ub = "lt:" + strconv.FormatUint(uint64(b.Lt), 10)
		case *validate.UInt32Rules_Lte:
			ub = "lte:" + strconv.FormatUint(uint64(b.Lte), 10)
		}
		switch b := r.GreaterThan.(type) {
		case *validate.UInt32Rules_Gt:
			lb = "gt:" + strconv.FormatUint(uint64(b.Gt), 10)
		case *validate.UInt32Rules_Gte:
			lb = "gte:" + strconv.FormatUint(uint64(b.Gte), 10)
		}
		return intDump("u32", ub, lb, r.ProtoReflect())
	case *validate.FieldConstraints_Uint64:
		r := t.Uint64
		ub, lb := "~", "~"
		switch b := r.LessThan.(type) {
		case *validate.UInt64Rules_Lt:
			ub = "lt:" + strconv.FormatUint(b.Lt, 10)
		case *validate.UInt64Rules_Lte:
			ub = "lte:" + strconv.FormatUint(b.Lte, 10)
		}
		switch b := r.GreaterThan.(type) {
		case *validate.UInt64Rules_Gt:
			lb = "gt:" + strconv.FormatUint(b.Gt, 10)
		case *validate.UInt64Rules_Gte:
			lb = "gte:" + strconv.FormatUint(b.Gte, 10)
		}
		return intDump("u64", ub, lb, r.ProtoReflect())
	case *validate.FieldConstraints_Enum:
		r := t.Enum
		d := "~"
		if r.DefinedOnly != nil {
			d = b01(*r.DefinedOnly)
		}
		s := fmt.Sprintf("t=enum(def=%s,in=%s,nin=%s)", d, intList(r.In), intList(r.NotIn))
		if r.Const != nil {
			s += "+other"
		}
		return s
	case *validate.FieldConstraints_Timestamp:
		if extraSet(t.Timestamp.ProtoReflect()) {
			return "t=ts+other"
		}
		return "t=ts"
	case *validate.FieldConstraints_Repeated:
		r := t.Repeated
		u := "~"
		if r.Unique != nil {
			u = b01(*r.Unique)
		}
		items := "~"
		if r.Items != nil {
			if r.Items.Required != nil || r.Items.Ignore != nil || len(r.Items.Cel) > 0 {
				items = "other"
			} else {
				items = "(" + dumpType(r.Items) + ")"
			}
		}
		return fmt.Sprintf("t=rep(min=%s,max=%s,uniq=%s,items=%s)", dumpOptU(r.MinItems), dumpOptU(r.MaxItems), u, items)
	case *validate.FieldConstraints_Map:
		r := t.Map
		values := "~"
		if r.Values != nil {
			if r.Values.Required != nil || r.Values.Ignore != nil || len(r.Values.Cel) > 0 {
				values = "other"
			} else {
				values = "(" + dumpType(r.Values) + ")"
			}
		}
		s := fmt.Sprintf("t=map(min=%s,max=%s,values=%s)", dumpOptU(r.MinPairs), dumpOptU(r.MaxPairs), values)
		if r.Keys != nil {
			s += "+other"
		}
		return s
	default:
		return fmt.Sprintf("t=other(%T)", t)
	}
}

func wkStr(r *validate.StringRules) string {
	switch w := r.WellKnown.(type) {
	case nil:
		return "0"
	case *validate.StringRules_Uuid:
		return b01(w.Uuid)
	default:
		return fmt.Sprintf("other(%T)", w)
	}
}

func intDump(kind, ub, lb string, m protoreflect.Message) string {
	s := fmt.Sprintf("t=int(%s,%s,%s)", kind, ub, lb)
	if extraSet(m, "lt", "lte", "gt", "gte") {
		s += "+other"
	}
	return s
}

func intList(l []int32) string {
	if len(l) == 0 {
		return "~"
	}
	out := make([]string, len(l))
	for i, n := range l {
		out[i] = strconv.FormatInt(int64(n), 10)
	}
	return strings.Join(out, ",")
}

// extraSet reports whether any field other than the named ones is populated.
func extraSet(m protoreflect.Message, known ...string) bool {
	extra := false
	m.Range(func(fd protoreflect.FieldDescriptor, _ protoreflect.Value) bool {
		for _, k := range known {
			if string(fd.Name()) == k {
				return true
			}
		}
		extra = true
		return false
	})
	return extra
}

var _ = vh.Hex
var _ = protodesc.ToFieldDescriptorProto

var optPresMeasured *bool

// optPresFact compiles `field p ? string` once and reports whether the linked field has presence.
// The model takes this fact as a parameter (its theorems hold for both values).
func optPresFact() bool {
	if optPresMeasured != nil {
		return *optPresMeasured
	}
	res := false
	if f, err := compileJ5s("package foo.v1\n\nobject Foo {\n  field z ! string\n  field p ? string\n}\n"); err == nil {
		if md := f.Messages().ByName("Foo"); md != nil {
			if fd := md.Fields().ByName("p"); fd != nil {
				res = fd.HasPresence()
			}
		}
	}
	optPresMeasured = &res
	return res
}
