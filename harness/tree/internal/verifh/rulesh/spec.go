//go:build verif

package main

import (
	"fmt"
	"sort"
	"strconv"
	"strings"

	"github.com/iancoleman/strcase"
	"github.com/pentops/j5/internal/verifh/vh"
)

// Spec is one declared j5s field (property) in the vocabulary of the rules cluster. It is
// what the generator draws, what goes on the wire (k=v tokens) and what both the j5s text
// renderer and the independent oracles start from. `nil` / "" = absent.
type Spec struct {
	Name string // j5s field name (lowerCamel, letters only)
	Kind string // str int bool bytes key enum obj oneof ts f32 f64 date dec any
	Req  bool
	Opt  bool
	Desc *string

	Arr   bool // array of Kind
	Map   bool // map of string to Kind (exclusive with Arr); AR / AMin / AMax / ASF are then the map's rules (minPairs, maxPairs) and ext.singleForm
	AR    bool // array rules message present
	AMin  *uint64
	AMax  *uint64
	AUniq *bool
	ASF   *string // array ext.singleForm

	R bool // rules message of the (item) type present

	Fmt        string // int: i32 i64 u32 u64
	Min, Max   *int64
	EMin, EMax *bool   // also the exclusive flags of date / decimal rules
	DMin, DMax *string // date / decimal bounds (text)

	MinL, MaxL *uint64 // str, bytes
	Pat        *string // str rules.pattern, key custom pattern
	SFmt       *string // str format

	Const *bool

	KF string // key format: "" (none) inf cus uuid id62
	PK *bool
	FK *string // "pkg.v1.entity"
	TK *string

	EOpts  []string // enum option names as declared
	EODesc []string // descriptions of the options, aligned with EOpts ("" = none); nil = no option has one
	EDesc  *string  // description of the enum itself
	EPre   *string  // declared prefix
	In    []string
	NIn   []string

	Flat bool

	LR *ListRules
}

type ListRules struct {
	Filterable     bool
	DefaultFilters []string
	Sortable       bool
	DefaultSort    bool
	Searchable     bool
	FieldIdent     string
}

func (l *ListRules) isZero() bool {
	return l == nil || (!l.Filterable && len(l.DefaultFilters) == 0 && !l.Sortable && !l.DefaultSort && !l.Searchable && l.FieldIdent == "")
}

// token: opaque to the model; "~" when absent or all-zero (an empty list-rules message says nothing).
func (l *ListRules) token() string {
	if l.isZero() {
		return "~"
	}
	return l.wireToken()
}

// wireToken: "~" only when the list-rules message is absent; a present but all-zero message is
// spelled out (the compiler writes the annotation whenever the message is present).
func (l *ListRules) wireToken() string {
	if l == nil {
		return "~"
	}
	df := make([]string, len(l.DefaultFilters))
	for i, d := range l.DefaultFilters {
		df[i] = vh.Hex([]byte(d))
	}
	return fmt.Sprintf("f%s/df%s/s%s/ds%s/q%s/qi%s", b01(l.Filterable), strings.Join(df, "+"), b01(l.Sortable), b01(l.DefaultSort), b01(l.Searchable), vh.Hex([]byte(l.FieldIdent)))
}

func parseListRules(tok string) (*ListRules, bool) {
	if tok == "~" {
		return nil, true
	}
	parts := strings.Split(tok, "/")
	if len(parts) != 6 {
		return nil, false
	}
	l := &ListRules{}
	get := func(p, pre string) (string, bool) {
		if !strings.HasPrefix(p, pre) {
			return "", false
		}
		return p[len(pre):], true
	}
	var ok bool
	var s string
	if s, ok = get(parts[0], "f"); !ok {
		return nil, false
	}
	l.Filterable = s == "1"
	if s, ok = get(parts[1], "df"); !ok {
		return nil, false
	}
	if s != "" {
		for _, h := range strings.Split(s, "+") {
			b, ok := vh.UnHex(h)
			if !ok {
				return nil, false
			}
			l.DefaultFilters = append(l.DefaultFilters, string(b))
		}
	}
	if s, ok = get(parts[2], "s"); !ok {
		return nil, false
	}
	l.Sortable = s == "1"
	if s, ok = get(parts[3], "ds"); !ok {
		return nil, false
	}
	l.DefaultSort = s == "1"
	if s, ok = get(parts[4], "q"); !ok {
		return nil, false
	}
	l.Searchable = s == "1"
	if s, ok = get(parts[5], "qi"); !ok {
		return nil, false
	}
	b, ok := vh.UnHex(s)
	if !ok {
		return nil, false
	}
	l.FieldIdent = string(b)
	return l, true
}

func b01(b bool) string {
	if b {
		return "1"
	}
	return "0"
}

func optU(p *uint64) string {
	if p == nil {
		return "~"
	}
	return strconv.FormatUint(*p, 10)
}
func optI(p *int64) string {
	if p == nil {
		return "~"
	}
	return strconv.FormatInt(*p, 10)
}
func optB(p *bool) string {
	if p == nil {
		return "~"
	}
	return b01(*p)
}
func optS(p *string) string {
	if p == nil {
		return "~"
	}
	return vh.Hex([]byte(*p))
}
func listS(l []string) string {
	if l == nil {
		return "~"
	}
	if len(l) == 0 {
		return "~"
	}
	out := make([]string, len(l))
	for i, s := range l {
		out[i] = vh.Hex([]byte(s))
	}
	return strings.Join(out, ",")
}

// Encode renders the spec as space separated k=v tokens (fixed order, every key present).
func (s *Spec) Encode() string {
	kv := []string{
		"name=" + vh.Hex([]byte(s.Name)),
		"kind=" + s.Kind,
		"req=" + b01(s.Req),
		"opt=" + b01(s.Opt),
		"desc=" + optS(s.Desc),
		"arr=" + map[bool]string{true: "m", false: b01(s.Arr)}[s.Map],
		"ar=" + b01(s.AR),
		"amin=" + optU(s.AMin),
		"amax=" + optU(s.AMax),
		"auniq=" + optB(s.AUniq),
		"asf=" + optS(s.ASF),
		"r=" + b01(s.R),
		"fmt=" + orTilde(s.Fmt),
		"min=" + optI(s.Min),
		"max=" + optI(s.Max),
		"emin=" + optB(s.EMin),
		"emax=" + optB(s.EMax),
		"dmin=" + optS(s.DMin),
		"dmax=" + optS(s.DMax),
		"minl=" + optU(s.MinL),
		"maxl=" + optU(s.MaxL),
		"pat=" + optS(s.Pat),
		"sfmt=" + optS(s.SFmt),
		"const=" + optB(s.Const),
		"kf=" + orTilde(s.KF),
		"pk=" + optB(s.PK),
		"fk=" + optS(s.FK),
		"tk=" + optS(s.TK),
		"eopts=" + listS(s.EOpts),
		"eodesc=" + listS(s.EODesc),
		"edesc=" + optS(s.EDesc),
		"epre=" + optS(s.EPre),
		"in=" + listS(s.In),
		"nin=" + listS(s.NIn),
		"flat=" + b01(s.Flat),
		"lr=" + s.LR.wireToken(),
		// measured on the real compiler at start-up: does `? type` give the compiled field presence?
		"optpres=" + b01(optPresFact()),
	}
	return strings.Join(kv, " ")
}

func orTilde(s string) string {
	if s == "" {
		return "~"
	}
	return s
}

func DecodeSpec(toks []string) (*Spec, error) {
	m := map[string]string{}
	for _, t := range toks {
		i := strings.IndexByte(t, '=')
		if i < 0 {
			return nil, fmt.Errorf("bad token %q", t)
		}
		m[t[:i]] = t[i+1:]
	}
	s := &Spec{}
	var err error
	fail := func(k string) error { return fmt.Errorf("bad value for %s: %q", k, m[k]) }
	str := func(k string) (*string, bool) {
		v, ok := m[k]
		if !ok || v == "~" {
			return nil, true
		}
		b, ok := vh.UnHex(v)
		if !ok {
			return nil, false
		}
		x := string(b)
		return &x, true
	}
	u64 := func(k string) (*uint64, bool) {
		v, ok := m[k]
		if !ok || v == "~" {
			return nil, true
		}
		n, err := strconv.ParseUint(v, 10, 64)
		if err != nil {
			return nil, false
		}
		return &n, true
	}
	i64 := func(k string) (*int64, bool) {
		v, ok := m[k]
		if !ok || v == "~" {
			return nil, true
		}
		n, err := strconv.ParseInt(v, 10, 64)
		if err != nil {
			return nil, false
		}
		return &n, true
	}
	bl := func(k string) (*bool, bool) {
		v, ok := m[k]
		if !ok || v == "~" {
			return nil, true
		}
		if v != "0" && v != "1" {
			return nil, false
		}
		x := v == "1"
		return &x, true
	}
	lst := func(k string) ([]string, bool) {
		v, ok := m[k]
		if !ok || v == "~" {
			return nil, true
		}
		var out []string
		for _, h := range strings.Split(v, ",") {
			b, ok := vh.UnHex(h)
			if !ok {
				return nil, false
			}
			out = append(out, string(b))
		}
		return out, true
	}
	flag := func(k string) bool { return m[k] == "1" }
	tl := func(k string) string {
		if m[k] == "~" {
			return ""
		}
		return m[k]
	}
	var ok bool
	var p *string
	if p, ok = str("name"); !ok || p == nil {
		return nil, fail("name")
	}
	s.Name = *p
	s.Kind = m["kind"]
	s.Req, s.Opt = flag("req"), flag("opt")
	if s.Desc, ok = str("desc"); !ok {
		return nil, fail("desc")
	}
	s.Arr, s.AR, s.R, s.Flat = flag("arr"), flag("ar"), flag("r"), flag("flat")
	s.Map = m["arr"] == "m"
	if s.AMin, ok = u64("amin"); !ok {
		return nil, fail("amin")
	}
	if s.AMax, ok = u64("amax"); !ok {
		return nil, fail("amax")
	}
	if s.AUniq, ok = bl("auniq"); !ok {
		return nil, fail("auniq")
	}
	s.Fmt = tl("fmt")
	if s.Min, ok = i64("min"); !ok {
		return nil, fail("min")
	}
	if s.Max, ok = i64("max"); !ok {
		return nil, fail("max")
	}
	if s.EMin, ok = bl("emin"); !ok {
		return nil, fail("emin")
	}
	if s.EMax, ok = bl("emax"); !ok {
		return nil, fail("emax")
	}
	if s.DMin, ok = str("dmin"); !ok {
		return nil, fail("dmin")
	}
	if s.DMax, ok = str("dmax"); !ok {
		return nil, fail("dmax")
	}
	if s.ASF, ok = str("asf"); !ok {
		return nil, fail("asf")
	}
	if s.MinL, ok = u64("minl"); !ok {
		return nil, fail("minl")
	}
	if s.MaxL, ok = u64("maxl"); !ok {
		return nil, fail("maxl")
	}
	if s.Pat, ok = str("pat"); !ok {
		return nil, fail("pat")
	}
	if s.SFmt, ok = str("sfmt"); !ok {
		return nil, fail("sfmt")
	}
	if s.Const, ok = bl("const"); !ok {
		return nil, fail("const")
	}
	s.KF = tl("kf")
	if s.PK, ok = bl("pk"); !ok {
		return nil, fail("pk")
	}
	if s.FK, ok = str("fk"); !ok {
		return nil, fail("fk")
	}
	if s.TK, ok = str("tk"); !ok {
		return nil, fail("tk")
	}
	if s.EOpts, ok = lst("eopts"); !ok {
		return nil, fail("eopts")
	}
	if s.EODesc, ok = lst("eodesc"); !ok {
		return nil, fail("eodesc")
	}
	if s.EODesc != nil && len(s.EODesc) != len(s.EOpts) {
		return nil, fail("eodesc")
	}
	if s.EDesc, ok = str("edesc"); !ok {
		return nil, fail("edesc")
	}
	if s.EPre, ok = str("epre"); !ok {
		return nil, fail("epre")
	}
	if s.In, ok = lst("in"); !ok {
		return nil, fail("in")
	}
	if s.NIn, ok = lst("nin"); !ok {
		return nil, fail("nin")
	}
	if s.LR, ok = parseListRules(orTilde(m["lr"])); !ok {
		return nil, fail("lr")
	}
	switch s.Kind {
	case "str", "int", "bool", "bytes", "key", "enum", "obj", "oneof", "ts", "f32", "f64", "date", "dec", "any":
	default:
		return nil, fmt.Errorf("bad kind %q", s.Kind)
	}
	_ = err
	return s, nil
}

// ---------------------------------------------------------------- j5s text

func j5sString(s string) string {
	// BCL strings accept only \\ and \" as escapes
	s = strings.ReplaceAll(s, `\`, `\\`)
	s = strings.ReplaceAll(s, `"`, `\"`)
	return `"` + s + `"`
}

func j5sList(l []string) string {
	q := make([]string, len(l))
	for i, s := range l {
		q[i] = j5sString(s)
	}
	return "[" + strings.Join(q, ", ") + "]"
}

func (s *Spec) enumTypeName() string { return "E" + strings.ToUpper(s.Name[:1]) + s.Name[1:] }

func (s *Spec) typeWord() (word string, attrPrefix string) {
	switch s.Kind {
	case "str":
		return "string", "string"
	case "int":
		return "integer:" + map[string]string{"i32": "INT32", "i64": "INT64", "u32": "UINT32", "u64": "UINT64"}[s.Fmt], "integer"
	case "bool":
		return "bool", "bool"
	case "bytes":
		return "bytes", "bytes"
	case "key":
		w := "key"
		switch s.KF {
		case "inf":
			w = "key:informal"
		case "cus":
			w = "key:custom"
		case "uuid":
			w = "key:uuid"
		case "id62":
			w = "key:id62"
		}
		return w, "key"
	case "enum":
		return "enum:" + s.enumTypeName(), "enum"
	case "obj":
		return "object:Bar", "object"
	case "oneof":
		return "oneof:On", "oneof"
	case "ts":
		return "timestamp", "timestamp"
	case "f32":
		return "float:FLOAT32", "float"
	case "f64":
		return "float:FLOAT64", "float"
	case "date":
		return "date", "date"
	case "dec":
		return "decimal", "decimal"
	case "any":
		return "any", "any"
	}
	return "?", "?"
}

// FieldText renders the field declaration (lines, indented by two spaces).
func (s *Spec) FieldText() []string {
	word, ap := s.typeWord()
	head := "  field " + s.Name + " "
	if s.Req {
		head += "! "
	} else if s.Opt {
		head += "? "
	}
	pre := ""
	if s.Arr {
		head += "array:" + word
		pre = "items." + ap + "."
	} else if s.Map {
		head += "map:" + word
		pre = "itemSchema." + ap + "."
	} else {
		head += word
	}
	var body []string
	if s.Desc != nil {
		for _, l := range strings.Split(*s.Desc, "\n") {
			body = append(body, "    | "+l)
		}
	}
	attr := func(k, v string) { body = append(body, "    "+k+" = "+v) }
	if s.Arr || s.Map {
		any := false
		if s.AMin != nil {
			attr(map[bool]string{true: "rules.minPairs", false: "rules.minItems"}[s.Map], optU(s.AMin))
			any = true
		}
		if s.AMax != nil {
			attr(map[bool]string{true: "rules.maxPairs", false: "rules.maxItems"}[s.Map], optU(s.AMax))
			any = true
		}
		if s.AUniq != nil {
			attr("rules.uniqueItems", strconv.FormatBool(*s.AUniq))
			any = true
		}
		if s.AR && !any {
			body = append(body, "    rules {", "    }")
		}
		if s.ASF != nil {
			attr("ext.singleForm", j5sString(*s.ASF))
		}
	}
	anyRule := false
	rule := func(k, v string) { attr(pre+"rules."+k, v); anyRule = true }
	switch s.Kind {
	case "str":
		if s.MinL != nil {
			rule("minLength", optU(s.MinL))
		}
		if s.MaxL != nil {
			rule("maxLength", optU(s.MaxL))
		}
		if s.Pat != nil {
			rule("pattern", j5sString(*s.Pat))
		}
		if s.SFmt != nil {
			attr(pre+"format", j5sString(*s.SFmt))
		}
	case "bytes":
		if s.MinL != nil {
			rule("minLength", optU(s.MinL))
		}
		if s.MaxL != nil {
			rule("maxLength", optU(s.MaxL))
		}
	case "int":
		if s.Min != nil {
			rule("minimum", optI(s.Min))
		}
		if s.Max != nil {
			rule("maximum", optI(s.Max))
		}
		if s.EMin != nil {
			rule("exclusiveMinimum", strconv.FormatBool(*s.EMin))
		}
		if s.EMax != nil {
			rule("exclusiveMaximum", strconv.FormatBool(*s.EMax))
		}
	case "bool":
		if s.Const != nil {
			rule("const", strconv.FormatBool(*s.Const))
		}
	case "date", "dec":
		if s.DMin != nil {
			rule("minimum", j5sString(*s.DMin))
		}
		if s.DMax != nil {
			rule("maximum", j5sString(*s.DMax))
		}
		if s.EMin != nil {
			rule("exclusiveMinimum", strconv.FormatBool(*s.EMin))
		}
		if s.EMax != nil {
			rule("exclusiveMaximum", strconv.FormatBool(*s.EMax))
		}
	case "enum":
		if len(s.In) > 0 {
			rule("in", j5sList(s.In))
		}
		if len(s.NIn) > 0 {
			rule("notIn", j5sList(s.NIn))
		}
	case "key":
		if s.KF == "cus" && s.Pat != nil {
			attr(pre+"format.custom.pattern", j5sString(*s.Pat))
		}
		if s.PK != nil {
			attr(pre+"entity.primaryKey", strconv.FormatBool(*s.PK))
		}
		if s.FK != nil {
			attr(pre+"foreign", j5sString(*s.FK))
		}
		if s.TK != nil {
			attr(pre+"entity.tenantKey", j5sString(*s.TK))
		}
	case "obj":
		if s.Flat {
			attr(pre+"flatten", "true")
		}
	}
	if s.R && !anyRule {
		switch s.Kind {
		case "str", "bytes", "int", "bool", "enum", "obj", "oneof", "ts", "date", "dec":
			body = append(body, "    "+pre+"rules {", "    }")
		}
	}
	if s.LR != nil {
		l := s.LR
		n := len(body)
		if l.Filterable {
			attr(pre+"listRules.filtering.filterable", "true")
		}
		if len(l.DefaultFilters) > 0 {
			attr(pre+"listRules.filtering.defaultFilters", j5sList(l.DefaultFilters))
		}
		if l.Sortable {
			attr(pre+"listRules.sorting.sortable", "true")
		}
		if l.DefaultSort {
			attr(pre+"listRules.sorting.defaultSort", "true")
		}
		if l.Searchable {
			attr(pre+"listRules.searching.searchable", "true")
		}
		if l.FieldIdent != "" {
			attr(pre+"listRules.searching.fieldIdentifier", j5sString(l.FieldIdent))
		}
		if len(body) == n {
			body = append(body, "    "+pre+"listRules {", "    }")
		}
	}
	if len(body) == 0 {
		return []string{head}
	}
	out := []string{head + " {"}
	out = append(out, body...)
	out = append(out, "  }")
	return out
}

// EnumText renders the enum declaration a field of kind enum refers to.
func (s *Spec) EnumText() []string {
	if s.Kind != "enum" {
		return nil
	}
	out := []string{"enum " + s.enumTypeName() + " {"}
	if s.EDesc != nil {
		for _, l := range strings.Split(*s.EDesc, "\n") {
			out = append(out, "  | "+l)
		}
	}
	if s.EPre != nil {
		out = append(out, "  prefix = "+j5sString(*s.EPre))
	}
	for i, o := range s.EOpts {
		if s.EODesc != nil && s.EODesc[i] != "" {
			out = append(out, "  option "+o+" {")
			for _, l := range strings.Split(s.EODesc[i], "\n") {
				out = append(out, "    | "+l)
			}
			out = append(out, "  }")
			continue
		}
		out = append(out, "  option "+o)
	}
	out = append(out, "}")
	return out
}

// Root is the declaration under test as a whole: `object Foo` or `oneof Foo` with its own
// annotations. nil / "" = absent.
type Root struct {
	Kind   string   // obj | oneof
	Desc   *string  // description
	Ent    *string  // entity.entity (objects only)
	Part   *int     // entity.part (schema_j5pb.EntityPart number; nil = not written)
	AnyM   []string // anyMember (objects only)
	BarEnt *string  // entity name put on the fixed `object Bar` (part KEYS): a field called `keys` referring to Bar then triggers the reader's legacy PSM lookup
}

var partNames = []string{"UNSPECIFIED", "KEYS", "STATE", "EVENT", "DATA", "REFERENCES", "DERIVED"}

func (r *Root) Encode() string {
	part := "~"
	if r.Part != nil {
		part = strconv.Itoa(*r.Part)
	}
	return strings.Join([]string{"root=" + r.Kind, "desc=" + optS(r.Desc), "ent=" + optS(r.Ent), "part=" + part, "anym=" + listS(r.AnyM), "barent=" + optS(r.BarEnt)}, " ")
}

func DecodeRoot(seg string) (*Root, bool) {
	r := &Root{Kind: "obj"}
	if seg == "~" {
		return r, true
	}
	if !strings.Contains(seg, "=") {
		// old form: the bare object description
		b, ok := vh.UnHex(seg)
		if !ok {
			return nil, false
		}
		s := string(b)
		r.Desc = &s
		return r, true
	}
	for _, t := range strings.Fields(seg) {
		i := strings.IndexByte(t, '=')
		if i < 0 {
			return nil, false
		}
		k, v := t[:i], t[i+1:]
		str := func() (*string, bool) {
			if v == "~" {
				return nil, true
			}
			b, ok := vh.UnHex(v)
			if !ok {
				return nil, false
			}
			s := string(b)
			return &s, true
		}
		var ok bool
		switch k {
		case "root":
			if v != "obj" && v != "oneof" {
				return nil, false
			}
			r.Kind = v
		case "desc":
			if r.Desc, ok = str(); !ok {
				return nil, false
			}
		case "ent":
			if r.Ent, ok = str(); !ok {
				return nil, false
			}
		case "barent":
			if r.BarEnt, ok = str(); !ok {
				return nil, false
			}
		case "part":
			if v != "~" {
				n, err := strconv.Atoi(v)
				if err != nil || n < 0 || n >= len(partNames) {
					return nil, false
				}
				r.Part = &n
			}
		case "anym":
			if v != "~" {
				for _, h := range strings.Split(v, ",") {
					b, ok := vh.UnHex(h)
					if !ok {
						return nil, false
					}
					r.AnyM = append(r.AnyM, string(b))
				}
			}
		default:
			return nil, false
		}
	}
	return r, true
}

// firstNumber: proto number of the first field under test (the object root has the helper field z = 1)
func (r *Root) firstNumber() int {
	if r.Kind == "oneof" {
		return 1
	}
	return 2
}

const fixedBarHead = `object Bar {
  | the bar
`
const fixedDecls = `  field x string
}

oneof On {
  option a object:Bar
  option b string
}
`

// FileText is the whole j5s file: object Foo with a leading required helper field `z` (keeps
// the buf/validate and j5 ext imports in place independently of the field under test).
func FileText(root *Root, specs []*Spec) string {
	if root == nil {
		root = &Root{Kind: "obj"}
	}
	var sb strings.Builder
	sb.WriteString("package foo.v1\n\n")
	if root.Kind == "oneof" {
		// the helper field lives in an object of its own; the options of the oneof are the fields under test
		sb.WriteString("object Helper {\n  field z ! string\n}\n\noneof Foo {\n")
	} else {
		sb.WriteString("object Foo {\n")
	}
	if root.Desc != nil {
		for _, l := range strings.Split(*root.Desc, "\n") {
			sb.WriteString("  | " + l + "\n")
		}
	}
	if root.Kind != "oneof" {
		if root.Ent != nil {
			sb.WriteString("  entity.entity = " + j5sString(*root.Ent) + "\n")
		}
		if root.Part != nil {
			sb.WriteString("  entity.part = " + j5sString(partNames[*root.Part]) + "\n")
		}
		if len(root.AnyM) > 0 {
			sb.WriteString("  anyMember = " + j5sList(root.AnyM) + "\n")
		}
		sb.WriteString("  field z ! string\n")
	}
	for _, s := range specs {
		lines := s.FieldText()
		if root.Kind == "oneof" {
			lines[0] = strings.Replace(lines[0], "  field ", "  option ", 1)
		}
		for _, l := range lines {
			sb.WriteString(l + "\n")
		}
	}
	sb.WriteString("}\n\n")
	sb.WriteString(fixedBarHead)
	if root.BarEnt != nil {
		sb.WriteString("  entity.entity = " + j5sString(*root.BarEnt) + "\n  entity.part = \"KEYS\"\n")
	}
	sb.WriteString(fixedDecls)
	for _, s := range specs {
		if et := s.EnumText(); et != nil {
			sb.WriteString("\n" + strings.Join(et, "\n") + "\n")
		}
	}
	return sb.String()
}

// siblingName is the helper field of compile.rules ops on enum fields (see RulesFileText).
const siblingName = "sibE"

// RulesFileText is the file of a compile.rules op. For an enum field under test the object gets a
// second, rule-less field of the SAME named enum whose requiredness is the opposite of the field
// under test (`!` iff the field under test is not required): one compilation then holds a
// required and a non-required reference to one enum, the situation in which state shared per enum
// between fields would leak (seeded C12-m8). A required sibling is filled by buildMessage with
// the first declared option (number 1); a non-required one is left unset, so any requiredness that
// leaks onto it shows as a rejection. The sibling is a function of the spec: the op format and the
// model (per field) are unchanged.
func RulesFileText(spec *Spec) string {
	txt := FileText(nil, []*Spec{spec})
	if spec.Kind != "enum" {
		return txt
	}
	mark := ""
	if !spec.Req {
		mark = "! "
	}
	sib := "  field " + siblingName + " " + mark + "enum:" + spec.enumTypeName() + "\n"
	// after the helper field z, before the field under test
	anchor := "  field z ! string\n"
	return strings.Replace(txt, anchor, anchor+sib, 1)
}

// ---------------------------------------------------------------- enum naming (independent of the compiler)

// the default prefix is defined by the language as strcase.ToScreamingSnake(name) + "_" (a
// third-party library, not code under verification; the Lean driver uses the compile cluster's
// byte-level model of it)
func (s *Spec) enumPrefix() string {
	if s.EPre != nil && *s.EPre != "" {
		return *s.EPre
	}
	return strcase.ToScreamingSnake(s.enumTypeName()) + "_"
}

// enumShort strips the prefix from a declared option / rule name.
func (s *Spec) enumShort(name string) string { return strings.TrimPrefix(name, s.enumPrefix()) }

// enumNumbers: short name -> number as the language defines it (declaration order from 1;
// UNSPECIFIED always exists as 0, an explicit leading UNSPECIFIED option is that same value).
func (s *Spec) enumNumbers() map[string]int32 {
	m := map[string]int32{"UNSPECIFIED": 0}
	opts := s.EOpts
	if len(opts) > 0 && s.enumShort(opts[0]) == "UNSPECIFIED" {
		opts = opts[1:]
	}
	for i, o := range opts {
		m[s.enumShort(o)] = int32(i + 1)
	}
	return m
}

func sortedKeys[V any](m map[string]V) []string {
	ks := make([]string, 0, len(m))
	for k := range m {
		ks = append(ks, k)
	}
	sort.Strings(ks)
	return ks
}
