//go:build verif

package main

import (
	"fmt"
	"strconv"
	"strings"

	"github.com/pentops/j5/gen/j5/list/v1/list_j5pb"
	"github.com/pentops/j5/gen/j5/schema/v1/schema_j5pb"
	"github.com/pentops/j5/internal/verifh/vh"
)

// Flat is the canonical, normalised, fixed-order rendering of one property's schema: the
// notion of "same schema" used by the C04 oracle and by the Lean model's `showProp`.
//
// Normalisations (each is a semantic no-op of the j5 schema language):
//   N1 a rules / ext / list-rules message with no member set  ==  absent
//   N2 exclusiveMinimum / exclusiveMaximum = false            ==  absent
//   N3 key format absent                                      ==  informal
//   N4 entity.primaryKey = false                              ==  absent
//   N5 enum in / notIn names are compared without the enum prefix
//   N6 for array items: a custom key pattern equal to the published id62 pattern  ==  key format id62
type Flat struct {
	kv [][2]string
}

var flatKeys = []string{
	"name", "pname", "num", "req", "opt", "desc",
	"arr", "amin", "amax", "auniq", "single",
	"kind", "fmt",
	"min", "max", "emin", "emax", "minl", "maxl", "pat", "const", "in", "nin",
	"sfmt", "kf", "kpat", "pk", "fk", "tk", "ref", "flat", "od", "types", "lr", "epfx", "edesc", "eopts",
}

func newFlat() *Flat {
	f := &Flat{}
	for _, k := range flatKeys {
		f.kv = append(f.kv, [2]string{k, "~"})
	}
	return f
}

func (f *Flat) set(k, v string) {
	for i := range f.kv {
		if f.kv[i][0] == k {
			f.kv[i][1] = v
			return
		}
	}
	panic("flat: unknown key " + k)
}

func (f *Flat) get(k string) string {
	for i := range f.kv {
		if f.kv[i][0] == k {
			return f.kv[i][1]
		}
	}
	return "~"
}

func (f *Flat) String() string {
	parts := make([]string, len(f.kv))
	for i, p := range f.kv {
		parts[i] = p[0] + "=" + p[1]
	}
	return strings.Join(parts, " ")
}

// firstDiff returns the first key whose values differ.
func firstDiff(a, b *Flat) (string, string, string) {
	for i := range a.kv {
		if a.kv[i][1] != b.kv[i][1] {
			return a.kv[i][0], a.kv[i][1], b.kv[i][1]
		}
	}
	return "", "", ""
}

const id62Pattern = `^[0-9A-Za-z]{22}$`

func hexS(s string) string { return vh.Hex([]byte(s)) }

func exclFlag(p *bool) string {
	if p != nil && *p {
		return "1"
	}
	return "~"
}

// ---------------------------------------------------------------- declared (from the generator's Spec)

func declaredFlat(s *Spec, num int) *Flat {
	f := newFlat()
	f.set("name", hexS(s.Name))
	f.set("num", strconv.Itoa(num))
	req := s.Req
	if s.Kind == "key" && s.PK != nil && *s.PK {
		req = true // documented: a primary key is always required
	}
	f.set("req", b01(req))
	f.set("opt", b01(s.Opt))
	if s.Desc != nil && *s.Desc != "" {
		f.set("desc", hexS(*s.Desc))
	}
	f.set("arr", b01(s.Arr))
	if s.Map {
		f.set("arr", "m")
		f.set("amin", optU(s.AMin))
		f.set("amax", optU(s.AMax))
		f.set("single", optS(s.ASF))
	}
	if s.Arr {
		f.set("amin", optU(s.AMin))
		f.set("amax", optU(s.AMax))
		if s.AUniq != nil {
			f.set("auniq", b01(*s.AUniq))
		}
		f.set("single", optS(s.ASF))
	}
	f.set("kind", s.Kind)
	switch s.Kind {
	case "str":
		f.set("minl", optU(s.MinL))
		f.set("maxl", optU(s.MaxL))
		f.set("pat", optS(s.Pat))
		f.set("sfmt", optS(s.SFmt))
	case "bytes":
		f.set("minl", optU(s.MinL))
		f.set("maxl", optU(s.MaxL))
	case "int":
		f.set("fmt", s.Fmt)
		f.set("min", optI(s.Min))
		f.set("max", optI(s.Max))
		f.set("emin", exclFlag(s.EMin))
		f.set("emax", exclFlag(s.EMax))
	case "f32", "f64":
		f.set("kind", "float")
		f.set("fmt", s.Kind)
	case "bool":
		f.set("const", optB(s.Const))
	case "date", "dec":
		f.set("min", optS(s.DMin))
		f.set("max", optS(s.DMax))
		f.set("emin", exclFlag(s.EMin))
		f.set("emax", exclFlag(s.EMax))
	case "enum":
		f.set("ref", hexS("foo.v1."+s.enumTypeName()))
		short := func(l []string) string {
			if len(l) == 0 {
				return "~"
			}
			o := make([]string, len(l))
			for i, n := range l {
				o[i] = hexS(s.enumShort(n))
			}
			return strings.Join(o, ",")
		}
		f.set("in", short(s.In))
		f.set("nin", short(s.NIn))
	case "key":
		switch s.KF {
		case "", "inf":
			f.set("kf", "inf")
		case "cus":
			if (s.Arr || s.Map) && s.Pat != nil && *s.Pat == id62Pattern {
				f.set("kf", "id62") // N6 (array items only: their key annotation is replaced by the array's)
			} else {
				f.set("kf", "cus")
				f.set("kpat", optS(s.Pat))
			}
		default:
			f.set("kf", s.KF)
		}
		f.set("pk", b01(s.PK != nil && *s.PK))
		f.set("fk", optS(s.FK))
		f.set("tk", optS(s.TK))
	case "obj":
		f.set("ref", hexS("foo.v1.Bar"))
		f.set("flat", b01(s.Flat))
	case "oneof":
		f.set("ref", hexS("foo.v1.On"))
	case "any":
		f.set("od", "0")
	}
	f.set("lr", s.LR.token())
	return f
}

// ---------------------------------------------------------------- reflected (from schema_j5pb produced by lib/j5schema)

func lrFromParts(filt *list_j5pb.FilteringConstraint, sort *list_j5pb.SortingConstraint, search *list_j5pb.SearchingConstraint) string {
	l := &ListRules{}
	if filt != nil {
		l.Filterable = filt.Filterable
		l.DefaultFilters = filt.DefaultFilters
	}
	if sort != nil {
		l.Sortable = sort.Sortable
		l.DefaultSort = sort.DefaultSort
	}
	if search != nil {
		l.Searchable = search.Searchable
		l.FieldIdent = search.FieldIdentifier
	}
	return l.token()
}

func reflectedFlat(p *schema_j5pb.ObjectProperty) *Flat {
	f := newFlat()
	f.set("name", hexS(p.Name))
	nums := make([]string, len(p.ProtoField))
	for i, n := range p.ProtoField {
		nums[i] = strconv.Itoa(int(n))
	}
	f.set("num", strings.Join(nums, "."))
	f.set("req", b01(p.Required))
	f.set("opt", b01(p.ExplicitlyOptional))
	if p.Description != "" {
		f.set("desc", hexS(p.Description))
	}
	field := p.Schema
	f.set("arr", "0")
	if arr := field.GetArray(); arr != nil {
		f.set("arr", "1")
		if r := arr.Rules; r != nil {
			f.set("amin", optU(r.MinItems))
			f.set("amax", optU(r.MaxItems))
			if r.UniqueItems != nil {
				f.set("auniq", b01(*r.UniqueItems))
			}
		}
		if arr.Ext != nil && arr.Ext.SingleForm != nil {
			f.set("single", hexS(*arr.Ext.SingleForm))
		}
		field = arr.Items
	}
	if mp := field.GetMap(); mp != nil {
		f.set("arr", "m")
		if r := mp.Rules; r != nil {
			f.set("amin", optU(r.MinPairs))
			f.set("amax", optU(r.MaxPairs))
		}
		if mp.Ext != nil && mp.Ext.SingleForm != nil {
			f.set("single", hexS(*mp.Ext.SingleForm))
		}
		if mp.KeySchema != nil {
			// keys are always plain strings (j5s `keySchema` is not generated: the compiler ignores it)
			if _, ok := mp.KeySchema.Type.(*schema_j5pb.Field_String_); !ok {
				f.set("single", "other:keyschema")
			}
		}
		field = mp.ItemSchema
	}
	switch t := field.GetType().(type) {
	case *schema_j5pb.Field_String_:
		f.set("kind", "str")
		if r := t.String_.Rules; r != nil {
			f.set("minl", optU(r.MinLength))
			f.set("maxl", optU(r.MaxLength))
			f.set("pat", optS(r.Pattern))
		}
		f.set("sfmt", optS(t.String_.Format))
		if lr := t.String_.ListRules; lr != nil {
			f.set("lr", lrFromParts(nil, nil, lr.Searching))
		}
	case *schema_j5pb.Field_Bytes:
		f.set("kind", "bytes")
		if r := t.Bytes.Rules; r != nil {
			f.set("minl", optU(r.MinLength))
			f.set("maxl", optU(r.MaxLength))
		}
	case *schema_j5pb.Field_Integer:
		f.set("kind", "int")
		f.set("fmt", map[schema_j5pb.IntegerField_Format]string{
			schema_j5pb.IntegerField_FORMAT_INT32: "i32", schema_j5pb.IntegerField_FORMAT_INT64: "i64",
			schema_j5pb.IntegerField_FORMAT_UINT32: "u32", schema_j5pb.IntegerField_FORMAT_UINT64: "u64"}[t.Integer.Format])
		if r := t.Integer.Rules; r != nil {
			f.set("min", optI(r.Minimum))
			f.set("max", optI(r.Maximum))
			f.set("emin", exclFlag(r.ExclusiveMinimum))
			f.set("emax", exclFlag(r.ExclusiveMaximum))
			if r.MultipleOf != nil {
				f.set("min", "other:multipleOf")
			}
		}
		if lr := t.Integer.ListRules; lr != nil {
			f.set("lr", lrFromParts(lr.Filtering, lr.Sorting, nil))
		}
	case *schema_j5pb.Field_Float:
		f.set("kind", "float")
		f.set("fmt", map[schema_j5pb.FloatField_Format]string{
			schema_j5pb.FloatField_FORMAT_FLOAT32: "f32", schema_j5pb.FloatField_FORMAT_FLOAT64: "f64"}[t.Float.Format])
		if t.Float.Rules != nil && (t.Float.Rules.Minimum != nil || t.Float.Rules.Maximum != nil) {
			f.set("min", "other:floatrules")
		}
		if lr := t.Float.ListRules; lr != nil {
			f.set("lr", lrFromParts(lr.Filtering, lr.Sorting, nil))
		}
	case *schema_j5pb.Field_Bool:
		f.set("kind", "bool")
		if r := t.Bool.Rules; r != nil {
			f.set("const", optB(r.Const))
		}
		if lr := t.Bool.ListRules; lr != nil {
			f.set("lr", lrFromParts(lr.Filtering, nil, nil))
		}
	case *schema_j5pb.Field_Enum:
		f.set("kind", "enum")
		if ref := t.Enum.GetRef(); ref != nil {
			f.set("ref", hexS(ref.Package+"."+ref.Schema))
		} else {
			f.set("ref", "inline")
		}
		if r := t.Enum.Rules; r != nil {
			names := func(l []string) string {
				if len(l) == 0 {
					return "~"
				}
				o := make([]string, len(l))
				for i, n := range l {
					o[i] = hexS(n)
				}
				return strings.Join(o, ",")
			}
			f.set("in", names(r.In))
			f.set("nin", names(r.NotIn))
		}
		if lr := t.Enum.ListRules; lr != nil {
			f.set("lr", lrFromParts(lr.Filtering, nil, nil))
		}
	case *schema_j5pb.Field_Key:
		f.set("kind", "key")
		f.set("kf", "inf")
		if kf := t.Key.Format; kf != nil {
			switch ft := kf.Type.(type) {
			case *schema_j5pb.KeyFormat_Custom_:
				f.set("kf", "cus")
				f.set("kpat", hexS(ft.Custom.Pattern))
			case *schema_j5pb.KeyFormat_Uuid:
				f.set("kf", "uuid")
			case *schema_j5pb.KeyFormat_Id62:
				f.set("kf", "id62")
			}
		}
		f.set("pk", "0")
		if e := t.Key.Entity; e != nil {
			switch et := e.Type.(type) {
			case *schema_j5pb.EntityKey_PrimaryKey:
				f.set("pk", b01(et.PrimaryKey))
			case *schema_j5pb.EntityKey_ForeignKey:
				if et.ForeignKey != nil {
					f.set("fk", hexS(et.ForeignKey.Package+"."+et.ForeignKey.Entity))
				}
			}
			f.set("tk", optS(e.TenantKey))
		}
		if lr := t.Key.ListRules; lr != nil {
			f.set("lr", lrFromParts(lr.Filtering, nil, nil))
		}
	case *schema_j5pb.Field_Object:
		f.set("kind", "obj")
		if ref := t.Object.GetRef(); ref != nil {
			f.set("ref", hexS(ref.Package+"."+ref.Schema))
		} else {
			f.set("ref", "inline")
		}
		f.set("flat", b01(t.Object.Flatten))
	case *schema_j5pb.Field_Oneof:
		f.set("kind", "oneof")
		if ref := t.Oneof.GetRef(); ref != nil {
			f.set("ref", hexS(ref.Package+"."+ref.Schema))
		} else {
			f.set("ref", "inline")
		}
		if lr := t.Oneof.ListRules; lr != nil {
			f.set("lr", lrFromParts(lr.Filtering, nil, nil))
		}
	case *schema_j5pb.Field_Timestamp:
		f.set("kind", "ts")
		if r := t.Timestamp.Rules; r != nil && (r.Minimum != nil || r.Maximum != nil) {
			f.set("min", "other:tsrules")
		}
		if lr := t.Timestamp.ListRules; lr != nil {
			f.set("lr", lrFromParts(lr.Filtering, lr.Sorting, nil))
		}
	case *schema_j5pb.Field_Date:
		f.set("kind", "date")
		if r := t.Date.Rules; r != nil {
			f.set("min", optS(r.Minimum))
			f.set("max", optS(r.Maximum))
			f.set("emin", exclFlag(r.ExclusiveMinimum))
			f.set("emax", exclFlag(r.ExclusiveMaximum))
		}
		if lr := t.Date.ListRules; lr != nil {
			f.set("lr", lrFromParts(lr.Filtering, nil, nil))
		}
	case *schema_j5pb.Field_Decimal:
		f.set("kind", "dec")
		if r := t.Decimal.Rules; r != nil {
			f.set("min", optS(r.Minimum))
			f.set("max", optS(r.Maximum))
			f.set("emin", exclFlag(r.ExclusiveMinimum))
			f.set("emax", exclFlag(r.ExclusiveMaximum))
		}
		if lr := t.Decimal.ListRules; lr != nil {
			f.set("lr", lrFromParts(lr.Filtering, lr.Sorting, nil))
		}
	case *schema_j5pb.Field_Any:
		f.set("kind", "any")
		f.set("od", b01(t.Any.OnlyDefined))
		if len(t.Any.Types) > 0 {
			o := make([]string, len(t.Any.Types))
			for i, n := range t.Any.Types {
				o[i] = hexS(n)
			}
			f.set("types", strings.Join(o, ","))
		}
		if lr := t.Any.ListRules; lr != nil {
			f.set("lr", lrFromParts(lr.Filtering, nil, nil))
		}
	case *schema_j5pb.Field_Map:
		f.set("kind", "map")
	default:
		f.set("kind", fmt.Sprintf("other(%T)", t))
	}
	return f
}

