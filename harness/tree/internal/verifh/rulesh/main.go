//go:build verif

// rulesh: correspondence + property oracles for the rules cluster.
//
//	stream compile.rules  (C12)  op: rules <spec> | <candidate values...>
//	stream compile.schema (C04)  op: schema <objdesc> ;; <spec> ;; <spec> ...
//
// The stream is selected with RULESH_STREAM=rules|schema (default rules); replayed ops are
// dispatched on their first word, so either binary can replay either kind of op.
// Protocol: /verif/harness/PROTOCOL-rules.md
package main

import (
	"fmt"
	"math"
	"os"
	"strconv"
	"strings"

	"github.com/bufbuild/protovalidate-go"
	"github.com/pentops/j5/gen/j5/schema/v1/schema_j5pb"
	"github.com/pentops/j5/internal/verifh/vh"
	"github.com/pentops/j5/lib/j5schema"
	"google.golang.org/protobuf/reflect/protoreflect"
)

type impl struct{ stream string }

func main() {
	st := os.Getenv("RULESH_STREAM")
	if st == "" {
		st = "rules"
	}
	vh.Main("compile."+st, impl{stream: st})
}

func (im impl) Gen(h *vh.H, i int) string {
	if im.stream == "schema" {
		return genSchemaOp(h, i)
	}
	return genRulesOp(h, i)
}

func (im impl) Exec(h *vh.H, op string) string {
	switch {
	case strings.HasPrefix(op, "rules "):
		return execRules(h, op)
	case strings.HasPrefix(op, "schema "):
		return execSchema(h, op)
	case strings.HasPrefix(op, "probe "):
		return execProbe(op)
	}
	return "bad-op"
}

// execProbe (development aid, never generated): `probe <hex of a j5s file with object Foo>` prints
// the compiled fields of Foo (constraint dump, presence) and their reflected flat forms.
func execProbe(op string) string {
	b, ok := vh.UnHex(strings.TrimPrefix(op, "probe "))
	if !ok {
		return "bad-op"
	}
	file, err := compileJ5s(string(b))
	if err != nil {
		return "err " + err.Error()
	}
	md := file.Messages().ByName("Foo")
	if md == nil {
		return "err no Foo"
	}
	var out []string
	for i := 0; i < md.Fields().Len(); i++ {
		fd := md.Fields().Get(i)
		out = append(out, fmt.Sprintf("%s: %s pres=%s", fd.Name(), dumpFC(fieldConstraints(fd)), b01(fd.HasPresence())))
	}
	lines, e := reflectAll(file, nil)
	out = append(out, "reflect="+e)
	out = append(out, lines...)
	if re, txt, err := reparse(file); err != nil {
		out = append(out, "text-error "+err.Error(), txt)
	} else {
		tl, te := reflectAll(re, nil)
		out = append(out, "text-reflect="+te+" same="+b01(strings.Join(tl, "|") == strings.Join(lines, "|")), txt)
	}
	return strings.Join(out, "\n")
}

// ---------------------------------------------------------------- compile.rules

func execRules(h *vh.H, op string) string {
	body := strings.TrimPrefix(op, "rules ")
	parts := strings.SplitN(body, " | ", 2)
	if len(parts) != 2 {
		return "bad-op"
	}
	spec, err := DecodeSpec(strings.Fields(parts[0]))
	if err != nil {
		return "bad-op"
	}
	valToks := strings.Fields(parts[1])
	h.Count("rules.kind." + spec.Kind + map[bool]string{true: ".array", false: ""}[spec.Arr] + map[bool]string{true: ".map", false: ""}[spec.Map])

	file, err := compileJ5s(RulesFileText(spec))
	if err != nil {
		h.Count("rules.compile-err")
		if admissible(spec) {
			// C07 territory, not ours: counted, not judged here
			h.Count("rules.compile-err.admissible")
			if os.Getenv("RULESH_DEBUG") != "" {
				fmt.Fprintln(os.Stderr, "compile error:", err, "\n", RulesFileText(spec))
			}
		}
		return "err"
	}
	md := file.Messages().ByName("Foo")
	if md == nil {
		return "err"
	}
	fd := md.Fields().ByJSONName(spec.Name)
	if fd == nil {
		return "err nofield"
	}
	emitted := dumpFC(fieldConstraints(fd)) + " pres=" + b01(fd.HasPresence())

	// one validator per op: it caches the evaluators of this op's message descriptor only
	validator, verr := protovalidate.New()
	if verr != nil {
		return "err validator"
	}
	var verdicts strings.Builder
	nontrivial := false
	for _, vt := range valToks {
		v, ok := parseVal(vt)
		if !ok {
			verdicts.WriteByte('?')
			continue
		}
		msg, err := buildMessage(md, spec, fd, v)
		if err != nil {
			verdicts.WriteByte('?')
			continue
		}
		verdict, detail := pvVerdict(validator, msg)
		verdicts.WriteByte(verdict)
		h.Count("rules.verdict." + string(verdict))

		// property oracle: protovalidate verdict vs the meaning of the declared rules
		want, why, unknown := j5Accepts(spec, v, fd.HasPresence())
		if unknown || !admissible(spec) {
			h.Count("rules.oracle.skipped")
			continue
		}
		if spec.Opt && !spec.Arr && !spec.Map && !fd.HasPresence() && v.Absent {
			// `? type` declares a field whose absence is distinguishable; the compiled field has no presence
			if ok2, _, _ := j5Accepts(spec, v, true); ok2 && verdict == 'R' {
				h.Fail("optional-field-without-presence", op, fmt.Sprintf("explicitly optional field left unset is rejected (%s) under %s: proto3_optional is set but the field has no presence", detail, emitted))
			}
			continue
		}
		switch {
		case verdict == 'E' && spec.Arr && isMsgKind(spec.Kind) && spec.AUniq != nil && *spec.AUniq && strings.Contains(detail, "repeated.unique"):
			h.Fail("array-unique-on-message-items", op, fmt.Sprintf("value %s: uniqueItems on an array of messages compiles to repeated.unique, which protovalidate cannot evaluate: %s", vt, detail))
		case verdict == 'E':
			h.Fail("validator-error:"+kindTag(spec), op, fmt.Sprintf("value %s: protovalidate could not evaluate the compiled constraint %s: %s", vt, emitted, detail))
		case verdict == 'A' && !want:
			h.Fail("over-lax:"+why, op, fmt.Sprintf("value %s accepted by protovalidate under %s but violates the declared rule (%s)", vt, emitted, why))
		case verdict == 'R' && want:
			h.Fail("over-strict:"+detail, op, fmt.Sprintf("value %s satisfies the declared rules but protovalidate rejects it (%s) under %s", vt, detail, emitted))
		}
		if verdict == 'R' || (spec.R || spec.AR || spec.Req || spec.Kind == "key" || spec.Kind == "enum") {
			nontrivial = true
		}
	}
	if nontrivial {
		h.Nontrivial(parts[0])
	}
	return emitted + " | " + verdicts.String()
}

func kindTag(s *Spec) string {
	if s.Arr {
		return "array:" + s.Kind
	}
	if s.Map {
		return "map:" + s.Kind
	}
	return s.Kind
}

// admissible: rule combinations the property quantifies over. Outside it the correspondence
// with the model is still checked, the property oracle is not consulted.
func admissible(s *Spec) bool {
	if s.Req && s.Opt {
		return false // rejected by the compiler ("cannot be both required and optional")
	}
	if s.Kind == "int" {
		if s.EMin != nil && s.Min == nil {
			return false
		}
		if s.EMax != nil && s.Max == nil {
			return false
		}
		for _, b := range []*int64{s.Min, s.Max} {
			if b == nil {
				continue
			}
			// a bound the field's type cannot hold is rejected by the compiler
			switch s.Fmt {
			case "i32":
				if *b < math.MinInt32 || *b > math.MaxInt32 {
					return false
				}
			case "u32":
				if *b < 0 || *b > math.MaxUint32 {
					return false
				}
			case "u64":
				if *b < 0 {
					return false
				}
			}
		}
		if s.Min != nil && s.Max != nil {
			lo, hi := *s.Min, *s.Max
			if s.EMin != nil && *s.EMin {
				lo++
			}
			if s.EMax != nil && *s.EMax {
				hi--
			}
			if lo > hi {
				return false // empty range: not a meaningful declaration
			}
		}
	}
	if (s.Kind == "str" || s.Kind == "bytes") && s.MinL != nil && s.MaxL != nil && *s.MinL > *s.MaxL {
		return false
	}
	if (s.Arr || s.Map) && s.AMin != nil && s.AMax != nil && *s.AMin > *s.AMax {
		return false
	}
	if s.Kind == "enum" {
		nums := s.enumNumbers()
		names := append(append([]string{}, s.In...), s.NIn...)
		if s.LR != nil {
			// default filters of the list rules must name options too (compile error otherwise)
			names = append(names, s.LR.DefaultFilters...)
		}
		for _, n := range names {
			if _, ok := nums[s.enumShort(n)]; !ok {
				return false
			}
		}
	}
	return true
}

// enumFiltersOK: every default filter of an enum field's list rules names an option of the enum.
func enumFiltersOK(s *Spec) bool {
	if s.Kind != "enum" || s.LR == nil {
		return true
	}
	nums := s.enumNumbers()
	for _, n := range s.LR.DefaultFilters {
		if _, ok := nums[s.enumShort(n)]; !ok {
			return false
		}
	}
	return true
}

// ---------------------------------------------------------------- compile.schema

func execSchema(h *vh.H, op string) string {
	segs := strings.Split(strings.TrimPrefix(op, "schema "), " ;; ")
	if len(segs) < 2 {
		return "bad-op"
	}
	root, ok := DecodeRoot(segs[0])
	if !ok {
		return "bad-op"
	}
	h.Count("schema.root." + root.Kind)
	if len(segs)-1 >= 11 {
		h.Count("schema.root.wide(>=11 properties)")
	}
	var specs []*Spec
	for _, seg := range segs[1:] {
		s, err := DecodeSpec(strings.Fields(seg))
		if err != nil {
			return "bad-op"
		}
		specs = append(specs, s)
		h.Count("schema.kind." + s.Kind + map[bool]string{true: ".array", false: ""}[s.Arr] + map[bool]string{true: ".map", false: ""}[s.Map])
		if s.Kind == "enum" {
			explicit := len(s.EOpts) > 0 && s.enumShort(s.EOpts[0]) == "UNSPECIFIED"
			form := map[bool]string{true: "explicit-zero", false: "implicit-zero"}[explicit]
			switch {
			case s.EODesc == nil:
				form += ".no-option-desc"
			case explicit && s.EODesc[0] != "":
				form += ".zero-described"
			default:
				form += ".some-option-desc"
			}
			h.Count("schema.enum.decl." + form)
			if len(s.EOpts) >= 11 {
				h.Count("schema.enum.wide(>=11 options)")
			}
		}
		if s.Kind == "enum" && s.LR != nil && len(s.LR.DefaultFilters) > 0 {
			h.Count("schema.enum.default-filters." + map[bool]string{true: "options", false: "not-options(inadmissible)"}[enumFiltersOK(s)])
		}
	}
	file, err := compileJ5s(FileText(root, specs))
	if err != nil {
		h.Count("schema.compile-err")
		if os.Getenv("RULESH_DEBUG") != "" {
			fmt.Fprintln(os.Stderr, "compile error:", err, "\n", FileText(root, specs))
		}
		return "err"
	}
	mem, memErr := reflectAll(file, specs)
	if memErr != "" {
		// the reader failed on descriptors the compiler produced from a valid declaration
		// attribute the failure to a single field by reflecting each declaration on its own
		culprit := "?"
		for _, s := range specs {
			if f1, err := compileJ5s(FileText(nil, []*Spec{s})); err == nil {
				if _, e1 := reflectAll(f1, []*Spec{s}); e1 != "" {
					culprit = kindTag(s) + specQual(s)
					break
				}
			}
		}
		if culprit == "?" {
			// no single field reproduces it: the root's own annotations (entity / any-membership) or the combination
			culprit = "root"
			if root.Ent != nil || root.Part != nil || root.BarEnt != nil {
				culprit = "root[entity]"
			}
		}
		h.Fail("reader-"+memErr+":"+culprit, op, "lib/j5schema could not reflect the compiled descriptors: "+memErr)
		return "reader-" + memErr
	}

	// declared vs reflected, field by field
	declObj := declaredRoot(root)
	if mem[0] != declObj {
		sig := "schema-diff:root"
		dk, rk := strings.Fields(declObj), strings.Fields(mem[0])
		for i := range dk {
			if i < len(rk) && dk[i] != rk[i] {
				key := dk[i][:strings.IndexByte(dk[i], '=')]
				sig = "schema-diff:root:" + key
				if (key == "ent" || key == "part") && root.Ent == nil && keysCapture(root, specs) {
					// the reader's legacy lookup: a field called `keys` whose message type carries (j5.ext.v1.psm)
					sig = "schema-diff:root:entity:invented[keys-field]"
				}
				break
			}
		}
		h.Fail(sig, op, fmt.Sprintf("declared %q reflected %q", declObj, mem[0]))
	} else if root.Kind == "oneof" || root.Ent != nil || len(root.AnyM) > 0 {
		h.Nontrivial(declObj)
	}
	if len(mem) != len(specs)+1 {
		h.Fail("schema-diff:property-count", op, fmt.Sprintf("declared %d properties, reflected %d", len(specs), len(mem)-1))
	} else {
		for i, s := range specs {
			if !admissible(s) {
				h.Count("schema.oracle.skipped")
				continue
			}
			d := declaredFlatFull(s, i+root.firstNumber())
			// the proto field name is not part of the schema (the property speaks of names, order and
			// field numbers): shown for the correspondence, not judged
			d.set("pname", parseFlat(mem[i+1]).get("pname"))
			if d.String() != mem[i+1] {
				r := parseFlat(mem[i+1])
				k, dv, rv := firstDiff(d, r)
				h.Fail(diffSignature(s, k, dv, rv), op, fmt.Sprintf("field %s: declared %s=%s, reflected %s=%s", s.Name, k, dv, k, rv))
			} else {
				h.Nontrivial(d.String())
			}
		}
	}

	// the fixed oneof / object declarations of the file: names, order, proto numbers, descriptions
	if got := reflectRoots(file); got != expectedRoots {
		h.Fail("schema-diff:fixed-roots", op, fmt.Sprintf("declared %q reflected %q", expectedRoots, got))
	}

	// the same schema must come out of the printed-and-reparsed .proto text
	if re, _, err := reparse(file); err != nil {
		h.Count("schema.text.error")
		h.Fail("text-path-error", op, err.Error())
	} else {
		txt, terr := reflectAll(re, specs)
		switch {
		case terr != "":
			h.Fail("text-path-reader-"+terr, op, "reader failed on re-parsed text")
		case strings.Join(txt, " ;; ") != strings.Join(mem, " ;; "):
			k := "?"
			for i := range mem {
				if i < len(txt) && txt[i] != mem[i] && i > 0 {
					k, _, _ = firstDiff(parseFlat(mem[i]), parseFlat(txt[i]))
					break
				}
			}
			h.Fail("text-path-diff:"+k, op, fmt.Sprintf("in-memory %q vs text %q", strings.Join(mem, " ;; "), strings.Join(txt, " ;; ")))
		default:
			h.Count("schema.text.same")
		}
	}
	return strings.Join(mem, " ;; ")
}

func parseFlat(s string) *Flat {
	f := newFlat()
	for _, t := range strings.Fields(s) {
		if i := strings.IndexByte(t, '='); i > 0 {
			for j := range f.kv {
				if f.kv[j][0] == t[:i] {
					f.kv[j][1] = t[i+1:]
				}
			}
		}
	}
	return f
}

// reflectAll: canonical lines [object, property...] (the helper property z is skipped) from
// lib/j5schema's view of message Foo. errClass is "error" or "panic" when the reader fails.
func reflectAll(file protoreflect.FileDescriptor, specs []*Spec) (lines []string, errClass string) {
	defer func() {
		if r := recover(); r != nil {
			lines, errClass = nil, "panic"
		}
	}()
	md := file.Messages().ByName("Foo")
	if md == nil {
		return nil, "error"
	}
	cache := j5schema.NewSchemaCache()
	rs, err := cache.Schema(md)
	if err != nil {
		if os.Getenv("RULESH_DEBUG") != "" {
			fmt.Fprintln(os.Stderr, "reader error:", err)
		}
		return nil, "error"
	}
	var props []*schema_j5pb.ObjectProperty
	var rprops []*j5schema.ObjectProperty
	switch root := rs.ToJ5Root().Type.(type) {
	case *schema_j5pb.RootSchema_Object:
		obj := root.Object
		ent, part := "~", "~"
		if obj.Entity != nil {
			ent, part = hexS(obj.Entity.Entity), strconv.Itoa(int(obj.Entity.Part))
		}
		lines = append(lines, rootLine("obj", obj.Name, obj.Description, ent, part, obj.AnyMember))
		props, rprops = obj.Properties, rs.(*j5schema.ObjectSchema).Properties
	case *schema_j5pb.RootSchema_Oneof:
		lines = append(lines, rootLine("oneof", root.Oneof.Name, root.Oneof.Description, "~", "~", nil))
		props, rprops = root.Oneof.Properties, rs.(*j5schema.OneofSchema).Properties
	default:
		return nil, "error"
	}
	for i, p := range props {
		if p.Name == "z" {
			continue
		}
		f := reflectedFlat(p)
		if len(p.ProtoField) == 1 {
			if fd := md.Fields().ByNumber(protoreflect.FieldNumber(p.ProtoField[0])); fd != nil {
				f.set("pname", hexS(string(fd.Name())))
			}
		}
		// enum root schema reached through the field
		var fs j5schema.FieldSchema = rprops[i].Schema
		if af, ok := fs.(*j5schema.ArrayField); ok {
			fs = af.Schema
		}
		if mf, ok := fs.(*j5schema.MapField); ok {
			fs = mf.Schema
		}
		if ef, ok := fs.(*j5schema.EnumField); ok {
			es := ef.Schema()
			f.set("epfx", hexS(es.NamePrefix))
			if d := es.Description(); d != "" {
				f.set("edesc", hexS(d))
			}
			var o []string
			for _, opt := range es.Options {
				o = append(o, fmt.Sprintf("%s:%d:%s", hexS(opt.Name()), opt.Number(), hexS(opt.Description())))
			}
			f.set("eopts", strings.Join(o, ","))
		}
		lines = append(lines, f.String())
	}
	return lines, ""
}

func rootLine(kind, name, desc, ent, part string, anym []string) string {
	d := "~"
	if desc != "" {
		d = hexS(desc)
	}
	return "root=" + kind + " name=" + hexS(name) + " desc=" + d + " ent=" + ent + " part=" + part + " anym=" + listS(anym)
}

// declaredRoot: what the source says about the root itself. `entity.part` not written = UNSPECIFIED (0).
func declaredRoot(r *Root) string {
	desc := ""
	if r.Desc != nil {
		desc = *r.Desc
	}
	if r.Kind == "oneof" {
		return rootLine("oneof", "Foo", desc, "~", "~", nil)
	}
	ent, part := "~", "~"
	if r.Ent != nil || r.Part != nil {
		ent, part = "-", "0"
		if r.Ent != nil {
			ent = hexS(*r.Ent)
		}
		if r.Part != nil {
			part = strconv.Itoa(*r.Part)
		}
	}
	return rootLine("obj", "Foo", desc, ent, part, r.AnyM)
}

// keysCapture: a field of Foo whose proto name is `keys` and whose type is the entity-annotated object Bar
func keysCapture(r *Root, specs []*Spec) bool {
	if r.BarEnt == nil {
		return false
	}
	for _, s := range specs {
		if s.Name == "keys" && s.Kind == "obj" && !s.Map {
			return true
		}
	}
	return false
}

func declaredFlatFull(s *Spec, num int) *Flat {
	f := declaredFlat(s, num)
	if s.Kind == "enum" {
		f.set("epfx", hexS(s.enumPrefix()))
		if s.EDesc != nil && *s.EDesc != "" {
			f.set("edesc", hexS(*s.EDesc))
		}
		o := []string{}
		opts := s.EOpts
		descs := s.EODesc
		if descs == nil {
			descs = make([]string, len(opts))
		}
		// the zero option: declared explicitly (then with its own description) or implicit (none)
		zeroDesc := ""
		if len(opts) > 0 && s.enumShort(opts[0]) == "UNSPECIFIED" {
			zeroDesc = descs[0]
			opts, descs = opts[1:], descs[1:]
		}
		o = append(o, hexS("UNSPECIFIED")+":0:"+hexS(zeroDesc))
		for i, n := range opts {
			o = append(o, fmt.Sprintf("%s:%d:%s", hexS(s.enumShort(n)), i+1, hexS(descs[i])))
		}
		f.set("eopts", strings.Join(o, ","))
	}
	return f
}

// diffSignature names the failure class narrowly: kind, first differing key, and how it differs.
func diffSignature(s *Spec, k, dv, rv string) string {
	class := "changed"
	switch k {
	case "kind", "kf", "req", "opt", "arr", "flat", "fmt", "pk", "od", "num":
		class = dv + "->" + rv
	default:
		if rv == "~" {
			class = "dropped"
		} else if dv == "~" {
			class = "invented"
		}
	}
	if s.Arr && (s.Kind == "date" || s.Kind == "dec") && rv == "~" && (k == "min" || k == "max" || k == "emin" || k == "emax") {
		// the rules of date / decimal items travel in the item's (j5.ext.v1.field), which the array annotation replaces
		return "schema-diff:array:" + s.Kind + ":rules:dropped"
	}
	if s.Map && (s.Kind == "date" || s.Kind == "dec") && rv == "~" && (k == "min" || k == "max" || k == "emin" || k == "emax") {
		// ... and for map values in the (j5.ext.v1.field) of the entry's value field, which nothing reads
		return "schema-diff:map:" + s.Kind + ":rules:dropped"
	}
	if (s.Arr || s.Map) && k == "opt" && dv == "1" && rv == "0" {
		// one class per container, whatever the item type: `?` on an array / map is accepted and not carried
		if s.Arr {
			return "schema-diff:array:opt:1->0"
		}
		return "schema-diff:map:opt:1->0"
	}
	if s.Map && k == "lr" && rv == "~" {
		// one class whatever the value type: the list rules are written on the entry's value field
		return "schema-diff:map:value-list-rules:dropped"
	}
	if k == "eopts" || k == "edesc" {
		// enum declaration reached through the field: numbering / names / descriptions of the options
		what := "options"
		if k == "edesc" {
			what = "desc"
		} else {
			dp, rp := strings.Split(dv, ","), strings.Split(rv, ",")
			if len(dp) == len(rp) {
				same := true
				for i := range dp {
					da, ra := strings.SplitN(dp[i], ":", 3), strings.SplitN(rp[i], ":", 3)
					if len(da) == 3 && len(ra) == 3 && (da[0] != ra[0] || da[1] != ra[1]) {
						same = false
					}
				}
				if same {
					what = "option-desc"
				}
			}
		}
		return "schema-diff:enum:" + what + ":changed"
	}
	if k == "name" {
		// one class per cardinality, whatever the type: the property's name itself
		cont := "single"
		if s.Arr {
			cont = "array"
		} else if s.Map {
			cont = "map"
		}
		return "schema-diff:" + cont + ":name:changed"
	}
	sig := "schema-diff:" + kindTag(s) + ":" + k + ":" + class
	switch {
	case s.Kind == "str" && k == "kind" && s.Pat != nil && *s.Pat == id62Pattern:
		sig += "[id62-pattern]"
	case s.Kind == "key" && (s.Arr || s.Map) && (k == "kind" || k == "kf"):
		sig += "[kf=" + s.KF + "]"
	}
	return sig
}

// specQual: the features of a declaration that matter for attributing a reader failure.
func specQual(s *Spec) string {
	var q []string
	if s.Kind == "key" {
		q = append(q, "kf="+s.KF)
	}
	if s.Pat != nil && *s.Pat == id62Pattern {
		q = append(q, "id62-pattern")
	}
	if s.Kind == "str" || s.Kind == "key" {
		// only for strings and keys do list rules / rules decide how the reader classifies the field
		if s.LR != nil {
			q = append(q, "lr")
		}
		if s.R {
			q = append(q, "rules")
		}
	}
	if len(q) == 0 {
		return ""
	}
	return "[" + strings.Join(q, ",") + "]"
}

const expectedRoots = `oneof On desc="" [a:object(foo.v1.Bar)#1 b:string#2] ; object Bar desc="the bar" [x:string#1]`

// reflectRoots renders the reflected schemas of the file's fixed declarations `oneof On` and `object Bar`.
func reflectRoots(file protoreflect.FileDescriptor) (out string) {
	defer func() {
		if r := recover(); r != nil {
			out = "panic"
		}
	}()
	cache := j5schema.NewSchemaCache()
	var parts []string
	for _, name := range []string{"On", "Bar"} {
		md := file.Messages().ByName(protoreflect.Name(name))
		if md == nil {
			return "missing " + name
		}
		rs, err := cache.Schema(md)
		if err != nil {
			return "error " + name
		}
		root := rs.ToJ5Root()
		var kind, desc string
		var props []string
		render := func(ps []*schema_j5pb.ObjectProperty) {
			for _, p := range ps {
				t := "?"
				switch ft := p.Schema.GetType().(type) {
				case *schema_j5pb.Field_String_:
					t = "string"
				case *schema_j5pb.Field_Object:
					t = "object(" + ft.Object.GetRef().GetPackage() + "." + ft.Object.GetRef().GetSchema() + ")"
				}
				nums := make([]string, len(p.ProtoField))
				for i, n := range p.ProtoField {
					nums[i] = fmt.Sprint(n)
				}
				props = append(props, fmt.Sprintf("%s:%s#%s", p.Name, t, strings.Join(nums, ".")))
			}
		}
		switch {
		case root.GetOneof() != nil:
			kind, desc = "oneof "+root.GetOneof().Name, root.GetOneof().Description
			render(root.GetOneof().Properties)
		case root.GetObject() != nil:
			kind, desc = "object "+root.GetObject().Name, root.GetObject().Description
			render(root.GetObject().Properties)
		default:
			kind = "other " + name
		}
		parts = append(parts, fmt.Sprintf("%s desc=%q [%s]", kind, desc, strings.Join(props, " ")))
	}
	return strings.Join(parts, " ; ")
}
