//go:build verif

package main

import (
	"errors"
	"fmt"
	"strconv"
	"strings"
	"unicode/utf8"

	"github.com/bufbuild/protovalidate-go"
	"github.com/pentops/j5/internal/verifh/vh"
	"google.golang.org/protobuf/reflect/protoreflect"
	"google.golang.org/protobuf/types/dynamicpb"
)

// ---------------------------------------------------------------- candidate values (wire form)
//
//   ~            field not set
//   str/key      hex of the UTF-8 bytes ("-" = empty string)
//   bytes        hex
//   int          decimal
//   bool         0 / 1
//   enum         number
//   f32/f64      0 / 1      (zero / 1.5)
//   message kind P          (present, empty message)
//   array        [v,v,...]  ("[]" = empty)

type Val struct {
	Absent bool
	Items  []string // array
	IsArr  bool
	Raw    string // scalar wire form
}

func parseVal(tok string) (Val, bool) {
	if tok == "~" {
		return Val{Absent: true}, true
	}
	if strings.HasPrefix(tok, "[") {
		if !strings.HasSuffix(tok, "]") {
			return Val{}, false
		}
		in := tok[1 : len(tok)-1]
		v := Val{IsArr: true}
		if in != "" {
			v.Items = strings.Split(in, ",")
		}
		return v, true
	}
	return Val{Raw: tok}, true
}

func isMsgKind(k string) bool {
	switch k {
	case "obj", "oneof", "ts", "date", "dec", "any":
		return true
	}
	return false
}

// setScalar converts a wire scalar to a protoreflect value for the field (or list element).
func scalarValue(s *Spec, fd protoreflect.FieldDescriptor, newMsg func() protoreflect.Message, raw string) (protoreflect.Value, error) {
	switch s.Kind {
	case "str", "key":
		b, ok := vh.UnHex(raw)
		if !ok || !utf8.Valid(b) {
			return protoreflect.Value{}, fmt.Errorf("bad string %q", raw)
		}
		return protoreflect.ValueOfString(string(b)), nil
	case "bytes":
		b, ok := vh.UnHex(raw)
		if !ok {
			return protoreflect.Value{}, fmt.Errorf("bad bytes %q", raw)
		}
		return protoreflect.ValueOfBytes(b), nil
	case "bool":
		return protoreflect.ValueOfBool(raw == "1"), nil
	case "enum":
		n, err := strconv.ParseInt(raw, 10, 32)
		if err != nil {
			return protoreflect.Value{}, err
		}
		return protoreflect.ValueOfEnum(protoreflect.EnumNumber(n)), nil
	case "int":
		switch fd.Kind() {
		case protoreflect.Int32Kind:
			n, err := strconv.ParseInt(raw, 10, 32)
			return protoreflect.ValueOfInt32(int32(n)), err
		case protoreflect.Int64Kind:
			n, err := strconv.ParseInt(raw, 10, 64)
			return protoreflect.ValueOfInt64(n), err
		case protoreflect.Uint32Kind:
			n, err := strconv.ParseUint(raw, 10, 32)
			return protoreflect.ValueOfUint32(uint32(n)), err
		case protoreflect.Uint64Kind:
			n, err := strconv.ParseUint(raw, 10, 64)
			return protoreflect.ValueOfUint64(n), err
		}
		return protoreflect.Value{}, fmt.Errorf("int spec on %s field", fd.Kind())
	case "f32":
		if raw == "1" {
			return protoreflect.ValueOfFloat32(1.5), nil
		}
		return protoreflect.ValueOfFloat32(0), nil
	case "f64":
		if raw == "1" {
			return protoreflect.ValueOfFloat64(1.5), nil
		}
		return protoreflect.ValueOfFloat64(0), nil
	}
	if isMsgKind(s.Kind) {
		if raw != "P" {
			return protoreflect.Value{}, fmt.Errorf("bad message value %q", raw)
		}
		m := newMsg()
		// the embedded message must itself be valid (protovalidate recurses into it)
		switch s.Kind {
		case "date":
			f := m.Descriptor().Fields()
			m.Set(f.ByName("year"), protoreflect.ValueOfInt32(2020))
			m.Set(f.ByName("month"), protoreflect.ValueOfInt32(2))
			m.Set(f.ByName("day"), protoreflect.ValueOfInt32(3))
		case "dec":
			m.Set(m.Descriptor().Fields().ByName("value"), protoreflect.ValueOfString("1.5"))
		case "any":
			m.Set(m.Descriptor().Fields().ByName("type_name"), protoreflect.ValueOfString("foo.v1.Bar"))
		}
		return protoreflect.ValueOfMessage(m), nil
	}
	return protoreflect.Value{}, fmt.Errorf("kind %s", s.Kind)
}

// buildMessage makes a Foo{z:"x", <field>: v}.
func buildMessage(md protoreflect.MessageDescriptor, s *Spec, fd protoreflect.FieldDescriptor, v Val) (*dynamicpb.Message, error) {
	msg := dynamicpb.NewMessage(md)
	msg.Set(md.Fields().ByName("z"), protoreflect.ValueOfString("x"))
	if sib := md.Fields().ByJSONName(siblingName); sib != nil && s.Kind == "enum" && !s.Req {
		// the required sibling of an enum field under test (RulesFileText): first declared option
		msg.Set(sib, protoreflect.ValueOfEnum(1))
	}
	if v.Absent {
		return msg, nil
	}
	if fd.IsMap() {
		// a map is given by its values; keys k0, k1, ... (no rules on keys)
		if !v.IsArr {
			return nil, fmt.Errorf("scalar value for map field")
		}
		mp := msg.Mutable(fd).Map()
		for i, it := range v.Items {
			pv, err := scalarValue(s, fd.MapValue(), func() protoreflect.Message { return mp.NewValue().Message() }, it)
			if err != nil {
				return nil, err
			}
			mp.Set(protoreflect.ValueOfString(fmt.Sprintf("k%d", i)).MapKey(), pv)
		}
		return msg, nil
	}
	if fd.IsList() {
		if !v.IsArr {
			return nil, fmt.Errorf("scalar value for list field")
		}
		l := msg.Mutable(fd).List()
		for _, it := range v.Items {
			pv, err := scalarValue(s, fd, func() protoreflect.Message { return l.NewElement().Message() }, it)
			if err != nil {
				return nil, err
			}
			l.Append(pv)
		}
		return msg, nil
	}
	if v.IsArr {
		return nil, fmt.Errorf("list value for scalar field")
	}
	pv, err := scalarValue(s, fd, func() protoreflect.Message { return msg.NewField(fd).Message() }, v.Raw)
	if err != nil {
		return nil, err
	}
	msg.Set(fd, pv)
	return msg, nil
}

// verdict: A accept, R reject (validation error), E anything else (constraint compilation / runtime error)
func pvVerdict(v protovalidate.Validator, msg *dynamicpb.Message) (byte, string) {
	err := v.Validate(msg)
	if err == nil {
		return 'A', ""
	}
	var ve *protovalidate.ValidationError
	if errors.As(err, &ve) {
		id := ""
		if len(ve.Violations) > 0 && ve.Violations[0].Proto != nil {
			id = ve.Violations[0].Proto.GetConstraintId()
		}
		return 'R', id
	}
	return 'E', err.Error()
}

// ---------------------------------------------------------------- the small regex class
//
//   pattern := '^'? body '$'?
//   body    := '[' ranges ']' quant   |  literal
//   ranges  := (c | c '-' c)+          (no negation, no escapes)
//   quant   := '{' n '}' | '{' n ',' m '}' | '+' | '*' | ''   ('' = exactly one)
//   literal := chars without metacharacters
//
// Unanchored sides mean "anywhere" (RE2 search semantics, as CEL `matches`).

type smallRe struct {
	anchorL, anchorR bool
	lit              []rune
	isClass          bool
	ranges           [][2]rune
	min, max         int // max < 0 = unbounded
}

const reMeta = `\.+*?()|[]{}^$`

func parseSmallRe(p string) (*smallRe, bool) {
	rs := []rune(p)
	re := &smallRe{}
	if len(rs) > 0 && rs[0] == '^' {
		re.anchorL = true
		rs = rs[1:]
	}
	if len(rs) > 0 && rs[len(rs)-1] == '$' {
		re.anchorR = true
		rs = rs[:len(rs)-1]
	}
	if len(rs) > 0 && rs[0] == '[' {
		re.isClass = true
		i := 1
		for i < len(rs) && rs[i] != ']' {
			c := rs[i]
			if strings.ContainsRune(`\^[`, c) {
				return nil, false
			}
			if i+2 < len(rs) && rs[i+1] == '-' && rs[i+2] != ']' {
				re.ranges = append(re.ranges, [2]rune{c, rs[i+2]})
				i += 3
			} else {
				re.ranges = append(re.ranges, [2]rune{c, c})
				i++
			}
		}
		if i >= len(rs) || len(re.ranges) == 0 {
			return nil, false
		}
		rest := string(rs[i+1:])
		switch {
		case rest == "":
			re.min, re.max = 1, 1
		case rest == "+":
			re.min, re.max = 1, -1
		case rest == "*":
			re.min, re.max = 0, -1
		case strings.HasPrefix(rest, "{") && strings.HasSuffix(rest, "}"):
			in := rest[1 : len(rest)-1]
			parts := strings.Split(in, ",")
			n, err := strconv.Atoi(parts[0])
			if err != nil || n < 0 {
				return nil, false
			}
			re.min, re.max = n, n
			if len(parts) == 2 {
				m, err := strconv.Atoi(parts[1])
				if err != nil || m < n {
					return nil, false
				}
				re.max = m
			} else if len(parts) != 1 {
				return nil, false
			}
		default:
			return nil, false
		}
		return re, true
	}
	for _, c := range rs {
		if strings.ContainsRune(reMeta, c) {
			return nil, false
		}
	}
	re.lit = rs
	return re, true
}

func (re *smallRe) inClass(c rune) bool {
	for _, r := range re.ranges {
		if r[0] <= c && c <= r[1] {
			return true
		}
	}
	return false
}

func (re *smallRe) match(s string) bool {
	rs := []rune(s)
	if !re.isClass {
		n := len(re.lit)
		switch {
		case re.anchorL && re.anchorR:
			return string(rs) == string(re.lit)
		case re.anchorL:
			return len(rs) >= n && string(rs[:n]) == string(re.lit)
		case re.anchorR:
			return len(rs) >= n && string(rs[len(rs)-n:]) == string(re.lit)
		default:
			return strings.Contains(s, string(re.lit))
		}
	}
	// longest run of class members starting at / ending at / anywhere
	runAt := func(i int) int {
		k := 0
		for i+k < len(rs) && re.inClass(rs[i+k]) {
			k++
		}
		return k
	}
	okLen := func(k int) bool { return k >= re.min && (re.max < 0 || k <= re.max) }
	switch {
	case re.anchorL && re.anchorR:
		return runAt(0) == len(rs) && okLen(len(rs))
	case re.anchorL:
		// some prefix of length in [min,max] consists of class members
		return runAt(0) >= re.min
	case re.anchorR:
		k := 0
		for k < len(rs) && re.inClass(rs[len(rs)-1-k]) {
			k++
		}
		return k >= re.min
	default:
		if re.min == 0 {
			return true
		}
		for i := range rs {
			if runAt(i) >= re.min {
				return true
			}
		}
		return false
	}
}

// ---------------------------------------------------------------- the independent oracle: what the j5s rules mean

func isAlnum(c rune) bool {
	return (c >= '0' && c <= '9') || (c >= 'a' && c <= 'z') || (c >= 'A' && c <= 'Z')
}
func isHex(c rune) bool {
	return (c >= '0' && c <= '9') || (c >= 'a' && c <= 'f') || (c >= 'A' && c <= 'F')
}

func id62Shape(s string) bool {
	rs := []rune(s)
	if len(rs) != 22 {
		return false
	}
	for _, c := range rs {
		if !isAlnum(c) {
			return false
		}
	}
	return true
}

func uuidShape(s string) bool {
	rs := []rune(s)
	if len(rs) != 36 {
		return false
	}
	for i, c := range rs {
		if i == 8 || i == 13 || i == 18 || i == 23 {
			if c != '-' {
				return false
			}
		} else if !isHex(c) {
			return false
		}
	}
	return true
}

// j5Item: does one (item) value satisfy the declared rules of the item type? `why` names the
// first rule that fails. unknown=true when the oracle cannot decide (pattern outside the small class).
func j5Item(s *Spec, raw string) (ok bool, why string, unknown bool) {
	switch s.Kind {
	case "str":
		b, _ := vh.UnHex(raw)
		n := uint64(utf8.RuneCount(b))
		if s.MinL != nil && n < *s.MinL {
			return false, "string-length", false
		}
		if s.MaxL != nil && n > *s.MaxL {
			return false, "string-length", false
		}
		if s.Pat != nil {
			re, okp := parseSmallRe(*s.Pat)
			if !okp {
				return true, "", true
			}
			if !re.match(string(b)) {
				return false, "string-pattern", false
			}
		}
		return true, "", false
	case "key":
		b, _ := vh.UnHex(raw)
		switch s.KF {
		case "id62":
			if !id62Shape(string(b)) {
				return false, "key-id62", false
			}
		case "uuid":
			if !uuidShape(string(b)) {
				return false, "key-uuid", false
			}
		case "cus":
			if s.Pat != nil {
				re, okp := parseSmallRe(*s.Pat)
				if !okp {
					return true, "", true
				}
				if !re.match(string(b)) {
					return false, "key-custom-pattern", false
				}
			}
		}
		return true, "", false
	case "bytes":
		b, _ := vh.UnHex(raw)
		n := uint64(len(b))
		if s.MinL != nil && n < *s.MinL {
			return false, "bytes-length", false
		}
		if s.MaxL != nil && n > *s.MaxL {
			return false, "bytes-length", false
		}
		return true, "", false
	case "bool":
		if s.Const != nil && (raw == "1") != *s.Const {
			return false, "bool-const", false
		}
		return true, "", false
	case "int":
		// values are int64 or uint64; compare in big-enough arithmetic
		neg := strings.HasPrefix(raw, "-")
		var sv int64
		var uv uint64
		if neg {
			sv, _ = strconv.ParseInt(raw, 10, 64)
		} else {
			uv, _ = strconv.ParseUint(raw, 10, 64)
		}
		cmp := func(b int64) int { // sign of value - b
			if neg {
				switch {
				case sv < b:
					return -1
				case sv > b:
					return 1
				}
				return 0
			}
			if b < 0 {
				return 1
			}
			switch {
			case uv < uint64(b):
				return -1
			case uv > uint64(b):
				return 1
			}
			return 0
		}
		if s.Min != nil {
			c := cmp(*s.Min)
			if s.EMin != nil && *s.EMin {
				if c <= 0 {
					return false, "int-bound-inclusivity", false
				}
			} else if c < 0 {
				return false, "int-bound", false
			}
		}
		if s.Max != nil {
			c := cmp(*s.Max)
			if s.EMax != nil && *s.EMax {
				if c >= 0 {
					return false, "int-bound-inclusivity", false
				}
			} else if c > 0 {
				return false, "int-bound", false
			}
		}
		return true, "", false
	case "enum":
		n64, _ := strconv.ParseInt(raw, 10, 32)
		n := int32(n64)
		nums := s.enumNumbers()
		defined := false
		for _, v := range nums {
			if v == n {
				defined = true
			}
		}
		if !defined {
			return false, "enum-defined-only", false
		}
		if len(s.In) > 0 {
			found := false
			for _, name := range s.In {
				if v, ok := nums[s.enumShort(name)]; ok && v == n {
					found = true
				}
			}
			if !found {
				return false, "enum-in", false
			}
		}
		for _, name := range s.NIn {
			if v, ok := nums[s.enumShort(name)]; ok && v == n {
				return false, "enum-not-in", false
			}
		}
		return true, "", false
	}
	return true, "", false
}

func isZeroScalar(s *Spec, raw string) bool {
	switch s.Kind {
	case "str", "key", "bytes":
		return raw == "-"
	case "bool", "int", "enum", "f32", "f64":
		return raw == "0"
	}
	return false
}

// j5Accepts: the meaning of the whole declaration for one candidate field value.
//
// hasPresence says whether the compiled field can tell "not set" from "set to the zero value";
// when it cannot, the candidate `~` denotes the very same message as the zero value and is
// judged as such.
func j5Accepts(s *Spec, v Val, hasPresence bool) (ok bool, why string, unknown bool) {
	if s.Map {
		n := uint64(len(v.Items))
		if v.Absent {
			n = 0
		}
		if s.Req && n == 0 {
			return false, "required", false
		}
		if s.AMin != nil && n < *s.AMin {
			return false, "map-pairs-count", false
		}
		if s.AMax != nil && n > *s.AMax {
			return false, "map-pairs-count", false
		}
		for _, it := range v.Items {
			if isMsgKind(s.Kind) {
				continue
			}
			ok, why, unk := j5Item(s, it)
			if unk {
				return true, "", true
			}
			if !ok {
				return false, "map-value:" + why, false
			}
		}
		return true, "", false
	}
	if s.Arr {
		n := uint64(len(v.Items))
		if v.Absent {
			n = 0
		}
		if effReq(s) && n == 0 {
			return false, "required", false
		}
		if s.AMin != nil && n < *s.AMin {
			return false, "array-items-count", false
		}
		if s.AMax != nil && n > *s.AMax {
			return false, "array-items-count", false
		}
		if s.AUniq != nil && *s.AUniq {
			seen := map[string]bool{}
			for _, it := range v.Items {
				if seen[it] {
					return false, "array-unique", false
				}
				seen[it] = true
			}
		}
		for _, it := range v.Items {
			if isMsgKind(s.Kind) {
				continue
			}
			ok, why, unk := j5Item(s, it)
			if unk {
				return true, "", true
			}
			if !ok {
				return false, "array-item:" + why, false
			}
		}
		return true, "", false
	}
	if isMsgKind(s.Kind) {
		if effReq(s) && v.Absent {
			return false, "required", false
		}
		return true, "", false
	}
	// scalar: without presence tracking the unset field IS the zero value
	raw := v.Raw
	if v.Absent {
		if s.Opt && hasPresence {
			return true, "", false // explicitly optional and absent: nothing to check
		}
		raw = zeroRaw(s)
	}
	if effReq(s) && isZeroScalar(s, raw) {
		return false, "required", false
	}
	return j5Item(s, raw)
}

func zeroRaw(s *Spec) string {
	switch s.Kind {
	case "str", "key", "bytes":
		return "-"
	}
	return "0"
}

// effReq: required as declared; a primary key is always required (README / schema.proto).
func effReq(s *Spec) bool {
	return s.Req || (s.Kind == "key" && s.PK != nil && *s.PK)
}
