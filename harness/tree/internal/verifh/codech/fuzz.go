//go:build verif

package main

import (
	"bytes"
	"fmt"
	"strings"

	"github.com/iancoleman/strcase"
	"github.com/pentops/j5/internal/verifh/vh"
	"google.golang.org/protobuf/reflect/protoreflect"
)

// ---- codec.fuzz: grammar-aware mutations of valid documents, arbitrary bytes, nasty url.Values

// allNodes lists every value node of a document (pre-order) with a setter.
type nodeRef struct {
	v      *jval
	parent *jval
	idx    int
}

func allNodes(v *jval, parent *jval, idx int, out *[]nodeRef) {
	*out = append(*out, nodeRef{v, parent, idx})
	switch v.kind {
	case jObj:
		for i := range v.members {
			allNodes(v.members[i].val, v, i, out)
		}
	case jArr:
		for i := range v.elems {
			allNodes(v.elems[i], v, i, out)
		}
	}
}

func (r nodeRef) set(n *jval) {
	if r.parent == nil {
		*r.v = *n
		return
	}
	if r.parent.kind == jObj {
		r.parent.members[r.idx].val = n
	} else {
		r.parent.elems[r.idx] = n
	}
}

var hugeNumbers = []string{"1e400", "-1e400", "1e-400", "0." + strings.Repeat("0", 300) + "1", strings.Repeat("9", 400), "-" + strings.Repeat("9", 400),
	"18446744073709551616", "9223372036854775808", "-9223372036854775809", "-0", "0e0", "1E+2", "1.0", "123456789012345678901234567890.5"}

var oddScalars = []string{`"NaN"`, `"Infinity"`, `"-Inf"`, `"0x10"`, `"1_000"`, `" 1"`, `"1 "`, `"+1"`, `"true"`, `""`, `"null"`, `"\ud800"`, `"\udc00\ud800"`, `"\u0000"`, `"a\u0000b"`,
	`"2020-01-01"`, `"2020-13-45"`, `"0000-00-00"`, `"99999999999-01-01"`, `"-1-1-1"`, `"2020-01-01T00:00:00Z"`, `"2020-01-01T00:00:00+99:00"`, `"====", "A==="`, `"!"`}

func (im *impl) fuzzDoc(h *vh.H, root *sRoot, doc *jval) ([]byte, string) {
	var nodes []nodeRef
	allNodes(doc, nil, 0, &nodes)
	pickNode := func() nodeRef { return nodes[h.Rng.IntN(len(nodes))] }
	switch k := h.Rng.IntN(17); k {
	case 0: // truncation
		b := doc.bytes()
		if len(b) > 0 {
			b = b[:h.Rng.IntN(len(b))]
		}
		return b, "truncate"
	case 1, 2: // null in a random position (incl. the root)
		pickNode().set(jnull())
		return doc.bytes(), "null-anywhere"
	case 3: // duplicate a member
		var objs []*jval
		for _, n := range nodes {
			if n.v.kind == jObj && len(n.v.members) > 0 {
				objs = append(objs, n.v)
			}
		}
		if len(objs) > 0 {
			o := objs[h.Rng.IntN(len(objs))]
			m := o.members[h.Rng.IntN(len(o.members))]
			dup := jmember{key: m.key, keyRaw: m.keyRaw, val: m.val.clone()}
			if h.Rng.IntN(2) == 0 {
				dup.val = jnull()
			}
			o.members = append(o.members, dup)
		}
		return doc.bytes(), "duplicate-key"
	case 4: // huge / odd number
		n := pickNode()
		n.set(jnum(hugeNumbers[h.Rng.IntN(len(hugeNumbers))]))
		return doc.bytes(), "huge-number"
	case 5: // odd scalar string
		n := pickNode()
		n.set(&jval{kind: jStr, raw: oddScalars[h.Rng.IntN(len(oddScalars))]})
		return doc.bytes(), "odd-scalar"
	case 6: // wrong shape
		n := pickNode()
		shapes := []*jval{{kind: jObj}, {kind: jArr}, {kind: jArr, elems: []*jval{jnull()}}, {kind: jArr, elems: []*jval{{kind: jArr}}}, jbool(true), jnum("0"), jstr(""),
			{kind: jObj, members: []jmember{{key: "k", keyRaw: `"k"`, val: jnull()}}}, {kind: jObj, members: []jmember{{key: "!type", keyRaw: `"!type"`, val: jnull()}}},
			{kind: jArr, elems: []*jval{{kind: jObj}, jnull(), jnum("1")}}}
		n.set(shapes[h.Rng.IntN(len(shapes))].clone())
		return doc.bytes(), "wrong-shape"
	case 7: // deep nesting wrapped around / inside
		depth := 1 + h.Rng.IntN(1500)
		open, cl := "[", "]"
		if h.Rng.IntN(2) == 0 {
			open, cl = `{"a":`, "}"
		}
		n := pickNode()
		inner := "null"
		if h.Rng.IntN(2) == 0 {
			inner = string(n.v.bytes())
		}
		n.set(&jval{kind: jNum, raw: strings.Repeat(open, depth) + inner + strings.Repeat(cl, depth)})
		return doc.bytes(), "deep-nesting"
	case 8: // byte-level mutation
		b := doc.bytes()
		for k := 0; k < 1+h.Rng.IntN(3) && len(b) > 0; k++ {
			p := h.Rng.IntN(len(b))
			switch h.Rng.IntN(3) {
			case 0:
				b[p] = byte(h.Rng.IntN(256))
			case 1:
				b = append(b[:p], b[p+1:]...)
			default:
				b = append(b[:p], append([]byte{insChars[h.Rng.IntN(len(insChars))]}, b[p:]...)...)
			}
		}
		return b, "byte-mutation"
	case 9: // oneof framing abuse
		var objs []*jval
		for _, n := range nodes {
			if n.v.kind == jObj && n.v.get("!type") != nil {
				objs = append(objs, n.v)
			}
		}
		if len(objs) == 0 {
			// no oneof in the document: put a "!type"-only object at a random place
			pickNode().set(&jval{kind: jObj, members: []jmember{{key: "!type", keyRaw: `"!type"`, val: jstr("x")}}})
			return doc.bytes(), "oneof-abuse"
		}
		o := objs[h.Rng.IntN(len(objs))]
		switch h.Rng.IntN(6) {
		case 0: // only "!type"
			o.members = []jmember{{key: "!type", keyRaw: `"!type"`, val: o.get("!type")}}
		case 1:
			o.members = []jmember{{key: "!type", keyRaw: `"!type"`, val: jnull()}}
		case 2:
			o.members = []jmember{{key: "!type", keyRaw: `"!type"`, val: jnum("1")}}
		case 3:
			o.members = append(o.members, jmember{key: "!type", keyRaw: `"!type"`, val: jstr("other")})
		case 4:
			for i := range o.members {
				if o.members[i].key != "!type" {
					o.members[i].val = jnull()
				}
			}
		default:
			o.members = []jmember{{key: "!type", keyRaw: `"!type"`, val: jstr("zzNoSuch")}}
		}
		return doc.bytes(), "oneof-abuse"
	case 10: // null inside arrays / maps
		var cs []*jval
		for _, n := range nodes {
			if (n.v.kind == jArr && len(n.v.elems) > 0) || (n.v.kind == jObj && len(n.v.members) > 0) {
				cs = append(cs, n.v)
			}
		}
		if len(cs) > 0 {
			c := cs[h.Rng.IntN(len(cs))]
			if c.kind == jArr {
				c.elems[h.Rng.IntN(len(c.elems))] = jnull()
			} else {
				c.members[h.Rng.IntN(len(c.members))].val = jnull()
			}
		}
		return doc.bytes(), "null-element"
	case 11: // trailing data / several values
		b := doc.bytes()
		tails := []string{"}", "]", " garbage", "{}", ",", "null", "\x00", " \n\t"}
		return append(b, tails[h.Rng.IntN(len(tails))]...), "trailing"
	case 12: // invalid UTF-8 in a string / key
		b := doc.bytes()
		if i := bytes.IndexByte(b, '"'); i >= 0 {
			p := i + 1 + h.Rng.IntN(len(b)-i-1)
			ins := [][]byte{{0xff}, {0xc3}, {0xed, 0xa0, 0x80}, {0xf8, 0x88, 0x80, 0x80, 0x80}, {0x00}, {0x1f}}[h.Rng.IntN(6)]
			b = append(b[:p], append(append([]byte{}, ins...), b[p:]...)...)
		}
		return b, "bad-utf8"
	case 13: // unknown / odd keys
		var objs []*jval
		for _, n := range nodes {
			if n.v.kind == jObj {
				objs = append(objs, n.v)
			}
		}
		if len(objs) > 0 {
			o := objs[h.Rng.IntN(len(objs))]
			ks := []string{"", "!type", "value", "a.b", "\u0000", "zz", strings.Repeat("k", 300)}
			k := ks[h.Rng.IntN(len(ks))]
			vals := []*jval{jnull(), jnum("1"), jstr("x"), {kind: jObj}, {kind: jArr}}
			o.members = append(o.members, jmember{key: k, keyRaw: string(quoteJSON(k)), val: vals[h.Rng.IntN(len(vals))]})
		}
		return doc.bytes(), "odd-key"
	case 15: // rename a member (known name -> unknown / other known name)
		var objs []*jval
		for _, n := range nodes {
			if n.v.kind == jObj && len(n.v.members) > 0 {
				objs = append(objs, n.v)
			}
		}
		if len(objs) > 0 {
			o := objs[h.Rng.IntN(len(objs))]
			i := h.Rng.IntN(len(o.members))
			nk := []string{"zzRenamed", "value", "!type", o.members[h.Rng.IntN(len(o.members))].key, strings.ToUpper(o.members[i].key)}[h.Rng.IntN(5)]
			o.members[i].key, o.members[i].keyRaw = nk, string(quoteJSON(nk))
		}
		return doc.bytes(), "rename-key"
	case 14: // every scalar replaced by null / by a container
		for _, n := range nodes {
			if n.v.kind != jObj && n.v.kind != jArr && h.Rng.IntN(2) == 0 {
				if h.Rng.IntN(2) == 0 {
					n.set(jnull())
				} else {
					n.set(&jval{kind: jArr, elems: []*jval{jnull()}})
				}
			}
		}
		return doc.bytes(), "scalars-to-null"
	}
	return doc.bytes(), "valid"
}

const insChars = "{}[],:\"\\ntrue0-.eE"
const jsonChars = "{}[]:,\"\\ ntrufalse0123456789.-+eE!ypvalue"

var rawInputs = []string{"", " ", "\n", "{", "}", "[", "]", "{}", "[]", "null", "true", "0", `""`, `"x"`, "{}{}", "{,}", `{"a"}`, `{"a":}`, `{:1}`, `{"a":1,}`, "[1,]", "nul", "tru", "-", "1e", `"\u12"`, `"\x"`,
	"\xef\xbb\xbf{}", "/*c*/{}", "{} //x", "'a'", "{'a':1}", "NaN", "Infinity", "-Infinity", "0x10", "01", "1.", ".5", "+1", `{"!type":"x"}`, `{"!type":null}`, `{"!type":1}`,
	`{"":1}`, `{"\u0000":1}`, `[null]`, `{"a":[null]}`, `{"a":{"b":null}}`, "\x00", "\xff\xfe", strings.Repeat("[", 3000), strings.Repeat(`{"a":`, 800), strings.Repeat("[", 2000) + strings.Repeat("]", 2000)}

// expText: a number with an exponent beyond what the codec may expand (decimal exponents are limited to
// +-4096 since /repo 158a5b4): lower- and upper-case marker, signed or not, small or huge.
func expText(h *vh.H, huge bool) string {
	mant := []string{"1", "3", "1.5", "-2", "0.1", "12345"}[h.Rng.IntN(6)]
	mark := []string{"e", "E"}[h.Rng.IntN(2)]
	sign := []string{"", "+", "-"}[h.Rng.IntN(3)]
	exps := []string{"4097", "5000", "99999", "300000", "3000000"}
	if huge {
		exps = []string{"3000000", "20000000", "99158119", "2147483647"}
	}
	return mant + mark + sign + exps[h.Rng.IntN(len(exps))]
}

// genExponent: a decimal / float member (scalar, array element, map value, nested, query parameter) whose
// number has a huge exponent, bare or quoted. The codec must reject the decimals (and out-of-range
// floats) at once; a decoder that expands them produces megabytes from 20 bytes or runs for seconds.
func (im *impl) genExponent(h *vh.H, huge bool, withEnv bool) string {
	x := expText(h, huge)
	v := x
	if h.Rng.IntN(2) == 0 {
		v = `"` + x + `"`
	}
	type tpl struct{ root, doc, qkey string }
	tpls := []tpl{
		{"g0.v1.All", `{"sDec":` + v + `}`, "sDec"},
		{"g0.v1.All", `{"rDec":["1.5",` + v + `]}`, ""},
		{"g0.v1.All", `{"mDec":{"k":` + v + `}}`, ""},
		{"g0.v1.All", `{"sDouble":` + v + `}`, "sDouble"},
		{"g0.v1.All", `{"sFloat":` + v + `}`, "sFloat"},
		{"g0.v1.All", `{"rDouble":[` + v + `]}`, ""},
		{"test.schema.v1.FullSchema", `{"decimal":` + v + `}`, "decimal"},
		{"test.schema.v1.FullSchema", `{"rDecimal":[1.1,` + v + `]}`, ""},
		{"test.schema.v1.FullSchema", `{"sFloat":` + v + `}`, "sFloat"},
	}
	t := tpls[h.Rng.IntN(len(tpls))]
	ts, md, err := setForRoot(t.root)
	if err != nil {
		return ""
	}
	env := "(env)"
	if withEnv {
		env = im.envFor(ts, md)
	}
	mode := pickMode(h)
	h.Count("gen.exponent")
	if t.qkey != "" && h.Rng.IntN(4) == 0 {
		return qline(mode, env, t.root, [][]string{{t.qkey, x}}, newOra(), "")
	}
	b := []byte(t.doc)
	return "dec " + mode + " " + env + " " + t.root + " " + vh.Hex(b) + " " + oraForDoc(b).String()
}

func (im *impl) genFuzz(h *vh.H, i int) string {
	if i%5 == 4 {
		return im.genFuzzQuery(h, i)
	}
	if i%25 == 11 {
		return im.genExponent(h, false, true)
	}
	if i%40 == 7 {
		// tokenizer differential
		_, _, _, _, doc, ok := im.canonicalDoc(h)
		var b []byte
		if ok && h.Rng.IntN(2) == 0 {
			b, _ = im.fuzzDoc(h, nil, doc)
		} else {
			b = []byte(rawInputs[h.Rng.IntN(len(rawInputs))])
		}
		if len(b) > 4096 {
			b = b[:4096]
		}
		return "tok " + vh.Hex(b)
	}
	ts, md, mode, out, doc, ok := im.canonicalDoc(h)
	if !ok {
		ts, md = im.pickTarget(h)
		mode = pickMode(h)
	}
	var b []byte
	label := "raw"
	switch {
	case !ok || h.Rng.IntN(8) == 0:
		switch h.Rng.IntN(3) {
		case 0:
			n := h.Rng.IntN(64)
			b = make([]byte, n)
			for k := range b {
				b[k] = byte(h.Rng.IntN(256))
			}
			label = "random-bytes"
		case 1:
			n := h.Rng.IntN(64)
			b = make([]byte, n)
			for k := range b {
				b[k] = jsonChars[h.Rng.IntN(len(jsonChars))]
			}
			label = "random-json-chars"
		default:
			b = []byte(rawInputs[h.Rng.IntN(len(rawInputs))])
		}
	case h.Rng.IntN(10) == 0:
		b = out
		label = "valid"
	default:
		b, label = im.fuzzDoc(h, ts.rootOf(md), doc)
		if h.Rng.IntN(4) == 0 {
			// a second mutation on top
			if d2, err := parseStrict(b); err == nil {
				var l2 string
				b, l2 = im.fuzzDoc(h, ts.rootOf(md), d2)
				label += "+" + l2
			}
		}
	}
	limit := 4096
	if h.Tier == "thorough" {
		limit = 65536
	}
	if len(b) > limit {
		b = b[:limit]
	}
	h.Count("gen.fuzz." + strings.SplitN(label, "+", 2)[0])
	return "dec " + mode + " " + im.envFor(ts, md) + " " + j5Name(md) + " " + vh.Hex(b) + " " + oraForDoc(b).String()
}

// allPaths enumerates dotted paths into every property kind of a root (bounded depth).
func allPaths(root *sRoot, prefix []string, depth int, out *[][]string, kinds *[]string) {
	if root.broken || depth > 3 {
		return
	}
	for _, p := range root.props {
		segs := append(append([]string{}, prefix...), p.json)
		*out = append(*out, segs)
		*kinds = append(*kinds, p.field.kind)
		if p.field.kind == "object" || p.field.kind == "oneof" {
			allPaths(p.field.ref(), segs, depth+1, out, kinds)
		}
	}
}

var queryValues = [][]string{nil, {}, {""}, {"a"}, {"a", "b"}, {"1"}, {"1", "2", "3"}, {"true"}, {"null"}, {"{}"}, {" {}"}, {"{"}, {"[]"}, {`{"!type":"x"}`}, {`{"a":null}`}, {"{}", "{}"}, {"\x00"}, {"\xff"},
	{"2020-01-01"}, {"2020-01-01T00:00:00Z"}, {"1.5"}, {"-1"}, {"99999999999999999999"}, {"abc"}, {"AQID"}, {strings.Repeat("9", 400)}, {`{"zz":1}`}, {"  "}, {"{}x"}}

func (im *impl) genFuzzQuery(h *vh.H, i int) string {
	if (i/5)%3 == 0 {
		// index-like / empty path segments after every property kind (querypath.go)
		if op := im.genIndexedQuery(h, fuzzIndexSegs, true, ""); op != "" {
			return op
		}
	}
	ts, md := im.pickTarget(h)
	root := ts.rootOf(md)
	mode := pickMode(h)
	var paths [][]string
	var kinds []string
	allPaths(root, nil, 0, &paths, &kinds)
	pickKey := func() string {
		switch h.Rng.IntN(10) {
		case 0:
			return []string{"", ".", "..", "a..b", ".a", "a.", "zzUnknown", "!type", "value", "a b", "\x00", strings.Repeat("a.", 200) + "a", "Ünï"}[h.Rng.IntN(13)]
		}
		if len(paths) == 0 {
			return "x"
		}
		k := h.Rng.IntN(len(paths))
		segs := append([]string{}, paths[k]...)
		h.Count("gen.fuzzq.kind." + kinds[k])
		switch h.Rng.IntN(8) {
		case 0:
			segs = append(segs, "zz") // descend into a non-container / unknown child
		case 1:
			for j := range segs {
				segs[j] = strcase.ToSnake(segs[j])
			}
		case 2:
			segs = append(segs, segs[len(segs)-1])
		case 3:
			segs[0] = strings.ToUpper(segs[0])
		}
		return strings.Join(segs, ".")
	}
	nk := 1
	if h.Rng.IntN(4) == 0 {
		nk = 0
	}
	var keys [][]string
	o := newOra()
	for k := 0; k < nk; k++ {
		kv := []string{pickKey()}
		vs := queryValues[h.Rng.IntN(len(queryValues))]
		kv = append(kv, vs...)
		for _, v := range vs {
			for _, s := range oraForDoc([]byte(v)).f {
				_ = s
			}
		}
		keys = append(keys, kv)
	}
	// values that are JSON text need the oracle tables of their tokens too
	for _, kv := range keys {
		for _, v := range kv[1:] {
			od := oraForDoc([]byte(v))
			for k2, e := range od.f {
				o.f[k2] = e
			}
			for k2, e := range od.t {
				o.t[k2] = e
			}
			for k2, e := range od.d {
				o.d[k2] = e
			}
		}
	}
	return qline(mode, im.envFor(ts, md), j5Name(md), keys, o, "")
}

// ---- codec.stress (Go only): large inputs, very deep nesting, time scaling

func (im *impl) genStress(h *vh.H, i int) string {
	ts, err := getGenSet(1)
	if err != nil {
		return ""
	}
	var md protoreflect.MessageDescriptor
	var b []byte
	maxDepth := 20000
	maxLen := 1 << 20
	if h.Tier == "thorough" {
		maxDepth = 100000
		maxLen = 4 << 20
	}
	depth := 1000 + h.Rng.IntN(maxDepth)
	if i%10 == 9 {
		// numbers with huge exponents: must be rejected at once
		return im.genExponent(h, true, false)
	}
	if i%10 == 4 {
		// query keys with a huge index segment: must be rejected at once (querypath.go)
		return im.genIndexedQuery(h, hugeIndexSegs, false, []string{"test.schema.v1.FullSchema", "g1.v1.Tree", "g0.v1.All"}[h.Rng.IntN(3)])
	}
	switch i % 9 {
	case 0: // valid recursion through Tree.left
		md = ts.byRoot["g1.v1.Tree"]
		b = []byte(strings.Repeat(`{"left":`, depth) + "{}" + strings.Repeat("}", depth))
	case 1: // recursion through arrays
		md = ts.byRoot["g1.v1.Tree"]
		b = []byte(strings.Repeat(`{"children":[`, depth) + "{}" + strings.Repeat("]}", depth))
	case 2: // recursive oneof wrapper
		md = ts.byRoot["g1.v1.RW"]
		b = []byte(strings.Repeat(`{"rw":`, depth) + `{"leaf":"x"}` + strings.Repeat("}", depth))
	case 3: // unclosed
		md = ts.byRoot["g1.v1.Tree"]
		b = []byte(strings.Repeat(`{"left":`, depth))
	case 4: // deep garbage inside an Any value (json.Decoder.Decode path)
		md = ts.byRoot["g1.v1.RW"]
		b = []byte(`{"any":{"!type":"g1.v1.Tree","value":` + strings.Repeat("[", depth) + strings.Repeat("]", depth) + `}}`)
	case 5: // long flat array
		md = ts.byRoot["g1.v1.Tree"]
		n := 1000 + h.Rng.IntN(maxLen/4)
		b = []byte(`{"n":[` + strings.Repeat("1,", n) + `1]}`)
	case 6: // long string
		md = ts.byRoot["g1.v1.Tree"]
		n := 1000 + h.Rng.IntN(maxLen)
		b = []byte(`{"value":"` + strings.Repeat("x", n) + `"}`)
	case 8: // Any values nested in Any values, expanded to proto (WithProtoToAny): cubic before 309b762
		md = ts.byRoot["g1.v1.RW"]
		k := 90 + h.Rng.IntN(1500)
		if h.Tier == "thorough" {
			k = 90 + h.Rng.IntN(4500)
		}
		b = []byte(strings.Repeat(`{"any":{"!type":"g1.v1.RW","value":`, k) + "{}" + strings.Repeat("}}", k))
	default: // map with many keys
		md = ts.byRoot["g1.v1.Tree"]
		var sb strings.Builder
		sb.WriteString(`{"named":{`)
		n := 100 + h.Rng.IntN(20000)
		for k := 0; k < n; k++ {
			if k > 0 {
				sb.WriteByte(',')
			}
			fmt.Fprintf(&sb, `"k%d":{}`, k)
		}
		sb.WriteString("}}")
		b = []byte(sb.String())
	}
	mode := "n"
	if i%9 == 4 || i%9 == 8 {
		mode = "p"
	}
	return "dec " + mode + " (env) " + j5Name(md) + " " + vh.Hex(b) + " (ora)"
}
