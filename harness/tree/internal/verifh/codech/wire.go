//go:build verif

package main

import (
	"bytes"
	"encoding/base64"
	"fmt"
	"math"
	"regexp"
	"strconv"
	"strings"
	"time"

	"google.golang.org/protobuf/proto"
	"google.golang.org/protobuf/reflect/protoreflect"
)

// ---- canonical bytes of an enc result (PROTOCOL section 6): members of map-typed objects sorted

func canonEncBytes(ts *typeSet, root *sRoot, out []byte, m protoreflect.Message) []byte {
	doc, err := parseStrict(out)
	if err != nil {
		return out
	}
	if !canonObj(ts, root, doc, m) {
		return out
	}
	return doc.bytes()
}

// canonObj sorts the members of map-typed objects. m is the message the object was encoded from
// (needed to tell a verbatim j5_json Any value, which is left untouched, from a value the encoder
// produced by re-encoding the Any's proto bytes, which is canonicalised recursively).
func canonObj(ts *typeSet, root *sRoot, v *jval, m protoreflect.Message) bool {
	if v.kind != jObj || root.broken {
		return false
	}
	for _, mem := range v.members {
		if root.isOneof && mem.key == "!type" {
			continue
		}
		p := root.prop(mem.key)
		if p == nil {
			return false
		}
		var pv protoreflect.Value
		if len(p.path) == 0 {
			if !canonObj(ts, p.field.ref(), mem.val, m) {
				return false
			}
			continue
		}
		holder, fd, has := readPath(m, p.path)
		if !has {
			return false
		}
		pv = holder.Get(fd)
		if !canonField(ts, p.field, mem.val, pv) {
			return false
		}
	}
	return true
}

func canonField(ts *typeSet, f *sField, v *jval, pv protoreflect.Value) bool {
	switch f.kind {
	case "object", "oneof":
		return canonObj(ts, f.ref(), v, pv.Message())
	case "array":
		if v.kind != jArr || v.elems == nil && pv.List().Len() != 0 || len(v.elems) != pv.List().Len() {
			return false
		}
		for i, e := range v.elems {
			if !canonField(ts, f.item, e, pv.List().Get(i)) {
				return false
			}
		}
	case "map":
		if v.kind != jObj {
			return false
		}
		v.sortMembers()
		for _, mem := range v.members {
			k := protoreflect.ValueOfString(mem.key).MapKey()
			if !pv.Map().Has(k) {
				return false
			}
			if !canonField(ts, f.item, mem.val, pv.Map().Get(k)) {
				return false
			}
		}
	case "anyj5", "anypb":
		am := pv.Message()
		var tn string
		var pbytes []byte
		if f.kind == "anyj5" {
			if len(getBytes(am, "j5_json")) > 0 {
				return true // verbatim
			}
			tn, pbytes = getStr(am, "type_name"), getBytes(am, "proto")
		} else {
			tn, pbytes = strings.TrimPrefix(getStr(am, "type_url"), anyPrefix), getBytes(am, "value")
		}
		md, ok := ts.byProto[protoreflect.FullName(tn)]
		val := v.get("value")
		if !ok || val == nil {
			return false
		}
		im := ts.newMessage(md)
		if err := proto.Unmarshal(pbytes, im.Interface()); err != nil {
			return false
		}
		return canonObj(ts, ts.rootOf(md), val, im)
	}
	return true
}

// ---- C08: conformance of the encoder output with the README "Scalar Types" table and the
// oneof / any / flatten / omission rules, checked against the message that was encoded.

type wireIssue struct {
	sig    string
	detail string
}

type wireChecker struct {
	ts     *typeSet
	issues []wireIssue
}

func (w *wireChecker) fail(sig, path, format string, args ...any) {
	if len(w.issues) < 8 {
		w.issues = append(w.issues, wireIssue{sig, path + ": " + fmt.Sprintf(format, args...)})
	}
}

// readPath reads the proto value of a property (nil message when an intermediate is absent).
func readPath(m protoreflect.Message, path []protoreflect.FieldDescriptor) (protoreflect.Message, protoreflect.FieldDescriptor, bool) {
	cur := m
	for i, fd := range path {
		if i == len(path)-1 {
			return cur, fd, cur.Has(fd)
		}
		if !cur.Has(fd) {
			return nil, nil, false
		}
		cur = cur.Get(fd).Message()
	}
	return cur, nil, false
}

// setMembers lists the members of a oneof root that are populated in m.
func setMembers(root *sRoot, m protoreflect.Message) []*sProp {
	var out []*sProp
	for _, p := range root.props {
		if propPresent(p, m) {
			out = append(out, p)
		}
	}
	return out
}

func propPresent(p *sProp, m protoreflect.Message) bool {
	if len(p.path) == 0 {
		// exposed oneof: present iff exactly one member is populated
		return len(setMembers(p.field.ref(), m)) == 1
	}
	_, _, has := readPath(m, p.path)
	return has
}

func (w *wireChecker) object(root *sRoot, v *jval, m protoreflect.Message, path string) {
	if v.kind != jObj {
		w.fail("c08-format:object", path, "expected a JSON object, got %s", v.raw)
		return
	}
	seen := map[string]bool{}
	for _, mem := range v.members {
		if seen[mem.key] {
			w.fail("c08-members:duplicate", path, "member %q emitted twice", mem.key)
		}
		seen[mem.key] = true
		p := root.prop(mem.key)
		if p == nil {
			w.fail("c08-members:not-a-schema-name", path, "member %q is not a JSON name of %s", mem.key, root.name)
			continue
		}
		if !propPresent(p, m) {
			w.fail("c08-members:unset-emitted", path, "member %q emitted although unset", mem.key)
			continue
		}
		w.prop(p, mem.val, m, subPath(path, "."+mem.key))
	}
	for _, p := range root.props {
		if propPresent(p, m) && !seen[p.json] {
			w.fail("c08-members:set-omitted", path, "member %q is set but missing", p.json)
		}
	}
}

func (w *wireChecker) prop(p *sProp, v *jval, m protoreflect.Message, path string) {
	if len(p.path) == 0 {
		w.oneof(p.field.ref(), v, m, path)
		return
	}
	holder, fd, _ := readPath(m, p.path)
	w.field(p.field, v, holder.Get(fd), path)
}

func (w *wireChecker) oneof(root *sRoot, v *jval, m protoreflect.Message, path string) {
	if v.kind != jObj {
		w.fail("c08-format:oneof", path, "expected a JSON object")
		return
	}
	set := setMembers(root, m)
	if len(set) == 0 {
		if len(v.members) != 0 {
			w.fail("c08-oneof-shape", path, "nothing set but members emitted")
		}
		return
	}
	if len(set) > 1 {
		return // not a representable message
	}
	p := set[0]
	if len(v.members) != 2 {
		w.fail("c08-oneof-shape", path, "expected exactly \"!type\" and %q, got %d members", p.json, len(v.members))
		return
	}
	t := v.get("!type")
	if t == nil || t.kind != jStr || t.str != p.json {
		w.fail("c08-oneof-shape", path, "\"!type\" must be the string %q", p.json)
	}
	val := v.get(p.json)
	if val == nil {
		w.fail("c08-oneof-shape", path, "key %q named by !type is missing", p.json)
		return
	}
	w.prop(p, val, m, subPath(path, "."+p.json))
}

var reTimestamp = regexp.MustCompile(`^\d{4}-\d{2}-\d{2}T\d{2}:\d{2}:\d{2}(\.\d{1,9})?Z$`)

func (w *wireChecker) field(f *sField, v *jval, pv protoreflect.Value, path string) {
	bad := func(format string, args ...any) {
		w.fail("c08-format:"+f.kind, path, format, args...)
	}
	switch f.kind {
	case "string", "key":
		if v.kind != jStr || v.str != pv.String() {
			bad("expected the string %q, got %s", pv.String(), v.raw)
		}
	case "bool":
		if !(v.kind == jTrue && pv.Bool()) && !(v.kind == jFalse && !pv.Bool()) {
			bad("expected bare %v, got %s", pv.Bool(), v.raw)
		}
	case "int32":
		if v.kind != jNum || v.raw != strconv.FormatInt(pv.Int(), 10) {
			bad("expected bare %d, got %s", pv.Int(), v.raw)
		}
	case "uint32":
		if v.kind != jNum || v.raw != strconv.FormatUint(pv.Uint(), 10) {
			bad("expected bare %d, got %s", pv.Uint(), v.raw)
		}
	case "int64":
		if v.kind != jStr || v.str != strconv.FormatInt(pv.Int(), 10) {
			bad("expected quoted \"%d\", got %s", pv.Int(), v.raw)
		}
	case "uint64":
		if v.kind != jStr || v.str != strconv.FormatUint(pv.Uint(), 10) {
			bad("expected quoted \"%d\", got %s", pv.Uint(), v.raw)
		}
	case "float32", "float64":
		bits := 64
		if f.kind == "float32" {
			bits = 32
		}
		if v.kind != jNum {
			bad("expected a bare number, got %s", v.raw)
			return
		}
		got, err := strconv.ParseFloat(v.raw, bits)
		if err != nil || math.Float64bits(got) != math.Float64bits(pv.Float()) {
			bad("number %s does not denote %v", v.raw, pv.Float())
		}
	case "bytes":
		want := base64.StdEncoding.EncodeToString(pv.Bytes())
		if v.kind != jStr || v.str != want {
			bad("expected padded standard base64 %q, got %s", want, v.raw)
		}
	case "timestamp":
		sm := pv.Message()
		s, n := getInt(sm, "seconds"), getInt(sm, "nanos")
		if v.kind != jStr || !reTimestamp.MatchString(v.str) {
			bad("expected an RFC3339 UTC string, got %s", v.raw)
			return
		}
		t, err := time.Parse(time.RFC3339Nano, v.str)
		if err != nil || t.Unix() != s || int64(t.Nanosecond()) != n {
			bad("%s does not denote seconds=%d nanos=%d", v.raw, s, n)
		}
	case "date":
		sm := pv.Message()
		want := fmt.Sprintf("%04d-%02d-%02d", getInt(sm, "year"), getInt(sm, "month"), getInt(sm, "day"))
		if v.kind != jStr || v.str != want {
			bad("expected zero-padded %q, got %s", want, v.raw)
		}
	case "decimal":
		if v.kind != jStr {
			bad("expected a quoted string, got %s", v.raw)
			return
		}
		want, err1 := safeDecimal(getStr(pv.Message(), "value"))
		got, err2 := safeDecimal(v.str)
		if err1 != nil || err2 != nil || !want.Equal(got) {
			bad("%s does not denote %q", v.raw, getStr(pv.Message(), "value"))
		}
	case "enum":
		e := f.wireEnum()
		if e == nil {
			return
		}
		want, ok := e.byNumber(int32(pv.Enum()))
		if !ok {
			return
		}
		if v.kind != jStr || v.str != want {
			bad("expected the short name %q, got %s", want, v.raw)
		}
	case "object":
		w.object(f.ref(), v, pv.Message(), path)
	case "oneof":
		w.oneof(f.ref(), v, pv.Message(), path)
	case "array":
		if v.kind != jArr {
			bad("expected an array")
			return
		}
		l := pv.List()
		if len(v.elems) != l.Len() {
			bad("array has %d elements, the list has %d", len(v.elems), l.Len())
			return
		}
		for i, e := range v.elems {
			w.field(f.item, e, l.Get(i), subPath(path, fmt.Sprintf("[%d]", i)))
		}
	case "map":
		if v.kind != jObj {
			bad("expected an object")
			return
		}
		mv := pv.Map()
		seen := map[string]bool{}
		for _, mem := range v.members {
			if seen[mem.key] {
				w.fail("c08-members:duplicate", path, "map key %q emitted twice", mem.key)
				continue
			}
			seen[mem.key] = true
			k := protoreflect.ValueOfString(mem.key).MapKey()
			if !mv.Has(k) {
				w.fail("c08-members:not-a-map-key", path, "key %q is not in the map", mem.key)
				continue
			}
			w.field(f.item, mem.val, mv.Get(k), subPath(path, "{"+mem.key+"}"))
		}
		if len(seen) != mv.Len() {
			w.fail("c08-members:set-omitted", path, "map has %d entries, %d emitted", mv.Len(), len(seen))
		}
	case "anyj5", "anypb":
		w.any(f, v, pv.Message(), path)
	}
}

func (w *wireChecker) any(f *sField, v *jval, am protoreflect.Message, path string) {
	if v.kind != jObj || len(v.members) != 2 || v.get("!type") == nil || v.get("value") == nil {
		w.fail("c08-any-shape", path, "expected exactly {\"!type\",\"value\"}")
		return
	}
	var tn string
	var pbytes, js []byte
	if f.kind == "anyj5" {
		tn, pbytes, js = getStr(am, "type_name"), getBytes(am, "proto"), getBytes(am, "j5_json")
	} else {
		tn, pbytes = strings.TrimPrefix(getStr(am, "type_url"), anyPrefix), getBytes(am, "value")
	}
	t := v.get("!type")
	if t.kind != jStr || t.str != tn {
		w.fail("c08-any-shape", path, "\"!type\" must be the type name %q, got %s", tn, t.raw)
	}
	val := v.get("value")
	if len(js) > 0 {
		want, err := parseStrict(js)
		if err == nil && !bytes.Equal(want.bytes(), val.bytes()) {
			w.fail("c08-any-shape", path, "value differs from the stored j5_json")
		}
		return
	}
	md, ok := w.ts.byProto[protoreflect.FullName(tn)]
	if !ok {
		return
	}
	im := w.ts.newMessage(md)
	if err := proto.Unmarshal(pbytes, im.Interface()); err != nil {
		return
	}
	ir := w.ts.rootOf(md)
	if ir.broken {
		return
	}
	if ir.isOneof {
		w.oneof(ir, val, im, subPath(path, ".value"))
	} else {
		w.object(ir, val, im, subPath(path, ".value"))
	}
}

func wireCheck(ts *typeSet, root *sRoot, doc *jval, m protoreflect.Message) []wireIssue {
	w := &wireChecker{ts: ts}
	if root.isOneof {
		w.oneof(root, doc, m, "$")
	} else {
		w.object(root, doc, m, "$")
	}
	return w.issues
}
