//go:build verif

package main

import (
	"fmt"
	"math/rand/v2"
	"strings"

	"github.com/pentops/j5/gen/j5/ext/v1/ext_j5pb"
	"google.golang.org/protobuf/proto"
	"google.golang.org/protobuf/reflect/protodesc"
	"google.golang.org/protobuf/reflect/protoreflect"
	"google.golang.org/protobuf/reflect/protoregistry"
	"google.golang.org/protobuf/types/descriptorpb"

	_ "github.com/pentops/j5/j5types/any_j5t"
	_ "github.com/pentops/j5/j5types/date_j5t"
	_ "github.com/pentops/j5/j5types/decimal_j5t"
	_ "google.golang.org/protobuf/types/known/anypb"
	_ "google.golang.org/protobuf/types/known/timestamppb"
)

// Generated raw descriptors (target types of class (b) in DESIGN §6 C01): a seeded generator of
// proto3 files with j5 annotations. Package name g<seed>.v1 — the seed is recoverable from a root
// NAME, so ops are self-contained.

type fkind int

const (
	kString fkind = iota
	kKey
	kBool
	kInt32
	kSint32
	kInt64
	kSint64
	kUint32
	kUint64
	kFloat
	kDouble
	kBytes
	kTimestamp
	kDate
	kDecimal
	kEnum
	kObject
	kOneofW
	kAnyJ5
	kAnyPb
	nKinds
)

var kindNames = [...]string{"string", "key", "bool", "int32", "sint32", "int64", "sint64", "uint32", "uint64", "float", "double", "bytes", "ts", "date", "dec", "enum", "obj", "oneof", "anyj", "anyp"}

const (
	cSingle = iota
	cOptional
	cRepeated
	cMap
)

type fspec struct {
	name     string
	num      int32
	kind     fkind
	ref      string // enum / message simple name
	card     int
	oneof    int // index into mspec.oneofs, -1 = none
	flatten  bool
	jsonName string
}

type ospec struct {
	name   string
	expose bool
}

type mspec struct {
	name    string
	fields  []fspec
	oneofs  []ospec
	wrapper int // 0 plain object, 1 wrapper by convention (oneof "type", all messages), 2 annotated (message).oneof
}

type evalue struct {
	name string
	num  int32
}

type espec struct {
	name      string
	values    []evalue
	noDefault bool
}

type fileSpec struct {
	pkg      string
	enums    []espec
	msgs     []mspec
	flatUsed map[string]bool // a message is flattened by at most one field of the file (unique JSON names)
}

func scalarKinds() []fkind {
	return []fkind{kString, kKey, kBool, kInt32, kSint32, kInt64, kSint64, kUint32, kUint64, kFloat, kDouble, kBytes, kTimestamp, kDate, kDecimal}
}

// genFileSpec derives the file for a seed. Seeds 0 and 1 are fixed showcase sets (every kind in
// every cardinality; recursive and mutually recursive types); all others are random.
func genFileSpec(seed uint64) *fileSpec {
	pkg := fmt.Sprintf("g%d.v1", seed)
	switch seed {
	case 0:
		return showcaseAllKinds(pkg)
	case 1:
		return showcaseRecursive(pkg)
	}
	r := rand.New(rand.NewPCG(seed, 0xc0dec5eed))
	fs := &fileSpec{pkg: pkg, flatUsed: map[string]bool{}}
	// enums
	ne := 1 + r.IntN(3)
	for i := 0; i < ne; i++ {
		fs.enums = append(fs.enums, genEnum(r, i, false))
	}
	if r.IntN(3) == 0 {
		fs.enums = append(fs.enums, espec{name: "Bare", values: []evalue{{"UNSPECIFIED", 0}, {"RED", 1}, {"GREEN", 2}, {"DARK_BLUE", 7}}})
	}
	if r.IntN(6) == 0 {
		// short names "X" and "T_X": the short name of one option carries the prefix of the enum
		fs.enums = append(fs.enums, espec{name: "Tricky", values: []evalue{{"T_UNSPECIFIED", 0}, {"T_X", 1}, {"T_T_X", 2}}})
	}
	nm := 2 + r.IntN(4)
	nw := r.IntN(3)
	names := []string{}
	for i := 0; i < nm; i++ {
		names = append(names, fmt.Sprintf("M%d", i))
	}
	wnames := []string{}
	for i := 0; i < nw; i++ {
		wnames = append(wnames, fmt.Sprintf("W%d", i))
	}
	for i := 0; i < nm; i++ {
		fs.msgs = append(fs.msgs, genObject(r, fs, i, names, wnames))
	}
	for i := 0; i < nw; i++ {
		fs.msgs = append(fs.msgs, genWrapper(r, fs, i, names, wnames))
	}
	return fs
}

func genEnum(r *rand.Rand, i int, _ bool) espec {
	n := fmt.Sprintf("E%d", i)
	p := strings.ToUpper(n) + "_"
	if r.IntN(4) == 0 {
		p = "LONG_PREFIX_" + p
	}
	e := espec{name: n, values: []evalue{{p + "UNSPECIFIED", 0}, {p + "ALPHA", 1}, {p + "BETA", 2}}}
	if r.IntN(2) == 0 {
		e.values = append(e.values, evalue{p + "GAMMA_RAY", 5})
	}
	if r.IntN(3) == 0 {
		e.values = append(e.values, evalue{p + "NEG", -3}, evalue{p + "BIG", 2147483647})
	}
	if r.IntN(3) == 0 {
		// values declared out of numeric order: dense 0..n-1 with the interior permuted (a value added
		// later and slotted in), or fully shuffled after the zero value, sometimes with a gap
		e.values = []evalue{{p + "UNSPECIFIED", 0}, {p + "ALPHA", 2}, {p + "BETA", 1}, {p + "GAMMA_RAY", 3}}
		switch r.IntN(3) {
		case 1:
			e.values = []evalue{{p + "UNSPECIFIED", 0}, {p + "ALPHA", 3}, {p + "BETA", 1}, {p + "GAMMA_RAY", 2}, {p + "DELTA", 4}}
		case 2:
			e.values = []evalue{{p + "UNSPECIFIED", 0}, {p + "ALPHA", 9}, {p + "BETA", 4}, {p + "GAMMA_RAY", 1}}
		}
	}
	if r.IntN(4) == 0 {
		e.noDefault = true
	}
	return e
}

func pickKind(r *rand.Rand) fkind {
	// scalars dominate; containers frequent enough to nest
	switch r.IntN(10) {
	case 0, 1:
		return kObject
	case 2:
		return kOneofW
	case 3:
		return kEnum
	case 4:
		if r.IntN(2) == 0 {
			return kAnyJ5
		}
		return kAnyPb
	}
	sk := scalarKinds()
	return sk[r.IntN(len(sk))]
}

func fieldName(r *rand.Rand, mi, k int, kind fkind) string {
	switch r.IntN(12) {
	case 0:
		return fmt.Sprintf("m%df%d", mi, k) // no underscore
	case 1:
		return fmt.Sprintf("m%d_f%d_%s_value", mi, k, kindNames[kind])
	}
	return fmt.Sprintf("m%d_f%d_%s", mi, k, kindNames[kind])
}

func (fs *fileSpec) pickRef(r *rand.Rand, kind fkind, names, wnames []string) (string, bool) {
	switch kind {
	case kEnum:
		return fs.enums[r.IntN(len(fs.enums))].name, true
	case kObject:
		return names[r.IntN(len(names))], true
	case kOneofW:
		if len(wnames) == 0 {
			return "", false
		}
		return wnames[r.IntN(len(wnames))], true
	}
	return "", true
}

func genObject(r *rand.Rand, fs *fileSpec, mi int, names, wnames []string) mspec {
	m := mspec{name: names[mi]}
	nf := 2 + r.IntN(8)
	num := int32(0)
	nextNum := func() int32 {
		switch r.IntN(8) {
		case 0:
			num += int32(1 + r.IntN(50))
		case 1:
			num += 1000
		default:
			num++
		}
		return num
	}
	k := 0
	add := func(f fspec) {
		f.num = nextNum()
		m.fields = append(m.fields, f)
		k++
	}
	for k < nf {
		kind := pickKind(r)
		ref, ok := fs.pickRef(r, kind, names, wnames)
		if !ok {
			continue
		}
		f := fspec{name: fieldName(r, mi, k, kind), kind: kind, ref: ref, oneof: -1}
		isMsg := kind == kObject || kind == kOneofW || kind == kAnyJ5 || kind == kAnyPb || kind == kTimestamp || kind == kDate || kind == kDecimal
		switch r.IntN(10) {
		case 0, 1:
			if kind != kAnyJ5 && kind != kAnyPb {
				f.card = cRepeated
			}
		case 2:
			if kind != kAnyJ5 && kind != kAnyPb {
				f.card = cMap
			}
		case 3, 4:
			if !isMsg {
				f.card = cOptional
			}
		}
		if kind == kObject && f.card == cSingle && r.IntN(3) == 0 {
			// flatten only "downwards" so that ClientProperties terminates
			if mi+1 < len(names) {
				cand := names[mi+1+r.IntN(len(names)-mi-1)]
				if !fs.flatUsed[cand] {
					fs.flatUsed[cand] = true
					f.ref = cand
					f.flatten = true
				}
			}
		}
		if r.IntN(15) == 0 {
			f.jsonName = []string{"custom name", "q\"uote", "ключ", "tab\tbed", "emoji😀"}[r.IntN(5)] + fmt.Sprintf("%d_%d", mi, k)
		}
		add(f)
	}
	// real oneofs
	if r.IntN(2) == 0 {
		oi := len(m.oneofs)
		m.oneofs = append(m.oneofs, ospec{name: fmt.Sprintf("anon%d", mi)})
		for j := 0; j < 2+r.IntN(2); j++ {
			kind := pickKind(r)
			ref, ok := fs.pickRef(r, kind, names, wnames)
			if !ok {
				kind = kString
			}
			add(fspec{name: fmt.Sprintf("m%d_a%d_%s", mi, j, kindNames[kind]), kind: kind, ref: ref, oneof: oi})
		}
	}
	if r.IntN(2) == 0 {
		oi := len(m.oneofs)
		m.oneofs = append(m.oneofs, ospec{name: fmt.Sprintf("choice_%d", mi), expose: true})
		for j := 0; j < 1+r.IntN(3); j++ {
			kind := pickKind(r)
			ref, ok := fs.pickRef(r, kind, names, wnames)
			if !ok {
				kind = kInt64
			}
			add(fspec{name: fmt.Sprintf("m%d_x%d_%s", mi, j, kindNames[kind]), kind: kind, ref: ref, oneof: oi})
		}
	}
	return m
}

func genWrapper(r *rand.Rand, fs *fileSpec, wi int, names, wnames []string) mspec {
	m := mspec{name: wnames[wi], oneofs: []ospec{{name: "type"}}}
	if r.IntN(2) == 0 {
		m.wrapper = 1 // by convention: all members must be messages
		for j := 0; j < 1+r.IntN(3); j++ {
			kind := kObject
			ref := names[r.IntN(len(names))]
			if r.IntN(4) == 0 {
				kind, ref = kOneofW, wnames[r.IntN(len(wnames))]
			}
			m.fields = append(m.fields, fspec{name: fmt.Sprintf("w%d_v%d", wi, j), num: int32(j + 1), kind: kind, ref: ref, oneof: 0})
		}
		return m
	}
	m.wrapper = 2
	for j := 0; j < 2+r.IntN(4); j++ {
		kind := pickKind(r)
		ref, ok := fs.pickRef(r, kind, names, wnames)
		if !ok {
			kind = kBool
		}
		m.fields = append(m.fields, fspec{name: fmt.Sprintf("w%d_v%d_%s", wi, j, kindNames[kind]), num: int32(j*3 + 1), kind: kind, ref: ref, oneof: 0})
	}
	return m
}

func showcaseAllKinds(pkg string) *fileSpec {
	fs := &fileSpec{pkg: pkg}
	fs.enums = []espec{
		{name: "E0", values: []evalue{{"E0_UNSPECIFIED", 0}, {"E0_ALPHA", 1}, {"E0_BETA", 2}, {"E0_NEG", -3}, {"E0_BIG", 2147483647}}},
		{name: "Bare", values: []evalue{{"UNSPECIFIED", 0}, {"RED", 1}, {"GREEN", 2}}},
		{name: "Nd", values: []evalue{{"ND_UNSPECIFIED", 0}, {"ND_ONE", 1}, {"ND_TWO", 2}}, noDefault: true},
		// declared out of numeric order (first 0, last n-1, interior permuted)
		{name: "Perm", values: []evalue{{"PERM_UNSPECIFIED", 0}, {"PERM_ACTIVE", 2}, {"PERM_PENDING", 1}, {"PERM_CLOSED", 3}}},
	}
	all := mspec{name: "All"}
	num := int32(0)
	add := func(f fspec) {
		num++
		f.num = num
		all.fields = append(all.fields, f)
	}
	for _, k := range scalarKinds() {
		msgK := k == kTimestamp || k == kDate || k == kDecimal
		add(fspec{name: "s_" + kindNames[k], kind: k, oneof: -1})
		if !msgK {
			add(fspec{name: "o_" + kindNames[k], kind: k, card: cOptional, oneof: -1})
		}
		add(fspec{name: "r_" + kindNames[k], kind: k, card: cRepeated, oneof: -1})
		add(fspec{name: "m_" + kindNames[k], kind: k, card: cMap, oneof: -1})
	}
	for _, e := range []string{"E0", "Bare", "Nd", "Perm"} {
		add(fspec{name: "s_enum_" + strings.ToLower(e), kind: kEnum, ref: e, oneof: -1})
		add(fspec{name: "o_enum_" + strings.ToLower(e), kind: kEnum, ref: e, card: cOptional, oneof: -1})
		add(fspec{name: "r_enum_" + strings.ToLower(e), kind: kEnum, ref: e, card: cRepeated, oneof: -1})
		add(fspec{name: "m_enum_" + strings.ToLower(e), kind: kEnum, ref: e, card: cMap, oneof: -1})
	}
	add(fspec{name: "s_obj", kind: kObject, ref: "Leaf", oneof: -1})
	add(fspec{name: "r_obj", kind: kObject, ref: "Leaf", card: cRepeated, oneof: -1})
	add(fspec{name: "m_obj", kind: kObject, ref: "Leaf", card: cMap, oneof: -1})
	add(fspec{name: "s_oneof", kind: kOneofW, ref: "Wrap", oneof: -1})
	add(fspec{name: "r_oneof", kind: kOneofW, ref: "Wrap", card: cRepeated, oneof: -1})
	add(fspec{name: "m_oneof", kind: kOneofW, ref: "Wrap", card: cMap, oneof: -1})
	add(fspec{name: "s_conv", kind: kOneofW, ref: "Conv", oneof: -1})
	add(fspec{name: "flat", kind: kObject, ref: "Flat", flatten: true, oneof: -1})
	add(fspec{name: "s_anyj", kind: kAnyJ5, oneof: -1})
	add(fspec{name: "s_anyp", kind: kAnyPb, oneof: -1})
	all.oneofs = []ospec{{name: "anon"}, {name: "exposed_choice", expose: true}}
	add(fspec{name: "a_string", kind: kString, oneof: 0})
	add(fspec{name: "a_int64", kind: kInt64, oneof: 0})
	add(fspec{name: "a_obj", kind: kObject, ref: "Leaf", oneof: 0})
	add(fspec{name: "x_string", kind: kString, oneof: 1})
	add(fspec{name: "x_bool", kind: kBool, oneof: 1})
	add(fspec{name: "x_enum", kind: kEnum, ref: "E0", oneof: 1})
	add(fspec{name: "x_obj", kind: kObject, ref: "Leaf", oneof: 1})
	add(fspec{name: "x_date", kind: kDate, oneof: 1})
	leaf := mspec{name: "Leaf", fields: []fspec{
		{name: "leaf_id", num: 10, kind: kString, oneof: -1},
		{name: "leaf_n", num: 11, kind: kInt64, oneof: -1},
		{name: "leaf_opt", num: 12, kind: kUint32, card: cOptional, oneof: -1},
	}}
	flat := mspec{name: "Flat", fields: []fspec{
		{name: "flat_a", num: 1, kind: kString, oneof: -1},
		{name: "flat_b", num: 2, kind: kInt32, card: cOptional, oneof: -1},
		{name: "flat_list", num: 3, kind: kString, card: cRepeated, oneof: -1},
		{name: "deeper", num: 4, kind: kObject, ref: "Flat2", flatten: true, oneof: -1},
		{name: "fx_string", num: 5, kind: kString, oneof: 0},
		{name: "fx_leaf", num: 6, kind: kObject, ref: "Leaf", oneof: 0},
	}, oneofs: []ospec{{name: "flat_choice", expose: true}}}
	flat2 := mspec{name: "Flat2", fields: []fspec{
		{name: "flat2_a", num: 1, kind: kBool, oneof: -1},
		{name: "flat2_leaf", num: 2, kind: kObject, ref: "Leaf", oneof: -1},
		{name: "deepest", num: 3, kind: kObject, ref: "Flat3", flatten: true, oneof: -1},
	}}
	// flattened three deep from All (All.flat -> Flat.deeper -> Flat2.deepest), several properties of
	// different kinds in the innermost object
	flat3 := mspec{name: "Flat3", fields: []fspec{
		{name: "flat3_s", num: 1, kind: kString, oneof: -1},
		{name: "flat3_n", num: 2, kind: kInt64, oneof: -1},
		{name: "flat3_b", num: 3, kind: kBool, card: cOptional, oneof: -1},
		{name: "flat3_t", num: 4, kind: kString, oneof: -1},
	}}
	// a chain of flattened objects seven deep, two or three properties on every level
	chain := []mspec{{name: "Chain", fields: []fspec{
		{name: "chain_id", num: 1, kind: kString, oneof: -1},
		{name: "c1", num: 2, kind: kObject, ref: "Chain1", flatten: true, oneof: -1},
	}}}
	for lvl := 1; lvl <= 7; lvl++ {
		m := mspec{name: fmt.Sprintf("Chain%d", lvl), fields: []fspec{
			{name: fmt.Sprintf("c%d_first", lvl), num: 1, kind: kString, oneof: -1},
			{name: fmt.Sprintf("c%d_second", lvl), num: 2, kind: kString, oneof: -1},
			{name: fmt.Sprintf("c%d_third", lvl), num: 3, kind: kInt32, oneof: -1},
		}}
		if lvl < 7 {
			m.fields = append(m.fields, fspec{name: fmt.Sprintf("c%d_next", lvl), num: 4, kind: kObject, ref: fmt.Sprintf("Chain%d", lvl+1), flatten: true, oneof: -1})
		}
		chain = append(chain, m)
	}
	wrap := mspec{name: "Wrap", wrapper: 2, oneofs: []ospec{{name: "type"}}, fields: []fspec{
		{name: "w_string", num: 1, kind: kString, oneof: 0},
		{name: "w_int32", num: 2, kind: kInt32, oneof: 0},
		{name: "w_leaf", num: 3, kind: kObject, ref: "Leaf", oneof: 0},
		{name: "w_enum", num: 4, kind: kEnum, ref: "E0", oneof: 0},
		{name: "w_double", num: 5, kind: kDouble, oneof: 0},
		{name: "w_bytes", num: 6, kind: kBytes, oneof: 0},
		{name: "w_ts", num: 7, kind: kTimestamp, oneof: 0},
		{name: "w_wrap", num: 8, kind: kOneofW, ref: "Wrap", oneof: 0},
	}}
	conv := mspec{name: "Conv", wrapper: 1, oneofs: []ospec{{name: "type"}}, fields: []fspec{
		{name: "c_leaf", num: 1, kind: kObject, ref: "Leaf", oneof: 0},
		{name: "c_flat2", num: 2, kind: kObject, ref: "Flat2", oneof: 0},
	}}
	fs.msgs = []mspec{all, leaf, flat, flat2, flat3, wrap, conv}
	fs.msgs = append(fs.msgs, chain...)
	return fs
}

func showcaseRecursive(pkg string) *fileSpec {
	fs := &fileSpec{pkg: pkg}
	fs.enums = []espec{{name: "E0", values: []evalue{{"E0_UNSPECIFIED", 0}, {"E0_ALPHA", 1}}}}
	tree := mspec{name: "Tree", fields: []fspec{
		{name: "value", num: 1, kind: kString, oneof: -1},
		{name: "left", num: 2, kind: kObject, ref: "Tree", oneof: -1},
		{name: "right", num: 3, kind: kObject, ref: "Tree", oneof: -1},
		{name: "children", num: 4, kind: kObject, ref: "Tree", card: cRepeated, oneof: -1},
		{name: "named", num: 5, kind: kObject, ref: "Tree", card: cMap, oneof: -1},
		{name: "n", num: 6, kind: kInt32, card: cRepeated, oneof: -1},
	}}
	a := mspec{name: "A", fields: []fspec{
		{name: "id", num: 1, kind: kKey, oneof: -1},
		{name: "b", num: 2, kind: kObject, ref: "B", oneof: -1},
		{name: "w", num: 3, kind: kOneofW, ref: "RW", oneof: -1},
	}}
	b := mspec{name: "B", fields: []fspec{
		{name: "a", num: 1, kind: kObject, ref: "A", oneof: -1},
		{name: "as", num: 2, kind: kObject, ref: "A", card: cRepeated, oneof: -1},
		{name: "x_self", num: 3, kind: kObject, ref: "B", oneof: 0},
		{name: "x_n", num: 4, kind: kUint64, oneof: 0},
	}, oneofs: []ospec{{name: "next", expose: true}}}
	rw := mspec{name: "RW", wrapper: 2, oneofs: []ospec{{name: "type"}}, fields: []fspec{
		{name: "rw", num: 1, kind: kOneofW, ref: "RW", oneof: 0},
		{name: "rws", num: 2, kind: kObject, ref: "RWList", oneof: 0},
		{name: "leaf", num: 3, kind: kString, oneof: 0},
		{name: "any", num: 4, kind: kAnyJ5, oneof: 0},
	}}
	rwl := mspec{name: "RWList", fields: []fspec{
		{name: "items", num: 1, kind: kOneofW, ref: "RW", card: cRepeated, oneof: -1},
		{name: "by_name", num: 2, kind: kOneofW, ref: "RW", card: cMap, oneof: -1},
	}}
	fs.msgs = []mspec{tree, a, b, rw, rwl}
	return fs
}

// ---- spec -> FileDescriptorProto -> linked descriptor

func camelEntry(s string) string {
	var b strings.Builder
	up := true
	for _, c := range s {
		if c == '_' {
			up = true
			continue
		}
		if up && c >= 'a' && c <= 'z' {
			c -= 32
		}
		up = false
		b.WriteRune(c)
	}
	return b.String() + "Entry"
}

func (fs *fileSpec) typeOf(f fspec) (descriptorpb.FieldDescriptorProto_Type, string) {
	T := func(t descriptorpb.FieldDescriptorProto_Type) (descriptorpb.FieldDescriptorProto_Type, string) { return t, "" }
	switch f.kind {
	case kString, kKey:
		return T(descriptorpb.FieldDescriptorProto_TYPE_STRING)
	case kBool:
		return T(descriptorpb.FieldDescriptorProto_TYPE_BOOL)
	case kInt32:
		return T(descriptorpb.FieldDescriptorProto_TYPE_INT32)
	case kSint32:
		return T(descriptorpb.FieldDescriptorProto_TYPE_SINT32)
	case kInt64:
		return T(descriptorpb.FieldDescriptorProto_TYPE_INT64)
	case kSint64:
		return T(descriptorpb.FieldDescriptorProto_TYPE_SINT64)
	case kUint32:
		return T(descriptorpb.FieldDescriptorProto_TYPE_UINT32)
	case kUint64:
		return T(descriptorpb.FieldDescriptorProto_TYPE_UINT64)
	case kFloat:
		return T(descriptorpb.FieldDescriptorProto_TYPE_FLOAT)
	case kDouble:
		return T(descriptorpb.FieldDescriptorProto_TYPE_DOUBLE)
	case kBytes:
		return T(descriptorpb.FieldDescriptorProto_TYPE_BYTES)
	case kTimestamp:
		return descriptorpb.FieldDescriptorProto_TYPE_MESSAGE, ".google.protobuf.Timestamp"
	case kDate:
		return descriptorpb.FieldDescriptorProto_TYPE_MESSAGE, ".j5.types.date.v1.Date"
	case kDecimal:
		return descriptorpb.FieldDescriptorProto_TYPE_MESSAGE, ".j5.types.decimal.v1.Decimal"
	case kAnyJ5:
		return descriptorpb.FieldDescriptorProto_TYPE_MESSAGE, ".j5.types.any.v1.Any"
	case kAnyPb:
		return descriptorpb.FieldDescriptorProto_TYPE_MESSAGE, ".google.protobuf.Any"
	case kEnum:
		return descriptorpb.FieldDescriptorProto_TYPE_ENUM, "." + fs.pkg + "." + f.ref
	case kObject, kOneofW:
		return descriptorpb.FieldDescriptorProto_TYPE_MESSAGE, "." + fs.pkg + "." + f.ref
	}
	panic("kind")
}

func (fs *fileSpec) toProto() *descriptorpb.FileDescriptorProto {
	fd := &descriptorpb.FileDescriptorProto{
		Name:    proto.String(strings.ReplaceAll(fs.pkg, ".", "/") + "/gen.proto"),
		Package: proto.String(fs.pkg),
		Syntax:  proto.String("proto3"),
		Dependency: []string{
			"google/protobuf/timestamp.proto", "google/protobuf/any.proto",
			"j5/types/date/v1/date.proto", "j5/types/decimal/v1/decimal.proto", "j5/types/any/v1/any.proto",
			"j5/ext/v1/annotations.proto",
		},
	}
	for _, e := range fs.enums {
		ed := &descriptorpb.EnumDescriptorProto{Name: proto.String(e.name)}
		for _, v := range e.values {
			ed.Value = append(ed.Value, &descriptorpb.EnumValueDescriptorProto{Name: proto.String(v.name), Number: proto.Int32(v.num)})
		}
		if e.noDefault {
			ed.Options = &descriptorpb.EnumOptions{}
			proto.SetExtension(ed.Options, ext_j5pb.E_Enum, &ext_j5pb.EnumOptions{NoDefault: true})
		}
		fd.EnumType = append(fd.EnumType, ed)
	}
	for _, m := range fs.msgs {
		md := &descriptorpb.DescriptorProto{Name: proto.String(m.name)}
		for _, o := range m.oneofs {
			od := &descriptorpb.OneofDescriptorProto{Name: proto.String(o.name)}
			if o.expose {
				od.Options = &descriptorpb.OneofOptions{}
				proto.SetExtension(od.Options, ext_j5pb.E_Oneof, &ext_j5pb.OneofOptions{Expose: true})
			}
			md.OneofDecl = append(md.OneofDecl, od)
		}
		if m.wrapper == 2 {
			md.Options = &descriptorpb.MessageOptions{}
			proto.SetExtension(md.Options, ext_j5pb.E_Message, &ext_j5pb.MessageOptions{Type: &ext_j5pb.MessageOptions_Oneof{Oneof: &ext_j5pb.OneofMessageOptions{}}})
		}
		for _, f := range m.fields {
			t, tn := fs.typeOf(f)
			fp := &descriptorpb.FieldDescriptorProto{
				Name:   proto.String(f.name),
				Number: proto.Int32(f.num),
				Label:  descriptorpb.FieldDescriptorProto_LABEL_OPTIONAL.Enum(),
				Type:   t.Enum(),
			}
			if tn != "" {
				fp.TypeName = proto.String(tn)
			}
			if f.jsonName != "" {
				fp.JsonName = proto.String(f.jsonName)
			}
			var j5opt *ext_j5pb.FieldOptions
			if f.kind == kKey {
				j5opt = &ext_j5pb.FieldOptions{Type: &ext_j5pb.FieldOptions_Key{Key: &ext_j5pb.KeyField{}}}
			}
			if f.flatten {
				j5opt = &ext_j5pb.FieldOptions{Type: &ext_j5pb.FieldOptions_Message{Message: &ext_j5pb.MessageFieldOptions{Flatten: true}}}
			}
			switch f.card {
			case cOptional:
				fp.Proto3Optional = proto.Bool(true)
				fp.OneofIndex = proto.Int32(int32(len(md.OneofDecl)))
				md.OneofDecl = append(md.OneofDecl, &descriptorpb.OneofDescriptorProto{Name: proto.String("_" + f.name)})
			case cRepeated:
				fp.Label = descriptorpb.FieldDescriptorProto_LABEL_REPEATED.Enum()
			case cMap:
				en := camelEntry(f.name)
				entry := &descriptorpb.DescriptorProto{
					Name:    proto.String(en),
					Options: &descriptorpb.MessageOptions{MapEntry: proto.Bool(true)},
					Field: []*descriptorpb.FieldDescriptorProto{
						{Name: proto.String("key"), Number: proto.Int32(1), Label: descriptorpb.FieldDescriptorProto_LABEL_OPTIONAL.Enum(), Type: descriptorpb.FieldDescriptorProto_TYPE_STRING.Enum(), JsonName: proto.String("key")},
						{Name: proto.String("value"), Number: proto.Int32(2), Label: descriptorpb.FieldDescriptorProto_LABEL_OPTIONAL.Enum(), Type: t.Enum(), JsonName: proto.String("value")},
					},
				}
				if tn != "" {
					entry.Field[1].TypeName = proto.String(tn)
				}
				md.NestedType = append(md.NestedType, entry)
				fp.Label = descriptorpb.FieldDescriptorProto_LABEL_REPEATED.Enum()
				fp.Type = descriptorpb.FieldDescriptorProto_TYPE_MESSAGE.Enum()
				fp.TypeName = proto.String("." + fs.pkg + "." + m.name + "." + en)
			}
			if f.oneof >= 0 {
				fp.OneofIndex = proto.Int32(int32(f.oneof))
			}
			if j5opt != nil {
				fp.Options = &descriptorpb.FieldOptions{}
				proto.SetExtension(fp.Options, ext_j5pb.E_Field, j5opt)
			}
			md.Field = append(md.Field, fp)
		}
		fd.MessageType = append(fd.MessageType, md)
	}
	return fd
}

func (fs *fileSpec) link() (protoreflect.FileDescriptor, error) {
	return protodesc.NewFile(fs.toProto(), protoregistry.GlobalFiles)
}
