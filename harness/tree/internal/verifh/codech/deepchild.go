//go:build verif

package main

import (
	"bytes"
	"fmt"
	"os"
	"os/exec"
	"path/filepath"
	"runtime/debug"
	"strconv"
	"strings"
	"time"

	"github.com/pentops/j5/internal/verifh/vh"
)

// ---- `deep` op (Go only, codec.stress): a compact op for one very deeply nested document
//
//	deep MODE ROOT HEXmember DEPTH      document = `{"member":` x DEPTH + `{}` + `}` x DEPTH
//
// The decoder recurses once per nesting level and has no nesting limit, so a deep enough document
// exhausts the goroutine stack: a FATAL error (not a panic, recover does not help) that kills the
// process. The parent harness therefore runs the op in a child process (the same binary, env
// CODEC_DEEP_CHILD=1, Go's default 1 GB stack limit instead of the harness's 256 MiB) and turns
// "goroutine stack exceeds …-byte limit" of the child into the narrow oracle failure
// `c06-crash:stack-exhaustion-deep-nesting`; any other death of the child is `c06-crash`.
// Result line: ok | err | crash.

func deepDoc(member string, depth int) []byte {
	open := `{` + strconv.Quote(member) + `:`
	var b bytes.Buffer
	b.Grow(depth*(len(open)+1) + 2)
	for i := 0; i < depth; i++ {
		b.WriteString(open)
	}
	b.WriteString("{}")
	for i := 0; i < depth; i++ {
		b.WriteByte('}')
	}
	return b.Bytes()
}

func (im *impl) execDeep(h *vh.H, op string, nodes []*node) string {
	mode, rootName := nodes[1].atom, nodes[2].atom
	mb, ok := vh.UnHex(nodes[3].atom)
	depth, err := strconv.Atoi(nodes[4].atom)
	if !ok || err != nil || depth < 0 || depth > 50000000 {
		return "bad-op"
	}
	ts, md, err := setForRoot(rootName)
	if err != nil {
		return "bad-op"
	}
	h.Count("op.deep")
	if os.Getenv("CODEC_DEEP_CHILD") != "" {
		debug.SetMaxStack(1000000000) // Go's default on 64-bit
		doc := deepDoc(string(mb), depth)
		m := ts.newMessage(md)
		res := call(op, func() error { return ts.codec(mode).JSONToProto(doc, m) })
		if res.panicked {
			h.Fail("c06-panic:"+res.site, op, res.pval)
			return "panic"
		}
		fmt.Fprintf(os.Stderr, "DEEP depth=%d bytes=%d dur=%v err=%v\n", depth, len(doc), res.dur, res.err != nil)
		if res.err != nil {
			return "err"
		}
		return "ok"
	}
	dir, err := os.MkdirTemp("", "codech-deep-")
	if err != nil {
		return "bad-op"
	}
	defer os.RemoveAll(dir)
	opsFile := filepath.Join(dir, "op.ops")
	if err := os.WriteFile(opsFile, []byte(op+"\n"), 0o644); err != nil {
		return "bad-op"
	}
	cmd := exec.Command(os.Args[0], "-seed", "1", "-n", "0", "-tier", "quick", "-out", filepath.Join(dir, "out"), "-flush", "-ops", opsFile)
	cmd.Env = append(os.Environ(), "CODEC_DEEP_CHILD=1", "CODEC_STREAM=codec.stress")
	var stderr bytes.Buffer
	cmd.Stderr = &tailWriter{buf: &stderr, max: 1 << 16}
	t0 := time.Now()
	runErr := cmd.Run()
	if runErr != nil && !strings.Contains(stderr.String(), "goroutine stack exceeds") && cmd.ProcessState != nil && cmd.ProcessState.ExitCode() == -1 {
		// killed by a signal without a message of its own (the OOM killer of the shared machine): once more
		h.Count("deep.child.killed-retry")
		stderr.Reset()
		cmd = exec.Command(os.Args[0], cmd.Args[1:]...)
		cmd.Env = append(os.Environ(), "CODEC_DEEP_CHILD=1", "CODEC_STREAM=codec.stress")
		cmd.Stderr = &tailWriter{buf: &stderr, max: 1 << 16}
		t0 = time.Now()
		runErr = cmd.Run()
	}
	dur := time.Since(t0)
	if runErr == nil {
		out, _ := os.ReadFile(filepath.Join(dir, "out", "go.out"))
		line := strings.TrimSpace(string(out))
		if line == "ok" || line == "err" {
			h.Count("deep.child." + line)
			if dur > timeBound(2*depth*(len(mb)+4))+5*time.Second {
				h.Fail("c06-slow", op, fmt.Sprintf("child took %v", dur))
			}
			if line == "ok" {
				h.Nontrivial(op)
			}
			return line
		}
		h.Fail("c06-crash", op, "child process gave no result: "+line)
		return "crash"
	}
	text := stderr.String()
	if strings.Contains(text, "goroutine stack exceeds") || strings.Contains(text, "stack overflow") {
		first := text
		if i := strings.Index(first, "goroutine stack exceeds"); i >= 0 {
			first = first[i:]
		}
		if i := strings.IndexByte(first, '\n'); i >= 0 {
			first = first[:i]
		}
		h.Fail("c06-crash:stack-exhaustion-deep-nesting", op, fmt.Sprintf("child process died after %v: %s (document nested %d deep, %d bytes)", dur.Round(time.Millisecond), first, depth, 2*depth+depth*(len(mb)+3)+2))
		return "crash"
	}
	h.Fail("c06-crash", op, fmt.Sprintf("child process died (%v): %.300s", runErr, text))
	return "crash"
}

// tailWriter keeps the first max bytes of what is written (the fatal error message comes first; the
// goroutine dump of a stack overflow is long).
type tailWriter struct {
	buf *bytes.Buffer
	max int
}

func (w *tailWriter) Write(p []byte) (int, error) {
	if room := w.max - w.buf.Len(); room > 0 {
		if len(p) > room {
			w.buf.Write(p[:room])
		} else {
			w.buf.Write(p)
		}
	}
	return len(p), nil
}
