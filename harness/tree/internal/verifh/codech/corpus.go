//go:build verif

package main

import (
	"strings"

	"github.com/pentops/j5/internal/verifh/vh"
)

// codec.corpus: the minimised witnesses of every defect found so far (all repaired by fix: commits,
// see known_findings.d/codec.json). Run once with CODEC_STREAM=codec.corpus to regenerate
// /verif/corpus/codec.*.ops; the engine runs those files first on every check.

type witness struct {
	kind string // dec | enc | query | sdec | squery (the last two: corpus of the Go-only codec.stress stream)
	mode string
	root string
	arg  string // dec: JSON text; enc: MSG tree; query: "key=v1&v2;key2=…" ("key" alone = no values)
}

var witnesses = []witness{
	{"dec", "n", "test.schema.v1.FullSchema", `{"wrappedOneof":{"!type":"wOneofString"}}`},
	{"dec", "n", "test.schema.v1.FullSchema", `{"wrappedOneof":{"!type":"wOneofBar"}}`},
	{"dec", "n", "test.schema.v1.FullSchema", `{"wrappedOneof":{"!type":"nope"}}`},
	{"dec", "n", "test.schema.v1.FullSchema", `{"rString":[null]}`},
	{"dec", "n", "test.schema.v1.FullSchema", `{"rBool":[null]}`},
	{"dec", "n", "test.schema.v1.FullSchema", `{"rEnum":[null]}`},
	{"dec", "n", "test.schema.v1.FullSchema", `{"mapStringString":{"a":null}}`},
	{"dec", "n", "test.schema.v1.FullSchema", `{"mapStringString":{"a":"1","a":"2"}}`},
	{"dec", "n", "test.schema.v1.FullSchema", `{"sInt32":"abc"}`},
	{"dec", "n", "test.schema.v1.FullSchema", `{"sInt32":"2147483648"}`},
	{"dec", "n", "test.schema.v1.FullSchema", `{"sInt64":"9223372036854775808"}`},
	{"dec", "n", "test.schema.v1.FullSchema", `{"sUint32":"-1"}`},
	{"dec", "n", "test.schema.v1.FullSchema", `{"sUint64":"x"}`},
	{"dec", "n", "test.schema.v1.FullSchema", `{"sUint64":18446744073709551615}`},
	{"dec", "n", "test.schema.v1.FullSchema", `{"sUint64":"18446744073709551615"}`},
	{"dec", "n", "test.schema.v1.FullSchema", `{"sUint64":-1}`},
	{"dec", "n", "test.schema.v1.FullSchema", `{"sUint32":-0}`},
	{"dec", "n", "test.schema.v1.FullSchema", `{"sFloat":3.4028235e+38}`},
	{"dec", "n", "test.schema.v1.FullSchema", `{"sFloat":3.5e+38}`},
	{"dec", "n", "test.schema.v1.FullSchema", `{"sFloat":"NaN","oFloat":"Infinity","rFloat":["-Infinity"]}`},
	{"dec", "n", "test.schema.v1.FullSchema", `{"decimal":1.5}`},
	{"dec", "n", "test.schema.v1.FullSchema", `{"decimal":"1e99158119"}`},
	{"dec", "n", "test.schema.v1.FullSchema", `{"decimal":"1e-4097"}`},
	{"dec", "n", "test.schema.v1.FullSchema", `{"decimal":"1e4096"}`},
	{"dec", "n", "test.schema.v1.FullSchema", `{"date":"2020-13-45"}`},
	{"dec", "n", "test.schema.v1.FullSchema", `{"date":"2021-02-29"}`},
	{"dec", "n", "test.schema.v1.FullSchema", `{"date":"2020-02-29"}`},
	{"dec", "n", "test.schema.v1.FullSchema", `{"date":"99999999999-01-01"}`},
	{"dec", "n", "test.schema.v1.FullSchema", `{"date":"0033-01-02"}`},
	{"dec", "n", "test.schema.v1.FullSchema", `{"j5any":{"!type":"test.schema.v1.Bar","zz":{}}}`},
	{"dec", "n", "test.schema.v1.FullSchema", `{"j5any":{"!type":"test.schema.v1.Bar","value":{"barId":"x"}}}`},
	{"dec", "p", "test.schema.v1.FullSchema", `{"pbany":{"!type":"test.schema.v1.Bar","value":{}}}`},
	{"dec", "n", "test.schema.v1.FullSchema", `{"aOneofString":"x","aOneofFloat":1}`},
	{"dec", "n", "test.schema.v1.FullSchema", `{"enum":"ENUM_VALUE1","rEnum":["VALUE2","ENUM_UNSPECIFIED"]}`},
	{"dec", "n", "test.schema.v1.FullSchema", `{}garbage`},
	{"dec", "n", "test.schema.v1.FullSchema", ``},
	{"dec", "n", "test.schema.v1.FullSchema", `null`},
	{"dec", "n", "test.schema.v1.NestedExposed", `{"type":{"!type":"de3","de3":{"type":{"de1":"x"}}}}`},
	{"dec", "n", "g0.v1.All", `{"sEnumNd":"UNSPECIFIED"}`},
	{"dec", "n", "g0.v1.All", `{"flatChoice":null,"flatA":"x"}`},
	{"dec", "n", "g1.v1.Tree", strings.Repeat(`{"left":`, 300)},
	{"dec", "n", "g1.v1.RW", `{"any":{"!type":"g1.v1.Tree","value":` + strings.Repeat("[", 200) + strings.Repeat("]", 200) + `}}`},
	// 309b762: Any values nested 100 deep are still expanded (WithProtoToAny), the 101st is rejected
	{"dec", "p", "g1.v1.RW", strings.Repeat(`{"any":{"!type":"g1.v1.RW","value":`, 3) + `{}` + strings.Repeat(`}}`, 3)},
	{"dec", "p", "g1.v1.RW", strings.Repeat(`{"any":{"!type":"g1.v1.RW","value":`, 100) + `{}` + strings.Repeat(`}}`, 100)},
	{"dec", "p", "g1.v1.RW", strings.Repeat(`{"any":{"!type":"g1.v1.RW","value":`, 101) + `{}` + strings.Repeat(`}}`, 101)},
	{"dec", "n", "g1.v1.RW", strings.Repeat(`{"any":{"!type":"g1.v1.RW","value":`, 101) + `{}` + strings.Repeat(`}}`, 101)},
	// seeded C03-m9: February 29 exists on 2000 / 2400 / 1996 (accepted exactly), not on 1900 / 2100 / 0100 (rejected)
	{"dec", "n", "test.schema.v1.FullSchema", `{"date":"2000-02-29"}`},
	{"dec", "n", "test.schema.v1.FullSchema", `{"date":"2400-02-29"}`},
	{"dec", "n", "test.schema.v1.FullSchema", `{"date":"1900-02-29"}`},
	{"dec", "n", "test.schema.v1.FullSchema", `{"date":"2100-02-29"}`},
	{"dec", "n", "test.schema.v1.FullSchema", `{"date":"0100-02-29"}`},
	// seeded C03-m8: 64-bit integers in float syntax above 2^53 (a reader going through float64 stores a neighbour)
	{"dec", "n", "test.schema.v1.FullSchema", `{"sInt64":9007199254740993.0}`},
	{"dec", "n", "test.schema.v1.FullSchema", `{"sInt64":1.8014398509481985e16}`},
	{"dec", "n", "test.schema.v1.FullSchema", `{"sInt64":-9223372036854775809.0}`},
	{"dec", "n", "test.schema.v1.FullSchema", `{"sUint64":9007199254740993e0}`},
	{"query", "n", "test.schema.v1.FullSchema", "sString"},
	{"query", "n", "test.schema.v1.FullSchema", "sBool=true"},
	{"query", "n", "test.schema.v1.FullSchema", "rBool=true&false"},
	{"query", "n", "test.schema.v1.FullSchema", "sBool=yes"},
	{"query", "n", "test.schema.v1.FullSchema", "s_string=a"},
	{"query", "n", "test.schema.v1.FullSchema", "sBar.barId=a"},
	{"query", "n", "test.schema.v1.FullSchema", "sBar={\"barId\":\"a\"}"},
	{"query", "n", "test.schema.v1.FullSchema", "wrappedOneof.wOneofString=a"},
	{"query", "n", "test.schema.v1.FullSchema", "date=2020-13-01"},
	{"query", "n", "test.schema.v1.FullSchema", "date=1900-02-29"},
	{"query", "n", "test.schema.v1.FullSchema", "date=2000-02-29"},
	{"query", "n", "test.schema.v1.FullSchema", ""},
	{"query", "n", "g0.v1.All", "mString=a"},
	// seeded C06-m7: index-like / empty segments in a dotted key (all rejected: a dotted path only enters objects and oneofs)
	{"query", "n", "test.schema.v1.FullSchema", "rBars.0.barId=a"},
	{"query", "n", "test.schema.v1.FullSchema", "rBars.-1.barId=a"},
	{"query", "n", "test.schema.v1.FullSchema", "wrappedOneofs.-1.wOneofString=a"},
	{"query", "n", "test.schema.v1.FullSchema", "rBars.0=a"},
	{"query", "n", "test.schema.v1.FullSchema", "rBars..barId=a"},
	{"query", "n", "test.schema.v1.FullSchema", "rBars.0.=a"},
	{"query", "n", "test.schema.v1.FullSchema", "rBars.1000000.barId=a"},
	{"query", "n", "test.schema.v1.FullSchema", "rBars.1.barId=a;rBars.0.barField=b"},
	{"query", "n", "test.schema.v1.FullSchema", "mapStringString.0=a"},
	{"query", "n", "test.schema.v1.FullSchema", "sBar.0.barId=a"},
	{"enc", "n", "test.schema.v1.FullSchema", `(msg (49 (date 33 1 2)))`},
	{"enc", "n", "test.schema.v1.FullSchema", `(msg (4 (f32 7fc00000 4e614e)))`},
	{"enc", "n", "test.schema.v1.FullSchema", `(msg (4 (f32 7f800000 2b496e66)) (5 (f32 ff800000 2d496e66)))`},
	{"enc", "n", "test.schema.v1.FullSchema", `(msg (4 (f32 7f7fffff 332e34303238323335652b3338)))`},
	{"enc", "n", "test.schema.v1.FullSchema", `(msg (48 (any j5 - - - none)))`},
	{"enc", "p", "test.schema.v1.FullSchema", `(msg (47 (any pb 747970652e676f6f676c65617069732e636f6d2f746573742e736368656d612e76312e426172 - (in test.schema.v1.Bar (msg)))))`},
	{"enc", "n", "test.schema.v1.FullSchema", `(msg (2 (s -)) (10 (b 0)) (42 (msg)))`},
	{"enc", "n", "test.schema.v1.FullSchema", `(msg (32 (e 7)))`},
	{"enc", "n", "test.schema.v1.FullSchema", `(msg (1 (s ff)))`},
	// seeded C08-m7: bytes longer than one chunk of a streaming base64 writer (1025 and 3073 bytes)
	{"enc", "n", "test.schema.v1.FullSchema", `(msg (34 (y ` + strings.Repeat("00ff10fb", 256) + `a5)))`},
	{"enc", "n", "test.schema.v1.FullSchema", `(msg (34 (y ` + strings.Repeat("00ff10fb", 768) + `a5)))`},
	// seeded C08-m8: map keys a Go-syntax quoter writes as \a \v \x1f \x7f \U000e0001 (not JSON)
	{"enc", "n", "test.schema.v1.FullSchema", `(msg (36 (map (07 (s 61)) (0b (s 62)) (1f (s 63)) (7f (s -)) (f3a08081 (s 64)))))`},
}

// stressWitnesses: exponents far beyond maxDecimalExponent in every spelling (bare / quoted, e / E,
// signed) and position (object, array, map, query). Each is rejected in microseconds by the
// unchanged decoder; a decoder whose guard misses one spelling expands 10^7 digits (seconds:
// c06-slow; or, negative exponent, megabytes: c06-amplification). The two 2^31-1 exponents come
// last: an unguarded decoder never returns from them (watchdog: c06-crash).
var stressWitnesses = func() []witness {
	var ws []witness
	dec := func(root, doc string) { ws = append(ws, witness{"sdec", "n", root, doc}) }
	dec("g0.v1.All", `{"sDec":1e10000000}`)
	dec("g0.v1.All", `{"sDec":"1E10000000"}`)
	dec("g0.v1.All", `{"sDec":1.5E-10000000}`)
	dec("g0.v1.All", `{"sDec":"3e-10000000"}`)
	dec("g0.v1.All", `{"sDec":"-2E+10000000"}`)
	dec("g0.v1.All", `{"sDec":12345E+3000000}`)
	dec("g0.v1.All", `{"rDec":["1.5",1e-10000000]}`)
	dec("g0.v1.All", `{"rDec":["1.5","0.1E-10000000"]}`)
	dec("g0.v1.All", `{"mDec":{"k":1E-3000000}}`)
	dec("g0.v1.All", `{"mDec":{"k":"1e+10000000"}}`)
	dec("test.schema.v1.FullSchema", `{"decimal":1e-3000000}`)
	dec("test.schema.v1.FullSchema", `{"decimal":"1E3000000"}`)
	dec("test.schema.v1.FullSchema", `{"rDecimal":[1.1,1e-3000000]}`)
	dec("g0.v1.All", `{"sDouble":1E10000000}`)
	dec("g0.v1.All", `{"sFloat":"1e-10000000"}`)
	dec("g0.v1.All", `{"rDouble":[1e+10000000,"1E-10000000"]}`)
	ws = append(ws, witness{"squery", "n", "g0.v1.All", "sDec=1E10000000"})
	ws = append(ws, witness{"squery", "n", "g0.v1.All", "sDec=1e-10000000"})
	ws = append(ws, witness{"squery", "n", "test.schema.v1.FullSchema", "decimal=1E-3000000"})
	// seeded C06-m7: an index segment nobody can allocate (a decoder that grows the array to the index never returns)
	ws = append(ws, witness{"squery", "n", "test.schema.v1.FullSchema", "rBars.2000000000.barId=a"})
	ws = append(ws, witness{"squery", "n", "test.schema.v1.FullSchema", "wrappedOneofs.4294967296.wOneofString=a"})
	ws = append(ws, witness{"squery", "n", "g1.v1.Tree", "children.9223372036854775807.value=a"})
	dec("g0.v1.All", `{"sDec":1e2147483647}`)
	dec("g0.v1.All", `{"sDec":"1E2147483647"}`)
	// known finding c06-crash:stack-exhaustion-deep-nesting (open): compact `deep` op, run in a child process (deepchild.go); LAST line
	ws = append(ws, witness{"sdeep", "n", "g1.v1.Tree", "left 800000"})
	return ws
}()

func (im *impl) genCorpus(h *vh.H, i int) string {
	if i >= len(witnesses)+len(stressWitnesses) {
		return ""
	}
	if i >= len(witnesses) {
		w := stressWitnesses[i-len(witnesses)]
		w.kind = w.kind[1:]
		if w.kind == "deep" {
			member, depth, _ := strings.Cut(w.arg, " ")
			return "deep " + w.mode + " " + w.root + " " + vh.Hex([]byte(member)) + " " + depth + " (meta stress)"
		}
		return im.witnessLine(w, "(env)") + " (meta stress)"
	}
	w := witnesses[i]
	ts, md, err := setForRoot(w.root)
	if err != nil {
		return ""
	}
	return im.witnessLine(w, im.envFor(ts, md))
}

func (im *impl) witnessLine(w witness, env string) string {
	switch w.kind {
	case "dec":
		b := []byte(w.arg)
		return "dec " + w.mode + " " + env + " " + w.root + " " + vh.Hex(b) + " " + oraForDoc(b).String()
	case "enc":
		return "enc " + w.mode + " " + env + " " + w.root + " " + w.arg
	case "query":
		var keys [][]string
		if w.arg != "" {
			for _, kv := range strings.Split(w.arg, ";") {
				k, vs, has := strings.Cut(kv, "=")
				entry := []string{k}
				if has {
					entry = append(entry, strings.Split(vs, "&")...)
				}
				keys = append(keys, entry)
			}
		}
		o := newOra()
		for _, kv := range keys {
			for _, v := range kv[1:] {
				od := oraForDoc([]byte(v))
				for k2, e := range od.f {
					o.f[k2] = e
				}
				for k2, e := range od.t {
					o.t[k2] = e
				}
				for k2, e := range od.d {
					o.d[k2] = e
				}
			}
		}
		return qline(w.mode, env, w.root, keys, o, "")
	}
	return ""
}
