//go:build verif

package main

import (
	"bytes"
	"fmt"
	"math/rand/v2"
	"sort"
	"strconv"
	"strings"
	"time"
	"unicode/utf8"
)

// ---- documented spelling variations (C03), applied to a canonical document in place

var varKinds = []string{"quote-num32", "bare-int64", "bare-decimal", "float-respell", "b64-url", "b64-nopad", "enum-prefix", "ts-offset", "reorder", "ws", "null-absent", "escape"}

type varier struct {
	r       *rand.Rand
	on      map[string]bool
	applied map[string]bool
	ws      bool
}

func (v *varier) want(kind string) bool {
	return v.on[kind] && v.r.IntN(3) != 0
}

func (v *varier) did(kind string) { v.applied[kind] = true }

func escapeAll(s string, r *rand.Rand) (string, bool) {
	if !utf8.ValidString(s) || s == "" {
		return "", false
	}
	var b strings.Builder
	b.WriteByte('"')
	changed := false
	for _, c := range s {
		esc := r.IntN(3) == 0
		switch {
		case c == '"' || c == '\\':
			if esc {
				fmt.Fprintf(&b, "\\u%04x", c)
				changed = true
			} else {
				b.WriteByte('\\')
				b.WriteRune(c)
			}
		case c < 0x20:
			switch {
			case c == '\n' && esc:
				b.WriteString("\\n")
			case c == '\t' && esc:
				b.WriteString("\\t")
			default:
				fmt.Fprintf(&b, "\\u%04X", c)
			}
			changed = true
		case c == '/' && esc:
			b.WriteString("\\/")
			changed = true
		case esc && c < 0x10000:
			fmt.Fprintf(&b, "\\u%04x", c)
			changed = true
		case esc:
			c2 := c - 0x10000
			fmt.Fprintf(&b, "\\u%04x\\u%04x", 0xd800+(c2>>10), 0xdc00+(c2&0x3ff))
			changed = true
		default:
			b.WriteRune(c)
		}
	}
	b.WriteByte('"')
	return b.String(), changed
}

func (v *varier) root(root *sRoot, doc *jval) {
	if root.isOneof {
		v.oneof(root, doc)
	} else {
		v.object(root, doc)
	}
}

func (v *varier) keyEscape(doc *jval) {
	if !v.on["escape"] {
		return
	}
	for i := range doc.members {
		if v.r.IntN(4) == 0 {
			if raw, ok := escapeAll(doc.members[i].key, v.r); ok {
				doc.members[i].keyRaw = raw
				v.did("escape")
			}
		}
	}
}

func (v *varier) object(root *sRoot, doc *jval) {
	if doc.kind != jObj {
		return
	}
	for _, m := range doc.members {
		if p := root.prop(m.key); p != nil {
			v.field(p.field, m.val)
		}
	}
	if v.want("null-absent") {
		for _, p := range root.props {
			if doc.get(p.json) == nil && v.r.IntN(3) == 0 {
				doc.members = append(doc.members, jmember{key: p.json, keyRaw: string(quoteJSON(p.json)), val: jnull()})
				v.did("null-absent")
			}
		}
	}
	v.keyEscape(doc)
	if v.want("reorder") && len(doc.members) > 1 {
		v.r.Shuffle(len(doc.members), func(i, j int) { doc.members[i], doc.members[j] = doc.members[j], doc.members[i] })
		v.did("reorder")
	}
}

func (v *varier) oneof(root *sRoot, doc *jval) {
	if doc.kind != jObj {
		return
	}
	for _, m := range doc.members {
		if m.key == "!type" {
			continue
		}
		if p := root.prop(m.key); p != nil {
			v.field(p.field, m.val)
		}
	}
	v.keyEscape(doc)
	if v.want("reorder") && len(doc.members) > 1 {
		doc.members[0], doc.members[1] = doc.members[1], doc.members[0]
		v.did("reorder")
	}
}

func isJSONNumber(s string) bool {
	v, err := parseStrict([]byte(s))
	return err == nil && v.kind == jNum
}

func (v *varier) field(f *sField, n *jval) {
	switch f.kind {
	case "int32", "uint32", "float32", "float64":
		if n.kind != jNum {
			return
		}
		if (f.kind == "float32" || f.kind == "float64") && v.want("float-respell") {
			switch {
			case strings.ContainsAny(n.raw, "eE"):
				n.raw = strings.Replace(n.raw, "e", "E", 1)
			case strings.Contains(n.raw, "."):
				n.raw += "0"
			default:
				n.raw += ".0"
			}
			v.did("float-respell")
		}
		if v.want("quote-num32") {
			n.kind, n.str, n.raw = jStr, n.raw, `"`+n.raw+`"`
			v.did("quote-num32")
		}
	case "int64", "uint64":
		if n.kind == jStr && v.want("bare-int64") && isJSONNumber(n.str) {
			n.kind, n.raw = jNum, n.str
			v.did("bare-int64")
		}
	case "decimal":
		if n.kind == jStr && v.want("bare-decimal") && isJSONNumber(n.str) {
			n.kind, n.raw = jNum, n.str
			v.did("bare-decimal")
		}
	case "bytes":
		if n.kind != jStr {
			return
		}
		s := n.str
		if v.want("b64-url") && strings.ContainsAny(s, "+/") {
			s = strings.NewReplacer("+", "-", "/", "_").Replace(s)
			v.did("b64-url")
		}
		if v.want("b64-nopad") && strings.HasSuffix(s, "=") {
			s = strings.TrimRight(s, "=")
			v.did("b64-nopad")
		}
		n.str, n.raw = s, string(quoteJSON(s))
	case "enum":
		if n.kind == jStr && v.want("enum-prefix") {
			if e := f.wireEnum(); e != nil && e.prefix != "" {
				if _, clash := e.byShort(e.prefix + n.str); clash {
					return // the prefixed spelling is itself the short name of another option
				}
				n.str = e.prefix + n.str
				n.raw = string(quoteJSON(n.str))
				v.did("enum-prefix")
			}
		}
	case "timestamp":
		if n.kind == jStr && v.want("ts-offset") {
			t, err := time.Parse(time.RFC3339Nano, n.str)
			if err != nil {
				return
			}
			offs := []int{5*3600 + 1800, -8 * 3600, 0, 14 * 3600, -12 * 3600, 3600}
			off := offs[v.r.IntN(len(offs))]
			lt := t.In(time.FixedZone("", off))
			if lt.Year() < 1 || lt.Year() > 9999 {
				return
			}
			s := lt.Format(time.RFC3339Nano)
			if off == 0 {
				s = strings.TrimSuffix(s, "Z") + "+00:00"
			}
			n.str, n.raw = s, string(quoteJSON(s))
			v.did("ts-offset")
		}
	case "string", "key":
		if n.kind == jStr && v.want("escape") {
			if raw, ok := escapeAll(n.str, v.r); ok {
				n.raw = raw
				v.did("escape")
			}
		}
	case "object":
		v.object(f.ref(), n)
	case "oneof":
		v.oneof(f.ref(), n)
	case "array":
		if n.kind == jArr {
			for _, e := range n.elems {
				v.field(f.item, e)
			}
		}
	case "map":
		if n.kind == jObj {
			for _, m := range n.members {
				v.field(f.item, m.val)
			}
			v.keyEscape(n)
			if v.want("reorder") && len(n.members) > 1 {
				v.r.Shuffle(len(n.members), func(i, j int) { n.members[i], n.members[j] = n.members[j], n.members[i] })
				v.did("reorder")
			}
		}
	}
}

// writeWS serialises with random insignificant whitespace between tokens.
func writeWS(v *jval, b *bytes.Buffer, r *rand.Rand) {
	ws := func() {
		for r.IntN(3) == 0 {
			b.WriteByte(" \t\n\r"[r.IntN(4)])
		}
	}
	switch v.kind {
	case jObj:
		b.WriteByte('{')
		for i, m := range v.members {
			if i > 0 {
				b.WriteByte(',')
			}
			ws()
			b.WriteString(m.keyRaw)
			ws()
			b.WriteByte(':')
			ws()
			writeWS(m.val, b, r)
			ws()
		}
		if len(v.members) == 0 {
			ws()
		}
		b.WriteByte('}')
	case jArr:
		b.WriteByte('[')
		for i, e := range v.elems {
			if i > 0 {
				b.WriteByte(',')
			}
			ws()
			writeWS(e, b, r)
			ws()
		}
		if len(v.elems) == 0 {
			ws()
		}
		b.WriteByte(']')
	default:
		b.WriteString(v.raw)
	}
}

// applyVariations mutates doc; returns the serialised document and the sorted labels applied.
func applyVariations(r *rand.Rand, root *sRoot, doc *jval, kinds []string) ([]byte, []string) {
	v := &varier{r: r, on: map[string]bool{}, applied: map[string]bool{}}
	for _, k := range kinds {
		v.on[k] = true
	}
	v.root(root, doc)
	var b bytes.Buffer
	if v.on["ws"] {
		ws := func() {
			for r.IntN(2) == 0 {
				b.WriteByte(" \t\n\r"[r.IntN(4)])
			}
		}
		ws()
		writeWS(doc, &b, r)
		ws()
		v.did("ws")
	} else {
		doc.write(&b)
	}
	var labels []string
	for k := range v.applied {
		labels = append(labels, k)
	}
	sort.Strings(labels)
	return b.Bytes(), labels
}

// ---- single faults (C03 second sentence)

type faultSite struct {
	class string
	kind  string
	pos   string
	apply func()
}

type faulter struct {
	r     *rand.Rand
	sites []faultSite
}

func sampleJSON(f *sField) *jval {
	switch f.kind {
	case "string", "key":
		return jstr("x")
	case "bool":
		return jbool(true)
	case "int32", "uint32":
		return jnum("1")
	case "int64", "uint64":
		return jstr("1")
	case "float32", "float64":
		return jnum("1.5")
	case "bytes":
		return jstr("AQID")
	case "timestamp":
		return jstr("2020-01-02T03:04:05Z")
	case "date":
		return jstr("2020-01-02")
	case "decimal":
		return jstr("1.5")
	case "enum":
		if e := f.wireEnum(); e != nil && len(e.opts) > 0 {
			return jstr(e.opts[len(e.opts)-1].name)
		}
		return nil
	case "object", "oneof":
		return &jval{kind: jObj}
	case "array":
		if s := sampleJSON(f.item); s != nil {
			return &jval{kind: jArr, elems: []*jval{s}}
		}
		return nil
	case "map":
		if s := sampleJSON(f.item); s != nil {
			return &jval{kind: jObj, members: []jmember{{key: "k", keyRaw: `"k"`, val: s}}}
		}
		return nil
	}
	return nil
}

func replaceWith(n *jval, with *jval) func() {
	return func() { *n = *with }
}

func (ft *faulter) add(class, kind, pos string, apply func()) {
	ft.sites = append(ft.sites, faultSite{class, kind, pos, apply})
}

func (ft *faulter) pick(xs ...*jval) *jval { return xs[ft.r.IntN(len(xs))] }

func (ft *faulter) object(root *sRoot, doc *jval, pos string) {
	if doc.kind != jObj {
		return
	}
	if root.isOneof {
		ft.oneof(root, doc, pos)
		return
	}
	ft.add("unknown-key", "object", pos, func() {
		k := "zzUnknownKey"
		doc.members = append(doc.members, jmember{key: k, keyRaw: `"` + k + `"`, val: ft.pick(jnum("1"), jstr("x"), &jval{kind: jObj}, jbool(false))})
	})
	for _, m := range doc.members {
		if p := root.prop(m.key); p != nil {
			child := pos
			if pos == "top" {
				child = "top"
			}
			ft.field(p.field, m.val, child)
			ft.protoOneofMulti(root, doc, p, m.val, pos)
		}
	}
}

// protoOneofMulti: "more than one key in a oneof" for a plain (anonymous) proto oneof, whose members are
// ordinary optional properties of the J5 object: the document has the non-null member p, a second
// member of the same proto oneof (same message: same path prefix) is appended. Rejected since /repo
// 25c97b7 (before, protobuf silently kept only the last member).
func (ft *faulter) protoOneofMulti(root *sRoot, doc *jval, p *sProp, val *jval, pos string) {
	if p.oneof == nil || val == nil || val.kind == jNull {
		return
	}
	var others []*sProp
	for _, o := range root.props {
		if o == p || o.json == p.json || o.oneof == nil || o.oneof.FullName() != p.oneof.FullName() || len(o.path) != len(p.path) {
			continue
		}
		same := true
		for i := 0; i+1 < len(p.path); i++ {
			if o.path[i].Number() != p.path[i].Number() {
				same = false
			}
		}
		if !same || o.final().Number() == p.final().Number() || doc.get(o.json) != nil {
			continue
		}
		if o.field.kind == "array" || o.field.kind == "map" || o.field.kind == "anyj5" || o.field.kind == "anypb" || sampleJSON(o.field) == nil {
			continue
		}
		others = append(others, o)
	}
	if len(others) == 0 {
		return
	}
	o := others[ft.r.IntN(len(others))]
	first := ft.r.IntN(2) == 0
	ft.add("proto-oneof-multi", "object", pos, func() {
		nm := jmember{key: o.json, keyRaw: string(quoteJSON(o.json)), val: sampleJSON(o.field)}
		if first {
			doc.members = append([]jmember{nm}, doc.members...)
		} else {
			doc.members = append(doc.members, nm)
		}
	})
}

func (ft *faulter) oneof(root *sRoot, doc *jval, pos string) {
	if doc.kind != jObj {
		return
	}
	var key string
	for _, m := range doc.members {
		if m.key != "!type" {
			key = m.key
		}
	}
	ft.add("unknown-key", "oneof", pos, func() {
		doc.members = append(doc.members, jmember{key: "zzUnknownKey", keyRaw: `"zzUnknownKey"`, val: jnum("1")})
	})
	if key == "" {
		return
	}
	var others []*sProp
	for _, p := range root.props {
		if p.json != key && sampleJSON(p.field) != nil && p.field.kind != "array" && p.field.kind != "map" {
			others = append(others, p)
		}
	}
	if len(others) > 0 {
		o := others[ft.r.IntN(len(others))]
		ft.add("oneof-multi", "oneof", pos, func() {
			doc.members = append(doc.members, jmember{key: o.json, keyRaw: string(quoteJSON(o.json)), val: sampleJSON(o.field)})
		})
		ft.add("type-mismatch", "oneof", pos, func() {
			for i := range doc.members {
				if doc.members[i].key == "!type" {
					doc.members[i].val = jstr(o.json)
				}
			}
		})
		// the contradicting "!type" AFTER the arm key (the decoder must not only check while it reads the key)
		ft.add("type-mismatch", "oneof-type-last", pos, func() {
			var rest []jmember
			for _, m := range doc.members {
				if m.key != "!type" {
					rest = append(rest, m)
				}
			}
			doc.members = append(rest, jmember{key: "!type", keyRaw: `"!type"`, val: jstr(o.json)})
		})
	}
	ft.add("type-mismatch", "oneof-type-last", pos, func() {
		var rest []jmember
		for _, m := range doc.members {
			if m.key != "!type" {
				rest = append(rest, m)
			}
		}
		doc.members = append(rest, jmember{key: "!type", keyRaw: `"!type"`, val: jstr("zzNoSuchArm")})
	})
	ft.add("type-mismatch", "oneof", pos, func() {
		for i := range doc.members {
			if doc.members[i].key == "!type" {
				doc.members[i].val = jstr("zzNoSuchArm")
			}
		}
	})
	if p := root.prop(key); p != nil {
		ft.field(p.field, doc.get(key), "oneof")
	}
}

func (ft *faulter) field(f *sField, n *jval, pos string) {
	if n == nil {
		return
	}
	k := f.kind
	wrong := func(with ...*jval) {
		w := with[ft.r.IntN(len(with))]
		ft.add("wrong-type", k, pos, replaceWith(n, w))
	}
	num := func(class string, with ...*jval) {
		w := with[ft.r.IntN(len(with))]
		ft.add(class, k, pos, replaceWith(n, w))
	}
	switch k {
	case "string", "key":
		wrong(jnum("5"), jbool(true), &jval{kind: jObj}, &jval{kind: jArr})
	case "bool":
		wrong(jnum("1"), jstr("yes"), &jval{kind: jObj})
	case "int32":
		wrong(jbool(true), &jval{kind: jObj}, &jval{kind: jArr})
		num("unparsable-number", jstr("abc"), jstr("12x"), jstr(""), jnum("1.5"), jstr("1.5"))
		num("out-of-range", jnum("2147483648"), jnum("-2147483649"), jstr("2147483648"), jstr("99999999999999999999"), jnum("99999999999999999999"))
	case "uint32":
		wrong(jbool(true), &jval{kind: jObj}, &jval{kind: jArr})
		num("unparsable-number", jstr("abc"), jstr("12x"), jstr(""), jnum("1.5"))
		num("out-of-range", jnum("4294967296"), jnum("-1"), jstr("4294967296"), jstr("-1"))
	case "int64":
		wrong(jbool(false), &jval{kind: jObj}, &jval{kind: jArr})
		num("unparsable-number", jstr("abc"), jstr("12x"), jstr(""), jnum("0.5"), jstr("1e3x"))
		num("out-of-range", jnum("9223372036854775808"), jstr("9223372036854775808"), jstr("-9223372036854775809"), jnum("-9223372036854775809"))
		// a bare number in fraction / exponent syntax is not an integer literal; beyond 2^53 a reader
		// that goes through float64 would store a neighbouring integer (C03-m8)
		num("float-syntax-integer", ft.floatSyntaxInts(true)...)
	case "uint64":
		wrong(jbool(false), &jval{kind: jObj}, &jval{kind: jArr})
		num("unparsable-number", jstr("abc"), jstr("12x"), jstr(""), jnum("0.5"))
		num("out-of-range", jnum("18446744073709551616"), jstr("18446744073709551616"), jstr("-1"), jnum("-1"))
		num("float-syntax-integer", ft.floatSyntaxInts(false)...)
	case "float32":
		wrong(jbool(true), &jval{kind: jObj}, &jval{kind: jArr})
		num("unparsable-number", jstr("abc"), jstr("1.5x"), jstr(""))
		num("out-of-range", jnum("1e39"), jstr("-1e39"), jnum("1e999"))
	case "float64":
		wrong(jbool(true), &jval{kind: jObj}, &jval{kind: jArr})
		num("unparsable-number", jstr("abc"), jstr("1.5x"), jstr(""))
		num("out-of-range", jnum("1e999"), jstr("-1e999"))
	case "bytes":
		wrong(jnum("5"), jbool(true), &jval{kind: jObj})
		num("invalid-base64", jstr("!!!!"), jstr("a"), jstr("ab=c"), jstr("ab cd"), jstr("abcde"))
	case "date":
		wrong(jnum("20200101"), jbool(true), &jval{kind: jObj})
		num("invalid-date", jstr("2020-13-01"), jstr("2020-02-30"), jstr("2020-01"), jstr("abcd-01-01"), jstr("2020-01-01-01"), jstr("2020-00-10"), jstr("2021-04-31"), jstr(""), jstr("2020-01-32"))
		// days that do not exist: February 29 on a year that is not leap — in particular the century
		// years of the Gregorian rule (divisible by 100, not by 400; C03-m9) —, February 30, day 31 of
		// a 30-day month, month / day zero
		num("nonexistent-day", jstr("1900-02-29"), jstr("2100-02-29"), jstr("1800-02-29"), jstr("1700-02-29"), jstr("2200-02-29"),
			jstr("2300-02-29"), jstr("2500-02-29"), jstr("0100-02-29"), jstr("0200-02-29"), jstr("0300-02-29"), jstr("0500-02-29"),
			jstr("9900-02-29"), jstr("1000-02-29"), jstr("2023-02-29"), jstr("2001-02-29"), jstr("0001-02-29"), jstr("9999-02-29"),
			jstr("2000-02-30"), jstr("2024-02-30"), jstr("2400-02-30"), jstr("1900-02-30"), jstr("2024-02-31"),
			jstr("2020-04-31"), jstr("2020-06-31"), jstr("2020-09-31"), jstr("2020-11-31"), jstr("1900-06-31"),
			jstr("2020-01-00"), jstr("2020-00-01"), jstr("2020-12-32"), jstr("2020-13-31"))
	case "decimal":
		wrong(jbool(true), &jval{kind: jObj}, &jval{kind: jArr})
		num("invalid-decimal", jstr("abc"), jstr("1.2.3"), jstr(""), jstr("1,5"))
	case "timestamp":
		wrong(jnum("1577836800"), jbool(true), &jval{kind: jObj})
		num("invalid-timestamp", jstr("2020-01-01"), jstr("not a time"), jstr("2020-13-01T00:00:00Z"), jstr("2020-01-01T25:00:00Z"), jstr("2020-01-01 00:00:00Z"), jstr(""))
	case "enum":
		wrong(jnum("1"), jbool(true), &jval{kind: jObj})
		pre := ""
		if e := f.wireEnum(); e != nil {
			pre = e.prefix
		}
		num("unknown-enum", jstr("ZZ_NOPE"), jstr(pre+"ZZ_NOPE"), jstr(""), jstr("value1"))
	case "object":
		wrong(jnum("5"), jstr("x"), &jval{kind: jArr}, jbool(true))
		ft.object(f.ref(), n, nestPos(pos))
	case "oneof":
		wrong(jnum("5"), jstr("x"), &jval{kind: jArr}, jbool(true))
		ft.oneof(f.ref(), n, nestPos(pos))
	case "array":
		wrong(jnum("5"), jstr("x"), &jval{kind: jObj}, jbool(true))
		if n.kind == jArr {
			for _, e := range n.elems {
				ft.field(f.item, e, "array")
			}
		}
	case "map":
		wrong(jnum("5"), jstr("x"), &jval{kind: jArr}, jbool(true))
		if n.kind == jObj {
			for _, m := range n.members {
				ft.field(f.item, m.val, "map")
			}
		}
	case "anyj5", "anypb":
		wrong(jnum("5"), jstr("x"), &jval{kind: jArr}, jbool(true))
		if n.kind == jObj {
			ft.add("unknown-key", k, pos, func() {
				n.members = append(n.members, jmember{key: "zzUnknownKey", keyRaw: `"zzUnknownKey"`, val: jnum("1")})
			})
			ft.add("unknown-key", k+"-value-renamed", pos, func() {
				for i := range n.members {
					if n.members[i].key == "value" {
						n.members[i].key, n.members[i].keyRaw = "zzUnknownKey", `"zzUnknownKey"`
					}
				}
			})
			ft.add("wrong-type", k+"-type", pos, func() {
				for i := range n.members {
					if n.members[i].key == "!type" {
						n.members[i].val = jnum("7")
					}
				}
			})
		}
	}
}

func nestPos(pos string) string {
	if pos == "top" {
		return "nested"
	}
	return pos
}

// injectFault applies exactly one fault at a random site; ok=false if the document offers no site.
func injectFault(r *rand.Rand, root *sRoot, doc *jval) (class, kind, pos string, ok bool) {
	ft := &faulter{r: r}
	ft.object(root, doc, "top")
	if len(ft.sites) == 0 {
		return "", "", "", false
	}
	// choose a class first so that rare classes are not drowned by wrong-type sites
	byClass := map[string][]faultSite{}
	var classes []string
	for _, s := range ft.sites {
		if _, seen := byClass[s.class]; !seen {
			classes = append(classes, s.class)
		}
		byClass[s.class] = append(byClass[s.class], s)
	}
	sort.Strings(classes)
	c := classes[r.IntN(len(classes))]
	// within the class prefer deep positions half of the time
	cands := byClass[c]
	if r.IntN(2) == 0 {
		var deep []faultSite
		for _, s := range cands {
			if s.pos != "top" {
				deep = append(deep, s)
			}
		}
		if len(deep) > 0 {
			cands = deep
		}
	}
	s := cands[r.IntN(len(cands))]
	s.apply()
	return s.class, s.kind, s.pos, true
}

// floatSyntaxInts: bare JSON numbers written with a fraction or an exponent whose value is an
// integer of more than 53 bits that float64 cannot represent (odd, or just outside the 64-bit range
// by less than half an ulp) — fixed boundary cases plus random ones. Every one of them is a fault:
// the token is not an integer literal, and no reader may store a different integer for it.
func (ft *faulter) floatSyntaxInts(signed bool) []*jval {
	out := []*jval{
		jnum("9007199254740993.0"), jnum("9007199254740993e0"), jnum("9007199254740993.0e0"), jnum("9.007199254740993e15"),
		jnum("1.8014398509481985e16"), jnum("900719925474099.3e1"), jnum("9007199254740993.00"), jnum("9007199254740993E0"),
		jnum("4611686018427387905.0"), jnum("9223372036854775807.0"), jnum("9.223372036854775807e18"),
	}
	if signed {
		out = append(out, jnum("-9007199254740993.0"), jnum("-9223372036854775809.0"), jnum("-9223372036854775809e0"),
			jnum("-9.223372036854775809e18"), jnum("-4611686018427387905.0"), jnum("9223372036854775808.0"))
	} else {
		out = append(out, jnum("18446744073709551615.0"), jnum("1.8446744073709551615e19"), jnum("9223372036854775809.0"),
			jnum("18446744073709551616.0"), jnum("12297829382473034411e0"))
	}
	// random odd integers with 54..63 (64) significant bits, in three spellings
	for i := 0; i < 6; i++ {
		bits := 54 + ft.r.IntN(9)
		if !signed {
			bits = 54 + ft.r.IntN(10)
		}
		v := (uint64(1) << (bits - 1)) | (ft.r.Uint64() & ((uint64(1) << (bits - 1)) - 1)) | 1
		digits := strconv.FormatUint(v, 10)
		sign := ""
		if signed && ft.r.IntN(2) == 0 {
			sign = "-"
		}
		switch ft.r.IntN(3) {
		case 0:
			out = append(out, jnum(sign+digits+".0"))
		case 1:
			out = append(out, jnum(sign+digits+"e0"))
		default:
			out = append(out, jnum(sign+digits[:1]+"."+digits[1:]+"e"+strconv.Itoa(len(digits)-1)))
		}
	}
	return out
}
