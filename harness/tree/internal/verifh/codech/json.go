//go:build verif

package main

import (
	"bytes"
	"fmt"
	"sort"
	"unicode/utf8"
)

// A strict RFC 8259 reader written for the C08 oracle: it keeps the number/string distinction
// and the raw text of every token, rejects everything the grammar does not allow (bare NaN,
// leading zeros, control characters in strings, invalid UTF-8, trailing garbage, missing values).

type jkind int

const (
	jObj jkind = iota
	jArr
	jStr
	jNum
	jTrue
	jFalse
	jNull
)

type jmember struct {
	key    string // decoded
	keyRaw string // raw incl. quotes
	val    *jval
}

type jval struct {
	kind    jkind
	raw     string // scalar tokens: exact source text
	str     string // decoded string
	members []jmember
	elems   []*jval
	loneSur bool // string contained an unpaired \uD800-\uDFFF escape
}

type jparser struct {
	b     []byte
	i     int
	depth int
}

type jerr struct {
	pos int
	msg string
}

func (e *jerr) Error() string { return fmt.Sprintf("offset %d: %s", e.pos, e.msg) }

const jMaxDepth = 200000

// parseStrict parses exactly one JSON text (RFC 8259 §2: ws value ws).
func parseStrict(b []byte) (*jval, error) {
	p := &jparser{b: b}
	p.ws()
	v, err := p.value()
	if err != nil {
		return nil, err
	}
	p.ws()
	if p.i != len(p.b) {
		return nil, &jerr{p.i, "trailing data after the JSON text"}
	}
	return v, nil
}

// parsePrefix parses the first JSON value and returns the offset after it (trailing data allowed).
func parsePrefix(b []byte) (*jval, int, error) {
	p := &jparser{b: b}
	p.ws()
	v, err := p.value()
	if err != nil {
		return nil, p.i, err
	}
	return v, p.i, nil
}

func (p *jparser) ws() {
	for p.i < len(p.b) {
		switch p.b[p.i] {
		case ' ', '\t', '\n', '\r':
			p.i++
		default:
			return
		}
	}
}

func (p *jparser) value() (*jval, error) {
	// iterative container handling would complicate the code; depth is bounded instead
	if p.i >= len(p.b) {
		return nil, &jerr{p.i, "unexpected end of input, expected a value"}
	}
	switch c := p.b[p.i]; {
	case c == '{':
		return p.object()
	case c == '[':
		return p.array()
	case c == '"':
		start := p.i
		s, lone, err := p.str()
		if err != nil {
			return nil, err
		}
		return &jval{kind: jStr, raw: string(p.b[start:p.i]), str: s, loneSur: lone}, nil
	case c == '-' || (c >= '0' && c <= '9'):
		return p.number()
	case c == 't':
		return p.lit("true", jTrue)
	case c == 'f':
		return p.lit("false", jFalse)
	case c == 'n':
		return p.lit("null", jNull)
	default:
		return nil, &jerr{p.i, fmt.Sprintf("unexpected byte %q, expected a value", c)}
	}
}

func (p *jparser) lit(s string, k jkind) (*jval, error) {
	if bytes.HasPrefix(p.b[p.i:], []byte(s)) {
		p.i += len(s)
		return &jval{kind: k, raw: s}, nil
	}
	return nil, &jerr{p.i, "invalid literal"}
}

func (p *jparser) number() (*jval, error) {
	start := p.i
	if p.i < len(p.b) && p.b[p.i] == '-' {
		p.i++
	}
	if p.i >= len(p.b) {
		return nil, &jerr{p.i, "truncated number"}
	}
	switch {
	case p.b[p.i] == '0':
		p.i++
	case p.b[p.i] >= '1' && p.b[p.i] <= '9':
		for p.i < len(p.b) && p.b[p.i] >= '0' && p.b[p.i] <= '9' {
			p.i++
		}
	default:
		return nil, &jerr{p.i, "invalid number"}
	}
	if p.i < len(p.b) && p.b[p.i] == '.' {
		p.i++
		n := 0
		for p.i < len(p.b) && p.b[p.i] >= '0' && p.b[p.i] <= '9' {
			p.i++
			n++
		}
		if n == 0 {
			return nil, &jerr{p.i, "digits expected after decimal point"}
		}
	}
	if p.i < len(p.b) && (p.b[p.i] == 'e' || p.b[p.i] == 'E') {
		p.i++
		if p.i < len(p.b) && (p.b[p.i] == '+' || p.b[p.i] == '-') {
			p.i++
		}
		n := 0
		for p.i < len(p.b) && p.b[p.i] >= '0' && p.b[p.i] <= '9' {
			p.i++
			n++
		}
		if n == 0 {
			return nil, &jerr{p.i, "digits expected in exponent"}
		}
	}
	return &jval{kind: jNum, raw: string(p.b[start:p.i])}, nil
}

func hexv(c byte) int {
	switch {
	case c >= '0' && c <= '9':
		return int(c - '0')
	case c >= 'a' && c <= 'f':
		return int(c-'a') + 10
	case c >= 'A' && c <= 'F':
		return int(c-'A') + 10
	}
	return -1
}

func (p *jparser) hex4() (rune, bool) {
	if p.i+4 > len(p.b) {
		return 0, false
	}
	var r rune
	for k := 0; k < 4; k++ {
		h := hexv(p.b[p.i+k])
		if h < 0 {
			return 0, false
		}
		r = r<<4 | rune(h)
	}
	p.i += 4
	return r, true
}

func (p *jparser) str() (string, bool, error) {
	p.i++ // opening quote
	var out []byte
	lone := false
	for {
		if p.i >= len(p.b) {
			return "", false, &jerr{p.i, "unterminated string"}
		}
		c := p.b[p.i]
		switch {
		case c == '"':
			p.i++
			return string(out), lone, nil
		case c < 0x20:
			return "", false, &jerr{p.i, "control character in string"}
		case c == '\\':
			p.i++
			if p.i >= len(p.b) {
				return "", false, &jerr{p.i, "unterminated escape"}
			}
			e := p.b[p.i]
			p.i++
			switch e {
			case '"', '\\', '/':
				out = append(out, e)
			case 'b':
				out = append(out, '\b')
			case 'f':
				out = append(out, '\f')
			case 'n':
				out = append(out, '\n')
			case 'r':
				out = append(out, '\r')
			case 't':
				out = append(out, '\t')
			case 'u':
				r, ok := p.hex4()
				if !ok {
					return "", false, &jerr{p.i, "invalid \\u escape"}
				}
				if r >= 0xd800 && r < 0xdc00 {
					// high surrogate: needs a low one
					if p.i+1 < len(p.b) && p.b[p.i] == '\\' && p.b[p.i+1] == 'u' {
						save := p.i
						p.i += 2
						r2, ok := p.hex4()
						if ok && r2 >= 0xdc00 && r2 < 0xe000 {
							r = 0x10000 + (r-0xd800)<<10 + (r2 - 0xdc00)
						} else {
							p.i = save
							lone = true
							r = utf8.RuneError
						}
					} else {
						lone = true
						r = utf8.RuneError
					}
				} else if r >= 0xdc00 && r < 0xe000 {
					lone = true
					r = utf8.RuneError
				}
				out = utf8.AppendRune(out, r)
			default:
				return "", false, &jerr{p.i - 1, "invalid escape"}
			}
		case c < 0x80:
			out = append(out, c)
			p.i++
		default:
			r, n := utf8.DecodeRune(p.b[p.i:])
			if r == utf8.RuneError && n <= 1 {
				return "", false, &jerr{p.i, "invalid UTF-8 in string"}
			}
			out = append(out, p.b[p.i:p.i+n]...)
			p.i += n
		}
	}
}

func (p *jparser) object() (*jval, error) {
	p.depth++
	defer func() { p.depth-- }()
	if p.depth > jMaxDepth {
		return nil, &jerr{p.i, "nesting too deep for the oracle's reader"}
	}
	p.i++
	v := &jval{kind: jObj}
	p.ws()
	if p.i < len(p.b) && p.b[p.i] == '}' {
		p.i++
		return v, nil
	}
	for {
		p.ws()
		if p.i >= len(p.b) || p.b[p.i] != '"' {
			return nil, &jerr{p.i, "expected a member name"}
		}
		ks := p.i
		k, _, err := p.str()
		if err != nil {
			return nil, err
		}
		kraw := string(p.b[ks:p.i])
		p.ws()
		if p.i >= len(p.b) || p.b[p.i] != ':' {
			return nil, &jerr{p.i, "expected ':'"}
		}
		p.i++
		p.ws()
		val, err := p.value()
		if err != nil {
			return nil, err
		}
		v.members = append(v.members, jmember{key: k, keyRaw: kraw, val: val})
		p.ws()
		if p.i >= len(p.b) {
			return nil, &jerr{p.i, "unterminated object"}
		}
		if p.b[p.i] == ',' {
			p.i++
			continue
		}
		if p.b[p.i] == '}' {
			p.i++
			return v, nil
		}
		return nil, &jerr{p.i, "expected ',' or '}'"}
	}
}

func (p *jparser) array() (*jval, error) {
	p.depth++
	defer func() { p.depth-- }()
	if p.depth > jMaxDepth {
		return nil, &jerr{p.i, "nesting too deep for the oracle's reader"}
	}
	p.i++
	v := &jval{kind: jArr}
	p.ws()
	if p.i < len(p.b) && p.b[p.i] == ']' {
		p.i++
		return v, nil
	}
	for {
		p.ws()
		val, err := p.value()
		if err != nil {
			return nil, err
		}
		v.elems = append(v.elems, val)
		p.ws()
		if p.i >= len(p.b) {
			return nil, &jerr{p.i, "unterminated array"}
		}
		if p.b[p.i] == ',' {
			p.i++
			continue
		}
		if p.b[p.i] == ']' {
			p.i++
			return v, nil
		}
		return nil, &jerr{p.i, "expected ',' or ']'"}
	}
}

// ---- writing

func (v *jval) write(b *bytes.Buffer) {
	switch v.kind {
	case jObj:
		b.WriteByte('{')
		for i, m := range v.members {
			if i > 0 {
				b.WriteByte(',')
			}
			b.WriteString(m.keyRaw)
			b.WriteByte(':')
			m.val.write(b)
		}
		b.WriteByte('}')
	case jArr:
		b.WriteByte('[')
		for i, e := range v.elems {
			if i > 0 {
				b.WriteByte(',')
			}
			e.write(b)
		}
		b.WriteByte(']')
	default:
		b.WriteString(v.raw)
	}
}

func (v *jval) bytes() []byte {
	var b bytes.Buffer
	v.write(&b)
	return b.Bytes()
}

func (v *jval) get(key string) *jval {
	if v == nil || v.kind != jObj {
		return nil
	}
	for _, m := range v.members {
		if m.key == key {
			return m.val
		}
	}
	return nil
}

func (v *jval) sortMembers() {
	sort.SliceStable(v.members, func(i, j int) bool { return v.members[i].key < v.members[j].key })
}

func (v *jval) clone() *jval {
	if v == nil {
		return nil
	}
	c := *v
	if v.members != nil {
		c.members = make([]jmember, len(v.members))
		for i, m := range v.members {
			c.members[i] = jmember{key: m.key, keyRaw: m.keyRaw, val: m.val.clone()}
		}
	}
	if v.elems != nil {
		c.elems = make([]*jval, len(v.elems))
		for i, e := range v.elems {
			c.elems[i] = e.clone()
		}
	}
	return &c
}

func jstr(s string) *jval {
	return &jval{kind: jStr, str: s, raw: string(quoteJSON(s))}
}

func jnum(raw string) *jval { return &jval{kind: jNum, raw: raw} }

func jbool(b bool) *jval {
	if b {
		return &jval{kind: jTrue, raw: "true"}
	}
	return &jval{kind: jFalse, raw: "false"}
}

func jnull() *jval { return &jval{kind: jNull, raw: "null"} }

// quoteJSON is an independent minimal JSON string writer (escapes only what RFC 8259 requires).
func quoteJSON(s string) []byte {
	out := []byte{'"'}
	for i := 0; i < len(s); {
		c := s[i]
		switch {
		case c == '"' || c == '\\':
			out = append(out, '\\', c)
			i++
		case c < 0x20:
			out = append(out, fmt.Sprintf("\\u%04x", c)...)
			i++
		case c < 0x80:
			out = append(out, c)
			i++
		default:
			r, n := utf8.DecodeRuneInString(s[i:])
			if r == utf8.RuneError && n <= 1 {
				out = append(out, "\\ufffd"...)
				i++
			} else {
				out = append(out, s[i:i+n]...)
				i += n
			}
		}
	}
	return append(out, '"')
}
