//go:build verif

package main

import (
	"fmt"
	"os"
	"runtime/metrics"
	"strings"
	"time"

	"github.com/pentops/j5/internal/verifh/vh"
)

// ---- query key paths with index-like / empty segments (C06: QueryToProto is total for ANY key)
//
// A dotted query key addresses a property through object / oneof properties. Nothing in the
// property says a segment is a name: "rBars.0.barId", "rBars.-1.barId", "mStr.0", "sBar.00.x",
// "rBars..barId", "rBars.0." are all keys a client can send. The decoder must answer each with a
// result or an error, in time and memory bounded by the input — so an index that is parsed must
// be range-checked, and an index can not make the decoder allocate "index" many elements.
//
// idxPaths lists, for a root, every property reachable through containers (also through the
// ELEMENT type of arrays and the VALUE type of maps, which a plain dotted path can not enter),
// with the property's field, so that segments can be inserted after any property kind.

type idxPath struct {
	segs  []string
	field *sField
}

func idxPaths(root *sRoot, prefix []string, depth int, out *[]idxPath) {
	if root == nil || root.broken || depth > 2 {
		return
	}
	for _, p := range root.props {
		segs := append(append([]string{}, prefix...), p.json)
		*out = append(*out, idxPath{segs, p.field})
		if len(*out) > 400 {
			return
		}
		if p.field.kind == "object" || p.field.kind == "oneof" {
			idxPaths(p.field.ref(), segs, depth+1, out)
		}
	}
}

// containerOf is the property set one step below a field: the object / oneof itself, or the
// element / value type of an array / map of containers.
func containerOf(f *sField) *sRoot {
	for f != nil && (f.kind == "array" || f.kind == "map") {
		f = f.item
	}
	if f == nil || (f.kind != "object" && f.kind != "oneof") || f.refSch == nil {
		return nil
	}
	return f.ref()
}

// segment texts that look like an index (strconv.Atoi accepts the first two rows, rejects the third)
var smallIndexSegs = []string{"0", "1", "2", "3", "7", "00", "01", "+0", "+1", "-0",
	"-1", "-2", "-7", "-2147483648", "-9223372036854775808",
	"1e3", "0x1", "1.0", " 1", "1 ", "١", "1_0", "9223372036854775808", "-9223372036854775809", "#", "*", "[0]", "[]", "-"}

// large indices for the correspondence stream: big enough that a decoder which materialises
// "index" elements is far outside the size bound (2 bytes per empty element against 1024 x ~30
// bytes of input), small enough that such a decoder still returns (so the oracle, not the
// watchdog, reports it and the shard goes on).
var largeIndexSegs = []string{"9999", "65535", "65536", "100000", "1000000"}

// huge indices (Go-only stress stream): a decoder that walks / allocates up to the index never
// returns; the watchdog (time or memory) attributes it to the op.
var hugeIndexSegs = []string{"2000000000", "2147483647", "2147483648", "4294967295", "4294967296", "9223372036854775807"}

// indexedKey builds one query key with index-like / empty segments. label names the shape for the
// statistics. ok=false: the root has no property to work with.
func indexedKey(h *vh.H, root *sRoot, idxs []string, force bool) (key string, label string, ok bool) {
	var paths []idxPath
	idxPaths(root, nil, 0, &paths)
	if len(paths) == 0 {
		return "", "", false
	}
	pick := func() string { return idxs[h.Rng.IntN(len(idxs))] }
	// prefer arrays / maps of containers: 1/2 of the keys go there when the root has one
	var conts []idxPath
	for _, p := range paths {
		if (p.field.kind == "array" || p.field.kind == "map") && containerOf(p.field) != nil {
			conts = append(conts, p)
		}
	}
	p := paths[h.Rng.IntN(len(paths))]
	if len(conts) > 0 && (force || h.Rng.IntN(2) == 0) {
		p = conts[h.Rng.IntN(len(conts))]
	}
	kind := p.field.kind
	if (kind == "array" || kind == "map") && p.field.item != nil {
		kind += "-" + p.field.item.kind
	}
	segs := append([]string{}, p.segs...)
	child := func(r *sRoot) string {
		if r == nil || r.broken || len(r.props) == 0 {
			return []string{"zz", "value", "!type", "0"}[h.Rng.IntN(4)]
		}
		return r.props[h.Rng.IntN(len(r.props))].json
	}
	sub := containerOf(p.field)
	x := h.Rng.IntN(12)
	if force {
		x = x % 6 // stress stream: the index is followed by a child
	}
	switch {
	case x < 5: // prop.<idx>.<child of the element / value / object type>
		segs = append(segs, pick(), child(sub))
		label = "idx-child"
	case x < 6: // prop.<idx>.<child>.<idx>.<grandchild>
		c := child(sub)
		segs = append(segs, pick(), c)
		var subsub *sRoot
		if sub != nil && !sub.broken {
			if cp := sub.prop(c); cp != nil {
				subsub = containerOf(cp.field)
			}
		}
		segs = append(segs, pick(), child(subsub))
		label = "idx-child-idx-child"
	case x < 7: // the index is the last segment
		segs = append(segs, pick())
		label = "idx-last"
	case x < 8: // two indices in a row
		segs = append(segs, pick(), pick(), child(sub))
		label = "idx-idx-child"
	case x < 9: // trailing dot(s)
		segs = append(segs, pick(), "")
		if h.Rng.IntN(2) == 0 {
			segs = append(p.segs[:len(p.segs):len(p.segs)], "")
		}
		label = "trailing-dot"
	case x < 10: // empty segment in the middle
		segs = append(segs, "", child(sub))
		label = "empty-seg"
	case x < 11: // the index comes first
		segs = append([]string{pick()}, segs...)
		label = "idx-first"
	default: // child addressed without an index (what a client of the plain dotted syntax would write)
		segs = append(segs, child(sub))
		label = "child-no-idx"
	}
	return strings.Join(segs, "."), label + "." + kind, true
}

// genIndexedQuery: a query op whose key(s) carry index-like segments. Values: mostly what the
// addressed child would accept as text, so that a decoder which resolves the path goes on to store.
func (im *impl) genIndexedQuery(h *vh.H, idxs []string, withEnv bool, rootName string) string {
	var ts *typeSet
	var root *sRoot
	mode := pickMode(h)
	if rootName != "" {
		t, md, err := setForRoot(rootName)
		if err != nil {
			return ""
		}
		ts, root = t, t.rootOf(md)
	} else {
		// a root with an array / map of containers, if one turns up in a few draws
		for try := 0; try < 6; try++ {
			t, md := im.pickTarget(h)
			r := t.rootOf(md)
			ts, root = t, r
			found := false
			for _, p := range r.props {
				if (p.field.kind == "array" || p.field.kind == "map") && containerOf(p.field) != nil {
					found = true
				}
			}
			if found {
				break
			}
		}
	}
	if root == nil || root.broken {
		return ""
	}
	nk := 1
	if h.Rng.IntN(5) == 0 {
		nk = 2
	}
	var keys [][]string
	seen := map[string]bool{}
	for k := 0; k < nk; k++ {
		key, label, ok := indexedKey(h, root, idxs, rootName != "")
		if !ok || seen[key] {
			continue
		}
		seen[key] = true
		h.Count("gen.qidx." + strings.SplitN(label, ".", 2)[0])
		h.Count("gen.qidx.after." + strings.SplitN(label, ".", 2)[1])
		vs := [][]string{{"a"}, {"a"}, {"1"}, {"true"}, {"{}"}, {"a", "b"}, {""}, {"2020-01-01"}, {"1.5"}}[h.Rng.IntN(9)]
		keys = append(keys, append([]string{key}, vs...))
	}
	env := "(env)"
	if withEnv {
		env = im.envFor(ts, root.md)
	}
	return qline(mode, env, j5Name(root.md), keys, newOra(), "")
}

// ---- memory watchdog
//
// The time watchdog (exec.go) turns a call that does not return into a crash the engine attributes
// to the op. A decoder whose loop allocates runs the machine out of memory long before 60 s: the
// same is done for the heap. The metric is the heap of the whole harness process (which also keeps
// ops, results and the distinct set, growing with the number of ops), so what counts is the GROWTH
// since the running call started: the first sample taken within a call is its base line. The limit
// is far above what any legitimate op of these streams needs (the largest inputs are 4 MiB).
// limit 0 = no memory watchdog (streams whose calls are not decodes of hostile input).
func startMemWatchdog(limit uint64) {
	if limit == 0 {
		return
	}
	go func() {
		s := []metrics.Sample{{Name: "/memory/classes/heap/objects:bytes"}}
		over := 0
		var curCall int64
		var base uint64
		for {
			time.Sleep(100 * time.Millisecond)
			st := opStart.Load()
			if st == 0 {
				over, curCall = 0, 0
				continue
			}
			metrics.Read(s)
			if s[0].Value.Kind() != metrics.KindUint64 {
				continue
			}
			now := s[0].Value.Uint64()
			if st != curCall {
				curCall, base, over = st, now, 0
				continue
			}
			if now < base {
				base = now // a collection ran: garbage of earlier ops is gone
			}
			if now-base <= limit {
				over = 0
				continue
			}
			over++
			if over >= 3 { // still above the limit after a few samples within one call
				fmt.Fprintf(os.Stderr, "WATCHDOG: live heap grew by %d MiB during one call (limit %d MiB), memory not bounded by the input: %.300v\n",
					(now-base)>>20, limit>>20, opName.Load())
				os.Exit(3)
			}
		}
	}()
}

var fuzzIndexSegs = append(append([]string{}, smallIndexSegs...), largeIndexSegs...)

// memLimitFor: live-heap limit of one real-code call. The fuzz / history inputs are at most 64 KiB;
// the stress stream decodes MiB inputs nested 10^5 deep (hundreds of MiB of legitimate messages).
func memLimitFor(stream string) uint64 {
	switch stream {
	case "codec.stress":
		return 8 << 30
	case "codec.fuzz", "codec.history":
		return 3 << 30
	}
	return 0 // codec.enc / codec.dec / codec.query / codec.corpus: no memory watchdog
}
