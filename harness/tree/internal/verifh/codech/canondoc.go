//go:build verif

package main

import (
	"encoding/base64"
	"errors"
	"fmt"
	"math"
	"regexp"
	"strconv"
	"strings"
	"time"

	"github.com/shopspring/decimal"
)

// canonDoc is the independent, schema-directed normaliser of J5 JSON documents used by the
// C03 oracle (DESIGN §6 C03): it drops explicit nulls, maps every documented alternate spelling
// to the canonical one and fails (with a reason class) on anything that is not representable in
// its target field. An accepted document must re-encode to exactly canonDoc(document).

type normFail struct {
	class string // reason class, e.g. "bad-number:int32"
	path  string
}

func (e *normFail) Error() string { return e.class + " at " + e.path }

type normalizer struct {
	ts        *typeSet
	mode      string
	nonFinite bool // a float member denotes NaN/Inf: the re-encode comparison is skipped
	skip      bool // a construct whose normal form is not defined by the property (empty any via !type …)
}

func nfail(class, path string) error { return &normFail{class, path} }

// subPath extends a diagnostic path. Paths are only used in failure details; beyond 400 bytes they are
// cut off ("…"), so that walking a document nested 10^4..10^5 deep does not build O(depth^2) bytes of
// path strings (the codec.stress stream spent 8 GB / 9 s per op there).
func subPath(path, seg string) string {
	if len(path) > 400 {
		if strings.HasSuffix(path, "…") {
			return path
		}
		return path + "…"
	}
	return path + seg
}

func (n *normalizer) root(root *sRoot, v *jval, path string) (*jval, error) {
	if root.isOneof {
		return n.oneof(root, v, path)
	}
	return n.object(root, v, path)
}

func (n *normalizer) object(root *sRoot, v *jval, path string) (*jval, error) {
	if v.kind != jObj {
		return nil, nfail("wrong-type:object", path)
	}
	got := map[string]*jval{}
	oneofSeen := map[string]string{}
	for _, m := range v.members {
		p := root.prop(m.key)
		if p == nil {
			return nil, nfail("unknown-key", subPath(path, "."+m.key))
		}
		if m.val.kind == jNull {
			continue
		}
		if _, dup := got[m.key]; dup {
			return nil, nfail("dup-key", subPath(path, "."+m.key))
		}
		if p.oneof != nil {
			k := string(p.oneof.FullName())
			if other, ok := oneofSeen[k]; ok {
				return nil, nfail("proto-oneof-multi", subPath(path, "."+other+"+"+m.key))
			}
			oneofSeen[k] = m.key
		}
		nv, err := n.prop(p, m.val, subPath(path, "."+m.key))
		if err != nil {
			return nil, err
		}
		got[m.key] = nv // nv may be nil: normalises to absent
	}
	out := &jval{kind: jObj}
	for _, p := range root.props {
		if nv := got[p.json]; nv != nil {
			out.members = append(out.members, jmember{key: p.json, keyRaw: string(quoteJSON(p.json)), val: nv})
		}
	}
	return out, nil
}

func (n *normalizer) prop(p *sProp, v *jval, path string) (*jval, error) {
	nv, err := n.field(p.field, v, path)
	if err != nil || nv == nil {
		return nv, err
	}
	if p.isExposedOneof() && nv.kind == jObj && len(nv.members) == 0 {
		return nil, nil // exposed oneof with nothing set leaves no trace in the message
	}
	if fd := p.final(); fd != nil && presOf(fd) == "imp" && isZeroJSON(p.field, nv) {
		return nil, nil // proto3 implicit presence: the zero value *is* absence
	}
	return nv, nil
}

func (n *normalizer) oneof(root *sRoot, v *jval, path string) (*jval, error) {
	if v.kind != jObj {
		return nil, nfail("wrong-type:oneof", path)
	}
	var typ *string
	var key string
	var val *jval
	sawKey := false
	for _, m := range v.members {
		if m.key == "!type" {
			if m.val.kind != jStr {
				return nil, nfail("wrong-type:!type", path)
			}
			s := m.val.str
			typ = &s
			continue
		}
		p := root.prop(m.key)
		if p == nil {
			return nil, nfail("unknown-key", subPath(path, "."+m.key))
		}
		sawKey = true
		if m.val.kind == jNull {
			continue
		}
		if val != nil {
			return nil, nfail("oneof-multi", path)
		}
		key, val = m.key, m.val
	}
	out := &jval{kind: jObj}
	if val == nil {
		if typ == nil || sawKey {
			// a member that is explicitly null selects nothing (and suppresses the "!type"-only form)
			return out, nil
		}
		p := root.prop(*typ)
		if p == nil {
			return nil, nfail("oneof-unknown-type", path)
		}
		switch p.field.kind {
		case "object", "oneof":
			if len(p.path) == 0 {
				return out, nil
			}
			out.members = []jmember{
				{key: "!type", keyRaw: `"!type"`, val: jstr(*typ)},
				{key: *typ, keyRaw: string(quoteJSON(*typ)), val: &jval{kind: jObj}},
			}
			return out, nil
		case "anyj5", "anypb", "array", "map":
			n.skip = true
			return out, nil
		}
		return out, nil // a scalar member selected by "!type" alone stores nothing
	}
	if typ != nil && *typ != key {
		return nil, nfail("oneof-type-mismatch", path)
	}
	p := root.prop(key)
	nv, err := n.prop(p, val, subPath(path, "."+key))
	if err != nil {
		return nil, err
	}
	if nv == nil {
		// the member normalises to absent (empty array / map / exposed oneof)
		n.skip = true
		return out, nil
	}
	out.members = []jmember{
		{key: "!type", keyRaw: `"!type"`, val: jstr(key)},
		{key: key, keyRaw: string(quoteJSON(key)), val: nv},
	}
	return out, nil
}

func numText(v *jval) (string, bool) {
	switch v.kind {
	case jNum:
		return v.raw, true
	case jStr:
		return v.str, true
	}
	return "", false
}

func numClass(err error, kind string) string {
	if errors.Is(err, strconv.ErrRange) {
		return "range:" + kind
	}
	return "bad-number:" + kind
}

var reB64 = regexp.MustCompile(`^[A-Za-z0-9+/]*$`)

func decodeB64Lenient(s string) ([]byte, bool) {
	s = strings.NewReplacer("-", "+", "_", "/", "\r", "", "\n", "").Replace(s)
	s = strings.TrimRight(s, "=")
	if !reB64.MatchString(s) || len(s)%4 == 1 {
		return nil, false
	}
	b, err := base64.RawStdEncoding.DecodeString(s)
	return b, err == nil
}

func parseDateStrict(s string) (y, m, d int64, ok bool) {
	parts := strings.Split(s, "-")
	if len(parts) != 3 {
		return
	}
	var v [3]int64
	for i, p := range parts {
		x, err := strconv.ParseInt(p, 10, 64)
		if err != nil {
			return
		}
		v[i] = x
	}
	y, m, d = v[0], v[1], v[2]
	if y < math.MinInt32 || y > math.MaxInt32 || m < 1 || m > 12 || d < 1 {
		return
	}
	yy := int(y)
	if d > int64(daysIn(yy, int(m))) {
		return
	}
	return y, m, d, true
}

func (n *normalizer) field(f *sField, v *jval, path string) (*jval, error) {
	switch f.kind {
	case "string", "key":
		if v.kind != jStr {
			return nil, nfail("wrong-type:"+f.kind, path)
		}
		return jstr(v.str), nil
	case "bool":
		if v.kind != jTrue && v.kind != jFalse {
			return nil, nfail("wrong-type:bool", path)
		}
		return jbool(v.kind == jTrue), nil
	case "int32", "int64":
		t, ok := numText(v)
		if !ok {
			return nil, nfail("wrong-type:"+f.kind, path)
		}
		bits := 32
		if f.kind == "int64" {
			bits = 64
		}
		x, err := strconv.ParseInt(t, 10, bits)
		if err != nil {
			return nil, nfail(numClass(err, f.kind), path)
		}
		if bits == 32 {
			return jnum(strconv.FormatInt(x, 10)), nil
		}
		return jstr(strconv.FormatInt(x, 10)), nil
	case "uint32", "uint64":
		t, ok := numText(v)
		if !ok {
			return nil, nfail("wrong-type:"+f.kind, path)
		}
		bits := 32
		if f.kind == "uint64" {
			bits = 64
		}
		x, err := strconv.ParseUint(t, 10, bits)
		if err != nil {
			if z, e2 := strconv.ParseInt(t, 10, 64); e2 == nil && z == 0 {
				err = nil // "-0" denotes zero
			}
		}
		if err != nil {
			if strings.HasPrefix(strings.TrimSpace(t), "-") {
				if _, e2 := strconv.ParseInt(t, 10, 64); e2 == nil {
					return nil, nfail("range:"+f.kind, path)
				}
			}
			return nil, nfail(numClass(err, f.kind), path)
		}
		if bits == 32 {
			return jnum(strconv.FormatUint(x, 10)), nil
		}
		return jstr(strconv.FormatUint(x, 10)), nil
	case "float32", "float64":
		t, ok := numText(v)
		if !ok {
			return nil, nfail("wrong-type:"+f.kind, path)
		}
		x, err := strconv.ParseFloat(t, 64)
		if err != nil {
			return nil, nfail(numClass(err, f.kind), path)
		}
		if math.IsNaN(x) || math.IsInf(x, 0) {
			n.nonFinite = true
			return jnum("0"), nil
		}
		if f.kind == "float32" {
			if math.IsInf(float64(float32(x)), 0) {
				return nil, nfail("range:float32", path)
			}
			return jnum(strconv.FormatFloat(float64(float32(x)), 'g', -1, 32)), nil
		}
		return jnum(strconv.FormatFloat(x, 'g', -1, 64)), nil
	case "bytes":
		if v.kind != jStr {
			return nil, nfail("wrong-type:bytes", path)
		}
		b, ok := decodeB64Lenient(v.str)
		if !ok {
			return nil, nfail("bad-base64", path)
		}
		return jstr(base64.StdEncoding.EncodeToString(b)), nil
	case "timestamp":
		if v.kind != jStr {
			return nil, nfail("wrong-type:timestamp", path)
		}
		t, err := time.Parse(time.RFC3339, v.str)
		if err != nil {
			return nil, nfail("bad-timestamp", path)
		}
		return jstr(t.In(time.UTC).Format(time.RFC3339Nano)), nil
	case "date":
		if v.kind != jStr {
			return nil, nfail("wrong-type:date", path)
		}
		y, m, d, ok := parseDateStrict(v.str)
		if !ok {
			return nil, nfail("bad-date", path)
		}
		return jstr(fmt.Sprintf("%04d-%02d-%02d", y, m, d)), nil
	case "decimal":
		t, ok := numText(v)
		if !ok {
			return nil, nfail("wrong-type:decimal", path)
		}
		d, err := safeDecimal(t)
		if err != nil {
			return nil, nfail("bad-decimal", path)
		}
		return jstr(d.String()), nil
	case "enum":
		if v.kind != jStr {
			return nil, nfail("wrong-type:enum", path)
		}
		e := f.wireEnum()
		if e == nil {
			n.skip = true
			return jstr(v.str), nil
		}
		if _, ok := e.byShort(v.str); ok {
			return jstr(v.str), nil
		}
		if e.prefix != "" && strings.HasPrefix(v.str, e.prefix) {
			short := strings.TrimPrefix(v.str, e.prefix)
			if _, ok := e.byShort(short); ok {
				return jstr(short), nil
			}
		}
		return nil, nfail("unknown-enum", path)
	case "object":
		return n.object(f.ref(), v, path)
	case "oneof":
		return n.oneof(f.ref(), v, path)
	case "array":
		if v.kind != jArr {
			return nil, nfail("wrong-type:array", path)
		}
		if len(v.elems) == 0 {
			return nil, nil
		}
		out := &jval{kind: jArr}
		for i, e := range v.elems {
			if e.kind == jNull {
				return nil, nfail("wrong-type:null-element", subPath(path, fmt.Sprintf("[%d]", i)))
			}
			nv, err := n.field(f.item, e, subPath(path, fmt.Sprintf("[%d]", i)))
			if err != nil {
				return nil, err
			}
			if nv == nil {
				n.skip = true
				nv = &jval{kind: jObj}
			}
			out.elems = append(out.elems, nv)
		}
		return out, nil
	case "map":
		if v.kind != jObj {
			return nil, nfail("wrong-type:map", path)
		}
		if len(v.members) == 0 {
			return nil, nil
		}
		out := &jval{kind: jObj}
		seen := map[string]bool{}
		for _, m := range v.members {
			if seen[m.key] {
				return nil, nfail("dup-key", subPath(path, "{"+m.key+"}"))
			}
			seen[m.key] = true
			if m.val.kind == jNull {
				return nil, nfail("wrong-type:null-map-value", subPath(path, "{"+m.key+"}"))
			}
			nv, err := n.field(f.item, m.val, subPath(path, "{"+m.key+"}"))
			if err != nil {
				return nil, err
			}
			if nv == nil {
				n.skip = true
				nv = &jval{kind: jObj}
			}
			out.members = append(out.members, jmember{key: m.key, keyRaw: string(quoteJSON(m.key)), val: nv})
		}
		out.sortMembers()
		return out, nil
	case "anyj5", "anypb":
		return n.any(f, v, path)
	}
	n.skip = true
	return v, nil
}

func (n *normalizer) any(f *sField, v *jval, path string) (*jval, error) {
	if v.kind != jObj {
		return nil, nfail("wrong-type:any", path)
	}
	var typ, val *jval
	for _, m := range v.members {
		switch m.key {
		case "!type":
			if m.val.kind != jStr {
				return nil, nfail("wrong-type:!type", path)
			}
			typ = m.val
		case "value":
			if val != nil {
				return nil, nfail("dup-key", subPath(path, ".value"))
			}
			val = m.val
		default:
			return nil, nfail("unknown-key", subPath(path, "."+m.key))
		}
	}
	if typ == nil || val == nil {
		return nil, nfail("any-shape", path)
	}
	if f.kind == "anypb" && n.mode != "p" {
		return nil, nfail("any-pb-without-proto", path)
	}
	outVal := opaque(val)
	if n.mode == "p" {
		md, ok := n.ts.byProto[protoFullName(typ.str)]
		if !ok {
			return nil, nfail("any-unknown-type", path)
		}
		ir := n.ts.rootOf(md)
		if ir.broken {
			n.skip = true
			return v, nil
		}
		inner, err := n.root(ir, val, subPath(path, ".value"))
		if err != nil {
			return nil, err
		}
		if f.kind == "anypb" {
			outVal = inner
		}
	}
	return &jval{kind: jObj, members: []jmember{
		{key: "!type", keyRaw: `"!type"`, val: jstr(typ.str)},
		{key: "value", keyRaw: `"value"`, val: outVal},
	}}, nil
}

// sameDoc compares two JSON trees: objects as unordered member sets, strings by decoded value,
// numbers and literals by text. It returns "" when equal, else a short description.
func sameDoc(a, b *jval, path string) string {
	if a.kind != b.kind {
		return fmt.Sprintf("%s: %s vs %s", path, short(a), short(b))
	}
	switch a.kind {
	case jObj:
		if len(a.members) != len(b.members) {
			return fmt.Sprintf("%s: members %v vs %v", path, keysOf(a), keysOf(b))
		}
		for _, m := range a.members {
			o := b.get(m.key)
			if o == nil {
				return fmt.Sprintf("%s: member %q only on one side", path, m.key)
			}
			if d := sameDoc(m.val, o, subPath(path, "."+m.key)); d != "" {
				return d
			}
		}
	case jArr:
		if len(a.elems) != len(b.elems) {
			return fmt.Sprintf("%s: %d vs %d elements", path, len(a.elems), len(b.elems))
		}
		for i := range a.elems {
			if d := sameDoc(a.elems[i], b.elems[i], subPath(path, fmt.Sprintf("[%d]", i))); d != "" {
				return d
			}
		}
	case jStr:
		if a.str != b.str {
			return fmt.Sprintf("%s: %q vs %q", path, a.str, b.str)
		}
	default:
		if a.raw != b.raw {
			return fmt.Sprintf("%s: %s vs %s", path, a.raw, b.raw)
		}
	}
	return ""
}

func short(v *jval) string {
	s := string(v.bytes())
	if len(s) > 60 {
		s = s[:60] + "…"
	}
	return s
}

func keysOf(v *jval) []string {
	var ks []string
	for _, m := range v.members {
		ks = append(ks, m.key)
	}
	return ks
}


// opaque turns a JSON value into a single token carrying its compact text (a j5 Any stores the
// value bytes verbatim, so the comparison is textual, not structural).
func opaque(v *jval) *jval { return &jval{kind: jNum, raw: string(v.bytes())} }

// postEncoded prepares the re-encoded document for comparison with canonDoc's output: the value
// of a j5 Any becomes an opaque token, and the `{}` the encoder writes for an *unset* exposed oneof
// that was inlined from a flattened object is dropped (it denotes absence).
func postEncoded(root *sRoot, v *jval, mode string) {
	if v.kind != jObj || root.broken {
		return
	}
	keep := v.members[:0]
	for _, m := range v.members {
		p := root.prop(m.key)
		if p == nil {
			keep = append(keep, m)
			continue
		}
		if p.isExposedOneof() && m.val.kind == jObj && len(m.val.members) == 0 {
			continue
		}
		postEncodedField(p.field, m.val, mode)
		keep = append(keep, m)
	}
	v.members = keep
}

func postEncodedField(f *sField, v *jval, mode string) {
	switch f.kind {
	case "object", "oneof":
		postEncoded(f.ref(), v, mode)
	case "array":
		for _, e := range v.elems {
			postEncodedField(f.item, e, mode)
		}
	case "map":
		if v.kind == jObj {
			for _, m := range v.members {
				postEncodedField(f.item, m.val, mode)
			}
		}
	case "anyj5":
		if v.kind == jObj {
			for i := range v.members {
				if v.members[i].key == "value" {
					v.members[i].val = opaque(v.members[i].val)
				}
			}
		}
	case "anypb":
		if v.kind == jObj {
			t, val := v.get("!type"), v.get("value")
			if t != nil && val != nil && t.kind == jStr {
				if md, ok := f.ts.byProto[protoFullName(t.str)]; ok {
					postEncoded(f.ts.rootOf(md), val, mode)
				}
			}
		}
	}
}


// isZeroJSON: the canonical spelling nv denotes the proto3 zero value of a scalar field.
func isZeroJSON(f *sField, nv *jval) bool {
	switch f.kind {
	case "string", "key", "bytes":
		return nv.kind == jStr && nv.str == ""
	case "bool":
		return nv.kind == jFalse
	case "int32", "uint32", "float32", "float64":
		return nv.kind == jNum && nv.raw == "0"
	case "int64", "uint64":
		return nv.kind == jStr && nv.str == "0"
	case "enum":
		if e := f.wireEnum(); e != nil && nv.kind == jStr {
			n, ok := e.byShort(nv.str)
			return ok && n == 0
		}
	}
	return false
}

// safeDecimal parses a decimal the way the codec accepts it since /repo 158a5b4: exponents beyond
// ±4096 are rejected (expanding them to plain notation is a denial of service, for the harness too).
func safeDecimal(s string) (decimal.Decimal, error) {
	d, err := decimal.NewFromString(s)
	if err != nil {
		return d, err
	}
	if e := d.Exponent(); e > 4096 || e < -4096 {
		return d, fmt.Errorf("decimal exponent out of range")
	}
	return d, nil
}
