//go:build verif

package main

import (
	"bytes"
	"fmt"
	"os"
	"runtime/debug"
	"strings"
	"sync"
	"time"

	"github.com/iancoleman/strcase"
	"github.com/pentops/j5/internal/verifh/vh"
	"google.golang.org/protobuf/reflect/protoreflect"
)

type impl struct {
	stream string
	envMu  sync.Mutex
	envs   map[string]string
}

func main() {
	stream := os.Getenv("CODEC_STREAM")
	if stream == "" {
		stream = "codec.enc"
	}
	debug.SetMaxStack(256 << 20)
	startWatchdog(60 * time.Second)
	startMemWatchdog(memLimitFor(stream)) // querypath.go
	vh.Main(stream, &impl{stream: stream, envs: map[string]string{}})
}

func (im *impl) Gen(h *vh.H, i int) string {
	switch im.stream {
	case "codec.enc":
		return im.genEnc(h, i)
	case "codec.dec":
		return im.genDec(h, i)
	case "codec.query":
		return im.genQuery(h, i)
	case "codec.fuzz":
		return im.genFuzz(h, i)
	case "codec.stress":
		return im.genStress(h, i)
	case "codec.history":
		return im.genHistory(h, i) // history.go
	case "codec.corpus":
		return im.genCorpus(h, i)
	}
	return ""
}

// ---- targets

var staticFavourites = []string{"test.schema.v1.FullSchema", "test.schema.v1.FullSchema", "test.schema.v1.FullSchema", "test.schema.v1.WrappedOneof", "test.schema.v1.NestedExposed",
	"test.schema.v1.ImplicitOneof", "test.schema.v1.Bar", "test.foo.v1.FooState", "test.foo.v1.FooEvent", "test.foo.v1.FooEventType", "test.schema.v1.FlattenedMessage"}

func poolSize(h *vh.H) int {
	if h.Tier == "thorough" {
		return 400
	}
	return 48
}

func (im *impl) pickTarget(h *vh.H) (*typeSet, protoreflect.MessageDescriptor) {
	for try := 0; try < 20; try++ {
		var ts *typeSet
		var err error
		switch x := h.Rng.IntN(20); {
		case x < 4:
			ts = getStaticSet()
			name := staticFavourites[h.Rng.IntN(len(staticFavourites))]
			if md, ok := ts.byRoot[name]; ok {
				return ts, md
			}
			continue
		case x < 7:
			ts, err = getGenSet(0)
			if err == nil {
				switch h.Rng.IntN(6) {
				case 0, 1, 2:
					return ts, ts.byRoot["g0.v1.All"]
				case 3:
					return ts, ts.byRoot["g0.v1.Chain"] // flattened objects seven deep
				case 4:
					return ts, ts.byRoot["g0.v1.Flat"] // Flat -> Flat2 -> Flat3
				}
			}
		case x < 9:
			ts, err = getGenSet(1)
		default:
			seed := 2 + (h.Seed%1000)*1000 + uint64(h.Rng.IntN(poolSize(h)))
			ts, err = getGenSet(seed)
		}
		if err != nil {
			h.Count("gen.descriptor-link-error")
			if os.Getenv("VERIF_PANIC_TRACE") != "" {
				fmt.Fprintln(os.Stderr, err)
			}
			continue
		}
		name := ts.roots[h.Rng.IntN(len(ts.roots))]
		return ts, ts.byRoot[name]
	}
	ts := getStaticSet()
	return ts, ts.byRoot["test.schema.v1.Bar"]
}

// envFor dumps the env of a root (cached). When an Any is reachable every message type of the
// set is resolvable, because Any values may name any of them.
func (im *impl) envFor(ts *typeSet, md protoreflect.MessageDescriptor) string {
	key := ts.id + "/" + string(md.FullName())
	im.envMu.Lock()
	defer im.envMu.Unlock()
	if e, ok := im.envs[key]; ok {
		return e
	}
	eb := newEnvBuilder(ts)
	eb.addRoot(md)
	if strings.Contains(eb.String(), "(any ") {
		for _, n := range ts.roots {
			eb.addResolvable(ts.byRoot[n])
		}
	}
	e := eb.String()
	if len(im.envs) > 4000 {
		im.envs = map[string]string{}
	}
	im.envs[key] = e
	return e
}

func (im *impl) newGen(h *vh.H, ts *typeSet, repr bool) *mgen {
	g := &mgen{r: h.Rng, ts: ts, repr: repr, maxDepth: 3, budget: 40}
	if h.Tier == "thorough" {
		g.maxDepth = 6
		g.budget = 120
	}
	if h.Rng.IntN(6) == 0 {
		g.budget = 8
	}
	return g
}

func pickMode(h *vh.H) string {
	if h.Rng.IntN(2) == 0 {
		return "p"
	}
	return "n"
}

// ---- codec.enc

var badClasses = []string{"float", "date", "ts", "utf8", "enum", "decimal", "any"}

func (im *impl) genEnc(h *vh.H, i int) string {
	ts, md := im.pickTarget(h)
	repr := h.Rng.IntN(100) < 82
	g := im.newGen(h, ts, repr)
	if !repr {
		// one class of non-representable value per message keeps failure signatures narrow
		g.badKinds = map[string]bool{badClasses[h.Rng.IntN(len(badClasses))]: true}
		g.smallMap = true
	}
	m := g.message(md, 0)
	mode := pickMode(h)
	if hasPbAny(m) && h.Rng.IntN(4) != 0 {
		mode = "p"
	}
	line := "enc " + mode + " " + im.envFor(ts, md) + " " + j5Name(md) + " " + dumpMsgIn(ts, m)
	if strings.Contains(line, "(any j5 ") && h.Rng.IntN(3) == 0 {
		// the harness stores the unpopulated bytes fields of every j5 Any as empty non-nil slices
		h.Count("gen.enc.emptybytes")
		line += " (meta emptybytes)"
	}
	return line
}

// ---- codec.dec

func (im *impl) canonicalDoc(h *vh.H) (ts *typeSet, md protoreflect.MessageDescriptor, mode string, out []byte, doc *jval, ok bool) {
	ts, md = im.pickTarget(h)
	g := im.newGen(h, ts, true)
	m := g.message(md, 0)
	mode = pickMode(h)
	if hasPbAny(m) {
		mode = "p"
	}
	out, err := safeEncode(ts, mode, m)
	if err != nil {
		h.Count("gen.canonical-encode-failed")
		return
	}
	doc, perr := parseStrict(out)
	if perr != nil {
		h.Count("gen.canonical-unparseable")
		return
	}
	return ts, md, mode, out, doc, true
}

func (im *impl) genDec(h *vh.H, i int) string {
	ts, md, mode, out, doc, ok := im.canonicalDoc(h)
	if !ok {
		return ""
	}
	root := ts.rootOf(md)
	if root.broken {
		return ""
	}
	head := func(b []byte) string {
		return "dec " + mode + " " + im.envFor(ts, md) + " " + j5Name(md) + " " + vh.Hex(b) + " " + oraForDoc(b).String()
	}
	switch i % 8 {
	case 0:
		h.Count("gen.dec.canonical")
		return head(out) + " (meta canon)"
	case 1, 2, 3:
		var kinds []string
		if h.Rng.IntN(2) == 0 {
			kinds = []string{varKinds[h.Rng.IntN(len(varKinds))]}
		} else {
			for _, k := range varKinds {
				if h.Rng.IntN(2) == 0 {
					kinds = append(kinds, k)
				}
			}
		}
		b, labels := applyVariations(h.Rng, root, doc, kinds)
		if len(labels) == 0 {
			h.Count("gen.dec.canonical")
			return head(out) + " (meta canon)"
		}
		h.Count("gen.dec.variation")
		for _, l := range labels {
			h.Count("gen.var." + l)
		}
		return head(b) + " (meta var " + vh.Hex(out) + " " + strings.Join(labels, "+") + ")"
	default:
		class, kind, pos, ok := injectFault(h.Rng, root, doc)
		if !ok {
			return head(out) + " (meta canon)"
		}
		var b []byte
		if h.Rng.IntN(2) == 0 {
			b, _ = applyVariations(h.Rng, root, doc, []string{"ws"})
		} else {
			b = doc.bytes()
		}
		h.Count("gen.dec.fault")
		return head(b) + fmt.Sprintf(" (meta fault %s %s %s)", class, kind, pos)
	}
}

// ---- codec.query

type qleaf struct {
	segs  []string // JSON names
	field *sField
	val   *jval
}

// collectLeaves walks a canonical document and lists the members reachable through object /
// oneof properties only (what a dotted query path can address).
func collectLeaves(root *sRoot, doc *jval, prefix []string, out *[]qleaf, depth int) {
	if doc.kind != jObj || depth > 6 {
		return
	}
	for _, m := range doc.members {
		if m.key == "!type" && root.isOneof {
			continue
		}
		p := root.prop(m.key)
		if p == nil {
			continue
		}
		segs := append(append([]string{}, prefix...), m.key)
		switch p.field.kind {
		case "object", "oneof":
			*out = append(*out, qleaf{segs, p.field, m.val})
			collectLeaves(p.field.ref(), m.val, segs, out, depth+1)
		default:
			*out = append(*out, qleaf{segs, p.field, m.val})
		}
	}
}

func scalarText(v *jval) (string, bool) {
	switch v.kind {
	case jStr:
		return v.str, true
	case jNum, jTrue, jFalse:
		return v.raw, true
	}
	return "", false
}

func respellSeg(h *vh.H, s string) string {
	switch h.Rng.IntN(3) {
	case 0:
		sn := strcase.ToSnake(s)
		if strcase.ToLowerCamel(sn) == s {
			return sn
		}
	}
	return s
}

func nestDoc(segs []string, v *jval) *jval {
	cur := v
	for i := len(segs) - 1; i >= 0; i-- {
		cur = &jval{kind: jObj, members: []jmember{{key: segs[i], keyRaw: string(quoteJSON(segs[i])), val: cur}}}
	}
	return cur
}

func qline(mode, env, root string, keys [][]string, ora *oraSet, meta string) string {
	var b strings.Builder
	b.WriteString("query " + mode + " " + env + " " + root + " (q")
	for _, kv := range keys {
		b.WriteString(" (" + vh.Hex([]byte(kv[0])))
		for _, v := range kv[1:] {
			b.WriteString(" " + vh.Hex([]byte(v)))
			ora.addStr(v)
		}
		b.WriteString(")")
	}
	b.WriteString(") " + ora.String())
	if meta != "" {
		b.WriteString(" " + meta)
	}
	return b.String()
}

func (im *impl) genQuery(h *vh.H, i int) string {
	ts, md, mode, _, doc, ok := im.canonicalDoc(h)
	if !ok {
		return ""
	}
	root := ts.rootOf(md)
	if root.broken {
		return ""
	}
	var leaves []qleaf
	collectLeaves(root, doc, nil, &leaves, 0)
	env, rname := im.envFor(ts, md), j5Name(md)
	if len(leaves) == 0 {
		return qline(mode, env, rname, nil, newOra(), "")
	}
	key := func(l qleaf) string {
		segs := make([]string, len(l.segs))
		for k, s := range l.segs {
			segs[k] = respellSeg(h, s)
		}
		return strings.Join(segs, ".")
	}
	switch i % 6 {
	case 0, 1, 2: // one scalar parameter, with the equivalent document as expectation
		var sc []qleaf
		for _, l := range leaves {
			if l.field.isScalar() {
				if _, ok := scalarText(l.val); ok {
					sc = append(sc, l)
				}
			}
		}
		if len(sc) == 0 {
			break
		}
		l := sc[h.Rng.IntN(len(sc))]
		txt, _ := scalarText(l.val)
		qd := nestDoc(l.segs, l.val).bytes()
		h.Count("gen.query.scalar." + l.field.kind)
		return qline(mode, env, rname, [][]string{{key(l), txt}}, newOra(), "(meta qdoc "+l.field.kind+" "+vh.Hex(qd)+")")
	case 3: // array of scalars: repeated values
		var ar []qleaf
		for _, l := range leaves {
			if l.field.kind == "array" && l.field.item.isScalar() && l.val.kind == jArr {
				ar = append(ar, l)
			}
		}
		if len(ar) == 0 {
			break
		}
		l := ar[h.Rng.IntN(len(ar))]
		kv := []string{key(l)}
		for _, e := range l.val.elems {
			if t, ok := scalarText(e); ok {
				kv = append(kv, t)
			}
		}
		qd := nestDoc(l.segs, l.val).bytes()
		h.Count("gen.query.array." + l.field.item.kind)
		return qline(mode, env, rname, [][]string{kv}, newOra(), "(meta qdoc array-"+l.field.item.kind+" "+vh.Hex(qd)+")")
	case 4: // container given as JSON text
		var cs []qleaf
		for _, l := range leaves {
			if (l.field.kind == "object" || l.field.kind == "oneof") && l.val.kind == jObj {
				cs = append(cs, l)
			}
		}
		if len(cs) == 0 {
			break
		}
		l := cs[h.Rng.IntN(len(cs))]
		txt := string(l.val.bytes())
		if h.Rng.IntN(3) == 0 {
			txt = " " + txt + "\n"
		}
		o := oraForDoc(l.val.bytes())
		qd := nestDoc(l.segs, l.val).bytes()
		h.Count("gen.query.container." + l.field.kind)
		return qline(mode, env, rname, [][]string{{key(l), txt}}, o, "(meta qdoc container-"+l.field.kind+" "+vh.Hex(qd)+")")
	}
	// several independent scalar parameters (different first segments, different proto oneofs)
	var keys [][]string
	usedSeg := map[string]bool{}
	usedOneof := map[string]bool{}
	merged := &jval{kind: jObj}
	for _, k := range h.Rng.Perm(len(leaves)) {
		l := leaves[k]
		if !l.field.isScalar() || len(l.segs) != 1 || usedSeg[l.segs[0]] {
			continue
		}
		p := root.prop(l.segs[0])
		if p == nil {
			continue
		}
		if p.oneof != nil {
			if usedOneof[string(p.oneof.FullName())] {
				continue
			}
			usedOneof[string(p.oneof.FullName())] = true
		}
		txt, ok := scalarText(l.val)
		if !ok {
			continue
		}
		usedSeg[l.segs[0]] = true
		keys = append(keys, []string{key(l), txt})
		merged.members = append(merged.members, jmember{key: l.segs[0], keyRaw: string(quoteJSON(l.segs[0])), val: l.val})
		if len(keys) >= 1+h.Rng.IntN(4) {
			break
		}
	}
	if root.isOneof && len(keys) > 1 {
		keys = keys[:1]
		merged.members = merged.members[:1]
	}
	h.Count("gen.query.multi")
	meta := ""
	if len(keys) > 0 {
		meta = "(meta qdoc multi " + vh.Hex(merged.bytes()) + ")"
	}
	return qline(mode, env, rname, keys, newOra(), meta)
}

var _ = bytes.Equal
