//go:build verif

package main

import (
	"fmt"
	"math"
	"sort"
	"strconv"
	"strings"
	"time"

	"github.com/pentops/j5/internal/verifh/vh"
	"google.golang.org/protobuf/proto"
	"google.golang.org/protobuf/reflect/protoreflect"
)

// emptyBytesNonNil: while parsing the message of an enc op carrying (meta emptybytes), the
// unpopulated bytes fields of a j5 Any are stored as empty non-nil slices instead of being left
// unset. The op text, and therefore the model's answer, is the same either way.
var emptyBytesNonNil bool

const (
	fnTimestamp = "google.protobuf.Timestamp"
	fnDate      = "j5.types.date.v1.Date"
	fnDecimal   = "j5.types.decimal.v1.Decimal"
	fnAnyJ5     = "j5.types.any.v1.Any"
	fnAnyPb     = "google.protobuf.Any"
	anyPrefix   = "type.googleapis.com/"
)

func sortedFields(m protoreflect.Message) []protoreflect.FieldDescriptor {
	var fds []protoreflect.FieldDescriptor
	m.Range(func(fd protoreflect.FieldDescriptor, _ protoreflect.Value) bool {
		fds = append(fds, fd)
		return true
	})
	sort.Slice(fds, func(i, j int) bool { return fds[i].Number() < fds[j].Number() })
	return fds
}

func getInt(m protoreflect.Message, name string) int64 {
	fd := m.Descriptor().Fields().ByName(protoreflect.Name(name))
	if fd == nil {
		return 0
	}
	return m.Get(fd).Int()
}

func getStr(m protoreflect.Message, name string) string {
	fd := m.Descriptor().Fields().ByName(protoreflect.Name(name))
	if fd == nil {
		return ""
	}
	return m.Get(fd).String()
}

func getBytes(m protoreflect.Message, name string) []byte {
	fd := m.Descriptor().Fields().ByName(protoreflect.Name(name))
	if fd == nil {
		return nil
	}
	return m.Get(fd).Bytes()
}

func tsText(secs, nanos int64) string {
	return time.Unix(secs, nanos).In(time.UTC).Format(time.RFC3339Nano)
}

// dumper writes MSG (in=true: with oracle texts and INNER) or MSGOUT (in=false).
type dumper struct {
	ts *typeSet
	in bool
}

func (d dumper) msg(b *sb, m protoreflect.Message) {
	b.open("msg")
	for _, fd := range sortedFields(m) {
		b.sp()
		b.open(strconv.Itoa(int(fd.Number())))
		b.sp()
		v := m.Get(fd)
		switch {
		case fd.IsMap():
			b.open("map")
			mv := v.Map()
			var keys []string
			mv.Range(func(k protoreflect.MapKey, _ protoreflect.Value) bool {
				keys = append(keys, k.String())
				return true
			})
			sort.Strings(keys)
			for _, k := range keys {
				b.sp()
				b.open(vh.Hex([]byte(k)))
				b.sp()
				d.single(b, fd.MapValue(), mv.Get(protoreflect.ValueOfString(k).MapKey()))
				b.close()
			}
			b.close()
		case fd.IsList():
			b.open("list")
			lv := v.List()
			for i := 0; i < lv.Len(); i++ {
				b.sp()
				d.single(b, fd, lv.Get(i))
			}
			b.close()
		default:
			d.single(b, fd, v)
		}
		b.close()
	}
	b.close()
}

func (d dumper) inner(b *sb, typeName string, data []byte, given bool) {
	if !given {
		b.atom("none")
		return
	}
	md, ok := d.ts.byProto[protoreflect.FullName(typeName)]
	if !ok {
		b.atom("none")
		return
	}
	im := d.ts.newMessage(md)
	if err := proto.Unmarshal(data, im.Interface()); err != nil {
		b.atom("bad")
		return
	}
	b.sp()
	b.open("in")
	b.atom(j5Name(md))
	b.sp()
	d.msg(b, im)
	b.close()
}

func (d dumper) single(b *sb, fd protoreflect.FieldDescriptor, v protoreflect.Value) {
	switch fd.Kind() {
	case protoreflect.BoolKind:
		if v.Bool() {
			b.raw("(b 1)")
		} else {
			b.raw("(b 0)")
		}
	case protoreflect.Int32Kind, protoreflect.Sint32Kind, protoreflect.Int64Kind, protoreflect.Sint64Kind, protoreflect.Sfixed32Kind, protoreflect.Sfixed64Kind:
		b.raw("(i " + strconv.FormatInt(v.Int(), 10) + ")")
	case protoreflect.Uint32Kind, protoreflect.Uint64Kind, protoreflect.Fixed32Kind, protoreflect.Fixed64Kind:
		b.raw("(u " + strconv.FormatUint(v.Uint(), 10) + ")")
	case protoreflect.FloatKind:
		f := float32(v.Float())
		b.raw(fmt.Sprintf("(f32 %08x", math.Float32bits(f)))
		if d.in {
			b.atom(vh.Hex([]byte(strconv.FormatFloat(float64(f), 'g', -1, 32))))
		}
		b.close()
	case protoreflect.DoubleKind:
		f := v.Float()
		b.raw(fmt.Sprintf("(f64 %016x", math.Float64bits(f)))
		if d.in {
			b.atom(vh.Hex([]byte(strconv.FormatFloat(f, 'g', -1, 64))))
		}
		b.close()
	case protoreflect.StringKind:
		b.raw("(s " + vh.Hex([]byte(v.String())) + ")")
	case protoreflect.BytesKind:
		b.raw("(y " + vh.Hex(v.Bytes()) + ")")
	case protoreflect.EnumKind:
		b.raw("(e " + strconv.Itoa(int(v.Enum())) + ")")
	case protoreflect.MessageKind, protoreflect.GroupKind:
		m := v.Message()
		switch m.Descriptor().FullName() {
		case fnTimestamp:
			s, n := getInt(m, "seconds"), getInt(m, "nanos")
			b.raw(fmt.Sprintf("(ts %d %d", s, n))
			if d.in {
				b.atom(vh.Hex([]byte(tsText(s, n))))
			}
			b.close()
		case fnDate:
			b.raw(fmt.Sprintf("(date %d %d %d)", getInt(m, "year"), getInt(m, "month"), getInt(m, "day")))
		case fnDecimal:
			b.raw("(dec " + vh.Hex([]byte(getStr(m, "value"))) + ")")
		case fnAnyJ5:
			tn, pb, js := getStr(m, "type_name"), getBytes(m, "proto"), getBytes(m, "j5_json")
			b.raw("(any j5 " + vh.Hex([]byte(tn)))
			if d.in {
				b.atom(vh.Hex(pb))
			}
			b.atom(vh.Hex(js))
			d.inner(b, tn, pb, len(pb) > 0)
			b.close()
		case fnAnyPb:
			tu, val := getStr(m, "type_url"), getBytes(m, "value")
			b.raw("(any pb " + vh.Hex([]byte(tu)))
			if d.in {
				b.atom(vh.Hex(val))
				d.inner(b, strings.TrimPrefix(tu, anyPrefix), val, true)
			} else {
				d.inner(b, strings.TrimPrefix(tu, anyPrefix), val, len(val) > 0)
			}
			b.close()
		default:
			d.msg(b, m)
		}
	default:
		b.raw("(unknown)")
	}
}

func dumpMsgIn(ts *typeSet, m protoreflect.Message) string {
	var b sb
	dumper{ts, true}.msg(&b, m)
	return b.String()
}

func dumpMsgOut(ts *typeSet, m protoreflect.Message) string {
	var b sb
	dumper{ts, false}.msg(&b, m)
	return b.String()
}

// ---- parsing MSG back into a message (replay of enc ops)

func parseMsg(ts *typeSet, md protoreflect.MessageDescriptor, n *node) (protoreflect.Message, error) {
	m := ts.newMessage(md)
	if n.head() != "msg" {
		return nil, fmt.Errorf("expected (msg …)")
	}
	for _, f := range n.args() {
		if !f.isL || len(f.list) != 2 || f.list[0].isL {
			return nil, fmt.Errorf("bad field entry")
		}
		num, err := strconv.Atoi(f.list[0].atom)
		if err != nil {
			return nil, err
		}
		fd := md.Fields().ByNumber(protoreflect.FieldNumber(num))
		if fd == nil {
			return nil, fmt.Errorf("no field %d in %s", num, md.FullName())
		}
		pv := f.list[1]
		switch {
		case fd.IsMap():
			if pv.head() != "map" {
				return nil, fmt.Errorf("expected map")
			}
			mv := m.Mutable(fd).Map()
			for _, e := range pv.args() {
				if !e.isL || len(e.list) != 2 {
					return nil, fmt.Errorf("bad map entry")
				}
				kb, ok := vh.UnHex(e.list[0].atom)
				if !ok {
					return nil, fmt.Errorf("bad key hex")
				}
				v, err := parseSingle(ts, fd.MapValue(), e.list[1], func() protoreflect.Value { return mv.NewValue() })
				if err != nil {
					return nil, err
				}
				mv.Set(protoreflect.ValueOfString(string(kb)).MapKey(), v)
			}
		case fd.IsList():
			if pv.head() != "list" {
				return nil, fmt.Errorf("expected list")
			}
			lv := m.Mutable(fd).List()
			for _, e := range pv.args() {
				v, err := parseSingle(ts, fd, e, func() protoreflect.Value { return lv.NewElement() })
				if err != nil {
					return nil, err
				}
				lv.Append(v)
			}
		default:
			v, err := parseSingle(ts, fd, pv, func() protoreflect.Value { return m.NewField(fd) })
			if err != nil {
				return nil, err
			}
			m.Set(fd, v)
		}
	}
	return m, nil
}

func setByName(m protoreflect.Message, name string, v protoreflect.Value) {
	fd := m.Descriptor().Fields().ByName(protoreflect.Name(name))
	if fd != nil {
		m.Set(fd, v)
	}
}

func atomInt(n *node) (int64, error) { return strconv.ParseInt(n.atom, 10, 64) }

func parseSingle(ts *typeSet, fd protoreflect.FieldDescriptor, n *node, newVal func() protoreflect.Value) (protoreflect.Value, error) {
	a := n.args()
	bad := func() (protoreflect.Value, error) {
		return protoreflect.Value{}, fmt.Errorf("bad value for %s (%s)", fd.FullName(), n.head())
	}
	switch fd.Kind() {
	case protoreflect.BoolKind:
		if n.head() != "b" || len(a) != 1 {
			return bad()
		}
		return protoreflect.ValueOfBool(a[0].atom == "1"), nil
	case protoreflect.Int32Kind, protoreflect.Sint32Kind:
		if n.head() != "i" || len(a) != 1 {
			return bad()
		}
		v, err := atomInt(a[0])
		return protoreflect.ValueOfInt32(int32(v)), err
	case protoreflect.Int64Kind, protoreflect.Sint64Kind:
		if n.head() != "i" || len(a) != 1 {
			return bad()
		}
		v, err := atomInt(a[0])
		return protoreflect.ValueOfInt64(v), err
	case protoreflect.Uint32Kind:
		if n.head() != "u" || len(a) != 1 {
			return bad()
		}
		v, err := strconv.ParseUint(a[0].atom, 10, 32)
		return protoreflect.ValueOfUint32(uint32(v)), err
	case protoreflect.Uint64Kind:
		if n.head() != "u" || len(a) != 1 {
			return bad()
		}
		v, err := strconv.ParseUint(a[0].atom, 10, 64)
		return protoreflect.ValueOfUint64(v), err
	case protoreflect.FloatKind:
		if n.head() != "f32" || len(a) < 1 {
			return bad()
		}
		v, err := strconv.ParseUint(a[0].atom, 16, 32)
		return protoreflect.ValueOfFloat32(math.Float32frombits(uint32(v))), err
	case protoreflect.DoubleKind:
		if n.head() != "f64" || len(a) < 1 {
			return bad()
		}
		v, err := strconv.ParseUint(a[0].atom, 16, 64)
		return protoreflect.ValueOfFloat64(math.Float64frombits(v)), err
	case protoreflect.StringKind:
		if n.head() != "s" || len(a) != 1 {
			return bad()
		}
		bs, ok := vh.UnHex(a[0].atom)
		if !ok {
			return bad()
		}
		return protoreflect.ValueOfString(string(bs)), nil
	case protoreflect.BytesKind:
		if n.head() != "y" || len(a) != 1 {
			return bad()
		}
		bs, ok := vh.UnHex(a[0].atom)
		if !ok {
			return bad()
		}
		return protoreflect.ValueOfBytes(bs), nil
	case protoreflect.EnumKind:
		if n.head() != "e" || len(a) != 1 {
			return bad()
		}
		v, err := atomInt(a[0])
		return protoreflect.ValueOfEnum(protoreflect.EnumNumber(v)), err
	case protoreflect.MessageKind:
		val := newVal()
		m := val.Message()
		hexArg := func(i int) []byte {
			if i >= len(a) {
				return nil
			}
			bs, _ := vh.UnHex(a[i].atom)
			if len(bs) == 0 {
				return nil
			}
			return bs
		}
		switch fd.Message().FullName() {
		case fnTimestamp:
			if n.head() != "ts" || len(a) < 2 {
				return bad()
			}
			s, _ := atomInt(a[0])
			ns, _ := atomInt(a[1])
			if s != 0 {
				setByName(m, "seconds", protoreflect.ValueOfInt64(s))
			}
			if ns != 0 {
				setByName(m, "nanos", protoreflect.ValueOfInt32(int32(ns)))
			}
		case fnDate:
			if n.head() != "date" || len(a) != 3 {
				return bad()
			}
			for i, nm := range []string{"year", "month", "day"} {
				x, _ := atomInt(a[i])
				if x != 0 {
					setByName(m, nm, protoreflect.ValueOfInt32(int32(x)))
				}
			}
		case fnDecimal:
			if n.head() != "dec" || len(a) != 1 {
				return bad()
			}
			if bs := hexArg(0); bs != nil {
				setByName(m, "value", protoreflect.ValueOfString(string(bs)))
			}
		case fnAnyJ5:
			if n.head() != "any" || len(a) < 4 || a[0].atom != "j5" {
				return bad()
			}
			if bs := hexArg(1); bs != nil {
				setByName(m, "type_name", protoreflect.ValueOfString(string(bs)))
			}
			if bs := hexArg(2); bs != nil {
				setByName(m, "proto", protoreflect.ValueOfBytes(bs))
			} else if emptyBytesNonNil {
				setByName(m, "proto", protoreflect.ValueOfBytes([]byte{}))
			}
			if bs := hexArg(3); bs != nil {
				setByName(m, "j5_json", protoreflect.ValueOfBytes(bs))
			} else if emptyBytesNonNil {
				// same message as far as protobuf is concerned (the field is not populated), but the
				// stored slice is empty and non-nil: an encoder reading it without Has() must not
				// treat it as content
				setByName(m, "j5_json", protoreflect.ValueOfBytes([]byte{}))
			}
		case fnAnyPb:
			if n.head() != "any" || len(a) < 3 || a[0].atom != "pb" {
				return bad()
			}
			if bs := hexArg(1); bs != nil {
				setByName(m, "type_url", protoreflect.ValueOfString(string(bs)))
			}
			if bs := hexArg(2); bs != nil {
				setByName(m, "value", protoreflect.ValueOfBytes(bs))
			}
		default:
			pm, err := parseMsg(ts, fd.Message(), n)
			if err != nil {
				return protoreflect.Value{}, err
			}
			return protoreflect.ValueOfMessage(pm), nil
		}
		return val, nil
	}
	return bad()
}
