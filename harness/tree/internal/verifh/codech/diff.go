//go:build verif

package main

import (
	"bytes"
	"fmt"
	"math"
	"strings"

	"google.golang.org/protobuf/proto"
	"google.golang.org/protobuf/reflect/protoreflect"
)

// diffMsg is the C01 equality: proto equality with (i) decimals compared numerically, (ii) an
// empty flattened sub-object treated as absent, (iii) Any values compared by type name and the
// message they carry (proto.Marshal is not canonical and a decoded Any may gain/lose one of its
// two encodings). Returns nil when equal.

type msgDiff struct {
	kind string
	path string
	what string
}

type differ struct {
	ts *typeSet
	d  *msgDiff
}

func (x *differ) report(kind, path, format string, args ...any) {
	if x.d == nil {
		x.d = &msgDiff{kind, path, fmt.Sprintf(format, args...)}
	}
}

func diffMsg(ts *typeSet, root *sRoot, a, b protoreflect.Message) *msgDiff {
	x := &differ{ts: ts}
	x.msg(root, a, b, "$")
	return x.d
}

// flattenedFields: proto fields of md (by number) that hold a flattened object.
func flattenedPaths(root *sRoot) map[protoreflect.FullName]bool {
	out := map[protoreflect.FullName]bool{}
	if root == nil {
		return out
	}
	for _, p := range root.props {
		for i := 0; i+1 < len(p.path); i++ {
			out[p.path[i].FullName()] = true
		}
		// exposed oneof inlined from a flattened object: its "final" field is the flattened message itself
		if len(p.path) > 0 && p.isExposedOneof() {
			out[p.final().FullName()] = true
		}
	}
	return out
}

func emptyMsg(m protoreflect.Message) bool {
	empty := true
	m.Range(func(protoreflect.FieldDescriptor, protoreflect.Value) bool { empty = false; return false })
	return empty
}

// rootOfField gives the schema root that describes sub-messages stored in fd (nil if unknown).
func (x *differ) rootOfMessage(md protoreflect.MessageDescriptor) *sRoot {
	r := x.ts.rootOf(md)
	if r.broken {
		return nil
	}
	return r
}

func (x *differ) msg(root *sRoot, a, b protoreflect.Message, path string) {
	if x.d != nil {
		return
	}
	flat := flattenedPaths(root)
	fds := a.Descriptor().Fields()
	for i := 0; i < fds.Len(); i++ {
		fd := fds.Get(i)
		ha, hb := a.Has(fd), b.Has(fd)
		p := subPath(path, "."+string(fd.Name()))
		if flat[fd.FullName()] {
			// empty flattened sub-object == absent
			if ha && emptyDeepFlat(x, a.Get(fd).Message()) {
				ha = false
			}
			if hb && emptyDeepFlat(x, b.Get(fd).Message()) {
				hb = false
			}
			if !ha && !hb {
				continue
			}
		}
		if ha != hb {
			x.report(kindOfFd(fd), p, "presence %v -> %v", ha, hb)
			return
		}
		if !ha {
			continue
		}
		va, vb := a.Get(fd), b.Get(fd)
		switch {
		case fd.IsMap():
			ma, mb := va.Map(), vb.Map()
			if ma.Len() != mb.Len() {
				x.report(kindOfFd(fd.MapValue()), p, "map size %d -> %d", ma.Len(), mb.Len())
				return
			}
			ma.Range(func(k protoreflect.MapKey, v protoreflect.Value) bool {
				if !mb.Has(k) {
					x.report(kindOfFd(fd.MapValue()), p, "key %q lost", k.String())
					return false
				}
				x.single(fd.MapValue(), v, mb.Get(k), p+"{"+k.String()+"}")
				return x.d == nil
			})
		case fd.IsList():
			la, lb := va.List(), vb.List()
			if la.Len() != lb.Len() {
				x.report(kindOfFd(fd), p, "list length %d -> %d", la.Len(), lb.Len())
				return
			}
			for k := 0; k < la.Len(); k++ {
				x.single(fd, la.Get(k), lb.Get(k), subPath(p, fmt.Sprintf("[%d]", k)))
			}
		default:
			x.single(fd, va, vb, p)
		}
		if x.d != nil {
			return
		}
	}
}

// emptyDeepFlat: a flattened object is "empty" when it has no populated field, or only
// (recursively) empty flattened children.
func emptyDeepFlat(x *differ, m protoreflect.Message) bool {
	if emptyMsg(m) {
		return true
	}
	r := x.rootOfMessage(m.Descriptor())
	flat := flattenedPaths(r)
	ok := true
	m.Range(func(fd protoreflect.FieldDescriptor, v protoreflect.Value) bool {
		if flat[fd.FullName()] && !fd.IsList() && !fd.IsMap() && emptyDeepFlat(x, v.Message()) {
			return true
		}
		ok = false
		return false
	})
	return ok
}

func kindOfFd(fd protoreflect.FieldDescriptor) string {
	if fd.Kind() == protoreflect.MessageKind {
		switch fd.Message().FullName() {
		case fnTimestamp:
			return "timestamp"
		case fnDate:
			return "date"
		case fnDecimal:
			return "decimal"
		case fnAnyJ5:
			return "anyj5"
		case fnAnyPb:
			return "anypb"
		}
		return "object"
	}
	return fd.Kind().String()
}

func (x *differ) single(fd protoreflect.FieldDescriptor, va, vb protoreflect.Value, path string) {
	if x.d != nil {
		return
	}
	switch fd.Kind() {
	case protoreflect.FloatKind, protoreflect.DoubleKind:
		if math.Float64bits(va.Float()) != math.Float64bits(vb.Float()) {
			x.report(kindOfFd(fd), path, "%v -> %v", va.Float(), vb.Float())
		}
	case protoreflect.BytesKind:
		if !bytes.Equal(va.Bytes(), vb.Bytes()) {
			x.report("bytes", path, "%x -> %x", va.Bytes(), vb.Bytes())
		}
	case protoreflect.MessageKind:
		ma, mb := va.Message(), vb.Message()
		switch fd.Message().FullName() {
		case fnDecimal:
			da, ea := safeDecimal(getStr(ma, "value"))
			db, eb := safeDecimal(getStr(mb, "value"))
			if ea != nil || eb != nil || !da.Equal(db) {
				x.report("decimal", path, "%q -> %q", getStr(ma, "value"), getStr(mb, "value"))
			}
		case fnTimestamp, fnDate:
			if !proto.Equal(ma.Interface(), mb.Interface()) {
				x.report(kindOfFd(fd), path, "%v -> %v", ma.Interface(), mb.Interface())
			}
		case fnAnyJ5, fnAnyPb:
			x.any(fd, ma, mb, path)
		default:
			r := x.rootOfMessage(ma.Descriptor())
			x.msg(r, ma, mb, path)
		}
	default:
		if !va.Equal(vb) {
			x.report(kindOfFd(fd), path, "%v -> %v", va.Interface(), vb.Interface())
		}
	}
}

func (x *differ) anyInner(m protoreflect.Message) (string, protoreflect.Message, string) {
	var tn string
	var pb, js []byte
	if m.Descriptor().FullName() == fnAnyJ5 {
		tn, pb, js = getStr(m, "type_name"), getBytes(m, "proto"), getBytes(m, "j5_json")
	} else {
		tn, pb = strings.TrimPrefix(getStr(m, "type_url"), anyPrefix), getBytes(m, "value")
	}
	md, ok := x.ts.byProto[protoreflect.FullName(tn)]
	if !ok {
		return tn, nil, "unknown type"
	}
	im := x.ts.newMessage(md)
	if len(pb) > 0 || len(js) == 0 {
		if err := proto.Unmarshal(pb, im.Interface()); err != nil {
			return tn, nil, "bad proto bytes"
		}
		return tn, im, ""
	}
	r := call("any-inner", func() error { return x.ts.codec("p").JSONToProto(js, im) })
	if r.panicked || r.err != nil {
		return tn, nil, "j5_json not decodable"
	}
	return tn, im, ""
}

func (x *differ) any(fd protoreflect.FieldDescriptor, a, b protoreflect.Message, path string) {
	ta, ia, ea := x.anyInner(a)
	tb, ib, eb := x.anyInner(b)
	if ta != tb {
		x.report(kindOfFd(fd), path, "type %q -> %q", ta, tb)
		return
	}
	if ea != "" || eb != "" {
		x.report(kindOfFd(fd), path, "inner message not recoverable: %s / %s", ea, eb)
		return
	}
	x.msg(x.rootOfMessage(ia.Descriptor()), ia, ib, subPath(path, ".<any>"))
}
