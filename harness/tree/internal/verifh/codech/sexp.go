//go:build verif

package main

import (
	"fmt"
	"strings"
)

// node is an s-expression: an atom or a list (see harness/PROTOCOL-codec.md section 1).
type node struct {
	atom string
	list []*node
	isL  bool
}

func (n *node) head() string {
	if n != nil && n.isL && len(n.list) > 0 && !n.list[0].isL {
		return n.list[0].atom
	}
	return ""
}

func (n *node) args() []*node {
	if n == nil || !n.isL || len(n.list) == 0 {
		return nil
	}
	return n.list[1:]
}

// parseLine parses a whole op line into its top-level s-expressions.
func parseLine(s string) ([]*node, error) {
	p := &sparser{s: s}
	var out []*node
	for {
		p.skip()
		if p.i >= len(p.s) {
			return out, nil
		}
		n, err := p.parse()
		if err != nil {
			return nil, err
		}
		out = append(out, n)
	}
}

type sparser struct {
	s string
	i int
}

func (p *sparser) skip() {
	for p.i < len(p.s) && p.s[p.i] == ' ' {
		p.i++
	}
}

func (p *sparser) parse() (*node, error) {
	// iterative to survive deep nesting
	type frame struct{ n *node }
	var stack []*node
	for {
		p.skip()
		if p.i >= len(p.s) {
			return nil, fmt.Errorf("unexpected end of line")
		}
		c := p.s[p.i]
		switch {
		case c == '(':
			p.i++
			stack = append(stack, &node{isL: true})
		case c == ')':
			p.i++
			if len(stack) == 0 {
				return nil, fmt.Errorf("unbalanced )")
			}
			top := stack[len(stack)-1]
			stack = stack[:len(stack)-1]
			if len(stack) == 0 {
				return top, nil
			}
			stack[len(stack)-1].list = append(stack[len(stack)-1].list, top)
		default:
			j := p.i
			for j < len(p.s) && p.s[j] != ' ' && p.s[j] != '(' && p.s[j] != ')' {
				j++
			}
			a := &node{atom: p.s[p.i:j]}
			p.i = j
			if len(stack) == 0 {
				return a, nil
			}
			stack[len(stack)-1].list = append(stack[len(stack)-1].list, a)
		}
	}
}

// sb is a small s-expression writer.
type sb struct{ strings.Builder }

func (b *sb) open(head string) {
	b.WriteByte('(')
	b.WriteString(head)
}
func (b *sb) sp()            { b.WriteByte(' ') }
func (b *sb) atom(a string)  { b.WriteByte(' '); b.WriteString(a) }
func (b *sb) close()         { b.WriteByte(')') }
func (b *sb) raw(s string)   { b.WriteString(s) }
