//go:build verif

package main

import (
	"fmt"
	"math/rand/v2"
	"net/url"
	"os"
	"strconv"
	"strings"

	"github.com/pentops/j5/internal/codec"
	"github.com/pentops/j5/internal/verifh/vh"
	"google.golang.org/protobuf/proto"
	"google.golang.org/protobuf/reflect/protodesc"
	"google.golang.org/protobuf/reflect/protoreflect"
	"google.golang.org/protobuf/reflect/protoregistry"
	"google.golang.org/protobuf/types/descriptorpb"
	"google.golang.org/protobuf/types/dynamicpb"

	_ "google.golang.org/protobuf/types/known/durationpb"
	_ "google.golang.org/protobuf/types/known/structpb"
)

// ---- codec.history (Go only): several decode calls on ONE codec
//
// C06 quantifies over every input and every target message type. The other streams give every
// generated package its own pre-warmed codec and only use message types the schema reflection
// accepts. A real codec (codec.Global, a gateway) lives long and sees message types that can NOT be
// reflected to a J5 schema (fixed32/64, maps with non-string keys, google.protobuf.Duration / Struct,
// an enum without an UNSPECIFIED zero value): the call for such a type returns an error, and whatever it leaves
// behind in the codec's schema cache is the state of every later call. This stream generates small
// packages of message types that refer to each other (cycles, self references, through singular /
// repeated / map / oneof members), puts a member the reflection rejects at a random position of some
// of the messages, and runs 2..7 decode calls (JSON documents and queries that enter the references)
// on one fresh codec. Every call must return a result or an error.
//
// op:   hist SEED (j MSG HEXdoc)… | (q MSG (HEXkey HEXvalue…)…)…        MSG = message name in package hs<SEED>.v1
// line: h <ok|err|panic>…     (one word per step)

type hField struct {
	name  string
	kind  string // string int32 int64 bool double bytes msg | bad-*
	ref   int    // msg: index of the referenced message
	card  int    // cSingle cRepeated cMap
	oneof bool   // member of the message's proto oneof "type"
}

type hMsg struct {
	name   string
	fields []hField
}

type hSpec struct {
	pkg  string
	msgs []hMsg
	bad  bool // the package has an enum without an UNSPECIFIED zero value
}

var hScalars = []string{"string", "int32", "int64", "bool", "double", "bytes"}
var hBadKinds = []string{"bad-fixed64", "bad-fixed32", "bad-sfixed64", "bad-sfixed32", "bad-mapkey", "bad-duration", "bad-struct", "bad-enum", "bad-fixed64", "bad-repfixed"}

// genHistSpec derives the package of a seed. Shapes: (seed%4 == 0) the plain pair — A refers to B,
// B refers back to A, A has one rejected member at a random position; otherwise 2..5 messages with
// random references (self references and cycles are the norm with so few messages), 0..2 of them with
// a rejected member.
func genHistSpec(seed uint64) *hSpec {
	r := rand.New(rand.NewPCG(seed, 0x4157c0dec))
	sp := &hSpec{pkg: fmt.Sprintf("hs%d.v1", seed)}
	nm := 2 + r.IntN(4)
	if seed%4 == 0 {
		nm = 2 + r.IntN(2)
	}
	for i := 0; i < nm; i++ {
		m := hMsg{name: fmt.Sprintf("N%d", i)}
		nf := 1 + r.IntN(4)
		wrapper := seed%4 != 0 && r.IntN(6) == 0 // all members message references inside oneof "type": a J5 oneof by convention
		for k := 0; k < nf; k++ {
			f := hField{name: fmt.Sprintf("f%d", k)}
			if wrapper || r.IntN(2) == 0 {
				f.kind, f.ref = "msg", r.IntN(nm)
				if !wrapper {
					f.card = []int{cSingle, cSingle, cSingle, cRepeated, cMap}[r.IntN(5)]
					f.oneof = f.card == cSingle && r.IntN(5) == 0
				} else {
					f.oneof = true
				}
			} else {
				f.kind = hScalars[r.IntN(len(hScalars))]
				f.card = []int{cSingle, cSingle, cRepeated, cMap}[r.IntN(4)]
			}
			m.fields = append(m.fields, f)
		}
		sp.msgs = append(sp.msgs, m)
	}
	insertBad := func(mi int) {
		m := &sp.msgs[mi]
		name := "bad"
		for _, g := range m.fields {
			if g.name == name {
				name += "x"
			}
		}
		f := hField{name: name, kind: hBadKinds[r.IntN(len(hBadKinds))]}
		pos := r.IntN(len(m.fields) + 1)
		m.fields = append(m.fields[:pos:pos], append([]hField{f}, m.fields[pos:]...)...)
	}
	if seed%4 == 0 {
		// the pair: N0 -> N1 and N1 -> N0 (on top of whatever was drawn), rejected member in N0
		a, b := &sp.msgs[0], &sp.msgs[1]
		a.fields = append(a.fields, hField{name: "peer", kind: "msg", ref: 1, card: []int{cSingle, cSingle, cRepeated, cMap}[r.IntN(4)]})
		r.Shuffle(len(a.fields), func(i, j int) { a.fields[i], a.fields[j] = a.fields[j], a.fields[i] })
		b.fields = append(b.fields, hField{name: "back", kind: "msg", ref: 0, card: []int{cSingle, cSingle, cRepeated, cMap}[r.IntN(4)]})
		r.Shuffle(len(b.fields), func(i, j int) { b.fields[i], b.fields[j] = b.fields[j], b.fields[i] })
		insertBad(0)
	} else {
		for k, n := 0, r.IntN(3); k < n; k++ {
			insertBad(r.IntN(nm))
		}
	}
	// protobuf wants the members of a oneof declared consecutively: gather them at the first one
	for mi := range sp.msgs {
		var out []hField
		done := false
		for _, f := range sp.msgs[mi].fields {
			if !f.oneof {
				out = append(out, f)
			} else if !done {
				done = true
				for _, g := range sp.msgs[mi].fields {
					if g.oneof {
						out = append(out, g)
					}
				}
			}
		}
		sp.msgs[mi].fields = out
	}
	return sp
}

func (sp *hSpec) toProto() *descriptorpb.FileDescriptorProto {
	fd := &descriptorpb.FileDescriptorProto{
		Name:       proto.String(strings.ReplaceAll(sp.pkg, ".", "/") + "/hist.proto"),
		Package:    proto.String(sp.pkg),
		Syntax:     proto.String("proto3"),
		Dependency: []string{"google/protobuf/duration.proto", "google/protobuf/struct.proto"},
	}
	// an enum J5 rejects: the zero value is not ..._UNSPECIFIED
	fd.EnumType = append(fd.EnumType, &descriptorpb.EnumDescriptorProto{Name: proto.String("Odd"), Value: []*descriptorpb.EnumValueDescriptorProto{
		{Name: proto.String("ODD_ZERO"), Number: proto.Int32(0)}, {Name: proto.String("ODD_ONE"), Number: proto.Int32(1)}}})
	lbl := func(rep bool) *descriptorpb.FieldDescriptorProto_Label {
		if rep {
			return descriptorpb.FieldDescriptorProto_LABEL_REPEATED.Enum()
		}
		return descriptorpb.FieldDescriptorProto_LABEL_OPTIONAL.Enum()
	}
	for _, m := range sp.msgs {
		md := &descriptorpb.DescriptorProto{Name: proto.String(m.name)}
		hasOneof := false
		for _, f := range m.fields {
			if f.oneof {
				hasOneof = true
			}
		}
		if hasOneof {
			md.OneofDecl = []*descriptorpb.OneofDescriptorProto{{Name: proto.String("type")}}
		}
		for k, f := range m.fields {
			fp := &descriptorpb.FieldDescriptorProto{Name: proto.String(f.name), Number: proto.Int32(int32(k + 1)), JsonName: proto.String(f.name)}
			var t descriptorpb.FieldDescriptorProto_Type
			tn := ""
			keyT := descriptorpb.FieldDescriptorProto_TYPE_STRING
			card := f.card
			switch f.kind {
			case "string":
				t = descriptorpb.FieldDescriptorProto_TYPE_STRING
			case "int32":
				t = descriptorpb.FieldDescriptorProto_TYPE_INT32
			case "int64":
				t = descriptorpb.FieldDescriptorProto_TYPE_INT64
			case "bool":
				t = descriptorpb.FieldDescriptorProto_TYPE_BOOL
			case "double":
				t = descriptorpb.FieldDescriptorProto_TYPE_DOUBLE
			case "bytes":
				t = descriptorpb.FieldDescriptorProto_TYPE_BYTES
			case "msg":
				t, tn = descriptorpb.FieldDescriptorProto_TYPE_MESSAGE, "."+sp.pkg+"."+sp.msgs[f.ref].name
			case "bad-fixed64":
				t = descriptorpb.FieldDescriptorProto_TYPE_FIXED64
			case "bad-fixed32":
				t = descriptorpb.FieldDescriptorProto_TYPE_FIXED32
			case "bad-sfixed64":
				t = descriptorpb.FieldDescriptorProto_TYPE_SFIXED64
			case "bad-sfixed32":
				t = descriptorpb.FieldDescriptorProto_TYPE_SFIXED32
			case "bad-repfixed":
				t, card = descriptorpb.FieldDescriptorProto_TYPE_FIXED64, cRepeated
			case "bad-mapkey":
				t, card, keyT = descriptorpb.FieldDescriptorProto_TYPE_STRING, cMap, descriptorpb.FieldDescriptorProto_TYPE_INT32
			case "bad-duration":
				t, tn = descriptorpb.FieldDescriptorProto_TYPE_MESSAGE, ".google.protobuf.Duration"
			case "bad-struct":
				t, tn = descriptorpb.FieldDescriptorProto_TYPE_MESSAGE, ".google.protobuf.Struct"
			case "bad-enum":
				t, tn = descriptorpb.FieldDescriptorProto_TYPE_ENUM, "."+sp.pkg+".Odd"
			}
			if card == cMap {
				en := camelEntry(f.name)
				val := &descriptorpb.FieldDescriptorProto{Name: proto.String("value"), Number: proto.Int32(2), Label: lbl(false), Type: t.Enum(), JsonName: proto.String("value")}
				if tn != "" {
					val.TypeName = proto.String(tn)
				}
				md.NestedType = append(md.NestedType, &descriptorpb.DescriptorProto{Name: proto.String(en), Options: &descriptorpb.MessageOptions{MapEntry: proto.Bool(true)},
					Field: []*descriptorpb.FieldDescriptorProto{{Name: proto.String("key"), Number: proto.Int32(1), Label: lbl(false), Type: keyT.Enum(), JsonName: proto.String("key")}, val}})
				fp.Label, fp.Type, fp.TypeName = lbl(true), descriptorpb.FieldDescriptorProto_TYPE_MESSAGE.Enum(), proto.String("."+sp.pkg+"."+m.name+"."+en)
			} else {
				fp.Label, fp.Type = lbl(card == cRepeated), t.Enum()
				if tn != "" {
					fp.TypeName = proto.String(tn)
				}
			}
			if f.oneof {
				fp.OneofIndex = proto.Int32(0)
			}
			md.Field = append(md.Field, fp)
		}
		fd.MessageType = append(fd.MessageType, md)
	}
	return fd
}

func (sp *hSpec) link() (protoreflect.FileDescriptor, error) {
	return protodesc.NewFile(sp.toProto(), protoregistry.GlobalFiles)
}

// ---- inputs that enter the references

func hScalarJSON(r *rand.Rand, kind string) string {
	switch kind {
	case "string":
		return `"x"`
	case "int32":
		return []string{"1", `"2"`, "-3"}[r.IntN(3)]
	case "int64":
		return []string{`"1"`, "2"}[r.IntN(2)]
	case "bool":
		return []string{"true", "false"}[r.IntN(2)]
	case "double":
		return []string{"1.5", `"2.5"`}[r.IntN(2)]
	case "bytes":
		return `"AQID"`
	case "bad-mapkey":
		return `{"1":"x"}`
	case "bad-repfixed":
		return `[1]`
	case "bad-duration":
		return `"1s"`
	case "bad-struct":
		return `{}`
	case "bad-enum":
		return `"ONE"`
	}
	return []string{"1", `"1"`}[r.IntN(2)]
}

// hDoc: a document for message mi. Message members are entered with probability 3/4 down to the
// depth, below that they are {} / null / absent.
func (sp *hSpec) hDoc(r *rand.Rand, mi int, depth int) string {
	m := sp.msgs[mi]
	var mem []string
	usedOneof := false
	for _, f := range m.fields {
		if r.IntN(4) == 0 {
			continue
		}
		if f.oneof {
			if usedOneof {
				continue
			}
			usedOneof = true
		}
		var v string
		if f.kind == "msg" {
			switch {
			case depth > 0 && r.IntN(4) != 0:
				v = sp.hDoc(r, f.ref, depth-1)
			case r.IntN(3) == 0:
				v = "null"
			default:
				v = "{}"
			}
		} else {
			v = hScalarJSON(r, f.kind)
		}
		switch {
		case f.card == cRepeated && !strings.HasPrefix(f.kind, "bad-"):
			v = "[" + v + "]"
			if r.IntN(3) == 0 {
				v = "[]"
			}
		case f.card == cMap && !strings.HasPrefix(f.kind, "bad-"):
			v = `{"k":` + v + `}`
		}
		if v == "null" && f.card != cSingle {
			v = "{}"
		}
		mem = append(mem, strconv.Quote(f.name)+":"+v)
	}
	return "{" + strings.Join(mem, ",") + "}"
}

// hQuery: one dotted key through message members of mi, ending at any member.
func (sp *hSpec) hQuery(r *rand.Rand, mi int) (string, []string) {
	var segs []string
	cur := mi
	for d := 0; d < 4; d++ {
		m := sp.msgs[cur]
		f := m.fields[r.IntN(len(m.fields))]
		segs = append(segs, f.name)
		if f.kind != "msg" || r.IntN(4) == 0 {
			if f.kind == "msg" {
				return strings.Join(segs, "."), []string{[]string{"{}", `{"f0":{}}`, "null"}[r.IntN(3)]}
			}
			return strings.Join(segs, "."), []string{[]string{"1", "x", "true", "AQID"}[r.IntN(4)]}
		}
		cur = f.ref
	}
	return strings.Join(segs, "."), []string{"1"}
}

func (im *impl) genHistory(h *vh.H, i int) string {
	seed := (h.Seed%1000)*100000 + uint64(h.Rng.IntN(40000))
	sp := genHistSpec(seed)
	r := h.Rng
	nm := len(sp.msgs)
	var withBad []int
	for k, m := range sp.msgs {
		for _, f := range m.fields {
			if strings.HasPrefix(f.kind, "bad-") {
				withBad = append(withBad, k)
				break
			}
		}
	}
	if len(withBad) > 0 {
		h.Count("gen.hist.with-rejected-type")
	} else {
		h.Count("gen.hist.all-reflectable")
	}
	var b strings.Builder
	fmt.Fprintf(&b, "hist %d", seed)
	steps := 2 + r.IntN(6)
	for s := 0; s < steps; s++ {
		mi := r.IntN(nm)
		if s == 0 && len(withBad) > 0 && r.IntN(3) != 0 {
			mi = withBad[r.IntN(len(withBad))] // a rejected type first, more often than not
		}
		if r.IntN(5) == 0 {
			k, vs := sp.hQuery(r, mi)
			fmt.Fprintf(&b, " (q %s (%s", sp.msgs[mi].name, vh.Hex([]byte(k)))
			for _, v := range vs {
				b.WriteString(" " + vh.Hex([]byte(v)))
			}
			b.WriteString("))")
		} else {
			fmt.Fprintf(&b, " (j %s %s)", sp.msgs[mi].name, vh.Hex([]byte(sp.hDoc(r, mi, 1+r.IntN(3)))))
		}
	}
	return b.String()
}

// ---- exec

type hStep struct {
	md   protoreflect.MessageDescriptor
	doc  []byte
	vals url.Values
	n    int
}

func (st hStep) run(c *codec.Codec, m protoreflect.Message) error {
	if st.vals != nil {
		return c.QueryToProto(st.vals, m)
	}
	return c.JSONToProto(st.doc, m)
}

func (im *impl) execHistory(h *vh.H, op string, nodes []*node) string {
	seed, err := strconv.ParseUint(nodes[1].atom, 10, 64)
	if err != nil {
		return "bad-op"
	}
	sp := genHistSpec(seed)
	fd, err := sp.link()
	if err != nil {
		h.Count("hist.descriptor-link-error"); if os.Getenv("VERIF_PANIC_TRACE") != "" { fmt.Fprintln(os.Stderr, err) }
		return "bad-op"
	}
	var steps []hStep
	for _, n := range nodes[2:] {
		if n.head() == "meta" {
			continue
		}
		a := n.args()
		if len(a) < 2 {
			return "bad-op"
		}
		md := fd.Messages().ByName(protoreflect.Name(a[0].atom))
		if md == nil {
			return "bad-op"
		}
		st := hStep{md: md}
		switch n.head() {
		case "j":
			doc, ok := vh.UnHex(a[1].atom)
			if !ok {
				return "bad-op"
			}
			st.doc, st.n = doc, len(doc)
		case "q":
			st.vals = url.Values{}
			for _, e := range a[1:] {
				if !e.isL || len(e.list) == 0 {
					return "bad-op"
				}
				kb, ok := vh.UnHex(e.list[0].atom)
				if !ok {
					return "bad-op"
				}
				vs := []string{}
				for _, v := range e.list[1:] {
					vb, ok := vh.UnHex(v.atom)
					if !ok {
						return "bad-op"
					}
					vs = append(vs, string(vb))
					st.n += len(vb)
				}
				st.n += len(kb)
				st.vals[string(kb)] = vs
			}
		default:
			return "bad-op"
		}
		steps = append(steps, st)
	}
	h.Count("op.hist")
	c := codec.NewCodec()
	var out strings.Builder
	out.WriteString("h")
	anyErr, okAfterErr, allOK := false, false, true
	for k, st := range steps {
		m := dynamicpb.NewMessage(st.md)
		res := call(op, func() error { return st.run(c, m) })
		switch {
		case res.panicked:
			h.Fail("c06-panic:"+res.site, op, fmt.Sprintf("step %d of %d on one codec (%s): %s", k+1, len(steps), st.md.FullName(), res.pval))
			out.WriteString(" panic")
			allOK = false
			continue
		case res.err != nil:
			h.Count("hist.step.err")
			out.WriteString(" err")
			anyErr, allOK = true, false
		default:
			h.Count("hist.step.ok")
			out.WriteString(" ok")
			amplification(h, op, m, st.n)
			if anyErr {
				okAfterErr = true
			}
		}
		if res.dur > timeBound(st.n) {
			best := res.dur
			for j := 0; j < 2 && best > timeBound(st.n); j++ {
				m2 := dynamicpb.NewMessage(st.md)
				if r2 := call(op, func() error { return st.run(c, m2) }); !r2.panicked && r2.dur < best {
					best = r2.dur
				}
			}
			if best > timeBound(st.n) {
				h.Fail("c06-slow", op, fmt.Sprintf("step %d: %v (best of 3) for %d bytes", k+1, best, st.n))
			}
		}
		// statistic only (C06 does not speak about it): does the outcome depend on the earlier calls?
		mf := dynamicpb.NewMessage(st.md)
		fresh := codec.NewCodec()
		rf := call(op, func() error { return st.run(fresh, mf) })
		if !rf.panicked && (rf.err == nil) != (res.err == nil) {
			h.Count("hist.step.differs-from-fresh-codec")
		}
	}
	if okAfterErr {
		// the interesting histories: a call succeeded on a codec that had rejected a type before
		h.Nontrivial(op)
		h.Count("hist.accepted-after-a-rejected-type")
	} else if allOK {
		h.Count("hist.all-steps-ok")
	}
	return out.String()
}
