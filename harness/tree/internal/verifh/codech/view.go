//go:build verif

package main

import (
	"strings"

	"github.com/pentops/j5/gen/j5/ext/v1/ext_j5pb"
	"github.com/pentops/j5/lib/j5schema"
	"google.golang.org/protobuf/proto"
	"google.golang.org/protobuf/reflect/protoreflect"
)

// Go-side view of the reflected schema used by the oracles and generators.

type sEnumOpt struct {
	name string
	num  int32
}

type sEnum struct {
	name   string
	prefix string
	opts   []sEnumOpt
}

func (e *sEnum) byNumber(n int32) (string, bool) {
	for _, o := range e.opts {
		if o.num == n {
			return o.name, true
		}
	}
	return "", false
}

func (e *sEnum) byShort(s string) (int32, bool) {
	for _, o := range e.opts {
		if o.name == s {
			return o.num, true
		}
	}
	return 0, false
}

type sField struct {
	kind    string // string key bool int32 int64 uint32 uint64 float32 float64 bytes timestamp date decimal enum object oneof anyj5 anypb array map unknown
	item    *sField
	enum    *sEnum
	refMd   protoreflect.MessageDescriptor // object / oneof: the message that holds the referenced property set
	refSch  j5schema.RootSchema
	flatten bool
	ts      *typeSet
	enumD   protoreflect.EnumDescriptor
}

// wireEnum is the descriptor-derived (independent) view of the enum of this field.
func (f *sField) wireEnum() *sEnum {
	if f.enumD == nil {
		return nil
	}
	return enumView(f.ts, f.enumD)
}

func (f *sField) ref() *sRoot { return f.ts.rootFor(f.refSch, f.refMd) }

func (f *sField) isScalar() bool {
	switch f.kind {
	case "array", "map", "object", "oneof", "anyj5", "anypb", "unknown":
		return false
	}
	return true
}

type sProp struct {
	json  string
	path  []protoreflect.FieldDescriptor
	field *sField
	oneof protoreflect.OneofDescriptor // real proto oneof of the final field, if any
}

// isExposedOneof: the property is a proto oneof exposed as a J5 oneof (not a wrapper message):
// either directly (empty path) or inlined from a flattened object (path = the flattened field).
func (p *sProp) isExposedOneof() bool {
	if p.field.kind != "oneof" {
		return false
	}
	if len(p.path) == 0 {
		return true
	}
	return p.field.refSch != nil && p.field.refMd != nil && p.field.refSch.FullName() != j5Name(p.field.refMd)
}

func (p *sProp) final() protoreflect.FieldDescriptor {
	if len(p.path) == 0 {
		return nil
	}
	return p.path[len(p.path)-1]
}

type sRoot struct {
	name    string
	isOneof bool
	props   []*sProp
	md      protoreflect.MessageDescriptor
	broken  bool
}

func (r *sRoot) prop(json string) *sProp {
	for _, p := range r.props {
		if p.json == json {
			return p
		}
	}
	return nil
}

type rootKey struct {
	name string
	md   protoreflect.FullName
}

var rootMemo = map[*typeSet]map[rootKey]*sRoot{}

func (ts *typeSet) rootOf(md protoreflect.MessageDescriptor) *sRoot {
	sch, err := ts.schemaOf(md)
	if err != nil {
		return &sRoot{name: j5Name(md), md: md, broken: true}
	}
	return ts.rootFor(sch, md)
}

func (ts *typeSet) rootFor(sch j5schema.RootSchema, md protoreflect.MessageDescriptor) *sRoot {
	setMu.Lock()
	memo := rootMemo[ts]
	if memo == nil {
		memo = map[rootKey]*sRoot{}
		rootMemo[ts] = memo
	}
	key := rootKey{sch.FullName(), md.FullName()}
	if r, ok := memo[key]; ok {
		setMu.Unlock()
		return r
	}
	r := &sRoot{name: sch.FullName(), md: md}
	memo[key] = r
	setMu.Unlock()
	var props []*j5schema.ObjectProperty
	switch s := sch.(type) {
	case *j5schema.ObjectSchema:
		props = s.ClientProperties()
	case *j5schema.OneofSchema:
		r.isOneof = true
		props = s.ClientProperties()
	default:
		r.broken = true
		return r
	}
	for _, p := range props {
		sp := &sProp{json: p.JSONName}
		walk := md
		ok := true
		for i, n := range p.ProtoField {
			fd := walk.Fields().ByNumber(n)
			if fd == nil {
				ok = false
				break
			}
			sp.path = append(sp.path, fd)
			if i < len(p.ProtoField)-1 {
				if fd.Message() == nil {
					ok = false
					break
				}
				walk = fd.Message()
			}
		}
		if !ok {
			r.broken = true
			continue
		}
		var itemMsg protoreflect.MessageDescriptor
		var itemFd protoreflect.FieldDescriptor
		if fd := sp.final(); fd != nil {
			if fd.IsMap() {
				itemMsg = fd.MapValue().Message()
				itemFd = fd.MapValue()
			} else {
				itemMsg = fd.Message()
				itemFd = fd
			}
			if oo := fd.ContainingOneof(); oo != nil && !oo.IsSynthetic() {
				sp.oneof = oo
			}
		} else {
			itemMsg = md
		}
		sp.field = ts.fieldOf(p.Schema, itemMsg, itemFd)
		r.props = append(r.props, sp)
	}
	return r
}

func (ts *typeSet) fieldOf(f j5schema.FieldSchema, itemMsg protoreflect.MessageDescriptor, itemFd protoreflect.FieldDescriptor) *sField {
	switch s := f.(type) {
	case *j5schema.ArrayField:
		return &sField{kind: "array", item: ts.fieldOf(s.Schema, itemMsg, itemFd), ts: ts}
	case *j5schema.MapField:
		return &sField{kind: "map", item: ts.fieldOf(s.Schema, itemMsg, itemFd), ts: ts}
	case *j5schema.ObjectField:
		return &sField{kind: "object", refMd: itemMsg, refSch: s.Ref.To, flatten: s.Flatten, ts: ts}
	case *j5schema.OneofField:
		return &sField{kind: "oneof", refMd: itemMsg, refSch: s.Ref.To, ts: ts}
	case *j5schema.EnumField:
		e := &sEnum{name: s.Ref.FullName()}
		if es, ok := s.Ref.To.(*j5schema.EnumSchema); ok {
			e.prefix = es.NamePrefix
			for _, o := range es.Options {
				e.opts = append(e.opts, sEnumOpt{o.Name(), o.Number()})
			}
		}
		sf := &sField{kind: "enum", enum: e, ts: ts}
		if itemFd != nil && itemFd.Kind() == protoreflect.EnumKind {
			sf.enumD = itemFd.Enum()
		}
		return sf
	case *j5schema.AnyField:
		if itemMsg != nil && itemMsg.FullName() == fnAnyPb {
			return &sField{kind: "anypb", ts: ts}
		}
		return &sField{kind: "anyj5", ts: ts}
	case *j5schema.ScalarSchema:
		return &sField{kind: scalarKindName(s.Proto), ts: ts}
	}
	return &sField{kind: "unknown", ts: ts}
}

// enumView derives short names straight from the proto descriptor and its j5 annotation,
// independently of lib/j5schema (used by the C08 / C03 oracles).
func enumView(ts *typeSet, ed protoreflect.EnumDescriptor) *sEnum {
	vals := ed.Values()
	if vals.Len() == 0 {
		return nil
	}
	first := string(vals.Get(0).Name())
	if !strings.HasSuffix(first, "UNSPECIFIED") {
		return nil
	}
	prefix := strings.TrimSuffix(first, "UNSPECIFIED")
	noDefault := false
	if ext, ok := proto.GetExtension(ed.Options(), ext_j5pb.E_Enum).(*ext_j5pb.EnumOptions); ok && ext != nil {
		noDefault = ext.NoDefault
	}
	e := &sEnum{name: j5Name(ed), prefix: prefix}
	for i := 0; i < vals.Len(); i++ {
		if i == 0 && noDefault {
			continue
		}
		v := vals.Get(i)
		e.opts = append(e.opts, sEnumOpt{strings.TrimPrefix(string(v.Name()), prefix), int32(v.Number())})
	}
	return e
}
