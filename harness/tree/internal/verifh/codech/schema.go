//go:build verif

package main

import (
	"fmt"
	"sort"
	"strings"

	"github.com/pentops/j5/gen/j5/schema/v1/schema_j5pb"
	"github.com/pentops/j5/internal/verifh/vh"
	"github.com/pentops/j5/lib/j5schema"
	"google.golang.org/protobuf/reflect/protoreflect"
)

// envBuilder dumps the reflected j5 schema reachable from a set of roots (PROTOCOL section 3).
type envBuilder struct {
	ts   *typeSet
	defs map[string]string
	res  map[string]string
}

func (ts *typeSet) schemaOf(md protoreflect.MessageDescriptor) (j5schema.RootSchema, error) {
	ts.mu.Lock()
	defer ts.mu.Unlock()
	return ts.cache.Schema(md)
}

func newEnvBuilder(ts *typeSet) *envBuilder {
	return &envBuilder{ts: ts, defs: map[string]string{}, res: map[string]string{}}
}

func (eb *envBuilder) addRoot(md protoreflect.MessageDescriptor) {
	name := j5Name(md)
	if _, ok := eb.defs[name]; ok {
		return
	}
	sch, err := eb.ts.schemaOf(md)
	if err != nil {
		eb.defs[name] = "(noschema)"
		return
	}
	eb.addSchema(name, sch, md)
}

func (eb *envBuilder) addResolvable(md protoreflect.MessageDescriptor) {
	eb.addRoot(md)
	eb.res[string(md.FullName())] = j5Name(md)
}

func (eb *envBuilder) addSchema(name string, sch j5schema.RootSchema, md protoreflect.MessageDescriptor) {
	if _, ok := eb.defs[name]; ok {
		return
	}
	eb.defs[name] = "" // placeholder against recursion
	var b sb
	switch s := sch.(type) {
	case *j5schema.ObjectSchema:
		b.open("object")
		for _, p := range s.ClientProperties() {
			b.sp()
			eb.prop(&b, p, md)
		}
		b.close()
	case *j5schema.OneofSchema:
		b.open("oneof")
		for _, p := range s.ClientProperties() {
			b.sp()
			eb.prop(&b, p, md)
		}
		b.close()
	default:
		b.raw("(noschema)")
	}
	eb.defs[name] = b.String()
}

func (eb *envBuilder) addEnum(s *j5schema.EnumSchema) string {
	name := s.FullName()
	if _, ok := eb.defs[name]; ok {
		return name
	}
	var b sb
	b.open("enum")
	b.atom(vh.Hex([]byte(s.NamePrefix)))
	for _, o := range s.Options {
		b.sp()
		b.open("opt")
		b.atom(vh.Hex([]byte(o.Name())))
		b.atom(fmt.Sprint(o.Number()))
		b.close()
	}
	b.close()
	eb.defs[name] = b.String()
	return name
}

func presOf(fd protoreflect.FieldDescriptor) string {
	switch {
	case fd.IsMap():
		return "map"
	case fd.IsList():
		return "list"
	case fd.Kind() == protoreflect.MessageKind || fd.Kind() == protoreflect.GroupKind:
		return "msg"
	case fd.HasPresence():
		return "opt"
	}
	return "imp"
}

func (eb *envBuilder) prop(b *sb, p *j5schema.ObjectProperty, md protoreflect.MessageDescriptor) {
	b.open("prop")
	b.atom(vh.Hex([]byte(p.JSONName)))
	b.sp()
	b.open("path")
	walk := md
	var final protoreflect.FieldDescriptor
	broken := false
	for i, n := range p.ProtoField {
		b.atom(fmt.Sprint(int32(n)))
		if broken {
			continue
		}
		fd := walk.Fields().ByNumber(n)
		if fd == nil {
			broken = true
			continue
		}
		final = fd
		if i < len(p.ProtoField)-1 {
			if fd.Message() == nil {
				broken = true
				continue
			}
			walk = fd.Message()
		}
	}
	b.close()
	if final == nil || broken {
		b.atom("none")
	} else {
		b.atom(presOf(final))
	}
	b.sp()
	// descriptor that owns the item type
	var itemMsg protoreflect.MessageDescriptor
	if final != nil {
		if final.IsMap() {
			itemMsg = final.MapValue().Message()
		} else {
			itemMsg = final.Message()
		}
	} else {
		itemMsg = md // exposed oneof: same message
	}
	eb.field(b, p.Schema, itemMsg, final)
	if final != nil && !broken {
		if oo := final.ContainingOneof(); oo != nil && !oo.IsSynthetic() {
			b.sp()
			b.open("in")
			b.atom(fmt.Sprint(oo.Index()))
			b.close()
		}
	}
	b.close()
}

func (eb *envBuilder) field(b *sb, f j5schema.FieldSchema, itemMsg protoreflect.MessageDescriptor, fd protoreflect.FieldDescriptor) {
	switch s := f.(type) {
	case *j5schema.ArrayField:
		b.open("array")
		b.sp()
		eb.field(b, s.Schema, itemMsg, fd)
		b.close()
	case *j5schema.MapField:
		b.open("map")
		b.sp()
		eb.field(b, s.Schema, itemMsg, fd)
		b.close()
	case *j5schema.ObjectField:
		n := s.Ref.FullName()
		if s.Ref.To != nil && itemMsg != nil {
			eb.addSchema(n, s.Ref.To, itemMsg)
		}
		b.raw("(object " + n + ")")
	case *j5schema.OneofField:
		n := s.Ref.FullName()
		if s.Ref.To != nil && itemMsg != nil {
			eb.addSchema(n, s.Ref.To, itemMsg)
		}
		b.raw("(oneof " + n + ")")
	case *j5schema.EnumField:
		n := s.Ref.FullName()
		if es, ok := s.Ref.To.(*j5schema.EnumSchema); ok {
			eb.addEnum(es)
		}
		b.raw("(enum " + n + ")")
	case *j5schema.AnyField:
		if itemMsg != nil && itemMsg.FullName() == "google.protobuf.Any" {
			b.raw("(any pb)")
		} else {
			b.raw("(any j5)")
		}
	case *j5schema.ScalarSchema:
		b.raw("(" + scalarKindName(s.Proto) + ")")
	default:
		b.raw("(unknown)")
	}
}

func scalarKindName(f *schema_j5pb.Field) string {
	switch t := f.Type.(type) {
	case *schema_j5pb.Field_String_:
		return "string"
	case *schema_j5pb.Field_Key:
		return "key"
	case *schema_j5pb.Field_Bool:
		return "bool"
	case *schema_j5pb.Field_Integer:
		switch t.Integer.Format {
		case schema_j5pb.IntegerField_FORMAT_INT32:
			return "int32"
		case schema_j5pb.IntegerField_FORMAT_INT64:
			return "int64"
		case schema_j5pb.IntegerField_FORMAT_UINT32:
			return "uint32"
		case schema_j5pb.IntegerField_FORMAT_UINT64:
			return "uint64"
		}
	case *schema_j5pb.Field_Float:
		switch t.Float.Format {
		case schema_j5pb.FloatField_FORMAT_FLOAT32:
			return "float32"
		case schema_j5pb.FloatField_FORMAT_FLOAT64:
			return "float64"
		}
	case *schema_j5pb.Field_Bytes:
		return "bytes"
	case *schema_j5pb.Field_Timestamp:
		return "timestamp"
	case *schema_j5pb.Field_Date:
		return "date"
	case *schema_j5pb.Field_Decimal:
		return "decimal"
	}
	return "unknown"
}

func (eb *envBuilder) String() string {
	var b sb
	b.open("env")
	names := make([]string, 0, len(eb.defs))
	for n := range eb.defs {
		names = append(names, n)
	}
	sort.Strings(names)
	for _, n := range names {
		b.raw(" (def " + n + " " + eb.defs[n] + ")")
	}
	rn := make([]string, 0, len(eb.res))
	for n := range eb.res {
		rn = append(rn, n)
	}
	sort.Strings(rn)
	for _, n := range rn {
		b.raw(" (res " + vh.Hex([]byte(n)) + " " + eb.res[n] + ")")
	}
	b.close()
	return b.String()
}

var _ = strings.Join
