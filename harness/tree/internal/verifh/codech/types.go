//go:build verif

package main

import (
	"fmt"
	"sort"
	"strconv"
	"strings"
	"sync"

	"github.com/pentops/j5/gen/test/foo/v1/foo_testpb"
	"github.com/pentops/j5/gen/test/schema/v1/schema_testpb"
	"github.com/pentops/j5/internal/codec"
	"github.com/pentops/j5/lib/j5schema"
	"google.golang.org/protobuf/proto"
	"google.golang.org/protobuf/reflect/protoreflect"
	"google.golang.org/protobuf/reflect/protoregistry"
	"google.golang.org/protobuf/types/dynamicpb"
)

// typeSet is one closed family of message types with its own codecs (the codec's schema cache
// is keyed by package+name, so every generated package gets fresh codecs).
type typeSet struct {
	id      string
	byRoot  map[string]protoreflect.MessageDescriptor // j5 root NAME -> descriptor
	byProto map[protoreflect.FullName]protoreflect.MessageDescriptor
	roots   []string // sorted target root names (usable as op ROOT)
	static  bool
	mu      sync.Mutex
	codecs  map[string]*codec.Codec
	cache   *j5schema.SchemaCache
	spec    *fileSpec
}

// FindMessageByName implements codec.MessageTypeResolver for exactly the types of this set.
func (ts *typeSet) FindMessageByName(name protoreflect.FullName) (protoreflect.MessageType, error) {
	md, ok := ts.byProto[name]
	if !ok {
		return nil, protoregistry.NotFound
	}
	return ts.messageType(md), nil
}

func (ts *typeSet) messageType(md protoreflect.MessageDescriptor) protoreflect.MessageType {
	if ts.static {
		if mt, err := protoregistry.GlobalTypes.FindMessageByName(md.FullName()); err == nil {
			return mt
		}
	}
	return dynamicpb.NewMessageType(md)
}

func (ts *typeSet) newMessage(md protoreflect.MessageDescriptor) protoreflect.Message {
	return ts.messageType(md).New()
}

func (ts *typeSet) codec(mode string) *codec.Codec {
	ts.mu.Lock()
	defer ts.mu.Unlock()
	if c, ok := ts.codecs[mode]; ok {
		return c
	}
	var c *codec.Codec
	if mode == "p" {
		c = codec.NewCodec(codec.WithResolver(ts), codec.WithProtoToAny())
	} else {
		c = codec.NewCodec(codec.WithResolver(ts))
	}
	ts.codecs[mode] = c
	return c
}

// j5Name is the root NAME of a message descriptor (package + nested names joined by "_").
func j5Name(d protoreflect.Descriptor) string {
	var parts []string
	cur := d
	for {
		parts = append([]string{string(cur.Name())}, parts...)
		p := cur.Parent()
		if f, ok := p.(protoreflect.FileDescriptor); ok {
			return string(f.Package()) + "." + strings.Join(parts, "_")
		}
		cur = p
	}
}

func (ts *typeSet) addMessages(mds protoreflect.MessageDescriptors, target bool) {
	for i := 0; i < mds.Len(); i++ {
		md := mds.Get(i)
		if md.IsMapEntry() {
			continue
		}
		n := j5Name(md)
		ts.byRoot[n] = md
		ts.byProto[md.FullName()] = md
		if target {
			ts.roots = append(ts.roots, n)
		}
		ts.addMessages(md.Messages(), target)
	}
}

func newTypeSet(id string, static bool) *typeSet {
	return &typeSet{id: id, static: static, byRoot: map[string]protoreflect.MessageDescriptor{}, byProto: map[protoreflect.FullName]protoreflect.MessageDescriptor{},
		codecs: map[string]*codec.Codec{}, cache: j5schema.NewSchemaCache()}
}

var (
	setMu     sync.Mutex
	genSets   = map[uint64]*typeSet{}
	staticSet *typeSet
)

func getStaticSet() *typeSet {
	setMu.Lock()
	defer setMu.Unlock()
	if staticSet != nil {
		return staticSet
	}
	ts := newTypeSet("static", true)
	ts.addMessages((&schema_testpb.FullSchema{}).ProtoReflect().Descriptor().ParentFile().Messages(), true)
	ts.addMessages((&foo_testpb.FooState{}).ProtoReflect().Descriptor().ParentFile().Messages(), true)
	sort.Strings(ts.roots)
	staticSet = ts
	return ts
}

func getGenSet(seed uint64) (*typeSet, error) {
	setMu.Lock()
	defer setMu.Unlock()
	if ts, ok := genSets[seed]; ok {
		return ts, nil
	}
	spec := genFileSpec(seed)
	fd, err := spec.link()
	if err != nil {
		return nil, fmt.Errorf("generated descriptor g%d does not link: %w", seed, err)
	}
	ts := newTypeSet(fmt.Sprintf("g%d", seed), false)
	ts.spec = spec
	ts.addMessages(fd.Messages(), true)
	sort.Strings(ts.roots)
	if len(genSets) > 64 {
		for k := range genSets {
			delete(genSets, k)
			break
		}
	}
	genSets[seed] = ts
	return ts, nil
}

// setForRoot recovers the type set from a root NAME.
func setForRoot(root string) (*typeSet, protoreflect.MessageDescriptor, error) {
	if strings.HasPrefix(root, "g") {
		if i := strings.Index(root, ".v1."); i > 1 {
			if seed, err := strconv.ParseUint(root[1:i], 10, 64); err == nil {
				ts, err := getGenSet(seed)
				if err != nil {
					return nil, nil, err
				}
				md, ok := ts.byRoot[root]
				if !ok {
					return nil, nil, fmt.Errorf("no root %s", root)
				}
				return ts, md, nil
			}
		}
	}
	ts := getStaticSet()
	md, ok := ts.byRoot[root]
	if !ok {
		return nil, nil, fmt.Errorf("no root %s", root)
	}
	return ts, md, nil
}

var _ = proto.Equal

func protoFullName(s string) protoreflect.FullName { return protoreflect.FullName(s) }
