//go:build verif

package main

import (
	"bytes"
	"encoding/json"
	"fmt"
	"io"
	"math"
	"net/url"
	"os"
	"regexp"
	"runtime/debug"
	"sort"
	"strconv"
	"strings"
	"sync/atomic"
	"time"

	"github.com/pentops/j5/internal/verifh/vh"
	"google.golang.org/protobuf/proto"
	"google.golang.org/protobuf/reflect/protoreflect"
	"google.golang.org/protobuf/types/known/timestamppb"
)

// ---- calling the real code

type callResult struct {
	panicked bool
	site     string // first pentops/j5 frame below the panic
	pval     string
	err      error
	dur      time.Duration
}

var reFrame = regexp.MustCompile(`(?m)^(github\.com/pentops/j5/[^\s(]+(?:\([^)]*\))?[^\s(]*)\(`)

func panicSite(stack string) string {
	for _, m := range reFrame.FindAllStringSubmatch(stack, -1) {
		fn := m[1]
		if strings.Contains(fn, "/verifh/") {
			continue
		}
		fn = strings.TrimPrefix(fn, "github.com/pentops/j5/")
		// strip closure suffixes
		fn = regexp.MustCompile(`\.func\d+(\.\d+)*$`).ReplaceAllString(fn, "")
		return fn
	}
	return "unknown"
}

var opStart atomic.Int64 // monoNow() at the start of the running real-code call, 0 = idle
var opName atomic.Value

// monoNow: nanoseconds since process start on the MONOTONIC clock (never 0). The watchdog used wall-clock
// nanoseconds before: a step of the system clock (seen on the shared VM) made every shard that happened to be
// inside a call report a 60 s "hang" on an innocent op (false c06-crash in a thorough run, 6 of 16 shards at once).
var procStart = time.Now()

func monoNow() int64 { return int64(time.Since(procStart)) + 1 }

func startWatchdog(limit time.Duration) {
	go func() {
		var cur int64
		ticks := 0
		for {
			time.Sleep(500 * time.Millisecond)
			s := opStart.Load()
			if s == 0 || s != cur {
				cur, ticks = s, 0
				continue
			}
			ticks++ // the watchdog itself has seen this call running for ticks x 0.5 s (a frozen process sees nothing)
			if monoNow()-s > int64(limit) && time.Duration(ticks)*500*time.Millisecond > limit/2 {
				fmt.Fprintf(os.Stderr, "WATCHDOG: call did not return within %v (hang): %.300v\n", limit, opName.Load())
				os.Exit(3)
			}
		}
	}()
}

func call(op string, f func() error) (res callResult) {
	opName.Store(op)
	opStart.Store(monoNow())
	t0 := time.Now()
	defer func() {
		res.dur = time.Since(t0)
		opStart.Store(0)
		if r := recover(); r != nil {
			res.panicked = true
			res.pval = fmt.Sprint(r)
			st := string(debug.Stack())
			res.site = panicSite(st)
			if os.Getenv("VERIF_PANIC_TRACE") != "" {
				fmt.Fprintf(os.Stderr, "PANIC %v\n%s\n", r, st)
			}
		}
	}()
	res.err = f()
	return
}

// time bound for one decode call: linear in the input size with a generous constant, so that
// only super-linear behaviour or a stall trips it even on a loaded machine.
// sizeBound: the decoded message is at most linear in the input. The largest legitimate
// amplification is a decimal at the exponent limit ("1e4096", 6 bytes of input, stores 4097 digits:
// under 700x), so 1024x plus a constant holds for every accepted input while a decimal whose
// exponent escaped the maxDecimalExponent guard (megabytes from ten bytes) is far outside.
func sizeBound(n int) int { return 1024*n + 8192 }

func amplification(h *vh.H, op string, m protoreflect.Message, n int) {
	if sz := proto.Size(m.Interface()); sz > sizeBound(n) {
		h.Fail("c06-amplification", op, fmt.Sprintf("%d bytes of input decoded into a message of %d bytes", n, sz))
	}
}

func timeBound(n int) time.Duration {
	// measured: ~0.3 µs/byte for accepted and (since 69f067c) rejected documents; 5 µs/byte plus a
	// constant leaves more than 10x head room for a loaded machine, while the quadratic error path
	// that 69f067c removed (6 s for 140 kB) is far outside.
	return 1500*time.Millisecond + time.Duration(n)*5*time.Microsecond
}

// ---- oracle tables (PROTOCOL section 7)

type oraSet struct {
	f map[string]string
	t map[string]string
	d map[string]string
}

func newOra() *oraSet { return &oraSet{map[string]string{}, map[string]string{}, map[string]string{}} }

func (o *oraSet) addNum(text string) {
	if v, err := strconv.ParseFloat(text, 64); err == nil {
		f32 := fmt.Sprintf("%08x", math.Float32bits(float32(v)))
		if math.IsInf(float64(float32(v)), 0) && !math.IsInf(v, 0) {
			f32 = "range"
		}
		o.f[text] = fmt.Sprintf("(f %s %016x %s)", vh.Hex([]byte(text)), math.Float64bits(v), f32)
	}
	if d, err := safeDecimal(text); err == nil {
		o.d[text] = fmt.Sprintf("(d %s %s)", vh.Hex([]byte(text)), vh.Hex([]byte(d.String())))
	}
}

func (o *oraSet) addStr(text string) {
	if len(text) > 200 {
		return
	}
	o.addNum(text)
	if t, err := time.Parse(time.RFC3339, text); err == nil {
		p := timestamppb.New(t)
		o.t[text] = fmt.Sprintf("(t %s %d %d)", vh.Hex([]byte(text)), p.Seconds, p.Nanos)
	}
}

func (o *oraSet) String() string {
	var b strings.Builder
	b.WriteString("(ora")
	for _, m := range []map[string]string{o.f, o.t, o.d} {
		ks := make([]string, 0, len(m))
		for k := range m {
			ks = append(ks, k)
		}
		sort.Strings(ks)
		for _, k := range ks {
			b.WriteByte(' ')
			b.WriteString(m[k])
		}
	}
	b.WriteByte(')')
	return b.String()
}

// oraForDoc collects every number token text and decoded string the Go tokenizer delivers.
func oraForDoc(doc []byte) *oraSet {
	o := newOra()
	dec := json.NewDecoder(bytes.NewReader(doc))
	dec.UseNumber()
	for n := 0; n < 200000; n++ {
		tok, err := dec.Token()
		if err != nil {
			break
		}
		switch t := tok.(type) {
		case json.Number:
			o.addNum(string(t))
		case string:
			o.addStr(t)
		}
	}
	return o
}

// ---- tok op

func execTok(doc []byte) string {
	dec := json.NewDecoder(bytes.NewReader(doc))
	dec.UseNumber()
	var b strings.Builder
	n := 0
	b.WriteByte('(')
	for {
		tok, err := dec.Token()
		if err != nil {
			b.WriteByte(')')
			if err == io.EOF {
				return "ok " + b.String()
			}
			return fmt.Sprintf("err %d %s", n, b.String())
		}
		if n > 0 {
			b.WriteByte(' ')
		}
		n++
		switch t := tok.(type) {
		case json.Delim:
			b.WriteString(map[rune]string{'{': "lk", '}': "rk", '[': "lb", ']': "rb"}[rune(t)])
		case string:
			b.WriteString("(s " + vh.Hex([]byte(t)) + ")")
		case json.Number:
			b.WriteString("(n " + vh.Hex([]byte(string(t))) + ")")
		case bool:
			if t {
				b.WriteString("t")
			} else {
				b.WriteString("f")
			}
		case nil:
			b.WriteString("z")
		}
	}
}

// ---- Exec

func (im *impl) Exec(h *vh.H, op string) string {
	nodes, err := parseLine(op)
	if err != nil || len(nodes) == 0 || nodes[0].isL {
		return "bad-op"
	}
	switch nodes[0].atom {
	case "tok":
		if len(nodes) < 2 {
			return "bad-op"
		}
		b, ok := vh.UnHex(nodes[1].atom)
		if !ok {
			return "bad-op"
		}
		h.Count("op.tok")
		return execTok(b)
	case "enc":
		if len(nodes) < 5 {
			return "bad-op"
		}
		return im.execEnc(h, op, nodes)
	case "dec":
		if len(nodes) < 5 {
			return "bad-op"
		}
		return im.execDec(h, op, nodes)
	case "query":
		if len(nodes) < 5 {
			return "bad-op"
		}
		return im.execQuery(h, op, nodes)
	case "deep": // deepchild.go
		if len(nodes) < 5 {
			return "bad-op"
		}
		return im.execDeep(h, op, nodes)
	case "hist": // history.go
		if len(nodes) < 3 {
			return "bad-op"
		}
		return im.execHistory(h, op, nodes)
	}
	return "bad-op"
}

func metaOf(nodes []*node) *node {
	for _, n := range nodes {
		if n.head() == "meta" {
			return n
		}
	}
	return nil
}

func (im *impl) execEnc(h *vh.H, op string, nodes []*node) string {
	mode, rootName := nodes[1].atom, nodes[3].atom
	ts, md, err := setForRoot(rootName)
	if err != nil {
		return "bad-op"
	}
	if mt := metaOf(nodes); mt != nil && len(mt.args()) > 0 && mt.args()[0].atom == "emptybytes" {
		emptyBytesNonNil = true
		h.Count("enc.any-empty-nonnil-bytes")
	}
	m, err := parseMsg(ts, md, nodes[4])
	emptyBytesNonNil = false
	if err != nil {
		return "bad-op"
	}
	h.Count("op.enc")
	c := ts.codec(mode)
	var out []byte
	res := call(op, func() error {
		var e error
		out, e = c.ProtoToJSON(m)
		return e
	})
	root := ts.rootOf(md)
	repr, why := checkRepr(ts, m)
	if hasPbAny(m) && mode != "p" {
		// a protobuf Any can only be decoded by a codec built WithProtoToAny; C01 is evaluated in mode p
		repr, why = false, "pb-any-mode-n"
	}
	if repr {
		h.Count("enc.representable")
	} else {
		h.Count("enc.unrepresentable." + why)
	}
	if res.panicked {
		h.Fail("c08-encode-panic:"+res.site, op, res.pval)
		return "panic"
	}
	if res.err != nil {
		h.Count("enc.err")
		if repr && !root.broken {
			h.Fail("c01-encode-fails", op, res.err.Error())
		}
		return "err"
	}
	h.Count("enc.ok")
	h.Nontrivial(nodes[3].atom + " " + sexpString(nodes[4]))
	// C08 well-formedness: for every message, representable or not
	doc, perr := parseStrict(out)
	if perr != nil {
		cause := "other"
		if !repr {
			cause = why
		}
		h.Fail("c08-malformed-json:"+cause, op, fmt.Sprintf("%v in %.300q", perr, out))
		return "ok " + vh.Hex(out)
	}
	canon := out
	if !root.broken {
		canon = canonEncBytes(ts, root, out, m)
	}
	if repr && !root.broken {
		// C08 conformance
		for _, is := range wireCheck(ts, root, doc, m) {
			h.Fail(is.sig, op, is.detail+fmt.Sprintf(" in %.300s", out))
		}
		// C01 round trip
		m2 := ts.newMessage(md)
		r2 := call(op, func() error { return c.JSONToProto(out, m2) })
		switch {
		case r2.panicked:
			h.Fail("c01-decode-of-encoding-panics:"+r2.site, op, r2.pval)
		case r2.err != nil:
			h.Fail("c01-decode-of-encoding-fails:"+firstKindOfError(r2.err.Error()), op, fmt.Sprintf("%v for %.300s", r2.err, out))
		default:
			if d := diffMsg(ts, root, m, m2); d != nil {
				h.Fail("c01-roundtrip-differs:"+d.kind, op, fmt.Sprintf("%s: %s (json %.300s)", d.path, d.what, out))
			} else {
				h.Count("c01.roundtrip.ok")
			}
		}
	}
	return "ok " + vh.Hex(canon)
}

func firstKindOfError(s string) string {
	// classify by the scalar/structural kind named in the decoder's message, without comparing text
	for _, k := range []string{"enum", "date", "decimal", "timestamp", "base64", "oneof", "Any", "no such field", "already set", "invalid character", "out of range", "proto is required"} {
		if strings.Contains(s, k) {
			return strings.ReplaceAll(k, " ", "-")
		}
	}
	return "other"
}

func sexpString(n *node) string {
	var b strings.Builder
	var w func(n *node)
	w = func(n *node) {
		if !n.isL {
			b.WriteString(n.atom)
			return
		}
		b.WriteByte('(')
		for i, c := range n.list {
			if i > 0 {
				b.WriteByte(' ')
			}
			w(c)
		}
		b.WriteByte(')')
	}
	w(n)
	return b.String()
}

func hasPbAny(m protoreflect.Message) bool {
	found := false
	var walk func(m protoreflect.Message)
	single := func(fd protoreflect.FieldDescriptor, v protoreflect.Value) {
		if fd.Kind() != protoreflect.MessageKind {
			return
		}
		if fd.Message().FullName() == fnAnyPb {
			found = true
			return
		}
		walk(v.Message())
	}
	walk = func(m protoreflect.Message) {
		m.Range(func(fd protoreflect.FieldDescriptor, v protoreflect.Value) bool {
			switch {
			case fd.IsMap():
				v.Map().Range(func(_ protoreflect.MapKey, mv protoreflect.Value) bool {
					single(fd.MapValue(), mv)
					return !found
				})
			case fd.IsList():
				for i := 0; i < v.List().Len(); i++ {
					single(fd, v.List().Get(i))
				}
			default:
				single(fd, v)
			}
			return !found
		})
	}
	walk(m)
	return found
}

func (im *impl) execDec(h *vh.H, op string, nodes []*node) string {
	mode, rootName := nodes[1].atom, nodes[3].atom
	ts, md, err := setForRoot(rootName)
	if err != nil {
		return "bad-op"
	}
	doc, ok := vh.UnHex(nodes[4].atom)
	if !ok {
		return "bad-op"
	}
	h.Count("op.dec")
	c := ts.codec(mode)
	m := ts.newMessage(md)
	res := call(op, func() error { return c.JSONToProto(doc, m) })
	meta := metaOf(nodes)
	if os.Getenv("CODEC_DEBUG") != "" {
		fmt.Fprintf(os.Stderr, "TIME %v len=%d err=%v\n", res.dur, len(doc), res.err != nil)
	}
	if res.panicked {
		h.Fail("c06-panic:"+res.site, op, res.pval)
		return "panic"
	}
	if res.dur > timeBound(len(doc)) {
		// a loaded machine can stall any call: only a call that is slow three times in a row counts
		best := res.dur
		for k := 0; k < 2 && best > timeBound(len(doc)); k++ {
			m2 := ts.newMessage(md)
			if r2 := call(op, func() error { return c.JSONToProto(doc, m2) }); r2.dur < best {
				best = r2.dur
			}
		}
		if best > timeBound(len(doc)) {
			h.Fail("c06-slow", op, fmt.Sprintf("%v (best of 3) for %d bytes", best, len(doc)))
		} else {
			h.Count("c06.slow-once-then-fast")
		}
	}
	root := ts.rootOf(md)
	if res.err != nil {
		h.Count("dec.err")
		im.metaOracle(h, op, ts, md, root, mode, meta, doc, nil, res.err)
		return "err"
	}
	h.Count("dec.ok")
	h.Nontrivial("dec " + rootName + " " + nodes[4].atom)
	amplification(h, op, m, len(doc))
	if !root.broken {
		im.exactOracle(h, op, ts, md, root, mode, doc, m)
	}
	im.metaOracle(h, op, ts, md, root, mode, meta, doc, m, nil)
	return "ok " + dumpMsgOut(ts, m)
}

// nestingDepth is the maximal bracket nesting of the document, outside string literals.
func nestingDepth(doc []byte) int {
	depth, max, inStr, esc := 0, 0, false, false
	for _, c := range doc {
		switch {
		case inStr:
			if esc {
				esc = false
			} else if c == '\\' {
				esc = true
			} else if c == '"' {
				inStr = false
			}
		case c == '"':
			inStr = true
		case c == '{' || c == '[':
			depth++
			if depth > max {
				max = depth
			}
		case c == '}' || c == ']':
			depth--
		}
	}
	return max
}

// exactOracle: accepted => canonDoc succeeds and re-encoding the stored message gives exactly
// canonDoc(document) (C03 first sentence).
func (im *impl) exactOracle(h *vh.H, op string, ts *typeSet, md protoreflect.MessageDescriptor, root *sRoot, mode string, doc []byte, m protoreflect.Message) {
	if nestingDepth(doc) > 20000 {
		// the normaliser and the re-encoder recurse over the document themselves: at the depths of the
		// thorough stress stream (10^5) the ORACLE overflowed the 256 MiB stack (a false c06-crash; the
		// decoder under test had long returned). Exactness of deep documents is checked up to depth 20000.
		h.Count("c03.skip.too-deep-for-oracle")
		return
	}
	parsed, _, perr := parsePrefix(doc)
	if perr != nil {
		// the Go tokenizer accepted a prefix my strict reader does not: lenient syntax (not a C03 matter)
		h.Count("c03.skip.lenient-syntax")
		return
	}
	n := &normalizer{ts: ts, mode: mode}
	want, err := n.root(root, parsed, "$")
	if err != nil {
		nf := err.(*normFail)
		h.Fail("c03-accepted-unrepresentable:"+nf.class, op, fmt.Sprintf("%s; document %.300s", nf.Error(), doc))
		return
	}
	if n.skip || n.nonFinite {
		h.Count("c03.skip.undefined-normal-form")
		return
	}
	out, eerr := safeEncode(ts, mode, m)
	if eerr != nil {
		h.Fail("c03-stored-not-reencodable", op, fmt.Sprintf("%v; document %.300s", eerr, doc))
		return
	}
	got, gerr := parseStrict(out)
	if gerr != nil {
		h.Count("c03.skip.reencode-unparseable")
		return
	}
	postEncoded(root, got, mode)
	if d := sameDoc(want, got, "$"); d != "" {
		h.Fail("c03-stored-inexact:"+kindAt(root, d), op, fmt.Sprintf("%s; document %.300s; re-encoded %.300s", d, doc, out))
		return
	}
	h.Count("c03.exact.ok")
}

// kindAt extracts the field kind a sameDoc path ends at (best effort, for a narrow signature).
func kindAt(root *sRoot, diff string) string {
	path := diff
	if i := strings.Index(diff, ": "); i >= 0 {
		path = diff[:i]
	}
	segs := strings.FieldsFunc(strings.TrimPrefix(path, "$"), func(r rune) bool { return r == '.' })
	cur := root
	kind := "object"
	for _, s := range segs {
		if cur == nil {
			break
		}
		name := s
		if i := strings.IndexAny(name, "[{"); i >= 0 {
			name = name[:i]
		}
		p := cur.prop(name)
		if p == nil {
			break
		}
		f := p.field
		kind = f.kind
		for f.kind == "array" || f.kind == "map" {
			f = f.item
			kind = f.kind
		}
		if f.kind == "object" || f.kind == "oneof" {
			cur = f.ref()
		} else {
			cur = nil
		}
	}
	return kind
}

// metaOracle evaluates the expectation the generator attached to the op.
func (im *impl) metaOracle(h *vh.H, op string, ts *typeSet, md protoreflect.MessageDescriptor, root *sRoot, mode string, meta *node, doc []byte, got protoreflect.Message, gotErr error) {
	if meta == nil || len(meta.args()) == 0 {
		return
	}
	a := meta.args()
	switch a[0].atom {
	case "canon", "var":
		label := "canonical"
		if a[0].atom == "var" && len(a) >= 3 {
			label = a[2].atom
		}
		if gotErr != nil {
			h.Fail("c03-spelling-rejected:"+label, op, fmt.Sprintf("%v; document %.400s", gotErr, doc))
			return
		}
		if a[0].atom == "var" && len(a) >= 2 {
			base, ok := vh.UnHex(a[1].atom)
			if !ok {
				return
			}
			m0 := ts.newMessage(md)
			r0 := call(op, func() error { return ts.codec(mode).JSONToProto(base, m0) })
			if r0.panicked || r0.err != nil {
				return // the canonical spelling itself is not decodable: reported by C01
			}
			if d := diffMsg(ts, root, m0, got); d != nil {
				if os.Getenv("CODEC_DEBUG") != "" {
					fmt.Fprintf(os.Stderr, "DIFF %s %s %s\n", d.kind, d.path, d.what)
				}
				h.Fail("c03-spelling-differs:"+label, op, fmt.Sprintf("canonical %.300s gives %.300s; variation %.300s gives %.300s", base, dumpMsgOut(ts, m0), doc, dumpMsgOut(ts, got)))
				return
			}
			for _, l := range strings.Split(label, "+") {
				h.Count("c03.variation.ok." + l)
			}
			if strings.Contains(label, "+") {
				h.Count("c03.variation.ok.(combination)")
			}
		}
	case "fault":
		class, kind, pos := "?", "?", "?"
		if len(a) >= 4 {
			class, kind, pos = a[1].atom, a[2].atom, a[3].atom
		}
		h.Count("c03.fault." + class)
		h.Count("c03.faultpos." + pos)
		if gotErr == nil {
			h.Fail("c03-fault-accepted:"+class+":"+kind, op, fmt.Sprintf("position %s; document %.400s; stored %.300s", pos, doc, dumpMsgOut(ts, got)))
			return
		}
		h.Count("c03.fault.rejected")
	}
}

func (im *impl) execQuery(h *vh.H, op string, nodes []*node) string {
	mode, rootName := nodes[1].atom, nodes[3].atom
	ts, md, err := setForRoot(rootName)
	if err != nil {
		return "bad-op"
	}
	if nodes[4].head() != "q" {
		return "bad-op"
	}
	vals := url.Values{}
	total := 0
	for _, e := range nodes[4].args() {
		if !e.isL || len(e.list) == 0 {
			return "bad-op"
		}
		kb, ok := vh.UnHex(e.list[0].atom)
		if !ok {
			return "bad-op"
		}
		vs := []string{}
		for _, v := range e.list[1:] {
			vb, ok := vh.UnHex(v.atom)
			if !ok {
				return "bad-op"
			}
			vs = append(vs, string(vb))
			total += len(vb)
		}
		total += len(kb)
		vals[string(kb)] = vs
	}
	h.Count("op.query")
	c := ts.codec(mode)
	m := ts.newMessage(md)
	res := call(op, func() error { return c.QueryToProto(vals, m) })
	if res.panicked {
		h.Fail("c06-panic:"+res.site, op, res.pval)
		return "panic"
	}
	if res.dur > timeBound(total) {
		best := res.dur
		for k := 0; k < 2 && best > timeBound(total); k++ {
			m2 := ts.newMessage(md)
			if r2 := call(op, func() error { return c.QueryToProto(vals, m2) }); r2.dur < best {
				best = r2.dur
			}
		}
		if best > timeBound(total) {
			h.Fail("c06-slow", op, fmt.Sprintf("%v (best of 3) for %d bytes", best, total))
		} else {
			h.Count("c06.slow-once-then-fast")
		}
	}
	// url.Values is a map: check that the outcome does not depend on the iteration order
	if len(vals) > 1 {
		for k := 0; k < 3; k++ {
			m2 := ts.newMessage(md)
			r2 := call(op, func() error { return c.QueryToProto(vals, m2) })
			if r2.panicked != res.panicked || (r2.err == nil) != (res.err == nil) || (res.err == nil && !proto.Equal(m.Interface(), m2.Interface())) {
				h.Count("query.order-dependent")
				return "nondet"
			}
		}
	}
	meta := metaOf(nodes)
	if res.err != nil {
		h.Count("query.err")
		im.queryOracle(h, op, ts, md, mode, meta, nil, res.err)
		return "err"
	}
	h.Count("query.ok")
	h.Nontrivial("query " + rootName + " " + sexpString(nodes[4]))
	amplification(h, op, m, total)
	im.queryOracle(h, op, ts, md, mode, meta, m, nil)
	return "ok " + dumpMsgOut(ts, m)
}

// queryOracle: a scalar supplied as a query parameter must produce the same message as the
// JSON document that carries the canonical spelling at the same path.
func (im *impl) queryOracle(h *vh.H, op string, ts *typeSet, md protoreflect.MessageDescriptor, mode string, meta *node, got protoreflect.Message, gotErr error) {
	if meta == nil || len(meta.args()) < 3 || meta.args()[0].atom != "qdoc" {
		return
	}
	kind := meta.args()[1].atom
	doc, ok := vh.UnHex(meta.args()[2].atom)
	if !ok {
		return
	}
	m0 := ts.newMessage(md)
	r0 := call(op, func() error { return ts.codec(mode).JSONToProto(doc, m0) })
	if r0.panicked || r0.err != nil {
		return
	}
	if gotErr != nil {
		h.Fail("c03-query-rejected:"+kind, op, fmt.Sprintf("%v; equivalent document %.300s is accepted", gotErr, doc))
		return
	}
	if d := diffMsg(ts, ts.rootOf(md), m0, got); d != nil {
		h.Fail("c03-query-differs:"+kind, op, fmt.Sprintf("document %.300s gives %.300s, query gives %.300s", doc, dumpMsgOut(ts, m0), dumpMsgOut(ts, got)))
		return
	}
	h.Count("c03.query.ok." + kind)
}
