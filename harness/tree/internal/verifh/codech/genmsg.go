//go:build verif

package main

import (
	"fmt"
	"math"
	"math/rand/v2"
	"strings"
	"time"
	"unicode/utf8"

	"github.com/pentops/j5/gen/j5/ext/v1/ext_j5pb"
	"google.golang.org/protobuf/proto"
	"google.golang.org/protobuf/reflect/protoreflect"
	"google.golang.org/protobuf/types/descriptorpb"
)

// Random message generator (DESIGN §6 C01 "Tie").

type mgen struct {
	r        *rand.Rand
	ts       *typeSet
	repr     bool // only values representable in the documented wire format
	maxDepth int
	budget   int
	noAny    bool
	smallMap bool            // at most one entry per map (used when the output may be unparseable)
	badKinds map[string]bool // which non-representable classes may be injected (when !repr)
}

var niceStrings = []string{
	"", "a", "hello world", "with \"quotes\" and \\backslash\\", "slash/and\bbs\fff\nnl\rcr\ttab", "\x01\x02\x1f ctl", "\x7f del",
	"😀𝄞 non-BMP", "\ufeffBOM", "line sep ", "repl\ufffdchar", "null", "true", "123", "-0", "1e5", "ключ значение", "日本語", "<script>&amp;'",
	"{\"json\":1}", "!type", "value", "a.b.c", " lead and trail ", "é́ combining", "\U0010ffff max", "\u0000nul",
	"\a\v\x1f bell vt us", "\U000e0001 tag", "\U000f0000\ufffe\u0085",
}

var niceKeys = []string{"", "a", "b", "k.dot", "ключ", "!type", "quote\"q", "value", "with space", "😀", "zz", "A", "0", "null", "back\\slash", "tab\t"}

// oddKeys: map keys which a Go-syntax quoter (strconv.Quote) and the JSON string escaper write
// differently: C0 controls without a JSON short escape (\a \v \x1f …), DEL, C1 controls, line /
// paragraph separators, non-characters, unassigned and non-printable code points above U+FFFF
// (tag characters, plane 14 / 15 / 16 private use) — C08-m8.
var oddKeys = []string{"\a", "bell\aend", "\v", "vt\vx", "\x1f", "us\x1funit", "\x7f", "del\x7f", "\x00", "nul\x00x", "\x1b[0m",
	"\u0085nel", "\u009fc1", "\u2028", "ps\u2029", "\ufffe", "\uffff", "\U000e0001", "tag\U000e0001x", "\U000e01ef", "\U000f0000",
	"\U0010ffff", "\U0001fffe", "\U0003fffd", "\u0378", "\u00ad", "\u200b", "\ufeff", "\b\f\n\r\t", "\x01\x02\x03\x04\x05\x06"}

// mapKey: 1/2 everyday keys, 1/4 odd keys, 1/4 random runes drawn mostly from the control ranges and
// the non-printable / unassigned planes.
func (g *mgen) mapKey() string {
	switch g.r.IntN(4) {
	case 0:
		return oddKeys[g.r.IntN(len(oddKeys))]
	case 1:
		n := 1 + g.r.IntN(4)
		var b strings.Builder
		for i := 0; i < n; i++ {
			var r rune
			switch g.r.IntN(8) {
			case 0, 1:
				r = rune(g.r.IntN(0x20)) // C0
			case 2:
				r = 0x7f
			case 3:
				r = rune(0x80 + g.r.IntN(0x20)) // C1
			case 4:
				r = rune(0xe0000 + g.r.IntN(0x1000)) // tags, variation selectors, unassigned
			case 5:
				r = rune(0x10000 + g.r.IntN(0x100000)) // any astral code point
			case 6:
				r = rune('a' + g.r.IntN(26))
			default:
				r = rune(g.r.IntN(0x3000))
			}
			if !utf8.ValidRune(r) {
				r = 'x'
			}
			b.WriteRune(r)
		}
		return b.String()
	}
	return niceKeys[g.r.IntN(len(niceKeys))]
}

var niceDecimals = []string{"0", "1", "-1", "1.5", "1.50", "-0.001", "100", "001.50", "+1.5", ".5", "5.", "1e3", "1E-3", "-0", "0.0", "123456789012345678901234567890.123456789", "1e+2", "0.1000", "-1.5e-7", "9999999999999999999"}

func (g *mgen) str() string {
	if !g.repr && g.badKinds["utf8"] && g.r.IntN(6) == 0 {
		return []string{"\xff", "ab\xc3", "\xed\xa0\x80 surrogate", "ok\x80tail"}[g.r.IntN(4)]
	}
	switch g.r.IntN(6) {
	case 0:
		n := g.r.IntN(300)
		var b strings.Builder
		for i := 0; i < n; i++ {
			b.WriteRune(rune('a' + g.r.IntN(26)))
		}
		return b.String()
	case 1:
		// random runes from several planes
		n := 1 + g.r.IntN(8)
		var b strings.Builder
		for i := 0; i < n; i++ {
			var r rune
			switch g.r.IntN(5) {
			case 0:
				r = rune(g.r.IntN(0x80))
			case 1:
				r = rune(0x80 + g.r.IntN(0x780))
			case 2:
				r = rune(0x800 + g.r.IntN(0xd000))
			case 3:
				r = rune(0xe000 + g.r.IntN(0x1fff))
			default:
				r = rune(0x10000 + g.r.IntN(0xfffff))
			}
			if !utf8.ValidRune(r) {
				r = 'x'
			}
			b.WriteRune(r)
		}
		return b.String()
	}
	return niceStrings[g.r.IntN(len(niceStrings))]
}

func (g *mgen) i64(bits int) int64 {
	min, max := int64(math.MinInt64), int64(math.MaxInt64)
	if bits == 32 {
		min, max = math.MinInt32, math.MaxInt32
	}
	switch g.r.IntN(10) {
	case 0:
		return 0
	case 1:
		return 1
	case 2:
		return -1
	case 3:
		return min
	case 4:
		return max
	case 5:
		return min + 1
	case 6:
		return max - 1
	case 7:
		return int64(g.r.IntN(1000)) - 500
	}
	if bits == 32 {
		return int64(int32(g.r.Uint32()))
	}
	return int64(g.r.Uint64())
}

func (g *mgen) u64(bits int) uint64 {
	max := uint64(math.MaxUint64)
	if bits == 32 {
		max = math.MaxUint32
	}
	switch g.r.IntN(9) {
	case 0:
		return 0
	case 1:
		return 1
	case 2:
		return max
	case 3:
		return max - 1
	case 4:
		return max/2 + 1 // MaxInt+1
	case 5:
		return max / 2
	case 6:
		return uint64(g.r.IntN(1000))
	}
	if bits == 32 {
		return uint64(g.r.Uint32())
	}
	return g.r.Uint64()
}

func (g *mgen) f64(bits int) float64 {
	if !g.repr && g.badKinds["float"] && g.r.IntN(3) == 0 {
		return []float64{math.NaN(), math.Inf(1), math.Inf(-1)}[g.r.IntN(3)]
	}
	var v float64
	switch g.r.IntN(14) {
	case 0:
		v = 0
	case 1:
		v = math.Copysign(0, -1)
	case 2:
		v = 1.5
	case 3:
		v = 1e21
	case 4:
		v = 1e-7
	case 5:
		v = math.MaxFloat32
	case 6:
		v = math.SmallestNonzeroFloat64
	case 7:
		v = math.MaxFloat64
	case 8:
		v = -123456.789
	case 9:
		v = 0.1
	case 10:
		v = float64(g.r.IntN(100000)) / 100
	case 11:
		v = math.SmallestNonzeroFloat32
	default:
		for {
			if bits == 32 {
				v = float64(math.Float32frombits(g.r.Uint32()))
			} else {
				v = math.Float64frombits(g.r.Uint64())
			}
			if !math.IsNaN(v) && !math.IsInf(v, 0) {
				break
			}
		}
	}
	if bits == 32 {
		f := float32(v)
		if math.IsInf(float64(f), 0) {
			f = math.MaxFloat32
		}
		return float64(f)
	}
	return v
}

func (g *mgen) bytesVal() []byte {
	n := []int{0, 1, 2, 3, 4, 5, 16, 31}[g.r.IntN(8)]
	if g.r.IntN(8) == 0 {
		n = g.r.IntN(200)
	}
	// values longer than any plausible chunk of a streaming base64 writer (C08-m7: 1024-byte chunks
	// padded separately): the boundaries of 1 / 2 / 3 KiB (3 KiB = both a chunk and a 3-byte group
	// boundary), and arbitrary lengths up to 5000
	switch g.r.IntN(24) {
	case 0:
		n = []int{1022, 1023, 1024, 1025, 1026, 1027, 2047, 2048, 2049, 2050, 3071, 3072, 3073, 3074, 4096, 4097}[g.r.IntN(16)]
	case 1:
		n = 1000 + g.r.IntN(4000)
	}
	b := make([]byte, n)
	for i := range b {
		switch g.r.IntN(4) {
		case 0:
			b[i] = 0xff
		case 1:
			b[i] = 0xfb // produces '+' and '/' in base64
		default:
			b[i] = byte(g.r.IntN(256))
		}
	}
	return b
}

const (
	minTsSec = -62135596800 // 0001-01-01T00:00:00Z
	maxTsSec = 253402300799 // 9999-12-31T23:59:59Z
)

func (g *mgen) fillTimestamp(m protoreflect.Message) {
	var s int64
	var n int32
	if !g.repr && g.badKinds["ts"] && g.r.IntN(3) == 0 {
		s = []int64{minTsSec - 1, maxTsSec + 1, math.MaxInt64, math.MinInt64, 0, 5}[g.r.IntN(6)]
		n = []int32{0, -1, 1000000000, math.MaxInt32, math.MinInt32}[g.r.IntN(5)]
	} else {
		switch g.r.IntN(8) {
		case 0:
			s = 0
		case 1:
			s = minTsSec
		case 2:
			s = maxTsSec
		case 3:
			s = -1
		case 4:
			s = 1700000000
		default:
			s = minTsSec + g.r.Int64N(maxTsSec-minTsSec)
		}
		n = []int32{0, 0, 1, 999999999, 500000000, 120000000, 123456789, 1000}[g.r.IntN(8)]
	}
	if s != 0 {
		setByName(m, "seconds", protoreflect.ValueOfInt64(s))
	}
	if n != 0 {
		setByName(m, "nanos", protoreflect.ValueOfInt32(n))
	}
}

func daysIn(y, m int) int {
	return time.Date(y, time.Month(m)+1, 0, 0, 0, 0, 0, time.UTC).Day()
}

func (g *mgen) fillDate(m protoreflect.Message) {
	var y, mo, d int32
	if !g.repr && g.badKinds["date"] && g.r.IntN(2) == 0 {
		y = []int32{0, -5, 10000, 2020, 123456, math.MinInt32}[g.r.IntN(6)]
		mo = []int32{0, 13, 1, -1, 100}[g.r.IntN(5)]
		d = []int32{0, 32, 1, -1, 31}[g.r.IntN(5)]
	} else {
		y = []int32{1, 33, 999, 1000, 9999, 2024, 2000, 1900}[g.r.IntN(8)]
		if g.r.IntN(2) == 0 {
			y = int32(1 + g.r.IntN(9999))
		}
		mo = int32(1 + g.r.IntN(12))
		d = int32(1 + g.r.IntN(daysIn(int(y), int(mo))))
		// calendar boundaries (C03-m9: a leap rule without the century exception): the last day of
		// February on years = 0 mod 4 / 100 / 400, and the last day of every month
		switch g.r.IntN(6) {
		case 0:
			y = []int32{4, 96, 400, 1200, 1600, 1996, 2000, 2004, 2024, 2400, 4000, 8000, 9996}[g.r.IntN(13)] // leap
			mo, d = 2, 29
		case 1:
			y = []int32{100, 200, 300, 500, 1700, 1800, 1900, 2100, 2200, 2300, 2500, 9900, 2023, 2101, 1}[g.r.IntN(15)] // not leap
			mo, d = 2, 28
		case 2:
			d = int32(daysIn(int(y), int(mo)))
		}
	}
	for i, v := range []int32{y, mo, d} {
		if v != 0 {
			setByName(m, []string{"year", "month", "day"}[i], protoreflect.ValueOfInt32(v))
		}
	}
}

func (g *mgen) fillDecimal(m protoreflect.Message) {
	s := niceDecimals[g.r.IntN(len(niceDecimals))]
	if !g.repr && g.badKinds["decimal"] && g.r.IntN(2) == 0 {
		s = []string{"", "abc", "1.2.3", "1\"2", "NaN", "--1"}[g.r.IntN(6)]
	}
	if s != "" {
		setByName(m, "value", protoreflect.ValueOfString(s))
	}
}

func (g *mgen) pickInner() protoreflect.MessageDescriptor {
	n := g.ts.roots[g.r.IntN(len(g.ts.roots))]
	return g.ts.byRoot[n]
}

func safeEncode(ts *typeSet, mode string, m protoreflect.Message) (b []byte, err error) {
	defer func() {
		if r := recover(); r != nil {
			err = fmt.Errorf("panic: %v", r)
		}
	}()
	return ts.codec(mode).ProtoToJSON(m)
}

func (g *mgen) fillAny(m protoreflect.Message, depth int, pb bool) {
	if !g.repr && g.badKinds["any"] && g.r.IntN(2) == 0 {
		switch g.r.IntN(4) {
		case 0: // empty
		case 1: // type only
			if pb {
				setByName(m, "type_url", protoreflect.ValueOfString(anyPrefix+"no.such.Type"))
			} else {
				setByName(m, "type_name", protoreflect.ValueOfString("no.such.Type"))
			}
		case 2: // unknown type with data
			if pb {
				setByName(m, "type_url", protoreflect.ValueOfString("no.such.Type"))
				setByName(m, "value", protoreflect.ValueOfBytes([]byte{8, 1}))
			} else {
				setByName(m, "type_name", protoreflect.ValueOfString("no.such.Type"))
				setByName(m, "proto", protoreflect.ValueOfBytes([]byte{8, 1}))
			}
		case 3: // known type, garbage proto bytes
			md := g.pickInner()
			if pb {
				setByName(m, "type_url", protoreflect.ValueOfString(anyPrefix+string(md.FullName())))
				setByName(m, "value", protoreflect.ValueOfBytes([]byte{0xff, 0xff, 0xff}))
			} else {
				setByName(m, "type_name", protoreflect.ValueOfString(string(md.FullName())))
				setByName(m, "proto", protoreflect.ValueOfBytes([]byte{0xff, 0xff, 0xff}))
			}
		}
		return
	}
	md := g.pickInner()
	sub := *g
	sub.noAny = depth >= 1 // any inside any at most once
	inner := sub.message(md, depth+1)
	g.budget = sub.budget
	pbytes, err := proto.MarshalOptions{Deterministic: true}.Marshal(inner.Interface())
	if err != nil {
		return
	}
	if pb {
		setByName(m, "type_url", protoreflect.ValueOfString(anyPrefix+string(md.FullName())))
		if len(pbytes) > 0 {
			setByName(m, "value", protoreflect.ValueOfBytes(pbytes))
		}
		return
	}
	setByName(m, "type_name", protoreflect.ValueOfString(string(md.FullName())))
	js, jerr := safeEncode(g.ts, "n", inner)
	switch g.r.IntN(3) {
	case 0:
		if jerr == nil {
			setByName(m, "j5_json", protoreflect.ValueOfBytes(js))
			return
		}
		fallthrough
	case 1:
		if len(pbytes) > 0 {
			setByName(m, "proto", protoreflect.ValueOfBytes(pbytes))
		} else if jerr == nil {
			setByName(m, "j5_json", protoreflect.ValueOfBytes(js))
		}
	default:
		if len(pbytes) > 0 {
			setByName(m, "proto", protoreflect.ValueOfBytes(pbytes))
		}
		if jerr == nil {
			setByName(m, "j5_json", protoreflect.ValueOfBytes(js))
		}
	}
}

func (g *mgen) enumNumber(ed protoreflect.EnumDescriptor) protoreflect.EnumNumber {
	vs := ed.Values()
	if !g.repr && g.badKinds["enum"] && g.r.IntN(3) == 0 {
		return protoreflect.EnumNumber(900 + g.r.IntN(10))
	}
	n := vs.Get(g.r.IntN(vs.Len())).Number()
	if g.repr && n == 0 && !enumDefined(g.ts, ed, 0) && vs.Len() > 1 {
		n = vs.Get(1 + g.r.IntN(vs.Len()-1)).Number() // NoDefault enums have no option for 0
	}
	return n
}

func (g *mgen) single(fd protoreflect.FieldDescriptor, depth int, newVal func() protoreflect.Value) protoreflect.Value {
	switch fd.Kind() {
	case protoreflect.BoolKind:
		return protoreflect.ValueOfBool(g.r.IntN(3) != 0)
	case protoreflect.Int32Kind, protoreflect.Sint32Kind:
		return protoreflect.ValueOfInt32(int32(g.i64(32)))
	case protoreflect.Int64Kind, protoreflect.Sint64Kind:
		return protoreflect.ValueOfInt64(g.i64(64))
	case protoreflect.Uint32Kind:
		return protoreflect.ValueOfUint32(uint32(g.u64(32)))
	case protoreflect.Uint64Kind:
		return protoreflect.ValueOfUint64(g.u64(64))
	case protoreflect.FloatKind:
		return protoreflect.ValueOfFloat32(float32(g.f64(32)))
	case protoreflect.DoubleKind:
		return protoreflect.ValueOfFloat64(g.f64(64))
	case protoreflect.StringKind:
		return protoreflect.ValueOfString(g.str())
	case protoreflect.BytesKind:
		return protoreflect.ValueOfBytes(g.bytesVal())
	case protoreflect.EnumKind:
		return protoreflect.ValueOfEnum(g.enumNumber(fd.Enum()))
	case protoreflect.MessageKind:
		v := newVal()
		m := v.Message()
		switch fd.Message().FullName() {
		case fnTimestamp:
			g.fillTimestamp(m)
		case fnDate:
			g.fillDate(m)
		case fnDecimal:
			g.fillDecimal(m)
		case fnAnyJ5:
			g.fillAny(m, depth, false)
		case fnAnyPb:
			g.fillAny(m, depth, true)
		default:
			if isFlattenField(fd) {
				// a flattened object is part of its parent: it does not count towards the nesting limit
				return protoreflect.ValueOfMessage(g.message(fd.Message(), depth))
			}
			return protoreflect.ValueOfMessage(g.message(fd.Message(), depth+1))
		}
		return v
	}
	return protoreflect.Value{}
}

func isAnyField(fd protoreflect.FieldDescriptor) bool {
	if fd.Kind() != protoreflect.MessageKind {
		return false
	}
	n := fd.Message().FullName()
	return n == fnAnyJ5 || n == fnAnyPb
}

func plainMessageField(fd protoreflect.FieldDescriptor) bool {
	if fd.Kind() != protoreflect.MessageKind {
		return false
	}
	switch fd.Message().FullName() {
	case fnTimestamp, fnDate, fnDecimal, fnAnyJ5, fnAnyPb:
		return false
	}
	return true
}

func isFlattenField(fd protoreflect.FieldDescriptor) bool {
	opts, ok := fd.Options().(*descriptorpb.FieldOptions)
	if !ok || opts == nil {
		return false
	}
	ext, ok := proto.GetExtension(opts, ext_j5pb.E_Field).(*ext_j5pb.FieldOptions)
	if !ok || ext == nil {
		return false
	}
	return ext.GetMessage().GetFlatten()
}

func (g *mgen) message(md protoreflect.MessageDescriptor, depth int) protoreflect.Message {
	m := g.ts.newMessage(md)
	fds := md.Fields()
	chosen := map[int]protoreflect.FieldDescriptor{} // real oneof index -> member
	for i := 0; i < md.Oneofs().Len(); i++ {
		oo := md.Oneofs().Get(i)
		if oo.IsSynthetic() {
			continue
		}
		if g.r.IntN(4) != 0 {
			chosen[i] = oo.Fields().Get(g.r.IntN(oo.Fields().Len()))
		}
	}
	for i := 0; i < fds.Len(); i++ {
		fd := fds.Get(i)
		if g.budget <= 0 {
			break
		}
		if oo := fd.ContainingOneof(); oo != nil && !oo.IsSynthetic() {
			if chosen[oo.Index()] != fd {
				continue
			}
		} else if g.r.IntN(100) >= 55 && !(isFlattenField(fd) && g.r.IntN(100) < 70) {
			// (flattened objects are kept more often: their properties belong to this object)
			continue
		}
		if isAnyField(fd) && (g.noAny || depth >= g.maxDepth) {
			continue
		}
		deep := plainMessageField(fd) || (fd.IsMap() && plainMessageField(fd.MapValue()))
		if deep && depth >= g.maxDepth {
			// allow an empty message at the depth limit now and then
			if fd.IsList() || fd.IsMap() || g.r.IntN(3) != 0 {
				continue
			}
			g.budget--
			m.Set(fd, protoreflect.ValueOfMessage(g.ts.newMessage(fd.Message())))
			continue
		}
		g.budget--
		switch {
		case fd.IsMap():
			mv := m.Mutable(fd).Map()
			n := 1 + g.r.IntN(3)
			if g.smallMap {
				n = 1
			}
			for k := 0; k < n; k++ {
				key := g.mapKey()
				if !g.repr && g.badKinds["utf8"] && g.r.IntN(10) == 0 {
					key = "bad\xffkey"
				}
				v := g.single(fd.MapValue(), depth, func() protoreflect.Value { return mv.NewValue() })
				if v.IsValid() {
					mv.Set(protoreflect.ValueOfString(key).MapKey(), v)
				}
				g.budget--
			}
		case fd.IsList():
			lv := m.Mutable(fd).List()
			n := 1 + g.r.IntN(3)
			if g.r.IntN(10) == 0 {
				n = 8
			}
			for k := 0; k < n; k++ {
				v := g.single(fd, depth, func() protoreflect.Value { return lv.NewElement() })
				if v.IsValid() {
					lv.Append(v)
				}
				g.budget--
			}
		default:
			if plainMessageField(fd) && g.r.IntN(6) == 0 {
				// present but empty sub-message (empty flattened object, empty oneof wrapper, …)
				m.Set(fd, protoreflect.ValueOfMessage(g.ts.newMessage(fd.Message())))
				continue
			}
			if fd.HasPresence() && fd.Kind() != protoreflect.MessageKind && g.r.IntN(3) == 0 &&
				!(g.repr && fd.Kind() == protoreflect.EnumKind && !enumDefined(g.ts, fd.Enum(), 0)) {
				// optional-with-zero-value
				m.Set(fd, fd.Default())
				continue
			}
			v := g.single(fd, depth, func() protoreflect.Value { return m.NewField(fd) })
			if v.IsValid() {
				m.Set(fd, v)
			}
		}
	}
	return m
}

// ---- representability (property C01/C08 quantifier), recomputed from the message itself

// checkRepr reports whether every value of m is representable in the documented wire format;
// why names the first offending class.
func checkRepr(ts *typeSet, m protoreflect.Message) (ok bool, why string) {
	ok = true
	var walk func(m protoreflect.Message, depth int)
	bad := func(w string) {
		if ok {
			ok, why = false, w
		}
	}
	var single func(fd protoreflect.FieldDescriptor, v protoreflect.Value, depth int)
	single = func(fd protoreflect.FieldDescriptor, v protoreflect.Value, depth int) {
		switch fd.Kind() {
		case protoreflect.StringKind:
			if !utf8.ValidString(v.String()) {
				bad("utf8")
			}
		case protoreflect.FloatKind, protoreflect.DoubleKind:
			if math.IsNaN(v.Float()) || math.IsInf(v.Float(), 0) {
				bad("float-nonfinite")
			}
		case protoreflect.EnumKind:
			if !enumDefined(ts, fd.Enum(), int32(v.Enum())) {
				bad("enum-undefined")
			}
		case protoreflect.MessageKind:
			sm := v.Message()
			switch sm.Descriptor().FullName() {
			case fnTimestamp:
				s, n := getInt(sm, "seconds"), getInt(sm, "nanos")
				if s < minTsSec || s > maxTsSec || n < 0 || n > 999999999 {
					bad("timestamp-range")
				}
			case fnDate:
				y, mo, d := getInt(sm, "year"), getInt(sm, "month"), getInt(sm, "day")
				if y < 1 || y > 9999 || mo < 1 || mo > 12 || d < 1 || d > int64(daysIn(int(y), int(mo))) {
					bad("date-range")
				}
			case fnDecimal:
				if _, err := safeDecimal(getStr(sm, "value")); err != nil {
					bad("decimal-malformed")
				}
			case fnAnyJ5:
				tn := getStr(sm, "type_name")
				md, known := ts.byProto[protoreflect.FullName(tn)]
				pb, js := getBytes(sm, "proto"), getBytes(sm, "j5_json")
				if len(pb) == 0 && len(js) == 0 {
					bad("any-empty")
				} else if !known {
					bad("any-unknown-type")
				} else {
					if len(pb) > 0 {
						im := ts.newMessage(md)
						if err := proto.Unmarshal(pb, im.Interface()); err != nil {
							bad("any-bad-proto")
						} else {
							walk(im, depth+1)
						}
					}
					if len(js) > 0 {
						if doc, err := parseStrict(js); err != nil {
							bad("any-bad-json")
						} else if ir := ts.rootOf(md); !ir.broken {
							// the stored JSON must itself be a valid J5 document of the named type
							nz := &normalizer{ts: ts, mode: "p"}
							if _, err := nz.root(ir, doc, "$"); err != nil || nz.nonFinite {
								bad("any-bad-json-content")
							}
						}
					}
				}
			case fnAnyPb:
				tu := getStr(sm, "type_url")
				md, known := ts.byProto[protoreflect.FullName(strings.TrimPrefix(tu, anyPrefix))]
				if !known || !strings.HasPrefix(tu, anyPrefix) {
					bad("any-unknown-type")
				} else {
					im := ts.newMessage(md)
					if err := proto.Unmarshal(getBytes(sm, "value"), im.Interface()); err != nil {
						bad("any-bad-proto")
					} else {
						walk(im, depth+1)
					}
				}
			default:
				walk(sm, depth+1)
			}
		}
	}
	walk = func(m protoreflect.Message, depth int) {
		m.Range(func(fd protoreflect.FieldDescriptor, v protoreflect.Value) bool {
			switch {
			case fd.IsMap():
				v.Map().Range(func(k protoreflect.MapKey, mv protoreflect.Value) bool {
					if !utf8.ValidString(k.String()) {
						bad("utf8")
					}
					single(fd.MapValue(), mv, depth)
					return true
				})
			case fd.IsList():
				for i := 0; i < v.List().Len(); i++ {
					single(fd, v.List().Get(i), depth)
				}
			default:
				single(fd, v, depth)
			}
			return true
		})
	}
	walk(m, 0)
	return ok, why
}

// enumDefined: the number is an option of the J5 enum (NoDefault removes the zero value).
func enumDefined(ts *typeSet, ed protoreflect.EnumDescriptor, n int32) bool {
	if ed.Values().ByNumber(protoreflect.EnumNumber(n)) == nil {
		return false
	}
	if n == 0 {
		if se := enumView(ts, ed); se != nil {
			_, ok := se.byNumber(0)
			return ok
		}
	}
	return true
}
