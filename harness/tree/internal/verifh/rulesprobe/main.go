//go:build verif

package main

import (
	"context"
	"fmt"
	"os"
	"sort"
	"strings"

	"github.com/bufbuild/protovalidate-go"
	"github.com/pentops/j5/internal/j5s/protobuild"
	"github.com/pentops/j5/internal/j5s/protoprint"
	"github.com/pentops/j5/lib/j5schema"
	"google.golang.org/protobuf/encoding/prototext"
	"google.golang.org/protobuf/reflect/protodesc"
	"google.golang.org/protobuf/types/descriptorpb"
)

type files struct {
	m map[string][]byte
}

func (f *files) ListPackages() []string { return []string{"foo.v1"} }
func (f *files) ListSourceFiles(ctx context.Context, prefix string) ([]string, error) {
	var out []string
	for k := range f.m {
		if strings.HasPrefix(k, prefix) {
			out = append(out, k)
		}
	}
	sort.Strings(out)
	return out, nil
}
func (f *files) GetLocalFile(ctx context.Context, fn string) ([]byte, error) {
	if b, ok := f.m[fn]; ok {
		return b, nil
	}
	return nil, fmt.Errorf("nf %s", fn)
}

type deps struct{}

func (deps) ListDependencyFiles(root string) []string { return nil }
func (deps) GetDependencyFile(fn string) (*descriptorpb.FileDescriptorProto, error) {
	return nil, fmt.Errorf("nf dep %s", fn)
}

func main() {
	src, _ := os.ReadFile(os.Args[1])
	f := &files{m: map[string][]byte{"foo/v1/a.j5s": src}}
	ps, err := protobuild.NewPackageSet(deps{}, f)
	if err != nil {
		panic(err)
	}
	out, err := ps.CompilePackage(context.Background(), "foo.v1")
	if err != nil {
		fmt.Println("COMPILE ERR:", err)
		return
	}
	_ = protovalidate.New
	mo := prototext.MarshalOptions{Multiline: false}
	for _, file := range out {
		for i := 0; i < file.Messages().Len(); i++ {
			md := file.Messages().Get(i)
			for j := 0; j < md.Fields().Len(); j++ {
				fd := md.Fields().Get(j)
				fdp := protodesc.ToFieldDescriptorProto(fd)
				fmt.Printf("W %s %s %v opt3=%v: %s\n", fd.Name(), fd.Kind(), fd.Cardinality(), fd.HasOptionalKeyword(), mo.Format(fdp.Options))
			}
		}
		if os.Getenv("PRINT") != "" {
			txt, err := protoprint.PrintFile(context.Background(), file, "")
			fmt.Println("PRINT:", err)
			fmt.Println(txt)
		}
		cache := j5schema.NewSchemaCache()
		for i := 0; i < file.Messages().Len(); i++ {
			func() {
				defer func() {
					if r := recover(); r != nil {
						fmt.Println("READER PANIC:", r)
					}
				}()
				s, err := cache.Schema(file.Messages().Get(i))
				if err != nil {
					fmt.Println("READER ERR:", err)
					return
				}
				root := s.ToJ5Root()
				if o := root.GetObject(); o != nil {
					for _, p := range o.Properties {
						fmt.Printf("R %s\n", mo.Format(p))
					}
				} else {
					fmt.Println(mo.Format(root))
				}
			}()
		}
	}
}
