//go:build verif

package j5sgen

import (
	"encoding/hex"
	"fmt"
	"strconv"
	"strings"
)

// Node is an s-expression: an atom or a list.
type Node struct {
	Atom string
	Kids []*Node
	List bool
}

func (n *Node) String() string {
	var sb strings.Builder
	n.write(&sb)
	return sb.String()
}

func (n *Node) write(sb *strings.Builder) {
	if !n.List {
		sb.WriteString(n.Atom)
		return
	}
	sb.WriteByte('(')
	for i, k := range n.Kids {
		if i > 0 {
			sb.WriteByte(' ')
		}
		k.write(sb)
	}
	sb.WriteByte(')')
}

// ParseLine splits "op sexp sexp atom ..." into the op name and its arguments.
func ParseLine(line string) (string, []*Node, error) {
	p := &sparser{s: line}
	op := p.atom()
	if op == "" {
		return "", nil, fmt.Errorf("missing op")
	}
	var args []*Node
	for p.i < len(p.s) {
		if p.s[p.i] != ' ' {
			return "", nil, fmt.Errorf("expected space at %d", p.i)
		}
		p.i++
		n, err := p.node()
		if err != nil {
			return "", nil, err
		}
		args = append(args, n)
	}
	return op, args, nil
}

type sparser struct {
	s string
	i int
}

func (p *sparser) atom() string {
	st := p.i
	for p.i < len(p.s) && p.s[p.i] != ' ' && p.s[p.i] != '(' && p.s[p.i] != ')' {
		p.i++
	}
	return p.s[st:p.i]
}

func (p *sparser) node() (*Node, error) {
	if p.i >= len(p.s) {
		return nil, fmt.Errorf("unexpected end")
	}
	if p.s[p.i] == '(' {
		p.i++
		n := &Node{List: true}
		for {
			if p.i >= len(p.s) {
				return nil, fmt.Errorf("unclosed list")
			}
			if p.s[p.i] == ')' {
				p.i++
				return n, nil
			}
			if len(n.Kids) > 0 {
				if p.s[p.i] != ' ' {
					return nil, fmt.Errorf("expected space at %d", p.i)
				}
				p.i++
			}
			k, err := p.node()
			if err != nil {
				return nil, err
			}
			n.Kids = append(n.Kids, k)
		}
	}
	a := p.atom()
	if a == "" {
		return nil, fmt.Errorf("empty atom at %d", p.i)
	}
	return &Node{Atom: a}, nil
}

// ---- constructors

func L(head string, kids ...*Node) *Node {
	return &Node{List: true, Kids: append([]*Node{{Atom: head}}, kids...)}
}
func A(s string) *Node { return &Node{Atom: s} }
func S(s string) *Node {
	if s == "" {
		return &Node{Atom: "-"}
	}
	return &Node{Atom: hex.EncodeToString([]byte(s))}
}
func N(n int) *Node { return &Node{Atom: strconv.Itoa(n)} }
func B(b bool) *Node {
	if b {
		return &Node{Atom: "1"}
	}
	return &Node{Atom: "0"}
}
func OptS(s *string) *Node {
	if s == nil {
		return L("none")
	}
	return L("some", S(*s))
}

// ---- encoding

func (b *Bundle) Sexp() *Node {
	n := L("bundle")
	for _, p := range b.Pkgs {
		pn := L("pkg", S(p.Name))
		for _, f := range p.Files {
			pn.Kids = append(pn.Kids, f.Sexp())
		}
		n.Kids = append(n.Kids, pn)
	}
	return n
}

func (f *File) Sexp() *Node {
	if f.Proto {
		msgs := L("msgs")
		for _, m := range f.ProtoMsgs {
			msgs.Kids = append(msgs.Kids, S(m))
		}
		enums := L("enums")
		for _, e := range f.ProtoEnums {
			en := L("penum", S(e.Name))
			for _, v := range e.Values {
				en.Kids = append(en.Kids, S(v))
			}
			enums.Kids = append(enums.Kids, en)
		}
		return L("proto", S(f.Path), msgs, enums)
	}
	imps := L("imports")
	for _, im := range f.Imports {
		imps.Kids = append(imps.Kids, L("import", S(im.Path), S(im.Alias)))
	}
	elems := L("elems")
	for _, e := range f.Elems {
		elems.Kids = append(elems.Kids, e.Sexp())
	}
	if f.DeclPkg != "" {
		return L("j5s", S(f.Path), imps, elems, L("decl", S(f.DeclPkg)))
	}
	return L("j5s", S(f.Path), imps, elems)
}

func (e *Elem) Sexp() *Node {
	switch e.Kind {
	case KObject, KOneof:
		return e.Object.Sexp()
	case KEnum:
		return e.Enum.Sexp()
	case KService:
		return e.Service.Sexp()
	case KTopic:
		return e.Topic.Sexp()
	case KEntity:
		return e.Entity.Sexp()
	}
	panic("bad elem kind " + e.Kind)
}

func propsSexp(head string, props []*Prop) *Node {
	n := L(head)
	for _, p := range props {
		n.Kids = append(n.Kids, p.Sexp())
	}
	return n
}

func nestedSexp(nested []*Elem) *Node {
	n := L("nested")
	for _, e := range nested {
		n.Kids = append(n.Kids, e.Sexp())
	}
	return n
}

func (o *Object) Sexp() *Node {
	head := "object"
	if o.Oneof {
		head = "oneof"
	}
	n := L(head, S(o.Name), propsSexp("props", o.Props), nestedSexp(o.Nested))
	if o.PSM != nil {
		n.Kids = append(n.Kids, L("psm", S(o.PSM.Entity), A(o.PSM.Part)))
	}
	return n
}

func optsSexp(opts []string, nums Nums) *Node {
	n := L("opts")
	for _, o := range opts {
		if v := nums[o]; v > 0 {
			n.Kids = append(n.Kids, L("o", S(o), N(int(v))))
		} else {
			n.Kids = append(n.Kids, L("o", S(o)))
		}
	}
	return n
}

func (e *Enum) Sexp() *Node {
	return L("enum", S(e.Name), S(e.Prefix), optsSexp(e.Opts, e.Nums))
}

func (p *Prop) Sexp() *Node {
	return L("p", S(p.Name), B(p.Req), B(p.Opt), p.Field.Sexp())
}

func rulesSexp(rules []Rule) *Node {
	n := L("rules")
	for _, r := range rules {
		var lit *Node
		switch r.Lit.Kind {
		case "i":
			lit = L("i", A(strconv.FormatUint(r.Lit.N, 10)))
		case "neg":
			lit = L("neg", A(strconv.FormatUint(r.Lit.N, 10)))
		case "s":
			lit = L("s", S(r.Lit.S))
		case "b":
			lit = L("b", B(r.Lit.B))
		case "strs":
			lit = L("strs")
			for _, s := range r.Lit.Strs {
				lit.Kids = append(lit.Kids, S(s))
			}
		default:
			panic("bad lit kind")
		}
		n.Kids = append(n.Kids, L("r", S(r.Name), lit))
	}
	return n
}

func (f *Field) Sexp() *Node {
	r := rulesSexp(f.Rules)
	switch f.Kind {
	case FString, FBool, FBytes, FDate, FDecimal, FTimestamp:
		return L(f.Kind, r)
	case FAny:
		return L("any")
	case FInteger, FFloat:
		return L(f.Kind, A(f.Fmt), r)
	case FKey:
		var kf *Node
		if f.Fmt == "custom" {
			kf = L("custom", S(f.Pattern))
		} else {
			kf = A(f.Fmt)
		}
		ek := L("nokey")
		if f.EntKey != nil {
			var kind *Node
			switch f.EntKey.Kind {
			case "plain":
				kind = L("plain")
			case "primary":
				kind = L("primary", B(f.EntKey.Primary))
			case "foreign":
				kind = L("foreign", S(f.EntKey.FPkg), S(f.EntKey.FEntity))
			default:
				panic("bad entkey kind")
			}
			ek = L("ek", kind, OptS(f.EntKey.Tenant))
		}
		return L("key", kf, ek, r)
	case FObject:
		return L("object", f.Ref.Sexp(), B(f.Flatten), r)
	case FOneof, FEnum:
		if f.Kind == FEnum && f.HasList {
			lr := L("lr")
			for _, v := range f.ListFilters {
				lr.Kids = append(lr.Kids, S(v))
			}
			return L(f.Kind, f.Ref.Sexp(), r, lr)
		}
		return L(f.Kind, f.Ref.Sexp(), r)
	case FArray, FMap:
		return L(f.Kind, f.Items.Sexp(), r)
	}
	panic("bad field kind " + f.Kind)
}

func (t *TRef) Sexp() *Node {
	switch t.Kind {
	case RRef:
		return L("ref", S(t.Pkg), S(t.Schema))
	case RInlObj, RInlOneof:
		return L(t.Kind, S(t.Name), propsSexp("props", t.Props))
	case RInlEnum:
		return L("inlenum", S(t.Name), S(t.Prefix), optsSexp(t.Opts, t.Nums))
	}
	panic("bad tref kind")
}

func (s *Service) Sexp() *Node {
	ms := L("methods")
	for _, m := range s.Methods {
		res := L("none")
		if m.HasRes {
			res = propsSexp("some", m.Res)
		}
		ms.Kids = append(ms.Kids, L("method", S(m.Name), A(m.Verb), S(m.Path), propsSexp("req", m.Req), res))
	}
	return L("service", S(s.Name), OptS(s.BasePath), ms)
}

func (m *TMsg) Sexp() *Node {
	return L("msg", OptS(m.Name), propsSexp("props", m.Props))
}

func tmsgs(head string, ms []*TMsg) *Node {
	n := L(head)
	for _, m := range ms {
		n.Kids = append(n.Kids, m.Sexp())
	}
	return n
}

func (t *Topic) Sexp() *Node {
	var tt *Node
	switch t.Kind {
	case "publish":
		tt = tmsgs("publish", t.Msgs)
	case "upsert":
		tt = tmsgs("upsert", t.Msgs)
	case "reqres":
		tt = L("reqres", tmsgs("reqs", t.Reqs), tmsgs("reps", t.Reps))
	default:
		panic("bad topic kind")
	}
	return L("topic", S(t.Name), tt)
}

func (e *Entity) Sexp() *Node {
	keys := L("keys")
	for _, k := range e.Keys {
		keys.Kids = append(keys.Kids, L("k", k.Prop.Sexp(), B(k.Shard)))
	}
	st := L("statuses")
	for _, s := range e.Statuses {
		if v := e.StatusNums[s]; v > 0 {
			st.Kids = append(st.Kids, L("o", S(s), N(int(v))))
		} else {
			st.Kids = append(st.Kids, S(s))
		}
	}
	ev := L("events")
	for _, o := range e.Events {
		ev.Kids = append(ev.Kids, o.Sexp())
	}
	cm := L("commands")
	for _, c := range e.Commands {
		cm.Kids = append(cm.Kids, c.Sexp())
	}
	sm := L("summaries")
	for _, s := range e.Summaries {
		sm.Kids = append(sm.Kids, L("summary", S(s.Name), propsSexp("props", s.Props)))
	}
	q := L("noquery")
	if e.Query != nil {
		fl := L("filters")
		for _, f := range e.Query.Filters {
			fl.Kids = append(fl.Kids, S(f))
		}
		q = L("query", B(e.Query.EventsInGet), fl)
	}
	return L("entity", S(e.Name), S(e.BaseURL), keys, propsSexp("data", e.Data), st, ev, cm, sm, q, nestedSexp(e.Nested))
}

// ---- decoding

type decErr struct{ msg string }

func (e decErr) Error() string { return e.msg }

func bad(f string, a ...any) { panic(decErr{fmt.Sprintf(f, a...)}) }

func catch(err *error) {
	if r := recover(); r != nil {
		if de, ok := r.(decErr); ok {
			*err = de
			return
		}
		panic(r)
	}
}

func (n *Node) head() string {
	if !n.List || len(n.Kids) == 0 || n.Kids[0].List {
		bad("expected list with head, got %s", n.String())
	}
	return n.Kids[0].Atom
}

func (n *Node) expect(head string, minArgs int) []*Node {
	if n.head() != head {
		bad("expected (%s …), got %s", head, n.String())
	}
	if len(n.Kids)-1 < minArgs {
		bad("(%s …) needs %d args", head, minArgs)
	}
	return n.Kids[1:]
}

func (n *Node) Str() string {
	if n.List {
		bad("expected string atom")
	}
	if n.Atom == "-" {
		return ""
	}
	b, err := hex.DecodeString(n.Atom)
	if err != nil {
		bad("bad hex %q", n.Atom)
	}
	return string(b)
}

func (n *Node) Int() int {
	if n.List {
		bad("expected number")
	}
	v, err := strconv.Atoi(n.Atom)
	if err != nil {
		bad("bad number %q", n.Atom)
	}
	return v
}

func (n *Node) Bool() bool {
	if n.List || (n.Atom != "0" && n.Atom != "1") {
		bad("expected 0/1")
	}
	return n.Atom == "1"
}

func (n *Node) optStr() *string {
	switch n.head() {
	case "none":
		return nil
	case "some":
		a := n.expect("some", 1)
		s := a[0].Str()
		return &s
	}
	bad("expected (none)/(some x)")
	return nil
}

func DecodeBundle(n *Node) (b *Bundle, err error) {
	defer catch(&err)
	b = &Bundle{}
	for _, pn := range n.expect("bundle", 0) {
		a := pn.expect("pkg", 1)
		p := &Pkg{Name: a[0].Str()}
		for _, fn := range a[1:] {
			p.Files = append(p.Files, decFile(fn))
		}
		b.Pkgs = append(b.Pkgs, p)
	}
	return b, nil
}

func decFile(n *Node) *File {
	switch n.head() {
	case "proto":
		a := n.expect("proto", 3)
		f := &File{Proto: true, Path: a[0].Str()}
		for _, m := range a[1].expect("msgs", 0) {
			f.ProtoMsgs = append(f.ProtoMsgs, m.Str())
		}
		for _, e := range a[2].expect("enums", 0) {
			ea := e.expect("penum", 1)
			pe := PEnum{Name: ea[0].Str()}
			for _, v := range ea[1:] {
				pe.Values = append(pe.Values, v.Str())
			}
			f.ProtoEnums = append(f.ProtoEnums, pe)
		}
		return f
	case "j5s":
		a := n.expect("j5s", 3)
		f := &File{Path: a[0].Str()}
		for _, im := range a[1].expect("imports", 0) {
			ia := im.expect("import", 2)
			f.Imports = append(f.Imports, Import{Path: ia[0].Str(), Alias: ia[1].Str()})
		}
		for _, e := range a[2].expect("elems", 0) {
			f.Elems = append(f.Elems, DecElem(e))
		}
		switch len(a) {
		case 3:
		case 4:
			f.DeclPkg = a[3].expect("decl", 1)[0].Str()
			if f.DeclPkg == "" || len(a[3].Kids) != 2 {
				bad("bad decl")
			}
		default:
			bad("(j5s …) takes 3 or 4 args")
		}
		return f
	}
	bad("bad file %s", n.head())
	return nil
}

// DecodeElem decodes one element (used by appenddecl edits).
func DecodeElem(n *Node) (e *Elem, err error) {
	defer catch(&err)
	return DecElem(n), nil
}

// DecodeProp decodes one property (used by appendfield edits).
func DecodeProp(n *Node) (p *Prop, err error) {
	defer catch(&err)
	return decProp(n), nil
}

func DecElem(n *Node) *Elem {
	switch n.head() {
	case "object", "oneof":
		o := decObject(n)
		k := KObject
		if o.Oneof {
			k = KOneof
		}
		return &Elem{Kind: k, Object: o}
	case "enum":
		a := n.expect("enum", 3)
		opts, nums := decOpts(a[2])
		return &Elem{Kind: KEnum, Enum: &Enum{Name: a[0].Str(), Prefix: a[1].Str(), Opts: opts, Nums: nums}}
	case "service":
		return &Elem{Kind: KService, Service: decService(n)}
	case "topic":
		a := n.expect("topic", 2)
		t := &Topic{Name: a[0].Str(), Kind: a[1].head()}
		switch t.Kind {
		case "publish", "upsert":
			for _, m := range a[1].Kids[1:] {
				t.Msgs = append(t.Msgs, decTMsg(m))
			}
		case "reqres":
			ra := a[1].expect("reqres", 2)
			for _, m := range ra[0].expect("reqs", 0) {
				t.Reqs = append(t.Reqs, decTMsg(m))
			}
			for _, m := range ra[1].expect("reps", 0) {
				t.Reps = append(t.Reps, decTMsg(m))
			}
		default:
			bad("bad topic type")
		}
		return &Elem{Kind: KTopic, Topic: t}
	case "entity":
		a := n.expect("entity", 10)
		e := &Entity{Name: a[0].Str(), BaseURL: a[1].Str()}
		for _, k := range a[2].expect("keys", 0) {
			ka := k.expect("k", 2)
			e.Keys = append(e.Keys, &EKey{Prop: decProp(ka[0]), Shard: ka[1].Bool()})
		}
		e.Data = decProps(a[3], "data")
		for _, s := range a[4].expect("statuses", 0) {
			if s.List {
				name, v := decOpt(s)
				e.Statuses = append(e.Statuses, name)
				e.StatusNums = e.StatusNums.set(name, v)
				continue
			}
			e.Statuses = append(e.Statuses, s.Str())
		}
		for _, o := range a[5].expect("events", 0) {
			e.Events = append(e.Events, decObject(o))
		}
		for _, c := range a[6].expect("commands", 0) {
			e.Commands = append(e.Commands, decService(c))
		}
		for _, s := range a[7].expect("summaries", 0) {
			sa := s.expect("summary", 2)
			e.Summaries = append(e.Summaries, &Summary{Name: sa[0].Str(), Props: decProps(sa[1], "props")})
		}
		switch a[8].head() {
		case "noquery":
		case "query":
			qa := a[8].expect("query", 2)
			q := &Query{EventsInGet: qa[0].Bool()}
			for _, f := range qa[1].expect("filters", 0) {
				q.Filters = append(q.Filters, f.Str())
			}
			e.Query = q
		default:
			bad("bad query")
		}
		e.Nested = decNested(a[9])
		return &Elem{Kind: KEntity, Entity: e}
	}
	bad("bad element %s", n.head())
	return nil
}

func decNested(n *Node) []*Elem {
	var out []*Elem
	for _, k := range n.expect("nested", 0) {
		e := DecElem(k)
		if e.Kind != KObject && e.Kind != KOneof && e.Kind != KEnum {
			bad("bad nested kind")
		}
		out = append(out, e)
	}
	return out
}

func decObject(n *Node) *Object {
	h := n.head()
	if h != "object" && h != "oneof" {
		bad("expected object/oneof")
	}
	if len(n.Kids) == 5 {
		a := n.expect(h, 4)
		pa := a[3].expect("psm", 2)
		if h != "object" || pa[1].List {
			bad("bad psm")
		}
		switch pa[1].Atom {
		case "keys", "state", "event", "data":
		default:
			bad("bad entity part")
		}
		return &Object{Name: a[0].Str(), Props: decProps(a[1], "props"), Nested: decNested(a[2]), PSM: &ObjPSM{Entity: pa[0].Str(), Part: pa[1].Atom}}
	}
	a := n.expect(h, 3)
	return &Object{Oneof: h == "oneof", Name: a[0].Str(), Props: decProps(a[1], "props"), Nested: decNested(a[2])}
}

// decOpt: (o NAME) or (o NAME N), N > 0 the number written on the option
func decOpt(o *Node) (string, int32) {
	if len(o.Kids) == 3 {
		a := o.expect("o", 2)
		v := a[1].Int()
		if v <= 0 || v > 1<<20 {
			bad("bad option number")
		}
		return a[0].Str(), int32(v)
	}
	return o.expect("o", 1)[0].Str(), 0
}

func decOpts(n *Node) ([]string, Nums) {
	var out []string
	var nums Nums
	for _, o := range n.expect("opts", 0) {
		name, v := decOpt(o)
		out = append(out, name)
		nums = nums.set(name, v)
	}
	return out, nums
}

func decProps(n *Node, head string) []*Prop {
	var out []*Prop
	for _, p := range n.expect(head, 0) {
		out = append(out, decProp(p))
	}
	return out
}

func decProp(n *Node) *Prop {
	a := n.expect("p", 4)
	return &Prop{Name: a[0].Str(), Req: a[1].Bool(), Opt: a[2].Bool(), Field: decField(a[3])}
}

func decRules(n *Node) []Rule {
	var out []Rule
	for _, r := range n.expect("rules", 0) {
		a := r.expect("r", 2)
		rule := Rule{Name: a[0].Str()}
		lk := a[1].head()
		la := a[1].Kids[1:]
		rule.Lit.Kind = lk
		switch lk {
		case "i", "neg":
			if len(la) != 1 || la[0].List {
				bad("bad int lit")
			}
			v, err := strconv.ParseUint(la[0].Atom, 10, 64)
			if err != nil {
				bad("bad int lit")
			}
			rule.Lit.N = v
		case "s":
			rule.Lit.S = la[0].Str()
		case "b":
			rule.Lit.B = la[0].Bool()
		case "strs":
			for _, s := range la {
				rule.Lit.Strs = append(rule.Lit.Strs, s.Str())
			}
		default:
			bad("bad lit")
		}
		out = append(out, rule)
	}
	return out
}

func decField(n *Node) *Field {
	k := n.head()
	a := n.Kids[1:]
	need := func(c int) {
		if len(a) != c {
			bad("(%s …) needs %d args", k, c)
		}
	}
	f := &Field{Kind: k}
	switch k {
	case FString, FBool, FBytes, FDate, FDecimal, FTimestamp:
		need(1)
		f.Rules = decRules(a[0])
	case FAny:
		need(0)
	case FInteger:
		need(2)
		f.Fmt = a[0].Atom
		switch f.Fmt {
		case "int32", "int64", "uint32", "uint64":
		default:
			bad("bad integer format")
		}
		f.Rules = decRules(a[1])
	case FFloat:
		need(2)
		f.Fmt = a[0].Atom
		if f.Fmt != "float32" && f.Fmt != "float64" {
			bad("bad float format")
		}
		f.Rules = decRules(a[1])
	case FKey:
		need(3)
		if a[0].List {
			ca := a[0].expect("custom", 1)
			f.Fmt = "custom"
			f.Pattern = ca[0].Str()
		} else {
			f.Fmt = a[0].Atom
			switch f.Fmt {
			case "none", "informal", "uuid", "id62":
			default:
				bad("bad key format")
			}
		}
		switch a[1].head() {
		case "nokey":
		case "ek":
			ea := a[1].expect("ek", 2)
			ek := &EntKey{Kind: ea[0].head()}
			switch ek.Kind {
			case "plain":
			case "primary":
				ek.Primary = ea[0].expect("primary", 1)[0].Bool()
			case "foreign":
				fa := ea[0].expect("foreign", 2)
				ek.FPkg, ek.FEntity = fa[0].Str(), fa[1].Str()
			default:
				bad("bad entkey")
			}
			ek.Tenant = ea[1].optStr()
			f.EntKey = ek
		default:
			bad("bad entkey")
		}
		f.Rules = decRules(a[2])
	case FObject:
		need(3)
		f.Ref = decTRef(a[0])
		f.Flatten = a[1].Bool()
		f.Rules = decRules(a[2])
	case FOneof, FEnum:
		if k == FEnum && len(a) == 3 {
			f.HasList = true
			for _, v := range a[2].expect("lr", 0) {
				f.ListFilters = append(f.ListFilters, v.Str())
			}
		} else {
			need(2)
		}
		f.Ref = decTRef(a[0])
		f.Rules = decRules(a[1])
	case FArray, FMap:
		need(2)
		f.Items = decField(a[0])
		if f.Items.Kind == FArray || f.Items.Kind == FMap {
			bad("nested array/map")
		}
		f.Rules = decRules(a[1])
	default:
		bad("bad field kind %s", k)
	}
	return f
}

func decTRef(n *Node) *TRef {
	k := n.head()
	switch k {
	case RRef:
		a := n.expect(k, 2)
		return &TRef{Kind: k, Pkg: a[0].Str(), Schema: a[1].Str()}
	case RInlObj, RInlOneof:
		a := n.expect(k, 2)
		return &TRef{Kind: k, Name: a[0].Str(), Props: decProps(a[1], "props")}
	case RInlEnum:
		a := n.expect(k, 3)
		opts, nums := decOpts(a[2])
		return &TRef{Kind: k, Name: a[0].Str(), Prefix: a[1].Str(), Opts: opts, Nums: nums}
	}
	bad("bad tref")
	return nil
}

func decService(n *Node) *Service {
	a := n.expect("service", 3)
	s := &Service{Name: a[0].Str(), BasePath: a[1].optStr()}
	for _, m := range a[2].expect("methods", 0) {
		ma := m.expect("method", 5)
		mm := &Method{Name: ma[0].Str(), Verb: ma[1].Atom, Path: ma[2].Str(), Req: decProps(ma[3], "req")}
		switch ma[4].head() {
		case "none":
		case "some":
			mm.HasRes = true
			mm.Res = decProps(ma[4], "some")
		default:
			bad("bad response")
		}
		s.Methods = append(s.Methods, mm)
	}
	return s
}

func decTMsg(n *Node) *TMsg {
	a := n.expect("msg", 2)
	return &TMsg{Name: a[0].optStr(), Props: decProps(a[1], "props")}
}
