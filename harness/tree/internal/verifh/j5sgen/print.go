//go:build verif

package j5sgen

import (
	"fmt"
	"math/rand/v2"
	"strconv"
	"strings"
)

// Printer renders the abstract AST as j5s source text. Style 0 is the canonical form; any other
// style seeds a PRNG that picks between equivalent surface forms (`!`/`?` marks vs body
// attributes, qualifier vs `ref` block, empty bodies, descriptions, blank lines, comments).
type Printer struct {
	rng *rand.Rand // nil = canonical
	sb  strings.Builder
	ind int
}

func NewPrinter(style uint64) *Printer {
	p := &Printer{}
	if style != 0 {
		p.rng = rand.New(rand.NewPCG(style, 0x5717e))
	}
	return p
}

func (p *Printer) chance(num, den int) bool {
	if p.rng == nil {
		return false
	}
	return p.rng.IntN(den) < num
}

func (p *Printer) line(f string, a ...any) {
	for i := 0; i < p.ind; i++ {
		p.sb.WriteString("  ")
	}
	fmt.Fprintf(&p.sb, f, a...)
	p.sb.WriteByte('\n')
}

func (p *Printer) blank() { p.sb.WriteByte('\n') }

func Quote(s string) string {
	var sb strings.Builder
	sb.WriteByte('"')
	for i := 0; i < len(s); i++ {
		c := s[i]
		if c == '"' || c == '\\' {
			sb.WriteByte('\\')
		}
		sb.WriteByte(c)
	}
	sb.WriteByte('"')
	return sb.String()
}

// PrintFile renders one file (j5s or proto).
func PrintFile(f *File, pkgName string, style uint64) string {
	if f.Proto {
		return printProto(f, pkgName)
	}
	p := NewPrinter(style)
	if f.DeclPkg != "" {
		pkgName = f.DeclPkg
	}
	p.line("package %s", pkgName)
	p.blank()
	for _, im := range f.Imports {
		if strings.Contains(im.Path, "/") {
			p.line("import %s", Quote(im.Path))
		} else if im.Alias != "" {
			p.line("import %s:%s", im.Path, im.Alias)
		} else {
			p.line("import %s", im.Path)
		}
	}
	if len(f.Imports) > 0 {
		p.blank()
	}
	for _, e := range f.Elems {
		if p.chance(1, 6) {
			p.line("// a comment")
		}
		p.elem(e)
		p.blank()
	}
	return p.sb.String()
}

func printProto(f *File, pkgName string) string {
	var sb strings.Builder
	sb.WriteString("syntax = \"proto3\";\n")
	fmt.Fprintf(&sb, "package %s;\n", pkgName)
	for _, m := range f.ProtoMsgs {
		fmt.Fprintf(&sb, "message %s {\n  string x = 1;\n}\n", m)
	}
	for _, e := range f.ProtoEnums {
		fmt.Fprintf(&sb, "enum %s {\n", e.Name)
		for i, v := range e.Values {
			fmt.Fprintf(&sb, "  %s = %d;\n", v, i)
		}
		sb.WriteString("}\n")
	}
	return sb.String()
}

func (p *Printer) desc() {
	if p.chance(1, 8) {
		p.line("| some description")
		if p.chance(1, 3) {
			p.line("| second line")
		}
	}
}

func (p *Printer) elem(e *Elem) {
	switch e.Kind {
	case KObject, KOneof:
		p.object(e.Object)
	case KEnum:
		p.enum(e.Enum)
	case KService:
		p.service("service", e.Service)
	case KTopic:
		p.topic(e.Topic)
	case KEntity:
		p.entity(e.Entity)
	}
}

func (p *Printer) object(o *Object) {
	kw, pkw := "object", "field"
	if o.Oneof {
		kw, pkw = "oneof", "option"
	}
	p.line("%s %s {", kw, o.Name)
	p.ind++
	p.desc()
	if o.PSM != nil {
		p.line("entity.entity = %s", Quote(o.PSM.Entity))
		p.line("entity.part = %s", Quote(strings.ToUpper(o.PSM.Part)))
	}
	for _, pr := range o.Props {
		p.prop(pkw, pr, false)
	}
	for _, n := range o.Nested {
		p.blank()
		p.elem(n)
	}
	p.ind--
	p.line("}")
}

func (p *Printer) enum(e *Enum) {
	p.line("enum %s {", e.Name)
	p.ind++
	p.desc()
	if e.Prefix != "" {
		p.line("prefix = %s", Quote(e.Prefix))
	}
	for _, o := range e.Opts {
		if v := e.Nums[o]; v > 0 {
			p.option("option", o, v)
		} else if p.chance(1, 8) {
			p.line("option %s | described", o)
		} else {
			p.line("option %s", o)
		}
	}
	p.ind--
	p.line("}")
}

// fieldSpec returns the type tag chain ("array:object:foo.Bar") and the body lines of the field.
// prefix is the attribute path prefix that reaches the field from the enclosing body scope
// ("" for a direct property, "items.string." for an array item …).
type bodyItem struct {
	text  string  // one attribute line, or
	props []*Prop // child properties
	pkw   string
	opts  []string // enum options
	nums  Nums
}

// option prints an enum option / entity status that states its own number.
func (p *Printer) option(kw, name string, num int32) {
	p.line("%s %s {", kw, name)
	p.ind++
	p.line("number = %d", num)
	p.ind--
	p.line("}")
}

func refString(t *TRef) string {
	if t.Pkg == "" {
		return t.Schema
	}
	return t.Pkg + "." + t.Schema
}

func litString(l Lit) string {
	switch l.Kind {
	case "i":
		return strconv.FormatUint(l.N, 10)
	case "neg":
		return "-" + strconv.FormatUint(l.N, 10)
	case "s":
		return Quote(l.S)
	case "b":
		if l.B {
			return "true"
		}
		return "false"
	case "strs":
		q := make([]string, len(l.Strs))
		for i, s := range l.Strs {
			q[i] = Quote(s)
		}
		return "[" + strings.Join(q, ", ") + "]"
	}
	return "?"
}

func (p *Printer) fieldSpec(f *Field, prefix string, entityKey bool) (string, []bodyItem) {
	var body []bodyItem
	attr := func(f string, a ...any) { body = append(body, bodyItem{text: fmt.Sprintf(f, a...)}) }
	for _, r := range f.Rules {
		attr("%srules.%s = %s", prefix, r.Name, litString(r.Lit))
	}
	switch f.Kind {
	case FString, FBool, FBytes, FDate, FDecimal, FTimestamp, FAny:
		return f.Kind, body
	case FInteger, FFloat:
		return f.Kind + ":" + strings.ToUpper(f.Fmt), body
	case FKey:
		spec := "key"
		switch f.Fmt {
		case "none":
		case "custom":
			spec = "key:custom"
			attr("%sformat.custom.pattern = %s", prefix, Quote(f.Pattern))
		default:
			spec = "key:" + f.Fmt
		}
		if ek := f.EntKey; ek != nil {
			switch ek.Kind {
			case "primary":
				v := "false"
				if ek.Primary {
					v = "true"
				}
				if entityKey && prefix == "" {
					attr("primary = %s", v)
				} else {
					attr("%sentity.primaryKey = %s", prefix, v)
				}
			case "foreign":
				attr("%sforeign = %s", prefix, Quote(ek.FPkg+"."+ek.FEntity))
			}
			if ek.Tenant != nil {
				if entityKey && prefix == "" {
					attr("tenant = %s", Quote(*ek.Tenant))
				} else {
					attr("%sentity.tenantKey = %s", prefix, Quote(*ek.Tenant))
				}
			}
		}
		return spec, body
	case FObject, FOneof, FEnum:
		t := f.Ref
		if f.Flatten {
			attr("%sflatten = true", prefix)
		}
		if f.Kind == FEnum && f.HasList {
			attr("%slistRules.filtering.filterable = true", prefix)
			if len(f.ListFilters) > 0 {
				attr("%slistRules.filtering.defaultFilters = %s", prefix, litString(Lit{Kind: "strs", Strs: f.ListFilters}))
			}
		}
		switch t.Kind {
		case RRef:
			if strings.Contains(t.Schema, ".") {
				// a dotted schema name can not be written as a qualifier (the scalar is split right to left)
				if t.Pkg != "" {
					attr("%sref.package = %s", prefix, Quote(t.Pkg))
				}
				attr("%sref.schema = %s", prefix, Quote(t.Schema))
				return f.Kind, body
			}
			if prefix == "" && p.chance(1, 6) {
				attr("ref %s", refString(t))
				return f.Kind, body
			}
			return f.Kind + ":" + refString(t), body
		case RInlObj, RInlOneof:
			if t.Name != "" {
				attr("%s%s.name = %s", prefix, f.Kind, Quote(t.Name))
			}
			pkw := "field"
			if t.Kind == RInlOneof {
				pkw = "option"
			}
			body = append(body, bodyItem{props: t.Props, pkw: pkw})
			return f.Kind, body
		case RInlEnum:
			if t.Name != "" {
				attr("%senum.name = %s", prefix, Quote(t.Name))
			}
			if t.Prefix != "" {
				attr("%senum.prefix = %s", prefix, Quote(t.Prefix))
			}
			body = append(body, bodyItem{opts: t.Opts, nums: t.Nums})
			return f.Kind, body
		}
	case FArray, FMap:
		path := "items"
		if f.Kind == FMap {
			path = "itemSchema"
		}
		ispec, ibody := p.fieldSpec(f.Items, prefix+path+"."+f.Items.Kind+".", false)
		// Attributes of the item are addressed by their full path from the property scope
		// (items.<kind>.…). The qualifier block also merges the item's scope, so name overrides can be
		// written without the prefix (README form `object.name = "Bar"`): chosen by style.
		for _, b := range ibody {
			if b.text != "" {
				t := b.text
				full := prefix + path + "." + f.Items.Kind + "."
				short := strings.TrimPrefix(t, full)
				if short != t && (strings.HasPrefix(short, f.Items.Kind+".name ") || strings.HasPrefix(short, "enum.prefix ")) && p.chance(1, 2) {
					t = prefix + short
				}
				body = append(body, bodyItem{text: t})
			} else {
				body = append(body, b)
			}
		}
		return f.Kind + ":" + ispec, body
	}
	return "?", body
}

func (p *Printer) prop(kw string, pr *Prop, entityKey bool) {
	spec, body := p.fieldSpec(pr.Field, "", entityKey)
	mark := ""
	var pre []string
	if pr.Req {
		if p.chance(1, 3) {
			pre = append(pre, "required = true")
		} else {
			mark = " !"
		}
	}
	if pr.Opt {
		if p.chance(1, 3) {
			if p.chance(1, 2) {
				pre = append(pre, "optional = true")
			} else {
				pre = append(pre, "explicitlyOptional = true")
			}
		} else if mark == "" {
			mark = " ?"
		} else {
			pre = append(pre, "optional = true")
		}
	}
	head := fmt.Sprintf("%s %s%s %s", kw, pr.Name, mark, spec)
	p.propBody(head, pre, body)
}

func (p *Printer) propBody(head string, pre []string, body []bodyItem) {
	if len(pre) == 0 && len(body) == 0 {
		if p.chance(1, 10) {
			p.line("%s {", head)
			p.line("}")
		} else if p.chance(1, 10) {
			p.line("%s | inline description", head)
		} else {
			p.line("%s", head)
		}
		return
	}
	p.line("%s {", head)
	p.ind++
	p.desc()
	for _, l := range pre {
		p.line("%s", l)
	}
	for _, b := range body {
		switch {
		case b.text != "":
			p.line("%s", b.text)
		case b.opts != nil:
			for _, o := range b.opts {
				if v := b.nums[o]; v > 0 {
					p.option("option", o, v)
				} else {
					p.line("option %s", o)
				}
			}
		default:
			for _, c := range b.props {
				p.prop(b.pkw, c, false)
			}
		}
	}
	p.ind--
	p.line("}")
}

func (p *Printer) service(kw string, s *Service) {
	if kw == "service" {
		p.line("service %s {", s.Name)
	} else {
		p.line("%s {", kw)
	}
	p.ind++
	if kw != "service" && s.Name != "" {
		p.line("name = %s", Quote(s.Name))
	}
	if s.BasePath != nil {
		p.line("basePath = %s", Quote(*s.BasePath))
	}
	for _, m := range s.Methods {
		p.line("method %s {", m.Name)
		p.ind++
		p.desc()
		p.line("httpMethod = %s", Quote(strings.ToUpper(m.Verb)))
		p.line("httpPath = %s", Quote(m.Path))
		p.line("request {")
		p.ind++
		for _, pr := range m.Req {
			p.prop("field", pr, false)
		}
		p.ind--
		p.line("}")
		if m.HasRes {
			p.line("response {")
			p.ind++
			for _, pr := range m.Res {
				p.prop("field", pr, false)
			}
			p.ind--
			p.line("}")
		}
		p.ind--
		p.line("}")
	}
	p.ind--
	p.line("}")
}

func (p *Printer) tmsg(kw string, m *TMsg) {
	if m.Name != nil {
		p.line("%s %s {", kw, *m.Name)
	} else {
		p.line("%s {", kw)
	}
	p.ind++
	for _, pr := range m.Props {
		p.prop("field", pr, false)
	}
	p.ind--
	p.line("}")
}

func (p *Printer) topic(t *Topic) {
	p.line("topic %s %s {", t.Name, t.Kind)
	p.ind++
	switch t.Kind {
	case "publish", "upsert":
		for _, m := range t.Msgs {
			p.tmsg("message", m)
		}
	case "reqres":
		for _, m := range t.Reqs {
			p.tmsg("request", m)
		}
		for _, m := range t.Reps {
			p.tmsg("reply", m)
		}
	}
	p.ind--
	p.line("}")
}

func (p *Printer) entity(e *Entity) {
	p.line("entity %s {", e.Name)
	p.ind++
	p.desc()
	if e.BaseURL != "" {
		p.line("baseUrlPath = %s", Quote(e.BaseURL))
	}
	for _, k := range e.Keys {
		spec, body := p.fieldSpec(k.Prop.Field, "", true)
		mark := ""
		var pre []string
		if k.Prop.Req {
			mark = " !"
		}
		if k.Prop.Opt {
			if mark == "" {
				mark = " ?"
			} else {
				pre = append(pre, "optional = true")
			}
		}
		if k.Shard {
			pre = append(pre, "shardKey = true")
		}
		p.propBody(fmt.Sprintf("key %s%s %s", k.Prop.Name, mark, spec), pre, body)
	}
	for _, d := range e.Data {
		p.prop("data", d, false)
	}
	for _, s := range e.Statuses {
		if v := e.StatusNums[s]; v > 0 {
			p.option("status", s, v)
		} else {
			p.line("status %s", s)
		}
	}
	for _, ev := range e.Events {
		p.line("event %s {", ev.Name)
		p.ind++
		for _, pr := range ev.Props {
			p.prop("field", pr, false)
		}
		for _, n := range ev.Nested {
			p.elem(n)
		}
		p.ind--
		p.line("}")
	}
	for _, c := range e.Commands {
		p.service("command", c)
	}
	for _, s := range e.Summaries {
		p.line("summary {")
		p.ind++
		if s.Name != "" {
			p.line("name = %s", Quote(s.Name))
		}
		for _, pr := range s.Props {
			p.prop("field", pr, false)
		}
		p.ind--
		p.line("}")
	}
	if e.Query != nil {
		p.line("query {")
		p.ind++
		if e.Query.EventsInGet {
			p.line("eventsInGet = true")
		}
		if len(e.Query.Filters) > 0 {
			q := make([]string, len(e.Query.Filters))
			for i, f := range e.Query.Filters {
				q[i] = Quote(f)
			}
			p.line("defaultStatusFilter = [%s]", strings.Join(q, ", "))
		}
		p.ind--
		p.line("}")
	}
	for _, n := range e.Nested {
		p.elem(n)
	}
	p.ind--
	p.line("}")
}

// PrintBundle renders every file of the bundle: path -> text.
func PrintBundle(b *Bundle, style uint64) map[string]string {
	out := map[string]string{}
	for _, pkg := range b.Pkgs {
		for i, f := range pkg.Files {
			st := style
			if st != 0 {
				st = style*31 + uint64(i) + 1
			}
			out[f.Path] = PrintFile(f, pkg.Name, st)
		}
	}
	return out
}
