//go:build verif

// Package j5sgen: abstract j5s packages (the harness's own AST mirroring sourcedef after j5parse),
// a seeded type-directed generator, a printer to j5s text, and the s-expression wire encoding
// of harness/PROTOCOL-compile.md. It depends on nothing in the repository, so any harness can use it.
package j5sgen

type Bundle struct {
	Pkgs []*Pkg
}

type Pkg struct {
	Name  string
	Files []*File
}

type File struct {
	Proto   bool
	Path    string // bundle-relative, e.g. foo/v1/a.j5s
	DeclPkg string // j5s: name written in the `package` declaration; "" = the enclosing package's name
	Imports []Import
	Elems   []*Elem
	// Proto files: exported names only
	ProtoMsgs  []string
	ProtoEnums []PEnum
}

type PEnum struct {
	Name   string
	Values []string
}

type Import struct {
	Path  string
	Alias string
}

// Elem kinds
const (
	KObject  = "object"
	KOneof   = "oneof"
	KEnum    = "enum"
	KService = "service"
	KTopic   = "topic"
	KEntity  = "entity"
)

type Elem struct {
	Kind    string
	Object  *Object // object and oneof
	Enum    *Enum
	Service *Service
	Topic   *Topic
	Entity  *Entity
}

type Object struct {
	Oneof  bool
	Name   string
	Props  []*Prop
	Nested []*Elem // object / oneof / enum only
	PSM    *ObjPSM // object only: `entity.entity = "Name"` / `entity.part = "KEYS"` written on a user-declared object
}

// ObjPSM is the entity annotation of a hand-written object. Part: keys state event data.
type ObjPSM struct {
	Entity string
	Part   string
}

// Nums maps an option name to the number written in its body (`option X { number = 5 }`). The compiler numbers
// options by position; the written number is carried by the source definition and ignored.
type Nums map[string]int32

func (n Nums) set(name string, v int32) Nums {
	if v <= 0 {
		return n
	}
	if n == nil {
		n = Nums{}
	}
	n[name] = v
	return n
}

type Enum struct {
	Name   string
	Prefix string // "" = not given
	Opts   []string
	Nums   Nums
}

type Prop struct {
	Name  string
	Req   bool
	Opt   bool
	Field *Field
}

// Field kinds
const (
	FString    = "string"
	FBool      = "bool"
	FBytes     = "bytes"
	FDate      = "date"
	FDecimal   = "decimal"
	FTimestamp = "timestamp"
	FAny       = "any"
	FInteger   = "integer"
	FFloat     = "float"
	FKey       = "key"
	FObject    = "object"
	FOneof     = "oneof"
	FEnum      = "enum"
	FArray     = "array"
	FMap       = "map"
)

type Field struct {
	Kind    string
	Fmt     string  // integer: int32 int64 uint32 uint64; float: float32 float64; key: none informal uuid id62 custom
	Pattern string  // key custom
	EntKey  *EntKey // key only; nil = (nokey)
	Ref     *TRef   // object / oneof / enum
	Flatten bool    // object
	Items   *Field  // array / map
	Rules   []Rule
	// enum only: listRules.filtering { filterable = true, defaultFilters = ListFilters } when HasList
	HasList     bool
	ListFilters []string
}

type EntKey struct {
	Kind    string // plain, primary, foreign
	Primary bool   // for Kind == primary (may be explicitly false)
	FPkg    string
	FEntity string
	Tenant  *string
}

// TRef kinds
const (
	RRef      = "ref"
	RInlObj   = "inlobj"
	RInlOneof = "inloneof"
	RInlEnum  = "inlenum"
)

type TRef struct {
	Kind   string
	Pkg    string // ref: package spec as written ("" local)
	Schema string // ref
	Name   string // inline: "" = default
	Props  []*Prop
	Prefix string
	Opts   []string
	Nums   Nums // inline enum
}

type Rule struct {
	Name string
	Lit  Lit
}

type Lit struct {
	Kind string // i, s, b, neg, strs
	N    uint64
	S    string
	B    bool
	Strs []string
}

type Service struct {
	Name     string  // "" = absent (entity command)
	BasePath *string // nil = absent
	Methods  []*Method
}

type Method struct {
	Name   string
	Verb   string // get post put patch delete
	Path   string
	Req    []*Prop
	HasRes bool
	Res    []*Prop
}

type Topic struct {
	Name string
	Kind string // publish, reqres, upsert
	Msgs []*TMsg
	Reqs []*TMsg
	Reps []*TMsg
}

type TMsg struct {
	Name  *string
	Props []*Prop
}

type Entity struct {
	Name      string
	BaseURL   string
	Keys      []*EKey
	Data      []*Prop
	Statuses  []string
	StatusNums Nums
	Events    []*Object
	Commands  []*Service
	Summaries []*Summary
	Query     *Query
	Nested    []*Elem
}

type EKey struct {
	Prop  *Prop
	Shard bool
}

type Summary struct {
	Name  string
	Props []*Prop
}

type Query struct {
	EventsInGet bool
	Filters     []string
}

func (b *Bundle) Pkg(name string) *Pkg {
	for _, p := range b.Pkgs {
		if p.Name == name {
			return p
		}
	}
	return nil
}
