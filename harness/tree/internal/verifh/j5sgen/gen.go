//go:build verif

package j5sgen

import (
	"fmt"
	"math/rand/v2"
	"strings"

	"github.com/iancoleman/strcase"
)

// Config bounds the generator. The zero value is not useful; start from DefaultConfig.
type Config struct {
	MaxPkgs     int // packages per bundle
	MaxFiles    int // j5s files per package
	MaxElems    int // top-level elements per file
	MaxProps    int // properties per object
	MaxDepth    int // inline nesting depth
	Services    bool
	Topics      bool
	Entities    bool
	EntityOnly  bool // every file holds exactly one entity (C17 profile)
	ProtoFiles  bool // hand-written .proto files in local packages
	Rules       bool // attach validation rules (subset that every field type accepts)
	// EnumInRules: inline enum fields with >= 2 options get (by chance) a rules.in / rules.notIn list that names >= 2
	// distinct options and REPEATS one of them, bare and with the prefix (both spellings are accepted: `EnumRef.mapValues`)
	EnumInRules bool
	OddEntNames bool // entity names where ToCamel(name+"State") != ToCamel(name)+"State"
	Capture     bool // allow inline names equal to an ancestor's name
	ListMethods bool // some methods take a j5.list.v1.QueryRequest and answer one array of objects
	NestedPkgs  bool // local packages whose directory lies below another local package's (foo.v1 / foo.v1.types.v2): the compiler
	// takes them, the client API derivation refuses a package name with two version elements
}

func DefaultConfig() Config {
	return Config{MaxPkgs: 3, MaxFiles: 3, MaxElems: 5, MaxProps: 6, MaxDepth: 3,
		Services: true, Topics: true, Entities: true, ProtoFiles: true}
}

type Gen struct {
	R   *rand.Rand
	Cfg Config
	// EnumInRuleCount: how many in / notIn rules with a repeated option were generated (Cfg.EnumInRules)
	EnumInRuleCount int

	// per package state
	pkgName   string
	typeNames map[string]bool // top-level names taken in the package (all files)
	svcNames  map[string]bool // names taken in <pkg>.service
	topNames  map[string]bool // names taken in <pkg>.topic
	prefixes  map[string]bool // enum prefixes used at package level
	// what can be referenced from the file being generated
	avail []target
	// imports of the file being generated
	imports *[]Import
	counter int
	// exported top-level types of the package whose implied import name (last-but-one segment) this package
	// shares: the package declares types of the same names, so that `seg.Name` exists in both
	mirror []target
}

// implied short name of a package import: the element before the last one (foo.bar.v1 -> bar)
func impliedName(pkg string) string {
	parts := strings.Split(pkg, ".")
	if len(parts) < 2 {
		return pkg
	}
	return parts[len(parts)-2]
}

type target struct {
	pkg    string // package of the type
	schema string // name in package (may be dotted)
	kind   string // object, oneof, enum
	local  bool   // same package
}

func New(r *rand.Rand, cfg Config) *Gen { return &Gen{R: r, Cfg: cfg} }

func (g *Gen) n(max int) int {
	if max <= 0 {
		return 0
	}
	return g.R.IntN(max + 1)
}
func (g *Gen) chance(num, den int) bool { return g.R.IntN(den) < num }
func pick[T any](g *Gen, xs []T) T     { return xs[g.R.IntN(len(xs))] }

var typeWords = []string{"Foo", "Bar", "Baz", "Qux", "Thing", "Item", "Node", "Part", "Widget", "Gadget", "Spec", "Info", "Detail", "Blob", "Entry2", "HTTPThing", "FooID", "XRay", "Abc1Def", "Q"}
var fieldWords = []string{"fooId", "name", "barBaz", "x1", "userID", "a", "fooBarBaz", "foo_id", "bar_baz_2", "value", "count", "kind", "ref", "data2", "isOk", "HTTPCode", "x", "y", "zed", "item", "parent", "child", "note", "tagList", "created", "amountDue", "e2e", "b2", "camelCaseName", "snake_case_name"}
var optWords = []string{"ACTIVE", "INACTIVE", "A", "B1", "FOO_BAR", "PENDING", "DONE", "X", "Y2", "ON_HOLD", "CLOSED"}
var entWords = []string{"Acct", "Order", "Ledger", "ticket", "user_profile", "invoiceLine", "Shipment", "Zone"}
var oddEntWords = []string{"FooA", "fooID", "ACL", "orderX", "Plan9B"}
var pathWords = []string{"things", "v2", "do-it", "a", "sub_path", "Mixed", "x.y"}
var pkgWords = []string{"foo", "bar", "baz", "qux", "acme", "zeta"}

func (g *Gen) uniq(set map[string]bool, words []string, forbid func(string) bool) string {
	for try := 0; try < 20; try++ {
		w := pick(g, words)
		if g.chance(1, 3) {
			w += pick(g, words)
		}
		if !set[w] && (forbid == nil || !forbid(w)) {
			set[w] = true
			return w
		}
	}
	for {
		g.counter++
		w := fmt.Sprintf("%s%d", pick(g, words), g.counter)
		if !set[w] && (forbid == nil || !forbid(w)) {
			set[w] = true
			return w
		}
	}
}

// Bundle generates a multi-package bundle. Package i may import packages j < i.
func (g *Gen) Bundle() *Bundle {
	b := &Bundle{}
	npkg := 1 + g.n(g.Cfg.MaxPkgs-1)
	used := map[string]bool{}
	var exported []target // types of earlier packages
	pendingOuter := ""
	for pi := 0; pi < npkg; pi++ {
		var name string
		g.mirror = nil
		switch {
		case pendingOuter != "":
			// the package whose directory CONTAINS the directory of the previous package
			name, pendingOuter = pendingOuter, ""
		case pi > 0 && g.Cfg.NestedPkgs && g.chance(1, 6):
			// a package whose directory lies BELOW that of an earlier package (platform.v1 / platform.v1.billing.v1)
			for try := 0; try < 20 && name == ""; try++ {
				w := pick(g, pkgWords)
				cand := pick(g, b.Pkgs).Name + "." + w + fmt.Sprintf(".v%d", 1+g.n(2))
				if !used[cand] && !used["seg:"+w] {
					name = cand
					used[cand], used["seg:"+w] = true, true
				}
			}
		case pi > 0 && g.chance(1, 3):
			// a package that implies the same import name as an earlier one (foo.bar.v1 / baz.bar.v1)
			q := pick(g, b.Pkgs)
			seg := impliedName(q.Name)
			for try := 0; try < 20 && name == ""; try++ {
				cand := pick(g, pkgWords) + "." + seg + fmt.Sprintf(".v%d", 1+g.n(2))
				if !used[cand] && !strings.HasPrefix(q.Name, cand) && !strings.HasPrefix(cand, q.Name+".") {
					name = cand
					used[cand] = true
				}
			}
			if name != "" {
				for _, t := range exported {
					if t.pkg == q.Name && !strings.Contains(t.schema, ".") {
						g.mirror = append(g.mirror, t)
					}
				}
			}
		}
		for name == "" {
			segs := []string{pick(g, pkgWords)}
			if g.chance(1, 3) {
				segs = append(segs, pick(g, pkgWords))
			}
			name = strings.Join(segs, ".") + fmt.Sprintf(".v%d", 1+g.n(2))
			// the last-but-one segment doubles as the default import prefix: keep it unique
			key := segs[len(segs)-1]
			if !used[name] && !used["seg:"+key] {
				used[name] = true
				used["seg:"+key] = true
				if pi+1 < npkg && g.Cfg.NestedPkgs && g.chance(1, 8) {
					// this package becomes the inner one: the next package of the bundle is its directory's parent
					w := pick(g, pkgWords)
					inner := name + "." + w + fmt.Sprintf(".v%d", 1+g.n(2))
					if !used[inner] && !used["seg:"+w] {
						used[inner], used["seg:"+w] = true, true
						name, pendingOuter = inner, name
					}
				}
				break
			}
			name = ""
		}
		pkg, exp := g.pkg(name, exported)
		b.Pkgs = append(b.Pkgs, pkg)
		exported = append(exported, exp...)
	}
	return b
}

func (g *Gen) pkg(name string, foreign []target) (*Pkg, []target) {
	g.pkgName = name
	g.typeNames = map[string]bool{}
	g.svcNames = map[string]bool{}
	g.topNames = map[string]bool{}
	g.prefixes = map[string]bool{}
	dir := strings.ReplaceAll(name, ".", "/")
	pkg := &Pkg{Name: name}
	var local []target
	var all []target

	if g.Cfg.ProtoFiles && g.chance(1, 4) {
		f := &File{Proto: true, Path: dir + "/" + pick(g, []string{"legacy", "types", "zz_old"}) + ".proto"}
		for i := 0; i <= g.n(1); i++ {
			n := g.uniq(g.typeNames, typeWords, nil)
			f.ProtoMsgs = append(f.ProtoMsgs, n)
			local = append(local, target{pkg: name, schema: n, kind: KObject, local: true})
		}
		if g.chance(1, 2) {
			n := g.uniq(g.typeNames, typeWords, nil)
			pfx := strcase.ToScreamingSnake(n) + "_"
			f.ProtoEnums = append(f.ProtoEnums, PEnum{Name: n, Values: []string{pfx + "UNSPECIFIED", pfx + "ONE", pfx + "TWO"}})
			g.prefixes[pfx] = true
			for _, v := range []string{"UNSPECIFIED", "ONE", "TWO"} {
				g.prefixes["val:"+pfx+v] = true
			}
			local = append(local, target{pkg: name, schema: n, kind: KEnum, local: true})
		}
		pkg.Files = append(pkg.Files, f)
	}

	nfiles := 1 + g.n(g.Cfg.MaxFiles-1)
	fileNames := map[string]bool{}
	for fi := 0; fi < nfiles; fi++ {
		fn := g.uniq(fileNames, []string{"a", "b", "main", "types", "svc", "x_y", "m2"}, nil)
		f := &File{Path: dir + "/" + fn + ".j5s"}
		g.imports = &f.Imports
		// declare the names of this file's referencable types first, so that fields may refer
		// forwards inside the file
		g.avail = append(append([]target{}, foreign...), local...)
		nel := 1 + g.n(g.Cfg.MaxElems-1)
		if g.Cfg.EntityOnly {
			nel = 1
		}
		var plan []string
		for i := 0; i < nel; i++ {
			plan = append(plan, g.elemKind())
		}
		names := make([]string, nel)
		if fi == 0 && len(g.mirror) > 0 && !g.Cfg.EntityOnly {
			// the first declaration repeats a name (and kind) of the package that shares the implied import name
			if c := pick(g, g.mirror); !g.typeNames[c.schema] && !g.entityPrefixed(c.schema) {
				plan[0], names[0] = c.kind, c.schema
				g.typeNames[c.schema] = true
			}
		}
		var own []target
		for i, k := range plan {
			switch k {
			case KObject, KOneof, KEnum:
				if names[i] != "" {
					own = append(own, target{pkg: name, schema: names[i], kind: k, local: true})
					continue
				}
				if len(g.mirror) > 0 && g.chance(2, 3) {
					if c := pick(g, g.mirror); c.kind == k && !g.typeNames[c.schema] && !g.entityPrefixed(c.schema) {
						names[i] = c.schema
						g.typeNames[c.schema] = true
					}
				}
				if names[i] == "" && len(foreign) > 0 && g.chance(1, 4) {
					// a type named like a type of an earlier package (the short name is not an identity)
					if c := pick(g, foreign); !strings.Contains(c.schema, ".") && !g.typeNames[c.schema] && !g.entityPrefixed(c.schema) {
						names[i] = c.schema
						g.typeNames[c.schema] = true
					}
				}
				if names[i] == "" {
					names[i] = g.uniq(g.typeNames, typeWords, g.entityPrefixed)
				}
				own = append(own, target{pkg: name, schema: names[i], kind: k, local: true})
			}
		}
		g.avail = append(g.avail, own...)
		for i, k := range plan {
			e, more := g.elem(k, names[i])
			f.Elems = append(f.Elems, e)
			own = append(own, more...)
			g.avail = append(g.avail, more...)
		}
		if !g.Cfg.EntityOnly && g.chance(2, 3) {
			if e := g.aliasClash(); e != nil {
				f.Elems = append(f.Elems, e)
				own = append(own, target{pkg: name, schema: e.Object.Name, kind: KObject, local: true})
			}
		}
		if !g.Cfg.EntityOnly && g.chance(1, 3) {
			if e := g.sameNamePair(); e != nil {
				f.Elems = append(f.Elems, e)
				own = append(own, target{pkg: name, schema: e.Object.Name, kind: KObject, local: true})
			}
		}
		local = append(local, own...)
		pkg.Files = append(pkg.Files, f)
	}
	for _, t := range local {
		t.local = false
		all = append(all, t)
	}
	// shuffle the listing position of the proto file
	if len(pkg.Files) > 1 && pkg.Files[0].Proto && g.chance(1, 2) {
		pkg.Files = append(pkg.Files[1:], pkg.Files[0])
	}
	return pkg, all
}

// sameNamePair: an object whose fields refer to two types that share their short name but live in
// different packages (two imported packages, or the own package and an imported one), directly or as
// array / map items. nil when the file can see no such pair.
func (g *Gen) sameNamePair() *Elem {
	type pair struct{ a, b target }
	var pairs []pair
	for i, a := range g.avail {
		for _, b := range g.avail[i+1:] {
			if a.schema == b.schema && a.pkg != b.pkg {
				pairs = append(pairs, pair{a, b})
			}
		}
	}
	if len(pairs) == 0 {
		return nil
	}
	pr := pick(g, pairs)
	if g.chance(1, 2) {
		pr.a, pr.b = pr.b, pr.a
	}
	mk := func(t target) *Field {
		kind := map[string]string{KObject: FObject, KOneof: FOneof, KEnum: FEnum}[t.kind]
		f := &Field{Kind: kind, Ref: g.refTo(t)}
		switch g.n(3) {
		case 0:
			return &Field{Kind: FArray, Items: f}
		case 1:
			return &Field{Kind: FMap, Items: f}
		}
		return f
	}
	name := g.uniq(g.typeNames, []string{"Pair", "Both", "Twin"}, nil)
	return &Elem{Kind: KObject, Object: &Object{Name: name, Props: []*Prop{
		{Name: "first", Field: mk(pr.a)}, {Name: "second", Field: mk(pr.b)}}}}
}

// aliasClash: two un-aliased imports that imply the same short name (import foo.bar.v1 + import baz.bar.v1) and a
// field that goes through that name to a type both packages declare: the later import statement owns the name.
// nil when the file can see no such pair, or already imports one of the two packages.
func (g *Gen) aliasClash() *Elem {
	imported := map[string]bool{}
	implied := map[string]bool{}
	for _, im := range *g.imports {
		imported[im.Path] = true
		if im.Alias == "" {
			implied[impliedName(im.Path)] = true
		}
	}
	type pair struct{ a, b target }
	var pairs []pair
	for i, a := range g.avail {
		for _, b := range g.avail[i+1:] {
			if a.schema == b.schema && a.pkg != b.pkg && !a.local && !b.local && a.pkg != g.pkgName && b.pkg != g.pkgName &&
				!strings.Contains(a.schema, ".") && impliedName(a.pkg) == impliedName(b.pkg) && !imported[a.pkg] && !imported[b.pkg] &&
				!implied[impliedName(a.pkg)] && impliedName(a.pkg) != impliedName(g.pkgName) {
				pairs = append(pairs, pair{a, b})
			}
		}
	}
	if len(pairs) == 0 {
		return nil
	}
	pr := pick(g, pairs)
	if g.chance(1, 2) {
		pr.a, pr.b = pr.b, pr.a
	}
	*g.imports = append(*g.imports, Import{Path: pr.a.pkg}, Import{Path: pr.b.pkg})
	kind := map[string]string{KObject: FObject, KOneof: FOneof, KEnum: FEnum}[pr.b.kind]
	name := g.uniq(g.typeNames, []string{"Clash", "Shadowed", "LastWins"}, nil)
	return &Elem{Kind: KObject, Object: &Object{Name: name, Props: []*Prop{
		{Name: "viaImplied", Field: &Field{Kind: kind, Ref: &TRef{Kind: RRef, Pkg: impliedName(pr.b.pkg), Schema: pr.b.schema}}}}}}
}

// AddImpliedClash appends three small packages to the bundle: two that imply the same import name and declare
// a type of the same name, and one whose file imports both without alias and refers to the type through the
// implied name. Whatever the order of the two import statements, the later one owns the name.
func (g *Gen) AddImpliedClash(b *Bundle) {
	for _, p := range b.Pkgs {
		if strings.Contains(p.Name, "zzshared") || strings.HasPrefix(p.Name, "zzuser.") {
			return
		}
	}
	kind := pick(g, []string{KObject, KObject, KEnum, KOneof})
	typeName := pick(g, []string{"Thing", "Kind", "Shared"})
	mk := func(pkg string, n int) *Pkg {
		e := &Elem{Kind: kind}
		switch kind {
		case KEnum:
			e.Enum = &Enum{Name: typeName, Opts: []string{"ONE", "TWO", "THREE"}[:1+n]}
		default:
			e.Object = &Object{Name: typeName, Oneof: kind == KOneof}
			for i := 0; i <= n; i++ {
				f := &Field{Kind: FString}
				if kind == KOneof {
					f = &Field{Kind: FObject, Ref: &TRef{Kind: RInlObj}}
				}
				e.Object.Props = append(e.Object.Props, &Prop{Name: fmt.Sprintf("f%d", i), Field: f})
			}
		}
		return &Pkg{Name: pkg, Files: []*File{{Path: strings.ReplaceAll(pkg, ".", "/") + "/shared.j5s", Elems: []*Elem{e}}}}
	}
	w := g.R.Perm(len(pkgWords))
	a := mk(fmt.Sprintf("%s.zzshared.v%d", pkgWords[w[0]], 1+g.n(2)), 0)
	c := mk(fmt.Sprintf("%s.zzshared.v%d", pkgWords[w[1]], 1+g.n(2)), 1)
	fk := map[string]string{KObject: FObject, KOneof: FOneof, KEnum: FEnum}[kind]
	ref := &Field{Kind: fk, Ref: &TRef{Kind: RRef, Pkg: "zzshared", Schema: typeName}}
	switch g.n(3) {
	case 0:
		ref = &Field{Kind: FArray, Items: ref}
	case 1:
		ref = &Field{Kind: FMap, Items: ref}
	}
	user := &Pkg{Name: "zzuser.v1", Files: []*File{{Path: "zzuser/v1/user.j5s",
		Imports: []Import{{Path: a.Name}, {Path: c.Name}},
		Elems: []*Elem{{Kind: KObject, Object: &Object{Name: "LastImportWins", Props: []*Prop{
			{Name: "viaImplied", Field: ref},
			{Name: "viaFull", Field: &Field{Kind: fk, Ref: &TRef{Kind: RRef, Pkg: a.Name, Schema: typeName}}},
		}}}}}}}
	if g.chance(1, 2) {
		user.Files[0].Imports[0], user.Files[0].Imports[1] = user.Files[0].Imports[1], user.Files[0].Imports[0]
	}
	b.Pkgs = append(b.Pkgs, a, c, user)
}

// AddFileImportClash: the shape of AddImpliedClash with ONE of the two packages imported by FILE PATH
// (`import "acme/zzfshared/v1/shared.j5s.proto"`) and the other by package name (`import foo.zzfshared.v2`), both
// declaring the same type name. A file import registers only the full package name of its directory, never the
// short name: `zzfshared.Thing` is the type of the PACKAGE import whatever the order of the two statements; the
// file-imported package is reached through its full name (`acme.zzfshared.v1.Thing`).
func (g *Gen) AddFileImportClash(b *Bundle) {
	for _, p := range b.Pkgs {
		if strings.Contains(p.Name, "zzfshared") || strings.HasPrefix(p.Name, "zzfuser.") {
			return
		}
	}
	kind := pick(g, []string{KObject, KObject, KEnum, KOneof})
	typeName := pick(g, []string{"Thing", "Kind", "Shared"})
	mk := func(pkg string, n int) *Pkg {
		e := &Elem{Kind: kind}
		switch kind {
		case KEnum:
			e.Enum = &Enum{Name: typeName, Opts: []string{"ONE", "TWO", "THREE"}[:1+n]}
		default:
			e.Object = &Object{Name: typeName, Oneof: kind == KOneof}
			for i := 0; i <= n; i++ {
				f := &Field{Kind: FString}
				if kind == KOneof {
					f = &Field{Kind: FObject, Ref: &TRef{Kind: RInlObj}}
				}
				e.Object.Props = append(e.Object.Props, &Prop{Name: fmt.Sprintf("f%d", i), Field: f})
			}
		}
		return &Pkg{Name: pkg, Files: []*File{{Path: strings.ReplaceAll(pkg, ".", "/") + "/shared.j5s", Elems: []*Elem{e}}}}
	}
	w := g.R.Perm(len(pkgWords))
	byName := mk(fmt.Sprintf("%s.zzfshared.v%d", pkgWords[w[0]], 1+g.n(2)), 0)
	byFile := mk(fmt.Sprintf("%s.zzfshared.v%d", pkgWords[w[1]], 1+g.n(2)), 1)
	fk := map[string]string{KObject: FObject, KOneof: FOneof, KEnum: FEnum}[kind]
	ref := &Field{Kind: fk, Ref: &TRef{Kind: RRef, Pkg: "zzfshared", Schema: typeName}}
	switch g.n(3) {
	case 0:
		ref = &Field{Kind: FArray, Items: ref}
	case 1:
		ref = &Field{Kind: FMap, Items: ref}
	}
	imports := []Import{{Path: byName.Name}, {Path: byFile.Files[0].Path + ".proto"}}
	if g.chance(1, 2) {
		imports[0], imports[1] = imports[1], imports[0]
	}
	user := &Pkg{Name: "zzfuser.v1", Files: []*File{{Path: "zzfuser/v1/user.j5s",
		Imports: imports,
		Elems: []*Elem{{Kind: KObject, Object: &Object{Name: "FileImportHasNoShortName", Props: []*Prop{
			{Name: "viaImplied", Field: ref},
			{Name: "viaFileFull", Field: &Field{Kind: fk, Ref: &TRef{Kind: RRef, Pkg: byFile.Name, Schema: typeName}}},
		}}}}}}}
	b.Pkgs = append(b.Pkgs, byName, byFile, user)
}

var entityTaken = map[string]bool{}

func (g *Gen) entityPrefixed(w string) bool {
	for _, e := range append(append([]string{}, entWords...), oddEntWords...) {
		if strings.HasPrefix(w, strcase.ToCamel(e)) {
			return true
		}
	}
	return false
}

func (g *Gen) elemKind() string {
	if g.Cfg.EntityOnly {
		return KEntity
	}
	ks := []string{KObject, KObject, KObject, KOneof, KEnum}
	if g.Cfg.Services {
		ks = append(ks, KService)
	}
	if g.Cfg.Topics {
		ks = append(ks, KTopic)
	}
	if g.Cfg.Entities && g.chance(1, 2) {
		ks = append(ks, KEntity)
	}
	return pick(g, ks)
}

func (g *Gen) elem(kind, name string) (*Elem, []target) {
	switch kind {
	case KObject:
		o, more := g.object(name, false, 0, []string{name})
		if g.chance(1, 6) {
			// a hand-written part of an entity: `entity.entity` / `entity.part` on the object; a KEYS part gets key
			// fields, primary ones not first (the compiler keeps the declaration order)
			o.PSM = &ObjPSM{Entity: pick(g, []string{"Widget", "Acct", "Thing_2"}), Part: pick(g, []string{"keys", "keys", "state", "event", "data"})}
			if o.PSM.Part == "keys" {
				g.psmKeys(o)
			}
		}
		return &Elem{Kind: KObject, Object: o}, more
	case KOneof:
		o, more := g.object(name, true, 0, []string{name})
		return &Elem{Kind: KOneof, Object: o}, more
	case KEnum:
		return &Elem{Kind: KEnum, Enum: g.enum(name, true)}, nil
	case KService:
		return &Elem{Kind: KService, Service: g.service(true)}, nil
	case KTopic:
		return &Elem{Kind: KTopic, Topic: g.topic()}, nil
	case KEntity:
		return &Elem{Kind: KEntity, Entity: g.entity()}, nil
	}
	panic("kind")
}

func (g *Gen) enum(name string, pkgLevel bool) *Enum {
	e := &Enum{Name: name}
	if g.chance(1, 4) {
		for {
			e.Prefix = pick(g, []string{"PX_", "KIND_", "E_", "MY_ENUM_", "Z9_"})
			if !pkgLevel {
				break
			}
			if !g.prefixes[e.Prefix] {
				g.prefixes[e.Prefix] = true
				break
			}
			g.counter++
			e.Prefix = fmt.Sprintf("P%d_", g.counter)
			g.prefixes[e.Prefix] = true
			break
		}
	}
	if pkgLevel {
		eff := e.Prefix
		if eff == "" {
			eff = strcase.ToScreamingSnake(name) + "_"
		}
		if e.Prefix == "" && g.prefixes[eff] {
			g.counter++
			e.Prefix = fmt.Sprintf("P%d_", g.counter)
			eff = e.Prefix
		}
		g.prefixes[eff] = true
	}
	e.Opts = g.enumOpts(e.Prefix, name)
	e.Nums = g.pinNums(e.Opts)
	if pkgLevel {
		// enum VALUES live in the scope enclosing the enum: no two enums of the package may yield one value name
		// (e.g. BarBaz with option X_UNSPECIFIED and BarBazX both give BAR_BAZ_X_UNSPECIFIED)
		for !claimValues(g.prefixes, e.Prefix, name, e.Opts) {
			g.counter++
			e.Prefix = fmt.Sprintf("P%d_", g.counter)
			g.prefixes[e.Prefix] = true
			e.Opts = []string{"ONE", "TWO"}
			e.Nums = nil
		}
	}
	return e
}

// pinNums writes a number on some options (`option X { number = N }`): below, at and above the option's position.
// The compiler numbers by position whatever is written. An option called …UNSPECIFIED is left alone (an explicit
// zero value is recognised by its number being unset).
func (g *Gen) pinNums(opts []string) Nums {
	if !g.chance(1, 4) {
		return nil
	}
	var nums Nums
	for i, o := range opts {
		if strings.HasSuffix(o, "UNSPECIFIED") || g.chance(1, 2) {
			continue
		}
		pos := i + 1
		nums = nums.set(o, int32(pick(g, []int{1, 2, pos, pos, pos + 1, pos + 3, 9, 40})))
	}
	return nums
}

// psmKeys puts key fields in front of / between the properties of a hand-written KEYS object.
func (g *Gen) psmKeys(o *Object) {
	taken := map[string]bool{}
	for _, p := range o.Props {
		taken[strcase.ToSnake(p.Name)] = true
	}
	var keys []*Prop
	for i, nm := range []string{"tenantRef", "widgetId", "revision", "orgKey"} {
		if taken[strcase.ToSnake(nm)] || (i > 0 && g.chance(1, 3)) {
			continue
		}
		f := &Field{Kind: FKey, Fmt: pick(g, []string{"none", "uuid", "id62"})}
		switch {
		case i == 1 || g.chance(1, 4):
			f.EntKey = &EntKey{Kind: "primary", Primary: true}
		case g.chance(1, 2):
			f.EntKey = g.entKey(false)
		}
		keys = append(keys, &Prop{Name: nm, Field: f})
	}
	at := g.n(len(o.Props))
	o.Props = append(o.Props[:at:at], append(keys, o.Props[at:]...)...)
}

// enumValueNames: the value names an enum puts into its enclosing scope (implicit zero first).
func enumValueNames(prefix, name string, opts []string) []string {
	pfx := prefix
	if pfx == "" {
		pfx = strcase.ToScreamingSnake(name) + "_"
	}
	out := []string{pfx + "UNSPECIFIED"}
	for _, o := range opts {
		if !strings.HasPrefix(o, pfx) {
			o = pfx + o
		}
		out = append(out, o)
	}
	return out
}

// claimValues marks the value names of an enum in its scope; false (nothing marked) when one is taken.
func claimValues(scope map[string]bool, prefix, name string, opts []string) bool {
	vals := enumValueNames(prefix, name, opts)
	for _, v := range vals {
		if scope["val:"+v] {
			return false
		}
	}
	for _, v := range vals {
		scope["val:"+v] = true
	}
	return true
}

func (g *Gen) enumOpts(prefix, name string) []string {
	pfx := prefix
	if pfx == "" {
		pfx = strcase.ToScreamingSnake(name) + "_"
	}
	var opts []string
	seen := map[string]bool{}
	switch g.n(15) {
	case 0:
		opts = append(opts, "UNSPECIFIED")
		seen["UNSPECIFIED"] = true
	case 1:
		opts = append(opts, pfx+"UNSPECIFIED") // explicit zero value written with the prefix
		seen["UNSPECIFIED"] = true
	case 2:
		opts = append(opts, "X_UNSPECIFIED") // merely ends in UNSPECIFIED: an ordinary option
		seen["X_UNSPECIFIED"] = true
	}
	n := g.n(5)
	for i := 0; i < n; i++ {
		o := g.uniq(seen, optWords, nil)
		if g.chance(1, 10) {
			o = pfx + o // already prefixed: must not be prefixed twice
		}
		opts = append(opts, o)
	}
	return opts
}

// object generates an object or oneof. path is the nesting path of names (for capture checks).
// It returns the nested/inline types that other fields may reference by dotted name.
func (g *Gen) object(name string, oneof bool, depth int, path []string) (*Object, []target) {
	o := &Object{Name: name, Oneof: oneof}
	var more []target
	taken := map[string]bool{} // nested type names (CamelCase) inside this message
	o.Props = g.props(oneof, depth, path, taken, &more)
	if !oneof && depth < g.Cfg.MaxDepth && g.chance(1, 5) {
		nn := g.n(2)
		for i := 0; i < nn; i++ {
			nm := g.uniq(taken, typeWords, func(w string) bool { return g.captures(w, path) })
			sub, m2 := g.object(nm, false, depth+1, append(append([]string{}, path...), nm))
			o.Nested = append(o.Nested, &Elem{Kind: KObject, Object: sub})
			more = append(more, target{pkg: g.pkgName, schema: strings.Join(path, ".") + "." + nm, kind: KObject, local: true})
			more = append(more, m2...)
		}
	}
	return o, more
}

func (g *Gen) captures(w string, path []string) bool {
	if g.Cfg.Capture {
		return false
	}
	for _, p := range path {
		if p == w {
			return true
		}
	}
	return false
}

func (g *Gen) props(oneof bool, depth int, path []string, taken map[string]bool, more *[]target) []*Prop {
	n := g.n(g.Cfg.MaxProps)
	if oneof && n == 0 {
		n = 1 // a oneof without options compiles to a descriptor protodesc rejects (C16 territory)
	}
	seenSnake := map[string]bool{}
	seenJSON := map[string]bool{}
	var props []*Prop
	for i := 0; i < n; i++ {
		var name string
		ok := false
		for try := 0; try < 30; try++ {
			name = pick(g, fieldWords)
			if g.chance(1, 4) {
				name += pick(g, []string{"2", "Id", "_x", "URL", "s"})
			}
			sn := strcase.ToSnake(name)
			js := protocJSON(sn)
			cm := strcase.ToCamel(name)
			if sn == "" || seenSnake[sn] || seenJSON[js] || seenJSON[name] || taken[cm] || taken[mapEntryName(sn)] || g.captures(cm, path) {
				continue
			}
			seenSnake[sn], seenJSON[js], seenJSON[name] = true, true, true
			ok = true
			break
		}
		if !ok {
			break
		}
		p := &Prop{Name: name}
		p.Field = g.field(name, oneof, depth, path, taken, more)
		if !oneof {
			switch g.n(5) {
			case 0:
				p.Req = true
			case 1:
				p.Opt = p.Field.Kind != FArray && p.Field.Kind != FMap
			}
		}
		props = append(props, p)
	}
	return props
}

func protocJSON(s string) string {
	var sb strings.Builder
	up := false
	for _, r := range s {
		if r == '_' {
			up = true
			continue
		}
		if up && r >= 'a' && r <= 'z' {
			r -= 32
		}
		up = false
		sb.WriteRune(r)
	}
	return sb.String()
}

func mapEntryName(snake string) string {
	var sb strings.Builder
	up := true
	for _, r := range snake {
		if r == '_' {
			up = true
			continue
		}
		if up && r >= 'a' && r <= 'z' {
			r -= 32
		}
		up = false
		sb.WriteRune(r)
	}
	return sb.String() + "Entry"
}

var scalarKinds = []string{FString, FBool, FBytes, FDate, FDecimal, FTimestamp, FAny, FInteger, FFloat, FKey}

func (g *Gen) scalar() *Field {
	k := pick(g, scalarKinds)
	f := &Field{Kind: k}
	switch k {
	case FInteger:
		f.Fmt = pick(g, []string{"int32", "int64", "uint32", "uint64"})
	case FFloat:
		f.Fmt = pick(g, []string{"float32", "float64"})
	case FKey:
		f.Fmt = pick(g, []string{"none", "informal", "uuid", "id62", "custom"})
		if f.Fmt == "custom" {
			f.Pattern = pick(g, []string{"^[a-z]+$", "^x{3}$", "^[0-9]{4}$"})
		}
		if g.chance(1, 6) {
			f.EntKey = g.entKey(false)
		}
	}
	if g.Cfg.Rules && g.chance(1, 3) {
		f.Rules = SafeRules(g, f)
	}
	return f
}

func (g *Gen) entKey(allowPrimary bool) *EntKey {
	ek := &EntKey{}
	switch g.n(3) {
	case 0:
		if allowPrimary {
			ek.Kind = "primary"
			ek.Primary = true
		} else {
			ek.Kind = "foreign"
			ek.FPkg, ek.FEntity = "other.v1", "Thing"
		}
	case 1:
		ek.Kind = "foreign"
		ek.FPkg, ek.FEntity = pick(g, []string{"other.v1", "a.b.v2"}), pick(g, []string{"Thing", "acct"})
	default:
		ek.Kind = "plain"
		t := pick(g, []string{"account", "org"})
		ek.Tenant = &t
		return ek
	}
	if g.chance(1, 3) {
		t := pick(g, []string{"account", "org"})
		ek.Tenant = &t
	}
	return ek
}

// SafeRules returns rules every implementation accepts for the field type.
func SafeRules(g *Gen, f *Field) []Rule {
	switch f.Kind {
	case FString:
		return []Rule{{Name: "minLength", Lit: Lit{Kind: "i", N: uint64(g.n(3))}}}
	case FBytes:
		return []Rule{{Name: "maxLength", Lit: Lit{Kind: "i", N: uint64(10 + g.n(3))}}}
	case FBool:
		return []Rule{{Name: "const", Lit: Lit{Kind: "b", B: g.chance(1, 2)}}}
	case FInteger:
		return []Rule{{Name: "minimum", Lit: Lit{Kind: "i", N: uint64(g.n(9))}}}
	}
	return nil
}

func (g *Gen) field(propName string, oneof bool, depth int, path []string, taken map[string]bool, more *[]target) *Field {
	// oneof options must be objects
	if oneof {
		return g.typed(FObject, propName, depth, path, taken, more)
	}
	switch g.n(9) {
	case 0, 1, 2, 3:
		return g.scalar()
	case 4:
		return g.typed(FObject, propName, depth, path, taken, more)
	case 5:
		return g.typed(pick(g, []string{FOneof, FEnum}), propName, depth, path, taken, more)
	case 6, 7:
		return &Field{Kind: FArray, Items: g.item(propName, depth, path, taken, more)}
	default:
		f := &Field{Kind: FMap, Items: g.item(propName, depth, path, taken, more)}
		taken[mapEntryName(strcase.ToSnake(propName))] = true
		return f
	}
}

func (g *Gen) item(propName string, depth int, path []string, taken map[string]bool, more *[]target) *Field {
	switch g.n(4) {
	case 0, 1:
		f := g.scalar()
		return f
	case 2:
		return g.typed(FObject, propName, depth, path, taken, more)
	default:
		return g.typed(pick(g, []string{FOneof, FEnum}), propName, depth, path, taken, more)
	}
}

// typed generates an object / oneof / enum field: a reference when a target exists (and by
// chance), otherwise an inline definition.
func (g *Gen) typed(kind, propName string, depth int, path []string, taken map[string]bool, more *[]target) *Field {
	f := &Field{Kind: kind}
	want := kind
	var cands []target
	for _, t := range g.avail {
		if t.kind == want || (want == FObject && t.kind == KOneof && false) {
			cands = append(cands, t)
		}
	}
	inlineOK := depth < g.Cfg.MaxDepth
	if len(cands) > 0 && (!inlineOK || g.chance(1, 2)) {
		t := pick(g, cands)
		f.Ref = g.refTo(t)
		if kind == FObject && g.chance(1, 10) {
			f.Flatten = true
		}
		return f
	}
	if !inlineOK {
		// nothing to refer to and too deep: fall back to a scalar
		return g.scalar()
	}
	// inline
	name := ""
	def := strcase.ToCamel(propName)
	if taken[def] || g.chance(1, 5) {
		name = g.uniq(taken, typeWords, func(w string) bool { return g.captures(w, path) })
	} else {
		taken[def] = true
	}
	eff := name
	if eff == "" {
		eff = def
	}
	sub := append(append([]string{}, path...), eff)
	switch kind {
	case FObject, FOneof:
		tk := RInlObj
		if kind == FOneof {
			tk = RInlOneof
		}
		t := &TRef{Kind: tk, Name: name}
		inner := map[string]bool{}
		t.Props = g.props(kind == FOneof, depth+1, sub, inner, more)
		f.Ref = t
	case FEnum:
		t := &TRef{Kind: RInlEnum, Name: name}
		if g.chance(1, 5) {
			t.Prefix = pick(g, []string{"IN_", "LOCAL_K_"})
			if taken["pfx:"+t.Prefix] {
				t.Prefix = ""
			}
		}
		// enum values live in the scope enclosing the enum: the effective prefix must be unique there
		effPfx := t.Prefix
		if effPfx == "" {
			effPfx = strcase.ToScreamingSnake(eff) + "_"
		}
		if taken["pfx:"+effPfx] {
			g.counter++
			t.Prefix = fmt.Sprintf("E%d_", g.counter)
			effPfx = t.Prefix
		}
		taken["pfx:"+effPfx] = true
		t.Opts = g.enumOpts(t.Prefix, eff)
		if len(t.Opts) == 0 {
			t.Opts = []string{"ONLY"} // an inline enum without options parses to an unset schema
		}
		t.Nums = g.pinNums(t.Opts)
		for !claimValues(taken, t.Prefix, eff, t.Opts) {
			g.counter++
			t.Prefix = fmt.Sprintf("E%d_", g.counter)
			effPfx = t.Prefix
			taken["pfx:"+effPfx] = true
			t.Opts = []string{"ONLY"}
			t.Nums = nil
		}
		f.Ref = t
		if g.Cfg.EnumInRules && len(t.Opts) >= 2 && g.chance(1, 2) {
			f.Rules = append(f.Rules, g.enumInRule(effPfx, t.Opts))
			g.EnumInRuleCount++
		}
		if g.chance(1, 5) {
			// list rules with default filters naming options of the enum, bare or with the prefix
			f.HasList = true
			for _, o := range t.Opts {
				if g.chance(1, 2) {
					continue
				}
				if !strings.HasPrefix(o, effPfx) && g.chance(1, 2) {
					o = effPfx + o
				}
				f.ListFilters = append(f.ListFilters, o)
			}
		}
	}
	if len(path) > 0 && g.chance(1, 2) {
		*more = append(*more, target{pkg: g.pkgName, schema: strings.Join(sub, "."), kind: kind, local: true})
	}
	return f
}

// refTo picks a surface form for a reference and adds the import it needs.
func (g *Gen) refTo(t target) *TRef {
	if t.local || t.pkg == g.pkgName {
		r := &TRef{Kind: RRef, Schema: t.schema}
		if g.chance(1, 12) {
			r.Pkg = g.pkgName // explicit own package
		}
		return r
	}
	// foreign: reuse an existing import of that package or add one
	for _, im := range *g.imports {
		if im.Path == t.pkg {
			return &TRef{Kind: RRef, Pkg: g.prefixFor(im), Schema: t.schema}
		}
	}
	im := Import{Path: t.pkg}
	clash := false
	for _, o := range *g.imports {
		// a later un-aliased import would take the implied name away from an earlier one
		if o.Alias == "" && impliedName(o.Path) == impliedName(t.pkg) {
			clash = true
		}
	}
	if clash || g.chance(1, 3) {
		im.Alias = pick(g, []string{"al", "dep", "other", "x"}) + fmt.Sprint(len(*g.imports))
	}
	*g.imports = append(*g.imports, im)
	return &TRef{Kind: RRef, Pkg: g.prefixFor(im), Schema: t.schema}
}

func (g *Gen) prefixFor(im Import) string {
	if im.Alias != "" {
		return im.Alias
	}
	n := 0
	for _, o := range *g.imports {
		if o.Alias == "" && impliedName(o.Path) == impliedName(im.Path) {
			n++
		}
	}
	if n > 1 || g.chance(1, 2) {
		return im.Path // (the implied name belongs to the last of several imports)
	}
	return impliedName(im.Path)
}

// ---- services, topics

func (g *Gen) reqProps() []*Prop {
	more := []target{}
	return g.props(false, g.Cfg.MaxDepth-1, []string{"-"}, map[string]bool{}, &more)
}

func (g *Gen) service(named bool) *Service {
	s := &Service{}
	if named {
		s.Name = g.uniq(g.svcNames, typeWords, func(w string) bool { return g.svcNames[w+"Service"] })
		g.svcNames[s.Name+"Service"] = true
	}
	if g.chance(2, 3) {
		bp := "/" + pick(g, pathWords) + "/v1"
		if g.chance(1, 6) {
			bp += "/"
		}
		s.BasePath = &bp
	}
	// path parameters declared in the basePath: every method's request then carries the field, whether or not
	// the method's own path has parameters (the `:name` -> `{snake_name}` rewrite covers the JOINED path)
	var bpParams []string
	if s.BasePath != nil && g.chance(1, 3) {
		bp := strings.TrimSuffix(*s.BasePath, "/")
		for _, pp := range []string{"bpScope", "scope_ref"} {
			if g.chance(1, 2) || len(bpParams) == 0 {
				bpParams = append(bpParams, pp)
				if g.chance(1, 2) {
					bp += "/:" + pp
				} else {
					bp = "/:" + pp + bp
				}
			}
			if g.chance(1, 2) {
				break
			}
		}
		s.BasePath = &bp
	}
	nm := g.n(3)
	if len(bpParams) > 0 && nm == 0 {
		nm = 1
	}
	for i := 0; i < nm; i++ {
		m := g.method()
		for _, pp := range bpParams {
			m.Req = append(m.Req, &Prop{Name: pp, Field: &Field{Kind: pick(g, []string{FString, FKey}), Fmt: "none"}})
		}
		if len(bpParams) > 0 && g.chance(1, 2) {
			// a method without parameters of its own
			m.Path = pick(g, []string{"", "/", "/" + pick(g, pathWords)})
		}
		s.Methods = append(s.Methods, m)
	}
	return s
}

func (g *Gen) method() *Method {
	var name string
	for {
		name = g.uniq(g.svcNames, []string{"Get", "List", "Create", "Update", "Delete", "Do", "Fetch", "Run"}, nil)
		if !g.svcNames[name+"Request"] && !g.svcNames[name+"Response"] {
			g.svcNames[name+"Request"], g.svcNames[name+"Response"] = true, true
			break
		}
	}
	m := &Method{Name: name, Verb: pick(g, []string{"get", "post", "put", "patch", "delete"})}
	m.Req = g.reqProps()
	// path parameters refer to scalar request fields
	var params []string
	for _, p := range m.Req {
		switch p.Field.Kind {
		case FString, FKey, FInteger, FBool:
			if g.chance(1, 2) {
				params = append(params, p.Name)
			}
		}
	}
	var segs []string
	nseg := g.n(3)
	for i := 0; i < nseg; i++ {
		segs = append(segs, pick(g, pathWords))
	}
	for _, p := range params {
		pos := g.n(len(segs))
		segs = append(segs[:pos], append([]string{":" + p}, segs[pos:]...)...)
	}
	m.Path = "/" + strings.Join(segs, "/")
	if len(segs) == 0 && g.chance(1, 2) {
		m.Path = ""
	}
	if g.chance(4, 5) {
		m.HasRes = true
		m.Res = g.reqProps()
	}
	if g.Cfg.ListMethods && g.chance(1, 5) {
		g.makeListMethod(m)
	}
	return m
}

// makeListMethod: the request takes a j5.list.v1.QueryRequest; the response then has exactly one
// array property, holding objects (plus, by chance, the page response).
func (g *Gen) makeListMethod(m *Method) {
	listRef := func(schema string) *Field {
		return &Field{Kind: FObject, Ref: &TRef{Kind: RRef, Pkg: "j5.list.v1", Schema: schema}}
	}
	m.Req = append(m.Req, &Prop{Name: "query", Field: listRef("QueryRequest")})
	if g.chance(1, 2) {
		m.Req = append(m.Req, &Prop{Name: "page", Field: listRef("PageRequest")})
	}
	var res []*Prop
	for _, p := range m.Res {
		if p.Field.Kind != FArray {
			res = append(res, p)
		}
	}
	item := &Field{Kind: FObject, Ref: &TRef{Kind: RInlObj, Name: "ListedRow", Props: []*Prop{{Name: "rowId", Field: &Field{Kind: FString}}}}}
	var objs []target
	for _, t := range g.avail {
		if t.kind == KObject {
			objs = append(objs, t)
		}
	}
	if len(objs) > 0 && g.chance(1, 2) {
		item = &Field{Kind: FObject, Ref: g.refTo(pick(g, objs))}
	}
	res = append(res, &Prop{Name: "listedRows", Field: &Field{Kind: FArray, Items: item}})
	if g.chance(1, 2) {
		res = append(res, &Prop{Name: "pageOut", Field: listRef("PageResponse")})
	}
	m.HasRes, m.Res = true, res
}

func (g *Gen) topicMsgName() string {
	for {
		n := g.uniq(g.topNames, []string{"PostFoo", "Notify", "Sync", "Changed", "Ping", "Emit"}, nil)
		if len(n) >= 2 && !g.topNames[n+"Message"] {
			g.topNames[n+"Message"] = true
			return n
		}
	}
}

func (g *Gen) topic() *Topic {
	t := &Topic{Kind: pick(g, []string{"publish", "reqres", "upsert"})}
	for {
		t.Name = g.uniq(g.topNames, typeWords, nil)
		c := strcase.ToCamel(t.Name)
		if len(t.Name) < 2 {
			continue
		}
		if g.topNames[c+"Topic"] || g.topNames[c+"RequestTopic"] || g.topNames[c+"ReplyTopic"] ||
			g.topNames[t.Name+"Message"] || g.topNames[t.Name+"RequestMessage"] || g.topNames[t.Name+"ReplyMessage"] {
			continue
		}
		g.topNames[c+"Topic"], g.topNames[c+"RequestTopic"], g.topNames[c+"ReplyTopic"] = true, true, true
		g.topNames[t.Name+"Message"], g.topNames[t.Name+"RequestMessage"], g.topNames[t.Name+"ReplyMessage"] = true, true, true
		break
	}
	msg := func(named bool) *TMsg {
		m := &TMsg{Props: g.reqProps()}
		if named {
			n := g.topicMsgName()
			m.Name = &n
		}
		return m
	}
	switch t.Kind {
	case "publish":
		n := 1 + g.n(2)
		for i := 0; i < n; i++ {
			t.Msgs = append(t.Msgs, msg(n > 1 || g.chance(2, 3)))
		}
	case "upsert":
		t.Msgs = []*TMsg{msg(g.chance(1, 2))}
	case "reqres":
		n := 1 + g.n(1)
		for i := 0; i < n; i++ {
			t.Reqs = append(t.Reqs, msg(n > 1 || g.chance(1, 3)))
		}
		n = 1 + g.n(1)
		for i := 0; i < n; i++ {
			t.Reps = append(t.Reps, msg(n > 1 || g.chance(1, 3)))
		}
	}
	return t
}

// ---- entities

func (g *Gen) entity() *Entity {
	e := &Entity{}
	words := entWords
	if g.Cfg.OddEntNames && g.chance(1, 3) {
		words = oddEntWords
	}
	for {
		e.Name = g.uniq(g.typeNames, words, nil)
		c := strcase.ToCamel(e.Name)
		clash := false
		for k := range g.typeNames {
			if k != e.Name && (strings.HasPrefix(k, c) || strings.HasPrefix(strcase.ToCamel(k), c) || strings.HasPrefix(c, strcase.ToCamel(k))) {
				clash = true
			}
		}
		if !clash && !g.svcNames[c+"QueryService"] && !g.topNames[c+"PublishTopic"] {
			g.svcNames[c+"QueryService"], g.svcNames[c+"CommandService"] = true, true
			for _, sfx := range []string{"Get", "List", "Events"} {
				g.svcNames[c+sfx+"Request"], g.svcNames[c+sfx+"Response"] = true, true
			}
			g.topNames[c+"PublishTopic"], g.topNames[c+"EventMessage"] = true, true
			g.topNames[c+"SummaryTopic"], g.topNames[c+"SummaryMessage"] = true, true
			break
		}
	}
	camel := strcase.ToCamel(e.Name)
	if g.chance(1, 4) {
		e.BaseURL = pick(g, []string{"custom/path", "x", "a/b/c"})
	}
	// keys
	nk := 1 + g.n(3)
	seen := map[string]bool{}
	more := []target{}
	for i := 0; i < nk; i++ {
		var name string
		for {
			name = pick(g, []string{"fooId", "accountId", "orgID", "key2", "tenant_id", "part", "seq", "region"})
			if !seen[strcase.ToSnake(name)] {
				seen[strcase.ToSnake(name)] = true
				break
			}
		}
		k := &EKey{Prop: &Prop{Name: name}}
		if g.chance(5, 6) {
			f := &Field{Kind: FKey, Fmt: pick(g, []string{"none", "uuid", "id62", "informal"})}
			switch g.n(4) {
			case 0, 1:
				f.EntKey = &EntKey{Kind: "primary", Primary: true}
				if g.chance(1, 8) {
					f.EntKey.Primary = false
				}
			case 2:
				f.EntKey = g.entKey(true)
			}
			if i == 0 && f.EntKey == nil && g.chance(2, 3) {
				f.EntKey = &EntKey{Kind: "primary", Primary: true}
			}
			k.Prop.Field = f
		} else {
			k.Prop.Field = &Field{Kind: pick(g, []string{FString, FInteger, FDate}), Fmt: "int64"}
			if k.Prop.Field.Kind != FInteger {
				k.Prop.Field.Fmt = ""
			}
		}
		switch g.n(5) {
		case 0:
			k.Prop.Req = true
		case 1:
			pk := k.Prop.Field.EntKey != nil && k.Prop.Field.EntKey.Kind == "primary" && k.Prop.Field.EntKey.Primary
			k.Prop.Opt = !pk
		}
		k.Shard = g.chance(1, 4)
		e.Keys = append(e.Keys, k)
	}
	e.Data = g.props(false, 1, []string{camel + "Data"}, map[string]bool{}, &more)
	ns := 1 + g.n(3)
	sseen := map[string]bool{}
	for i := 0; i < ns; i++ {
		e.Statuses = append(e.Statuses, g.uniq(sseen, optWords, nil))
	}
	// `status X { number = N }`: written numbers are ignored, statuses are numbered by position
	e.StatusNums = g.pinNums(e.Statuses)
	nev := g.n(4)
	eseen := map[string]bool{}
	lseen := map[string]bool{}
	for i := 0; i < nev; i++ {
		var nm string
		for {
			nm = g.uniq(eseen, []string{"Create", "Update", "Archive", "DoThing", "Renamed", "HTTPCall", "Step2"}, nil)
			l := strcase.ToSnake(strcase.ToLowerCamel(nm))
			if !lseen[l] {
				lseen[l] = true
				break
			}
		}
		o := &Object{Name: nm}
		o.Props = g.props(false, 1, []string{camel + "EventType", nm}, map[string]bool{}, &more)
		e.Events = append(e.Events, o)
	}
	nc := g.n(2)
	for i := 0; i < nc; i++ {
		s := g.service(false)
		if i > 0 {
			for {
				s.Name = g.uniq(g.svcNames, []string{"Extra", "Admin", "Ops"}, nil)
				full := s.Name + "CommandService"
				if !g.svcNames[full] {
					g.svcNames[full] = true
					break
				}
			}
		}
		if s.BasePath != nil {
			bp := pick(g, []string{"x", "cmd/sub", "c2"})
			s.BasePath = &bp
		}
		e.Commands = append(e.Commands, s)
	}
	nsum := g.n(2)
	for i := 0; i < nsum; i++ {
		s := &Summary{Props: g.reqProps()}
		if i > 0 {
			for {
				s.Name = g.uniq(g.topNames, []string{"Brief", "Digest", "mini"}, nil)
				c := camel + strcase.ToCamel(s.Name)
				if !g.topNames[c+"Topic"] && !g.topNames[c+"Message"] {
					g.topNames[c+"Topic"], g.topNames[c+"Message"] = true, true
					break
				}
			}
		}
		e.Summaries = append(e.Summaries, s)
	}
	if g.chance(1, 2) {
		q := &Query{EventsInGet: g.chance(1, 2)}
		for _, s := range e.Statuses {
			if g.chance(1, 3) {
				q.Filters = append(q.Filters, s)
			}
		}
		e.Query = q
	}
	return e
}

// ---- fresh declarations for append edits (names the base generator never produces)

func (g *Gen) freshScalarProps(n int, tag string) []*Prop {
	var out []*Prop
	for i := 0; i < n; i++ {
		out = append(out, &Prop{Name: fmt.Sprintf("zz%s%d", tag, i), Field: g.scalar()})
	}
	return out
}

// FreshProp returns a new property for an append edit. idx makes the name unique.
func (g *Gen) FreshProp(oneof bool, idx int) *Prop {
	name := pick(g, []string{"zzNew", "zz_added_", "zzExtraID"}) + fmt.Sprint(idx)
	p := &Prop{Name: name}
	inlObj := func() *Field {
		return &Field{Kind: FObject, Ref: &TRef{Kind: RInlObj, Props: g.freshScalarProps(g.n(2), "In")}}
	}
	if oneof {
		p.Field = inlObj()
		return p
	}
	switch g.n(8) {
	case 7:
		// a key of an entity, primary or not
		p.Field = &Field{Kind: FKey, Fmt: pick(g, []string{"none", "uuid", "id62"}), EntKey: g.entKey(true)}
	case 0:
		p.Field = inlObj()
	case 1:
		p.Field = &Field{Kind: FEnum, Ref: &TRef{Kind: RInlEnum, Opts: []string{"ZZ_A", "ZZ_B"}}}
		if g.chance(1, 2) {
			p.Field.Ref.Nums = Nums{}.set(pick(g, []string{"ZZ_A", "ZZ_B"}), int32(1+g.n(3)))
		}
	case 2:
		p.Field = &Field{Kind: FArray, Items: g.scalar()}
	case 3:
		p.Field = &Field{Kind: FMap, Items: g.scalar()}
	case 4:
		p.Field = &Field{Kind: FArray, Items: inlObj()}
	default:
		p.Field = g.scalar()
	}
	switch g.n(4) {
	case 0:
		p.Req = true
	case 1:
		p.Opt = p.Field.Kind != FArray && p.Field.Kind != FMap
	}
	if ek := p.Field.EntKey; ek != nil && ek.Kind == "primary" && ek.Primary {
		p.Opt = false // a primary key is required: `optional` on it is rejected
	}
	return p
}

// FreshDecl returns a new top-level declaration for an appenddecl edit.
func (g *Gen) FreshDecl(idx int) *Elem {
	base := fmt.Sprintf("ZzNew%d", idx)
	switch g.n(5) {
	case 0:
		e := &Enum{Name: base + "Enum", Opts: []string{"P", "Q"}}
		if g.chance(1, 2) {
			e.Nums = Nums{}.set(pick(g, e.Opts), int32(1+g.n(3)))
		}
		return &Elem{Kind: KEnum, Enum: e}
	case 1:
		return &Elem{Kind: KOneof, Object: &Object{Oneof: true, Name: base + "Choice", Props: []*Prop{g.FreshProp(true, 0)}}}
	case 2:
		bp := "/zz/v1"
		return &Elem{Kind: KService, Service: &Service{Name: base + "Svc", BasePath: &bp, Methods: []*Method{
			{Name: base + "Call", Verb: pick(g, []string{"get", "post"}), Path: "/call/:zzId", Req: []*Prop{{Name: "zzId", Field: &Field{Kind: FString}}}, HasRes: true, Res: g.freshScalarProps(1, "Res")},
		}}}
	case 3:
		n := base + "Msg"
		return &Elem{Kind: KTopic, Topic: &Topic{Name: base + "Topic", Kind: "publish", Msgs: []*TMsg{{Name: &n, Props: g.freshScalarProps(2, "T")}}}}
	default:
		return &Elem{Kind: KObject, Object: &Object{Name: base + "Object", Props: g.freshScalarProps(1+g.n(2), "F")}}
	}
}

// enumInRule: `in` / `notIn` over the options of an enum with a repeated option. Every option may be written bare
// or with the enum's prefix; the list names at least two distinct options, one of them twice (once in each
// spelling, or twice the same), in random order.
func (g *Gen) enumInRule(effPfx string, opts []string) Rule {
	spell := func(o string, other bool) string {
		bare := strings.TrimPrefix(o, effPfx)
		if other == strings.HasPrefix(o, effPfx) {
			return bare
		}
		return effPfx + bare
	}
	idx := g.R.Perm(len(opts))
	n := 2 + g.n(len(opts)-2)
	var vals []string
	for _, i := range idx[:n] {
		vals = append(vals, spell(opts[i], g.chance(1, 2)))
	}
	// the repeats
	for k, m := 0, 1+g.n(1); k < m; k++ {
		o := opts[idx[g.n(n-1)]]
		vals = append(vals, spell(o, g.chance(1, 2)))
	}
	g.R.Shuffle(len(vals), func(i, j int) { vals[i], vals[j] = vals[j], vals[i] })
	name := "in"
	if g.chance(1, 3) {
		name = "notIn"
	}
	return Rule{Name: name, Lit: Lit{Kind: "strs", Strs: vals}}
}
