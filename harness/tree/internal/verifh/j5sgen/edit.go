//go:build verif

package j5sgen

import "fmt"

// Append edits (property C13). See PROTOCOL-compile.md "edits".

type Step struct {
	Kind string // el prop nest method req res msg reqm repm edata estatus event command summary
	Idx  int
}

type Edit struct {
	Kind    string // appendfield appendoption appenddecl
	FileIdx int
	Path    []Step
	Prop    *Prop
	Option  string
	OptNum  int32 // appendoption: the number written on the option (0 = none)
	Decl    *Elem
}

var stepHasIdx = map[string]bool{"el": true, "prop": true, "nest": true, "method": true, "msg": true, "reqm": true, "repm": true,
	"event": true, "command": true, "summary": true, "req": false, "res": false, "edata": false, "estatus": false}

func (e *Edit) Sexp() *Node {
	path := L("path")
	for _, s := range e.Path {
		if stepHasIdx[s.Kind] {
			path.Kids = append(path.Kids, L(s.Kind, N(s.Idx)))
		} else {
			path.Kids = append(path.Kids, L(s.Kind))
		}
	}
	switch e.Kind {
	case "appendfield":
		return L("appendfield", N(e.FileIdx), path, e.Prop.Sexp())
	case "appendoption":
		if e.OptNum > 0 {
			return L("appendoption", N(e.FileIdx), path, S(e.Option), N(int(e.OptNum)))
		}
		return L("appendoption", N(e.FileIdx), path, S(e.Option))
	case "appenddecl":
		return L("appenddecl", N(e.FileIdx), e.Decl.Sexp())
	}
	panic("bad edit kind")
}

func EditsSexp(es []*Edit) *Node {
	n := L("edits")
	for _, e := range es {
		n.Kids = append(n.Kids, e.Sexp())
	}
	return n
}

func DecodeEdits(n *Node) (es []*Edit, err error) {
	defer catch(&err)
	for _, en := range n.expect("edits", 0) {
		k := en.head()
		e := &Edit{Kind: k}
		switch k {
		case "appendfield":
			a := en.expect(k, 3)
			e.FileIdx = a[0].Int()
			e.Path = decPath(a[1])
			e.Prop = decProp(a[2])
		case "appendoption":
			a := en.expect(k, 3)
			e.FileIdx = a[0].Int()
			e.Path = decPath(a[1])
			e.Option = a[2].Str()
			if len(a) > 3 {
				v := a[3].Int()
				if v <= 0 || v > 1<<20 {
					bad("bad option number")
				}
				e.OptNum = int32(v)
			}
		case "appenddecl":
			a := en.expect(k, 2)
			e.FileIdx = a[0].Int()
			e.Decl = DecElem(a[1])
		default:
			bad("bad edit %s", k)
		}
		es = append(es, e)
	}
	return es, nil
}

func decPath(n *Node) []Step {
	var out []Step
	for _, sn := range n.expect("path", 1) {
		k := sn.head()
		hasIdx, ok := stepHasIdx[k]
		if !ok {
			bad("bad step %s", k)
		}
		st := Step{Kind: k}
		if hasIdx {
			st.Idx = sn.expect(k, 1)[0].Int()
		} else if len(sn.Kids) != 1 {
			bad("step %s takes no argument", k)
		}
		out = append(out, st)
	}
	return out
}

// cursor: exactly one member is set.
type cursor struct {
	obj    *Object
	enum   *Enum
	svc    *Service
	method *Method
	topic  *Topic
	ent    *Entity
	props  *[]*Prop // plain property list (request, response, topic message, inline object, entity data, summary)
	oneof  bool     // props belongs to a oneof
	opts   *[]string
	nums   *Nums
}

func elemCursor(e *Elem) cursor {
	switch e.Kind {
	case KObject, KOneof:
		return cursor{obj: e.Object}
	case KEnum:
		return cursor{enum: e.Enum}
	case KService:
		return cursor{svc: e.Service}
	case KTopic:
		return cursor{topic: e.Topic}
	case KEntity:
		return cursor{ent: e.Entity}
	}
	return cursor{}
}

func at[T any](xs []T, i int) (T, bool) {
	var z T
	if i < 0 || i >= len(xs) {
		return z, false
	}
	return xs[i], true
}

func (c cursor) propList() (*[]*Prop, bool, bool) {
	if c.obj != nil {
		return &c.obj.Props, c.obj.Oneof, true
	}
	if c.props != nil {
		return c.props, c.oneof, true
	}
	return nil, false, false
}

func (c cursor) step(s Step) (cursor, bool) {
	switch s.Kind {
	case "prop":
		pl, _, ok := c.propList()
		if !ok {
			return cursor{}, false
		}
		p, ok := at(*pl, s.Idx)
		if !ok {
			return cursor{}, false
		}
		f := p.Field
		if f.Kind == FArray || f.Kind == FMap {
			f = f.Items
		}
		if f.Ref == nil {
			return cursor{}, false
		}
		switch f.Ref.Kind {
		case RInlObj:
			return cursor{props: &f.Ref.Props}, true
		case RInlOneof:
			return cursor{props: &f.Ref.Props, oneof: true}, true
		case RInlEnum:
			return cursor{opts: &f.Ref.Opts, nums: &f.Ref.Nums}, true
		}
		return cursor{}, false
	case "nest":
		var nested []*Elem
		switch {
		case c.obj != nil:
			nested = c.obj.Nested
		case c.ent != nil:
			nested = c.ent.Nested
		default:
			return cursor{}, false
		}
		e, ok := at(nested, s.Idx)
		if !ok {
			return cursor{}, false
		}
		return elemCursor(e), true
	case "method":
		if c.svc == nil {
			return cursor{}, false
		}
		m, ok := at(c.svc.Methods, s.Idx)
		if !ok {
			return cursor{}, false
		}
		return cursor{method: m}, true
	case "req":
		if c.method == nil {
			return cursor{}, false
		}
		return cursor{props: &c.method.Req}, true
	case "res":
		if c.method == nil || !c.method.HasRes {
			return cursor{}, false
		}
		return cursor{props: &c.method.Res}, true
	case "msg", "reqm", "repm":
		if c.topic == nil {
			return cursor{}, false
		}
		var list []*TMsg
		switch {
		case s.Kind == "msg" && c.topic.Kind != "reqres":
			list = c.topic.Msgs
		case s.Kind == "reqm" && c.topic.Kind == "reqres":
			list = c.topic.Reqs
		case s.Kind == "repm" && c.topic.Kind == "reqres":
			list = c.topic.Reps
		default:
			return cursor{}, false
		}
		m, ok := at(list, s.Idx)
		if !ok {
			return cursor{}, false
		}
		return cursor{props: &m.Props}, true
	case "edata":
		if c.ent == nil {
			return cursor{}, false
		}
		return cursor{props: &c.ent.Data}, true
	case "estatus":
		if c.ent == nil {
			return cursor{}, false
		}
		return cursor{opts: &c.ent.Statuses, nums: &c.ent.StatusNums}, true
	case "event":
		if c.ent == nil {
			return cursor{}, false
		}
		o, ok := at(c.ent.Events, s.Idx)
		if !ok {
			return cursor{}, false
		}
		return cursor{obj: o}, true
	case "command":
		if c.ent == nil {
			return cursor{}, false
		}
		sv, ok := at(c.ent.Commands, s.Idx)
		if !ok {
			return cursor{}, false
		}
		return cursor{svc: sv}, true
	case "summary":
		if c.ent == nil {
			return cursor{}, false
		}
		sm, ok := at(c.ent.Summaries, s.Idx)
		if !ok {
			return cursor{}, false
		}
		return cursor{props: &sm.Props}, true
	}
	return cursor{}, false
}

func resolve(f *File, path []Step) (cursor, bool) {
	if len(path) == 0 || path[0].Kind != "el" || f.Proto {
		return cursor{}, false
	}
	e, ok := at(f.Elems, path[0].Idx)
	if !ok {
		return cursor{}, false
	}
	c := elemCursor(e)
	for _, s := range path[1:] {
		c, ok = c.step(s)
		if !ok {
			return cursor{}, false
		}
	}
	return c, true
}

// Apply applies the edits, in order, to package pkg of the bundle IN PLACE.
func Apply(b *Bundle, pkg string, edits []*Edit) error {
	p := b.Pkg(pkg)
	if p == nil {
		return fmt.Errorf("no package %s", pkg)
	}
	for i, e := range edits {
		f, ok := at(p.Files, e.FileIdx)
		if !ok || f.Proto {
			return fmt.Errorf("edit %d: bad file index", i)
		}
		switch e.Kind {
		case "appenddecl":
			f.Elems = append(f.Elems, e.Decl)
		case "appendfield":
			c, ok := resolve(f, e.Path)
			if !ok {
				return fmt.Errorf("edit %d: bad path", i)
			}
			pl, _, ok := c.propList()
			if !ok {
				return fmt.Errorf("edit %d: path does not name a field container", i)
			}
			*pl = append(*pl, e.Prop)
		case "appendoption":
			c, ok := resolve(f, e.Path)
			if !ok {
				return fmt.Errorf("edit %d: bad path", i)
			}
			switch {
			case c.enum != nil:
				c.enum.Opts = append(c.enum.Opts, e.Option)
				c.enum.Nums = c.enum.Nums.set(e.Option, e.OptNum)
			case c.opts != nil:
				*c.opts = append(*c.opts, e.Option)
				*c.nums = (*c.nums).set(e.Option, e.OptNum)
			default:
				return fmt.Errorf("edit %d: path does not name an enum", i)
			}
		}
	}
	return nil
}

// Clone deep-copies a bundle (through the wire encoding).
func (b *Bundle) Clone() *Bundle {
	c, err := DecodeBundle(b.Sexp())
	if err != nil {
		panic(err)
	}
	return c
}

// Container is an eligible append position found by Containers.
type Container struct {
	FileIdx int
	Path    []Step
	Kind    string // fields | oneof | enum
	User    bool   // declared by the user as object/oneof/enum/service/topic (not part of an entity)
	Keys    bool   // a hand-written object annotated as the KEYS part of an entity
}

// Containers lists every position of package p where an append edit applies.
func Containers(p *Pkg) []Container {
	var out []Container
	for fi, f := range p.Files {
		if f.Proto {
			continue
		}
		for ei, e := range f.Elems {
			walkContainers(fi, []Step{{Kind: "el", Idx: ei}}, elemCursor(e), e.Kind != KEntity, &out)
		}
	}
	return out
}

func walkProps(fi int, path []Step, props []*Prop, user bool, out *[]Container) {
	for pi, p := range props {
		f := p.Field
		if f.Kind == FArray || f.Kind == FMap {
			f = f.Items
		}
		if f.Ref == nil {
			continue
		}
		sub := append(append([]Step{}, path...), Step{Kind: "prop", Idx: pi})
		switch f.Ref.Kind {
		case RInlObj:
			*out = append(*out, Container{FileIdx: fi, Path: sub, Kind: "fields", User: user})
			walkProps(fi, sub, f.Ref.Props, user, out)
		case RInlOneof:
			*out = append(*out, Container{FileIdx: fi, Path: sub, Kind: "oneof", User: user})
			walkProps(fi, sub, f.Ref.Props, user, out)
		case RInlEnum:
			*out = append(*out, Container{FileIdx: fi, Path: sub, Kind: "enum", User: user})
		}
	}
}

func walkContainers(fi int, path []Step, c cursor, user bool, out *[]Container) {
	ext := func(k string, i int) []Step { return append(append([]Step{}, path...), Step{Kind: k, Idx: i}) }
	switch {
	case c.obj != nil:
		kind := "fields"
		if c.obj.Oneof {
			kind = "oneof"
		}
		*out = append(*out, Container{FileIdx: fi, Path: path, Kind: kind, User: user, Keys: c.obj.PSM != nil && c.obj.PSM.Part == "keys"})
		walkProps(fi, path, c.obj.Props, user, out)
		for ni, n := range c.obj.Nested {
			walkContainers(fi, ext("nest", ni), elemCursor(n), user, out)
		}
	case c.enum != nil:
		*out = append(*out, Container{FileIdx: fi, Path: path, Kind: "enum", User: user})
	case c.svc != nil:
		for mi, m := range c.svc.Methods {
			mp := ext("method", mi)
			rq := append(append([]Step{}, mp...), Step{Kind: "req"})
			*out = append(*out, Container{FileIdx: fi, Path: rq, Kind: "fields", User: user})
			walkProps(fi, rq, m.Req, user, out)
			if m.HasRes {
				rs := append(append([]Step{}, mp...), Step{Kind: "res"})
				*out = append(*out, Container{FileIdx: fi, Path: rs, Kind: "fields", User: user})
				walkProps(fi, rs, m.Res, user, out)
			}
		}
	case c.topic != nil:
		add := func(k string, ms []*TMsg) {
			for mi, m := range ms {
				mp := ext(k, mi)
				*out = append(*out, Container{FileIdx: fi, Path: mp, Kind: "fields", User: user})
				walkProps(fi, mp, m.Props, user, out)
			}
		}
		if c.topic.Kind == "reqres" {
			add("reqm", c.topic.Reqs)
			add("repm", c.topic.Reps)
		} else {
			add("msg", c.topic.Msgs)
		}
	case c.ent != nil:
		dp := append(append([]Step{}, path...), Step{Kind: "edata"})
		*out = append(*out, Container{FileIdx: fi, Path: dp, Kind: "fields", User: false})
		walkProps(fi, dp, c.ent.Data, false, out)
		*out = append(*out, Container{FileIdx: fi, Path: append(append([]Step{}, path...), Step{Kind: "estatus"}), Kind: "enum"})
		for i, ev := range c.ent.Events {
			walkContainers(fi, ext("event", i), cursor{obj: ev}, false, out)
		}
		for i, cmd := range c.ent.Commands {
			walkContainers(fi, ext("command", i), cursor{svc: cmd}, false, out)
		}
		for i, sm := range c.ent.Summaries {
			sp := ext("summary", i)
			*out = append(*out, Container{FileIdx: fi, Path: sp, Kind: "fields", User: false})
			walkProps(fi, sp, sm.Props, false, out)
		}
		for i, n := range c.ent.Nested {
			walkContainers(fi, ext("nest", i), elemCursor(n), false, out)
		}
	}
}
