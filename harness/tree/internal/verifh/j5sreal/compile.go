//go:build verif

package j5sreal

import (
	"context"
	"fmt"
	"runtime/debug"
	"sort"

	"github.com/bufbuild/protocompile/linker"
	"github.com/pentops/j5/internal/j5s/protobuild"
	"github.com/pentops/j5/internal/verifh/j5sgen"
)

// FromAST prints the abstract bundle as source files. Listing orders follow the AST order.
func FromAST(b *j5sgen.Bundle, style uint64) *MemBundle {
	mb := NewMemBundle()
	texts := j5sgen.PrintBundle(b, style)
	for _, p := range b.Pkgs {
		mb.Packages = append(mb.Packages, p.Name)
		root := ""
		for _, f := range p.Files {
			mb.Files[f.Path] = []byte(texts[f.Path])
			root = dirOf(f.Path)
			mb.Order[root] = append(mb.Order[root], f.Path)
		}
	}
	return mb
}

func dirOf(p string) string {
	for i := len(p) - 1; i >= 0; i-- {
		if p[i] == '/' {
			return p[:i]
		}
	}
	return ""
}

type Result struct {
	Class string // ok | err | panic
	Files linker.Files
	Err   error
	Panic string
	Stack string
}

// CompileOn compiles one package on an existing PackageSet, converting a panic into a Result.
func CompileOn(ps *protobuild.PackageSet, pkg string) (res Result) {
	defer func() {
		if r := recover(); r != nil {
			res = Result{Class: "panic", Panic: fmt.Sprint(r), Stack: string(debug.Stack())}
		}
	}()
	files, err := ps.CompilePackage(context.Background(), pkg)
	if err != nil {
		return Result{Class: "err", Err: err}
	}
	return Result{Class: "ok", Files: files}
}

// Compile compiles one package of the bundle on a fresh PackageSet.
func Compile(mb *MemBundle, pkg string) Result {
	ps, err := NewPackageSet(mb)
	if err != nil {
		return Result{Class: "err", Err: err}
	}
	return CompileOn(ps, pkg)
}

func SortedKeys[V any](m map[string]V) []string {
	ks := make([]string, 0, len(m))
	for k := range m {
		ks = append(ks, k)
	}
	sort.Strings(ks)
	return ks
}
