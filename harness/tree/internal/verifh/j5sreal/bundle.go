//go:build verif

// Package j5sreal runs the REAL j5s compiler (protobuild.PackageSet over an in-memory bundle)
// and dumps canonical skeletons of the linked descriptors. Shared by the compile cluster
// harness (compileh) and reusable by other clusters.
package j5sreal

import (
	"context"
	"fmt"
	"io"
	stdlog "log"
	"log/slog"
	"sort"
	"strings"

	"github.com/pentops/j5/internal/j5s/protobuild"
	plog "github.com/pentops/log.go/log"
	"google.golang.org/protobuf/types/descriptorpb"
)

func init() {
	// j5convert logs every error through the std logger; keep the harness output clean.
	stdlog.SetOutput(io.Discard)
	plog.DefaultLogger.SetLevel(slog.Level(100))
}

// MemBundle is an in-memory LocalFileSource. Files maps a bundle-relative path
// ("foo/v1/a.j5s") to its content. Packages is the package listing returned to the compiler;
// Order, when set, is the order in which ListSourceFiles returns the files of a package
// (any file not named is appended in sorted order).
type MemBundle struct {
	Files    map[string][]byte
	Packages []string
	Order    map[string][]string // package root ("foo/v1") -> file names in listing order
}

func NewMemBundle() *MemBundle {
	return &MemBundle{Files: map[string][]byte{}, Order: map[string][]string{}}
}

func PackageOfFile(filename string) string {
	idx := strings.LastIndex(filename, "/")
	if idx < 0 {
		return ""
	}
	return strings.ReplaceAll(filename[:idx], "/", ".")
}

func (mb *MemBundle) Add(filename string, content string) {
	mb.Files[filename] = []byte(content)
	pkg := PackageOfFile(filename)
	for _, p := range mb.Packages {
		if p == pkg {
			return
		}
	}
	mb.Packages = append(mb.Packages, pkg)
}

func (mb *MemBundle) GetLocalFile(_ context.Context, filename string) ([]byte, error) {
	b, ok := mb.Files[filename]
	if !ok {
		return nil, fmt.Errorf("file not found: %s", filename)
	}
	return b, nil
}

func (mb *MemBundle) ListPackages() []string { return mb.Packages }

func (mb *MemBundle) ListSourceFiles(_ context.Context, prefix string) ([]string, error) {
	var rest []string
	seen := map[string]bool{}
	var out []string
	for _, f := range mb.Order[prefix] {
		if _, ok := mb.Files[f]; ok && !seen[f] {
			out = append(out, f)
			seen[f] = true
		}
	}
	for f := range mb.Files {
		if strings.HasPrefix(f, prefix) && !seen[f] {
			rest = append(rest, f)
		}
	}
	sort.Strings(rest)
	return append(out, rest...), nil
}

// NoDeps is an empty DependencySet (only the built-in protos are available).
type NoDeps struct{}

func (NoDeps) ListDependencyFiles(root string) []string { return nil }
func (NoDeps) GetDependencyFile(filename string) (*descriptorpb.FileDescriptorProto, error) {
	return nil, fmt.Errorf("dependency file not found: %s", filename)
}

func NewPackageSet(mb *MemBundle) (*protobuild.PackageSet, error) {
	return protobuild.NewPackageSet(NoDeps{}, mb)
}
