//go:build verif

package j5sreal

import (
	"fmt"
	"sort"
	"strings"

	"buf.build/gen/go/bufbuild/protovalidate/protocolbuffers/go/buf/validate"
	"github.com/bufbuild/protocompile/linker"
	"github.com/pentops/j5/gen/j5/ext/v1/ext_j5pb"
	"github.com/pentops/j5/gen/j5/messaging/v1/messaging_j5pb"
	"google.golang.org/genproto/googleapis/api/annotations"
	"google.golang.org/protobuf/proto"
	"google.golang.org/protobuf/reflect/protodesc"
	"google.golang.org/protobuf/reflect/protoreflect"
	"google.golang.org/protobuf/types/descriptorpb"
)

// ---- structured skeleton (also used by the oracles)

type SFile struct {
	Name, Package string
	Deps          []string
	Msgs          []*SMsg
	Enums         []*SEnum
	Svcs          []*SSvc
}

type SMsg struct {
	Name   string
	Full   string // fully-qualified, no leading dot
	Kind   string // object | oneof | mapentry | none
	PSM    string // "-" or entity:part
	Fields []*SField
	Oneofs []string // real (non-synthetic) oneof names
	Msgs   []*SMsg
	Enums  []*SEnum
}

type SField struct {
	Name, JSON string
	Number     int32
	Type       string
	Label      string
	P3Opt      bool
	TypeName   string // "-" or .fq.Name
	Oneof      string // "-" or index
	Req        bool
	Ext        string
}

type SEnum struct {
	Name   string
	Full   string
	Values []SVal
}

type SVal struct {
	Name   string
	Number int32
}

type SSvc struct {
	Name    string
	Full    string
	Opt     string
	Methods []*SMethod
}

type SMethod struct {
	Name, Input, Output string
	HTTP                string
	Opt                 string
}

// typedExt returns the extension value with its generated Go type, whatever representation the
// linker left in the options message.
func typedExt(opts proto.Message, xt protoreflect.ExtensionType) proto.Message {
	if opts == nil || !opts.ProtoReflect().IsValid() {
		return nil
	}
	if proto.HasExtension(opts, xt) {
		if m, ok := proto.GetExtension(opts, xt).(proto.Message); ok {
			return m
		}
	}
	b, err := proto.Marshal(opts)
	if err != nil || len(b) == 0 {
		return nil
	}
	fresh := opts.ProtoReflect().New().Interface()
	if err := proto.Unmarshal(b, fresh); err != nil {
		return nil
	}
	if !proto.HasExtension(fresh, xt) {
		return nil
	}
	m, _ := proto.GetExtension(fresh, xt).(proto.Message)
	return m
}

func FileSkeleton(fd protoreflect.FileDescriptor) *SFile {
	fdp := protodesc.ToFileDescriptorProto(fd)
	sf := &SFile{Name: fdp.GetName(), Package: fdp.GetPackage(), Deps: append([]string{}, fdp.Dependency...)}
	for _, m := range fdp.MessageType {
		sf.Msgs = append(sf.Msgs, msgSkel(m, fdp.GetPackage()))
	}
	for _, e := range fdp.EnumType {
		sf.Enums = append(sf.Enums, enumSkel(e, fdp.GetPackage()))
	}
	for _, s := range fdp.Service {
		sf.Svcs = append(sf.Svcs, svcSkel(s, fdp.GetPackage()))
	}
	return sf
}

func enumSkel(e *descriptorpb.EnumDescriptorProto, scope string) *SEnum {
	se := &SEnum{Name: e.GetName(), Full: scope + "." + e.GetName()}
	for _, v := range e.Value {
		se.Values = append(se.Values, SVal{Name: v.GetName(), Number: v.GetNumber()})
	}
	return se
}

func msgSkel(m *descriptorpb.DescriptorProto, scope string) *SMsg {
	sm := &SMsg{Name: m.GetName(), Full: scope + "." + m.GetName(), Kind: "none", PSM: "-"}
	if m.Options.GetMapEntry() {
		sm.Kind = "mapentry"
	}
	if x, ok := typedExt(m.Options, ext_j5pb.E_Message).(*ext_j5pb.MessageOptions); ok && x != nil {
		switch x.Type.(type) {
		case *ext_j5pb.MessageOptions_Object:
			sm.Kind = "object"
		case *ext_j5pb.MessageOptions_Oneof:
			sm.Kind = "oneof"
		}
	}
	if x, ok := typedExt(m.Options, ext_j5pb.E_Psm).(*ext_j5pb.PSMOptions); ok && x != nil {
		part := strings.ToLower(strings.TrimPrefix(x.GetEntityPart().String(), "ENTITY_PART_"))
		sm.PSM = x.GetEntityName() + ":" + part
	}
	synthetic := map[int32]bool{}
	realIdx := map[int32]int{}
	for _, f := range m.Field {
		if f.GetProto3Optional() && f.OneofIndex != nil {
			synthetic[f.GetOneofIndex()] = true
		}
	}
	for i, o := range m.OneofDecl {
		if !synthetic[int32(i)] {
			realIdx[int32(i)] = len(sm.Oneofs)
			sm.Oneofs = append(sm.Oneofs, o.GetName())
		}
	}
	for _, f := range m.Field {
		sf := &SField{Name: f.GetName(), JSON: f.GetJsonName(), Number: f.GetNumber(),
			Type:  strings.ToLower(strings.TrimPrefix(f.GetType().String(), "TYPE_")),
			Label: strings.ToLower(strings.TrimPrefix(f.GetLabel().String(), "LABEL_")),
			P3Opt: f.GetProto3Optional(), TypeName: "-", Oneof: "-", Ext: "-"}
		if f.TypeName != nil {
			sf.TypeName = f.GetTypeName()
		}
		if sf.JSON == "" {
			sf.JSON = "-"
		}
		if f.OneofIndex != nil && !synthetic[f.GetOneofIndex()] {
			sf.Oneof = fmt.Sprint(realIdx[f.GetOneofIndex()])
		}
		if v, ok := typedExt(f.Options, validate.E_Field).(*validate.FieldConstraints); ok && v != nil {
			sf.Req = v.GetRequired()
		}
		if x, ok := typedExt(f.Options, ext_j5pb.E_Field).(*ext_j5pb.FieldOptions); ok && x != nil && x.Type != nil {
			var name string
			x.ProtoReflect().Range(func(fd protoreflect.FieldDescriptor, _ protoreflect.Value) bool {
				name = string(fd.Name())
				return false
			})
			sf.Ext = name
			if o := x.GetObject(); o != nil && o.Flatten {
				sf.Ext += "+flatten"
			}
		}
		sm.Fields = append(sm.Fields, sf)
	}
	for _, n := range m.NestedType {
		sm.Msgs = append(sm.Msgs, msgSkel(n, sm.Full))
	}
	for _, e := range m.EnumType {
		sm.Enums = append(sm.Enums, enumSkel(e, sm.Full))
	}
	return sm
}

func svcSkel(s *descriptorpb.ServiceDescriptorProto, scope string) *SSvc {
	ss := &SSvc{Name: s.GetName(), Full: scope + "." + s.GetName(), Opt: "-"}
	if x, ok := typedExt(s.Options, ext_j5pb.E_Service).(*ext_j5pb.ServiceOptions); ok && x != nil {
		switch t := x.Type.(type) {
		case *ext_j5pb.ServiceOptions_StateQuery_:
			ss.Opt = "query:" + t.StateQuery.GetEntity()
		case *ext_j5pb.ServiceOptions_StateCommand_:
			ss.Opt = "command:" + t.StateCommand.GetEntity()
		}
	}
	if x, ok := typedExt(s.Options, messaging_j5pb.E_Service).(*messaging_j5pb.ServiceConfig); ok && x != nil {
		role := "none"
		ent := ""
		switch r := x.Role.(type) {
		case *messaging_j5pb.ServiceConfig_Publish_:
			role = "publish"
		case *messaging_j5pb.ServiceConfig_Request_:
			role = "request"
		case *messaging_j5pb.ServiceConfig_Reply_:
			role = "reply"
		case *messaging_j5pb.ServiceConfig_Upsert_:
			role = "upsert"
			ent = r.Upsert.GetEntityName()
		case *messaging_j5pb.ServiceConfig_Event_:
			role = "event"
			ent = r.Event.GetEntityName()
		}
		ss.Opt = "topic:" + x.GetTopicName() + ":" + role
		if ent != "" {
			ss.Opt += ":" + ent
		}
	}
	for _, m := range s.Method {
		sm := &SMethod{Name: m.GetName(), Input: m.GetInputType(), Output: m.GetOutputType(), HTTP: "-", Opt: "-"}
		if x, ok := typedExt(m.Options, annotations.E_Http).(*annotations.HttpRule); ok && x != nil {
			verb, path := "none", ""
			switch p := x.Pattern.(type) {
			case *annotations.HttpRule_Get:
				verb, path = "get", p.Get
			case *annotations.HttpRule_Post:
				verb, path = "post", p.Post
			case *annotations.HttpRule_Put:
				verb, path = "put", p.Put
			case *annotations.HttpRule_Patch:
				verb, path = "patch", p.Patch
			case *annotations.HttpRule_Delete:
				verb, path = "delete", p.Delete
			}
			body := x.Body
			if body == "" {
				body = "-"
			}
			sm.HTTP = verb + ":" + path + ":" + body
		}
		if x, ok := typedExt(m.Options, ext_j5pb.E_Method).(*ext_j5pb.MethodOptions); ok && x != nil && x.StateQuery != nil {
			switch {
			case x.StateQuery.Get:
				sm.Opt = "get"
			case x.StateQuery.List:
				sm.Opt = "list"
			case x.StateQuery.ListEvents:
				sm.Opt = "events"
			}
		}
		ss.Methods = append(ss.Methods, sm)
	}
	return ss
}

// ---- canonical text

func (f *SFile) String() string {
	var sb strings.Builder
	fmt.Fprintf(&sb, "(file %s %s (deps", f.Name, f.Package)
	for _, d := range f.Deps {
		sb.WriteString(" " + d)
	}
	sb.WriteString(") (msgs")
	for _, m := range f.Msgs {
		sb.WriteString(" " + m.String())
	}
	sb.WriteString(") (enums")
	for _, e := range f.Enums {
		sb.WriteString(" " + e.String())
	}
	sb.WriteString(") (svcs")
	for _, s := range f.Svcs {
		sb.WriteString(" " + s.String())
	}
	sb.WriteString("))")
	return sb.String()
}

func b01(b bool) string {
	if b {
		return "1"
	}
	return "0"
}

func (m *SMsg) String() string {
	var sb strings.Builder
	fmt.Fprintf(&sb, "(msg %s %s %s (fields", m.Name, m.Kind, m.PSM)
	for _, f := range m.Fields {
		fmt.Fprintf(&sb, " (f %s %s %d %s %s %s %s %s %s %s)", f.Name, f.JSON, f.Number, f.Type, f.Label, b01(f.P3Opt), f.TypeName, f.Oneof, b01(f.Req), f.Ext)
	}
	sb.WriteString(") (msgs")
	for _, n := range m.Msgs {
		sb.WriteString(" " + n.String())
	}
	sb.WriteString(") (enums")
	for _, e := range m.Enums {
		sb.WriteString(" " + e.String())
	}
	sb.WriteString("))")
	return sb.String()
}

func (e *SEnum) String() string {
	var sb strings.Builder
	fmt.Fprintf(&sb, "(enum %s", e.Name)
	for _, v := range e.Values {
		fmt.Fprintf(&sb, " (v %s %d)", v.Name, v.Number)
	}
	sb.WriteString(")")
	return sb.String()
}

func (s *SSvc) String() string {
	var sb strings.Builder
	fmt.Fprintf(&sb, "(svc %s %s", s.Name, s.Opt)
	for _, m := range s.Methods {
		fmt.Fprintf(&sb, " (m %s %s %s %s %s)", m.Name, m.Input, m.Output, m.HTTP, m.Opt)
	}
	sb.WriteString(")")
	return sb.String()
}

// Skeletons returns the structured skeletons of the j5s-generated files, sorted by file name.
func Skeletons(files linker.Files) []*SFile {
	var out []*SFile
	for _, f := range files {
		if !strings.HasSuffix(f.Path(), ".j5s.proto") {
			continue
		}
		out = append(out, FileSkeleton(f))
	}
	sort.Slice(out, func(i, j int) bool { return out[i].Name < out[j].Name })
	return out
}

func SkeletonString(fs []*SFile) string {
	parts := make([]string, len(fs))
	for i, f := range fs {
		parts[i] = f.String()
	}
	return strings.Join(parts, " ")
}

func SkeletonOfFiles(files linker.Files) string { return SkeletonString(Skeletons(files)) }
