//go:build verif

package optionreflect

// Verification hooks (overlay only, never committed to the repository): expose the unexported
// text-format string kernel to the C05 harness.

func VerifPrototextString(in string) string { return prototextString(in) }
