//go:build verif

package optionreflect

import "google.golang.org/protobuf/reflect/protoreflect"

// Verification hooks (overlay only, never committed to the repository): expose the unexported
// text-format string kernel to the C05 harness.

func VerifPrototextString(in string) string { return prototextString(in) }

type verifIdx struct {
	protoreflect.FieldDescriptor
	idx  int
	name string
}

func (v verifIdx) Index() int                     { return v.idx }
func (v verifIdx) FullName() protoreflect.FullName { return protoreflect.FullName(v.name) }

// VerifLocLess evaluates the real optionsByLocation.Less on two options.
func VerifLocLess(aHas bool, aLine int32, aIdx int, aName string, bHas bool, bLine int32, bIdx int, bName string) bool {
	mk := func(has bool, line int32, idx int, name string) *OptionDefinition {
		o := &OptionDefinition{Desc: verifIdx{idx: idx, name: name}}
		if has {
			o.SourceLocation = &OptionSourceLocation{StartLine: line}
		}
		return o
	}
	return optionsByLocation{mk(aHas, aLine, aIdx, aName), mk(bHas, bLine, bIdx, bName)}.Less(0, 1)
}

type verifKind struct {
	protoreflect.FieldDescriptor
	k protoreflect.Kind
}

func (v verifKind) Kind() protoreflect.Kind { return v.k }

// VerifMarshalSingular is the real marshalSingular for a scalar of the given kind (not enums).
func VerifMarshalSingular(kind protoreflect.Kind, val protoreflect.Value) (string, bool) {
	return marshalSingular(verifKind{k: kind}, val)
}
