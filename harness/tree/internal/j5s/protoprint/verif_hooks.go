//go:build verif

package protoprint

import (
	"bytes"
	"sort"

	"github.com/pentops/j5/internal/j5s/protoprint/optionreflect"
	"google.golang.org/protobuf/reflect/protoreflect"
)

// Verification hooks (overlay only, never committed to the repository): expose the unexported
// kernels of the printer to the C05 harness.

func VerifContextRefName(context, ref protoreflect.Descriptor) (string, error) {
	return contextRefName(context, ref)
}

func VerifPathToPackage(d protoreflect.Descriptor) []string { return pathToPackage(d) }

// VerifElem is one sourceElement as the sort sees it.
type VerifElem struct {
	TypeOrder int
	StartLine int
	Index     int
	Tag       int
}

type verifIdx struct {
	protoreflect.Descriptor
	idx int
}

func (v verifIdx) Index() int { return v.idx }

func verifElements(in []VerifElem) sourceElements {
	se := make(sourceElements, len(in))
	for i, e := range in {
		se[i] = sourceElement{
			typeOrder:      e.TypeOrder,
			descriptor:     verifIdx{idx: e.Index},
			sourceLocation: protoreflect.SourceLocation{StartLine: e.StartLine, EndLine: e.Tag},
		}
	}
	return se
}

// VerifLess evaluates the real sourceElements.Less on two elements.
func VerifLess(a, b VerifElem) bool {
	return verifElements([]VerifElem{a, b}).Less(0, 1)
}

// VerifSort runs the real sort.Sort(sourceElements) and returns the Tag sequence.
func VerifSort(in []VerifElem) []int {
	se := verifElements(in)
	sort.Sort(se)
	out := make([]int, len(se))
	for i, e := range se {
		out[i] = e.sourceLocation.EndLine
	}
	return out
}

// VerifPrintOptionStmt renders one option with the real statement-style printer
// (`option (name) = …;` as used in message / service / method bodies).
func VerifPrintOptionStmt(opt *optionreflect.OptionDefinition) string {
	fb := &fileBuilder{out: &fileBuffer{out: &bytes.Buffer{}}}
	fb.printOption(opt)
	return fb.out.out.String()
}

// VerifPrintFieldStyle renders `name = number [options…];` with the real field-style printer.
func VerifPrintFieldStyle(name string, number int32, elem protoreflect.Descriptor) (string, error) {
	fb := &fileBuilder{out: &fileBuffer{out: &bytes.Buffer{}}}
	err := fb.printFieldStyle(name, number, elem)
	return fb.out.out.String(), err
}

// VerifFieldTypeName is the real fieldTypeName (scalar kind name or contextRefName of the type).
func VerifFieldTypeName(field protoreflect.FieldDescriptor) (string, error) {
	return fieldTypeName(field)
}

// VerifStatements is the real parseOption: the printed name (after Simplify) and the value of
// every statement the option is written as.
func VerifStatements(opt *optionreflect.OptionDefinition) (name string, values []optionreflect.OptionField) {
	for _, p := range parseOption(opt) {
		name = p.qualifiedName
		values = append(values, p.root)
	}
	if name == "" {
		name = optionFullName(opt)
	}
	return name, values
}
