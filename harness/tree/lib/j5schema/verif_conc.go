//go:build verif

package j5schema

import "sort"

// VerifCacheKeys lists every ref registered in the cache as "<package>.<schema>" and whether it
// is linked (To != nil). Verification hook for the conc.seq stream (sequential use only).
func (sc *SchemaCache) VerifCacheKeys() (keys []string, linked []bool) {
	for _, pkg := range sc.packages {
		for name := range pkg.Schemas {
			keys = append(keys, pkg.Name+"."+name)
		}
	}
	sort.Strings(keys)
	for _, k := range keys {
		for _, pkg := range sc.packages {
			for name, ref := range pkg.Schemas {
				if pkg.Name+"."+name == k {
					linked = append(linked, ref.To != nil)
				}
			}
		}
	}
	return keys, linked
}
