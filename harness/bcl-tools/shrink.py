#!/usr/bin/env python3
# usage: shrink.py <dir> <signature-prefix>   (uses /verif/.work/bin/bclh as last built; picks smallest failing op in <dir>/oracle.json)
import sys, json, subprocess, os, tempfile, shutil
d, sig = sys.argv[1], sys.argv[2]
o=[f for f in json.load(open(d+'/oracle.json')) if f['signature'].startswith(sig)]
o.sort(key=lambda f: len(f['op']))
f=o[0]; sig=f['signature']
opw=f['op'].split()[0]
src=bytes.fromhex(f['op'].split()[-1]).decode('utf8','surrogateescape')
stream={'parse':'parse','fmt':'fmt','diff':'diff','render':'parse'}[opw]
tmp=tempfile.mkdtemp(prefix='bcl-go-shrink')
def fails(cands):
    # returns index of first failing candidate or -1
    with open(tmp+'/in.ops','w') as fh:
        for c in cands:
            b=c.encode('utf8','surrogateescape')
            fh.write('%s %s\n'%(opw, b.hex() if b else '-'))
    subprocess.run([os.environ.get('BCLH','/verif/.work/bin/bclh'),'-out',tmp+'/out','-ops',tmp+'/in.ops'],env=dict(os.environ,BCL_STREAM=stream),capture_output=True)
    orc=json.load(open(tmp+'/out/oracle.json'))
    bad=set(x['op'] for x in orc if x['signature']==sig)
    for i,c in enumerate(cands):
        b=c.encode('utf8','surrogateescape')
        if '%s %s'%(opw, b.hex() if b else '-') in bad: return i
    return -1
cur=src
assert fails([cur])==0, 'does not reproduce'
changed=True
while changed:
    changed=False
    # remove lines
    lines=cur.split('\n')
    cands=['\n'.join(lines[:i]+lines[i+1:]) for i in range(len(lines))]
    i=fails(cands) if len(lines)>1 else -1
    if i>=0: cur=cands[i]; changed=True; continue
    # remove chunks of chars
    for size in (8,4,2,1):
        cands=[cur[:i]+cur[i+size:] for i in range(0,len(cur)-size+1)]
        # batches
        i=fails(cands) if cands else -1
        if i>=0: cur=cands[i]; changed=True; break
print(sig); print(repr(cur)); b=cur.encode('utf8','surrogateescape'); print('%s %s'%(opw,b.hex() if b else '-'))
with open(tmp+'/in.ops','w') as fh: fh.write('%s %s\n'%(opw,b.hex() if b else '-'))
subprocess.run([os.environ.get('BCLH','/verif/.work/bin/bclh'),'-out',tmp+'/out','-ops',tmp+'/in.ops'],env=dict(os.environ,BCL_STREAM=stream),capture_output=True)
for x in json.load(open(tmp+'/out/oracle.json')): print(x['signature'],'::',x['detail'][:800])
print('result:',open(tmp+'/out/go.out').read()[:600])
shutil.rmtree(tmp)
