import json,sys
d=sys.argv[1]
o=json.load(open(d+'/oracle.json'))
best={}
for f in o:
    s=f['signature']
    if s not in best or len(f['op'])<len(best[s]['op']): best[s]=f
for s,f in sorted(best.items()):
    op=f['op'].split()
    src=bytes.fromhex(op[-1]) if op[-1]!='-' else b''
    print('==',s); print('   src:',repr(src.decode('utf8','replace'))); print('   ',f['detail'][:700].replace('\n','\n    '))
