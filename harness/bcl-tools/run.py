#!/usr/bin/env python3
# usage: run.py <repo> <stream> <seed> <n> [tier]  -> builds bclh from <repo>, runs one shard, prints summary
import sys, os, json, subprocess, shutil
repo, stream, seed, n = sys.argv[1], sys.argv[2], sys.argv[3], sys.argv[4]
tier = sys.argv[5] if len(sys.argv) > 5 else 'quick'
os.environ['VERIF_REPO'] = repo
sys.path.insert(0, '/verif')
from vlib import engine
out, log, dt = engine.build_harness('bclh')
if out is None:
    print(log); sys.exit(1)
d = '/tmp/bcl-go-t/%s-%s' % (stream, seed)
shutil.rmtree(d, ignore_errors=True)
env = dict(os.environ, BCL_STREAM=stream)
p = subprocess.run([out, '-seed', seed, '-n', n, '-tier', tier, '-out', d, '-flush'], env=env, capture_output=True, text=True)
print(p.stderr[-2000:], 'rc', p.returncode)
s = json.load(open(d + '/stats.json'))
print(s['evaluations'], s['distinct_nontrivial'], round(s['wall_s'], 2))
print(json.dumps(s['failure_signatures'], indent=1))
print({k: v for k, v in s['counters'].items() if not k.startswith('tok.') and not k.startswith('diag.')})
print(d, out)
