#!/bin/bash
# usage: mutate.sh <check-id> <file relative to repo> <python-expr old> <python-expr new>
# applies one textual mutation in a scratch worktree, runs the bcl unit tests and the check, removes the worktree.
set -u
export GOFLAGS=-mod=mod GOPROXY=off
WT=/tmp/wt-bcl-go
git -C /repo worktree remove --force $WT >/dev/null 2>&1
git -C /repo worktree add --detach $WT >/dev/null 2>&1 || exit 2
python3 - "$WT/$2" "$3" "$4" <<'PY' || { git -C /repo worktree remove --force $WT; exit 2; }
import sys
p, old, new = sys.argv[1], sys.argv[2].encode().decode('unicode_escape'), sys.argv[3].encode().decode('unicode_escape')
s = open(p).read()
assert s.count(old) == 1, ('pattern count', s.count(old))
open(p, 'w').write(s.replace(old, new))
PY
(cd $WT && git diff --stat | tail -1 && go build ./... && go test -vet=off -count=1 ./internal/bcl/... 2>&1 | grep -v "no test files" | sed 's/^/   tests: /' | head -12)
cd /verif && VERIF_REPO=$WT ./check $1 2>&1 | grep -v conda | cut -c1-700
echo "check rc=${PIPESTATUS[0]}"
if ls /verif/.work/alt-e33f2394ea/replays/$1/replay-1.json >/dev/null 2>&1; then python3 - $1 <<'PY'
import json,glob,sys
for f in glob.glob('/verif/.work/alt-e33f2394ea/replays/%s/replay-*.json'%sys.argv[1])[:3]:
    r=json.load(open(f)); print('  replay:', f, r.get('signature'), (r.get('op') or '')[:120], '|', (r.get('detail') or '')[:300].replace('\n',' / '))
PY
fi
git -C /repo worktree remove --force $WT
rm -rf /verif/.work/alt-$(python3 -c "import hashlib;print(hashlib.sha1(b'/tmp/wt-bcl-go').hexdigest()[:10])")
