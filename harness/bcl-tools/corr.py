#!/usr/bin/env python3
# usage: corr.py <dir> [max]  -> runs drv_bcl over <dir>/ops.txt and diffs against go.out
import sys, subprocess, time
d = sys.argv[1]; mx = int(sys.argv[2]) if len(sys.argv) > 2 else 5
t=time.time()
with open(d+'/ops.txt','rb') as f:
    p = subprocess.run(['/verif/lean/.lake/build/bin/drv_bcl'], stdin=f, capture_output=True)
dt=time.time()-t
lean = p.stdout.decode('utf8','replace').split('\n')
if lean and lean[-1]=='': lean.pop()
ops = open(d+'/ops.txt').read().split('\n'); go = open(d+'/go.out').read().split('\n')
if ops[-1]=='': ops.pop()
if go[-1]=='': go.pop()
print('ops',len(ops),'go',len(go),'lean',len(lean),'rc',p.returncode,'lean_s',round(dt,2), p.stderr[-300:])
bad=[(len(o),o,g,l) for o,g,l in zip(ops,go,lean) if g!=l]
print('disagreements',len(bad))
bad.sort()
def sections(s): return s.split(' ')
for _,o,g,l in bad[:mx]:
    f=o.split(); src=bytes.fromhex(f[-1]) if f[-1]!='-' else b''
    print('OP  ',o[:300]); print('  src',repr(src.decode('utf8','replace'))[:300])
    gs,ls=sections(g),sections(l)
    if len(gs)==len(ls) and len(gs)>1:
        for a,b in zip(gs,ls):
            if a!=b: print('  go  ',a[:700]); print('  lean',b[:700])
    else:
        print('  go  ',g[:700]); print('  lean',l[:700])
