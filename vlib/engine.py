"""Generic check engine: extract -> lake build (proof obligations + axiom audit) -> harness from
/repo's working tree -> correspondence diff against the Lean driver -> property oracle ->
known findings -> evidence.  See DESIGN.md section 2.3.

A property is described by checks/<ID>.py exposing CONFIG (a dict):

  lean_props     : "J5V/Props/C20.lean"           (theorems live here; the audit file is regenerated)
  extract        : ["id62"]                        (extractor names, see extract/)
  streams        : [ { name, harness, driver, n: {quick, thorough}, shards: {quick, thorough},
                       flush: bool, timeout_s, rule } ]
  trusted_base   : [ ... ], assumptions: [ ... ]
  search         : { n, seeds }                    (extra oracle-only run when a tie breaks)
"""
import atexit
import contextlib
import fcntl
import hashlib
import importlib.util
import json
import os
import re
import shutil
import subprocess
import sys
import time
from concurrent.futures import ThreadPoolExecutor

VERIF = os.path.dirname(os.path.dirname(os.path.abspath(__file__)))
REPO = os.path.abspath(os.environ.get("VERIF_REPO", "/repo"))
ALT = REPO != "/repo"
# A run against a scratch copy of the repository (VERIF_REPO=/tmp/...) gets its own work
# directory, its own synced copy of the Lean project (the extractors rewrite J5V/Generated) and
# its own evidence directory, so that it never disturbs checks of /repo itself.
WORK = os.path.join(VERIF, ".work") if not ALT else os.path.join(VERIF, ".work", "alt-" + hashlib.sha1(REPO.encode()).hexdigest()[:10])
LEAN = os.path.join(VERIF, "lean") if not ALT else os.path.join(WORK, "lean")
EVIDENCE_DIR = os.path.join(VERIF, "evidence") if not ALT else os.path.join(WORK, "evidence")
DEV = os.environ.get("VERIF_DEV") == "1"
GOENV = dict(os.environ, GOFLAGS="-mod=mod", GOPROXY="off",
             GONOSUMDB="*")
ALLOWED_AXIOMS = {"propext", "Classical.choice", "Quot.sound"}
FORBIDDEN = re.compile(r"\bsorry\b|\badmit\b|^\s*axiom\s|native_decide|bv_decide|implemented_by|\bunsafe\s|maxHeartbeats\s+0")


@contextlib.contextmanager
def locked(name):
    """Cross-process lock: several checks may run at the same moment (they share the Lean project
    directory, the generated fact files and the extractor binary)."""
    os.makedirs(WORK, exist_ok=True)
    f = open(os.path.join(WORK, name + ".lock"), "w")
    try:
        fcntl.flock(f, fcntl.LOCK_EX)
        yield
    finally:
        fcntl.flock(f, fcntl.LOCK_UN)
        f.close()


_TMP_BINS = []


def _cleanup_bins():
    for p in _TMP_BINS:
        try:
            os.remove(p)
        except OSError:
            pass


atexit.register(_cleanup_bins)


def sh(cmd, cwd=None, env=None, timeout=None, stdin=None, stdout_path=None):
    t0 = time.time()
    out_f = open(stdout_path, "wb") if stdout_path else subprocess.PIPE
    try:
        p = subprocess.run(cmd, cwd=cwd, env=env, stdin=stdin, stdout=out_f, stderr=subprocess.PIPE if stdout_path else subprocess.STDOUT,
                           timeout=timeout)
        rc = p.returncode
        out = (p.stderr if stdout_path else p.stdout) or b""
    except subprocess.TimeoutExpired as e:
        rc = 124
        out = ((e.stderr if stdout_path else e.stdout) or b"") + b"\n[timeout]"
    finally:
        if stdout_path:
            out_f.close()
    return rc, out.decode("utf-8", "replace"), time.time() - t0


def sync_alt():
    if ALT:
        os.makedirs(WORK, exist_ok=True)
        # rc 24 = "some files vanished" (somebody is building in /verif/lean at this moment): harmless
        r = subprocess.run(["rsync", "-a", "--delete", os.path.join(VERIF, "lean") + "/", LEAN + "/"])
        if r.returncode not in (0, 24):
            raise RuntimeError("rsync of the Lean project failed: rc=%d" % r.returncode)


def load_config(pid):
    path = os.path.join(VERIF, "checks", pid + ".py")
    spec = importlib.util.spec_from_file_location("check_" + pid, path)
    mod = importlib.util.module_from_spec(spec)
    spec.loader.exec_module(mod)
    return mod.CONFIG, mod


def load_known():
    """known_findings.json (generated union, committed) plus the per-cluster working files
    known_findings.d/*.json it is generated from (so an entry a builder just added counts before the
    union is regenerated); duplicates are dropped."""
    out, seen = [], set()
    paths = [os.path.join(VERIF, "known_findings.json")]
    d = os.path.join(VERIF, "known_findings.d")
    if os.path.isdir(d):
        paths += sorted(os.path.join(d, x) for x in os.listdir(d) if x.endswith(".json"))
    for path in paths[1:] + paths[:1]:
        if os.path.exists(path):
            with open(path) as f:
                for e in json.load(f).get("findings", []):
                    key = (e.get("property"), e.get("signature"), e.get("status", "open"))
                    if key in seen:
                        continue
                    # the working files win: an entry flipped to fixed there is no longer open
                    if (e.get("property"), e.get("signature")) in {(k[0], k[1]) for k in seen} and path == paths[0]:
                        continue
                    seen.add(key)
                    out.append(e)
    return out


# ---------------------------------------------------------------- overlay / go builds

def write_overlay():
    tree = os.path.join(VERIF, "harness", "tree")
    repl = {}
    for root, _, files in os.walk(tree):
        for fn in files:
            src = os.path.join(root, fn)
            rel = os.path.relpath(src, tree)
            repl[os.path.join(REPO, rel)] = src
    os.makedirs(WORK, exist_ok=True)
    path = os.path.join(WORK, "overlay-%s.json" % hashlib.sha1(REPO.encode()).hexdigest()[:8])
    with open(path, "w") as f:
        json.dump({"Replace": repl}, f, indent=1)
    return path


def build_harness(name, race=False):
    """Builds harness `name` (package internal/verifh/<name>) from REPO's working tree."""
    ov = write_overlay()
    bindir = os.path.join(WORK, "bin")
    os.makedirs(bindir, exist_ok=True)
    # one binary per check process (never a stale one, never one another running check may replace)
    out = os.path.join(bindir, "%s%s.%d" % (name, "-race" if race else "", os.getpid()))
    if os.path.exists(out):
        os.remove(out)
    if out not in _TMP_BINS:
        _TMP_BINS.append(out)
    cmd = ["go", "build", "-tags", "verif", "-overlay", ov, "-o", out]
    if race:
        cmd.append("-race")
    cmd.append("./internal/verifh/" + name)
    rc, log, dt = sh(cmd, cwd=REPO, env=GOENV, timeout=900)
    return (out if rc == 0 else None), log, dt


def build_extract():
    bindir = os.path.join(WORK, "bin")
    os.makedirs(bindir, exist_ok=True)
    out = os.path.join(bindir, "extract.%d" % os.getpid())
    if out not in _TMP_BINS:
        _TMP_BINS.append(out)
    rc, log, dt = sh(["go", "build", "-o", out, "."], cwd=os.path.join(VERIF, "extract"), env=GOENV, timeout=600)
    return (out if rc == 0 else None), log


def run_extractors(names):
    """Regenerates lean/J5V/Generated/<Name>.lean from REPO's current source. Returns log lines."""
    if not names:
        return []
    exe, log = build_extract()
    logs = []
    if exe is None:
        return ["extractor build failed: " + log]
    gen = os.path.join(LEAN, "J5V", "Generated")
    os.makedirs(gen, exist_ok=True)
    for n in names:
        tmp = os.path.join(WORK, "gen-" + n + ".lean")
        rc, out, _ = sh([exe, "-what", n, "-repo", REPO, "-out", tmp], timeout=300)
        target = os.path.join(gen, n[0].upper() + n[1:] + "Facts.lean")
        if rc != 0:
            logs.append("extractor %s failed: %s" % (n, out.strip()[-2000:]))
            # an extractor that cannot read the source must break the obligation, not pass it
            with open(tmp, "w") as f:
                f.write("-- extractor failed on the current source\nnamespace J5V.Generated\ndef %sExtractorOk : Bool := false\nend J5V.Generated\n" % n)
        new = open(tmp).read()
        old = open(target).read() if os.path.exists(target) else None
        if new != old:
            with open(target, "w") as f:
                f.write(new)
            logs.append("regenerated " + os.path.relpath(target, VERIF))
    return logs


# ---------------------------------------------------------------- lean

def theorem_names(props_rel):
    src = open(os.path.join(LEAN, props_rel)).read()
    # strip block comments and line comments
    src_nc = re.sub(r"/-.*?-/", "", src, flags=re.S)
    src_nc = re.sub(r"--.*", "", src_nc)
    ns = re.search(r"^namespace\s+(\S+)", src_nc, flags=re.M)
    names = re.findall(r"^\s*(?:private\s+|protected\s+)?theorem\s+([A-Za-z0-9_'.]+)", src_nc, flags=re.M)
    return (ns.group(1) if ns else ""), names


def module_of(rel):
    return rel[:-5].replace("/", ".")


def import_closure(props_rel):
    """Project files (relative to LEAN) transitively imported by the props module."""
    seen, todo = set(), [props_rel]
    while todo:
        rel = todo.pop()
        if rel in seen:
            continue
        p = os.path.join(LEAN, rel)
        if not os.path.exists(p):
            continue
        seen.add(rel)
        for m in re.finditer(r"^\s*(?:public\s+)?import\s+(J5V\.[A-Za-z0-9_.']+)", open(p).read(), flags=re.M):
            todo.append(m.group(1).replace(".", "/") + ".lean")
    return sorted(seen)


def forbidden_scan(props_rel):
    """Forbidden constructs in the property module and everything of the project it imports."""
    hits = []
    for rel in import_closure(props_rel):
        if True:
            p = os.path.join(LEAN, rel)
            fn = rel
            src = open(p).read()
            src_nc = re.sub(r"/-.*?-/", lambda m: "\n" * m.group(0).count("\n"), src, flags=re.S)
            for i, line in enumerate(src_nc.split("\n"), 1):
                line = re.sub(r"--.*", "", line)
                if FORBIDDEN.search(line):
                    hits.append("%s:%d: %s" % (os.path.relpath(p, VERIF), i, line.strip()))
    return hits


def lean_obligations(pid, props_rels, tier="quick"):
    """Regenerates the audit module, builds it, returns dict(obligations, discharged, broken[], log).
    `props_rels` is one property module (path relative to lean/) or a list of them."""
    if isinstance(props_rels, str):
        props_rels = [props_rels]
    fulls = []
    audit_rel = "J5V/Audit/%s.lean" % pid
    body = "".join("import %s\n" % module_of(r) for r in props_rels)
    for rel in props_rels:
        ns, names = theorem_names(rel)
        for n in names:
            fulls.append((ns + "." + n) if ns else n)
    for full in fulls:
        body += "#print axioms %s\n" % full
    ap = os.path.join(LEAN, audit_rel)
    if not os.path.exists(ap) or open(ap).read() != body:
        with open(ap, "w") as f:
            f.write(body)
    mods = [module_of(r) for r in props_rels]
    rc, log, dt = sh(["lake", "build"] + mods, cwd=LEAN, timeout=3000)
    if rc == 0:
        rc, log2, dt2 = sh(["lake", "env", "lean", audit_rel], cwd=LEAN, timeout=3000)
        log += log2
        dt += dt2
    short = [f.split(".")[-1] for f in fulls]
    res = {"obligations": len(fulls), "discharged": 0, "broken": [], "axioms": {}, "build_ok": rc == 0,
           "lake_s": round(dt, 1), "theorems": short}
    if rc != 0:
        errs = re.findall(r"error: (\S+?\.lean:\d+:\d+): (.*)", log)
        res["broken"] = ["%s %s" % (a, b[:200]) for a, b in errs][:20] or ["lake build failed: " + log[-1500:]]
        res["log"] = log[-6000:]
        return res
    for m in re.finditer(r"'([^']+)' depends on axioms: \[([^\]]*)\]", log):
        res["axioms"][m.group(1)] = [a.strip() for a in m.group(2).split(",") if a.strip()]
    for m in re.finditer(r"'([^']+)' does not depend on any axioms", log):
        res["axioms"][m.group(1)] = []
    for full in fulls:
        ax = res["axioms"].get(full)
        if ax is None:
            res["broken"].append("no axiom report for " + full)
        elif not set(ax) <= ALLOWED_AXIOMS:
            res["broken"].append("%s uses axioms %s" % (full, ax))
        else:
            res["discharged"] += 1
    hits = []
    for rel in props_rels:
        hits += forbidden_scan(rel)
    if hits:
        res["broken"] += ["forbidden construct: " + h for h in sorted(set(hits))]
    if tier == "thorough":
        # independent re-check of the compiled proofs by the toolchain's leanchecker
        for mod in mods:
            rc, log, dt = sh(["lake", "env", "leanchecker", mod], cwd=LEAN, timeout=3000)
            res.setdefault("leanchecker", []).append({"module": mod, "rc": rc, "s": round(dt, 1), "log": log[-500:]})
            if rc != 0:
                res["broken"].append("leanchecker rejected %s: %s" % (mod, log[-300:]))
    return res


def build_driver(name):
    rc, log, dt = sh(["lake", "build", name], cwd=LEAN, timeout=3000)
    path = os.path.join(LEAN, ".lake", "build", "bin", name)
    if rc != 0 and DEV and os.path.exists(path):
        sys.stderr.write("VERIF_DEV: driver %s does not build right now, using the last built binary\n" % name)
        return path, log
    return (path if rc == 0 and os.path.exists(path) else None), log


# ---------------------------------------------------------------- streams

def run_shard(stream, hbin, dbin, seed, n, tier, outdir, ops_file=None):
    shutil.rmtree(outdir, ignore_errors=True)
    os.makedirs(outdir)
    cmd = [hbin, "-seed", str(seed), "-n", str(n), "-tier", tier, "-out", outdir]
    if stream.get("flush"):
        cmd.append("-flush")
    if ops_file:
        cmd += ["-ops", ops_file]
    env = dict(os.environ, GOMEMLIMIT=stream.get("gomemlimit", "6GiB"))
    env.update(stream.get("env", {}))
    rc, log, dt = sh(cmd, env=env, timeout=stream.get("timeout_s", 1200))
    r = {"dir": outdir, "seed": seed, "harness_rc": rc, "harness_log": log[-3000:], "go_s": dt,
         "disagreements": [], "oracle": [], "stats": {}, "crash_op": None}
    ops_p = os.path.join(outdir, "ops.txt")
    go_p = os.path.join(outdir, "go.out")
    ops = open(ops_p, errors="replace").read().split("\n") if os.path.exists(ops_p) else []
    if ops and ops[-1] == "":
        ops.pop()
    go = open(go_p, errors="replace").read().split("\n") if os.path.exists(go_p) else []
    if go and go[-1] == "":
        go.pop()
    if rc != 0:
        # crash / timeout / fatal error: the op without a result is the culprit
        if len(ops) > len(go):
            r["crash_op"] = ops[len(go)]
        ops = ops[:len(go)]
        with open(ops_p, "w") as f:
            f.write("".join(o + "\n" for o in ops))
    if os.path.exists(os.path.join(outdir, "stats.json")):
        r["stats"] = json.load(open(os.path.join(outdir, "stats.json")))
    if os.path.exists(os.path.join(outdir, "oracle.json")):
        r["oracle"] = json.load(open(os.path.join(outdir, "oracle.json")))
    r["n_ops"] = len(ops)
    if dbin and ops:
        lean_p = os.path.join(outdir, "lean.out")
        with open(ops_p, "rb") as fin:
            rc2, log2, dt2 = sh([dbin], stdin=fin, stdout_path=lean_p, timeout=stream.get("driver_timeout_s", 1200))
        r["lean_s"] = dt2
        lean = open(lean_p, errors="replace").read().split("\n")
        if lean and lean[-1] == "":
            lean.pop()
        if rc2 != 0 or len(lean) != len(ops):
            r["disagreements"].append({"line": len(lean), "op": ops[len(lean)] if len(lean) < len(ops) else "",
                                       "go": go[len(lean)] if len(lean) < len(go) else "",
                                       "lean": "[driver stopped rc=%d %s]" % (rc2, log2[-300:])})
        skip_prefix = stream.get("skip_compare_prefix")
        for i, (o, g, l) in enumerate(zip(ops, go, lean)):
            if g != l:
                if l == "skip" or (skip_prefix and o.startswith(skip_prefix)):
                    continue
                if len(r["disagreements"]) < 50:
                    r["disagreements"].append({"line": i, "op": o, "go": g, "lean": l})
                r["n_disagree"] = r.get("n_disagree", 0) + 1
    return r


def run_stream(stream, tier, seed, workdir, search=False):
    hbin, hlog, hdt = build_harness(stream["harness"], race=stream.get("race", False))
    if hbin is None:
        return {"name": stream["name"], "build_failed": True, "log": hlog[-4000:], "shards": []}
    dbin = None
    if stream.get("driver"):
        with locked("lean"):
            dbin, dlog = build_driver(stream["driver"])
        if dbin is None:
            return {"name": stream["name"], "driver_build_failed": True, "log": dlog[-4000:], "shards": []}
    key = "search" if search else tier
    n = stream.get("n", {}).get(key, stream.get("n", {}).get(tier, 1000))
    shards = stream.get("shards", {}).get(key, stream.get("shards", {}).get(tier, 4))
    jobs = []
    corpus = os.path.join(VERIF, "corpus", stream.get("corpus", stream["name"]) + ".ops")
    if os.path.exists(corpus) and not search:
        jobs.append((seed, 0, os.path.join(workdir, stream["name"] + "-corpus"), corpus))
    per = max(1, n // shards)
    base = seed * 1000003 + (7919 if search else 0)
    for k in range(shards):
        jobs.append((base + k, per, os.path.join(workdir, "%s-%d" % (stream["name"], k)), None))
    # memory-hungry streams may bound how many shards run at once ("max_parallel": n or {tier: n})
    mp = stream.get("max_parallel", 16)
    if isinstance(mp, dict):
        mp = mp.get(key, mp.get(tier, 16))
    with ThreadPoolExecutor(max_workers=max(1, min(16, len(jobs), int(mp)))) as ex:
        results = list(ex.map(lambda j: run_shard(stream, hbin, dbin, j[0], j[1], tier, j[2], j[3]), jobs))
    return {"name": stream["name"], "shards": results, "harness_build_s": round(hdt, 1)}


# ---------------------------------------------------------------- main flow

def match_known(known, pid, sig):
    for k in known:
        if k.get("property") == pid and k.get("status", "open") == "open" and k.get("signature") == sig:
            return k
    return None


def write_replay(pid, idx, payload):
    d = os.path.join(WORK, "replays", pid)
    os.makedirs(d, exist_ok=True)
    p = os.path.join(d, "replay-%d-%d.json" % (os.getpid(), idx))
    with open(p, "w") as f:
        json.dump(payload, f, indent=1)
    return p


def replay(pid, path):
    sync_alt()
    cfg, mod = load_config(pid)
    rp = json.load(open(path))
    if "op" not in rp or not rp.get("stream"):
        print("replay names a broken obligation, not an input:")
        print(json.dumps(rp, indent=1))
        return 1
    stream = next(s for s in cfg["streams"] if s["name"] == rp["stream"])
    hbin, hlog, _ = build_harness(stream["harness"])
    if hbin is None:
        print(hlog)
        return 2
    dbin = None
    if stream.get("driver"):
        dbin, _ = build_driver(stream["driver"])
    d = os.path.join(WORK, "replays", pid, "run.%d" % os.getpid())
    os.makedirs(d, exist_ok=True)
    atexit.register(lambda: shutil.rmtree(d, ignore_errors=True))
    opsf = os.path.join(d, "in.ops")
    with open(opsf, "w") as f:
        f.write(rp["op"] + "\n")
    r = run_shard(stream, hbin, dbin, 1, 0, "quick", os.path.join(d, "out"), opsf)
    go = open(os.path.join(d, "out", "go.out")).read().strip() if os.path.exists(os.path.join(d, "out", "go.out")) else ""
    print("op:   ", rp["op"][:2000])
    print("go:   ", go[:2000])
    if dbin and os.path.exists(os.path.join(d, "out", "lean.out")):
        print("model:", open(os.path.join(d, "out", "lean.out")).read().strip()[:2000])
    for f in r["oracle"]:
        print("ORACLE-FAIL %s: %s" % (f["signature"], f["detail"][:1000]))
    if r["crash_op"]:
        print("CRASH on op")
    bad = bool(r["oracle"] or r["disagreements"] or r["crash_op"])
    print("still failing" if bad else "not reproduced")
    return 1 if bad else 0


def run_check(pid, tier, seed):
    t0 = time.time()
    sync_alt()
    cfg, mod = load_config(pid)
    known = load_known()
    # per-process run directory: two runs of the same check (a sweep and a builder, say) never
    # delete each other's files; removed at exit unless VERIF_KEEP=1
    workdir = os.path.join(WORK, "runs", "%s.%d" % (pid, os.getpid()))
    shutil.rmtree(workdir, ignore_errors=True)
    os.makedirs(workdir, exist_ok=True)
    if os.environ.get("VERIF_KEEP") != "1":
        atexit.register(lambda: shutil.rmtree(workdir, ignore_errors=True))
    # replay files of earlier runs are kept for a day (a VIOLATION line names one)
    rdir = os.path.join(WORK, "replays", pid)
    if os.path.isdir(rdir):
        for fn in os.listdir(rdir):
            fp = os.path.join(rdir, fn)
            try:
                if os.path.isfile(fp) and time.time() - os.path.getmtime(fp) > 86400:
                    os.remove(fp)
            except OSError:
                pass

    notes = []
    with locked("lean"):
        notes += run_extractors(cfg.get("extract", []))
        ob = lean_obligations(pid, cfg["lean_props"], tier)
        for s in cfg.get("streams", []):
            if s.get("driver"):
                build_driver(s["driver"])
    proof_broken = list(ob["broken"])

    stream_results = []
    for s in cfg.get("streams", []):
        stream_results.append((s, run_stream(s, tier, seed, workdir)))

    if hasattr(mod, "extra"):
        # property-specific additional step; returns dict(oracle=[...], broken=[...], stats={...})
        extra = mod.extra(dict(tier=tier, seed=seed, workdir=workdir, repo=REPO, work=WORK, verif=VERIF))
    else:
        extra = {}

    corr_broken = []
    oracle_fails = []
    evaluations = 0
    distinct = 0
    samples = []
    counters = {}
    per_stream = []

    def absorb(s, sr):
        nonlocal evaluations, distinct
        if sr.get("build_failed") or sr.get("driver_build_failed"):
            corr_broken.append({"stream": s["name"], "what": "harness or driver does not build against the current tree",
                                "log": sr.get("log", "")[-1500:]})
            return
        ev = 0
        dn = 0
        for sh_ in sr["shards"]:
            st = sh_.get("stats", {})
            ev += sh_.get("n_ops", 0)
            dn += st.get("distinct_nontrivial", 0)
            for k, v in st.get("counters", {}).items():
                counters[s["name"] + "." + k] = counters.get(s["name"] + "." + k, 0) + v
            if len(samples) < 12:
                samples.extend([{"stream": s["name"], "op": x} for x in st.get("samples", [])[:3]])
            for d in sh_["disagreements"]:
                corr_broken.append(dict(d, stream=s["name"], seed=sh_["seed"]))
            for f in sh_["oracle"]:
                oracle_fails.append(dict(f, seed=sh_["seed"]))
            if sh_["crash_op"] is not None:
                oracle_fails.append({"stream": s["name"], "signature": s.get("crash_signature", "crash"), "op": sh_["crash_op"],
                                     "detail": "harness process died (rc=%s): %s" % (sh_["harness_rc"], sh_["harness_log"][-800:]),
                                     "seed": sh_["seed"]})
            elif sh_["harness_rc"] != 0:
                corr_broken.append({"stream": s["name"], "what": "harness exited rc=%s" % sh_["harness_rc"],
                                    "log": sh_["harness_log"][-800:], "seed": sh_["seed"]})
        evaluations += ev
        distinct += dn
        per_stream.append({"stream": s["name"], "evaluations": ev, "distinct_nontrivial": dn, "rule": s.get("rule", "")})

    for s, sr in stream_results:
        absorb(s, sr)
    for f in extra.get("oracle", []):
        oracle_fails.append(f)
    proof_broken += extra.get("broken", [])
    evaluations += extra.get("evaluations", 0)
    distinct += extra.get("distinct_nontrivial", 0)
    samples += extra.get("samples", [])

    new_fails = [f for f in oracle_fails if not match_known(known, pid, f["signature"])]
    known_hits = {}
    for f in oracle_fails:
        k = match_known(known, pid, f["signature"])
        if k:
            known_hits.setdefault(f["signature"], (k, f))

    searched = False
    if (proof_broken or corr_broken) and not new_fails:
        # a tie broke: look for a concrete failing input with a longer oracle run (other seeds)
        searched = True
        for s in cfg.get("streams", []):
            if s.get("no_search"):
                continue
            sr = run_stream(dict(s, driver=None), tier, seed + 17, os.path.join(workdir, "search"), search=True)
            for sh_ in sr.get("shards", []):
                for f in sh_["oracle"]:
                    if not match_known(known, pid, f["signature"]):
                        new_fails.append(dict(f, seed=sh_["seed"], found_by="search"))
                if sh_.get("crash_op") is not None:
                    sig = s.get("crash_signature", "crash")
                    if not match_known(known, pid, sig):
                        new_fails.append({"stream": s["name"], "signature": sig, "op": sh_["crash_op"],
                                          "detail": "harness process died", "seed": sh_["seed"], "found_by": "search"})
            if new_fails:
                break
        # the minimised disagreement itself may violate the property: give the per-property hook a chance
        if not new_fails and hasattr(mod, "judge_disagreement"):
            for d in corr_broken:
                v = mod.judge_disagreement(d)
                if v:
                    new_fails.append(dict(stream=d.get("stream"), signature=v, op=d.get("op", ""), detail="go=%s model=%s" % (d.get("go"), d.get("lean"))))
                    break

    lines = []
    violations = 0
    for sig, (k, f) in sorted(known_hits.items()):
        lines.append("KNOWN-FINDING: property=%s %s — %s" % (pid, sig, k.get("what", "")))
    # known findings that are listed but no longer reproduce are just noted
    if new_fails:
        seen = set()
        for f in new_fails:
            if f["signature"] in seen:
                continue
            seen.add(f["signature"])
            violations += 1
            rp = write_replay(pid, violations, {"property": pid, "stream": f.get("stream"), "op": f.get("op"),
                                                  "signature": f["signature"], "detail": f.get("detail"), "seed": f.get("seed"),
                                                  "broken_obligations": proof_broken[:10],
                                                  "broken_correspondence": corr_broken[:5]})
            lines.append("VIOLATION property=%s replay=%s" % (pid, rp))
    elif proof_broken or corr_broken:
        violations += 1
        rp = write_replay(pid, 1, {"property": pid, "no_failing_input_found": True,
                                    "broken_obligations": proof_broken[:20],
                                    "broken_correspondence": corr_broken[:10],
                                    "searched": searched})
        lines.append("VIOLATION property=%s replay=%s no-failing-input-found" % (pid, rp))

    wall = time.time() - t0
    cov = {
        "obligations": ob["obligations"],
        "discharged": ob["discharged"],
        "checker_cmd": "cd /verif/lean && lake build J5V.Audit.%s  (Lean 4.33.0 kernel; `#print axioms` on every theorem of %s)" % (pid, cfg["lean_props"] if isinstance(cfg["lean_props"], str) else ", ".join(cfg["lean_props"])),
        "trusted_base": cfg.get("trusted_base", []),
        "theorems": ob["theorems"],
        "axioms_used": sorted({a for v in ob["axioms"].values() for a in v}),
        "evaluations": evaluations,
        "distinct_nontrivial": distinct,
        "rule": cfg.get("rule", "") or "; ".join("%s: %s" % (p["stream"], p["rule"]) for p in per_stream),
        "samples": samples[:12] or [{"obligation": n} for n in ob["theorems"][:5]],
        "streams": per_stream,
        "generator_distribution": counters,
        "broken_obligations": proof_broken[:20],
        "correspondence_disagreements": len(corr_broken),
        "oracle_failures": len(oracle_fails),
        "known_findings_hit": sorted(known_hits.keys()),
        "notes": notes + extra.get("notes", []),
        "lake_build_s": ob.get("lake_s"),
    }
    if "leanchecker" in ob:
        cov["leanchecker"] = ob["leanchecker"]
    cov.update(extra.get("coverage", {}))
    ev = {"property_id": pid, "tier": tier, "seed": seed, "level": cfg.get("level", "proof"), "coverage": cov,
          "assumptions": cfg.get("assumptions", []), "wall_s": round(wall, 2), "violations": violations}
    os.makedirs(EVIDENCE_DIR, exist_ok=True)
    with open(os.path.join(EVIDENCE_DIR, pid + ".json"), "w") as f:
        json.dump(ev, f, indent=1)
        f.write("\n")
    for l in lines:
        print(l)
    print("%s tier=%s seed=%d obligations=%d/%d evaluations=%d distinct=%d disagreements=%d oracle_failures=%d known=%d wall=%.1fs"
          % (pid, tier, seed, ob["discharged"], ob["obligations"], evaluations, distinct, len(corr_broken), len(oracle_fails),
             len(known_hits), wall))
    if violations:
        for b in proof_broken[:5]:
            print("  broken obligation:", b)
        for d in corr_broken[:3]:
            print("  disagreement:", json.dumps(d)[:600])
        for f in new_fails[:3]:
            print("  failing input:", json.dumps(f)[:600])
    return 1 if violations else 0


def main(argv):
    import argparse
    ap = argparse.ArgumentParser()
    ap.add_argument("pid")
    ap.add_argument("--tier", default=os.environ.get("VERIF_TIER", "quick"))
    ap.add_argument("--seed", type=int, default=int(os.environ.get("VERIF_SEED", "1") or 1))
    ap.add_argument("--replay")
    a = ap.parse_args(argv)
    if a.tier not in ("quick", "thorough"):
        a.tier = "quick"
    if a.replay:
        return replay(a.pid, a.replay)
    return run_check(a.pid, a.tier, a.seed)
