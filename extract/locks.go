package main

import (
	"fmt"
	"go/ast"
	"go/parser"
	"go/token"
	"go/types"
	"os"
	"path/filepath"
	"sort"
	"strings"
)

// E7 locks: lock discipline of the state shared by goroutines that call
// Codec.{ProtoToJSON,JSONToProto,QueryToProto} (property C10). go/ast + go/types (stdlib only;
// packages of this module are type-checked from source, everything else is an empty stand-in,
// so expressions of foreign types stay untyped). Deliberately over-approximating:
//   - locations: the fields of every struct declared in lib/j5schema plus Codec and Reflector. A
//     location is listed when a function reachable from the three roots writes it through
//     anything but a local that only ever holds a fresh composite literal / new / make and is
//     never stored or passed on. A selector that cannot be typed but is spelled like a location is
//     listed as location "?<name>" (never guarded);
//   - calls resolve through go/types; interface methods and untyped calls resolve by name and
//     argument count to every function of the three packages, so reachability and call sites are
//     supersets of the real ones;
//   - an access is guarded when, in its own function, a top-level `X.<lock>.Lock()` statement
//     directly followed by `defer X.<lock>.Unlock()` precedes it (and it is not inside a `go`
//     statement), or when the function is a requires-lock helper: it is never used as a value and
//     every reachable call site is itself guarded (greatest fixed point);
//   - RLock is a different guard ("<lock>.R"; a helper reached under both: "<lock>+<lock>.R"); a
//     Lock without the deferred Unlock, an acquisition with a guarded call site (nesting) and a
//     second Lock in one function are reported as such, and the obligations in Props/C10.lean
//     fail on them;
//   - published reads: a read of a mutated location outside every lock (fields of the schemas a
//     Schema() call returned). Such a read is "dominated" when an obtainer — a function that
//     acquires the cache lock, or one that unconditionally calls an obtainer — has been called
//     earlier in the same function, or when every call site of its function is guarded or
//     dominated (greatest fixed point): the goroutine has been through the lock before it can
//     hold the reference;
//   - shared state: every package-level variable of every (hand-written) package of this module
//     that the codec imports, and every field of every struct type that can be reached through
//     the static types of those variables, of Codec and of Reflector ("shared types"; an interface
//     stands for every implementing type of the analysed packages). Writes in functions reachable
//     from the entry points are "on the path"; writes only reachable from constructors
//     (NewCodec, the CodecOptions, j5reflect.New…, NewSchemaCache) and package initialisation are
//     construction. Generated files (protobuf-go output) are not analysed: that is protobuf-go's
//     own thread safety.
func init() { extractors["locks"] = extractLocks }

const lkModule = "github.com/pentops/j5"

var lkDirs = []string{"lib/j5schema", "lib/j5reflect", "internal/codec", "lib/j5codec"}

type lkImporter struct {
	fset  *token.FileSet
	pkgs  map[string]*types.Package
	files map[string][]*ast.File
	info  *types.Info
	order []string // module packages in the order in which their type check finished
}

func (im *lkImporter) Import(path string) (*types.Package, error) {
	if p, ok := im.pkgs[path]; ok {
		return p, nil
	}
	if path != lkModule && !strings.HasPrefix(path, lkModule+"/") {
		p := types.NewPackage(path, path[strings.LastIndex(path, "/")+1:])
		p.MarkComplete()
		im.pkgs[path] = p
		return p, nil
	}
	dir := filepath.Join(repo, strings.TrimPrefix(path, lkModule))
	ents, err := os.ReadDir(dir)
	if err != nil {
		return nil, err
	}
	var files []*ast.File
	for _, e := range ents {
		if !strings.HasSuffix(e.Name(), ".go") || strings.HasSuffix(e.Name(), "_test.go") {
			continue
		}
		f, err := parser.ParseFile(im.fset, filepath.Join(dir, e.Name()), nil, parser.ParseComments)
		if err != nil {
			return nil, err
		}
		tagged := false
		for _, cg := range f.Comments {
			if cg.Pos() < f.Package && strings.Contains(cg.Text(), "go:build") || strings.HasPrefix(cg.Text(), "+build") {
				tagged = true
			}
		}
		if !tagged {
			files = append(files, f)
		}
	}
	im.pkgs[path] = nil // cycle guard
	conf := types.Config{Importer: im, Error: func(error) {}, FakeImportC: true}
	p, _ := conf.Check(path, im.fset, files, im.info)
	im.pkgs[path] = p
	im.files[path] = files
	im.order = append(im.order, path)
	return p, nil
}

type lkFn struct {
	key, pkg string
	obj      *types.Func
	decl     *ast.FuncDecl
	nargs    int
	variadic bool
	leaf     bool      // non-deferred Lock…Unlock with no call into the analysed packages in between
	lockEnd  token.Pos // end of the top-level Lock statement; NoPos if none
	lockName string
	deferred bool
	calls    []lkCall
	acc      []lkAcc
	escapes  bool
	isInit   bool // func init() or the synthetic function holding a package's variable initialisers
	ctor     bool // returns *Codec, *Reflector, *SchemaCache or a CodecOption
}
type lkCall struct {
	to     []*lkFn
	pos    token.Pos
	end    token.Pos
	inGo   bool
	named  string
	uncond bool // evaluated whenever the function gets past the top-level statement it is in
}
type lkAcc struct {
	loc   string
	isMap bool
	write bool
	pos   token.Pos
	inGo  bool
	line  int
	once  bool // lexically inside the function literal of a sync.Once Do call
}

func isFreshExpr(e ast.Expr) bool {
	switch x := e.(type) {
	case *ast.CompositeLit:
		return true
	case *ast.UnaryExpr:
		_, ok := x.X.(*ast.CompositeLit)
		return x.Op == token.AND && ok
	case *ast.CallExpr:
		if id, ok := x.Fun.(*ast.Ident); ok {
			return id.Name == "new" || id.Name == "make"
		}
	}
	return false
}

// lockCall recognises X.<field>.Lock() / RLock() / Unlock() / RUnlock().
func lockCall(e ast.Expr) (field, method string) {
	c, ok := e.(*ast.CallExpr)
	if !ok || len(c.Args) != 0 {
		return
	}
	s, ok := c.Fun.(*ast.SelectorExpr)
	if !ok {
		return
	}
	in, ok := s.X.(*ast.SelectorExpr)
	if !ok {
		return
	}
	switch s.Sel.Name {
	case "Lock", "RLock", "Unlock", "RUnlock":
		return in.Sel.Name, s.Sel.Name
	}
	return
}

type lkCtx struct {
	im        *lkImporter
	locOf     map[*types.Var]string // field object -> "Struct.field"
	locMap    map[string]bool
	locOwner  map[string]bool       // the struct of the location declares a mutex
	locNames  map[string]bool       // bare field names of locations
	globals   map[*types.Var]string // package-level variables of the analysed packages
	fnOf      map[*types.Func]*lkFn
	byName    map[string][]*lkFn
	onceNames map[string]bool // names of variables / fields declared as sync.Once
}

type lkStruct struct {
	name    string // short package + "." + type name
	short   string
	named   *types.Named
	st      *types.Struct
	mutexes []string // names of the sync.Mutex / sync.RWMutex fields (from the syntax)
}

func containerKind(t types.Type) string {
	switch u := t.Underlying().(type) {
	case *types.Map:
		return "map"
	case *types.Slice:
		return "slice"
	case *types.Pointer:
		return "pointer"
	case *types.Signature:
		return "func"
	case *types.Interface:
		return "interface"
	case *types.Chan:
		return "chan"
	case *types.Basic:
		if u.Kind() == types.Invalid {
			return "foreign"
		}
		return "value"
	}
	return "value"
}

func extractLocks(w *strings.Builder) error {
	im := &lkImporter{fset: token.NewFileSet(), pkgs: map[string]*types.Package{}, files: map[string][]*ast.File{},
		info: &types.Info{Selections: map[*ast.SelectorExpr]*types.Selection{}, Uses: map[*ast.Ident]types.Object{}, Defs: map[*ast.Ident]types.Object{}}}
	cx := &lkCtx{im: im, locOf: map[*types.Var]string{}, locMap: map[string]bool{}, locOwner: map[string]bool{}, locNames: map[string]bool{}, globals: map[*types.Var]string{},
		fnOf: map[*types.Func]*lkFn{}, byName: map[string][]*lkFn{}, onceNames: map[string]bool{}}
	for _, dir := range lkDirs {
		path := lkModule + "/" + dir
		p, err := im.Import(path)
		if err != nil || p == nil {
			return fmt.Errorf("cannot load %s: %v", path, err)
		}
	}
	// every package of this module the codec (transitively) imports, in a stable order
	paths := append([]string{}, im.order...)
	sort.Strings(paths)
	shortOf := map[string]string{}
	usedShort := map[string]int{}
	for _, path := range paths {
		usedShort[filepath.Base(path)]++
	}
	for _, path := range paths {
		short := filepath.Base(path)
		if usedShort[short] > 1 {
			short = filepath.Base(filepath.Dir(filepath.Dir(path))) + "/" + short
		}
		shortOf[path] = short
	}
	var fns []*lkFn
	var structs []*lkStruct
	structOf := map[*types.TypeName]*lkStruct{}
	type gvar struct {
		v     *types.Var
		loc   string
		short string
	}
	var gvars []gvar
	initialised := map[types.Object]string{} // package-level variable -> the synthetic initialiser function
	generatedFiles, generatedVars, generatedStructs := 0, 0, 0
	var namedTypes []*types.Named // every named type of the hand-written files (for interface satisfaction)
	for _, path := range paths {
		p := im.pkgs[path]
		short := shortOf[path]
		genPos := map[string]bool{}          // file names of generated files
		mutexFields := map[string][]string{} // `sync` is a stand-in package, so look at the syntax
		for _, f := range im.files[path] {
			fname := im.fset.Position(f.Pos()).Filename
			if ast.IsGenerated(f) {
				genPos[fname] = true
				generatedFiles++
			}
			ast.Inspect(f, func(n ast.Node) bool {
				switch x := n.(type) {
				case *ast.Field:
					if exprString(x.Type) == "sync.Once" {
						for _, n := range x.Names {
							cx.onceNames[n.Name] = true
						}
					}
				case *ast.ValueSpec:
					if x.Type != nil && exprString(x.Type) == "sync.Once" {
						for _, n := range x.Names {
							cx.onceNames[n.Name] = true
						}
					}
				}
				if ts, ok := n.(*ast.TypeSpec); ok {
					if st, ok := ts.Type.(*ast.StructType); ok {
						for _, fl := range st.Fields.List {
							if t := strings.TrimPrefix(exprString(fl.Type), "*"); t == "sync.Mutex" || t == "sync.RWMutex" {
								for _, n := range fl.Names {
									mutexFields[ts.Name.Name] = append(mutexFields[ts.Name.Name], n.Name)
								}
								if len(fl.Names) == 0 {
									mutexFields[ts.Name.Name] = append(mutexFields[ts.Name.Name], "(embedded)")
								}
							}
						}
					}
				}
				return true
			})
		}
		isGen := func(pos token.Pos) bool { return genPos[im.fset.Position(pos).Filename] }
		for _, name := range p.Scope().Names() {
			obj := p.Scope().Lookup(name)
			if v, ok := obj.(*types.Var); ok {
				if isGen(v.Pos()) {
					generatedVars++
					continue
				}
				if name == "_" {
					continue
				}
				loc := "var " + short + "." + name
				cx.globals[v] = loc
				_, isMap := v.Type().Underlying().(*types.Map)
				cx.locMap[loc] = isMap
				cx.locOwner[loc] = true // a package-level variable is shared by everybody: always must-guard
				gvars = append(gvars, gvar{v, loc, short})
			}
			tn, ok := obj.(*types.TypeName)
			if !ok {
				continue
			}
			named, _ := tn.Type().(*types.Named)
			if named != nil && !isGen(tn.Pos()) {
				namedTypes = append(namedTypes, named)
			}
			st, ok := tn.Type().Underlying().(*types.Struct)
			if !ok || named == nil {
				continue
			}
			if isGen(tn.Pos()) {
				generatedStructs++
				continue
			}
			ls := &lkStruct{name: short + "." + name, short: short, named: named, st: st, mutexes: mutexFields[name]}
			structs = append(structs, ls)
			structOf[tn] = ls
		}
		var initFn *lkFn
		for _, f := range im.files[path] {
			if ast.IsGenerated(f) {
				continue
			}
			for _, d := range f.Decls {
				if gd, ok := d.(*ast.GenDecl); ok && gd.Tok == token.VAR {
					// package-level initialisers run once, before main: a synthetic init function
					for _, sp := range gd.Specs {
						vs := sp.(*ast.ValueSpec)
						if len(vs.Values) == 0 {
							continue
						}
						if initFn == nil {
							initFn = &lkFn{key: "(var initialisers)", pkg: short, isInit: true,
								decl: &ast.FuncDecl{Name: ast.NewIdent("(var initialisers)"), Type: &ast.FuncType{Params: &ast.FieldList{}}, Body: &ast.BlockStmt{}}}
							fns = append(fns, initFn)
						}
						for _, val := range vs.Values {
							initFn.decl.Body.List = append(initFn.decl.Body.List, &ast.ExprStmt{X: val})
						}
						for _, n := range vs.Names {
							if o := im.info.Defs[n]; o != nil {
								initialised[o] = short + ".(var initialiser)"
							}
						}
					}
					continue
				}
				fd, ok := d.(*ast.FuncDecl)
				if !ok || fd.Body == nil {
					continue
				}
				fn := &lkFn{key: fd.Name.Name, pkg: short, decl: fd}
				if fd.Recv != nil && len(fd.Recv.List) == 1 {
					fn.key = strings.TrimPrefix(exprString(fd.Recv.List[0].Type), "*") + "." + fd.Name.Name
				} else if fd.Name.Name == "init" {
					fn.isInit = true
				}
				for _, p := range fd.Type.Params.List {
					fn.nargs += max(1, len(p.Names))
					if _, ok := p.Type.(*ast.Ellipsis); ok {
						fn.variadic = true
					}
				}
				if fd.Recv == nil && fd.Type.Results != nil && len(fd.Type.Results.List) >= 1 {
					switch strings.TrimPrefix(exprString(fd.Type.Results.List[0].Type), "*") {
					case "Codec", "codec.Codec", "Reflector", "SchemaCache", "CodecOption", "codec.CodecOption", "Option":
						fn.ctor = true
					}
				}
				if o, ok := im.info.Defs[fd.Name].(*types.Func); ok {
					fn.obj = o
					cx.fnOf[o] = fn
				}
				fns = append(fns, fn)
				cx.byName[fd.Name.Name] = append(cx.byName[fd.Name.Name], fn)
			}
		}
	}
	// ---- shared types: reachable through static types from the package-level variables, Codec
	// and Reflector; an interface of this module stands for every implementing named type
	sharedNamed := map[*types.Named]bool{}
	opaque := map[string]bool{} // shared fields / variables of type `any`: could hold anything
	var visit func(t types.Type, from string)
	seenT := map[types.Type]bool{}
	visit = func(t types.Type, from string) {
		if t == nil || seenT[t] {
			return
		}
		seenT[t] = true
		switch u := t.(type) {
		case *types.Named:
			if tn := u.Obj(); tn != nil && tn.Pkg() != nil && strings.HasPrefix(tn.Pkg().Path(), lkModule) {
				sharedNamed[u] = true
			}
			visit(u.Underlying(), from)
		case *types.Pointer:
			visit(u.Elem(), from)
		case *types.Slice:
			visit(u.Elem(), from)
		case *types.Array:
			visit(u.Elem(), from)
		case *types.Map:
			visit(u.Key(), from)
			visit(u.Elem(), from)
		case *types.Chan:
			visit(u.Elem(), from)
		case *types.Struct:
			for i := 0; i < u.NumFields(); i++ {
				visit(u.Field(i).Type(), from)
			}
		case *types.Interface:
			if u.NumMethods() == 0 {
				opaque[from] = true
				return
			}
			for _, n := range namedTypes {
				if types.IsInterface(n) {
					continue
				}
				if types.Implements(n, u) || types.Implements(types.NewPointer(n), u) {
					visit(n, from)
				}
			}
		}
	}
	for _, g := range gvars {
		visit(g.v.Type(), g.loc)
	}
	for _, ls := range structs {
		if (ls.short == "codec" && ls.named.Obj().Name() == "Codec") || (ls.short == "j5reflect" && ls.named.Obj().Name() == "Reflector") {
			visit(ls.named, ls.name)
		}
	}
	// locations = fields of shared struct types (plus, as before, every struct of lib/j5schema)
	cacheLocks := []string{}
	for _, ls := range structs {
		if !(sharedNamed[ls.named] || ls.short == "j5schema") {
			continue
		}
		name := ls.named.Obj().Name()
		if ls.short != "j5schema" && ls.short != "j5reflect" && ls.short != "codec" {
			name = ls.name
		}
		hasMutex := len(ls.mutexes) > 0
		if ls.short == "j5schema" && name == "SchemaCache" {
			cacheLocks = ls.mutexes
		}
		for i := 0; i < ls.st.NumFields(); i++ {
			f := ls.st.Field(i)
			if f.Embedded() {
				continue
			}
			loc := name + "." + f.Name()
			cx.locOwner[loc] = hasMutex
			cx.locOf[f] = loc
			_, isMap := f.Type().Underlying().(*types.Map)
			cx.locMap[loc] = isMap
			cx.locNames[f.Name()] = true
		}
	}
	for _, fn := range fns {
		cx.scan(fn)
	}
	guardedAt := func(fn *lkFn, pos token.Pos, inGo bool) bool {
		return fn.lockEnd != token.NoPos && fn.deferred && pos > fn.lockEnd && !inGo
	}
	closure := func(roots []*lkFn) map[*lkFn]bool {
		reach := map[*lkFn]bool{}
		todo := append([]*lkFn{}, roots...)
		for _, r := range roots {
			reach[r] = true
		}
		for len(todo) > 0 {
			fn := todo[0]
			todo = todo[1:]
			for _, c := range fn.calls {
				for _, g := range c.to {
					if !reach[g] {
						reach[g] = true
						todo = append(todo, g)
					}
				}
			}
		}
		return reach
	}
	var roots, extraRoots, ctorRoots []*lkFn
	rootsFound := 0
	var extraNames []string
	for _, fn := range fns {
		switch {
		case fn.pkg == "codec" && (fn.key == "Codec.ProtoToJSON" || fn.key == "Codec.JSONToProto" || fn.key == "Codec.QueryToProto"):
			roots = append(roots, fn)
			rootsFound++
		case fn.pkg == "j5reflect" && strings.HasPrefix(fn.key, "Reflector.") && ast.IsExported(fn.decl.Name.Name):
			extraRoots = append(extraRoots, fn)
			extraNames = append(extraNames, fn.pkg+"."+fn.key)
		case fn.isInit || (fn.ctor && (fn.pkg == "codec" || fn.pkg == "j5codec" || fn.pkg == "j5reflect" || fn.key == "NewSchemaCache")):
			ctorRoots = append(ctorRoots, fn)
		}
	}
	reach := closure(append(append([]*lkFn{}, roots...), extraRoots...))
	reachCtor := closure(ctorRoots)
	type site struct {
		from *lkFn
		c    lkCall
	}
	sites := map[*lkFn][]site{}
	rl := map[*lkFn]bool{}
	isRoot := map[*lkFn]bool{}
	for _, r := range append(append([]*lkFn{}, roots...), extraRoots...) {
		isRoot[r] = true
	}
	for fn := range reach {
		rl[fn] = !fn.escapes && !isRoot[fn]
		for _, c := range fn.calls {
			for _, g := range c.to {
				sites[g] = append(sites[g], site{fn, c})
			}
		}
	}
	for changed := true; changed; {
		changed = false
		for fn := range reach {
			if !rl[fn] {
				continue
			}
			ok := len(sites[fn]) > 0
			for _, s := range sites[fn] {
				if !(guardedAt(s.from, s.c.pos, s.c.inGo) || (rl[s.from] && !s.c.inGo)) {
					ok = false
				}
			}
			if !ok {
				rl[fn], changed = false, true
			}
		}
	}
	// the lock(s) under which a requires-lock helper is (transitively) called
	var heldBy func(fn *lkFn, seen map[*lkFn]bool, out map[string]bool)
	heldBy = func(fn *lkFn, seen map[*lkFn]bool, out map[string]bool) {
		if seen[fn] {
			return
		}
		seen[fn] = true
		for _, s := range sites[fn] {
			if guardedAt(s.from, s.c.pos, s.c.inGo) {
				out[s.from.lockName] = true
			} else {
				heldBy(s.from, seen, out)
			}
		}
	}
	mutated := map[string]bool{}
	for fn := range reach {
		for _, a := range fn.acc {
			if a.write {
				mutated[a.loc] = true
			}
		}
	}
	for fn := range reach { // an untyped read matters when a real location spelled like it is mutated
		for _, a := range fn.acc {
			if strings.HasPrefix(a.loc, "?") {
				for l := range mutated {
					if strings.HasSuffix(l, "."+a.loc[1:]) {
						mutated[a.loc] = true
					}
				}
			}
		}
	}
	locs := sortedKeys(mutated)
	locIdx := map[string]int{}
	for i, l := range locs {
		locIdx[l] = i
	}
	var sorted []*lkFn
	for fn := range reach {
		sorted = append(sorted, fn)
	}
	sort.Slice(sorted, func(a, b int) bool { return sorted[a].pkg+sorted[a].key < sorted[b].pkg+sorted[b].key })
	var lockNames []string
	lockID := func(n string) int {
		for i, x := range lockNames {
			if x == n {
				return i
			}
		}
		lockNames = append(lockNames, n)
		return len(lockNames) - 1
	}
	for _, fn := range sorted { // ids in a stable order: lock sites first
		if fn.lockEnd != token.NoPos {
			lockID(fn.lockName)
		}
	}
	guardOf := func(fn *lkFn, a lkAcc) (string, bool) { // lock name, guarded
		switch {
		case guardedAt(fn, a.pos, a.inGo):
			return fn.lockName, true
		case rl[fn] && !a.inGo:
			held := map[string]bool{}
			heldBy(fn, map[*lkFn]bool{}, held)
			return strings.Join(sortedKeys(held), "+"), true
		}
		return "", false
	}
	// ---- published reads: obtainers and domination
	cacheLock := ""
	if len(cacheLocks) == 1 {
		cacheLock = cacheLocks[0]
	}
	obtainer := map[*lkFn]bool{}
	for fn := range reach {
		if fn.lockEnd != token.NoPos && fn.deferred && cacheLock != "" && strings.TrimSuffix(fn.lockName, ".R") == cacheLock {
			obtainer[fn] = true
		}
	}
	for changed := true; changed; { // least fixed point: unconditionally calls an obtainer
		changed = false
		for fn := range reach {
			if obtainer[fn] {
				continue
			}
			for _, c := range fn.calls {
				if !c.uncond || c.inGo || len(c.to) == 0 {
					continue
				}
				all := true
				for _, g := range c.to {
					if !obtainer[g] {
						all = false
					}
				}
				if all {
					obtainer[fn], changed = true, true
					break
				}
			}
		}
	}
	obtainedBefore := func(fn *lkFn, pos token.Pos) (string, bool) {
		for _, c := range fn.calls {
			if !c.uncond || c.inGo || len(c.to) == 0 || c.end >= pos {
				continue
			}
			all := true
			for _, g := range c.to {
				if !obtainer[g] {
					all = false
				}
			}
			if all {
				return c.to[0].pkg + "." + c.to[0].key, true
			}
		}
		return "", false
	}
	dom := map[*lkFn]bool{}
	for fn := range reach {
		dom[fn] = !fn.escapes && !isRoot[fn]
	}
	for changed := true; changed; {
		changed = false
		for fn := range reach {
			if !dom[fn] {
				continue
			}
			ok := len(sites[fn]) > 0
			for _, s := range sites[fn] {
				_, ob := obtainedBefore(s.from, s.c.pos)
				if s.c.inGo || !(guardedAt(s.from, s.c.pos, false) || rl[s.from] || ob || dom[s.from]) {
					ok = false
				}
			}
			if !ok {
				dom[fn], changed = false, true
			}
		}
	}
	var viaOf func(fn *lkFn, seen map[*lkFn]bool, out map[string]bool)
	viaOf = func(fn *lkFn, seen map[*lkFn]bool, out map[string]bool) {
		if seen[fn] {
			return
		}
		seen[fn] = true
		for _, s := range sites[fn] {
			if v, ok := obtainedBefore(s.from, s.c.pos); ok {
				out[v] = true
			} else if guardedAt(s.from, s.c.pos, false) || rl[s.from] {
				out["(inside the critical section)"] = true
			} else {
				viaOf(s.from, seen, out)
			}
		}
	}
	var rows, pubRows []string
	seen := map[string]bool{}
	for _, fn := range sorted {
		for _, a := range fn.acc {
			if !mutated[a.loc] {
				continue
			}
			guard := "none"
			lock, guarded := guardOf(fn, a)
			if guarded {
				guard = fmt.Sprintf("some %d", lockID(lock))
			}
			k := fmt.Sprint(a.loc, a.write, guard, fn.key)
			if !seen[k] {
				seen[k] = true
				at := fmt.Sprintf("%s:%d", filepath.Base(im.fset.Position(a.pos).Filename), a.line)
				rows = append(rows, fmt.Sprintf("  ⟨%d, %s, %s, %s, %s, %s, %s⟩", locIdx[a.loc], leanBool(a.isMap), leanBool(cx.locOwner[a.loc]), leanBool(a.write), guard,
					leanStr(fn.pkg+"."+fn.key), leanStr(at)))
				if !guarded && !a.write && !a.isMap && !cx.locOwner[a.loc] {
					via, ok := obtainedBefore(fn, a.pos)
					if !ok && dom[fn] && !a.inGo {
						vs := map[string]bool{}
						viaOf(fn, map[*lkFn]bool{}, vs)
						via, ok = strings.Join(sortedKeys(vs), ","), true
					}
					pubRows = append(pubRows, fmt.Sprintf("  ⟨%d, %s, %s, %s, %s⟩", locIdx[a.loc], leanStr(fn.pkg+"."+fn.key), leanStr(at), leanBool(ok), leanStr(via)))
				}
			}
		}
	}
	fmt.Fprintf(w, "namespace J5V.Generated.Locks\n")
	fmt.Fprintf(w, "def rootsFound : Nat := %d\n", rootsFound)
	sort.Strings(extraNames)
	fmt.Fprintf(w, "/-- further entry points: the exported methods of Reflector -/\ndef extraRoots : List String := %s\n", leanStrList(extraNames))
	fmt.Fprintf(w, "/-- the packages of this module that were analysed (everything the codec imports) -/\ndef analysedPackages : List String := %s\n", leanStrList(func() []string {
		var out []string
		for _, p := range paths {
			out = append(out, strings.TrimPrefix(p, lkModule+"/"))
		}
		return out
	}()))
	fmt.Fprintf(w, "def generatedFilesSkipped : Nat := %d\n", generatedFiles)
	fmt.Fprintf(w, "/-- every location (Struct.field) that is written after construction on the codec path -/\n")
	fmt.Fprintf(w, "def locations : List String := %s\n", leanStrList(locs))
	unknown := 0
	for _, l := range locs {
		if strings.HasPrefix(l, "?") {
			unknown++
		}
	}
	fmt.Fprintf(w, "/-- locations that could not be typed (spelled like a shared field); must be 0 -/\ndef unknownLocations : Nat := %d\n", unknown)
	fmt.Fprintf(w, "/-- the mutex fields of SchemaCache; the discipline needs exactly one -/\ndef cacheLocks : List String := %s\n", leanStrList(cacheLocks))
	fmt.Fprintf(w, "/-- guards: index = id used in `accesses` and `lockSites`; \"<l>.R\" = read lock; \"a+b\" = helper reached under different locks, \"\" = under none -/\n")
	fmt.Fprintf(w, "def lockNames : List String := %s\n", leanStrList(lockNames))
	fmt.Fprintf(w, "structure Access where\n  loc : Nat\n  isMap : Bool\n  lockOwner : Bool\n  write : Bool\n  guard : Option Nat\n  fn : String\n  at_ : String\n  deriving DecidableEq, Repr\n")
	fmt.Fprintf(w, "def accesses : List Access := [\n%s\n]\n", strings.Join(rows, ",\n"))
	fmt.Fprintf(w, "/-- a read, outside every lock, of a location that is written under the lock: a field of a schema that a Schema() call returned. `dominated`: the goroutine has been through an obtainer (`via`) before it can execute the read -/\n")
	fmt.Fprintf(w, "structure PublishedRead where\n  loc : Nat\n  fn : String\n  at_ : String\n  dominated : Bool\n  via : String\n  deriving DecidableEq, Repr\n")
	fmt.Fprintf(w, "def publishedReads : List PublishedRead := [\n%s\n]\n", strings.Join(pubRows, ",\n"))
	var obs []string
	for fn := range obtainer {
		obs = append(obs, fn.pkg+"."+fn.key)
	}
	sort.Strings(obs)
	fmt.Fprintf(w, "/-- functions after whose return the goroutine has been through the cache lock -/\ndef obtainers : List String := %s\n", leanStrList(obs))
	fmt.Fprintf(w, "structure LockSite where\n  fn : String\n  lock : Nat\n  deferredUnlock : Bool\n  nested : Bool\n  leaf : Bool\n")
	var ls []string
	for _, fn := range sorted {
		if fn.lockEnd == token.NoPos {
			continue
		}
		nested := rl[fn]
		for _, s := range sites[fn] {
			if guardedAt(s.from, s.c.pos, s.c.inGo) || rl[s.from] {
				nested = true
			}
		}
		ls = append(ls, fmt.Sprintf("  ⟨%s, %s, %s, %s, %s⟩", leanStr(fn.pkg+"."+fn.key), fmt.Sprint(lockID(fn.lockName)), leanBool(fn.deferred), leanBool(nested), leanBool(fn.leaf)))
	}
	fmt.Fprintf(w, "def lockSites : List LockSite := [\n%s\n]\n", strings.Join(ls, ",\n"))
	var rls []string
	for _, fn := range sorted {
		if rl[fn] {
			rls = append(rls, fn.pkg+"."+fn.key)
		}
	}
	fmt.Fprintf(w, "def requiresLock : List String := %s\n", leanStrList(rls))
	fmt.Fprintf(w, "def reachableFunctions : Nat := %d\n", len(reach))

	// ---- shared state audit
	type shared struct {
		name, kind              string
		read, written, guarded  bool
		pathWriters, ctorWriter map[string]bool
	}
	sh := map[string]*shared{}
	var shOrder []string
	add := func(name, kind string) {
		if sh[name] == nil {
			sh[name] = &shared{name: name, kind: kind, guarded: true, pathWriters: map[string]bool{}, ctorWriter: map[string]bool{}}
			shOrder = append(shOrder, name)
		}
	}
	for _, g := range gvars {
		add(g.loc, containerKind(g.v.Type()))
		if who, ok := initialised[g.v]; ok {
			sh[g.loc].ctorWriter[who] = true
		}
	}
	for _, ls := range structs {
		if !sharedNamed[ls.named] {
			continue
		}
		for i := 0; i < ls.st.NumFields(); i++ {
			f := ls.st.Field(i)
			if loc, ok := cx.locOf[f]; ok {
				add(loc, containerKind(f.Type()))
			}
		}
	}
	for _, fn := range fns {
		if !reach[fn] && !reachCtor[fn] {
			continue
		}
		for _, a := range fn.acc {
			r := sh[a.loc]
			if r == nil {
				if strings.HasPrefix(a.loc, "?") || !a.write {
					continue
				}
				add(a.loc, "value") // a written location of a type that is not shared by the static types (lib/j5schema helper structs)
				r = sh[a.loc]
			}
			if !reach[fn] { // construction only
				if a.write {
					r.ctorWriter[fn.pkg+"."+fn.key] = true
				}
				continue
			}
			if !a.write {
				r.read = true
				continue
			}
			r.written = true
			lock, g := guardOf(fn, a)
			who := fn.pkg + "." + fn.key
			switch {
			case g && cacheLock != "" && lock == cacheLock:
				who += " [" + lock + "]"
			case a.once:
				who += " [sync.Once]"
			default:
				r.guarded = false
				who += " [UNGUARDED]"
			}
			r.pathWriters[who] = true
		}
	}
	sort.Strings(shOrder)
	var shRows []string
	for _, n := range shOrder {
		r := sh[n]
		if strings.HasPrefix(n, "var ") && !r.read && !r.written && len(r.ctorWriter) == 0 {
			continue // a variable nothing on the path or in a constructor touches
		}
		shRows = append(shRows, fmt.Sprintf("  ⟨%s, %s, %s, %s, %s, %s, %s⟩", leanStr(r.name), leanStr(r.kind), leanBool(r.read), leanBool(r.written), leanBool(r.guarded),
			leanStrList(sortedKeys(r.pathWriters)), leanStrList(sortedKeys(r.ctorWriter))))
	}
	fmt.Fprintf(w, "/-- Shared state: every package-level variable the path or a constructor touches and every field of every struct type reachable (by static types) from those variables, Codec and Reflector. `writtenOnPath`: written by a function reachable from the entry points through anything but a private fresh object; `guarded`: every such write holds the write lock of the cache (or sits in a sync.Once). A row with `writtenOnPath = false` is immutable after construction: its only writers are composite literals and `ctorWriters`. -/\n")
	fmt.Fprintf(w, "structure SharedState where\n  name : String\n  kind : String\n  readOnPath : Bool\n  writtenOnPath : Bool\n  guarded : Bool\n  pathWriters : List String\n  ctorWriters : List String\n")
	fmt.Fprintf(w, "def sharedState : List SharedState := [\n%s\n]\n", strings.Join(shRows, ",\n"))
	fmt.Fprintf(w, "/-- shared variables / fields of type `any`, which could hold a value of any type; must be empty -/\ndef opaqueShared : List String := %s\n", leanStrList(sortedKeys(opaque)))
	var sts []string
	for _, ls := range structs {
		if sharedNamed[ls.named] {
			sts = append(sts, ls.name)
		}
	}
	sort.Strings(sts)
	fmt.Fprintf(w, "def sharedTypes : List String := %s\n", leanStrList(sts))
	fmt.Fprintf(w, "def perCallStructTypes : Nat := %d\n", len(structs)-len(sts))
	fmt.Fprintf(w, "end J5V.Generated.Locks\n")
	return nil
}

func (cx *lkCtx) scan(fn *lkFn) {
	info, fset := cx.im.info, cx.im.fset
	body := fn.decl.Body
	for i, st := range body.List { // top-level Lock directly followed by the deferred Unlock
		es, ok := st.(*ast.ExprStmt)
		if !ok || fn.lockEnd != token.NoPos {
			continue
		}
		if f, m := lockCall(es.X); m == "Lock" || m == "RLock" {
			fn.lockEnd, fn.lockName = es.End(), f
			if m == "RLock" {
				fn.lockName += ".R"
			}
			if i+1 < len(body.List) {
				if ds, ok := body.List[i+1].(*ast.DeferStmt); ok {
					if f2, m2 := lockCall(ds.Call); f2 == f && m2 == map[string]string{"Lock": "Unlock", "RLock": "RUnlock"}[m] {
						fn.deferred = true
					}
				}
			}
		}
	}
	ast.Inspect(body, func(n ast.Node) bool { // any other acquisition: unclassifiable
		if c, ok := n.(*ast.CallExpr); ok {
			if f, m := lockCall(c); (m == "Lock" || m == "RLock") && c.End() != fn.lockEnd {
				if fn.lockEnd == token.NoPos {
					fn.lockEnd, fn.lockName = c.End(), f
				}
				fn.deferred = false
			}
		}
		return true
	})
	// locals that only ever hold a fresh object and are never stored or passed on
	fresh, notFresh := map[string]bool{}, map[string]bool{}
	use := func(e ast.Expr) {
		if u, ok := e.(*ast.UnaryExpr); ok && u.Op == token.AND {
			e = u.X
		}
		if id, ok := e.(*ast.Ident); ok {
			notFresh[id.Name] = true
		}
	}
	ast.Inspect(body, func(n ast.Node) bool {
		switch x := n.(type) {
		case *ast.AssignStmt:
			for i, l := range x.Lhs {
				if id, ok := l.(*ast.Ident); ok {
					if len(x.Rhs) == len(x.Lhs) && isFreshExpr(x.Rhs[i]) {
						fresh[id.Name] = true
					} else {
						notFresh[id.Name] = true
					}
				} else if len(x.Rhs) == len(x.Lhs) {
					use(x.Rhs[i])
				}
			}
		case *ast.ValueSpec:
			for i, id := range x.Names {
				if i < len(x.Values) && isFreshExpr(x.Values[i]) {
					fresh[id.Name] = true
				} else {
					notFresh[id.Name] = true
				}
			}
		case *ast.RangeStmt:
			use(x.Key)
			use(x.Value)
		case *ast.CallExpr:
			for _, a := range x.Args {
				use(a)
			}
		case *ast.CompositeLit:
			for _, el := range x.Elts {
				if kv, ok := el.(*ast.KeyValueExpr); ok {
					use(kv.Value)
				} else {
					use(el)
				}
			}
		case *ast.SendStmt:
			use(x.Value)
		}
		return true
	})
	for _, l := range fn.decl.Type.Params.List {
		for _, n := range l.Names {
			notFresh[n.Name] = true
		}
	}
	// calls that are evaluated whenever control gets past the top-level statement they are in
	uncond := map[*ast.CallExpr]bool{}
	markCalls := func(n ast.Node) {
		if n == nil {
			return
		}
		ast.Inspect(n, func(m ast.Node) bool {
			switch x := m.(type) {
			case *ast.FuncLit:
				return false
			case *ast.CallExpr:
				uncond[x] = true
			}
			return true
		})
	}
	for _, st := range body.List {
		switch x := st.(type) {
		case *ast.ExprStmt, *ast.AssignStmt, *ast.DeclStmt:
			markCalls(x)
		case *ast.IfStmt:
			markCalls(x.Init)
			markCalls(x.Cond)
		case *ast.SwitchStmt:
			markCalls(x.Init)
			markCalls(x.Tag)
		}
	}
	// the function literal of a sync.Once Do call
	type span struct{ from, to token.Pos }
	var onceSpans []span
	ast.Inspect(body, func(n ast.Node) bool {
		if c, ok := n.(*ast.CallExpr); ok && len(c.Args) == 1 {
			if sel, ok := c.Fun.(*ast.SelectorExpr); ok && sel.Sel.Name == "Do" {
				name := ""
				switch x := sel.X.(type) {
				case *ast.Ident:
					name = x.Name
				case *ast.SelectorExpr:
					name = x.Sel.Name
				}
				if lit, ok := c.Args[0].(*ast.FuncLit); ok && cx.onceNames[name] {
					onceSpans = append(onceSpans, span{lit.Pos(), lit.End()})
				}
			}
		}
		return true
	})
	inOnce := func(p token.Pos) bool {
		for _, s := range onceSpans {
			if p >= s.from && p < s.to {
				return true
			}
		}
		return false
	}
	calledAs := map[ast.Expr]bool{}
	locate := func(s *ast.SelectorExpr) (string, bool, bool) { // location, isMap, found
		if sel := info.Selections[s]; sel != nil {
			if v, ok := sel.Obj().(*types.Var); ok {
				if loc, ok := cx.locOf[v]; ok {
					return loc, cx.locMap[loc], true
				}
			}
			return "", false, false
		}
		if _, isPkg := info.Uses[identOf(s.X)].(*types.PkgName); isPkg {
			return "", false, false
		}
		if cx.locNames[s.Sel.Name] && !calledAs[s] {
			return "?" + s.Sel.Name, true, true // untyped field access spelled like a location: assume the worst
		}
		return "", false, false
	}
	callees := func(c *ast.CallExpr) ([]*lkFn, string) {
		var obj types.Object
		name := ""
		switch f := c.Fun.(type) {
		case *ast.Ident:
			obj, name = info.Uses[f], f.Name
		case *ast.SelectorExpr:
			name = f.Sel.Name
			if sel := info.Selections[f]; sel != nil {
				obj = sel.Obj()
			} else {
				obj = info.Uses[f.Sel]
			}
		default:
			return nil, ""
		}
		if fo, ok := obj.(*types.Func); ok {
			if g := cx.fnOf[fo]; g != nil {
				return []*lkFn{g}, name
			}
			if sig, ok := fo.Type().(*types.Signature); ok && sig.Recv() != nil && types.IsInterface(sig.Recv().Type()) && fo.Pkg() != nil && strings.HasPrefix(fo.Pkg().Path(), lkModule) {
				obj = nil // interface method of this module: by name
			} else {
				return nil, name
			}
		}
		if obj != nil {
			return nil, name // a variable of function type, a conversion, a builtin
		}
		var out []*lkFn
		for _, g := range cx.byName[name] {
			if g.variadic || g.nargs == len(c.Args) {
				out = append(out, g)
			}
		}
		return out, name
	}
	written := map[*ast.SelectorExpr]bool{}
	isSel := map[*ast.Ident]bool{}
	target := func(e ast.Expr) *ast.SelectorExpr { // X.f, X.f[k], (*X.f)[k] -> X.f
		for {
			switch x := e.(type) {
			case *ast.IndexExpr:
				e = x.X
			case *ast.ParenExpr:
				e = x.X
			case *ast.StarExpr:
				e = x.X
			case *ast.SelectorExpr:
				return x
			default:
				return nil
			}
		}
	}
	var walk func(n ast.Node, inGo bool)
	global := func(e ast.Expr) (string, bool) { // g, g[k], (*g)[k] for a package-level variable g
		for {
			switch x := e.(type) {
			case *ast.IndexExpr:
				e = x.X
			case *ast.ParenExpr:
				e = x.X
			case *ast.StarExpr:
				e = x.X
			case *ast.Ident:
				if v, ok := info.Uses[x].(*types.Var); ok {
					loc, ok := cx.globals[v]
					return loc, ok
				}
				return "", false
			default:
				return "", false
			}
		}
	}
	writtenIdent := map[*ast.Ident]bool{}
	write := func(e ast.Expr, inGo bool) {
		if loc, ok := global(e); ok {
			fn.acc = append(fn.acc, lkAcc{loc, cx.locMap[loc], true, e.Pos(), inGo, fset.Position(e.Pos()).Line, inOnce(e.Pos())})
			ast.Inspect(e, func(n ast.Node) bool {
				if id, ok := n.(*ast.Ident); ok {
					writtenIdent[id] = true
				}
				return true
			})
			return
		}
		s := target(e)
		if s == nil {
			return
		}
		loc, isMap, ok := locate(s)
		if !ok {
			return
		}
		written[s] = true
		if id, ok := s.X.(*ast.Ident); ok && fresh[id.Name] && !notFresh[id.Name] {
			return // construction of a private local object
		}
		fn.acc = append(fn.acc, lkAcc{loc, isMap, true, s.Pos(), inGo, fset.Position(s.Pos()).Line, inOnce(s.Pos())})
	}
	walk = func(n ast.Node, inGo bool) {
		ast.Inspect(n, func(m ast.Node) bool {
			switch x := m.(type) {
			case *ast.GoStmt:
				walk(x.Call, true)
				return false
			case *ast.AssignStmt:
				for _, l := range x.Lhs {
					write(l, inGo)
				}
			case *ast.IncDecStmt:
				write(x.X, inGo)
			case *ast.CallExpr:
				calledAs[x.Fun] = true
				if id, ok := x.Fun.(*ast.Ident); ok && (id.Name == "delete" || id.Name == "clear") && len(x.Args) > 0 {
					write(x.Args[0], inGo)
				}
				if to, name := callees(x); len(to) > 0 {
					fn.calls = append(fn.calls, lkCall{to, x.Pos(), x.End(), inGo, name, uncond[x]})
				}
			case *ast.SelectorExpr:
				if loc, isMap, ok := locate(x); ok && !written[x] {
					fn.acc = append(fn.acc, lkAcc{loc, isMap, false, x.Pos(), inGo, fset.Position(x.Pos()).Line, false})
				}
				isSel[x.Sel] = true
				if fo, ok := info.Uses[x.Sel].(*types.Func); ok && cx.fnOf[fo] != nil && !calledAs[x] {
					cx.fnOf[fo].escapes = true // method value / qualified function used as a value
				}
			case *ast.Ident:
				if v, ok := info.Uses[x].(*types.Var); ok && !writtenIdent[x] {
					if loc, ok := cx.globals[v]; ok {
						fn.acc = append(fn.acc, lkAcc{loc, cx.locMap[loc], false, x.Pos(), inGo, fset.Position(x.Pos()).Line, false})
					}
				}
				if fo, ok := info.Uses[x].(*types.Func); ok && cx.fnOf[fo] != nil && !calledAs[x] && !isSel[x] {
					cx.fnOf[fo].escapes = true // function used as a value
				}
			}
			return true
		})
	}
	walk(body, false)
	if fn.lockEnd != token.NoPos && !fn.deferred { // straight-line Lock … Unlock of the same lock
		nLock, unlockAt := 0, token.NoPos
		ast.Inspect(body, func(n ast.Node) bool {
			if c, ok := n.(*ast.CallExpr); ok {
				f, m := lockCall(c)
				if m == "Lock" || m == "RLock" {
					nLock++
				} else if f == strings.TrimSuffix(fn.lockName, ".R") && m != "" && unlockAt == token.NoPos && c.Pos() > fn.lockEnd {
					unlockAt = c.Pos()
				}
			}
			return true
		})
		fn.leaf = nLock == 1 && unlockAt != token.NoPos
		for _, c := range fn.calls {
			if c.pos > fn.lockEnd && c.pos < unlockAt {
				fn.leaf = false
			}
		}
		for _, st := range body.List { // both must be top-level statements of the function
			if es, ok := st.(*ast.ExprStmt); ok && es.Pos() == unlockAt {
				unlockAt = token.NoPos
			}
		}
		fn.leaf = fn.leaf && unlockAt == token.NoPos
	}
}

func identOf(e ast.Expr) *ast.Ident {
	id, _ := e.(*ast.Ident)
	return id
}
