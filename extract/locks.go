package main

import (
	"fmt"
	"go/ast"
	"go/parser"
	"go/token"
	"go/types"
	"os"
	"path/filepath"
	"sort"
	"strings"
)

// E7 locks: lock discipline of the state shared by goroutines that call
// Codec.{ProtoToJSON,JSONToProto,QueryToProto} (property C10). go/ast + go/types (stdlib only;
// packages of this module are type-checked from source, everything else is an empty stand-in,
// so expressions of foreign types stay untyped). Deliberately over-approximating:
//   - locations: the fields of every struct declared in lib/j5schema plus Codec and Reflector. A
//     location is listed when a function reachable from the three roots writes it through
//     anything but a local that only ever holds a fresh composite literal / new / make and is
//     never stored or passed on. A selector that cannot be typed but is spelled like a location is
//     listed as location "?<name>" (never guarded);
//   - calls resolve through go/types; interface methods and untyped calls resolve by name and
//     argument count to every function of the three packages, so reachability and call sites are
//     supersets of the real ones;
//   - an access is guarded when, in its own function, a top-level `X.<lock>.Lock()` statement
//     directly followed by `defer X.<lock>.Unlock()` precedes it (and it is not inside a `go`
//     statement), or when the function is a requires-lock helper: it is never used as a value and
//     every reachable call site is itself guarded (greatest fixed point);
//   - RLock is a different guard ("<lock>.R"); a Lock without the deferred Unlock, an acquisition
//     with a guarded call site (nesting) and a second Lock in one function are reported as such,
//     and the obligations in Props/C10.lean fail on them.
func init() { extractors["locks"] = extractLocks }

const lkModule = "github.com/pentops/j5"

var lkDirs = []string{"lib/j5schema", "lib/j5reflect", "internal/codec"}

type lkImporter struct {
	fset  *token.FileSet
	pkgs  map[string]*types.Package
	files map[string][]*ast.File
	info  *types.Info
}

func (im *lkImporter) Import(path string) (*types.Package, error) {
	if p, ok := im.pkgs[path]; ok {
		return p, nil
	}
	if path != lkModule && !strings.HasPrefix(path, lkModule+"/") {
		p := types.NewPackage(path, path[strings.LastIndex(path, "/")+1:])
		p.MarkComplete()
		im.pkgs[path] = p
		return p, nil
	}
	dir := filepath.Join(repo, strings.TrimPrefix(path, lkModule))
	ents, err := os.ReadDir(dir)
	if err != nil {
		return nil, err
	}
	var files []*ast.File
	for _, e := range ents {
		if !strings.HasSuffix(e.Name(), ".go") || strings.HasSuffix(e.Name(), "_test.go") {
			continue
		}
		f, err := parser.ParseFile(im.fset, filepath.Join(dir, e.Name()), nil, parser.ParseComments)
		if err != nil {
			return nil, err
		}
		tagged := false
		for _, cg := range f.Comments {
			if cg.Pos() < f.Package && strings.Contains(cg.Text(), "go:build") || strings.HasPrefix(cg.Text(), "+build") {
				tagged = true
			}
		}
		if !tagged {
			files = append(files, f)
		}
	}
	im.pkgs[path] = nil // cycle guard
	conf := types.Config{Importer: im, Error: func(error) {}, FakeImportC: true}
	p, _ := conf.Check(path, im.fset, files, im.info)
	im.pkgs[path] = p
	im.files[path] = files
	return p, nil
}

type lkFn struct {
	key, pkg string
	obj      *types.Func
	decl     *ast.FuncDecl
	nargs    int
	variadic bool
	leaf     bool      // non-deferred Lock…Unlock with no call into the analysed packages in between
	lockEnd  token.Pos // end of the top-level Lock statement; NoPos if none
	lockName string
	deferred bool
	calls    []lkCall
	acc      []lkAcc
	escapes  bool
}
type lkCall struct {
	to    []*lkFn
	pos   token.Pos
	inGo  bool
	named string
}
type lkAcc struct {
	loc   string
	isMap bool
	write bool
	pos   token.Pos
	inGo  bool
	line  int
}

func isFreshExpr(e ast.Expr) bool {
	switch x := e.(type) {
	case *ast.CompositeLit:
		return true
	case *ast.UnaryExpr:
		_, ok := x.X.(*ast.CompositeLit)
		return x.Op == token.AND && ok
	case *ast.CallExpr:
		if id, ok := x.Fun.(*ast.Ident); ok {
			return id.Name == "new" || id.Name == "make"
		}
	}
	return false
}

// lockCall recognises X.<field>.Lock() / RLock() / Unlock() / RUnlock().
func lockCall(e ast.Expr) (field, method string) {
	c, ok := e.(*ast.CallExpr)
	if !ok || len(c.Args) != 0 {
		return
	}
	s, ok := c.Fun.(*ast.SelectorExpr)
	if !ok {
		return
	}
	in, ok := s.X.(*ast.SelectorExpr)
	if !ok {
		return
	}
	switch s.Sel.Name {
	case "Lock", "RLock", "Unlock", "RUnlock":
		return in.Sel.Name, s.Sel.Name
	}
	return
}

type lkCtx struct {
	im       *lkImporter
	locOf    map[*types.Var]string // field object -> "Struct.field"
	locMap   map[string]bool
	locOwner map[string]bool // the struct of the location declares a mutex
	locNames map[string]bool // bare field names of locations
	globals  map[*types.Var]string // package-level variables of the analysed packages
	fnOf     map[*types.Func]*lkFn
	byName   map[string][]*lkFn
}

func extractLocks(w *strings.Builder) error {
	im := &lkImporter{fset: token.NewFileSet(), pkgs: map[string]*types.Package{}, files: map[string][]*ast.File{},
		info: &types.Info{Selections: map[*ast.SelectorExpr]*types.Selection{}, Uses: map[*ast.Ident]types.Object{}, Defs: map[*ast.Ident]types.Object{}}}
	cx := &lkCtx{im: im, locOf: map[*types.Var]string{}, locMap: map[string]bool{}, locOwner: map[string]bool{}, locNames: map[string]bool{}, globals: map[*types.Var]string{},
		fnOf: map[*types.Func]*lkFn{}, byName: map[string][]*lkFn{}}
	var fns []*lkFn
	for _, dir := range lkDirs {
		path := lkModule + "/" + dir
		p, err := im.Import(path)
		if err != nil || p == nil {
			return fmt.Errorf("cannot load %s: %v", path, err)
		}
		short := filepath.Base(dir)
		mutexStructs := map[string]bool{} // `sync` is a stand-in package, so look at the syntax
		for _, f := range im.files[path] {
			ast.Inspect(f, func(n ast.Node) bool {
				if ts, ok := n.(*ast.TypeSpec); ok {
					if st, ok := ts.Type.(*ast.StructType); ok {
						for _, fl := range st.Fields.List {
							if t := strings.TrimPrefix(exprString(fl.Type), "*"); t == "sync.Mutex" || t == "sync.RWMutex" {
								mutexStructs[ts.Name.Name] = true
							}
						}
					}
				}
				return true
			})
		}
		for _, name := range p.Scope().Names() {
			if v, ok := p.Scope().Lookup(name).(*types.Var); ok {
				loc := "var " + short + "." + name
				cx.globals[v] = loc
				_, isMap := v.Type().Underlying().(*types.Map)
				cx.locMap[loc] = isMap
				cx.locOwner[loc] = true // a package-level variable is shared by everybody: always must-guard
			}
			tn, ok := p.Scope().Lookup(name).(*types.TypeName)
			if !ok {
				continue
			}
			st, ok := tn.Type().Underlying().(*types.Struct)
			if !ok || !(short == "j5schema" || name == "Codec" || name == "Reflector") {
				continue
			}
			hasMutex := mutexStructs[name]
			for i := 0; i < st.NumFields(); i++ {
				f := st.Field(i)
				if f.Embedded() {
					continue
				}
				loc := name + "." + f.Name()
				cx.locOwner[loc] = hasMutex
				cx.locOf[f] = loc
				_, isMap := f.Type().Underlying().(*types.Map)
				cx.locMap[loc] = isMap
				cx.locNames[f.Name()] = true
			}
		}
		for _, f := range im.files[path] {
			for _, d := range f.Decls {
				fd, ok := d.(*ast.FuncDecl)
				if !ok || fd.Body == nil {
					continue
				}
				fn := &lkFn{key: fd.Name.Name, pkg: short, decl: fd}
				if fd.Recv != nil && len(fd.Recv.List) == 1 {
					fn.key = strings.TrimPrefix(exprString(fd.Recv.List[0].Type), "*") + "." + fd.Name.Name
				}
				for _, p := range fd.Type.Params.List {
					fn.nargs += max(1, len(p.Names))
					if _, ok := p.Type.(*ast.Ellipsis); ok {
						fn.variadic = true
					}
				}
				if o, ok := im.info.Defs[fd.Name].(*types.Func); ok {
					fn.obj = o
					cx.fnOf[o] = fn
				}
				fns = append(fns, fn)
				cx.byName[fd.Name.Name] = append(cx.byName[fd.Name.Name], fn)
			}
		}
	}
	for _, fn := range fns {
		cx.scan(fn)
	}
	guardedAt := func(fn *lkFn, pos token.Pos, inGo bool) bool {
		return fn.lockEnd != token.NoPos && fn.deferred && pos > fn.lockEnd && !inGo
	}
	reach := map[*lkFn]bool{}
	var todo []*lkFn
	rootsFound := 0
	for _, fn := range fns {
		if fn.key == "Codec.ProtoToJSON" || fn.key == "Codec.JSONToProto" || fn.key == "Codec.QueryToProto" {
			reach[fn] = true
			todo = append(todo, fn)
			rootsFound++
		}
	}
	for len(todo) > 0 {
		fn := todo[0]
		todo = todo[1:]
		for _, c := range fn.calls {
			for _, g := range c.to {
				if !reach[g] {
					reach[g] = true
					todo = append(todo, g)
				}
			}
		}
	}
	type site struct {
		from *lkFn
		c    lkCall
	}
	sites := map[*lkFn][]site{}
	rl := map[*lkFn]bool{}
	for fn := range reach {
		rl[fn] = !fn.escapes && !strings.HasPrefix(fn.key, "Codec.")
		for _, c := range fn.calls {
			for _, g := range c.to {
				sites[g] = append(sites[g], site{fn, c})
			}
		}
	}
	for changed := true; changed; {
		changed = false
		for fn := range reach {
			if !rl[fn] {
				continue
			}
			ok := len(sites[fn]) > 0
			for _, s := range sites[fn] {
				if !(guardedAt(s.from, s.c.pos, s.c.inGo) || (rl[s.from] && !s.c.inGo)) {
					ok = false
				}
			}
			if !ok {
				rl[fn], changed = false, true
			}
		}
	}
	// the lock(s) under which a requires-lock helper is (transitively) called
	var heldBy func(fn *lkFn, seen map[*lkFn]bool, out map[string]bool)
	heldBy = func(fn *lkFn, seen map[*lkFn]bool, out map[string]bool) {
		if seen[fn] {
			return
		}
		seen[fn] = true
		for _, s := range sites[fn] {
			if guardedAt(s.from, s.c.pos, s.c.inGo) {
				out[s.from.lockName] = true
			} else {
				heldBy(s.from, seen, out)
			}
		}
	}
	mutated := map[string]bool{}
	for fn := range reach {
		for _, a := range fn.acc {
			if a.write {
				mutated[a.loc] = true
			}
		}
	}
	for fn := range reach { // an untyped read matters when a real location spelled like it is mutated
		for _, a := range fn.acc {
			if strings.HasPrefix(a.loc, "?") {
				for l := range mutated {
					if strings.HasSuffix(l, "."+a.loc[1:]) {
						mutated[a.loc] = true
					}
				}
			}
		}
	}
	locs := sortedKeys(mutated)
	locIdx := map[string]int{}
	for i, l := range locs {
		locIdx[l] = i
	}
	var sorted []*lkFn
	for fn := range reach {
		sorted = append(sorted, fn)
	}
	sort.Slice(sorted, func(a, b int) bool { return sorted[a].pkg+sorted[a].key < sorted[b].pkg+sorted[b].key })
	var rows []string
	seen := map[string]bool{}
	var lockNames []string
	lockID := func(n string) int {
		for i, x := range lockNames {
			if x == n {
				return i
			}
		}
		lockNames = append(lockNames, n)
		return len(lockNames) - 1
	}
	for _, fn := range sorted { // ids in a stable order: lock sites first
		if fn.lockEnd != token.NoPos {
			lockID(fn.lockName)
		}
	}
	for _, fn := range sorted {
		for _, a := range fn.acc {
			if !mutated[a.loc] {
				continue
			}
			guard := "none"
			switch {
			case guardedAt(fn, a.pos, a.inGo):
				guard = fmt.Sprintf("some %d", lockID(fn.lockName))
			case rl[fn] && !a.inGo:
				held := map[string]bool{}
				heldBy(fn, map[*lkFn]bool{}, held)
				guard = fmt.Sprintf("some %d", lockID(strings.Join(sortedKeys(held), "+")))
			}
			k := fmt.Sprint(a.loc, a.write, guard, fn.key)
			if !seen[k] {
				seen[k] = true
				rows = append(rows, fmt.Sprintf("  ⟨%d, %s, %s, %s, %s, %s, %s⟩", locIdx[a.loc], leanBool(a.isMap), leanBool(cx.locOwner[a.loc]), leanBool(a.write), guard,
					leanStr(fn.pkg+"."+fn.key), leanStr(fmt.Sprintf("%s:%d", filepath.Base(im.fset.Position(a.pos).Filename), a.line))))
			}
		}
	}
	fmt.Fprintf(w, "namespace J5V.Generated.Locks\n")
	fmt.Fprintf(w, "def rootsFound : Nat := %d\n", rootsFound)
	fmt.Fprintf(w, "/-- every location (Struct.field) that is written after construction on the codec path -/\n")
	fmt.Fprintf(w, "def locations : List String := %s\n", leanStrList(locs))
	unknown := 0
	for _, l := range locs {
		if strings.HasPrefix(l, "?") {
			unknown++
		}
	}
	fmt.Fprintf(w, "/-- locations that could not be typed (spelled like a shared field); must be 0 -/\ndef unknownLocations : Nat := %d\n", unknown)
	fmt.Fprintf(w, "/-- guards: index = id used in `accesses` and `lockSites`; \"a+b\" = helper reached under different locks, \"\" = under none -/\n")
	fmt.Fprintf(w, "def lockNames : List String := %s\n", leanStrList(lockNames))
	fmt.Fprintf(w, "structure Access where\n  loc : Nat\n  isMap : Bool\n  lockOwner : Bool\n  write : Bool\n  guard : Option Nat\n  fn : String\n  at_ : String\n")
	fmt.Fprintf(w, "def accesses : List Access := [\n%s\n]\n", strings.Join(rows, ",\n"))
	fmt.Fprintf(w, "structure LockSite where\n  fn : String\n  lock : Nat\n  deferredUnlock : Bool\n  nested : Bool\n  leaf : Bool\n")
	var ls []string
	for _, fn := range sorted {
		if fn.lockEnd == token.NoPos {
			continue
		}
		nested := rl[fn]
		for _, s := range sites[fn] {
			if guardedAt(s.from, s.c.pos, s.c.inGo) || rl[s.from] {
				nested = true
			}
		}
		ls = append(ls, fmt.Sprintf("  ⟨%s, %s, %s, %s, %s⟩", leanStr(fn.pkg+"."+fn.key), fmt.Sprint(lockID(fn.lockName)), leanBool(fn.deferred), leanBool(nested), leanBool(fn.leaf)))
	}
	fmt.Fprintf(w, "def lockSites : List LockSite := [\n%s\n]\n", strings.Join(ls, ",\n"))
	var rls []string
	for _, fn := range sorted {
		if rl[fn] {
			rls = append(rls, fn.pkg+"."+fn.key)
		}
	}
	fmt.Fprintf(w, "def requiresLock : List String := %s\n", leanStrList(rls))
	fmt.Fprintf(w, "def reachableFunctions : Nat := %d\n", len(reach))
	fmt.Fprintf(w, "end J5V.Generated.Locks\n")
	return nil
}

func (cx *lkCtx) scan(fn *lkFn) {
	info, fset := cx.im.info, cx.im.fset
	body := fn.decl.Body
	for i, st := range body.List { // top-level Lock directly followed by the deferred Unlock
		es, ok := st.(*ast.ExprStmt)
		if !ok || fn.lockEnd != token.NoPos {
			continue
		}
		if f, m := lockCall(es.X); m == "Lock" || m == "RLock" {
			fn.lockEnd, fn.lockName = es.End(), f
			if m == "RLock" {
				fn.lockName += ".R"
			}
			if i+1 < len(body.List) {
				if ds, ok := body.List[i+1].(*ast.DeferStmt); ok {
					if f2, m2 := lockCall(ds.Call); f2 == f && m2 == map[string]string{"Lock": "Unlock", "RLock": "RUnlock"}[m] {
						fn.deferred = true
					}
				}
			}
		}
	}
	ast.Inspect(body, func(n ast.Node) bool { // any other acquisition: unclassifiable
		if c, ok := n.(*ast.CallExpr); ok {
			if f, m := lockCall(c); (m == "Lock" || m == "RLock") && c.End() != fn.lockEnd {
				if fn.lockEnd == token.NoPos {
					fn.lockEnd, fn.lockName = c.End(), f
				}
				fn.deferred = false
			}
		}
		return true
	})
	// locals that only ever hold a fresh object and are never stored or passed on
	fresh, notFresh := map[string]bool{}, map[string]bool{}
	use := func(e ast.Expr) {
		if u, ok := e.(*ast.UnaryExpr); ok && u.Op == token.AND {
			e = u.X
		}
		if id, ok := e.(*ast.Ident); ok {
			notFresh[id.Name] = true
		}
	}
	ast.Inspect(body, func(n ast.Node) bool {
		switch x := n.(type) {
		case *ast.AssignStmt:
			for i, l := range x.Lhs {
				if id, ok := l.(*ast.Ident); ok {
					if len(x.Rhs) == len(x.Lhs) && isFreshExpr(x.Rhs[i]) {
						fresh[id.Name] = true
					} else {
						notFresh[id.Name] = true
					}
				} else if len(x.Rhs) == len(x.Lhs) {
					use(x.Rhs[i])
				}
			}
		case *ast.ValueSpec:
			for i, id := range x.Names {
				if i < len(x.Values) && isFreshExpr(x.Values[i]) {
					fresh[id.Name] = true
				} else {
					notFresh[id.Name] = true
				}
			}
		case *ast.RangeStmt:
			use(x.Key)
			use(x.Value)
		case *ast.CallExpr:
			for _, a := range x.Args {
				use(a)
			}
		case *ast.CompositeLit:
			for _, el := range x.Elts {
				if kv, ok := el.(*ast.KeyValueExpr); ok {
					use(kv.Value)
				} else {
					use(el)
				}
			}
		case *ast.SendStmt:
			use(x.Value)
		}
		return true
	})
	for _, l := range fn.decl.Type.Params.List {
		for _, n := range l.Names {
			notFresh[n.Name] = true
		}
	}
	calledAs := map[ast.Expr]bool{}
	locate := func(s *ast.SelectorExpr) (string, bool, bool) { // location, isMap, found
		if sel := info.Selections[s]; sel != nil {
			if v, ok := sel.Obj().(*types.Var); ok {
				if loc, ok := cx.locOf[v]; ok {
					return loc, cx.locMap[loc], true
				}
			}
			return "", false, false
		}
		if _, isPkg := info.Uses[identOf(s.X)].(*types.PkgName); isPkg {
			return "", false, false
		}
		if cx.locNames[s.Sel.Name] && !calledAs[s] {
			return "?" + s.Sel.Name, true, true // untyped field access spelled like a location: assume the worst
		}
		return "", false, false
	}
	callees := func(c *ast.CallExpr) ([]*lkFn, string) {
		var obj types.Object
		name := ""
		switch f := c.Fun.(type) {
		case *ast.Ident:
			obj, name = info.Uses[f], f.Name
		case *ast.SelectorExpr:
			name = f.Sel.Name
			if sel := info.Selections[f]; sel != nil {
				obj = sel.Obj()
			} else {
				obj = info.Uses[f.Sel]
			}
		default:
			return nil, ""
		}
		if fo, ok := obj.(*types.Func); ok {
			if g := cx.fnOf[fo]; g != nil {
				return []*lkFn{g}, name
			}
			if sig, ok := fo.Type().(*types.Signature); ok && sig.Recv() != nil && types.IsInterface(sig.Recv().Type()) && fo.Pkg() != nil && strings.HasPrefix(fo.Pkg().Path(), lkModule) {
				obj = nil // interface method of this module: by name
			} else {
				return nil, name
			}
		}
		if obj != nil {
			return nil, name // a variable of function type, a conversion, a builtin
		}
		var out []*lkFn
		for _, g := range cx.byName[name] {
			if g.variadic || g.nargs == len(c.Args) {
				out = append(out, g)
			}
		}
		return out, name
	}
	written := map[*ast.SelectorExpr]bool{}
	isSel := map[*ast.Ident]bool{}
	target := func(e ast.Expr) *ast.SelectorExpr { // X.f, X.f[k], (*X.f)[k] -> X.f
		for {
			switch x := e.(type) {
			case *ast.IndexExpr:
				e = x.X
			case *ast.ParenExpr:
				e = x.X
			case *ast.StarExpr:
				e = x.X
			case *ast.SelectorExpr:
				return x
			default:
				return nil
			}
		}
	}
	var walk func(n ast.Node, inGo bool)
	global := func(e ast.Expr) (string, bool) { // g, g[k], (*g)[k] for a package-level variable g
		for {
			switch x := e.(type) {
			case *ast.IndexExpr:
				e = x.X
			case *ast.ParenExpr:
				e = x.X
			case *ast.StarExpr:
				e = x.X
			case *ast.Ident:
				if v, ok := info.Uses[x].(*types.Var); ok {
					loc, ok := cx.globals[v]
					return loc, ok
				}
				return "", false
			default:
				return "", false
			}
		}
	}
	writtenIdent := map[*ast.Ident]bool{}
	write := func(e ast.Expr, inGo bool) {
		if loc, ok := global(e); ok {
			fn.acc = append(fn.acc, lkAcc{loc, cx.locMap[loc], true, e.Pos(), inGo, fset.Position(e.Pos()).Line})
			ast.Inspect(e, func(n ast.Node) bool {
				if id, ok := n.(*ast.Ident); ok {
					writtenIdent[id] = true
				}
				return true
			})
			return
		}
		s := target(e)
		if s == nil {
			return
		}
		loc, isMap, ok := locate(s)
		if !ok {
			return
		}
		written[s] = true
		if id, ok := s.X.(*ast.Ident); ok && fresh[id.Name] && !notFresh[id.Name] {
			return // construction of a private local object
		}
		fn.acc = append(fn.acc, lkAcc{loc, isMap, true, s.Pos(), inGo, fset.Position(s.Pos()).Line})
	}
	walk = func(n ast.Node, inGo bool) {
		ast.Inspect(n, func(m ast.Node) bool {
			switch x := m.(type) {
			case *ast.GoStmt:
				walk(x.Call, true)
				return false
			case *ast.AssignStmt:
				for _, l := range x.Lhs {
					write(l, inGo)
				}
			case *ast.IncDecStmt:
				write(x.X, inGo)
			case *ast.CallExpr:
				calledAs[x.Fun] = true
				if id, ok := x.Fun.(*ast.Ident); ok && (id.Name == "delete" || id.Name == "clear") && len(x.Args) > 0 {
					write(x.Args[0], inGo)
				}
				if to, name := callees(x); len(to) > 0 {
					fn.calls = append(fn.calls, lkCall{to, x.Pos(), inGo, name})
				}
			case *ast.SelectorExpr:
				if loc, isMap, ok := locate(x); ok && !written[x] {
					fn.acc = append(fn.acc, lkAcc{loc, isMap, false, x.Pos(), inGo, fset.Position(x.Pos()).Line})
				}
				isSel[x.Sel] = true
				if fo, ok := info.Uses[x.Sel].(*types.Func); ok && cx.fnOf[fo] != nil && !calledAs[x] {
					cx.fnOf[fo].escapes = true // method value / qualified function used as a value
				}
			case *ast.Ident:
				if v, ok := info.Uses[x].(*types.Var); ok && !writtenIdent[x] {
					if loc, ok := cx.globals[v]; ok {
						fn.acc = append(fn.acc, lkAcc{loc, cx.locMap[loc], false, x.Pos(), inGo, fset.Position(x.Pos()).Line})
					}
				}
				if fo, ok := info.Uses[x].(*types.Func); ok && cx.fnOf[fo] != nil && !calledAs[x] && !isSel[x] {
					cx.fnOf[fo].escapes = true // function used as a value
				}
			}
			return true
		})
	}
	walk(body, false)
	if fn.lockEnd != token.NoPos && !fn.deferred { // straight-line Lock … Unlock of the same lock
		nLock, unlockAt := 0, token.NoPos
		ast.Inspect(body, func(n ast.Node) bool {
			if c, ok := n.(*ast.CallExpr); ok {
				f, m := lockCall(c)
				if m == "Lock" || m == "RLock" {
					nLock++
				} else if f == strings.TrimSuffix(fn.lockName, ".R") && m != "" && unlockAt == token.NoPos && c.Pos() > fn.lockEnd {
					unlockAt = c.Pos()
				}
			}
			return true
		})
		fn.leaf = nLock == 1 && unlockAt != token.NoPos
		for _, c := range fn.calls {
			if c.pos > fn.lockEnd && c.pos < unlockAt {
				fn.leaf = false
			}
		}
		for _, st := range body.List { // both must be top-level statements of the function
			if es, ok := st.(*ast.ExprStmt); ok && es.Pos() == unlockAt {
				unlockAt = token.NoPos
			}
		}
		fn.leaf = fn.leaf && unlockAt == token.NoPos
	}
}

func identOf(e ast.Expr) *ast.Ident {
	id, _ := e.(*ast.Ident)
	return id
}
