// Fact extractors of the walker stream (harness/PROTOCOL-walker.md §6).
//
//   walkerspec   -> lean/J5V/Generated/WalkerspecFacts.lean   (J5V.Generated.Walkerspec)
//                   go/ast over the composite literal J5SchemaSpec of internal/j5s/j5parse/schema.go
//   walkerschema -> lean/J5V/Generated/WalkerschemaFacts.lean (J5V.Generated.Walkerschema)
//                   the j5 schema closure of sourcedef_j5pb.SourceFile as the walker sees it through
//                   lib/j5reflect, dumped by a `go run` program executed inside /repo
package main

import (
	"fmt"
	"go/ast"
	"go/token"
	"os"
	"os/exec"
	"path/filepath"
	"strconv"
	"strings"
)

func init() {
	extractors["walkerspec"] = extractWalkerSpec
	extractors["walkerschema"] = extractWalkerSchema
}

// ---------------------------------------------------------------------------------------------
// walkerspec

type rawTag struct {
	fieldName       string
	bang, question  *string
	isBlock, option bool
}

type rawSplit struct {
	delimiter   *string
	rightToLeft bool
	required    [][]string
	optional    [][]string
	remainder   *[]string
}

type rawAlias struct {
	name string
	path []string
}

type rawBlock struct {
	schemaName            string
	name, typeSel, qualif *rawTag
	description           *string
	aliases               []rawAlias
	split                 *rawSplit
	onlyExplicit          bool
	unknown               []string
}

type specReader struct {
	fset *token.FileSet
}

func (r *specReader) where(n ast.Node) string {
	p := r.fset.Position(n.Pos())
	return fmt.Sprintf("schema.go:%d", p.Line)
}

func unparen(e ast.Expr) ast.Expr {
	for {
		p, ok := e.(*ast.ParenExpr)
		if !ok {
			return e
		}
		e = p.X
	}
}

// str: a string literal, possibly parenthesised.
func (r *specReader) str(e ast.Expr) (string, bool) {
	bl, ok := unparen(e).(*ast.BasicLit)
	if !ok || bl.Kind != token.STRING {
		return "", false
	}
	return unquote(bl.Value)
}

func (r *specReader) boolean(e ast.Expr) (bool, bool) {
	id, ok := unparen(e).(*ast.Ident)
	if !ok {
		return false, false
	}
	switch id.Name {
	case "true":
		return true, true
	case "false":
		return false, true
	}
	return false, false
}

// ptrStr: gl.Ptr("literal")
func (r *specReader) ptrStr(e ast.Expr) (*string, bool) {
	call, ok := unparen(e).(*ast.CallExpr)
	if !ok || exprString(call.Fun) != "gl.Ptr" || len(call.Args) != 1 {
		return nil, false
	}
	s, ok := r.str(call.Args[0])
	if !ok {
		return nil, false
	}
	return &s, true
}

// path: bclPath("a", "b")
func (r *specReader) path(e ast.Expr) ([]string, bool) {
	call, ok := unparen(e).(*ast.CallExpr)
	if !ok || exprString(call.Fun) != "bclPath" || call.Ellipsis.IsValid() {
		return nil, false
	}
	out := []string{}
	for _, a := range call.Args {
		s, ok := r.str(a)
		if !ok {
			return nil, false
		}
		out = append(out, s)
	}
	return out, true
}

// lit: a composite literal of the given type (or with the type elided), optionally behind &.
func lit(e ast.Expr, typ string) (*ast.CompositeLit, bool) {
	e = unparen(e)
	if u, ok := e.(*ast.UnaryExpr); ok && u.Op == token.AND {
		e = u.X
	}
	cl, ok := e.(*ast.CompositeLit)
	if !ok {
		return nil, false
	}
	if cl.Type != nil && exprString(cl.Type) != typ {
		return nil, false
	}
	return cl, true
}

func kv(e ast.Expr) (string, ast.Expr, bool) {
	k, ok := e.(*ast.KeyValueExpr)
	if !ok {
		return "", nil, false
	}
	id, ok := k.Key.(*ast.Ident)
	if !ok {
		return "", nil, false
	}
	return id.Name, k.Value, true
}

func (r *specReader) tag(e ast.Expr, unknown *[]string, what string) *rawTag {
	cl, ok := lit(e, "bcl_j5pb.Tag")
	if !ok {
		*unknown = append(*unknown, what+": not a Tag literal at "+r.where(e))
		return &rawTag{}
	}
	t := &rawTag{}
	for _, el := range cl.Elts {
		k, v, ok := kv(el)
		if !ok {
			*unknown = append(*unknown, what+": positional element at "+r.where(el))
			continue
		}
		good := false
		switch k {
		case "FieldName":
			t.fieldName, good = r.str(v)
		case "IsBlock":
			t.isBlock, good = r.boolean(v)
		case "Optional":
			t.option, good = r.boolean(v)
		case "BangBool":
			t.bang, good = r.ptrStr(v)
		case "QuestionBool":
			t.question, good = r.ptrStr(v)
		default:
			*unknown = append(*unknown, what+": unknown field "+k+" at "+r.where(el))
			continue
		}
		if !good {
			*unknown = append(*unknown, what+"."+k+": unrecognised expression "+exprString(v)+" at "+r.where(v))
		}
	}
	return t
}

func (r *specReader) pathList(e ast.Expr, unknown *[]string, what string) [][]string {
	cl, ok := lit(e, "[]*bcl_j5pb.Path")
	if !ok {
		*unknown = append(*unknown, what+": not a []*Path literal at "+r.where(e))
		return nil
	}
	out := [][]string{}
	for _, el := range cl.Elts {
		p, ok := r.path(el)
		if !ok {
			*unknown = append(*unknown, what+": unrecognised path expression "+exprString(el)+" at "+r.where(el))
			continue
		}
		out = append(out, p)
	}
	return out
}

func (r *specReader) block(cl *ast.CompositeLit) rawBlock {
	b := rawBlock{}
	seen := map[string]bool{}
	for _, el := range cl.Elts {
		k, v, ok := kv(el)
		if !ok {
			b.unknown = append(b.unknown, "positional element at "+r.where(el))
			continue
		}
		if seen[k] {
			b.unknown = append(b.unknown, "field "+k+" given twice")
		}
		seen[k] = true
		switch k {
		case "SchemaName":
			s, ok := r.str(v)
			if !ok {
				b.unknown = append(b.unknown, "SchemaName: unrecognised expression "+exprString(v)+" at "+r.where(v))
			}
			b.schemaName = s
		case "Name":
			b.name = r.tag(v, &b.unknown, "Name")
		case "TypeSelect":
			b.typeSel = r.tag(v, &b.unknown, "TypeSelect")
		case "Qualifier":
			b.qualif = r.tag(v, &b.unknown, "Qualifier")
		case "DescriptionField":
			p, ok := r.ptrStr(v)
			if !ok {
				b.unknown = append(b.unknown, "DescriptionField: unrecognised expression "+exprString(v)+" at "+r.where(v))
			}
			b.description = p
		case "OnlyExplicit":
			x, ok := r.boolean(v)
			if !ok {
				b.unknown = append(b.unknown, "OnlyExplicit: unrecognised expression "+exprString(v)+" at "+r.where(v))
			}
			b.onlyExplicit = x
		case "Alias":
			al, ok := lit(v, "[]*bcl_j5pb.Alias")
			if !ok {
				b.unknown = append(b.unknown, "Alias: not a []*Alias literal at "+r.where(v))
				break
			}
			for _, ae := range al.Elts {
				acl, ok := lit(ae, "bcl_j5pb.Alias")
				if !ok {
					b.unknown = append(b.unknown, "Alias: element is not a literal at "+r.where(ae))
					continue
				}
				a := rawAlias{}
				hasName, hasPath := false, false
				for _, f := range acl.Elts {
					fk, fv, ok := kv(f)
					if !ok {
						b.unknown = append(b.unknown, "Alias: positional element at "+r.where(f))
						continue
					}
					switch fk {
					case "Name":
						a.name, hasName = r.str(fv)
						if !hasName {
							b.unknown = append(b.unknown, "Alias.Name: unrecognised expression at "+r.where(fv))
						}
					case "Path":
						a.path, hasPath = r.path(fv)
						if !hasPath {
							b.unknown = append(b.unknown, "Alias.Path: unrecognised expression "+exprString(fv)+" at "+r.where(fv))
						}
					default:
						b.unknown = append(b.unknown, "Alias: unknown field "+fk+" at "+r.where(f))
					}
				}
				if !hasPath {
					// convertBlocks dereferences alias.Path: a nil Path panics in NewSchemaSet
					b.unknown = append(b.unknown, "Alias "+a.name+": no Path at "+r.where(ae))
				}
				b.aliases = append(b.aliases, a)
			}
		case "ScalarSplit":
			scl, ok := lit(v, "bcl_j5pb.ScalarSplit")
			if !ok {
				b.unknown = append(b.unknown, "ScalarSplit: not a literal at "+r.where(v))
				break
			}
			sp := &rawSplit{}
			for _, f := range scl.Elts {
				fk, fv, ok := kv(f)
				if !ok {
					b.unknown = append(b.unknown, "ScalarSplit: positional element at "+r.where(f))
					continue
				}
				good := true
				switch fk {
				case "Delimiter":
					sp.delimiter, good = r.ptrStr(fv)
				case "RightToLeft":
					sp.rightToLeft, good = r.boolean(fv)
				case "RequiredFields":
					sp.required = r.pathList(fv, &b.unknown, "ScalarSplit.RequiredFields")
				case "OptionalFields":
					sp.optional = r.pathList(fv, &b.unknown, "ScalarSplit.OptionalFields")
				case "RemainderField":
					var p []string
					p, good = r.path(fv)
					sp.remainder = &p
				default:
					b.unknown = append(b.unknown, "ScalarSplit: unknown field "+fk+" at "+r.where(f))
				}
				if !good {
					b.unknown = append(b.unknown, "ScalarSplit."+fk+": unrecognised expression "+exprString(fv)+" at "+r.where(fv))
				}
			}
			b.split = sp
		default:
			b.unknown = append(b.unknown, "unknown field "+k+" at "+r.where(el))
		}
	}
	if !seen["SchemaName"] {
		b.unknown = append(b.unknown, "no SchemaName at "+r.where(cl))
	}
	return b
}

func leanOptStr(p *string) string {
	if p == nil {
		return "none"
	}
	return "(some " + leanStr(*p) + ")"
}

func leanTag(t *rawTag) string {
	if t == nil {
		return "none"
	}
	return fmt.Sprintf("(some { fieldName := %s, bang := %s, question := %s, isBlock := %s, optional := %s })",
		leanStr(t.fieldName), leanOptStr(t.bang), leanOptStr(t.question), leanBool(t.isBlock), leanBool(t.option))
}

func leanPathList(ps [][]string) string {
	q := make([]string, len(ps))
	for i, p := range ps {
		q[i] = leanStrList(p)
	}
	return "[" + strings.Join(q, ", ") + "]"
}

const walkerSpecHeader = `/-! The block specifications the j5s parser hands to the BCL walker: the composite literal
J5SchemaSpec of internal/j5s/j5parse/schema.go, read with go/ast. Everything the reader does not
recognise (unknown field, non-literal expression, helper other than bclPath / gl.Ptr, a bclPath
whose body is not "return &bcl_j5pb.Path{Path: strings}") is listed in "unknown" (per block) or
"fileUnknown"; the dependent obligations require both to be empty.
Order of "blocks" = order of the literal; convertBlocks keys a map by schemaName, so of two blocks
with the same schemaName the LATER one wins. A tag that is absent in the literal is "none";
RawTag.fieldName is "" when the literal does not give FieldName. -/
namespace J5V.Generated.Walkerspec

structure RawTag where
  fieldName : String
  bang : Option String
  question : Option String
  isBlock : Bool
  optional : Bool
  deriving Repr, DecidableEq

structure RawSplit where
  delimiter : Option String
  rightToLeft : Bool
  required : List (List String)
  optional : List (List String)
  remainder : Option (List String)
  deriving Repr, DecidableEq

structure RawBlock where
  schemaName : String
  name : Option RawTag
  typeSelect : Option RawTag
  qualifier : Option RawTag
  description : Option String
  aliases : List (String × List String)
  scalarSplit : Option RawSplit
  onlyExplicit : Bool
  unknown : List String
  deriving Repr, DecidableEq

`

func extractWalkerSpec(w *strings.Builder) error {
	fset, f, err := parseFile("internal/j5s/j5parse/schema.go")
	if err != nil {
		return err
	}
	r := &specReader{fset: fset}
	var fileUnknown []string
	var blocks []rawBlock

	// helper bclPath must be exactly `return &bcl_j5pb.Path{Path: strings}` with a variadic string parameter
	if fd := funcDecl(f, "bclPath"); fd == nil {
		fileUnknown = append(fileUnknown, "func bclPath not found")
	} else {
		body := src(fset, fd.Body)
		paramsOK := false
		if ps := fd.Type.Params; ps != nil && len(ps.List) == 1 && len(ps.List[0].Names) == 1 && ps.List[0].Names[0].Name == "strings" {
			if el, ok := ps.List[0].Type.(*ast.Ellipsis); ok && exprString(el.Elt) == "string" {
				paramsOK = true
			}
		}
		if body != "{ return &bcl_j5pb.Path{Path: strings} }" || !paramsOK || fd.Recv != nil {
			fileUnknown = append(fileUnknown, "func bclPath has an unexpected shape: "+body)
		}
	}

	found := false
	for _, d := range f.Decls {
		gd, ok := d.(*ast.GenDecl)
		if !ok || gd.Tok != token.VAR {
			continue
		}
		for _, sp := range gd.Specs {
			vs := sp.(*ast.ValueSpec)
			for i, n := range vs.Names {
				if n.Name != "J5SchemaSpec" {
					continue
				}
				found = true
				if i >= len(vs.Values) {
					fileUnknown = append(fileUnknown, "J5SchemaSpec has no initialiser")
					continue
				}
				cl, ok := lit(vs.Values[i], "bcl_j5pb.Schema")
				if !ok {
					fileUnknown = append(fileUnknown, "J5SchemaSpec is not a &bcl_j5pb.Schema literal")
					continue
				}
				for _, el := range cl.Elts {
					k, v, ok := kv(el)
					if !ok || k != "Blocks" {
						fileUnknown = append(fileUnknown, "Schema literal: unexpected element at "+r.where(el))
						continue
					}
					bl, ok := lit(v, "[]*bcl_j5pb.Block")
					if !ok {
						fileUnknown = append(fileUnknown, "Blocks is not a []*bcl_j5pb.Block literal")
						continue
					}
					for _, be := range bl.Elts {
						bcl, ok := lit(be, "bcl_j5pb.Block")
						if !ok {
							fileUnknown = append(fileUnknown, "Blocks element is not a literal at "+r.where(be))
							continue
						}
						blocks = append(blocks, r.block(bcl))
					}
				}
			}
		}
	}
	if !found {
		fileUnknown = append(fileUnknown, "var J5SchemaSpec not found")
	}
	// any assignment through J5SchemaSpec elsewhere in the file would make the literal a lie
	ast.Inspect(f, func(n ast.Node) bool {
		if as, ok := n.(*ast.AssignStmt); ok {
			for _, l := range as.Lhs {
				if strings.HasPrefix(exprString(l), "J5SchemaSpec") {
					fileUnknown = append(fileUnknown, "J5SchemaSpec is assigned to at "+r.where(as))
				}
			}
		}
		return true
	})

	w.WriteString(walkerSpecHeader)
	names := make([]string, len(blocks))
	for i, b := range blocks {
		names[i] = fmt.Sprintf("block%d", i)
		al := make([]string, len(b.aliases))
		for k, a := range b.aliases {
			al[k] = "(" + leanStr(a.name) + ", " + leanStrList(a.path) + ")"
		}
		split := "none"
		if b.split != nil {
			rem := "none"
			if b.split.remainder != nil {
				rem = "(some " + leanStrList(*b.split.remainder) + ")"
			}
			split = fmt.Sprintf("(some { delimiter := %s, rightToLeft := %s, required := %s, optional := %s, remainder := %s })",
				leanOptStr(b.split.delimiter), leanBool(b.split.rightToLeft), leanPathList(b.split.required), leanPathList(b.split.optional), rem)
		}
		fmt.Fprintf(w, "def %s : RawBlock :=\n  { schemaName := %s,\n    name := %s,\n    typeSelect := %s,\n    qualifier := %s,\n    description := %s,\n    aliases := [%s],\n    scalarSplit := %s,\n    onlyExplicit := %s,\n    unknown := %s }\n\n",
			names[i], leanStr(b.schemaName), leanTag(b.name), leanTag(b.typeSel), leanTag(b.qualif), leanOptStr(b.description),
			strings.Join(al, ", "), split, leanBool(b.onlyExplicit), leanStrList(b.unknown))
	}
	fmt.Fprintf(w, "def blocks : List RawBlock := [%s]\n\n", strings.Join(names, ", "))
	fmt.Fprintf(w, "/-- constructs of schema.go outside the blocks that the reader does not recognise -/\ndef fileUnknown : List String := %s\n\n", leanStrList(fileUnknown))
	fmt.Fprintf(w, "end J5V.Generated.Walkerspec\n")
	return nil
}

// ---------------------------------------------------------------------------------------------
// walkerschema

const walkerSchemaDumpProgram = `// walkerschema dump: the j5 schema closure of sourcedef_j5pb.SourceFile as the BCL walker sees it
// through j5reflect. Runs inside /repo (public packages only). Output: one record per line,
// fields separated by TAB, strings Go-quoted (%q).
package main

import (
	"fmt"
	"os"
	"sort"
	"strings"

	"github.com/iancoleman/strcase"
	"github.com/pentops/j5/gen/j5/schema/v1/schema_j5pb"
	"github.com/pentops/j5/gen/j5/sourcedef/v1/sourcedef_j5pb"
	"github.com/pentops/j5/lib/j5reflect"
	"github.com/pentops/j5/lib/j5schema"
	"google.golang.org/protobuf/reflect/protoreflect"
	"google.golang.org/protobuf/types/dynamicpb"
)

type hasProps interface {
	FullName() string
	ClientProperties() []*j5schema.ObjectProperty
}

var (
	seenSchema = map[string]bool{}
	seenEnum   = map[string]bool{}
	out        []string
	enumOut    []string
	refl       = j5reflect.New()
	problems   []string
)

func q(s string) string { return fmt.Sprintf("%q", s) }

func scalarKind(t schema_j5pb.IsField_Type) string {
	switch st := t.(type) {
	case *schema_j5pb.Field_String_:
		return "string"
	case *schema_j5pb.Field_Bool:
		return "bool"
	case *schema_j5pb.Field_Bytes:
		return "bytes"
	case *schema_j5pb.Field_Date:
		return "date"
	case *schema_j5pb.Field_Timestamp:
		return "timestamp"
	case *schema_j5pb.Field_Decimal:
		return "decimal"
	case *schema_j5pb.Field_Key:
		return "key"
	case *schema_j5pb.Field_Float:
		switch st.Float.Format {
		case schema_j5pb.FloatField_FORMAT_FLOAT32:
			return "float32"
		case schema_j5pb.FloatField_FORMAT_FLOAT64:
			return "float64"
		}
		return "?float"
	case *schema_j5pb.Field_Integer:
		switch st.Integer.Format {
		case schema_j5pb.IntegerField_FORMAT_INT32:
			return "int32"
		case schema_j5pb.IntegerField_FORMAT_INT64:
			return "int64"
		case schema_j5pb.IntegerField_FORMAT_UINT32:
			return "uint32"
		case schema_j5pb.IntegerField_FORMAT_UINT64:
			return "uint64"
		}
		return "?integer"
	}
	return fmt.Sprintf("?%T", t)
}

// fieldType prints the type expression and queues the schemas it refers to. md is the message
// descriptor of a message-typed field (nil otherwise), ed the enum descriptor.
func fieldType(fs j5schema.FieldSchema, fd protoreflect.FieldDescriptor) string {
	switch st := fs.(type) {
	case *j5schema.ObjectField:
		visit(st.Schema(), fd.Message())
		return "object " + q(st.Ref.FullName())
	case *j5schema.OneofField:
		if fd == nil {
			problems = append(problems, "exposed oneof wrapper "+st.Ref.FullName())
			return "oneof " + q(st.Ref.FullName())
		}
		visit(st.Schema(), fd.Message())
		return "oneof " + q(st.Ref.FullName())
	case *j5schema.EnumField:
		visitEnum(st.Schema())
		return "enum " + q(st.Ref.FullName())
	case *j5schema.AnyField:
		return "any"
	case *j5schema.ScalarSchema:
		return "scalar " + scalarKind(st.Proto.Type)
	case *j5schema.ArrayField:
		return "array (" + fieldType(st.Schema, fd) + ")"
	case *j5schema.MapField:
		return "map (" + fieldType(st.Schema, fd.MapValue()) + ")"
	}
	problems = append(problems, fmt.Sprintf("unknown field schema %T", fs))
	return "unknown"
}

func visitEnum(es *j5schema.EnumSchema) {
	name := es.FullName()
	if seenEnum[name] {
		return
	}
	seenEnum[name] = true
	var b strings.Builder
	fmt.Fprintf(&b, "E\t%s\t%s", q(name), q(es.NamePrefix))
	for _, o := range es.Options {
		fmt.Fprintf(&b, "\t%s\t%d", q(o.Name()), o.Number())
	}
	enumOut = append(enumOut, b.String())
}

func visit(s hasProps, md protoreflect.MessageDescriptor) {
	name := s.FullName()
	if seenSchema[name] {
		return
	}
	seenSchema[name] = true
	_, isOneof := s.(*j5schema.OneofSchema)
	idx := len(out)
	out = append(out, "") // reserve the slot: pre-order
	var b strings.Builder
	fmt.Fprintf(&b, "S\t%s\t%v\t%s", q(name), isOneof, q(string(md.FullName())))
	props := s.ClientProperties()

	// cross-check with what j5reflect reports for a message of this type
	var rNames []string
	var rReq []bool
	root, err := refl.NewRoot(dynamicpb.NewMessage(md))
	if err != nil {
		problems = append(problems, "NewRoot "+name+": "+err.Error())
	} else {
		if root.SchemaName() != name {
			problems = append(problems, "SchemaName "+root.SchemaName()+" != "+name)
		}
		_ = root.RangePropertySchemas(func(n string, required bool, _ *schema_j5pb.Field) error {
			rNames = append(rNames, n)
			rReq = append(rReq, required)
			return nil
		})
		if len(rNames) != len(props) {
			problems = append(problems, "property count differs for "+name)
		}
	}
	lines := []string{}
	for i, p := range props {
		if i < len(rNames) && (rNames[i] != p.JSONName || rReq[i] != p.Required) {
			problems = append(problems, "property order / required differs for "+name+"."+p.JSONName)
		}
		// resolve the proto path
		walk := md
		var fd protoreflect.FieldDescriptor
		var pathNames []string
		var nums []string
		for k, num := range p.ProtoField {
			fd = walk.Fields().ByNumber(num)
			if fd == nil {
				problems = append(problems, fmt.Sprintf("no field %d in %s", num, walk.FullName()))
				break
			}
			pathNames = append(pathNames, fd.JSONName())
			nums = append(nums, fmt.Sprint(int(num)))
			if k < len(p.ProtoField)-1 {
				walk = fd.Message()
			}
		}
		presence := false
		group := ""
		if fd != nil {
			presence = fd.HasPresence()
			if oo := fd.ContainingOneof(); oo != nil && !oo.IsSynthetic() {
				group = string(oo.FullName())
			}
		}
		single := ""
		hasSingle := false
		alias := ""
		hasAlias := false
		switch st := p.Schema.(type) {
		case *j5schema.ArrayField:
			if st.Ext != nil && st.Ext.SingleForm != nil {
				single, hasSingle = *st.Ext.SingleForm, true
			}
			if of, ok := st.Schema.(*j5schema.ObjectField); ok {
				// what arrayName() computes from the j5 field proto: the ref's schema name
				f := of.ToJ5Field().GetObject()
				n := ""
				if r := f.GetRef(); r != nil {
					n = r.Schema
				} else if in := f.GetObject(); in != nil {
					n = in.Name
				}
				alias, hasAlias = strcase.ToLowerCamel(n), true
			}
		case *j5schema.MapField:
			if st.Ext != nil && st.Ext.SingleForm != nil {
				single, hasSingle = *st.Ext.SingleForm, true
			}
		}
		opt := func(has bool, s string) string {
			if !has {
				return "none"
			}
			return q(s)
		}
		lines = append(lines, fmt.Sprintf("P\t%s\t%v\t%s\t%s\t%s\t%v\t%s\t%s\t%s",
			q(p.JSONName), p.Required, fieldType(p.Schema, fd), opt(hasSingle, single), opt(hasAlias, alias),
			presence, opt(group != "", group), strings.Join(pathNames, ","), strings.Join(nums, ",")))
	}
	out[idx] = b.String() + "\n" + strings.Join(lines, "\n")
}

func main() {
	msg := (&sourcedef_j5pb.SourceFile{}).ProtoReflect()
	cache := j5schema.NewSchemaCache()
	rootSchema, err := cache.Schema(msg.Descriptor())
	if err != nil {
		fmt.Fprintln(os.Stderr, err)
		os.Exit(1)
	}
	obj, ok := rootSchema.(*j5schema.ObjectSchema)
	if !ok {
		fmt.Fprintln(os.Stderr, "root is not an object")
		os.Exit(1)
	}
	// the walker's own root
	ro, err := refl.NewObject(msg)
	if err != nil {
		fmt.Fprintln(os.Stderr, err)
		os.Exit(1)
	}
	fmt.Printf("R\t%s\n", q(ro.SchemaName()))
	visit(obj, msg.Descriptor())
	for _, l := range out {
		fmt.Println(l)
	}
	sort.Strings(enumOut)
	for _, l := range enumOut {
		fmt.Println(l)
	}
	for _, p := range problems {
		fmt.Printf("X\t%s\n", q(p))
	}
}
`

func leanOptQ(s string) (string, error) {
	if s == "none" {
		return "none", nil
	}
	u, err := strconv.Unquote(s)
	if err != nil {
		return "", err
	}
	return "(some " + leanStr(u) + ")", nil
}

// leanFieldType converts the dump's type expression (object "x", array (scalar string), …).
func leanFieldType(s string) (string, error) {
	s = strings.TrimSpace(s)
	switch {
	case s == "any":
		return ".any", nil
	case s == "unknown":
		return ".unknown", nil
	case strings.HasPrefix(s, "scalar "):
		k := strings.TrimPrefix(s, "scalar ")
		switch k {
		case "string", "bool", "bytes", "date", "timestamp", "decimal", "float32", "float64", "int32", "int64", "uint32", "uint64", "key":
			return "(.scalar ." + k + ")", nil
		}
		return ".unknown", nil
	case strings.HasPrefix(s, "object "), strings.HasPrefix(s, "oneof "), strings.HasPrefix(s, "enum "):
		p := strings.SplitN(s, " ", 2)
		u, err := strconv.Unquote(p[1])
		if err != nil {
			return "", err
		}
		return "(." + p[0] + " " + leanStr(u) + ")", nil
	case strings.HasPrefix(s, "array (") && strings.HasSuffix(s, ")"):
		in, err := leanFieldType(s[len("array (") : len(s)-1])
		return "(.array " + in + ")", err
	case strings.HasPrefix(s, "map (") && strings.HasSuffix(s, ")"):
		in, err := leanFieldType(s[len("map (") : len(s)-1])
		return "(.map " + in + ")", err
	}
	return "", fmt.Errorf("unrecognised type expression %q", s)
}

const walkerSchemaHeader = `/-! The j5 schema closure of sourcedef_j5pb.SourceFile as the BCL walker sees it through
lib/j5reflect: dumped by a "go run" program inside the repository (public packages lib/j5schema,
lib/j5reflect, gen/j5/sourcedef/v1/sourcedef_j5pb). See harness/PROTOCOL-walker.md §6 and
notes/walker-semantics.md §7 for the meaning of every field.

* schemas: every object / oneof schema reachable from the root, in first-visit (pre-order) order;
  name is what SchemaName() returns; props are in RangePropertySchemas order (= ClientProperties:
  proto declaration order, flattened message fields expanded in place) - cross-checked by the dump
  program against a j5reflect root built over a dynamic message of the type (names, order, required).
* arrayAlias: for an array whose items are objects, strcase.ToLowerCamel of the item's ref schema
  name (what arrayName in schemaset.go computes: the automatic alias when there is no singleForm).
* presence: the final proto field has explicit presence (proto3 optional, message, member of a oneof).
* protoOneof: full name of the real (non-synthetic) proto oneof that contains the final proto field.
* protoPath / protoNumbers: JSON names / numbers of the proto fields from the schema's message to
  the property (more than one element = flattened). Only source locations depend on them; the walk
  result of PROTOCOL-walker.md does not.
* enums: option names with the enum's prefix already removed (what EnumOption.Name() returns), in
  declaration order. An enum attribute accepts the string s iff some option is named s, or else
  some option is named (s with "prefix" removed once from its front, if it starts with it).
* problems: anything the dump program could not represent; the obligations require it to be empty. -/
namespace J5V.Generated.Walkerschema

inductive ScalarKind where
  | string | bool | bytes | date | timestamp | decimal | float32 | float64 | int32 | int64 | uint32 | uint64 | key
  deriving Repr, DecidableEq

inductive FieldType where
  | object (ref : String)
  | oneof (ref : String)
  | enum (ref : String)
  | any
  | scalar (kind : ScalarKind)
  | array (item : FieldType)
  | map (item : FieldType)
  | unknown
  deriving Repr, DecidableEq

structure Property where
  name : String
  required : Bool
  type : FieldType
  singleForm : Option String
  arrayAlias : Option String
  presence : Bool
  protoOneof : Option String
  protoPath : List String
  protoNumbers : List Nat
  deriving Repr, DecidableEq

structure Schema where
  name : String
  isOneof : Bool
  protoName : String
  props : List Property
  deriving Repr, DecidableEq

structure EnumOption where
  name : String
  number : Int
  deriving Repr, DecidableEq

structure Enum where
  name : String
  «prefix» : String
  options : List EnumOption
  deriving Repr, DecidableEq

`

func extractWalkerSchema(w *strings.Builder) error {
	dir, err := os.MkdirTemp("", "j5v-walkerschema-")
	if err != nil {
		return err
	}
	defer os.RemoveAll(dir)
	progFile := filepath.Join(dir, "main.go")
	if err := os.WriteFile(progFile, []byte(walkerSchemaDumpProgram), 0o644); err != nil {
		return err
	}
	cmd := exec.Command("go", "run", progFile)
	cmd.Dir = repo
	cmd.Env = append(os.Environ(), "GOFLAGS=-mod=mod", "GOPROXY=off")
	out, err := cmd.Output()
	if err != nil {
		if ee, ok := err.(*exec.ExitError); ok {
			return fmt.Errorf("walkerschema dump: %v: %s", err, ee.Stderr)
		}
		return err
	}

	type schemaRec struct {
		name, proto string
		isOneof     bool
		props       []string
	}
	var root string
	var schemas []*schemaRec
	var enums []string
	var problems []string
	for _, line := range strings.Split(strings.TrimRight(string(out), "\n"), "\n") {
		if line == "" {
			continue // a schema without properties
		}
		f := strings.Split(line, "\t")
		switch f[0] {
		case "R":
			if root, err = strconv.Unquote(f[1]); err != nil {
				return err
			}
		case "S":
			if len(f) != 4 {
				return fmt.Errorf("bad S record %q", line)
			}
			n, err1 := strconv.Unquote(f[1])
			p, err2 := strconv.Unquote(f[3])
			if err1 != nil || err2 != nil {
				return fmt.Errorf("bad S record %q", line)
			}
			schemas = append(schemas, &schemaRec{name: n, proto: p, isOneof: f[2] == "true"})
		case "P":
			if len(f) != 10 || len(schemas) == 0 {
				return fmt.Errorf("bad P record %q", line)
			}
			name, err := strconv.Unquote(f[1])
			if err != nil {
				return err
			}
			ft, err := leanFieldType(f[3])
			if err != nil {
				return err
			}
			single, err := leanOptQ(f[4])
			if err != nil {
				return err
			}
			alias, err := leanOptQ(f[5])
			if err != nil {
				return err
			}
			group, err := leanOptQ(f[7])
			if err != nil {
				return err
			}
			var pathNames []string
			if f[8] != "" {
				pathNames = strings.Split(f[8], ",")
			}
			nums := "[]"
			if f[9] != "" {
				nums = "[" + strings.ReplaceAll(f[9], ",", ", ") + "]"
			}
			s := schemas[len(schemas)-1]
			s.props = append(s.props, fmt.Sprintf("{ name := %s, required := %s, type := %s, singleForm := %s, arrayAlias := %s, presence := %s, protoOneof := %s, protoPath := %s, protoNumbers := %s }",
				leanStr(name), f[2], ft, single, alias, f[6], group, leanStrList(pathNames), nums))
		case "E":
			if len(f) < 3 || (len(f)-3)%2 != 0 {
				return fmt.Errorf("bad E record %q", line)
			}
			n, err1 := strconv.Unquote(f[1])
			p, err2 := strconv.Unquote(f[2])
			if err1 != nil || err2 != nil {
				return fmt.Errorf("bad E record %q", line)
			}
			var opts []string
			for i := 3; i < len(f); i += 2 {
				on, err := strconv.Unquote(f[i])
				if err != nil {
					return err
				}
				num := f[i+1]
				if strings.HasPrefix(num, "-") {
					num = "(" + num + ")"
				}
				opts = append(opts, fmt.Sprintf("{ name := %s, number := %s }", leanStr(on), num))
			}
			enums = append(enums, fmt.Sprintf("{ name := %s, «prefix» := %s, options := [%s] }", leanStr(n), leanStr(p), strings.Join(opts, ", ")))
		case "X":
			u, _ := strconv.Unquote(f[1])
			problems = append(problems, u)
		default:
			return fmt.Errorf("unexpected dump line %q", line)
		}
	}
	if root == "" || len(schemas) == 0 {
		return fmt.Errorf("walkerschema dump: empty output")
	}

	w.WriteString(walkerSchemaHeader)
	fmt.Fprintf(w, "def rootSchema : String := %s\n\n", leanStr(root))
	names := make([]string, len(schemas))
	for i, s := range schemas {
		names[i] = fmt.Sprintf("schema%d", i)
		fmt.Fprintf(w, "def %s : Schema :=\n  { name := %s, isOneof := %s, protoName := %s,\n    props := [\n      %s] }\n\n",
			names[i], leanStr(s.name), leanBool(s.isOneof), leanStr(s.proto), strings.Join(s.props, ",\n      "))
	}
	fmt.Fprintf(w, "def schemas : List Schema := [%s]\n\n", strings.Join(names, ", "))
	fmt.Fprintf(w, "def enums : List Enum := [\n  %s]\n\n", strings.Join(enums, ",\n  "))
	fmt.Fprintf(w, "def problems : List String := %s\n\n", leanStrList(problems))
	fmt.Fprintf(w, "end J5V.Generated.Walkerschema\n")
	return nil
}
