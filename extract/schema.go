package main

import (
	"fmt"
	"go/ast"
	"go/token"
	"sort"
	"strings"
)

// E10 (field copy) and E6-schema (type-switch coverage) for the schema cluster (C15, C18).
//
// E10: every composite literal of a schema_j5pb message built by the exporters
// (lib/j5schema/root_schema.go, field_schema.go) and every composite literal of a j5schema struct
// built by the importers (schema_from_desc.go), with the text of each key's value. The obligation
// in Props/C15.lean: every key an exporter writes is paired with a j5schema field, and every
// importer literal of that struct sets the field from the paired descriptor field.
//
// E6-schema: the case lists of the type switches of schema_from_desc.go / schema_set.go /
// field_base.go and the members of the oneofs of schema.pb.go they must cover.
func init() { extractors["schema"] = extractSchema }

type litFact struct {
	fn   string
	typ  string
	keys [][2]string
}

func recvName(fd *ast.FuncDecl) string {
	if fd.Recv == nil || len(fd.Recv.List) == 0 {
		return fd.Name.Name
	}
	t := fd.Recv.List[0].Type
	if st, ok := t.(*ast.StarExpr); ok {
		t = st.X
	}
	return exprString(t) + "." + fd.Name.Name
}

// exprText renders an expression as compact source-like text (calls keep their arguments).
func exprText(e ast.Expr) string {
	switch x := e.(type) {
	case *ast.CallExpr:
		args := make([]string, len(x.Args))
		for i, a := range x.Args {
			args[i] = exprText(a)
		}
		return exprText(x.Fun) + "(" + strings.Join(args, ",") + ")"
	case *ast.IndexExpr:
		return exprText(x.X)
	case *ast.IndexListExpr:
		return exprText(x.X)
	case *ast.SelectorExpr:
		return exprText(x.X) + "." + x.Sel.Name
	case *ast.UnaryExpr:
		return x.Op.String() + exprText(x.X)
	case *ast.CompositeLit:
		return exprText(x.Type) + "{…}"
	case *ast.Ident:
		return x.Name
	case *ast.BasicLit:
		return x.Value
	case *ast.StarExpr:
		return "*" + exprText(x.X)
	}
	return exprString(e)
}

func collectLits(f *ast.File, wantPkgPrefix bool, out *[]litFact) {
	for _, d := range f.Decls {
		fd, ok := d.(*ast.FuncDecl)
		if !ok || fd.Body == nil {
			continue
		}
		name := recvName(fd)
		ast.Inspect(fd.Body, func(n ast.Node) bool {
			cl, ok := n.(*ast.CompositeLit)
			if !ok || cl.Type == nil {
				return true
			}
			typ := exprString(cl.Type)
			isD := strings.HasPrefix(typ, "schema_j5pb.")
			if wantPkgPrefix != isD {
				return true
			}
			if !wantPkgPrefix {
				// j5schema structs only (identifiers starting with an upper-case letter or rootSchema)
				if strings.Contains(typ, ".") || strings.HasPrefix(typ, "[]") || strings.HasPrefix(typ, "map") {
					return true
				}
			}
			lf := litFact{fn: name, typ: strings.TrimPrefix(typ, "schema_j5pb.")}
			for _, el := range cl.Elts {
				kv, ok := el.(*ast.KeyValueExpr)
				if !ok {
					lf.keys = append(lf.keys, [2]string{"<positional>", exprText(el)})
					continue
				}
				lf.keys = append(lf.keys, [2]string{exprString(kv.Key), exprText(kv.Value)})
			}
			*out = append(*out, lf)
			return true
		})
	}
}

func extractSchema(w *strings.Builder) error {
	var exportLits, importLits []litFact
	for _, rel := range []string{"lib/j5schema/root_schema.go", "lib/j5schema/field_schema.go"} {
		_, f, err := parseFile(rel)
		if err != nil {
			return err
		}
		collectLits(f, true, &exportLits)
	}
	_, fd, err := parseFile("lib/j5schema/schema_from_desc.go")
	if err != nil {
		return err
	}
	collectLits(fd, false, &importLits)

	// selector reads per importer function
	reads := map[string]map[string]bool{}
	for _, d := range fd.Decls {
		fn, ok := d.(*ast.FuncDecl)
		if !ok || fn.Body == nil {
			continue
		}
		name := recvName(fn)
		reads[name] = map[string]bool{}
		ast.Inspect(fn.Body, func(n ast.Node) bool {
			if se, ok := n.(*ast.SelectorExpr); ok {
				reads[name][exprText(se)] = true
			}
			return true
		})
	}

	// type switches
	type sw struct {
		fn, subject string
		cases       []string
	}
	var switches []sw
	for _, rel := range []string{"lib/j5schema/schema_from_desc.go", "lib/j5schema/schema_set.go", "lib/j5schema/field_base.go", "lib/j5schema/schema_walk.go"} {
		_, f, err := parseFile(rel)
		if err != nil {
			return err
		}
		for _, d := range f.Decls {
			fn, ok := d.(*ast.FuncDecl)
			if !ok || fn.Body == nil {
				continue
			}
			name := recvName(fn)
			ast.Inspect(fn.Body, func(n ast.Node) bool {
				ts, ok := n.(*ast.TypeSwitchStmt)
				if !ok {
					return true
				}
				subject := "<unknown>"
				switch a := ts.Assign.(type) {
				case *ast.AssignStmt:
					if ta, ok := a.Rhs[0].(*ast.TypeAssertExpr); ok {
						subject = exprText(ta.X)
					}
				case *ast.ExprStmt:
					if ta, ok := a.X.(*ast.TypeAssertExpr); ok {
						subject = exprText(ta.X)
					}
				}
				s := sw{fn: name, subject: subject}
				for _, c := range ts.Body.List {
					cc := c.(*ast.CaseClause)
					if cc.List == nil {
						s.cases = append(s.cases, "default")
					}
					for _, t := range cc.List {
						s.cases = append(s.cases, strings.TrimPrefix(strings.TrimPrefix(exprString(t), "*"), "schema_j5pb."))
					}
				}
				switches = append(switches, s)
				return true
			})
		}
	}

	// oneof members: types with a method isX() in schema.pb.go
	_, pb, err := parseFile("gen/j5/schema/v1/schema_j5pb/schema.pb.go")
	if err != nil {
		return err
	}
	members := map[string][]string{}
	for _, d := range pb.Decls {
		fn, ok := d.(*ast.FuncDecl)
		if !ok || fn.Recv == nil || !strings.HasPrefix(fn.Name.Name, "is") || fn.Type.Params.NumFields() != 0 {
			continue
		}
		if fn.Body == nil || len(fn.Body.List) != 0 {
			continue
		}
		t := fn.Recv.List[0].Type
		if st, ok := t.(*ast.StarExpr); ok {
			t = st.X
		}
		members[fn.Name.Name] = append(members[fn.Name.Name], exprString(t))
	}
	// FieldSchema implementations: types with a ToJ5Field method
	var fieldImpls []string
	for _, rel := range []string{"lib/j5schema/field_schema.go"} {
		_, f, err := parseFile(rel)
		if err != nil {
			return err
		}
		for _, d := range f.Decls {
			fn, ok := d.(*ast.FuncDecl)
			if ok && fn.Recv != nil && fn.Name.Name == "ToJ5Field" {
				fieldImpls = append(fieldImpls, strings.Split(recvName(fn), ".")[0])
			}
		}
	}
	sort.Strings(fieldImpls)

	// value switches of the reader: `switch src.Kind()` in buildSchema / buildScalarType and the
	// full-name switch of wktSchema (case groups, in source order)
	type vsw struct {
		fn, subject string
		groups     [][]string
	}
	var valueSwitches []vsw
	if _, rf, err := parseFile("lib/j5schema/schema_from_proto.go"); err == nil {
		for _, d := range rf.Decls {
			fn, ok := d.(*ast.FuncDecl)
			if !ok || fn.Body == nil {
				continue
			}
			name := recvName(fn)
			if name != "Package.buildSchema" && name != "buildScalarType" && name != "wktSchema" {
				continue
			}
			ast.Inspect(fn.Body, func(n ast.Node) bool {
				ss, ok := n.(*ast.SwitchStmt)
				if !ok || ss.Tag == nil {
					return true
				}
				subj := exprText(ss.Tag)
				if subj != "src.Kind()" && subj != "string(fullName)" {
					return true
				}
				v := vsw{fn: name, subject: subj}
				for _, c := range ss.Body.List {
					cc := c.(*ast.CaseClause)
					if cc.List == nil {
						v.groups = append(v.groups, []string{"default"})
						continue
					}
					var g []string
					for _, e := range cc.List {
						t := exprText(e)
						if u, ok := unquote(t); ok {
							t = u
						}
						g = append(g, strings.TrimPrefix(t, "protoreflect."))
					}
					v.groups = append(v.groups, g)
				}
				valueSwitches = append(valueSwitches, v)
				return true
			})
		}
	} else {
		return err
	}

	lits := func(name string, xs []litFact) {
		fmt.Fprintf(w, "def %s : List (String × String × List (String × String)) := [\n", name)
		for i, l := range xs {
			kv := make([]string, len(l.keys))
			for j, k := range l.keys {
				kv[j] = "(" + leanStr(k[0]) + ", " + leanStr(k[1]) + ")"
			}
			sep := ","
			if i == len(xs)-1 {
				sep = ""
			}
			fmt.Fprintf(w, "  (%s, %s, [%s])%s\n", leanStr(l.fn), leanStr(l.typ), strings.Join(kv, ", "), sep)
		}
		fmt.Fprintf(w, "]\n")
	}
	fmt.Fprintf(w, "namespace J5V.Generated.Schema\n")
	lits("exportLits", exportLits)
	lits("importLits", importLits)
	fmt.Fprintf(w, "def importReads : List (String × List String) := [\n")
	fns := sortedKeys(reads)
	for i, fn := range fns {
		sep := ","
		if i == len(fns)-1 {
			sep = ""
		}
		fmt.Fprintf(w, "  (%s, %s)%s\n", leanStr(fn), leanStrList(sortedKeys(reads[fn])), sep)
	}
	fmt.Fprintf(w, "]\n")
	fmt.Fprintf(w, "def typeSwitches : List (String × String × List String) := [\n")
	for i, s := range switches {
		sep := ","
		if i == len(switches)-1 {
			sep = ""
		}
		fmt.Fprintf(w, "  (%s, %s, %s)%s\n", leanStr(s.fn), leanStr(s.subject), leanStrList(s.cases), sep)
	}
	fmt.Fprintf(w, "]\n")
	fmt.Fprintf(w, "def oneofMembers : List (String × List String) := [\n")
	ms := sortedKeys(members)
	for i, m := range ms {
		sort.Strings(members[m])
		sep := ","
		if i == len(ms)-1 {
			sep = ""
		}
		fmt.Fprintf(w, "  (%s, %s)%s\n", leanStr(m), leanStrList(members[m]), sep)
	}
	fmt.Fprintf(w, "]\n")
	fmt.Fprintf(w, "def fieldSchemaImpls : List String := %s\n", leanStrList(fieldImpls))
	fmt.Fprintf(w, "def readerSwitches : List (String × String × List (List String)) := [\n")
	for i, v := range valueSwitches {
		gs := make([]string, len(v.groups))
		for j, g := range v.groups {
			gs[j] = leanStrList(g)
		}
		sep := ","
		if i == len(valueSwitches)-1 {
			sep = ""
		}
		fmt.Fprintf(w, "  (%s, %s, [%s])%s\n", leanStr(v.fn), leanStr(v.subject), strings.Join(gs, ", "), sep)
	}
	fmt.Fprintf(w, "]\n")
	fmt.Fprintf(w, "end J5V.Generated.Schema\n")
	_ = token.NoPos
	return nil
}
