package main

import (
	"bytes"
	"fmt"
	"go/ast"
	"go/printer"
	"go/token"
	"os"
	"os/exec"
	"path/filepath"
	"strings"
)

// E1 (bcltokens): the token tables of internal/bcl/internal/parser/token.go and the shape of the few
// small functions the BCL theorems lean on (lexEscape, the operator lookup in NextToken, the End
// assignment of every walkStatement exit, tokenSource / quoteString, the FmtDiffs conditions, the word
// split of reformatDescription), as source text. Obligations over these facts live in Props/C11|C09|C19.
//
// E2 (bclunicode): classification of the ASCII range by the unicode / strconv packages of the
// toolchain that /repo builds with (go run inside /repo), for `decide`-able hypotheses such as
// "no operator rune is a letter". The full range tables go to the driver through unicode.tbl.
func init() {
	extractors["bcltokens"] = extractBclTokens
	extractors["bclunicode"] = extractBclUnicode
}

const parserDir = "internal/bcl/internal/parser/"

func src(fset *token.FileSet, n any) string {
	if n == nil {
		return "<nil>"
	}
	var b bytes.Buffer
	if err := printer.Fprint(&b, fset, n); err != nil {
		return "<unknown>"
	}
	return strings.Join(strings.Fields(b.String()), " ")
}

func leanPairs(ps [][2]string) string {
	q := make([]string, len(ps))
	for i, p := range ps {
		q[i] = "(" + leanStr(p[0]) + ", " + leanStr(p[1]) + ")"
	}
	return "[" + strings.Join(q, ", ") + "]"
}

func leanBoolPairs(ps []struct {
	k string
	v bool
}) string {
	q := make([]string, len(ps))
	for i, p := range ps {
		q[i] = "(" + leanStr(p.k) + ", " + leanBool(p.v) + ")"
	}
	return "[" + strings.Join(q, ", ") + "]"
}

func caseLabel(fset *token.FileSet, cc *ast.CaseClause) string {
	if cc.List == nil {
		return "default"
	}
	parts := make([]string, len(cc.List))
	for i, e := range cc.List {
		parts[i] = src(fset, e)
	}
	return strings.Join(parts, ", ")
}

func methodDecl(f *ast.File, name string) *ast.FuncDecl { return funcDecl(f, name) }

func between(consts []string, lo, hi string) []string {
	a, b := -1, -1
	for i, c := range consts {
		if c == lo {
			a = i
		}
		if c == hi {
			b = i
		}
	}
	if a < 0 || b < 0 || b < a {
		return []string{"<unknown>"}
	}
	return append([]string{}, consts[a+1:b]...)
}

func extractBclTokens(w *strings.Builder) error {
	// ---- token.go
	fset, f, err := parseFile(parserDir + "token.go")
	if err != nil {
		return err
	}
	var consts []string
	var table [][2]string
	for _, d := range f.Decls {
		gd, ok := d.(*ast.GenDecl)
		if !ok {
			continue
		}
		if gd.Tok == token.CONST && len(gd.Specs) > 0 {
			first := gd.Specs[0].(*ast.ValueSpec)
			if len(first.Names) == 1 && first.Names[0].Name == "INVALID" {
				for _, sp := range gd.Specs {
					vs := sp.(*ast.ValueSpec)
					for _, n := range vs.Names {
						consts = append(consts, n.Name)
					}
					if vs != first && len(vs.Values) > 0 {
						consts = append(consts, "<unknown:explicit value>")
					}
				}
			}
		}
		if gd.Tok == token.VAR {
			for _, sp := range gd.Specs {
				vs := sp.(*ast.ValueSpec)
				if len(vs.Names) == 1 && vs.Names[0].Name == "tokens" && len(vs.Values) == 1 {
					cl, ok := vs.Values[0].(*ast.CompositeLit)
					if !ok {
						table = append(table, [2]string{"<unknown>", "<unknown>"})
						continue
					}
					for _, el := range cl.Elts {
						kv, ok := el.(*ast.KeyValueExpr)
						if !ok {
							table = append(table, [2]string{"<unknown>", src(fset, el)})
							continue
						}
						val := "<unknown>"
						if bl, ok := kv.Value.(*ast.BasicLit); ok {
							if s, ok := unquote(bl.Value); ok {
								val = s
							}
						}
						table = append(table, [2]string{src(fset, kv.Key), val})
					}
				}
			}
		}
	}
	lookup := map[string]string{}
	for _, p := range table {
		lookup[p[0]] = p[1]
	}
	var ops [][2]string
	for _, c := range between(consts, "operator_beg", "operator_end") {
		s, ok := lookup[c]
		if !ok {
			s = "<unknown>"
		}
		ops = append(ops, [2]string{c, s})
	}
	opInit := "<unknown>"
	if fd := funcDecl(f, "init"); fd != nil {
		ast.Inspect(fd.Body, func(n ast.Node) bool {
			if as, ok := n.(*ast.AssignStmt); ok && len(as.Lhs) == 1 {
				if ix, ok := as.Lhs[0].(*ast.IndexExpr); ok && src(fset, ix.X) == "operators" {
					opInit = src(fset, as)
				}
			}
			return true
		})
	}
	var startTag []string
	if fd := funcDecl(f, "CanStartTag"); fd != nil {
		ast.Inspect(fd.Body, func(n ast.Node) bool {
			if be, ok := n.(*ast.BinaryExpr); ok && be.Op == token.EQL {
				startTag = append(startTag, src(fset, be.Y))
			}
			return true
		})
	} else {
		startTag = []string{"<unknown>"}
	}
	isLit, isOp := "<unknown>", "<unknown>"
	if fd := funcDecl(f, "IsLiteral"); fd != nil && len(fd.Body.List) == 1 {
		isLit = src(fset, fd.Body.List[0])
	}
	if fd := funcDecl(f, "IsOperator"); fd != nil && len(fd.Body.List) == 1 {
		isOp = src(fset, fd.Body.List[0])
	}

	// ---- lexer.go
	lfset, lf, err := parseFile(parserDir + "lexer.go")
	if err != nil {
		return err
	}
	var escCases []string
	if fd := funcDecl(lf, "lexEscape"); fd != nil {
		ast.Inspect(fd.Body, func(n ast.Node) bool {
			if cc, ok := n.(*ast.CaseClause); ok {
				escCases = append(escCases, caseLabel(lfset, cc))
			}
			return true
		})
	} else {
		escCases = []string{"<unknown>"}
	}
	var prelude, ntCases []string
	if fd := funcDecl(lf, "NextToken"); fd != nil {
		ast.Inspect(fd.Body, func(n ast.Node) bool {
			fs, ok := n.(*ast.ForStmt)
			if !ok || prelude != nil {
				return true
			}
			for _, st := range fs.Body.List {
				if sw, ok := st.(*ast.SwitchStmt); ok {
					for _, c := range sw.Body.List {
						ntCases = append(ntCases, caseLabel(lfset, c.(*ast.CaseClause)))
					}
					break
				}
				switch x := st.(type) {
				case *ast.IfStmt:
					hd := "if "
					if x.Init != nil {
						hd += src(lfset, x.Init) + "; "
					}
					prelude = append(prelude, hd+src(lfset, x.Cond)+" => "+src(lfset, x.Body.List[len(x.Body.List)-1]))
				default:
					prelude = append(prelude, src(lfset, st))
				}
			}
			return false
		})
	}
	if prelude == nil {
		prelude = []string{"<unknown>"}
	}
	nextBody := "<unknown>"
	if fd := funcDecl(lf, "next"); fd != nil {
		nextBody = src(lfset, fd.Body)
	}

	// ---- parser.go
	pfset, pf, err := parseFile(parserDir + "parser.go")
	if err != nil {
		return err
	}
	type kb = struct {
		k string
		v bool
	}
	var endSet []kb
	if fd := funcDecl(pf, "walkStatement"); fd != nil {
		var last *ast.SwitchStmt
		for _, st := range fd.Body.List {
			if sw, ok := st.(*ast.SwitchStmt); ok {
				last = sw
			}
		}
		if last != nil {
			for _, c := range last.Body.List {
				cc := c.(*ast.CaseClause)
				sets, returnsHdr := false, false
				ast.Inspect(cc, func(n ast.Node) bool {
					switch x := n.(type) {
					case *ast.AssignStmt:
						for _, l := range x.Lhs {
							if src(pfset, l) == "hdr.End" {
								sets = true
							}
						}
					case *ast.ReturnStmt:
						if len(x.Results) > 0 && src(pfset, x.Results[0]) == "hdr" {
							returnsHdr = true
						}
					}
					return true
				})
				// an exit that returns the header must have set its End
				endSet = append(endSet, kb{caseLabel(pfset, cc), sets || !returnsHdr})
			}
		}
	}
	if endSet == nil {
		endSet = []kb{{"<unknown>", false}}
	}
	var fragCases []string
	if fd := funcDecl(pf, "nextFragment"); fd != nil {
		ast.Inspect(fd.Body, func(n ast.Node) bool {
			if sw, ok := n.(*ast.SwitchStmt); ok && fragCases == nil {
				for _, c := range sw.Body.List {
					fragCases = append(fragCases, caseLabel(pfset, c.(*ast.CaseClause)))
				}
				return false
			}
			return true
		})
	}
	popTokenBody := "<unknown>"
	if fd := funcDecl(pf, "popToken"); fd != nil {
		popTokenBody = src(pfset, fd.Body)
	}

	// ---- fmt.go
	ffset, ff, err := parseFile(parserDir + "fmt.go")
	if err != nil {
		return err
	}
	var tsCases [][2]string
	if fd := funcDecl(ff, "tokenSource"); fd != nil {
		for _, st := range fd.Body.List {
			switch x := st.(type) {
			case *ast.SwitchStmt:
				for _, c := range x.Body.List {
					cc := c.(*ast.CaseClause)
					body := "<unknown>"
					if len(cc.Body) == 1 {
						if rs, ok := cc.Body[0].(*ast.ReturnStmt); ok && len(rs.Results) == 1 {
							body = src(ffset, rs.Results[0])
						}
					}
					tsCases = append(tsCases, [2]string{caseLabel(ffset, cc), body})
				}
			case *ast.ReturnStmt:
				tsCases = append(tsCases, [2]string{"otherwise", src(ffset, x.Results[0])})
			default:
				tsCases = append(tsCases, [2]string{"<unknown>", src(ffset, st)})
			}
		}
	} else {
		tsCases = [][2]string{{"<unknown>", "<unknown>"}}
	}
	quoteBody := "<unknown>"
	if fd := funcDecl(ff, "quoteString"); fd != nil {
		quoteBody = src(ffset, fd.Body)
	}
	var diffConds []string
	if fd := funcDecl(ff, "FmtDiffs"); fd != nil {
		ast.Inspect(fd.Body, func(n ast.Node) bool {
			if is, ok := n.(*ast.IfStmt); ok {
				c := src(ffset, is.Cond)
				if is.Init != nil {
					c = src(ffset, is.Init) + "; " + c
				}
				diffConds = append(diffConds, c)
			}
			return true
		})
	} else {
		diffConds = []string{"<unknown>"}
	}
	fmtBody, rangeLines := "<unknown>", "<unknown>"
	if fd := funcDecl(ff, "Fmt"); fd != nil {
		fmtBody = src(ffset, fd.Body)
	}
	if fd := funcDecl(ff, "rangeLines"); fd != nil {
		rangeLines = src(ffset, fd.Body)
	}

	// ---- description.go
	dfset, df, err := parseFile(parserDir + "description.go")
	if err != nil {
		return err
	}
	wordSplit := "<unknown>"
	var descConds []string
	if fd := funcDecl(df, "reformatDescription"); fd != nil {
		ast.Inspect(fd.Body, func(n ast.Node) bool {
			switch x := n.(type) {
			case *ast.AssignStmt:
				if len(x.Lhs) == 1 && src(dfset, x.Lhs[0]) == "words" {
					wordSplit = src(dfset, x.Rhs[0])
				}
			case *ast.IfStmt:
				descConds = append(descConds, src(dfset, x.Cond))
			}
			return true
		})
	}

	fmt.Fprintf(w, "namespace J5V.Generated.Bcltokens\n")
	fmt.Fprintf(w, "/-- token.go: the TokenType const block, in iota order -/\ndef tokenConsts : List String := %s\n", leanStrList(consts))
	fmt.Fprintf(w, "/-- token.go: the `tokens` table (const ↦ string) -/\ndef tokenStrings : List (String × String) := %s\n", leanPairs(table))
	fmt.Fprintf(w, "/-- consts strictly between operator_beg and operator_end with their table string (what init() turns into `operators`) -/\ndef operatorChars : List (String × String) := %s\n", leanPairs(ops))
	fmt.Fprintf(w, "def operatorsInit : String := %s\n", leanStr(opInit))
	fmt.Fprintf(w, "def literalKinds : List String := %s\n", leanStrList(between(consts, "literal_beg", "literal_end")))
	fmt.Fprintf(w, "def keywordKinds : List String := %s\n", leanStrList(between(consts, "keyword_beg", "keyword_end")))
	fmt.Fprintf(w, "def isLiteralBody : String := %s\n", leanStr(isLit))
	fmt.Fprintf(w, "def isOperatorBody : String := %s\n", leanStr(isOp))
	fmt.Fprintf(w, "def canStartTag : List String := %s\n", leanStrList(startTag))
	fmt.Fprintf(w, "/-- lexer.go lexEscape: case labels of its switch -/\ndef lexEscapeCases : List String := %s\n", leanStrList(escCases))
	fmt.Fprintf(w, "/-- lexer.go NextToken: statements of the loop body before the switch on l.ch -/\ndef nextTokenPrelude : List String := %s\n", leanStrList(prelude))
	fmt.Fprintf(w, "def nextTokenCases : List String := %s\n", leanStrList(ntCases))
	fmt.Fprintf(w, "def lexerNextBody : String := %s\n", leanStr(nextBody))
	fmt.Fprintf(w, "/-- parser.go walkStatement: per exit of the final switch, whether a returned header has its End assigned -/\ndef walkStatementEndSet : List (String × Bool) := %s\n", leanBoolPairs(endSet))
	fmt.Fprintf(w, "def nextFragmentCases : List String := %s\n", leanStrList(fragCases))
	fmt.Fprintf(w, "def popTokenBody : String := %s\n", leanStr(popTokenBody))
	fmt.Fprintf(w, "/-- fmt.go tokenSource: (case, returned expression) -/\ndef tokenSourceCases : List (String × String) := %s\n", leanPairs(tsCases))
	fmt.Fprintf(w, "def quoteStringBody : String := %s\n", leanStr(quoteBody))
	fmt.Fprintf(w, "/-- fmt.go FmtDiffs: every if-condition, in source order -/\ndef fmtDiffsConds : List String := %s\n", leanStrList(diffConds))
	fmt.Fprintf(w, "def fmtBody : String := %s\n", leanStr(fmtBody))
	fmt.Fprintf(w, "def rangeLinesBody : String := %s\n", leanStr(rangeLines))
	fmt.Fprintf(w, "/-- description.go reformatDescription -/\ndef descriptionWordSplit : String := %s\n", leanStr(wordSplit))
	fmt.Fprintf(w, "def descriptionConds : List String := %s\n", leanStrList(descConds))
	fmt.Fprintf(w, "end J5V.Generated.Bcltokens\n")
	return nil
}

const unicodeDumpProgram = `package main

import (
	"fmt"
	"runtime"
	"strconv"
	"unicode"
)

func count(pred func(rune) bool) (n, ranges int) {
	prev := false
	for r := rune(0); r <= unicode.MaxRune; r++ {
		in := pred(r)
		if in {
			n++
			if !prev {
				ranges++
			}
		}
		prev = in
	}
	return
}

func main() {
	fmt.Println(runtime.Version())
	for r := rune(0); r < 128; r++ {
		c := 0
		if unicode.IsSpace(r) {
			c |= 1
		}
		if unicode.IsDigit(r) {
			c |= 2
		}
		if unicode.IsLetter(r) {
			c |= 4
		}
		if strconv.IsPrint(r) {
			c |= 8
		}
		fmt.Println(c)
	}
	for _, p := range []func(rune) bool{unicode.IsSpace, unicode.IsDigit, unicode.IsLetter, strconv.IsPrint} {
		n, rs := count(p)
		fmt.Println(n, rs)
	}
}
`

func extractBclUnicode(w *strings.Builder) error {
	dir, err := os.MkdirTemp("", "j5v-unicodedump-")
	if err != nil {
		return err
	}
	defer os.RemoveAll(dir)
	prog := filepath.Join(dir, "main.go")
	if err := os.WriteFile(prog, []byte(unicodeDumpProgram), 0o644); err != nil {
		return err
	}
	cmd := exec.Command("go", "run", prog)
	cmd.Dir = repo // the toolchain /repo builds with
	cmd.Env = append(os.Environ(), "GOFLAGS=-mod=mod", "GOPROXY=off")
	out, err := cmd.Output()
	if err != nil {
		if ee, ok := err.(*exec.ExitError); ok {
			return fmt.Errorf("unicode dump: %v: %s", err, ee.Stderr)
		}
		return err
	}
	lines := strings.Split(strings.TrimSpace(string(out)), "\n")
	if len(lines) != 1+128+4 {
		return fmt.Errorf("unicode dump: unexpected output (%d lines)", len(lines))
	}
	fmt.Fprintf(w, "namespace J5V.Generated.Bclunicode\n")
	fmt.Fprintf(w, "def goVersion : String := %s\n", leanStr(lines[0]))
	fmt.Fprintf(w, "/-- class bits of U+0000…U+007F: 1 = unicode.IsSpace, 2 = unicode.IsDigit, 4 = unicode.IsLetter, 8 = strconv.IsPrint -/\n")
	fmt.Fprintf(w, "def asciiClass : List Nat := [%s]\n", strings.Join(lines[1:129], ", "))
	names := []string{"space", "digit", "letter", "print"}
	for i, n := range names {
		var cnt, rs int
		fmt.Sscan(lines[129+i], &cnt, &rs)
		fmt.Fprintf(w, "def %sCount : Nat := %d\ndef %sRanges : Nat := %d\n", n, cnt, n, rs)
	}
	fmt.Fprintf(w, "end J5V.Generated.Bclunicode\n")
	return nil
}
