package main

import (
	"fmt"
	"go/ast"
	"go/token"
	"regexp"
	"sort"
	"strings"
)

// E4/E6 for the rules cluster (C04, C12): what the writer (internal/j5s/j5convert/fields.go:
// buildProperty / buildField) reads from the j5 schema and writes into the validate / ext / list
// options, and what the reader (lib/j5schema/schema_from_proto.go) reads from those options and
// sets in the schema — per branch, with the guards (enclosing conditions / case clauses) of every
// copy. Local aliases (`constraint := ext.validate.GetInt32()`, `switch cType := x.(type)`) are
// expanded, so that every read is spelled from a fixed root: `st.` / `node.` (writer),
// `ext.` / `GetExtension(<ext>)` (reader). Variables holding a message are spelled by the
// message's type name (`rules := &validate.FieldConstraints{}` -> `FieldConstraints`).
//
// The obligations (Props/C04.lean, Props/C12.lean) pair the two tables through hand-written slot
// tables (J5V/Rules/SrcFacts.lean); a construct this extractor does not recognise produces a text
// those tables do not contain, so the obligation fails.
func init() { extractors["rules"] = extractRules }

type copyFact struct {
	unit, target, src, text string
	guards                  []string
}

type rwWalker struct {
	fn       string
	unit     string
	env      map[string]string
	guards   []string
	reads    map[string]map[string]bool
	units    []string
	copies   []copyFact
	tracked  func(string) bool
	litType  func(string) (string, bool) // composite literal types whose keys are recorded
	killed   map[string]int              // locals re-assigned at scope depth k: their alias is void in every scope shallower than k
	depth    int
	returns  map[string]bool // functions whose return statements are recorded as copies to `return`
	reader   bool
	rootMode bool // writer, conversion.go: visitObjectNode / visitOneofNode (sources are `node.…`)
}

func trimPkg(s string) string {
	s = strings.TrimPrefix(s, "*")
	s = strings.TrimPrefix(s, "&")
	if i := strings.LastIndex(s, "."); i >= 0 {
		return s[i+1:]
	}
	return s
}

func (r *rwWalker) setUnit(u string) {
	r.unit = u
	if _, ok := r.reads[u]; !ok {
		r.reads[u] = map[string]bool{}
		r.units = append(r.units, u)
	}
}

func isGetExtension(c *ast.CallExpr) bool {
	sel, ok := c.Fun.(*ast.SelectorExpr)
	return ok && exprString(sel) == "proto.GetExtension" && len(c.Args) == 2
}

// chain renders a selector / getter / type-assertion chain with aliases expanded.
func (r *rwWalker) chain(e ast.Expr) (string, bool) {
	switch x := e.(type) {
	case *ast.Ident:
		if v, ok := r.env[x.Name]; ok {
			return v, true
		}
		return x.Name, true
	case *ast.SelectorExpr:
		b, ok := r.chain(x.X)
		if !ok {
			return "", false
		}
		return b + "." + x.Sel.Name, true
	case *ast.CallExpr:
		if isGetExtension(x) {
			return "GetExtension(" + exprString(x.Args[1]) + ")", true
		}
		if len(x.Args) == 0 {
			if sel, ok := x.Fun.(*ast.SelectorExpr); ok {
				b, ok := r.chain(sel)
				if !ok {
					return "", false
				}
				return b + "()", true
			}
		}
		return "", false
	case *ast.TypeAssertExpr:
		b, ok := r.chain(x.X)
		if !ok {
			return "", false
		}
		if x.Type == nil {
			return b + ".(type)", true
		}
		if strings.HasPrefix(b, "GetExtension(") {
			return b, true // the assertion to the extension's own message type
		}
		return b + ".(" + trimPkg(exprString(x.Type)) + ")", true
	case *ast.ParenExpr:
		return r.chain(x.X)
	case *ast.StarExpr:
		return r.chain(x.X)
	}
	return "", false
}

// text renders a value expression with aliases expanded.
func (r *rwWalker) text(e ast.Expr) string {
	if e == nil {
		return "nil"
	}
	switch x := e.(type) {
	case *ast.StarExpr:
		return "*" + r.text(x.X)
	case *ast.ParenExpr:
		return "(" + r.text(x.X) + ")"
	}
	if c, ok := r.chain(e); ok {
		return c
	}
	switch x := e.(type) {
	case *ast.CallExpr:
		args := make([]string, len(x.Args))
		for i, a := range x.Args {
			args[i] = r.text(a)
		}
		return r.text(x.Fun) + "(" + strings.Join(args, ",") + ")"
	case *ast.UnaryExpr:
		return x.Op.String() + r.text(x.X)
	case *ast.BinaryExpr:
		return r.text(x.X) + " " + x.Op.String() + " " + r.text(x.Y)
	case *ast.CompositeLit:
		if _, isArr := x.Type.(*ast.ArrayType); isArr && len(x.Elts) <= 4 {
			// a small positional literal (a source-location path): spelled out
			parts := make([]string, len(x.Elts))
			for i, el := range x.Elts {
				if _, kv := el.(*ast.KeyValueExpr); kv {
					return exprString(x.Type) + "{…}"
				}
				parts[i] = r.text(el)
			}
			return exprString(x.Type) + "{" + strings.Join(parts, ",") + "}"
		}
		return trimPkg(exprString(x.Type)) + "{…}"
	case *ast.BasicLit:
		return x.Value
	case *ast.SliceExpr:
		lo, hi := "", ""
		if x.Low != nil {
			lo = r.text(x.Low)
		}
		if x.High != nil {
			hi = r.text(x.High)
		}
		return r.text(x.X) + "[" + lo + ":" + hi + "]"
	case *ast.IndexExpr:
		return r.text(x.X) + "[" + r.text(x.Index) + "]"
	case *ast.IndexListExpr:
		return r.text(x.X)
	}
	return fmt.Sprintf("<unknown %T>", e)
}

func (r *rwWalker) read(c string) {
	if r.tracked(c) {
		r.reads[r.unit][c] = true
	}
}

// firstTracked: the first tracked chain inside a value expression ("" if none).
func (r *rwWalker) firstTracked(e ast.Expr) string {
	found := ""
	var rec func(e ast.Expr)
	rec = func(e ast.Expr) {
		if e == nil || found != "" {
			return
		}
		switch x := e.(type) {
		case *ast.StarExpr:
			rec(x.X)
			return
		case *ast.ParenExpr:
			rec(x.X)
			return
		}
		if c, ok := r.chain(e); ok {
			if r.tracked(c) {
				found = c
			}
			return
		}
		switch x := e.(type) {
		case *ast.CallExpr:
			for _, a := range x.Args {
				rec(a)
			}
		case *ast.UnaryExpr:
			rec(x.X)
		case *ast.BinaryExpr:
			rec(x.X)
			rec(x.Y)
		}
	}
	rec(e)
	return found
}

func (r *rwWalker) copyOf(target string, v ast.Expr) {
	g := append([]string(nil), r.guards...)
	inner := v
	if u, ok := v.(*ast.UnaryExpr); ok && u.Op == token.AND {
		inner = u.X
	}
	if cl, ok := inner.(*ast.CompositeLit); ok {
		r.copies = append(r.copies, copyFact{r.unit, target, "", trimPkg(exprString(cl.Type)) + "{…}", g})
		return
	}
	r.copies = append(r.copies, copyFact{r.unit, target, r.firstTracked(v), r.text(v), g})
}

func (r *rwWalker) lit(cl *ast.CompositeLit) { r.litAs(cl, "") }

// litAs: implied is the element type of the enclosing slice literal for `{…}` elements without a type.
func (r *rwWalker) litAs(cl *ast.CompositeLit, implied string) {
	typ := ""
	record := false
	if cl.Type != nil {
		typ, record = r.litType(exprString(cl.Type))
	} else if implied != "" {
		typ, record = r.litType(implied)
	}
	elemType := ""
	if at, ok := cl.Type.(*ast.ArrayType); ok {
		elemType = strings.TrimPrefix(exprString(at.Elt), "*")
	}
	for _, el := range cl.Elts {
		if inner, ok := el.(*ast.CompositeLit); ok && inner.Type == nil && elemType != "" {
			r.litAs(inner, elemType)
			continue
		}
		kv, ok := el.(*ast.KeyValueExpr)
		if !ok {
			if record {
				r.copies = append(r.copies, copyFact{r.unit, typ + ".<positional>", "", r.text(el), append([]string(nil), r.guards...)})
			}
			r.expr(el)
			continue
		}
		if record {
			r.copyOf(typ+"."+exprString(kv.Key), kv.Value)
		}
		r.expr(kv.Value)
	}
}

func (r *rwWalker) expr(e ast.Expr) {
	if e == nil {
		return
	}
	switch x := e.(type) {
	case *ast.StarExpr:
		r.expr(x.X)
		return
	case *ast.ParenExpr:
		r.expr(x.X)
		return
	}
	if c, ok := r.chain(e); ok {
		r.read(c)
		if call, ok := e.(*ast.CallExpr); ok && isGetExtension(call) {
			r.expr(call.Args[0])
		}
		if ta, ok := e.(*ast.TypeAssertExpr); ok {
			if call, ok := ta.X.(*ast.CallExpr); ok && isGetExtension(call) {
				r.expr(call.Args[0])
			}
		}
		return
	}
	switch x := e.(type) {
	case *ast.CallExpr:
		if _, ok := r.chain(x.Fun); !ok {
			r.expr(x.Fun)
		} else if sel, ok := x.Fun.(*ast.SelectorExpr); ok {
			// method call with arguments on a tracked receiver: the receiver is read
			if c, ok := r.chain(sel.X); ok {
				r.read(c)
			}
		}
		for _, a := range x.Args {
			r.expr(a)
		}
	case *ast.UnaryExpr:
		r.expr(x.X)
	case *ast.BinaryExpr:
		r.expr(x.X)
		r.expr(x.Y)
	case *ast.CompositeLit:
		r.lit(x)
	case *ast.KeyValueExpr:
		r.expr(x.Value)
	case *ast.IndexExpr:
		r.expr(x.X)
		r.expr(x.Index)
	case *ast.IndexListExpr:
		r.expr(x.X)
	case *ast.TypeAssertExpr:
		r.expr(x.X)
	case *ast.FuncLit:
		r.stmt(x.Body)
	}
}

func (r *rwWalker) saveEnv() map[string]string {
	r.depth++
	m := make(map[string]string, len(r.env))
	for k, v := range r.env {
		m[k] = v
	}
	return m
}

func (r *rwWalker) restore(saved map[string]string) {
	r.depth--
	for k, d := range r.killed {
		if r.depth < d {
			delete(saved, k)
		}
	}
	r.env = saved
}

func (r *rwWalker) bind(name string, rhs ast.Expr) {
	if name == "_" {
		return
	}
	inner := rhs
	if u, ok := rhs.(*ast.UnaryExpr); ok && u.Op == token.AND {
		inner = u.X
	}
	if cl, ok := inner.(*ast.CompositeLit); ok && cl.Type != nil {
		if _, isArr := cl.Type.(*ast.ArrayType); isArr {
			r.env[name] = r.text(cl) // a small positional literal is spelled out
		} else {
			r.env[name] = trimPkg(exprString(cl.Type))
		}
		return
	}
	if call, ok := rhs.(*ast.CallExpr); ok {
		if sel, ok := call.Fun.(*ast.SelectorExpr); ok && sel.Sel.Name == "setJ5Ext" {
			r.env[name] = "FieldOptions"
			return
		}
	}
	if c, ok := r.chain(rhs); ok && c != name {
		root := c
		if i := strings.IndexAny(c, ".("); i >= 0 {
			root = c[:i]
		}
		_, rootIsVar := r.env[root]
		if r.tracked(c) || rootIsVar || strings.HasPrefix(c, "GetExtension(") || c != r.rawChain(rhs) {
			r.env[name] = c
			return
		}
	}
	delete(r.env, name)
}

func rootIdent(e ast.Expr) string {
	for {
		switch x := e.(type) {
		case *ast.Ident:
			return x.Name
		case *ast.SelectorExpr:
			e = x.X
		case *ast.CallExpr:
			e = x.Fun
		case *ast.TypeAssertExpr:
			e = x.X
		case *ast.ParenExpr:
			e = x.X
		case *ast.StarExpr:
			e = x.X
		default:
			return ""
		}
	}
}

func (r *rwWalker) rawChain(e ast.Expr) string {
	saved := r.env
	r.env = map[string]string{}
	c, _ := r.chain(e)
	r.env = saved
	return c
}

func (r *rwWalker) stmts(list []ast.Stmt) {
	for _, s := range list {
		r.stmt(s)
	}
}

func (r *rwWalker) stmt(s ast.Stmt) {
	switch x := s.(type) {
	case nil:
	case *ast.BlockStmt:
		if x != nil {
			r.stmts(x.List)
		}
	case *ast.ExprStmt:
		if call, ok := x.X.(*ast.CallExpr); ok {
			fn := exprString(call.Fun)
			if fn == "proto.SetExtension" && len(call.Args) == 3 {
				r.copyOf("SetExtension("+exprString(call.Args[1])+")", call.Args[2])
			}
			if strings.HasSuffix(fn, ".setJ5Ext") && len(call.Args) == 4 {
				r.copyOf("setJ5Ext("+r.text(call.Args[2])+")", call.Args[3])
			}
			if r.rootMode && len(call.Args) == 2 && (strings.HasSuffix(fn, ".comment") || strings.HasSuffix(fn, ".addValue")) {
				// `x.comment(path, description)`, `eb.addValue(number, option)`
				r.copyOf(trimPkg(fn)+"("+r.text(call.Args[0])+")", call.Args[1])
			}
		}
		r.expr(x.X)
	case *ast.AssignStmt:
		for _, rhs := range x.Rhs {
			if call, ok := rhs.(*ast.CallExpr); ok && strings.HasSuffix(exprString(call.Fun), ".setJ5Ext") && len(call.Args) == 4 {
				r.copyOf("setJ5Ext("+r.text(call.Args[2])+")", call.Args[3])
			}
			r.expr(rhs)
		}
		for i, lhs := range x.Lhs {
			if id, ok := lhs.(*ast.Ident); ok {
				if x.Tok == token.ASSIGN && id.Name != "_" && id.Name != "err" && len(x.Lhs) == len(x.Rhs) {
					// plain assignment to a local declared earlier (`fkRules = fkt.Id62`, `flatten = true`)
					r.copyOf("var "+id.Name, x.Rhs[i])
					r.killed[id.Name] = r.depth
				}
				if len(x.Lhs) == len(x.Rhs) {
					r.bind(id.Name, x.Rhs[i])
				} else if x.Tok == token.DEFINE {
					delete(r.env, id.Name)
				}
				continue
			}
			_, wasKilled := r.killed[rootIdent(lhs)]
			if c, ok := r.chain(lhs); ok && (c != r.rawChain(lhs) || wasKilled) && len(x.Lhs) == len(x.Rhs) {
				r.copyOf(c, x.Rhs[i])
			} else if ok && len(x.Lhs) != len(x.Rhs) && (c != r.rawChain(lhs) || wasKilled) {
				r.copies = append(r.copies, copyFact{r.unit, c, r.firstTracked(x.Rhs[0]), r.text(x.Rhs[0]), append([]string(nil), r.guards...)})
			}
		}
	case *ast.DeclStmt:
		if gd, ok := x.Decl.(*ast.GenDecl); ok {
			for _, sp := range gd.Specs {
				vs, ok := sp.(*ast.ValueSpec)
				if !ok {
					continue
				}
				for i, n := range vs.Names {
					if i < len(vs.Values) {
						r.expr(vs.Values[i])
						r.bind(n.Name, vs.Values[i])
					} else if vs.Type != nil {
						t := exprString(vs.Type)
						if strings.Contains(t, "_j5pb.") || strings.HasPrefix(strings.TrimPrefix(t, "*"), "validate.") {
							r.env[n.Name] = trimPkg(t)
						} else {
							delete(r.env, n.Name)
						}
					}
				}
			}
		}
	case *ast.IfStmt:
		saved := r.saveEnv()
		savedUnit := r.unit
		r.stmt(x.Init)
		r.expr(x.Cond)
		cond := r.text(x.Cond)
		if r.reader && r.fn == "Package.messageProperties" {
			if cond == "field.IsList()" {
				r.setUnit(r.fn + "/list")
			} else if cond == "field.IsMap()" {
				r.setUnit(r.fn + "/map")
			}
		}
		r.guards = append(r.guards, cond)
		r.stmt(x.Body)
		r.guards = r.guards[:len(r.guards)-1]
		r.unit = savedUnit
		if x.Else != nil {
			r.guards = append(r.guards, "!("+cond+")")
			r.stmt(x.Else)
			r.guards = r.guards[:len(r.guards)-1]
		}
		r.restore(saved)
	case *ast.SwitchStmt:
		saved := r.saveEnv()
		savedUnit := r.unit
		r.stmt(x.Init)
		tag := ""
		if x.Tag != nil {
			r.expr(x.Tag)
			tag = r.text(x.Tag)
		}
		split := r.reader && (tag == "src.Kind()" && r.fn == "buildScalarType" || tag == "string(fullName)")
		for _, c := range x.Body.List {
			cc := c.(*ast.CaseClause)
			names := make([]string, len(cc.List))
			for i, e := range cc.List {
				r.expr(e)
				t := r.text(e)
				if u, ok := unquote(t); ok {
					t = u
				}
				names[i] = trimPkg(t)
				if tag == "" {
					names[i] = t
				}
			}
			g := "default"
			if len(names) > 0 {
				g = "case " + strings.Join(names, ",")
			}
			if split {
				if len(names) > 0 {
					r.setUnit(r.fn + "/" + names[0])
				} else {
					r.setUnit(r.fn + "/default")
				}
			}
			r.guards = append(r.guards, g)
			r.stmts(cc.Body)
			r.guards = r.guards[:len(r.guards)-1]
		}
		r.unit = savedUnit
		r.restore(saved)
	case *ast.TypeSwitchStmt:
		saved := r.saveEnv()
		savedUnit := r.unit
		r.stmt(x.Init)
		varName := ""
		var subject ast.Expr
		switch a := x.Assign.(type) {
		case *ast.AssignStmt:
			if id, ok := a.Lhs[0].(*ast.Ident); ok {
				varName = id.Name
			}
			if ta, ok := a.Rhs[0].(*ast.TypeAssertExpr); ok {
				subject = ta.X
			}
		case *ast.ExprStmt:
			if ta, ok := a.X.(*ast.TypeAssertExpr); ok {
				subject = ta.X
			}
		}
		subj := "<unknown>"
		if subject != nil {
			r.expr(subject)
			subj = r.text(subject)
		}
		split := !r.reader && varName == "st"
		for _, c := range x.Body.List {
			cc := c.(*ast.CaseClause)
			names := make([]string, len(cc.List))
			for i, e := range cc.List {
				names[i] = trimPkg(exprString(e))
			}
			g := "default"
			if len(names) > 0 {
				g = "case " + strings.Join(names, ",")
			}
			if split {
				if len(names) > 0 {
					r.setUnit(r.fn + "/" + strings.Join(names, ","))
				} else {
					r.setUnit(r.fn + "/default")
				}
			} else if varName != "" {
				if len(names) == 1 {
					r.env[varName] = subj + ".(" + names[0] + ")"
				} else {
					r.env[varName] = subj + ".(type)"
				}
			}
			if !split {
				r.guards = append(r.guards, g)
			}
			r.stmts(cc.Body)
			if !split {
				r.guards = r.guards[:len(r.guards)-1]
			}
		}
		r.unit = savedUnit
		r.restore(saved)
	case *ast.ForStmt:
		saved := r.saveEnv()
		r.stmt(x.Init)
		r.expr(x.Cond)
		r.stmt(x.Post)
		r.stmt(x.Body)
		r.restore(saved)
	case *ast.RangeStmt:
		saved := r.saveEnv()
		r.expr(x.X)
		if id, ok := x.Key.(*ast.Ident); ok {
			delete(r.env, id.Name)
		}
		if id, ok := x.Value.(*ast.Ident); ok {
			delete(r.env, id.Name)
		}
		r.stmt(x.Body)
		r.restore(saved)
	case *ast.ReturnStmt:
		if r.returns[r.fn] {
			texts := make([]string, len(x.Results))
			for i, e := range x.Results {
				texts[i] = r.text(e)
			}
			r.copies = append(r.copies, copyFact{r.unit, "return", "", strings.Join(texts, ","), append([]string(nil), r.guards...)})
		}
		for _, e := range x.Results {
			r.expr(e)
		}
	case *ast.IncDecStmt:
		r.expr(x.X)
	case *ast.LabeledStmt:
		r.stmt(x.Stmt)
	case *ast.BranchStmt, *ast.EmptyStmt:
	default:
		r.copies = append(r.copies, copyFact{r.unit, fmt.Sprintf("<unknown statement %T>", s), "", "", nil})
	}
}

func newWalker(reader bool) *rwWalker {
	r := &rwWalker{reads: map[string]map[string]bool{}, reader: reader}
	if reader {
		r.tracked = func(c string) bool {
			for _, p := range []string{"ext.", "GetExtension(", "opts.", "options.", "psmExt."} {
				if strings.HasPrefix(c, p) {
					return true
				}
			}
			return false
		}
		local := map[string]bool{"ArrayField": true, "MapField": true, "ObjectProperty": true, "AnyField": true,
			"EnumField": true, "OneofField": true, "ObjectField": true, "ScalarSchema": true, "EnumSchema": true, "EnumOption": true,
			"ObjectSchema": true, "OneofSchema": true}
		r.litType = func(t string) (string, bool) {
			t = strings.TrimPrefix(t, "*")
			if strings.HasPrefix(t, "schema_j5pb.") {
				return trimPkg(t), true
			}
			return t, local[t]
		}
	} else {
		r.tracked = func(c string) bool {
			if r.rootMode {
				return strings.HasPrefix(c, "node.") || strings.HasPrefix(c, "schema.")
			}
			return strings.HasPrefix(c, "st.") || strings.HasPrefix(c, "node.Schema.") || strings.HasPrefix(c, "GetExtension(")
		}
		r.litType = func(t string) (string, bool) {
			t = strings.TrimPrefix(t, "*")
			for _, p := range []string{"validate.", "ext_j5pb.", "list_j5pb."} {
				if strings.HasPrefix(t, p) {
					return trimPkg(t), true
				}
			}
			if r.rootMode && (t == "descriptorpb.EnumValueDescriptorProto" || t == "descriptorpb.EnumDescriptorProto" || t == "enumBuilder") {
				return trimPkg(t), true
			}
			return trimPkg(t), false
		}
	}
	return r
}

func (r *rwWalker) function(fd *ast.FuncDecl, seed map[string]string) {
	r.fn = recvName(fd)
	r.env = map[string]string{}
	for k, v := range seed {
		r.env[k] = v
	}
	r.guards = nil
	r.killed = map[string]int{}
	r.depth = 0
	r.setUnit(r.fn)
	r.stmt(fd.Body)
}

func emitReads(w *strings.Builder, name string, r *rwWalker) {
	fmt.Fprintf(w, "def %s : List (String × List String) := [\n", name)
	for i, u := range r.units {
		sep := ","
		if i == len(r.units)-1 {
			sep = ""
		}
		fmt.Fprintf(w, "  (%s, %s)%s\n", leanStr(u), leanStrList(sortedKeys(r.reads[u])), sep)
	}
	fmt.Fprintf(w, "]\n")
}

func emitCopies(w *strings.Builder, name string, r *rwWalker) {
	fmt.Fprintf(w, "def %s : List (String × String × String × String × List String) := [\n", name)
	for i, c := range r.copies {
		sep := ","
		if i == len(r.copies)-1 {
			sep = ""
		}
		fmt.Fprintf(w, "  (%s, %s, %s, %s, %s)%s\n", leanStr(c.unit), leanStr(c.target), leanStr(c.src), leanStr(c.text), leanStrList(c.guards), sep)
	}
	fmt.Fprintf(w, "]\n")
}

var schemaMsgRe = regexp.MustCompile(`Field$|Field_Rules$|Field_Ext$|^EntityKey$|^KeyFormat$|^KeyFormat_Custom$|^ObjectProperty$`)

func extractRules(w *strings.Builder) error {
	_, wf, err := parseFile("internal/j5s/j5convert/fields.go")
	if err != nil {
		return err
	}
	wr := newWalker(false)
	descSeed := map[string]string{"desc": "FieldDescriptorProto", "fieldDesc": "FieldDescriptorProto", "itemDesc": "FieldDescriptorProto"}
	for _, name := range []string{"buildProperty", "buildField", "checkIntegerBound"} {
		fd := funcDecl(wf, name)
		if fd == nil || fd.Body == nil {
			return fmt.Errorf("fields.go: func %s not found", name)
		}
		wr.function(fd, descSeed)
	}

	_, cf, err := parseFile("internal/j5s/j5convert/conversion.go")
	if err != nil {
		return err
	}
	wroot := newWalker(false)
	wroot.rootMode = true
	for _, d := range cf.Decls {
		if fd, ok := d.(*ast.FuncDecl); ok && fd.Body != nil {
			if n := recvName(fd); n == "conversionVisitor.visitObjectNode" || n == "conversionVisitor.visitOneofNode" || n == "conversionVisitor.visitEnumNode" {
				wroot.function(fd, nil)
			}
		}
	}
	if len(wroot.units) != 3 {
		return fmt.Errorf("conversion.go: visitObjectNode / visitOneofNode / visitEnumNode not found")
	}
	_, ef, err := parseFile("internal/j5s/j5convert/enum.go")
	if err != nil {
		return err
	}
	for _, d := range ef.Decls {
		if fd, ok := d.(*ast.FuncDecl); ok && fd.Body != nil && recvName(fd) == "enumBuilder.addValue" {
			wroot.function(fd, nil)
		}
	}
	if len(wroot.units) != 4 {
		return fmt.Errorf("enum.go: enumBuilder.addValue not found")
	}

	_, rf, err := parseFile("lib/j5schema/schema_from_proto.go")
	if err != nil {
		return err
	}
	rr := newWalker(true)
	rr.returns = map[string]bool{"isOneofWrapper": true}
	want := []string{"isOneofWrapper", "Package.buildOneofSchema", "Package.buildObjectSchema", "findPSMOptions",
		"getProtoFieldExtensions", "Package.messageProperties", "Package.buildSchemaProperty", "Package.buildSchema", "buildScalarType",
		"wktSchema", "buildMessageFieldSchema", "buildEnumFieldSchema", "buildFromStringProto"}
	found := map[string]*ast.FuncDecl{}
	for _, d := range rf.Decls {
		if fd, ok := d.(*ast.FuncDecl); ok && fd.Body != nil {
			found[recvName(fd)] = fd
		}
	}
	for _, name := range want {
		fd := found[name]
		if fd == nil {
			return fmt.Errorf("schema_from_proto.go: func %s not found", name)
		}
		rr.function(fd, nil)
	}

	// the j5 schema messages: members of the Field.type oneof and the exported fields of the field messages
	_, pb, err := parseFile("gen/j5/schema/v1/schema_j5pb/schema.pb.go")
	if err != nil {
		return err
	}
	var members []string
	msgFields := map[string][]string{}
	for _, d := range pb.Decls {
		switch x := d.(type) {
		case *ast.FuncDecl:
			if x.Recv != nil && x.Name.Name == "isField_Type" {
				members = append(members, trimPkg(exprString(x.Recv.List[0].Type)))
			}
		case *ast.GenDecl:
			for _, sp := range x.Specs {
				ts, ok := sp.(*ast.TypeSpec)
				if !ok {
					continue
				}
				st, ok := ts.Type.(*ast.StructType)
				if !ok || !schemaMsgRe.MatchString(ts.Name.Name) {
					continue
				}
				fields := []string{}
				for _, f := range st.Fields.List {
					for _, n := range f.Names {
						if ast.IsExported(n.Name) {
							fields = append(fields, n.Name)
						}
					}
				}
				msgFields[ts.Name.Name] = fields
			}
		}
	}
	sort.Strings(members)

	fmt.Fprintf(w, "namespace J5V.Generated.Rules\n")
	fmt.Fprintf(w, "def fieldTypeMembers : List String := %s\n", leanStrList(members))
	fmt.Fprintf(w, "def schemaMsgFields : List (String × List String) := [\n")
	ks := sortedKeys(msgFields)
	for i, k := range ks {
		sep := ","
		if i == len(ks)-1 {
			sep = ""
		}
		fmt.Fprintf(w, "  (%s, %s)%s\n", leanStr(k), leanStrList(msgFields[k]), sep)
	}
	fmt.Fprintf(w, "]\n")
	fmt.Fprintf(w, "def writerUnits : List String := %s\n", leanStrList(wr.units))
	emitReads(w, "writerReads", wr)
	emitCopies(w, "writerCopies", wr)
	emitReads(w, "rootWriterReads", wroot)
	emitCopies(w, "rootWriterCopies", wroot)
	fmt.Fprintf(w, "def readerUnits : List String := %s\n", leanStrList(rr.units))
	emitReads(w, "readerReads", rr)
	emitCopies(w, "readerCopies", rr)
	fmt.Fprintf(w, "end J5V.Generated.Rules\n")
	return nil
}
