package main

import (
	"bytes"
	"fmt"
	"go/ast"
	"go/printer"
	"go/token"
	"sort"
	"strings"
)

// E3 + E6 (codec part). E3: every (schema kind, Go type) arm of scalarReflectFromGo in
// lib/j5reflect/value_go.go and whether an `if err != nil` block in it returns a nil error
// (the "silently dropped" pattern); the same test for the string helpers and DateFromString.
// E6: the members of the schema_j5pb.Field oneof and the cases of every switch in the codec path
// that has to cover them (scalarReflectFromGo, scalarGoFromReflect, property.PropertyType,
// decoder.decodeValue, encoder.encodeValue, encodeScalarField).
func init() { extractors["codec"] = extractCodec }

// swallowsError: an `if err != nil { … }` whose body returns with a literal nil as last result.
func swallowsError(n ast.Node) bool {
	found := false
	ast.Inspect(n, func(x ast.Node) bool {
		ifs, ok := x.(*ast.IfStmt)
		if !ok {
			return true
		}
		be, ok := ifs.Cond.(*ast.BinaryExpr)
		if !ok || be.Op != token.NEQ || exprString(be.X) != "err" || exprString(be.Y) != "nil" {
			return true
		}
		for _, st := range ifs.Body.List {
			if rs, ok := st.(*ast.ReturnStmt); ok && len(rs.Results) > 0 {
				if exprString(rs.Results[len(rs.Results)-1]) == "nil" {
					found = true
				}
			}
		}
		return true
	})
	return found
}

// returnsOnlyErrors: every return statement directly in the clause body has a non-nil last result.
func lastReturnIsError(cc *ast.CaseClause) bool {
	ok := false
	for _, st := range cc.Body {
		if rs, isRet := st.(*ast.ReturnStmt); isRet && len(rs.Results) > 0 {
			ok = exprString(rs.Results[len(rs.Results)-1]) != "nil"
		}
	}
	return ok
}

func caseNames(cc *ast.CaseClause) []string {
	if cc.List == nil {
		return []string{"default"}
	}
	var out []string
	for _, e := range cc.List {
		s := exprString(e)
		for _, pkg := range []string{"schema_j5pb.", "j5schema.", "j5reflect."} {
			s = strings.TrimPrefix(s, "*"+pkg)
			s = strings.TrimPrefix(s, pkg)
		}
		out = append(out, s)
	}
	return out
}

type arm struct {
	schema, goType string
	swallows       bool
	isDefault      bool
	defaultErr     bool
}

func switchTag(s ast.Stmt) string {
	switch x := s.(type) {
	case *ast.TypeSwitchStmt:
		switch a := x.Assign.(type) {
		case *ast.AssignStmt:
			if ta, ok := a.Rhs[0].(*ast.TypeAssertExpr); ok {
				return exprString(ta.X)
			}
		case *ast.ExprStmt:
			if ta, ok := a.X.(*ast.TypeAssertExpr); ok {
				return exprString(ta.X)
			}
		}
	case *ast.SwitchStmt:
		if x.Tag != nil {
			return exprString(x.Tag)
		}
	}
	return ""
}

func clausesOf(s ast.Stmt) []*ast.CaseClause {
	var body *ast.BlockStmt
	switch x := s.(type) {
	case *ast.TypeSwitchStmt:
		body = x.Body
	case *ast.SwitchStmt:
		body = x.Body
	default:
		return nil
	}
	var out []*ast.CaseClause
	for _, st := range body.List {
		if cc, ok := st.(*ast.CaseClause); ok {
			out = append(out, cc)
		}
	}
	return out
}

// findSwitch returns the first switch statement (depth first) whose tag is `tag`.
func findSwitch(n ast.Node, tag string) ast.Stmt {
	var res ast.Stmt
	ast.Inspect(n, func(x ast.Node) bool {
		if res != nil {
			return false
		}
		if st, ok := x.(ast.Stmt); ok {
			switch st.(type) {
			case *ast.TypeSwitchStmt, *ast.SwitchStmt:
				if switchTag(st) == tag {
					res = st
					return false
				}
			}
		}
		return true
	})
	return res
}

func clauseBlock(cc *ast.CaseClause) *ast.BlockStmt { return &ast.BlockStmt{List: cc.Body} }

func valueArms(schema string, cc *ast.CaseClause, out *[]arm) bool {
	sw := findSwitch(clauseBlock(cc), "value")
	if sw == nil {
		return false
	}
	for _, vc := range clausesOf(sw) {
		for _, n := range caseNames(vc) {
			a := arm{schema: schema, goType: n, swallows: swallowsError(clauseBlock(vc))}
			if n == "default" {
				a.isDefault = true
				a.defaultErr = lastReturnIsError(vc)
			}
			*out = append(*out, a)
		}
	}
	return true
}

func sortedCopy(xs []string) []string {
	ys := append([]string{}, xs...)
	sort.Strings(ys)
	return ys
}

func extractCodec(w *strings.Builder) error {
	ok := true
	unknown := func(what string) {
		ok = false
		fmt.Fprintf(w, "-- extractor: could not find %s\n", what)
	}
	fmt.Fprintln(w, "namespace J5V.Generated.Codec")
	fmt.Fprintln(w, "structure ScalarArm where\n  schema : String\n  goType : String\n  swallowsError : Bool\n  isDefault : Bool\n  defaultReturnsError : Bool\n  deriving Repr, DecidableEq")

	// ---- members of the Field oneof
	var members []string
	if _, f, err := parseFile("gen/j5/schema/v1/schema_j5pb/schema.pb.go"); err == nil {
		for _, d := range f.Decls {
			if fd, isF := d.(*ast.FuncDecl); isF && fd.Name.Name == "isField_Type" && fd.Recv != nil && len(fd.Recv.List) == 1 {
				members = append(members, strings.TrimPrefix(exprString(fd.Recv.List[0].Type), "*"))
			}
		}
	}
	if len(members) == 0 {
		unknown("the isField_Type implementations")
		members = []string{"<unknown>"}
	}
	fmt.Fprintf(w, "def fieldTypeMembers : List String := %s\n", leanStrList(sortedCopy(members)))

	// ---- value_go.go
	_, vg, err := parseFile("lib/j5reflect/value_go.go")
	if err != nil {
		return err
	}
	var arms []arm
	var fromGoCases, intFormats, floatFormats []string
	if fd := funcDecl(vg, "scalarReflectFromGo"); fd != nil {
		outer := findSwitch(fd.Body, "schema.Type")
		if outer == nil {
			unknown("switch schema.Type in scalarReflectFromGo")
		}
		for _, cc := range clausesOf(outer) {
			for _, name := range caseNames(cc) {
				if name == "default" {
					continue
				}
				fromGoCases = append(fromGoCases, name)
				switch name {
				case "Field_Integer":
					fsw := findSwitch(clauseBlock(cc), "st.Integer.Format")
					if fsw == nil {
						unknown("switch st.Integer.Format")
						continue
					}
					// the conversion of json.Number happens before the format switch
					pre := arm{schema: "Field_Integer", goType: "json.Number(pre)", swallows: false}
					for _, st := range cc.Body {
						if ifs, isIf := st.(*ast.IfStmt); isIf {
							if swallowsError(ifs) {
								pre.swallows = true
							}
						}
					}
					arms = append(arms, pre)
					for _, fc := range clausesOf(fsw) {
						for _, fn := range caseNames(fc) {
							if fn == "default" {
								continue
							}
							fn = strings.TrimPrefix(fn, "IntegerField_FORMAT_")
							intFormats = append(intFormats, fn)
							if !valueArms("Field_Integer/"+fn, fc, &arms) {
								unknown("value switch for integer format " + fn)
							}
						}
					}
				case "Field_Float":
					if !valueArms("Field_Float", cc, &arms) {
						unknown("value switch for floats")
					}
					if fsw := findSwitch(clauseBlock(cc), "st.Float.Format"); fsw != nil {
						for _, fc := range clausesOf(fsw) {
							for _, fn := range caseNames(fc) {
								if fn != "default" {
									floatFormats = append(floatFormats, strings.TrimPrefix(fn, "FloatField_FORMAT_"))
								}
							}
						}
					} else {
						unknown("switch st.Float.Format")
					}
				case "Field_Any":
					arms = append(arms, arm{schema: name, goType: "any", swallows: swallowsError(clauseBlock(cc))})
				default:
					if !valueArms(name, cc, &arms) {
						unknown("value switch for " + name)
					}
				}
			}
		}
	} else {
		unknown("func scalarReflectFromGo")
	}
	fmt.Fprintln(w, "def scalarArms : List ScalarArm := [")
	for i, a := range arms {
		sep := ","
		if i == len(arms)-1 {
			sep = ""
		}
		fmt.Fprintf(w, "  { schema := %s, goType := %s, swallowsError := %s, isDefault := %s, defaultReturnsError := %s }%s\n",
			leanStr(a.schema), leanStr(a.goType), leanBool(a.swallows), leanBool(a.isDefault), leanBool(a.defaultErr), sep)
	}
	fmt.Fprintln(w, "]")
	fmt.Fprintf(w, "def reflectFromGoCases : List String := %s\n", leanStrList(sortedCopy(fromGoCases)))
	fmt.Fprintf(w, "def reflectFromGoIntegerFormats : List String := %s\n", leanStrList(sortedCopy(intFormats)))
	fmt.Fprintf(w, "def reflectFromGoFloatFormats : List String := %s\n", leanStrList(sortedCopy(floatFormats)))

	// helpers that must hand their parse error on
	fmt.Fprintln(w, "def helperSwallowsError : List (String × Bool) := [")
	helpers := []struct{ file, fn string }{
		{"lib/j5reflect/value_go.go", "decimalFromString"}, {"lib/j5reflect/value_go.go", "timestampFromString"},
		{"lib/j5reflect/value_go.go", "byteValueFromString"}, {"j5types/date_j5t/date.go", "DateFromString"},
	}
	for i, hp := range helpers {
		_, hf, err := parseFile(hp.file)
		sw := true
		if err == nil {
			if fd := funcDecl(hf, hp.fn); fd != nil {
				sw = swallowsError(fd.Body)
			} else {
				unknown("func " + hp.fn)
			}
		}
		sep := ","
		if i == len(helpers)-1 {
			sep = ""
		}
		fmt.Fprintf(w, "  (%s, %s)%s\n", leanStr(hp.fn), leanBool(sw), sep)
	}
	fmt.Fprintln(w, "]")

	var goFromCases, goFromInt, goFromFloat []string
	if fd := funcDecl(vg, "scalarGoFromReflect"); fd != nil {
		outer := findSwitch(fd.Body, "schema.Type")
		if outer == nil {
			unknown("switch schema.Type in scalarGoFromReflect")
		}
		for _, cc := range clausesOf(outer) {
			for _, name := range caseNames(cc) {
				if name == "default" {
					continue
				}
				goFromCases = append(goFromCases, name)
				if name == "Field_Integer" {
					if fsw := findSwitch(clauseBlock(cc), "st.Integer.Format"); fsw != nil {
						for _, fc := range clausesOf(fsw) {
							for _, fn := range caseNames(fc) {
								if fn != "default" {
									goFromInt = append(goFromInt, strings.TrimPrefix(fn, "IntegerField_FORMAT_"))
								}
							}
						}
					}
				}
				if name == "Field_Float" {
					if fsw := findSwitch(clauseBlock(cc), "st.Float.Format"); fsw != nil {
						for _, fc := range clausesOf(fsw) {
							for _, fn := range caseNames(fc) {
								if fn != "default" {
									goFromFloat = append(goFromFloat, strings.TrimPrefix(fn, "FloatField_FORMAT_"))
								}
							}
						}
					}
				}
			}
		}
	} else {
		unknown("func scalarGoFromReflect")
	}
	fmt.Fprintf(w, "def goFromReflectCases : List String := %s\n", leanStrList(sortedCopy(goFromCases)))
	fmt.Fprintf(w, "def goFromReflectIntegerFormats : List String := %s\n", leanStrList(sortedCopy(goFromInt)))
	fmt.Fprintf(w, "def goFromReflectFloatFormats : List String := %s\n", leanStrList(sortedCopy(goFromFloat)))

	// ---- property_set.go: PropertyType constants and the switch that assigns them
	_, ps, err := parseFile("lib/j5reflect/property_set.go")
	if err != nil {
		return err
	}
	var ptConsts []string
	for _, d := range ps.Decls {
		gd, isG := d.(*ast.GenDecl)
		if !isG || gd.Tok != token.CONST {
			continue
		}
		isPT := false
		for _, sp := range gd.Specs {
			vs := sp.(*ast.ValueSpec)
			if vs.Type != nil && exprString(vs.Type) == "PropertyType" {
				isPT = true
			}
			if isPT {
				for _, n := range vs.Names {
					ptConsts = append(ptConsts, n.Name)
				}
			}
		}
	}
	if len(ptConsts) == 0 {
		unknown("PropertyType constants")
	}
	fmt.Fprintf(w, "def propertyTypeConsts : List String := %s\n", leanStrList(sortedCopy(ptConsts)))
	var ptSwitchTypes, ptSwitchResults []string
	for _, d := range ps.Decls {
		fd, isF := d.(*ast.FuncDecl)
		if !isF || fd.Name.Name != "PropertyType" || fd.Recv == nil {
			continue
		}
		if sw := findSwitch(fd.Body, "p.schema.Schema"); sw != nil {
			for _, cc := range clausesOf(sw) {
				for _, n := range caseNames(cc) {
					if n == "default" {
						continue
					}
					ptSwitchTypes = append(ptSwitchTypes, n)
					for _, st := range cc.Body {
						if rs, isR := st.(*ast.ReturnStmt); isR && len(rs.Results) == 1 {
							ptSwitchResults = append(ptSwitchResults, exprString(rs.Results[0]))
						}
					}
				}
			}
		} else {
			unknown("switch in property.PropertyType")
		}
	}
	fmt.Fprintf(w, "def propertyTypeSwitchSchemas : List String := %s\n", leanStrList(sortedCopy(ptSwitchTypes)))
	fmt.Fprintf(w, "def propertyTypeSwitchResults : List String := %s\n", leanStrList(sortedCopy(ptSwitchResults)))

	// j5schema field schema implementations (types with a ToJ5Field method)
	var fieldSchemas []string
	if _, fs, err := parseFile("lib/j5schema/field_schema.go"); err == nil {
		for _, d := range fs.Decls {
			if fd, isF := d.(*ast.FuncDecl); isF && fd.Name.Name == "ToJ5Field" && fd.Recv != nil {
				fieldSchemas = append(fieldSchemas, strings.TrimPrefix(exprString(fd.Recv.List[0].Type), "*"))
			}
		}
	}
	if len(fieldSchemas) == 0 {
		unknown("j5schema field schema types")
	}
	fmt.Fprintf(w, "def fieldSchemaTypes : List String := %s\n", leanStrList(sortedCopy(fieldSchemas)))

	// ---- decoder.decodeValue
	_, dec, err := parseFile("internal/codec/decoder.go")
	if err != nil {
		return err
	}
	var decCases []string
	decDefaultErr := false
	if fd := funcDecl(dec, "decodeValue"); fd != nil {
		if sw := findSwitch(fd.Body, "prop.PropertyType(…)"); sw != nil {
			for _, cc := range clausesOf(sw) {
				for _, n := range caseNames(cc) {
					if n == "default" {
						decDefaultErr = lastReturnIsError(cc)
						continue
					}
					decCases = append(decCases, n)
				}
			}
		} else {
			unknown("switch prop.PropertyType() in decodeValue")
		}
	} else {
		unknown("func decodeValue")
	}
	fmt.Fprintf(w, "def decodeValueCases : List String := %s\n", leanStrList(sortedCopy(decCases)))
	fmt.Fprintf(w, "def decodeValueDefaultIsError : Bool := %s\n", leanBool(decDefaultErr))

	// ---- encoder.encodeValue / encodeScalarField
	_, enc, err := parseFile("internal/codec/structure_encode.go")
	if err != nil {
		return err
	}
	var encCases, encScalarTypes []string
	encDefaultErr, encScalarDefaultErr := false, false
	if fd := funcDecl(enc, "encodeValue"); fd != nil {
		if sw := findSwitch(fd.Body, "field"); sw != nil {
			for _, cc := range clausesOf(sw) {
				for _, n := range caseNames(cc) {
					if n == "default" {
						encDefaultErr = lastReturnIsError(cc)
						continue
					}
					encCases = append(encCases, n)
				}
			}
		} else {
			unknown("type switch in encodeValue")
		}
	} else {
		unknown("func encodeValue")
	}
	if fd := funcDecl(enc, "encodeScalarField"); fd != nil {
		if sw := findSwitch(fd.Body, "val"); sw != nil {
			for _, cc := range clausesOf(sw) {
				for _, n := range caseNames(cc) {
					if n == "default" {
						encScalarDefaultErr = lastReturnIsError(cc)
						continue
					}
					encScalarTypes = append(encScalarTypes, n)
				}
			}
		} else {
			unknown("type switch in encodeScalarField")
		}
	} else {
		unknown("func encodeScalarField")
	}
	fmt.Fprintf(w, "def encodeValueCases : List String := %s\n", leanStrList(sortedCopy(encCases)))
	fmt.Fprintf(w, "def encodeValueDefaultIsError : Bool := %s\n", leanBool(encDefaultErr))
	fmt.Fprintf(w, "def encodeScalarGoTypes : List String := %s\n", leanStrList(sortedCopy(encScalarTypes)))
	fmt.Fprintf(w, "def encodeScalarDefaultIsError : Bool := %s\n", leanBool(encScalarDefaultErr))

	// constants of the wire format the model hard-codes
	dateFmt := "<unknown>"
	if _, df, err := parseFile("j5types/date_j5t/date.go"); err == nil {
		if fd := funcDecl(df, "DateString"); fd != nil {
			ast.Inspect(fd.Body, func(n ast.Node) bool {
				if ce, isC := n.(*ast.CallExpr); isC && exprString(ce.Fun) == "fmt.Sprintf" && len(ce.Args) > 0 {
					if bl, isB := ce.Args[0].(*ast.BasicLit); isB {
						dateFmt, _ = unquote(bl.Value)
					}
				}
				return true
			})
		}
	}
	fmt.Fprintf(w, "def dateStringFormat : String := %s\n", leanStr(dateFmt))
	tsLayoutEnc, tsLayoutDec := "<unknown>", "<unknown>"
	if fd := funcDecl(enc, "encodeScalarField"); fd != nil {
		ast.Inspect(fd.Body, func(n ast.Node) bool {
			if ce, isC := n.(*ast.CallExpr); isC && strings.HasSuffix(exprString(ce.Fun), ".Format") && len(ce.Args) == 1 {
				tsLayoutEnc = exprString(ce.Args[0])
			}
			return true
		})
	}
	if fd := funcDecl(vg, "timestampFromString"); fd != nil {
		ast.Inspect(fd.Body, func(n ast.Node) bool {
			if ce, isC := n.(*ast.CallExpr); isC && exprString(ce.Fun) == "time.Parse" && len(ce.Args) == 2 {
				tsLayoutDec = exprString(ce.Args[0])
			}
			return true
		})
	}
	fmt.Fprintf(w, "def timestampEncodeLayout : String := %s\n", leanStr(tsLayoutEnc))
	fmt.Fprintf(w, "def timestampDecodeLayout : String := %s\n", leanStr(tsLayoutDec))
	// ---- round 4: control-flow shape of the modelled functions that had no fact yet.
	// `ifShape f` = every `if` of f in source order (function literals included) with the exact
	// condition text and what its body does directly: "err" (the last result of its return is not the
	// literal nil: an error value or an `err` variable), "nil" (returns with a literal nil as last
	// result), "value" (returns the single value true / false), "return" (bare return),
	// "none" (no return directly in the body); a plain `else` block is listed as cond "else".
	shapes := []struct{ lean, file, fn string }{
		{"decodeOneofInnerIfs", "internal/codec/decoder.go", "decodeOneofInner"},
		{"decodeOneofPropertyIfs", "internal/codec/decoder.go", "decodeOneofProperty"},
		{"decodeAnyIfs", "internal/codec/decoder.go", "decodeAny"},
		{"jsonObjectBodyIfs", "internal/codec/decoder.go", "jsonObjectBody"},
		{"decodeScalarIfs", "internal/codec/decoder.go", "decodeScalar"},
		{"decodeEnumIfs", "internal/codec/decoder.go", "decodeEnum"},
		{"decodeObjectPropertyIfs", "internal/codec/decoder.go", "decodeObjectProperty"},
		{"decodeObjectInnerIfs", "internal/codec/decoder.go", "decodeObjectInner"},
		{"decodeMapPropertyIfs", "internal/codec/decoder.go", "decodeMapProperty"},
		{"decodeMapFieldIfs", "internal/codec/decoder.go", "decodeMapField"},
		{"decodeArrayPropertyIfs", "internal/codec/decoder.go", "decodeArrayProperty"},
		{"decodeArrayFieldValueIfs", "internal/codec/decoder.go", "decodeArrayFieldValue"},
		{"expectDelimOrNullIfs", "internal/codec/decoder.go", "expectDelimOrNull"},
		{"expectDelimIfs", "internal/codec/decoder.go", "expectDelim"},
		{"popValueAsBytesIfs", "internal/codec/decoder.go", "popValueAsBytes"},
		{"encodeObjectBodyIfs", "internal/codec/structure_encode.go", "encodeObjectBody"},
		{"encodeMapIfs", "internal/codec/structure_encode.go", "encodeMap"},
		{"encodeArrayIfs", "internal/codec/structure_encode.go", "encodeArray"},
		{"encodeEnumIfs", "internal/codec/structure_encode.go", "encodeEnum"},
		{"decodeQueryIfs", "internal/codec/query.go", "decodeQuery"},
		{"propertyAtPathIfs", "internal/codec/query.go", "propertyAtPath"},
		{"queryGoValueIfs", "internal/codec/query.go", "queryGoValue"},
		{"encodeAnyIfs", "internal/codec/structure_encode.go", "encodeAny"},
		{"encodeOneofBodyIfs", "internal/codec/structure_encode.go", "encodeOneofBody"},
	}
	parsed := map[string]*ast.File{"internal/codec/decoder.go": dec, "internal/codec/structure_encode.go": enc}
	if _, qf, err := parseFile("internal/codec/query.go"); err == nil {
		parsed["internal/codec/query.go"] = qf
	} else {
		unknown("internal/codec/query.go")
	}
	for _, sh := range shapes {
		var facts []ifFact
		if f := parsed[sh.file]; f != nil {
			if fd := funcDecl(f, sh.fn); fd != nil && fd.Body != nil {
				facts = ifShape(fd.Body)
			} else {
				unknown("func " + sh.fn)
				facts = []ifFact{{"<unknown>", "<unknown>"}}
			}
		} else {
			facts = []ifFact{{"<unknown>", "<unknown>"}}
		}
		fmt.Fprintf(w, "def %s : List (String × String) := [", sh.lean)
		for i, f := range facts {
			if i > 0 {
				fmt.Fprint(w, ",")
			}
			fmt.Fprintf(w, "\n  (%s, %s)", leanStr(f.cond), leanStr(f.ret))
		}
		fmt.Fprintln(w, "]")
	}

	// the type switches of decodeMapField (item kinds of a map) and decodeRootNested (root kinds)
	for _, ts := range []struct{ lean, fn, tag string }{
		{"decodeMapField", "decodeMapField", "field"}, {"decodeRootNested", "decodeRootNested", "root"}} {
		cases := []string{"<unknown>"}
		defErr := false
		if fd := funcDecl(dec, ts.fn); fd != nil && fd.Body != nil {
			if sw := findSwitch(fd.Body, ts.tag); sw != nil {
				cases = nil
				for _, cc := range clausesOf(sw) {
					for _, n := range caseNames(cc) {
						if n == "default" {
							defErr = lastReturnIsError(cc)
							continue
						}
						cases = append(cases, n)
					}
				}
			} else {
				unknown("type switch in " + ts.fn)
			}
		} else {
			unknown("func " + ts.fn)
		}
		fmt.Fprintf(w, "def %sCases : List String := %s\n", ts.lean, leanStrList(cases))
		fmt.Fprintf(w, "def %sDefaultIsError : Bool := %s\n", ts.lean, leanBool(defErr))
	}

	// the member names the encoder writes literally, in source order (`enc.fieldLabel(<arg>)`;
	// a non-literal argument is listed as "<expr>")
	for _, lb := range []struct{ lean, fn string }{{"encodeAnyLabels", "encodeAny"}, {"encodeOneofBodyLabels", "encodeOneofBody"}} {
		labels := []string{"<unknown>"}
		if fd := funcDecl(enc, lb.fn); fd != nil && fd.Body != nil {
			labels = callLiteralArgs(fd.Body, "enc.fieldLabel", 0)
		} else {
			unknown("func " + lb.fn)
		}
		fmt.Fprintf(w, "def %s : List String := %s\n", lb.lean, leanStrList(labels))
	}
	// what follows the labels in encodeAny: addString(<type name expr>) and add(<data expr>)
	anyTypeArg, anyDataArg := []string{"<unknown>"}, []string{"<unknown>"}
	if fd := funcDecl(enc, "encodeAny"); fd != nil && fd.Body != nil {
		anyTypeArg = callArgTexts(fd.Body, "enc.addString", 0)
		anyDataArg = callArgTexts(fd.Body, "enc.add", 0)
	}
	fmt.Fprintf(w, "def encodeAnyTypeArgs : List String := %s\n", leanStrList(anyTypeArg))
	fmt.Fprintf(w, "def encodeAnyDataArgs : List String := %s\n", leanStrList(anyDataArg))

	// ---- the integer arm of scalarReflectFromGo: every call it makes, in source order. The model's
	// `decodeScalar` for the four integer kinds mirrors exactly this conversion chain (json.Number ->
	// ParseUint for UINT64, Int64() = ParseInt(…, 10, 64) otherwise; strings through ParseInt / ParseUint
	// with the format's bit size; no route through float64).
	intCalls := []string{"<unknown>"}
	if fd := funcDecl(vg, "scalarReflectFromGo"); fd != nil {
		if outer := findSwitch(fd.Body, "schema.Type"); outer != nil {
			for _, cc := range clausesOf(outer) {
				for _, name := range caseNames(cc) {
					if name == "Field_Integer" {
						intCalls = nil
						for _, c := range callNames(clauseBlock(cc)) {
							// result constructors, error constructors and the four integer type
							// conversions are not conversions of the INPUT: left out
							if strings.HasPrefix(c, "protoreflect.ValueOf") || c == "fmt.Errorf" ||
								c == "int32" || c == "int64" || c == "uint32" || c == "uint64" {
								continue
							}
							intCalls = append(intCalls, c)
						}
					}
				}
			}
		}
	}
	fmt.Fprintf(w, "def reflectFromGoIntegerConversions : List String := %s\n", leanStrList(intCalls))

	// ---- the scalar writers: per Go-type arm of encodeScalarField the calls it makes (in source
	// order, outermost first), and per primitive of encoder.go its calls and string / char literals.
	// The model's `encodeScalar` mirrors exactly these: which kinds are quoted (addQuoted / addString)
	// and which are bare (add), base64.StdEncoding in one piece, FormatFloat 'g' -1, the three
	// non-finite literals.
	fmt.Fprint(w, "def encodeScalarCalls : List (String × List String) := [")
	if fd := funcDecl(enc, "encodeScalarField"); fd != nil {
		if sw := findSwitch(fd.Body, "val"); sw != nil {
			first := true
			for _, cc := range clausesOf(sw) {
				calls := callNames(clauseBlock(cc))
				for _, n := range caseNames(cc) {
					if !first {
						fmt.Fprint(w, ",")
					}
					first = false
					fmt.Fprintf(w, "\n  (%s, %s)", leanStr(n), leanStrList(calls))
				}
			}
		} else {
			fmt.Fprintf(w, "(%s, [])", leanStr("<unknown>"))
		}
	} else {
		fmt.Fprintf(w, "(%s, [])", leanStr("<unknown>"))
	}
	fmt.Fprintln(w, "]")
	fmt.Fprint(w, "def encoderPrimitives : List (String × List String × List String) := [")
	if _, ef, err := parseFile("internal/codec/encoder.go"); err == nil {
		for i, fn := range []string{"fieldLabel", "addString", "addQuoted", "addInt32", "addUint32", "addInt64", "addUint64", "addBool", "addFloat", "fieldSep", "openObject", "closeObject", "openArray", "closeArray"} {
			calls, lits := []string{"<unknown>"}, []string{"<unknown>"}
			if fd := funcDecl(ef, fn); fd != nil && fd.Body != nil {
				calls, lits = callNames(fd.Body), basicLits(fd.Body)
			} else {
				unknown("func " + fn + " in encoder.go")
			}
			if i > 0 {
				fmt.Fprint(w, ",")
			}
			fmt.Fprintf(w, "\n  (%s, %s, %s)", leanStr(fn), leanStrList(calls), leanStrList(lits))
		}
	} else {
		unknown("internal/codec/encoder.go")
	}
	fmt.Fprintln(w, "]")

	// decoder constants: maxAnyDepth, the depth handed to the nested decode, the reserved keys
	maxAny := "0 -- <unknown>"
	for _, d := range dec.Decls {
		if gd, isG := d.(*ast.GenDecl); isG && gd.Tok == token.CONST {
			for _, sp := range gd.Specs {
				vs := sp.(*ast.ValueSpec)
				for i, n := range vs.Names {
					if n.Name == "maxAnyDepth" && i < len(vs.Values) {
						if bl, isB := vs.Values[i].(*ast.BasicLit); isB && bl.Kind == token.INT && isDecimal(bl.Value) {
							maxAny = bl.Value
						}
					}
				}
			}
		}
	}
	if strings.Contains(maxAny, "unknown") {
		unknown("const maxAnyDepth")
	}
	fmt.Fprintf(w, "def maxAnyDepthConst : Nat := %s\n", maxAny)
	nestedArgs := []string{"<unknown>"}
	if fd := funcDecl(dec, "decodeAny"); fd != nil && fd.Body != nil {
		nestedArgs = callArgTexts(fd.Body, "dec.codec.decodeNested", 2)
	}
	fmt.Fprintf(w, "def decodeAnyNestedDepthArgs : List String := %s\n", leanStrList(nestedArgs))
	rootDepthArgs := []string{"<unknown>"}
	if fd := funcDecl(dec, "decode"); fd != nil && fd.Body != nil {
		rootDepthArgs = callArgTexts(fd.Body, "c.decodeNested", 2)
	}
	if fd := funcDecl(dec, "decodeRoot"); fd != nil && fd.Body != nil {
		rootDepthArgs = append(rootDepthArgs, callArgTexts(fd.Body, "c.decodeRootNested", 2)...)
	}
	fmt.Fprintf(w, "def decodeRootDepthArgs : List String := %s\n", leanStrList(rootDepthArgs))

	// query.go: the separator of the key path, the literals queryGoValue turns into booleans
	splitArgs := []string{"<unknown>"}
	boolCases := [][2]string{{"<unknown>", "<unknown>"}}
	if qf := parsed["internal/codec/query.go"]; qf != nil {
		if fd := funcDecl(qf, "propertyAtPath"); fd != nil && fd.Body != nil {
			splitArgs = callArgTexts(fd.Body, "strings.Split", 1)
		}
		if fd := funcDecl(qf, "queryGoValue"); fd != nil && fd.Body != nil {
			if sw := findSwitch(fd.Body, "value"); sw != nil {
				boolCases = nil
				for _, cc := range clausesOf(sw) {
					ret := "<none>"
					for _, st := range cc.Body {
						if rs, isR := st.(*ast.ReturnStmt); isR && len(rs.Results) == 1 {
							ret = srcText(rs.Results[0])
						}
					}
					for _, n := range caseNames(cc) {
						boolCases = append(boolCases, [2]string{n, ret})
					}
				}
			}
		}
	}
	fmt.Fprintf(w, "def querySplitArgs : List String := %s\n", leanStrList(splitArgs))
	fmt.Fprint(w, "def queryBoolCases : List (String × String) := [")
	for i, bc := range boolCases {
		if i > 0 {
			fmt.Fprint(w, ", ")
		}
		fmt.Fprintf(w, "(%s, %s)", leanStr(bc[0]), leanStr(bc[1]))
	}
	fmt.Fprintln(w, "]")

	fmt.Fprintf(w, "def codecExtractorOk : Bool := %s\n", leanBool(ok))
	fmt.Fprintln(w, "end J5V.Generated.Codec")
	return nil
}

// ---- helpers of the round-4 facts

type ifFact struct{ cond, ret string }

func srcText(n ast.Node) string {
	var b bytes.Buffer
	if err := printer.Fprint(&b, token.NewFileSet(), n); err != nil {
		return "<unprintable>"
	}
	return strings.Join(strings.Fields(b.String()), " ")
}

func isDecimal(s string) bool {
	if s == "" {
		return false
	}
	for _, r := range s {
		if r < '0' || r > '9' {
			return false
		}
	}
	return true
}

// bodyOutcome classifies what a block does directly (not in nested statements).
func bodyOutcome(b *ast.BlockStmt) string {
	out := "none"
	for _, st := range b.List {
		rs, isRet := st.(*ast.ReturnStmt)
		if !isRet {
			continue
		}
		switch {
		case len(rs.Results) == 0:
			out = "return"
		case exprString(rs.Results[len(rs.Results)-1]) == "nil":
			out = "nil"
		case len(rs.Results) == 1 && isValueExpr(rs.Results[0]):
			out = "value"
		default:
			out = "err"
		}
	}
	return out
}

// isValueExpr: true / false / an identifier that is not an error variable (used for helpers that
// return a plain value, e.g. queryGoValue)
func isValueExpr(e ast.Expr) bool {
	if id, ok := e.(*ast.Ident); ok {
		return id.Name == "true" || id.Name == "false"
	}
	return false
}

func ifShape(n ast.Node) []ifFact {
	var out []ifFact
	ast.Inspect(n, func(x ast.Node) bool {
		ifs, ok := x.(*ast.IfStmt)
		if !ok {
			return true
		}
		cond := srcText(ifs.Cond)
		if ifs.Init != nil {
			init := srcText(ifs.Init)
			// a callback passed in the init statement is listed through its own `if`s
			ast.Inspect(ifs.Init, func(y ast.Node) bool {
				if fl, isFL := y.(*ast.FuncLit); isFL {
					init = strings.Replace(init, srcText(fl), "func{…}", 1)
					return false
				}
				return true
			})
			cond = init + "; " + cond
		}
		out = append(out, ifFact{cond, bodyOutcome(ifs.Body)})
		return true
	})
	// plain else blocks, in source order after their if: collected in a second pass so that the
	// order of the first list stays the order of the `if` keywords
	ast.Inspect(n, func(x ast.Node) bool {
		if ifs, ok := x.(*ast.IfStmt); ok {
			if eb, isBlock := ifs.Else.(*ast.BlockStmt); isBlock {
				out = append(out, ifFact{"else of " + srcText(ifs.Cond), bodyOutcome(eb)})
			}
		}
		return true
	})
	return out
}

// callArgTexts: the source text of argument idx of every call of fun (as printed by exprString
// without the argument list), in source order.
func callArgTexts(n ast.Node, fun string, idx int) []string {
	out := []string{}
	ast.Inspect(n, func(x ast.Node) bool {
		if ce, ok := x.(*ast.CallExpr); ok && exprString(ce.Fun) == fun {
			if idx < len(ce.Args) {
				out = append(out, srcText(ce.Args[idx]))
			} else {
				out = append(out, "<missing>")
			}
		}
		return true
	})
	return out
}

// callLiteralArgs: like callArgTexts, but string literals are unquoted and anything else is "<expr>".
func callLiteralArgs(n ast.Node, fun string, idx int) []string {
	out := []string{}
	ast.Inspect(n, func(x ast.Node) bool {
		if ce, ok := x.(*ast.CallExpr); ok && exprString(ce.Fun) == fun {
			v := "<missing>"
			if idx < len(ce.Args) {
				v = "<expr> " + srcText(ce.Args[idx])
				if bl, isB := ce.Args[idx].(*ast.BasicLit); isB && bl.Kind == token.STRING {
					if u, okU := unquote(bl.Value); okU {
						v = u
					}
				}
			}
			out = append(out, v)
		}
		return true
	})
	return out
}

// callNames: the callee of every call expression, in source order (outermost call first;
// conversions such as []byte(x) and float64(x) included).
func callNames(n ast.Node) []string {
	out := []string{}
	ast.Inspect(n, func(x ast.Node) bool {
		if ce, ok := x.(*ast.CallExpr); ok {
			out = append(out, exprString(ce.Fun))
		}
		return true
	})
	return out
}

// basicLits: every string / char / int literal, verbatim, in source order.
func basicLits(n ast.Node) []string {
	out := []string{}
	ast.Inspect(n, func(x ast.Node) bool {
		if bl, ok := x.(*ast.BasicLit); ok {
			out = append(out, bl.Value)
		}
		return true
	})
	return out
}
