package main

// compile_shapes: go/ast SHAPE facts for functions of j5convert that the Lean model mirrors
// (lean/J5V/Compile/File.lean `ensureImport`, `FileB.apply`; Convert.lean / Walk.lean message assembly):
//
//   builders  ->  lean/J5V/Generated/BuildersFacts.lean
//     ensureImportShape : the statements of fileContext.ensureImport, in order, each classified
//                         (anything unrecognised is emitted as "unknown:<source>", so the obligation fails);
//     descriptorWrites  : every assignment, in the non-test files of internal/j5s/j5convert, to a descriptor
//                         list (Dependency, MessageType, EnumType, Service, NestedType, Field, OneofDecl, Value,
//                         Method): (file, function, target, shape) with shape
//                           append-end   X = append(X, one element)      — visit order = output order
//                           literal      X = […]{…}                      — a fresh list
//                           other:<src>  anything else (prepend, insert, append of several, different slice …)
//                         plus calls that reorder / edit such a list in place (slices.Insert, slices.Reverse,
//                         sort.*, slices.Sort*) as shape call:<fn>.

import (
	"bytes"
	"fmt"
	"go/ast"
	"go/printer"
	"go/token"
	"path/filepath"
	"strings"
)

func init() {
	extractors["builders"] = extractBuilders
}

func nodeSrc(fset *token.FileSet, n ast.Node) string {
	var b bytes.Buffer
	_ = printer.Fprint(&b, fset, n)
	return strings.Join(strings.Fields(b.String()), " ")
}

var descriptorLists = map[string]bool{
	"Dependency": true, "MessageType": true, "EnumType": true, "Service": true, "NestedType": true,
	"Field": true, "OneofDecl": true, "Value": true, "Method": true,
}

// isPanicIf: `if <cond> { panic(…) }` without else; returns the condition source
func isPanicIf(fset *token.FileSet, s ast.Stmt) (string, bool) {
	is, ok := s.(*ast.IfStmt)
	if !ok || is.Init != nil || is.Else != nil || len(is.Body.List) != 1 {
		return "", false
	}
	es, ok := is.Body.List[0].(*ast.ExprStmt)
	if !ok {
		return "", false
	}
	ce, ok := es.X.(*ast.CallExpr)
	if !ok || exprString(ce.Fun) != "panic" {
		return "", false
	}
	return nodeSrc(fset, is.Cond), true
}

// isReturnIf: `if <cond> { return }` without else
func isReturnIf(fset *token.FileSet, s ast.Stmt) (string, bool) {
	is, ok := s.(*ast.IfStmt)
	if !ok || is.Init != nil || is.Else != nil || len(is.Body.List) != 1 {
		return "", false
	}
	rs, ok := is.Body.List[0].(*ast.ReturnStmt)
	if !ok || len(rs.Results) != 0 {
		return "", false
	}
	return nodeSrc(fset, is.Cond), true
}

func classifyEnsureImportStmt(fset *token.FileSet, s ast.Stmt, param string) string {
	if cond, ok := isPanicIf(fset, s); ok {
		switch cond {
		case param + ` == ""`:
			return "panic-if-empty"
		case `!strings.Contains(` + param + `, "/")`:
			return "panic-if-no-slash"
		}
		return "unknown:" + nodeSrc(fset, s)
	}
	if cond, ok := isReturnIf(fset, s); ok {
		if strings.HasPrefix(cond, param+" == *") && strings.HasSuffix(cond, ".Name") {
			return "return-if-self"
		}
		return "unknown:" + nodeSrc(fset, s)
	}
	if rs, ok := s.(*ast.RangeStmt); ok {
		// for _, imp := range X.Dependency { if imp == param { return } }
		if v, ok := rs.Value.(*ast.Ident); ok && rs.Tok == token.DEFINE && len(rs.Body.List) == 1 {
			if cond, ok := isReturnIf(fset, rs.Body.List[0]); ok && (cond == v.Name+" == "+param || cond == param+" == "+v.Name) {
				return "return-if-present:" + exprString(rs.X)
			}
		}
		return "unknown:" + nodeSrc(fset, s)
	}
	if as, ok := s.(*ast.AssignStmt); ok && len(as.Lhs) == 1 && len(as.Rhs) == 1 && as.Tok == token.ASSIGN {
		if ce, ok := as.Rhs[0].(*ast.CallExpr); ok && exprString(ce.Fun) == "append" && len(ce.Args) == 2 && !ce.Ellipsis.IsValid() &&
			exprString(ce.Args[0]) == exprString(as.Lhs[0]) && exprString(ce.Args[1]) == param {
			return "append:" + exprString(as.Lhs[0])
		}
		return "unknown:" + nodeSrc(fset, s)
	}
	if es, ok := s.(*ast.ExprStmt); ok {
		if ce, ok := es.X.(*ast.CallExpr); ok && exprString(ce.Fun) == "sort.Strings" && len(ce.Args) == 1 {
			return "sort.Strings:" + exprString(ce.Args[0])
		}
	}
	return "unknown:" + nodeSrc(fset, s)
}

func extractBuilders(w *strings.Builder) error {
	fmt.Fprintln(w, "namespace J5V.Generated.Builders")
	dir := "internal/j5s/j5convert"
	var shape []string
	found := false
	var writes []string
	for _, rel := range goFiles(dir) {
		fset, f, err := parseFile(rel)
		if err != nil {
			return err
		}
		short := filepath.Base(rel)
		for _, d := range f.Decls {
			fd, ok := d.(*ast.FuncDecl)
			if !ok || fd.Body == nil {
				continue
			}
			if funcName(fd) == "fileContext.ensureImport" {
				found = true
				param := "?"
				if fd.Type.Params != nil && len(fd.Type.Params.List) == 1 && len(fd.Type.Params.List[0].Names) == 1 {
					param = fd.Type.Params.List[0].Names[0].Name
				}
				for _, s := range fd.Body.List {
					shape = append(shape, classifyEnsureImportStmt(fset, s, param))
				}
			}
			ast.Inspect(fd.Body, func(n ast.Node) bool {
				switch x := n.(type) {
				case *ast.AssignStmt:
					for i, l := range x.Lhs {
						sel, ok := l.(*ast.SelectorExpr)
						if !ok || !descriptorLists[sel.Sel.Name] {
							// an element write X.Field[i] = … edits a list in place
							if ix, ok := l.(*ast.IndexExpr); ok {
								if s2, ok := ix.X.(*ast.SelectorExpr); ok && descriptorLists[s2.Sel.Name] {
									writes = append(writes, fmt.Sprintf("(%s, %s, %s, %s)", leanStr(short), leanStr(funcName(fd)), leanStr(exprString(s2)), leanStr("other:"+nodeSrc(fset, x))))
								}
							}
							continue
						}
						target := exprString(sel)
						sh := "other:" + nodeSrc(fset, x)
						if i < len(x.Rhs) && len(x.Lhs) == len(x.Rhs) && x.Tok == token.ASSIGN {
							switch r := x.Rhs[i].(type) {
							case *ast.CallExpr:
								if exprString(r.Fun) == "append" && len(r.Args) == 2 && !r.Ellipsis.IsValid() && exprString(r.Args[0]) == target {
									sh = "append-end"
								}
							case *ast.CompositeLit:
								sh = "literal"
							}
						}
						writes = append(writes, fmt.Sprintf("(%s, %s, %s, %s)", leanStr(short), leanStr(funcName(fd)), leanStr(target), leanStr(sh)))
					}
				case *ast.CallExpr:
					fn := exprString(x.Fun)
					if strings.HasPrefix(fn, "sort.") || strings.HasPrefix(fn, "slices.") {
						for _, a := range x.Args {
							if sel, ok := a.(*ast.SelectorExpr); ok && descriptorLists[sel.Sel.Name] {
								writes = append(writes, fmt.Sprintf("(%s, %s, %s, %s)", leanStr(short), leanStr(funcName(fd)), leanStr(exprString(sel)), leanStr("call:"+fn)))
							}
						}
					}
				}
				return true
			})
		}
	}
	if !found {
		shape = []string{"unknown:fileContext.ensureImport not found"}
	}
	fmt.Fprintf(w, "/-- the statements of `fileContext.ensureImport` (j5convert/builders.go), in order -/\n")
	fmt.Fprintf(w, "def ensureImportShape : List String := %s\n", leanStrList(shape))
	fmt.Fprintf(w, "/-- every write to a descriptor list in the non-test files of internal/j5s/j5convert: (file, function, target, shape) -/\n")
	fmt.Fprintf(w, "def descriptorWrites : List (String × String × String × String) := [\n  %s]\n", strings.Join(writes, ",\n  "))
	fmt.Fprintln(w, "end J5V.Generated.Builders")
	return nil
}

// importmap -> lean/J5V/Generated/ImportmapFacts.lean
//   importLoop : the statements of the `for … range file.Imports` loop of j5Imports (j5convert/imports.go), in order:
//     "if <cond> { lets … ; writes out[k1],out[k2] ; <continue|return|-> }"   an if without else; the keys of `out[...] = …`
//                                                                     assignments inside, and how the block ends
//     "write out[<key>]"                                             a top-level write to the import map
//     "let <lhs> := <rhs>"                                            any other short declaration / assignment
//     "unknown:<source>"                                              anything else
//   The model (lean/J5V/Compile/Imports.lean `j5ImportsGo`) has exactly three arms — file path (one entry under the
//   package of the directory), alias (one entry), package (two entries: last-but-one segment and full name) —
//   and "last write wins" (`mapGet`).

func init() {
	extractors["importmap"] = extractImportMap
}

func outWrites(fset *token.FileSet, b *ast.BlockStmt) []string {
	var keys []string
	ast.Inspect(b, func(n ast.Node) bool {
		if as, ok := n.(*ast.AssignStmt); ok {
			for _, l := range as.Lhs {
				if ix, ok := l.(*ast.IndexExpr); ok && exprString(ix.X) == "out" {
					keys = append(keys, "out["+nodeSrc(fset, ix.Index)+"]")
				}
			}
		}
		return true
	})
	return keys
}

func extractImportMap(w *strings.Builder) error {
	fmt.Fprintln(w, "namespace J5V.Generated.Importmap")
	rel := "internal/j5s/j5convert/imports.go"
	fset, f, err := parseFile(rel)
	if err != nil {
		return err
	}
	rows := []string{"unknown:j5Imports loop not found"}
	for _, d := range f.Decls {
		fd, ok := d.(*ast.FuncDecl)
		if !ok || fd.Body == nil || funcName(fd) != "j5Imports" {
			continue
		}
		for _, s := range fd.Body.List {
			rs, ok := s.(*ast.RangeStmt)
			if !ok || exprString(rs.X) != "file.Imports" {
				continue
			}
			rows = nil
			for _, st := range rs.Body.List {
				switch x := st.(type) {
				case *ast.IfStmt:
					if x.Else != nil || x.Init != nil {
						rows = append(rows, "unknown:"+nodeSrc(fset, x))
						continue
					}
					end := "-"
					if n := len(x.Body.List); n > 0 {
						switch l := x.Body.List[n-1].(type) {
						case *ast.BranchStmt:
							end = l.Tok.String()
						case *ast.ReturnStmt:
							end = "return"
						}
					}
					var lets []string
					for _, bs := range x.Body.List {
						if as, ok := bs.(*ast.AssignStmt); ok && as.Tok == token.DEFINE && len(as.Lhs) == 1 {
							lets = append(lets, nodeSrc(fset, as.Lhs[0])+" := "+nodeSrc(fset, as.Rhs[0]))
						}
					}
					rows = append(rows, fmt.Sprintf("if %s { lets %s ; writes %s ; %s }", nodeSrc(fset, x.Cond), strings.Join(lets, ","), strings.Join(outWrites(fset, x.Body), ","), end))
				case *ast.AssignStmt:
					if len(x.Lhs) == 1 {
						if ix, ok := x.Lhs[0].(*ast.IndexExpr); ok && exprString(ix.X) == "out" {
							rows = append(rows, "write out["+nodeSrc(fset, ix.Index)+"]")
							continue
						}
					}
					rhs := nodeSrc(fset, x.Rhs[0])
					if len(rhs) > 60 {
						rhs = rhs[:60] + "…"
					}
					rows = append(rows, "let "+nodeSrc(fset, x.Lhs[0])+" := "+rhs)
				case *ast.DeclStmt:
					rows = append(rows, "let "+nodeSrc(fset, x))
				default:
					rows = append(rows, "unknown:"+nodeSrc(fset, st))
				}
			}
		}
	}
	fmt.Fprintf(w, "/-- the statements of the import loop of `j5Imports` (j5convert/imports.go), in order -/\n")
	fmt.Fprintf(w, "def importLoop : List String := [\n  %s]\n", strings.Join(func() []string {
		q := make([]string, len(rows))
		for i, r := range rows {
			q[i] = leanStr(r)
		}
		return q
	}(), ",\n  "))
	fmt.Fprintln(w, "end J5V.Generated.Importmap")
	return nil
}
